import SafeNet.Gen.Lifecycle
/-!
# C19 model: service lifecycle (registry) vs. the managed processes (OS), under faults

`World = Registry × OS`. Each operation of the node manager is written as the exact sequence of
`ServiceControl` / `RpcActions` calls that the Rust makes (`ant-node-manager/src/lib.rs`
`ServiceManager::{start,stop,remove,upgrade}`, `refresh_node_registry` (partial and full), `status_report`;
`add_services/mod.rs` `add_node`; `rpc.rs` `restart_node_service` (the daemon's restart path);
`ant-service-management/src/node.rs` `on_start/on_stop/on_remove`), with early exits on failure. Every fallible
call consumes one entry of the fault oracle (`Fx.pop`), which has three outcomes: the call works (`ok`), it returns an
error and has no effect (`fail`), or it returns an error AFTER having had its effect (`failAfter`: `start` launched
the process and then reported failure, `stop` killed it, `uninstall` removed / `install` wrote the definition,
`get_available_port` consumed the port; an RPC query has no effect, there `failAfter` = `fail`).
`get_process_pid` is an observation of the process table (`OS.lookup`) and is not subject to faults.

Service identity: the service name is `antnode{number}`, its data directory `<base>/antnode{number}` and its
binary `<data dir>/antnode`, so name, directory and binary path are all represented by `number`.
The numbering rules (`startNumber`, `restartNumber`), whether `on_stop` clears the pid, whether `on_start` writes before
or after its RPC calls, whether the daemon's restart records a replacement service whose first start failed, whether
`add_node` checks the requested port ranges against each other, and — for the command layer, `CmdCfg` at the end of this
file — where each `antctl` command / antctld's `restart_handler` saves the registry and whether it runs the partial
refresh first are read from the Rust source by `rs2lean` (`Gen/Lifecycle.lean`).

Node RPC: every service definition carries the RPC port of its registry entry; a call to an RPC port is answered by
the oldest live process launched with that port (`OS.rpcOwner`: the first to bind wins — the daemon's restart without
retained peer id gives the replacement service the RPC address of the service it replaces). `node_info` reports the
owner's pid and the peer id of the owner's service (a function of the service number: the key lives in the data dir).
-/
namespace SafeNet.Lifecycle

inductive Status where
  | added | running | stopped | removed
deriving DecidableEq, Repr

/-- `NodeServiceData`, the fields the lifecycle reads or writes. -/
structure Svc where
  number : Nat
  status : Status
  pid : Option Nat
  nodePort : Option Nat
  metricsPort : Option Nat
  rpcPort : Nat
  version : Nat
  /-- `connected_peers`, as a count (`None` until a full `on_start`, `None` again after `on_stop`) -/
  peers : Option Nat
  /-- `peer_id`, as the number of the service the id belongs to (`None` until a full `on_start`; never cleared) -/
  peer : Option Nat
  /-- the UDP port of `listen_addr` (`get_antnode_port`): written by every full `on_start` (`None` if the node reported
  no listener), never cleared; the daemon's restart reinstalls the service with this as `--port` -/
  lport : Option Nat
deriving DecidableEq, Repr

structure Proc where
  pid : Nat
  svc : Nat
  port : Nat
  /-- the RPC port of the service definition the process was launched from -/
  rpc : Nat
deriving DecidableEq, Repr

/-- The simulated OS: service definitions (number ↦ configured `--port`, `--rpc` port), live processes, data
directories. -/
structure OS where
  installed : List (Nat × Option Nat × Nat)
  procs : List Proc
  nextPid : Nat
  nextPort : Nat
  dirs : List Nat
  flaky : List Nat
deriving Repr

structure World where
  reg : List Svc
  os : OS
deriving Repr

def OS.init : OS := ⟨[], [], 100, 30000, [], []⟩
def World.init : World := ⟨[], OS.init⟩

/-- What the fault oracle says about one fallible call. -/
inductive Fault where
  | ok | fail | failAfter
deriving DecidableEq, Repr

/-- Fault oracle: one entry per fallible call (missing entries = no fault) and the number of calls made. -/
structure Fx where
  faults : List Fault
  calls : Nat
deriving Repr

def Fx.pop (f : Fx) : Fault × Fx :=
  match f.faults with
  | [] => (.ok, ⟨[], f.calls + 1⟩)
  | b :: r => (b, ⟨r, f.calls + 1⟩)

structure Res where
  failed : Bool
  text : String
deriving Repr

def Res.ok (t : String := "ok") : Res := ⟨false, t⟩
def Res.err (t : String) : Res := ⟨true, t⟩

/-! ## OS primitives -/

def OS.lookup (os : OS) (n : Nat) : Option Proc := os.procs.find? (fun p => p.svc = n)
def OS.isInstalled (os : OS) (n : Nat) : Bool := os.installed.any (fun e => e.1 = n)
def OS.cfgPort (os : OS) (n : Nat) : Option Nat :=
  match os.installed.find? (fun e => e.1 = n) with
  | some e => e.2.1
  | none => none
def OS.cfgRpc (os : OS) (n : Nat) : Option Nat :=
  match os.installed.find? (fun e => e.1 = n) with
  | some e => some e.2.2
  | none => none
/-- Who answers on an RPC port: the oldest live process launched with it. -/
def OS.rpcOwner (os : OS) (rpc : Nat) : Option Proc := os.procs.find? (fun p => p.rpc = rpc)

/-- `ServiceControl::start` after the fault check; `none` = no such service definition. -/
def osStart (os : OS) (n : Nat) : Option OS :=
  if !os.isInstalled n then none
  else if (os.lookup n).isSome || os.flaky.contains n then some os
  else some { os with
    procs := os.procs ++ [⟨os.nextPid, n, (os.cfgPort n).getD (40000 + os.nextPid), (os.cfgRpc n).getD 0⟩],
    nextPid := os.nextPid + 1 }

def osStop (os : OS) (n : Nat) : Option OS :=
  if !os.isInstalled n then none
  else some { os with procs := os.procs.filter (fun p => p.svc ≠ n) }

/-- Removes the definition only; a live process keeps running. `none` = ServiceRemovedManually. -/
def osUninstall (os : OS) (n : Nat) : Option OS :=
  if !os.isInstalled n then none
  else some { os with installed := os.installed.filter (fun e => e.1 ≠ n) }

def osInstall (os : OS) (n : Nat) (port : Option Nat) (rpc : Nat) : OS :=
  { os with installed := os.installed.filter (fun e => e.1 ≠ n) ++ [(n, port, rpc)] }

def osKill (os : OS) (n : Nat) : OS := { os with procs := os.procs.filter (fun p => p.svc ≠ n) }

/-- The service's process dies and comes back under a new pid without the manager (service-manager auto-restart,
crash + restart). Nothing happens if the service has no process. -/
def osRestart (os : OS) (n : Nat) : OS :=
  match os.lookup n with
  | none => os
  | some q =>
    { os with
      procs := os.procs.filter (fun p => p.svc ≠ n) ++
        [⟨os.nextPid, n, (os.cfgPort n).getD (40000 + os.nextPid), (os.cfgRpc n).getD q.rpc⟩],
      nextPid := os.nextPid + 1 }

/-- What the fake node RPC reports in `network_info`, as a function of the pid: number of connected peers
(0, 1 or 40) and whether the listener list is empty. -/
def peersOf (pid : Nat) : Nat := match (pid + 2) % 3 with | 0 => 0 | 1 => 1 | _ => 40
def listenersEmpty (pid : Nat) : Bool := pid % 7 == 3

/-! ## `NodeService` state actions -/

def onStop (s : Svc) : Svc :=
  { s with pid := if Gen.Lifecycle.onStopClearsPid then none else s.pid, status := .stopped, peers := none }

/-- The registry entry `on_start` leaves behind when one of its RPC calls fails. -/
def rpcErrSvc (s : Svc) (pid : Nat) : Svc :=
  if Gen.Lifecycle.onStartWritesAfterRpc then s else { s with status := .running, pid := some pid }

/-- One RPC call to port `rpc`: fault bit first, then the call fails if no live process owns the port. -/
def rpcCall (os : OS) (rpc : Nat) (fx : Fx) (faultTxt : String) : Fx × Option String :=
  let (b, fx) := fx.pop
  if b ≠ .ok then (fx, some faultTxt)
  else match os.rpcOwner rpc with
    | none => (fx, some "svc:RpcConnectionError")
    | some _ => (fx, none)

/-- `on_start(Some(pid), full_refresh = true)`: nothing is written unless every RPC call succeeded; then the pid
handed in, and from the answers of the RPC port's owner: peer id, connected peers, listeners (`listen_addr`, and the
node port if a listener is reported). A failing `network_info` surfaces as `RpcNodeInfoError` (`RpcClient` maps it so). -/
def onStartFull (s : Svc) (os : OS) (fx : Fx) (pid : Nat) (ct : Bool) : Svc × Fx × Option String :=
  let (fx, e0) := if ct then rpcCall os s.rpcPort fx "svc:RpcConnectionError" else (fx, none)
  match e0 with
  | some e => (rpcErrSvc s pid, fx, some e)
  | none =>
    let (fx, e1) := rpcCall os s.rpcPort fx "svc:RpcNodeInfoError"
    match e1 with
    | some e => (rpcErrSvc s pid, fx, some e)
    | none =>
      let (fx, e2) := rpcCall os s.rpcPort fx "svc:RpcNodeInfoError"
      match e2 with
      | some e => (rpcErrSvc s pid, fx, some e)
      | none =>
        match os.rpcOwner s.rpcPort with
        | some p =>
          ({ s with status := .running, pid := some pid,
                    nodePort := if listenersEmpty p.pid then s.nodePort else some p.port,
                    peers := some (peersOf p.pid), peer := some p.svc,
                    lport := if listenersEmpty p.pid then none else some p.port }, fx, none)
        | none => ({ s with status := .running, pid := some pid }, fx, none)

/-! ## `ServiceManager` operations on one service -/

def svcStart (s : Svc) (os : OS) (fx : Fx) (ct : Bool) : Svc × OS × Fx × Res :=
  if s.status = .running ∧ (os.lookup s.number).isSome then (s, os, fx, .ok) else
  let (b, fx) := fx.pop
  if b = .fail then (s, os, fx, .err "err:svc:Io:Other") else
  match osStart os s.number with
  | none => (s, os, fx, .err "err:svc:Io:NotFound")
  | some os =>
    if b = .failAfter then (s, os, fx, .err "err:svc:Io:Other") else
    match os.lookup s.number with
    | none => (s, os, fx, .err "err:PidNotFoundAfterStarting")
    | some p =>
      let (s', fx, e) := onStartFull s os fx p.pid ct
      match e with
      | some t => (s', os, fx, .err ("err:" ++ t))
      | none => (s', os, fx, .ok)

/-- The error path of `ServiceManager::stop` (`service_control.stop` returned an error): if `stopFailChecksProcess`, the
process is looked up again and a service whose process has gone is recorded as stopped before the error is returned. -/
def stopFailed (s : Svc) (os : OS) : Svc :=
  if Gen.Lifecycle.stopFailChecksProcess then (if (os.lookup s.number).isSome then s else onStop s) else s

def svcStop (s : Svc) (os : OS) (fx : Fx) : Svc × OS × Fx × Res :=
  match s.status with
  | .added => (s, os, fx, .ok)
  | .removed => (s, os, fx, .ok)
  | .stopped => (s, os, fx, .ok)
  | .running =>
    match s.pid with
    | none => (s, os, fx, .err "err:PidNotSet")
    | some _ =>
      match os.lookup s.number with
      | none => (onStop s, os, fx, .ok)
      | some _ =>
        let (b, fx) := fx.pop
        if b = .fail then (stopFailed s os, os, fx, .err "err:svc:Io:Other") else
        match osStop os s.number with
        | none => (stopFailed s os, os, fx, .err "err:svc:Io:NotFound")
        | some os =>
          if b = .failAfter then (stopFailed s os, os, fx, .err "err:svc:Io:Other") else (onStop s, os, fx, .ok)

def svcRemove (s : Svc) (os : OS) (fx : Fx) (keep : Bool) : Svc × OS × Fx × Res :=
  if s.status = .running then
    if (os.lookup s.number).isSome then (s, os, fx, .err "err:ServiceAlreadyRunning")
    else (onStop s, os, fx, .err "err:ServiceStatusMismatch")
  else
    let (b, fx) := fx.pop
    if b = .fail then (s, os, fx, .err "err:svc:Io:Other") else
    -- (no definition: `ServiceRemovedManually`, which `remove` skips over)
    if b = .failAfter ∧ os.isInstalled s.number then
      ((s, (osUninstall os s.number).getD os, fx, .err "err:svc:Io:Other") : Svc × OS × Fx × Res) else
    let os := (osUninstall os s.number).getD os
    let os := if keep then os else { os with dirs := os.dirs.filter (fun d => d ≠ s.number) }
    ({ s with status := .removed }, os, fx, .ok)

def upText (force : Bool) : String := if force then "ok:Forced" else "ok:Upgraded"

def svcUpgrade (s : Svc) (os : OS) (fx : Fx) (force start : Bool) (ver : Nat) (ct : Bool) :
    Svc × OS × Fx × Res :=
  if !force ∧ ver ≤ s.version then (s, os, fx, .ok "ok:NotRequired") else
  match svcStop s os fx with
  | (s, os, fx, r) =>
  if r.failed then (s, os, fx, r) else
  if !os.dirs.contains s.number then (s, os, fx, .err "err:Io:NotFound") else
  let (b, fx) := fx.pop
  if b = .fail then (s, os, fx, .err "err:svc:Io:Other") else
  match osUninstall os s.number with
  | none => (s, os, fx, .err "err:svc:ServiceRemovedManually")
  | some os =>
    if b = .failAfter then (s, os, fx, .err "err:svc:Io:Other") else
    let (b, fx) := fx.pop
    if b = .fail then (s, os, fx, .err "err:svc:Io:Other") else
    let os := osInstall os s.number s.nodePort s.rpcPort
    if b = .failAfter then (s, os, fx, .err "err:svc:Io:Other") else
    if start then
      match svcStart s os fx ct with
      | (s', os, fx, r) =>
        if r.failed then
          ({ s' with version := ver }, os, fx, ⟨true, "ok:UpgradedButNotStarted:" ++ (r.text.drop 4).toString⟩)
        else ({ s' with version := ver }, os, fx, .ok (upText force))
    else ({ s with version := ver }, os, fx, .ok (upText force))

/-- `refresh_node_registry(.., full_refresh = false, is_local_network = false)` for one entry. -/
def svcRefresh (os : OS) (s : Svc) : Svc :=
  match os.lookup s.number with
  | some p => { s with pid := some p.pid, status := .running }
  | none =>
    match s.status with
    | .added => s
    | .removed => s
    | _ => onStop s

/-- `refresh_node_registry(.., full_refresh = true, ..)` as `status_report` (`antctl status`) calls it: entry by entry,
`get_process_pid`, then for a live process `on_start(Some(pid), true)` through a `RpcClient` built from the recorded RPC
address (two RPC calls, each consuming a fault bit), for a dead one the same as the partial refresh. A failing RPC
leaves the loop (`?`): entries before it are refreshed, the failing one and those after it are untouched. -/
def refreshFull (os : OS) : List Svc → Fx → List Svc × Fx × Option String
  | [], fx => ([], fx, none)
  | s :: r, fx =>
    match os.lookup s.number with
    | some p =>
      match onStartFull s os fx p.pid false with
      | (s', fx, some e) => (s' :: r, fx, some e)
      | (s', fx, none) =>
        match refreshFull os r fx with
        | (r', fx, e) => (s' :: r', fx, e)
    | none =>
      match refreshFull os r fx with
      | (r', fx, e) => (svcRefresh os s :: r', fx, e)

/-! ## `restart_node_service` (the daemon, `antctld`) -/

/-- `retain_peer_id = true`: stop, uninstall, reinstall with the recorded settings (`--port` from `listen_addr`, no
metrics port), start — through a fresh `ServiceManager`, no connection timeout. `s` is the entry found by peer id. -/
def svcRestartRetain (s : Svc) (os : OS) (fx : Fx) : Svc × OS × Fx × Res :=
  match svcStop s os fx with
  | (s1, os, fx, r) =>
  if r.failed then (s1, os, fx, r) else
  let (b, fx) := fx.pop
  if b = .fail then (s1, os, fx, .err "err:uninstall") else
  match osUninstall os s1.number with
  | none => (s1, os, fx, .err "err:uninstall")
  | some os =>
    if b = .failAfter then (s1, os, fx, .err "err:uninstall") else
    let (b, fx) := fx.pop
    if b = .fail then (s1, os, fx, .err "err:install") else
    if b = .failAfter then (s1, osInstall os s1.number s.lport s1.rpcPort, fx, .err "err:install") else
    svcStart s1 (osInstall os s1.number s.lport s1.rpcPort) fx false

/-- `let new_node_number = ..`: the number of the replacement service. -/
def restartNumber (reg : List Svc) : Nat :=
  if Gen.Lifecycle.restartNumberFromMax then reg.foldl (fun m s => max m s.number) 0 + 1 else reg.length + 1

def mkDir (os : OS) (num : Nat) : OS :=
  { os with dirs := if os.dirs.contains num then os.dirs else os.dirs ++ [num] }

/-- `retain_peer_id = false`, after the old service `s1` was stopped: directories and binary for service `num`,
install (same RPC address as the old service, no node / metrics port), start; the new entry is pushed to the registry
after a successful start — and, if `restartRecordsFailedStart`, also after a failed one (it stays `Added`). -/
def restartFresh (num : Nat) (s1 : Svc) (os : OS) (fx : Fx) : Option Svc × OS × Fx × Res :=
  let os := mkDir os num
  let (b, fx) := fx.pop
  if b = .fail then (none, os, fx, .err "err:install") else
  if b = .failAfter then (none, osInstall os num none s1.rpcPort, fx, .err "err:install") else
  match svcStart ⟨num, .added, none, none, none, s1.rpcPort, s1.version, none, none, none⟩
      (osInstall os num none s1.rpcPort) fx false with
  | (node, os, fx, r) =>
    if r.failed then ((if Gen.Lifecycle.restartRecordsFailedStart then some node else none), os, fx, r)
    else (some node, os, fx, r)

/-- The first entry recording peer id `k` (`nodes.iter_mut().find(..)`). -/
def findPeer (k : Nat) : List Svc → Option Nat
  | [] => none
  | t :: r => if t.peer = some k then some 0 else (findPeer k r).map (· + 1)

/-! ## `add_node` -/

def allPorts (reg : List Svc) : List Nat :=
  reg.flatMap fun s => s.metricsPort.toList ++ s.nodePort.toList ++ [s.rpcPort]

def prCount (r : Nat × Nat) : Nat := r.2 + 1 - r.1
def prPorts (r : Nat × Nat) : List Nat := List.range' r.1 (r.2 + 1 - r.1)

/-- `PortRange::validate` then `check_port_availability`. -/
def checkRange (r : Option (Nat × Nat)) (count : Nat) (ports : List Nat) : Option String :=
  match r with
  | none => none
  | some r =>
    if count ≠ prCount r then some "err:count-mismatch" else
    match (prPorts r).find? (fun p => ports.contains p) with
    | some p => some ("err:port-in-use:" ++ toString p)
    | none => none

/-- Two requested ranges share a port: reported is the lowest shared one (an empty range shares nothing). -/
def overlapErr (a b : Option (Nat × Nat)) : Option String :=
  match a, b with
  | some r, some o =>
    if max r.1 o.1 ≤ min r.2 o.2 then some ("err:port-requested-twice:" ++ toString (max r.1 o.1)) else none
  | _, _ => none

/-- `check_port_ranges_disjoint(&[node, metrics, rpc])`: every requested range against the earlier ones, in order
(metrics/node, rpc/node, rpc/metrics) — if `add_node` makes the call at all (`requestedRangesDisjointChecked`, read from
add_services/mod.rs). -/
def checkDisjoint (np mp rp : Option (Nat × Nat)) : Option String :=
  if Gen.Lifecycle.requestedRangesDisjointChecked then
    match overlapErr mp np with
    | some e => some e
    | none =>
      match overlapErr rp np with
      | some e => some e
      | none => overlapErr rp mp
  else none

/-- The last validation step of `add_node`: the RPC range against the registry, then the three requested ranges against
each other. -/
def checkRpc (np mp rp : Option (Nat × Nat)) (count : Nat) (ports : List Nat) : Option String :=
  match checkRange rp count ports with
  | some e => some e
  | none => checkDisjoint np mp rp

def maxNumber (reg : List Svc) : Nat := reg.foldl (fun m s => max m s.number) 0

/-- `current_node_count + 1`: the number of the first service of an `add`. -/
def startNumber (reg : List Svc) : Nat :=
  if Gen.Lifecycle.numberFromMax then maxNumber reg + 1 else reg.length + 1

/-- `get_available_port` -/
def allocPort (w : World) (fx : Fx) : Option Nat × World × Fx :=
  let (b, fx) := fx.pop
  if b = .fail then (none, w, fx)
  else if b = .failAfter then (none, { w with os := { w.os with nextPort := w.os.nextPort + 1 } }, fx)
  else (some w.os.nextPort, { w with os := { w.os with nextPort := w.os.nextPort + 1 } }, fx)

structure AddAcc where
  w : World
  fx : Fx
  added : List Nat
  failed : List Nat
  aborted : Bool
  /-- contents of the registry file (`node_registry.save()` inside the loop writes the whole in-memory registry) -/
  file : List Svc

/-- The RPC port and the metrics port of one new service: requested, or from `get_available_port`
(RPC port first; a metrics port only if requested or `enable_metrics_server`). `none` = allocation failed. -/
def addPorts (mp rp : Option Nat) (metrics : Bool) (w : World) (fx : Fx) :
    Option (Nat × Option Nat) × World × Fx :=
  match (match rp with
    | some p => (some p, w, fx)
    | none => allocPort w fx) with
  | (none, w, fx) => (none, w, fx)
  | (some rpcP, w, fx) =>
    match mp with
    | some p => (some (rpcP, some p), w, fx)
    | none =>
      if metrics then
        match allocPort w fx with
        | (none, w, fx) => (none, w, fx)
        | (some p, w, fx) => (some (rpcP, some p), w, fx)
      else (some (rpcP, none), w, fx)

/-- One iteration of the `while node_number <= target_node_count` loop for service number `num`. -/
def addOne (num : Nat) (np mp rp : Option Nat) (metrics : Bool) (ver : Nat) (a : AddAcc) : AddAcc :=
  match addPorts mp rp metrics a.w a.fx with
  | (none, w, fx) => { a with w := w, fx := fx, aborted := true }
  | (some (rpcP, metP), w, fx) =>
    match fx.pop with
    | (.fail, fx) => { a with w := ⟨w.reg, mkDir w.os num⟩, fx := fx, failed := a.failed ++ [num] }
    | (.failAfter, fx) =>
      -- the definition was written, then `install` reported failure: nothing is recorded
      { a with w := ⟨w.reg, osInstall (mkDir w.os num) num np rpcP⟩, fx := fx, failed := a.failed ++ [num] }
    | (.ok, fx) =>
      { a with
        w := ⟨w.reg ++ [⟨num, .added, none, np, metP, rpcP, ver, none, none, none⟩], osInstall (mkDir w.os num) num np rpcP⟩,
        fx := fx, added := a.added ++ [num],
        file := w.reg ++ [⟨num, .added, none, np, metP, rpcP, ver, none, none, none⟩] }

/-- The loop, `k` iterations left; a failed port allocation (`?`) leaves the function at once. -/
def addLoop : Nat → Nat → Option Nat → Option Nat → Option Nat → Bool → Nat → AddAcc → AddAcc
  | 0, _, _, _, _, _, _, a => a
  | k + 1, num, np, mp, rp, metrics, ver, a =>
    let a' := addOne num np mp rp metrics ver a
    if a'.aborted then a'
    else addLoop k (num + 1) (np.map (· + 1)) (mp.map (· + 1)) (rp.map (· + 1)) metrics ver a'

def joinNats : List Nat → String
  | [] => ""
  | [a] => toString a
  | a :: r => toString a ++ "," ++ joinNats r

/-- `add_node`; `file` is the registry file's content before the call, the last component its content at return
(the function saves after every completed install and nowhere else). -/
def addNode (w : World) (fx : Fx) (file : List Svc) (count : Nat) (np mp rp : Option (Nat × Nat)) (metrics : Bool)
    (ver : Nat) : World × Fx × Res × List Svc :=
  let ports := allPorts w.reg
  match checkRange np count ports with
  | some e => (w, fx, .err e, file)
  | none =>
  match checkRange mp count ports with
  | some e => (w, fx, .err e, file)
  | none =>
  match checkRpc np mp rp count ports with
  | some e => (w, fx, .err e, file)
  | none =>
    let a := addLoop count (startNumber w.reg) (np.map (·.1)) (mp.map (·.1)) (rp.map (·.1)) metrics ver
      ⟨w, fx, [], [], false, file⟩
    if a.aborted then (a.w, a.fx, .err "err:port-alloc", a.file)
    else if !a.failed.isEmpty then (a.w, a.fx, .err "err:partial", a.file)
    else (a.w, a.fx, .ok ("ok:[" ++ joinNats a.added ++ "]"), a.file)

/-! ## Operations and the step function -/

inductive Op where
  | add (count : Nat) (np mp rp : Option (Nat × Nat)) (metrics : Bool) (ver : Nat) (faults : List Fault)
  | start (i : Nat) (ct : Bool) (faults : List Fault)
  | stop (i : Nat) (faults : List Fault)
  | remove (i : Nat) (keep : Bool) (faults : List Fault)
  | upgrade (i : Nat) (force start : Bool) (ver : Nat) (ct : Bool) (faults : List Fault)
  | refresh
  | refreshFull (fail : Bool) (faults : List Fault)
  | drestart (i : Nat) (retain : Bool) (faults : List Fault)
  | restartOutside (i : Nat)
  | kill (i : Nat)
  | flaky (i : Nat) (on : Bool)
  | saveload
deriving Repr

/-- Apply a one-service operation to registry entry `i`. -/
def onSvc (w : World) (i : Nat) (faults : List Fault) (f : Svc → OS → Fx → Svc × OS × Fx × Res) :
    World × Res × Nat :=
  match w.reg[i]? with
  | none => (w, .err "err:no-such-service", 0)
  | some s =>
    match f s w.os ⟨faults, 0⟩ with
    | (s', os', fx, r) => (⟨w.reg.set i s', os'⟩, r, fx.calls)

/-- `restart_node_service` on entry `j` (the entry found by peer id). -/
def restartAt (w : World) (j : Nat) (retain : Bool) (faults : List Fault) : World × Res × Nat :=
  match w.reg[j]? with
  | none => (w, .err "err:peer-not-found", 0)
  | some s =>
    if retain then onSvc w j faults svcRestartRetain
    else
      match svcStop s w.os ⟨faults, 0⟩ with
      | (s1, os, fx, r) =>
        if r.failed then (⟨w.reg.set j s1, os⟩, r, fx.calls) else
        match restartFresh (restartNumber w.reg) s1 os fx with
        | (new, os, fx, r) => (⟨w.reg.set j s1 ++ new.toList, os⟩, r, fx.calls)

def exec (w : World) : Op → World × Res × Nat
  | .add count np mp rp metrics ver faults =>
    match addNode w ⟨faults, 0⟩ [] count np mp rp metrics ver with
    | (w', fx, r, _) => (w', r, fx.calls)
  | .start i ct faults => onSvc w i faults (fun s os fx => svcStart s os fx ct)
  | .stop i faults => onSvc w i faults svcStop
  | .remove i keep faults => onSvc w i faults (fun s os fx => svcRemove s os fx keep)
  | .upgrade i force start ver ct faults => onSvc w i faults (fun s os fx => svcUpgrade s os fx force start ver ct)
  | .refresh => (⟨w.reg.map (svcRefresh w.os), w.os⟩, .ok, 0)
  | .refreshFull fail faults =>
    match refreshFull w.os w.reg ⟨faults, 0⟩ with
    | (reg, fx, some e) => (⟨reg, w.os⟩, .err ("err:" ++ e), fx.calls)
    | (reg, fx, none) =>
      -- `status_report(.., fail)`: an error if any service is not Running (after the refresh went through)
      (⟨reg, w.os⟩, if fail && reg.any (fun s => s.status ≠ .running) then .err "err:ServiceNotRunning" else .ok, fx.calls)
  | .drestart i retain faults =>
    -- the daemon is asked by peer id: the harness hands in the id recorded for entry `i`
    match w.reg[i]? with
    | none => (w, .err "err:no-such-service", 0)
    | some s0 =>
      match s0.peer with
      | none => (w, .err "err:peer-not-found", 0)
      | some k =>
        match findPeer k w.reg with
        | none => (w, .err "err:peer-not-found", 0)
        | some j => restartAt w j retain faults
  | .restartOutside i =>
    match w.reg[i]? with
    | none => (w, .err "err:no-such-service", 0)
    | some s => (⟨w.reg, osRestart w.os s.number⟩, .ok, 0)
  | .kill i =>
    match w.reg[i]? with
    | none => (w, .err "err:no-such-service", 0)
    | some s => (⟨w.reg, osKill w.os s.number⟩, .ok, 0)
  | .flaky i on =>
    match w.reg[i]? with
    | none => (w, .err "err:no-such-service", 0)
    | some s =>
      let fl := w.os.flaky.filter (fun n => n ≠ s.number)
      (⟨w.reg, { w.os with flaky := if on then fl ++ [s.number] else fl }⟩, .ok, 0)
  -- `registry := load(save(registry))`. The model has no serialisation of its own: that the real serde JSON round
  -- trip is the identity on `NodeRegistry` is established by the harness (oracle clause save-load-identity on the real
  -- save/load after every operation, and this op's correspondence: a lossy round trip changes the dump), not in Lean.
  | .saveload => (w, .ok, 0)

def step (w : World) (op : Op) : World := (exec w op).1
def result (w : World) (op : Op) : Res := (exec w op).2.1

def run (w : World) (ops : List Op) : World := ops.foldl step w

/-! ## The registry file as an observable; the command layer

`Sys` = the in-memory world plus the content of the registry file. The file changes exactly where the code saves:
inside `add_node` after every completed install, and in the callers. Where the callers save — `cmd/node.rs`
`add` / `start` / `stop` / `remove` / `upgrade` / `status` in the `Ok` resp. `Err` arm of the operation's result, antctld's
`restart_handler` — and whether a command runs the partial refresh between loading the registry and selecting its
services is read from the source by rs2lean (`CmdCfg.gen`, one flag per site); a bare partial refresh does not save.
`reload` drops the in-memory registry and continues from the file (the next `antctl` invocation; antctld loads the
registry per request). `cmd o` is one whole `antctl` invocation: load the file, partial refresh if the command has one,
service selection (`get_services_for_ops` does not find a service at Removed status), the operation, the save. -/

structure Sys where
  w : World
  file : List Svc
deriving Repr

def Sys.init : Sys := ⟨World.init, []⟩

inductive SOp where
  | op (o : Op)
  | reload
  | cmd (o : Op)
deriving Repr

/-- The save and refresh sites of the command layer. -/
structure CmdCfg where
  startRefreshFirst : Bool
  startSavesOnOk : Bool
  startSavesOnErr : Bool
  stopRefreshFirst : Bool
  stopSavesOnOk : Bool
  stopSavesOnErr : Bool
  removeRefreshFirst : Bool
  removeSavesOnOk : Bool
  removeSavesOnErr : Bool
  upgradeRefreshFirst : Bool
  upgradeSavesOnOk : Bool
  upgradeSavesOnErr : Bool
  addSavesOnOk : Bool
  addSavesOnErr : Bool
  statusSavesOnOk : Bool
  statusSavesOnErr : Bool
  daemonRestartSavesOnOk : Bool
  daemonRestartSavesOnErr : Bool
deriving Repr, DecidableEq

/-- The command layer as rs2lean reads it from cmd/node.rs and bin/daemon/main.rs. -/
def CmdCfg.gen : CmdCfg where
  startRefreshFirst := Gen.Lifecycle.startRefreshFirst
  startSavesOnOk := Gen.Lifecycle.startSavesOnOk
  startSavesOnErr := Gen.Lifecycle.startSavesOnErr
  stopRefreshFirst := Gen.Lifecycle.stopRefreshFirst
  stopSavesOnOk := Gen.Lifecycle.stopSavesOnOk
  stopSavesOnErr := Gen.Lifecycle.stopSavesOnErr
  removeRefreshFirst := Gen.Lifecycle.removeRefreshFirst
  removeSavesOnOk := Gen.Lifecycle.removeSavesOnOk
  removeSavesOnErr := Gen.Lifecycle.removeSavesOnErr
  upgradeRefreshFirst := Gen.Lifecycle.upgradeRefreshFirst
  upgradeSavesOnOk := Gen.Lifecycle.upgradeSavesOnOk
  upgradeSavesOnErr := Gen.Lifecycle.upgradeSavesOnErr
  addSavesOnOk := Gen.Lifecycle.addSavesOnOk
  addSavesOnErr := Gen.Lifecycle.addSavesOnErr
  statusSavesOnOk := Gen.Lifecycle.statusSavesOnOk
  statusSavesOnErr := Gen.Lifecycle.statusSavesOnErr
  daemonRestartSavesOnOk := Gen.Lifecycle.daemonRestartSavesOnOk
  daemonRestartSavesOnErr := Gen.Lifecycle.daemonRestartSavesOnErr

def savesAfter (onOk onErr : Bool) (r : Res) : Bool := if r.failed then onErr else onOk

/-- Does the caller of the operation save the registry after this outcome? (`upgrade`: `UpgradedButNotStarted` is an
`Ok` of `ServiceManager::upgrade`; it counts as a failed operation everywhere else.) -/
def callerSavesC (c : CmdCfg) (w : World) : Op → Res → Bool
  | .start i .., r => (w.reg[i]?).isSome && savesAfter c.startSavesOnOk c.startSavesOnErr r
  | .stop i .., r => (w.reg[i]?).isSome && savesAfter c.stopSavesOnOk c.stopSavesOnErr r
  | .remove i .., r => (w.reg[i]?).isSome && savesAfter c.removeSavesOnOk c.removeSavesOnErr r
  | .upgrade i .., r =>
    (w.reg[i]?).isSome && (if r.text.startsWith "ok" then c.upgradeSavesOnOk else c.upgradeSavesOnErr)
  | .drestart i .., r => (w.reg[i]?).isSome && savesAfter c.daemonRestartSavesOnOk c.daemonRestartSavesOnErr r
  | .refreshFull .., r => savesAfter c.statusSavesOnOk c.statusSavesOnErr r
  | .saveload, r => !r.failed
  | _, _ => false

/-- One operation and its caller's save. -/
def execOpC (c : CmdCfg) (s : Sys) : Op → Sys × Res × Nat
  | .add count np mp rp metrics ver faults =>
    match addNode s.w ⟨faults, 0⟩ s.file count np mp rp metrics ver with
    | (w', fx, r, file') => (⟨w', if savesAfter c.addSavesOnOk c.addSavesOnErr r then w'.reg else file'⟩, r, fx.calls)
  | o =>
    match exec s.w o with
    | (w', r, c') => (⟨w', if callerSavesC c s.w o r then w'.reg else s.file⟩, r, c')

/-- Does the command run the partial refresh in front of its operation? -/
def refreshFirst (c : CmdCfg) : Op → Bool
  | .start .. => c.startRefreshFirst
  | .stop .. => c.stopRefreshFirst
  | .remove .. => c.removeRefreshFirst
  | .upgrade .. => c.upgradeRefreshFirst
  | _ => false

/-- The registry entry a command addresses. -/
def Op.target : Op → Option Nat
  | .start i .. => some i
  | .stop i .. => some i
  | .remove i .. => some i
  | .upgrade i .. => some i
  | _ => none

/-- `get_services_for_ops`: a service at Removed status is not found (by name, by peer id, or by "all services"). -/
def eligible (w : World) (o : Op) : Bool :=
  match o.target with
  | none => true
  | some i =>
    match w.reg[i]? with
    | some t => t.status != .removed
    | none => true

/-- The state a command works on: the registry as loaded from the file, partially refreshed if the command does so. -/
def cmdEntry (c : CmdCfg) (s : Sys) (o : Op) : Sys :=
  if refreshFirst c o then ⟨⟨s.file.map (svcRefresh s.w.os), s.w.os⟩, s.file⟩ else ⟨⟨s.file, s.w.os⟩, s.file⟩

def execSC (c : CmdCfg) (s : Sys) : SOp → Sys × Res × Nat
  | .reload => (⟨⟨s.file, s.w.os⟩, s.file⟩, .ok, 0)
  | .op o => execOpC c s o
  | .cmd o =>
    if eligible (cmdEntry c s o).w o then execOpC c (cmdEntry c s o) o
    else (cmdEntry c s o, .err "err:no-such-service", 0)

def stepSC (c : CmdCfg) (s : Sys) (op : SOp) : Sys := (execSC c s op).1
def runSC (c : CmdCfg) (s : Sys) (ops : List SOp) : Sys := ops.foldl (stepSC c) s

/-! ### `NodeRegistry::load(path)`: where the loaded registry saves

The registry file is the JSON of the whole `NodeRegistry`, `save_path` included, and `load` returns what it deserialises:
a registry loaded from `path` saves to the path it was last SAVED to, not to `path` (`loadReg` does not look at its
argument beyond finding the file). antctl and antctld always use `config::get_node_registry_path()`, so the two agree
unless the file was moved or copied by hand; modelled here so that the observation is on record. -/

structure RegFile where
  savePath : Nat
  nodes : List Svc
deriving Repr, DecidableEq

/-- `fs` maps a path to the content of the file there. -/
def loadReg (fs : List (Nat × RegFile)) (path : Nat) : Option RegFile := (fs.find? (fun e => e.1 = path)).map (·.2)
def saveReg (fs : List (Nat × RegFile)) (r : RegFile) : List (Nat × RegFile) :=
  fs.filter (fun e => e.1 ≠ r.savePath) ++ [(r.savePath, r)]
/-- `cp`/`mv` of the registry file -/
def copyFile (fs : List (Nat × RegFile)) (src dst : Nat) : List (Nat × RegFile) :=
  match fs.find? (fun e => e.1 = src) with
  | some e => fs.filter (fun e => e.1 ≠ dst) ++ [(dst, e.2)]
  | none => fs

def callerSaves (w : World) (o : Op) (r : Res) : Bool := callerSavesC CmdCfg.gen w o r
def execS (s : Sys) (op : SOp) : Sys × Res × Nat := execSC CmdCfg.gen s op
def stepS (s : Sys) (op : SOp) : Sys := (execS s op).1
def runS (s : Sys) (ops : List SOp) : Sys := ops.foldl stepS s

end SafeNet.Lifecycle
