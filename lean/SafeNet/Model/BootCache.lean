import SafeNet.Gen.BootCache
/-!
Model of the bootstrap cache: `ant-bootstrap/src/cache_store.rs` (`CacheData`, `BootstrapCacheStore`),
`ant-bootstrap/src/lib.rs` (`BootstrapAddr`, `BootstrapAddresses`, `craft_valid_multiaddr`).

* A multiaddress is its list of protocols (`Ma`); parameters (ip, port, peer id) are small naturals.
* `Cache` is an association list `peer ↦ Vec<BootstrapAddr>`; the `Vec` order is kept (it decides what
  `truncate` drops), the `HashMap` order is never observed except through the eviction tie-break, which
  is an explicit preference list `ch` (the implementation's choice as a witness; every legal choice of the
  implementation is realised by some `ch`, and every `ch` yields a legal choice).
* Time is an explicit number of seconds (`now`), counters are naturals bounded by `cMax = 2^32-1`.
* The cache file is an atomic register `File`; `sync_and_flush_to_disk` is the two steps
  `flushLoad` (read the register, clean) and `flushCommit` (merge, clean, write the register, clear memory).
Comparators and constants come from `Gen.BootCache` (regenerated from the Rust source).
-/
namespace SafeNet.BootCache
open SafeNet.Gen.BootCache

inductive Proto
  | ip4 (n : Nat) | ip6 (n : Nat) | dns (n : Nat) | udp (n : Nat) | tcp (n : Nat)
  | quic | ws | p2p (k : Nat) | circuit | other (n : Nat)
  deriving DecidableEq, Repr

def Proto.isIp4 : Proto → Bool | .ip4 _ => true | _ => false
def Proto.isUdp : Proto → Bool | .udp _ => true | _ => false
def Proto.isTcp : Proto → Bool | .tcp _ => true | _ => false
def Proto.isQuic : Proto → Bool | .quic => true | _ => false
def Proto.isWs : Proto → Bool | .ws => true | _ => false
def Proto.isP2p : Proto → Bool | .p2p _ => true | _ => false

/-- A multiaddress: the list of its protocols. -/
abbrev Ma := List Proto

/-- `craft_valid_multiaddr(addr, false)`: first ip4, then first udp (+ first quic-v1) or else first tcp
(+ first ws), then the first p2p; `none` when a part is missing. -/
def craft (ma : Ma) : Option Ma :=
  match ma.find? Proto.isIp4 with
  | none => none
  | some ip =>
    let tr : Option Ma :=
      match ma.find? Proto.isUdp with
      | some u => some (u :: (ma.find? Proto.isQuic).toList)
      | none =>
        match ma.find? Proto.isTcp with
        | some t => some (t :: (ma.find? Proto.isWs).toList)
        | none => none
    match tr, ma.find? Proto.isP2p with
    | some tr, some p => some (ip :: (tr ++ [p]))
    | _, _ => none

/-- `multiaddr_get_peer_id`: the first p2p component. -/
def peerOf (ma : Ma) : Option Nat :=
  match ma.find? Proto.isP2p with
  | some (.p2p k) => some k
  | _ => none

/-- The dialable shapes `ip4/(udp[/quic-v1] | tcp[/ws])/p2p`, with the peer id they carry. -/
def dialable : Ma → Option Nat
  | [.ip4 _, .udp _, .p2p k] => some k
  | [.ip4 _, .udp _, .quic, .p2p k] => some k
  | [.ip4 _, .tcp _, .p2p k] => some k
  | [.ip4 _, .tcp _, .ws, .p2p k] => some k
  | _ => none

/-- `BootstrapAddr`. -/
structure Addr where
  ma : Ma
  succ : Nat
  fail : Nat
  seen : Nat
  deriving DecidableEq, Repr

/-- `HashMap<PeerId, BootstrapAddresses>`. -/
abbrev Cache := List (Nat × List Addr)

/-- `BootstrapCacheConfig` (the three limits). -/
structure Cfg where
  maxPeers : Nat
  maxAddrs : Nat
  expiry : Nat
  deriving DecidableEq, Repr

/-- `BootstrapCacheConfig::default_config()` / `empty()`. -/
def Cfg.default : Cfg := ⟨Gen.BootCache.maxPeers, Gen.BootCache.maxAddrsPerPeer, Gen.BootCache.addrExpirySecs⟩

/-- `u32::MAX`. -/
def cMax : Nat := 2 ^ counterBits - 1

/-- `BootstrapAddr::update_status` (`checked_add`, reset of both counters on overflow). -/
def updStatus (now : Nat) (ok : Bool) (a : Addr) : Addr :=
  if ok then
    if a.succ + 1 ≤ cMax then { a with succ := a.succ + 1, seen := now }
    else { a with succ := 1, fail := 0, seen := now }
  else
    if a.fail + 1 ≤ cMax then { a with fail := a.fail + 1, seen := now }
    else { a with fail := 1, succ := 0, seen := now }

/-- `BootstrapAddr::sync`: nothing when the timestamps are equal, otherwise saturating sums with the
reset quirk at `u32::MAX`, and the later timestamp. -/
def syncAddr (a o : Addr) : Addr :=
  if a.seen = o.seen then a else
  let s := min (a.succ + o.succ) cMax
  let f := min (a.fail + o.fail) cMax
  if s = cMax then { a with succ := 1, fail := 0, seen := max a.seen o.seen }
  else if f = cMax then { a with succ := 0, fail := 1, seen := max a.seen o.seen }
  else { a with succ := s, fail := f, seen := max a.seen o.seen }

/-- apply `f` to the first element satisfying `p` (`get_addr_mut`). -/
def mapFirst (p : Addr → Bool) (f : Addr → Addr) : List Addr → List Addr
  | [] => []
  | a :: t => if p a then f a :: t else a :: mapFirst p f t

def hasMa (l : List Addr) (m : Ma) : Bool := l.any (fun a => a.ma == m)

/-- one iteration of `BootstrapAddresses::sync`. -/
def syncOne (l : List Addr) (o : Addr) : List Addr :=
  if hasMa l o.ma then mapFirst (fun a => a.ma == o.ma) (fun a => syncAddr a o) l else l ++ [o]

/-- `BootstrapAddresses::sync`. -/
def syncAddrs : List Addr → List Addr → List Addr
  | l, [] => l
  | l, o :: os => syncAddrs (syncOne l o) os

def lookup (p : Nat) : Cache → Option (List Addr)
  | [] => none
  | e :: t => if e.1 = p then some e.2 else lookup p t

def setKey (p : Nat) (l : List Addr) (c : Cache) : Cache :=
  c.map (fun e => if e.1 = p then (p, l) else e)

def keys (c : Cache) : List Nat := c.map (·.1)

/-- one iteration of `CacheData::sync` (`entry(peer).or_insert(other.clone())` then `sync(other)`). -/
def syncPeer (c : Cache) (e : Nat × List Addr) : Cache :=
  match lookup e.1 c with
  | some l => setKey e.1 (syncAddrs l e.2) c
  | none => c ++ [(e.1, syncAddrs e.2 e.2)]

/-- `CacheData::sync`. -/
def syncCache : Cache → Cache → Cache
  | c, [] => c
  | c, e :: es => syncCache (syncPeer c e) es

/-- retained by the first pass of `perform_cleanup`: reliable, not in the future, younger than the expiry. -/
def keep (cfg : Cfg) (now : Nat) (a : Addr) : Bool :=
  reliableCmp a.succ a.fail && (decide (a.seen ≤ now) && notExpiredCmp (now - a.seen) cfg.expiry)

/-- `addr.failure_rate() as u64`: `fail / (succ + fail)` truncated (0, or 1 when only failures). -/
def frKey (a : Addr) : Nat := a.fail / (a.succ + a.fail)

def insertByKey (a : Addr) : List Addr → List Addr
  | [] => [a]
  | b :: t => if frKey a ≤ frKey b then a :: b :: t else b :: insertByKey a t

/-- stable `sort_by_key(frKey)`. -/
def sortByKey : List Addr → List Addr
  | [] => []
  | a :: t => insertByKey a (sortByKey t)

def capAddrs (cfg : Cfg) (l : List Addr) : List Addr :=
  if addrsOverCmp l.length cfg.maxAddrs then (sortByKey l).take cfg.maxAddrs else l

def infAge : Nat := 2 ^ 64 - 1

/-- `latest_seen` of `try_remove_oldest_peers`: the smallest elapsed time over the peer's addresses
(`Duration::from_secs(u64::MAX)` when none has a valid elapsed time). -/
def peerAge (now : Nat) : List Addr → Nat
  | [] => infAge
  | a :: t => if a.seen ≤ now ∧ now - a.seen < peerAge now t then now - a.seen else peerAge now t

/-- a peer of maximal age together with that age. -/
def oldest (now : Nat) : Cache → Option (Nat × Nat)
  | [] => none
  | e :: t =>
    match oldest now t with
    | none => some (e.1, peerAge now e.2)
    | some (q, a) => if a ≤ peerAge now e.2 then some (e.1, peerAge now e.2) else some (q, a)

def isOldest (now : Nat) (c : Cache) (p : Nat) : Bool :=
  match lookup p c, oldest now c with
  | some l, some (_, a) => peerAge now l == a
  | _, _ => false

/-- `max_by_key` over the hash map: any peer of maximal age; `ch` is the tie-break preference. -/
def pickOldest (ch : List Nat) (now : Nat) (c : Cache) : Option Nat :=
  match ch.find? (isOldest now c) with
  | some p => some p
  | none => (oldest now c).map (·.1)

def eraseKey (p : Nat) (c : Cache) : Cache := c.filter (fun e => decide (e.1 ≠ p))

/-- the `while self.peers.len() > cfg.max_peers` loop (fuel = number of peers). -/
def evictLoop (cfg : Cfg) (ch : List Nat) (now : Nat) : Nat → Cache → Cache
  | 0, c => c
  | fuel + 1, c =>
    if peersOverCmp c.length cfg.maxPeers then
      match pickOldest ch now c with
      | none => c
      | some p => evictLoop cfg ch now fuel (eraseKey p c)
    else c

/-- `CacheData::try_remove_oldest_peers`. -/
def removeOldest (cfg : Cfg) (ch : List Nat) (now : Nat) (c : Cache) : Cache :=
  evictLoop cfg ch now c.length c

/-- `CacheData::perform_cleanup`. -/
def cleanup (cfg : Cfg) (ch : List Nat) (now : Nat) (c : Cache) : Cache :=
  removeOldest cfg ch now
    (((c.map (fun e => (e.1, e.2.filter (keep cfg now)))).filter (fun e => !e.2.isEmpty)).map
      (fun e => (e.1, capAddrs cfg e.2)))

def newAddr (ma : Ma) (now : Nat) : Addr := ⟨ma, 1, 0, now⟩

/-- `BootstrapCacheStore::add_addr`. -/
def addAddr (cfg : Cfg) (ch : List Nat) (now : Nat) (c : Cache) (ma : Ma) : Cache :=
  match craft ma with
  | none => c
  | some a =>
    match peerOf a with
    | none => c
    | some p =>
      match lookup p c with
      | some l =>
        if hasMa l a then setKey p (mapFirst (fun x => x.ma == a) (fun x => { x with seen := now }) l) c
        else cleanup cfg ch now (setKey p (l ++ [newAddr a now]) c)
      | none => cleanup cfg ch now (c ++ [(p, [newAddr a now])])

/-- `BootstrapCacheStore::update_addr_status`. -/
def updAddr (now : Nat) (c : Cache) (ma : Ma) (ok : Bool) : Cache :=
  match peerOf ma with
  | none => c
  | some p =>
    match lookup p c with
    | none => c
    | some l => setKey p (mapFirst (fun x => x.ma == ma) (updStatus now ok) l) c

/-- The cache file as an atomic register: missing, unparsable, or the JSON of a `CacheData`. -/
inductive File
  | absent
  | garbage
  | data (c : Cache)
  deriving DecidableEq, Repr

/-- `BootstrapCacheStore::load_cache_data`. -/
def load (cfg : Cfg) (ch : List Nat) (now : Nat) : File → Option Cache
  | .data c => some (if loadCleans then cleanup cfg ch now c else c)
  | _ => none

/-- One `BootstrapCacheStore` object: its memory, and what an in-flight flush has read from the file. -/
structure Writer where
  mem : Cache
  loaded : Option (Option Cache)
  /-- `config.disable_cache_writing` (set by `new_from_peers_args` for `--local`): flushes do nothing -/
  disabled : Bool
  deriving DecidableEq, Repr

def Writer.empty : Writer := ⟨[], none, false⟩

structure Sys where
  cfg : Cfg
  now : Nat
  ws : List Writer
  file : File
  deriving Repr

def Sys.init (cfg : Cfg) (n : Nat) : Sys := ⟨cfg, 1000000, List.replicate n Writer.empty, .absent⟩

inductive Op
  | tick (d : Nat)
  | add (i : Nat) (ma : Ma) (ch : List Nat)
  | upd (i : Nat) (ma : Ma) (ok : Bool)
  | clean (i : Nat) (ch : List Nat)
  /-- first half of `sync_and_flush_to_disk`: `load_cache_data` -/
  | flushLoad (i : Nat) (ch : List Nat)
  /-- second half: `sync`, optional clean-up, `write`, `peers.clear()` -/
  | flushCommit (i : Nat) (withCleanup : Bool) (ch : List Nat)
  /-- `BootstrapCacheStore::write` on its own -/
  | write (i : Nat)
  /-- observable only if the write is not an atomic replace: another process sees a partial file -/
  | halfWrite (i : Nat)
  /-- the store object is replaced by a fresh one (`BootstrapCacheStore::new` / `new_from_peers_args`). A store has
  ONE effective path — `PeersArgs::bootstrap_cache_dir` wins over the config's own path for load, merge and write
  alike — so a rebuilt store still talks to the same register; `first` writes an empty cache at construction,
  `local` disables cache writing -/
  | rebuild (i : Nat) (first : Bool) (disabled : Bool)
  /-- the second half of a flush whose `write` FAILS (disk full, read-only directory): nothing reaches the file, the
  error is returned; what is left in memory depends on the shape of `sync_and_flush_to_disk` (`flushFailKeepsMemory`) -/
  | flushFail (i : Nat) (withCleanup : Bool) (ch : List Nat)
  /-- the periodic save of `ant-networking/src/driver.rs`: `old = cache.clone(); cache = BootstrapCacheStore::new(config)`;
  slot `j` receives the old store (the spawned task then flushes it: `flushLoad j`, `flushCommit j` / `flushFail j`), slot `i`
  continues empty with the same configuration -/
  | swap (i j : Nat)
  /-- something outside the cache code replaces the file (crafted or corrupt content) -/
  | extFile (f : File)
  deriving Repr

def modAt (f : Writer → Writer) : Nat → List Writer → List Writer
  | _, [] => []
  | 0, w :: t => f w :: t
  | i + 1, w :: t => w :: modAt f i t

def getW (ws : List Writer) (i : Nat) : Writer := ws.getD i Writer.empty

/-- what `flushCommit` writes: memory merged with what was read, cleaned if asked. -/
def commitData (cfg : Cfg) (ch : List Nat) (now : Nat) (withCleanup : Bool) (w : Writer) : Cache :=
  let merged := match w.loaded with
    | some (some d) => syncCache w.mem d
    | _ => w.mem
  if withCleanup then removeOldest cfg ch now (cleanup cfg ch now merged) else merged

/-- the memory after a flush whose write failed: as it was (`keep`), or the merge that was about to be written -/
def failMem (keep : Bool) (cfg : Cfg) (ch : List Nat) (now : Nat) (withCleanup : Bool) (w : Writer) : Cache :=
  if keep then w.mem else commitData cfg ch now withCleanup w

def step (s : Sys) : Op → Sys
  | .tick d => { s with now := s.now + d }
  | .add i ma ch => { s with ws := modAt (fun w => { w with mem := addAddr s.cfg ch s.now w.mem ma }) i s.ws }
  | .upd i ma ok => { s with ws := modAt (fun w => { w with mem := updAddr s.now w.mem ma ok }) i s.ws }
  | .clean i ch => { s with ws := modAt (fun w => { w with mem := cleanup s.cfg ch s.now w.mem }) i s.ws }
  | .flushLoad i ch =>
    { s with ws := modAt (fun w => if w.disabled then w else { w with loaded := some (load s.cfg ch s.now s.file) }) i s.ws }
  | .flushCommit i wc ch =>
    if decide (i < s.ws.length) && !(getW s.ws i).disabled then
      { s with file := .data (commitData s.cfg ch s.now wc (getW s.ws i)),
               ws := modAt (fun w => { w with mem := [], loaded := none }) i s.ws }
    else s
  | .write i => if i < s.ws.length then { s with file := .data (getW s.ws i).mem } else s
  | .halfWrite i => if writeAtomic || !(i < s.ws.length) then s else { s with file := .garbage }
  | .rebuild i first disabled =>
    if i < s.ws.length then
      { s with ws := modAt (fun _ => ⟨[], none, disabled⟩) i s.ws, file := if first then .data [] else s.file }
    else s
  | .flushFail i wc ch =>
    if decide (i < s.ws.length) && !(getW s.ws i).disabled then
      { s with ws := modAt (fun w => { w with mem := failMem flushFailKeepsMemory s.cfg ch s.now wc w, loaded := none }) i s.ws }
    else s
  | .swap i j =>
    if decide (i < s.ws.length) && (decide (j < s.ws.length) && decide (i ≠ j)) then
      { s with ws := modAt (fun _ => ⟨[], none, (getW s.ws i).disabled⟩) i
                      (modAt (fun _ => ⟨(getW s.ws i).mem, none, (getW s.ws i).disabled⟩) j s.ws) }
    else s
  | .extFile f => { s with file := f }

def run (s : Sys) : List Op → Sys
  | [] => s
  | op :: ops => run (step s op) ops

/-- `sync_and_flush_to_disk(with_cleanup)` executed without interruption. -/
def flushOps (i : Nat) (wc : Bool) (ch : List Nat) : List Op := [.flushLoad i ch, .flushCommit i wc ch]

/-- the same with the write failing -/
def flushFailOps (i : Nat) (wc : Bool) (ch : List Nat) : List Op := [.flushLoad i ch, .flushFail i wc ch]

/-! ### start-up: `PeersArgs::get_bootstrap_addr` (initial_peers.rs), with the network sources switched off
(`disable_mainnet_contacts`, no `network_contacts_url`) -/

inductive StartErr
  | noPeers
  /-- an error of `load_cache_data` handed to the caller, or an I/O error while preparing the cache directory -/
  | cache
  /-- `Error::InvalidBootstrapCacheDir`: `--bootstrap-cache-dir` names a regular file -/
  | badDir
  deriving DecidableEq, Repr

/-- what `PeersArgs::bootstrap_cache_dir` points at (`get_bootstrap_cache_path`, initial_peers.rs) -/
inductive DirKind
  /-- no override: the configuration's own cache path is used -/
  | noOverride
  /-- an existing directory -/
  | isDir
  /-- nothing there, and `create_dir_all` succeeds (the cache file is then absent) -/
  | missing
  /-- a regular file: `InvalidBootstrapCacheDir` -/
  | isFile
  /-- nothing there, and `create_dir_all` fails (a parent is a regular file, or not writable): the I/O error is returned -/
  | uncreatable
  deriving DecidableEq, Repr

/-- `get_bootstrap_cache_path()?`: the error it hands to its caller, if any -/
def dirErr : DirKind → Option StartErr
  | .isFile => some .badDir
  | .uncreatable => some .cache
  | _ => none

structure StartArgs where
  first : Bool
  «local» : Bool
  ignoreCache : Bool
  addrs : List Ma
  count : Option Nat
  deriving Repr

/-- `min_by_key(|addr| addr.failure_rate() as u64)`: the first address of minimal key. -/
def pickAddr : List Addr → Option Addr
  | [] => none
  | a :: t =>
    match pickAddr t with
    | none => some a
    | some b => if frKey a ≤ frKey b then some a else some b

/-- the entries in hash-map iteration order: `ord` (the implementation's order as a witness) first, then the rest -/
def orderBy (ord : List Nat) (d : Cache) : Cache :=
  (ord.eraseDups.filterMap fun p => (lookup p d).map fun l => (p, l)) ++ d.filter fun e => !ord.contains e.1

def cachePicks (ord : List Nat) (d : Cache) : List Addr := (orderBy ord d).filterMap fun e => pickAddr e.2

def trunc : Option Nat → List Addr → List Addr
  | none, l => l
  | some c, l => l.take c

def enough : Option Nat → List Addr → Bool
  | none, _ => false
  | some c, l => decide (l.length ≥ c)

def finish (count : Option Nat) (b : List Addr) : Except StartErr (List Addr) :=
  if b.isEmpty then .error .noPeers else .ok (trunc count (sortByKey b))

def startAddr (now : Nat) (m : Ma) : Addr := ⟨m, 0, 0, now⟩

/-- `get_bootstrap_addr`: first node ⇒ nothing; `ANT_PEERS` wins over everything; local ⇒ nothing; `--peer`
arguments; then the cache file (unless `ignore_cache`), one least-faulty address per peer; sorted and cut to
`count`. (The early return inside the cache step yields the same value as the final step, so it is not
modelled separately.) -/
def startup (cfg : Cfg) (ch ord : List Nat) (now : Nat) (args : StartArgs) (env : List Ma) (dir : DirKind) (file : File) :
    Except StartErr (List Addr) :=
  if args.first then .ok [] else
  let envA := (env.filterMap craft).map (startAddr now)
  if !envA.isEmpty then .ok envA else
  if args.local then .ok [] else
  let a := (args.addrs.filterMap craft).map (startAddr now)
  if enough args.count a then .ok (trunc args.count (sortByKey a)) else
  if args.ignoreCache then finish args.count a else
  match dirErr dir with
  | some e => .error e
  | none =>
  match load cfg ch now file with
  | some d => finish args.count (a ++ cachePicks ord d)
  | none =>
    if startupIgnoresLoadError || decide (file = .absent) then finish args.count a else .error .cache

def okB : Except StartErr (List Addr) → Bool
  | .ok _ => true
  | .error _ => false

/-- what antnode does with the cache before it starts (ant-node/src/bin/antnode/main.rs), in the order of the code:
`BootstrapCacheConfig::default_config()?` (the DEFAULT cache directory under the user's data directory is looked up and
created whether or not `--bootstrap-cache-dir` overrides it: `defaultDirFails`), then
`BootstrapCacheStore::new_from_peers_args(&opt.peers, ..)?` = `get_bootstrap_cache_path()?` (`dir`), `Self::new`
(`create_dir_all(parent)?` when the cache file's directory is not there — it has just been created, so only if it
vanished in between: `parentFails`), for `--first` a `write()?` of an empty cache; followed by
`sync_and_flush_to_disk(true)?` ("to create the file before startup"; nothing when `--local` disabled cache writing).
Every `?` ends the process. `writeFails` = the cache file cannot be written. -/
def nodeStart (defaultDirFails : Bool) (dir : DirKind) (parentFails first «local» writeFails : Bool) : Except StartErr Unit :=
  if defaultDirFails then .error .cache else
  match dirErr dir with
  | some e => .error e
  | none =>
    if parentFails then .error .cache
    else if first && writeFails then .error .cache
    else if !«local» && writeFails then .error .cache
    else .ok ()

/-- the period the bootstrap-cache save interval is scaled to after a save (driver.rs): seconds of the current period
times `cache_save_scaling_factor` (saturating), capped by `max_cache_save_duration` (± its variance). `tokio::time::interval`
panics on a zero period. -/
def nextSavePeriod (cur factor maxv : Nat) : Nat := min (cur * factor) maxv

end SafeNet.BootCache
