import SafeNet.Base.MsgPack
import SafeNet.Base.Sha3
import SafeNet.Gen.Quote
/-!
Model of `ant-evm/src/data_payments.rs` (`PaymentQuote`, `ProofOfPayment`).

* Bytes are `Nat`s `< 256`; a timestamp is `(secs, nanos)` since the Unix epoch.
* The order of the signed parts, the hash parts, every comparator and both constants come from
  `SafeNet.Gen.Quote` (regenerated from the Rust source by `rs2lean`).
* Signatures are a scheme handed in as a structure (`SigScheme`), ideal for keys of prime order; keys and peer ids are abstract:
  `decodeKey` is `PublicKey::try_decode_protobuf`, `peerOf` is `PeerId::from`, `decodePeer` is `PeerId::from_bytes`.
* The clock is a parameter (`now`, nanoseconds since the epoch).
-/
namespace SafeNet.Quote
open SafeNet.MsgPack SafeNet.Gen.Quote

/-- `evmlib::quoting_metrics::QuotingMetrics` -/
structure Metrics where
  closeRecordsStored : Nat
  maxRecords : Nat
  receivedPaymentCount : Nat
  liveTime : Nat
  networkDensity : Option (List Nat)
  networkSize : Option Nat
  deriving DecidableEq, Repr, Inhabited

/-- what `rmp_serde::to_vec(&QuotingMetrics)` writes: a 6-array; `None` is nil; `[u8;32]` is an array of ints -/
def Metrics.toVal (m : Metrics) : Val :=
  .arr [.uint m.closeRecordsStored, .uint m.maxRecords, .uint m.receivedPaymentCount, .uint m.liveTime,
    (match m.networkDensity with | none => .nil | some d => .arr (d.map .uint)),
    (match m.networkSize with | none => .nil | some n => .uint n)]

/-- field ranges of the Rust type (`usize`/`u64` counters, 32 density bytes) -/
def Metrics.ok (m : Metrics) : Prop :=
  m.closeRecordsStored < 2 ^ 64 ∧ m.maxRecords < 2 ^ 64 ∧ m.receivedPaymentCount < 2 ^ 64 ∧ m.liveTime < 2 ^ 64 ∧
  (∀ d, m.networkDensity = some d → d.length = 32 ∧ ∀ b ∈ d, b < 256) ∧
  (∀ n, m.networkSize = some n → n < 2 ^ 64)

/-- `PaymentQuote` -/
structure Quote where
  content : List Nat
  secs : Nat
  nanos : Nat
  metrics : Metrics
  rewards : List Nat
  pubKey : List Nat
  signature : List Nat
  deriving DecidableEq, Repr, Inhabited

/-- field ranges of the Rust type: 32-byte name, 20-byte address, `u64` seconds -/
def Quote.ok (q : Quote) : Prop :=
  q.content.length = 32 ∧ q.rewards.length = 20 ∧ q.secs < 2 ^ 64 ∧ q.metrics.ok

def partBytes (content : List Nat) (secs : Nat) (m : Metrics) (rewards : List Nat) : Part → List Nat
  | .content => content
  | .secsLE8 => toLE 8 secs
  | .metrics => encode m.toVal
  | .rewards => rewards

/-- `PaymentQuote::bytes_for_signing` — the parts in the order the code appends them. Only the whole
seconds of the timestamp enter (`as_secs`). -/
def bytesForSigning (content : List Nat) (secs : Nat) (m : Metrics) (rewards : List Nat) : List Nat :=
  signingParts.flatMap (partBytes content secs m rewards)

/-- `PaymentQuote::bytes_for_sig` -/
def Quote.sigBytes (q : Quote) : List Nat := bytesForSigning q.content q.secs q.metrics q.rewards

/-- what `PaymentQuote::hash` feeds to the hash function -/
def Quote.hashInput (q : Quote) : List Nat :=
  hashParts.flatMap fun
    | .sigBytes => q.sigBytes
    | .pubKey => q.pubKey
    | .signature => q.signature

/-- `PaymentQuote::hash`: `evmlib::cryptography::hash` is Keccak-256 (`Base/Sha3.keccak256`) -/
def Quote.hash (q : Quote) : List Nat := SafeNet.Sha3.keccak256 q.hashInput

/-- A signature scheme that is ideal *for keys of prime order* (`strong`): under such a key a signature verifies
exactly when it is the signer's signature over that very message, and signatures of different (key, message) pairs
differ (no forgery, no collision). Nothing is assumed about `verify` under a key that is not `strong`: libp2p-identity
0.2.10 (ed25519-dalek's non-strict `verify`, no `is_weak` test) accepts the eight small-order points of edwards25519
as public keys, and under the neutral element `(R, S) = (neutral, 0)` verifies for EVERY message (component `quote`,
tokens `W0` / `Q0`; known finding K-w). -/
structure SigScheme (Key : Type) where
  sign : Key → List Nat → List Nat
  verify : Key → List Nat → List Nat → Bool
  /-- the key is a point of prime order (not one of the small-order points) -/
  strong : Key → Bool
  ideal : ∀ k m s, strong k = true → (verify k m s = true ↔ s = sign k m)
  inj : ∀ k m k' m', sign k m = sign k' m' → k = k' ∧ m = m'

/-- Identities: protobuf decoding of public keys, key → peer id, decoding of an `EncodedPeerId`. -/
structure Ids (Key Peer : Type) where
  decodeKey : List Nat → Option Key
  peerOf : Key → Peer
  decodePeer : List Nat → Option Peer

section
variable {Key Peer : Type} [DecidableEq Peer] (S : SigScheme Key) (I : Ids Key Peer)

/-- `PaymentQuote::check_is_signed_by_claimed_peer` -/
def checkSigned (q : Quote) (claimed : Peer) : Bool :=
  match I.decodeKey q.pubKey with
  | none => false
  | some k =>
    if I.peerOf k ≠ claimed then false
    else S.verify k q.sigBytes q.signature

/-- `PaymentQuote::peer_id` -/
def Quote.peerId (q : Quote) : Option Peer := (I.decodeKey q.pubKey).map I.peerOf

/-- `ProofOfPayment`: `(EncodedPeerId, PaymentQuote)` pairs -/
abbrev Proof := List (List Nat × Quote)

/-- `ProofOfPayment::payees` -/
def payees (p : Proof) : List Peer := p.filterMap fun e => I.decodePeer e.1

/-- `ProofOfPayment::quotes_by_peer` -/
def quotesByPeer (p : Proof) (peer : Peer) : List Quote :=
  p.filterMap fun e => if Quote.peerId I e.2 = some peer then some e.2 else none

/-- `ProofOfPayment::verify_for` -/
def verifyFor (p : Proof) (self : Peer) : Bool :=
  if ¬ (self ∈ payees I p) then false
  else p.all fun e =>
    match I.decodePeer e.1 with
    | none => false
    | some peer => checkSigned S I e.2 peer

end

/-! ## time -/

def nsPerSec : Nat := 1000000000

/-- timestamp in nanoseconds -/
def Quote.ts (q : Quote) : Nat := q.secs * nsPerSec + q.nanos

/-- `PaymentQuote::has_expired` at clock reading `now` (ns): a timestamp later than now counts as
expired; otherwise the whole seconds elapsed are compared with `QUOTE_EXPIRATION_SECS`. -/
def hasExpired (ts now : Nat) : Bool :=
  if ts > now then futureExpired
  else expiredCmp ((now - ts) / nsPerSec) quoteExpirationSecs

/-- `ProofOfPayment::has_expired` -/
def proofExpired (tss : List Nat) (now : Nat) : Bool := tss.any (hasExpired · now)

/-- `PaymentQuote::is_newer_than` -/
def isNewerThan (selfTs otherTs : Nat) : Bool := newerCmp selfTs otherTs

/-- what `historical_verify` looks at -/
structure Hist where
  ts : Nat
  liveTime : Nat
  paid : Nat
  deriving DecidableEq, Repr

/-- `PaymentQuote::historical_verify` at clock reading `now`: `true` = the other quote is consistent. -/
def historicalVerify (self other : Hist) (now : Nat) : Bool :=
  let old := if isNewerThan self.ts other.ts then other else self
  let new := if isNewerThan self.ts other.ts then self else other
  if liveOutOfSeq new.liveTime old.liveTime then false
  else if paidOutOfSeq new.paid old.paid then false
  else if old.ts > now then true
  else if new.ts > now then true
  else
    let timeDiff := (now - old.ts) / nsPerSec - (now - new.ts) / nsPerSec
    let liveDiff := new.liveTime - old.liveTime
    if liveOutOfSync liveDiff timeDiff then false else true

/-- `historical_verify` with its two clock readings kept apart: `old_quote.timestamp.elapsed()` is taken at `now1`,
`new_quote.timestamp.elapsed()` at `now2` (a moment later). `historicalVerify` is the case `now1 = now2`. -/
def historicalVerify2 (self other : Hist) (now1 now2 : Nat) : Bool :=
  let old := if isNewerThan self.ts other.ts then other else self
  let new := if isNewerThan self.ts other.ts then self else other
  if liveOutOfSeq new.liveTime old.liveTime then false
  else if paidOutOfSeq new.paid old.paid then false
  else if old.ts > now1 then true
  else if new.ts > now2 then true
  else
    let timeDiff := (now1 - old.ts) / nsPerSec - (now2 - new.ts) / nsPerSec
    let liveDiff := new.liveTime - old.liveTime
    if liveOutOfSync liveDiff timeDiff then false else true

end SafeNet.Quote
