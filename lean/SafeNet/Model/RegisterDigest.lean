/-!
Byte stream that `RegisterOp::bytes_for_signing` (ant-registers/src/register_op.rs) feeds to
`std::collections::hash_map::DefaultHasher::new()` — read from the `Hash` impls involved, not tied by a run:
`RegisterAddress` derives `Hash` over `meta : XorName([u8; 32])` and `owner : PublicKey`; `[u8; N]` hashes as a
slice (`write_length_prefix(len)` = `write_usize(len)` = `write(&len.to_ne_bytes())`, then the bytes);
blsttc's `PublicKey::hash` is `to_compressed().as_ref().hash(..)` (a 48-byte slice); `crdt_op.hash()` is a `[u8; 32]`.
The u64 result is exported with `to_ne_bytes`. `width` = `size_of::<usize>()`, `little` = byte order of the target.
-/
namespace SafeNet.RegisterDigest

/-- `usize::to_ne_bytes` -/
def usizeBytes (width : Nat) (little : Bool) (n : Nat) : List Nat :=
  let le := (List.range width).map (fun i => (n / 256 ^ i) % 256)
  if little then le else le.reverse

/-- `<[u8] as Hash>::hash`: length prefix, then the bytes -/
def sliceHash (width : Nat) (little : Bool) (bs : List Nat) : List Nat :=
  usizeBytes width little bs.length ++ bs

/-- everything written to the hasher: address (meta, owner), node hash, source -/
def digestInput (width : Nat) (little : Bool) (addrMeta owner node source : List Nat) : List Nat :=
  sliceHash width little addrMeta ++ sliceHash width little owner ++ sliceHash width little node ++
    sliceHash width little source

end SafeNet.RegisterDigest
