import SafeNet.Model.QuoteHist
import SafeNet.Gen.QuoteFetch
/-!
C13, the composed system behind the clause "a later quote from the same node that reports less uptime or fewer
received payments than an earlier one is flagged as inconsistent":

  client `get_store_quote_from_network` (collects `all_quotes`)  →  DISPATCH  →  a close node's
  `NetworkEvent::QuoteVerification` handler → `quotes_verification` (`Model/QuoteDuty`) →
  `LocalSwarmCmd::QuoteVerification` → `SwarmDriver::verify_peer_quote` (`Model/QuoteHist`).

Everything after DISPATCH is modelled and driven on the real code (`quoteduty`, `quotehist`).  DISPATCH itself — some
code that constructs `NetworkEvent::QuoteVerification` from the quotes a client collected — is a fact about the source
that `rs2lean` regenerates (`Gen.QuoteFetch.quoteVerificationDispatched`: is the event constructed anywhere in
ant-networking/src or ant-node/src outside the `verif` hook directories?).  In today's tree it is `false`: `all_quotes`
is written and never read, the protocol has no message carrying collected quotes to the close nodes, and a client's
`Network` handle has no event channel.  So the checker is never reached by a running node (known finding
K-q-flagging-unreachable).

The observer is one node's swarm driver (`QuoteHist.State`); a *round* is one client fetch at clock reading `now` whose
collected `(peer, quote)` pairs all pass the observer's duty filter (same content, within 10 s of its own valid quote,
signed by the listed peer: `duty_forwards_iff`) — the most favourable case for flagging.
-/
namespace SafeNet.QuoteFlow
open SafeNet.Quote SafeNet.QuoteHist

/-- one client fetch: the clock reading at the observer when the quotes would arrive, and what the client collected -/
structure Round where
  now : Nat
  collected : List (Nat × Hist)
  deriving Repr

/-- what reaches the observer's `LocalSwarmCmd::QuoteVerification` of one round -/
def relayed (dispatched : Bool) (r : Round) : List (Nat × Hist) :=
  if dispatched then r.collected else []

/-- the observer's quote history / issue log after a sequence of client rounds -/
def observeWith (dispatched : Bool) (st : State) : List Round → State
  | [] => st
  | r :: rest => observeWith dispatched (deliverAll st r.now (relayed dispatched r)) rest

/-- … with the dispatch fact of the current source -/
def observe (st : State) (rounds : List Round) : State :=
  observeWith Gen.QuoteFetch.quoteVerificationDispatched st rounds

end SafeNet.QuoteFlow
