/-
C15 model: what the client does with the replies the network layer hands up.
`Client::chunk_get`, `Client::data_get_public` (`autonomi/src/client/data/public.rs`), `get_vault_from_network`
(`autonomi/src/client/vault.rs`) as decision functions over a reply; `Network::get_record_from_network` with
`retry_strategy: None` incl. the scratchpad part of `handle_split_record_error` (`ant-networking/src/lib.rs`) sits in
between and is modelled as `netGet`. The data read re-uses the fetch loop of the C14 model.
Abstract: content hashing (`SE.hash`), BLS signature verification (one Boolean per pad), msgpack decoding of a record
body (a body *is* a chunk value, a scratchpad, junk or nothing).
-/
import SafeNet.Gen.ClientRead
import SafeNet.Model.SelfEnc
namespace SafeNet.Model.ClientRead
open SafeNet.Model.SelfEnc

/-- `RecordKind`: `other` = the `…WithPayment` kinds. -/
inductive Kind where
  | chunk
  | scratchpad
  | register
  | transaction
  | other
  deriving DecidableEq, Repr

/-- A deserialised `Scratchpad`: claimed owner (the address field), counter, `is_valid()`, content version, and
`data_encoding` as delivered (`enc`; `fetch_and_decrypt_vault` hands it to the caller as the vault's content type).
`encOwner` is a ghost field no model function reads: the content type the owner gave the pad when signing it. The
signature covers counter ‖ hash(encrypted data) only, so `valid` says nothing about `enc`. -/
structure Pad where
  owner : Nat
  ctr : Nat
  valid : Bool
  ver : Nat
  enc : Nat := 7
  encOwner : Nat := 7
  deriving DecidableEq, Repr

/-- A deserialised `SignedRegister`: the record key its own address maps to, `verify()`, an id of its content. -/
structure Reg where
  key : Nat
  valid : Bool
  id : Nat
  deriving DecidableEq, Repr

/-- What follows the two header bytes of a record value. -/
inductive Body (B : Type) where
  | chunk (value : B)
  | pad (p : Pad)
  | reg (g : Reg)
  | txs (ts : List Nat)   -- a `Vec<Transaction>` (ids; nothing about a transaction is checked on these paths)
  | junk
  | empty

/-- A kad record as a holder may return it: header kind (`none` = bytes that are no `RecordHeader`) and body.
`Record.key` (chosen by the replying holder, compared with the queried key by nobody below the client) is not a field:
no code on these paths reads it — the address checks compare the *content* (a chunk's hash, a pad's own address) with
the *requested* address / key. -/
structure Rec (B : Type) where
  hdr : Option Kind
  body : Body B

variable {B DM : Type}

/-- `RecordHeader::from_record`: needs `SIZE + 1` bytes, so a value that ends after the header has no header. -/
def headerOf (r : Rec B) : Option Kind :=
  match r.body with
  | .empty => none
  | _ => r.hdr

/-- `try_deserialize_record::<Scratchpad>`: skips the header bytes without looking at them. -/
def padOf (r : Rec B) : Option Pad :=
  match r.body with
  | .pad p => some p
  | _ => none

/-- `try_deserialize_record::<SignedRegister>` -/
def regOf (r : Rec B) : Option Reg :=
  match r.body with
  | .reg g => some g
  | _ => none

/-- `get_transactions_from_record`: the header must say `Transaction` and the body decode as `Vec<Transaction>` -/
def txsOf (r : Rec B) : Option (List Nat) :=
  match headerOf r, r.body with
  | some .transaction, .txs ts => some ts
  | _, _ => none

/-- `GetRecordError`; the split error carries the result map in `values()` iteration order. -/
inductive NetErr (B : Type) where
  | notFound
  | timeout
  | kindMismatch
  | notEnoughCopies
  | doesNotMatch
  | split (m : List (Rec B))

/-- What the swarm driver answers to `GetNetworkRecord`. -/
inductive Reply (B : Type) where
  | ok (r : Rec B)
  | err (e : NetErr B)

/-- One iteration of the `for (record, _) in result_map.values()` loop of `handle_split_record_error`, restricted to
the kinds `Chunk`, `Scratchpad`, `…WithPayment`: state = (kind dictated by the first parsable header, best valid pad).
`rkey` is the record key being read and `padKey owner` the record key a scratchpad of that owner lives under
(`NetworkAddress::ScratchpadAddress(address).to_record_key()`); with `chk` the arm skips a scratchpad whose own address
does not map to `rkey` (the pad is somebody else's: a holder can answer any key with any validly signed pad). -/
def splitStep (chk : Bool) (padKey : Nat → Nat) (rkey : Nat) (st : Option Kind × Option Pad) (r : Rec B) :
    Option Kind × Option Pad :=
  match headerOf r with
  | none => st
  | some k =>
    let kind := st.1.getD k
    if kind ≠ k then (some kind, st.2) else
    match kind with
    | .scratchpad =>
      match padOf r with
      | none => (some kind, st.2)
      | some p =>
        if chk && padKey p.owner != rkey then (some kind, st.2) else
        if !p.valid then (some kind, st.2) else
        match st.2 with
        | some old => if old.ctr ≥ p.ctr then (some kind, st.2) else (some kind, some p)
        | none => (some kind, some p)
    | _ => (some kind, st.2)

/-- the scratchpad part of `handle_split_record_error`: the valid scratchpad of the highest count (first such in visiting
order) among those that belong to the requested key (if `chk`), re-serialised under a `Scratchpad` header -/
def handleSplitPads (chk : Bool) (padKey : Nat → Nat) (rkey : Nat) (m : List (Rec B)) : Option (Rec B) :=
  match (m.foldl (splitStep chk padKey rkey) (none, none)).2 with
  | some p => some ⟨some .scratchpad, .pad p⟩
  | none => none

/-- the kind `handle_split_record_error` expects: that of the first record (in visiting order) with a parsable header -/
def firstKind (m : List (Rec B)) : Option Kind := (m.filterMap headerOf).head?

/-- the transactions accumulated from the records under a `Transaction` header (a set: listed without repetition) -/
def unionTxs (m : List (Rec B)) : List Nat := ((m.filterMap txsOf).flatten).eraseDups

/-- the registers collected by the `Register` arm: decodable, (with `regChk`) living at the key being read, verified -/
def collectedRegs (regChk : Bool) (rkey : Nat) (m : List (Rec B)) : List Reg :=
  ((m.filter (fun r => headerOf r == some .register)).filterMap regOf).filter
    (fun g => (!regChk || g.key == rkey) && g.valid)

/-- `handle_split_record_error` (nothing when the map has a single entry). The first parsable header dictates the kind;
records of any other kind are skipped. `Transaction`: more than one accumulated transaction ⇒ they are returned as one
`Transaction` record. `Register`: the collected registers merged into the first (the merge itself is C05's; here only
that the answer is a `Register` record). `Scratchpad`: `handleSplitPads`. Other kinds: nothing. -/
def handleSplit (chk regChk : Bool) (padKey : Nat → Nat) (rkey : Nat) (m : List (Rec B)) : Option (Rec B) :=
  if m.length > 1 then
    match firstKind m with
    | some .transaction => if (unionTxs m).length > 1 then some ⟨some .transaction, .txs (unionTxs m)⟩ else none
    | some .register =>
      match collectedRegs regChk rkey m with
      | g :: _ => some ⟨some .register, .reg g⟩
      | [] => none
    | _ => handleSplitPads chk padKey rkey m
  else none

/-- `Network::get_record_from_network(rkey, cfg)` with `retry_strategy: None` -/
def netGetWith (chk regChk : Bool) (padKey : Nat → Nat) (rkey : Nat) : Reply B → Except (NetErr B) (Rec B)
  | .ok r => .ok r
  | .err (.split m) =>
    match handleSplit chk regChk padKey rkey m with
    | some r => .ok r
    | none => .error (.split m)
  | .err e => .error e

/-- … with the `Register` arm as it is in the source -/
def netGet (chk : Bool) (padKey : Nat → Nat) (rkey : Nat) (reply : Reply B) : Except (NetErr B) (Rec B) :=
  netGetWith chk Gen.ClientRead.netSplitRegChecksKey padKey rkey reply

/-- the split branch of `accumulate_get_record_found` (the swarm driver, once the quorum is reached with more than one
version in the result map `m`): the union of the transactions is answered as ONE record — with `needAll` only when every
version decoded as transactions, without it as soon as any did (the other versions were silently left out) — and
otherwise the caller gets `SplitRecord` with all versions -/
def kadSplitReply (needAll : Bool) (m : List (Rec B)) : Reply B :=
  if (!needAll || m.all (fun r => (txsOf r).isSome)) && !(unionTxs m).isEmpty then
    .ok ⟨some .transaction, .txs (unionTxs m)⟩
  else .err (.split m)

def netErrClass : NetErr B → String
  | .notFound => "nf"
  | .timeout => "to"
  | .kindMismatch => "km"
  | .notEnoughCopies => "nc"
  | .doesNotMatch => "mismatch"
  | .split _ => "split"

/-- `Client::chunk_get(addr)`; the record key of a chunk is its address -/
def chunkGet (S : SE B DM) (padKey : Nat → Nat) (addr : Nat) (reply : Reply B) : Except GetErr (Chunk B) :=
  match netGet Gen.ClientRead.netSplitChecksPadKey padKey addr reply with
  | .error e => .error (.other (netErrClass e))
  | .ok record =>
    match headerOf record with
    | none => .error (.other "hdr")
    | some kind =>
      if Gen.ClientRead.chunkGetChecksKind && kind != .chunk then .error (.other "kind") else
      match record.body with
      | .chunk value =>
        let chunk := Chunk.new S value
        if Gen.ClientRead.chunkGetComparesAddress && chunk.address != addr then .error (.other "mismatch")
        else .ok chunk
      | _ => .error (.other "parse")

/-- `Client::data_get_public(addr)` against holders that answer key `a` with `replies a`. -/
def dataGetPublic (S : SE B DM) (padKey : Nat → Nat) (replies : Nat → Reply B) (fuel : Nat) (codes : List (List Nat))
    (addr : Nat) : Except GetErr B :=
  match chunkGet S padKey addr (replies addr) with
  | .error e => .error e
  | .ok dataMapChunk =>
    fetchFromDataMapChunk S (fun a => chunkGet S padKey a (replies a)) fuel codes dataMapChunk.value

inductive VaultErr where
  | invalid
  | missing
  | network (cls : String)
  deriving DecidableEq, Repr

/-- the check added to the `Ok(record)` arm -/
def okAccepts (key : Nat) (p : Pad) : Bool :=
  (!Gen.ClientRead.vaultOkChecksOwner || p.owner == key) && (!Gen.ClientRead.vaultOkChecksValid || p.valid)

/-- the filter of the `SplitRecord` arm -/
def splitAccepts (key : Nat) (p : Pad) : Bool :=
  (!Gen.ClientRead.vaultSplitChecksOwner || p.owner == key) && (!Gen.ClientRead.vaultSplitChecksValid || p.valid)

/-- `pads.sort_by_key(count)`, `max_version = last.count`: the largest counter (0 for no pads, where it is not used) -/
def maxCtr (pads : List Pad) : Nat := pads.foldl (fun m p => Nat.max m p.ctr) 0

/-- `latest_pads` of the `SplitRecord` arm: stable sort by count, keep the pads of the last one's count — with the
owner/signature filter applied either before the highest count is determined (forged versions are discarded first)
or only to the candidates of the highest count. -/
def latestPads (key : Nat) (m : List (Rec B)) : List Pad :=
  let all := m.filterMap padOf
  if Gen.ClientRead.vaultSplitFiltersBeforeMax then
    let pads := all.filter (splitAccepts key)
    pads.filter (fun p => p.ctr == maxCtr pads)
  else
    (all.filter (fun p => p.ctr == maxCtr all)).filter (splitAccepts key)

/-- `get_vault_from_network` for the secret key whose public key is `key`, over a network layer whose split handling
does (`chk`) or does not compare a pad's own address with the key being read -/
def getVaultWith2 (chk regChk : Bool) (padKey : Nat → Nat) (key : Nat) (reply : Reply B) : Except VaultErr Pad :=
  match netGetWith chk regChk padKey (padKey key) reply with
  | .ok record =>
    match padOf record with
    | none => .error .invalid
    | some p => if okAccepts key p then .ok p else .error .invalid
  | .error (.split m) =>
    if Gen.ClientRead.vaultSplitDropsUndeserialisable || m.all (fun r => (padOf r).isSome) then
      match latestPads key m with
      | p :: _ => .ok p
      | [] => .error .missing
    else .error .invalid
  | .error e => .error (.network (netErrClass e))

/-- … with the `Register` arm of the split handling as it is in the source -/
def getVaultWith (chk : Bool) (padKey : Nat → Nat) (key : Nat) (reply : Reply B) : Except VaultErr Pad :=
  getVaultWith2 chk Gen.ClientRead.netSplitRegChecksKey padKey key reply

/-- `fetch_and_decrypt_vault`: the decrypted data (here: the pad) and `pad.data_encoding()` as the content type -/
def contentTypeOf (p : Pad) : Nat := p.enc

/-- `get_vault_from_network` over the network layer as it is in the source -/
def getVault (padKey : Nat → Nat) (key : Nat) (reply : Reply B) : Except VaultErr Pad :=
  getVaultWith Gen.ClientRead.netSplitChecksPadKey padKey key reply

/-- how the vault WRITE path starts (`get_or_create_scratchpad`): continue the version read, start a new vault (counter 0,
to be paid for), or fail -/
inductive WriteStart where
  | existing (p : Pad)
  | fresh
  | error (cls : String)
  deriving DecidableEq, Repr

/-- `Client::get_or_create_scratchpad`: with `onlyNf` a new vault is started only when the read said `RecordNotFound`
and every other failure of the read fails the write; without it every failed read was taken for "no vault yet" -/
def getOrCreateWith (onlyNf : Bool) (padKey : Nat → Nat) (key : Nat) (reply : Reply B) : WriteStart :=
  match getVault padKey key reply with
  | .ok p => .existing p
  | .error e =>
    if !onlyNf then .fresh
    else match e with
      | .network cls => if cls = "nf" then .fresh else .error cls
      | _ => .error "badowner"

def getOrCreate (padKey : Nat → Nat) (key : Nat) (reply : Reply B) : WriteStart :=
  getOrCreateWith Gen.ClientRead.vaultWriteCreatesOnlyOnNotFound padKey key reply

end SafeNet.Model.ClientRead
