import SafeNet.Gen.Validate
/-!
# Model of node-side put validation (`ant-node/src/put_validation.rs`)

One decision function from *(branch, observations)* to *(result class, command trace)* — `skel`, one
equation per branch of `validate_and_store_record` / `store_replicated_in_record` and of the store
functions they call — instantiated with data (`validate`), composed with an abstract store
(`deliverSeq`), and a small-step semantics (`World`) in which every read of the local store
(`RecordStoreHasKey`, `GetLocalRecord`) is an explicit step, so that several validations of one key
can be interleaved, and in which the store may drop any key between any two steps (`Act.remove`:
eviction, clean-up, removal of a failed write).  `validateSized` puts the node's own size test in front.  The routing table, the list/order of payment checks and the comparators come
from `SafeNet.Gen.Validate`, regenerated from the Rust source.

Identities are small naturals.  **Record keys are derived values with no kind tag**: key number `n` stands for
SHA3-256 of *address preimage* number `n`, where preimage `3*i` is plain data number `i`, preimage `3*o+1` is the 48
public-key bytes of owner `o` (hashed by `ScratchpadAddress::xorname` AND by `TransactionAddress::from_owner`), and
preimage `3*r+2` is `meta ‖ pk` of register `r` (`RegisterAddress::xorname`); `NetworkAddress::to_record_key` maps
every typed address to the bare 32 name bytes.  Distinct numbers = distinct byte strings, whose hashes differ under
collision-freedom (`AddrDerive`, `C04.key_determines_content`).  A chunk's key is the hash of its BYTES
(`Chunk::new`), and its bytes can be any byte string — in particular an owner's public key or a register's
`meta ‖ pk`: `DContent.chunkPre n` is the chunk whose bytes are preimage `n`, and it derives key `n` whatever else
derives that key (`chunk i` = `chunkPre (3*i)`, kept as the common case).  So key spaces of different kinds are NOT
disjoint: a Chunk can sit at an owner-derived key (K-f5, `Props/C07`).
-/
namespace SafeNet.Validate
open SafeNet.Gen.Validate

/-! ## Results and command shapes -/

inductive Res
  | ok | keyMismatch | unpaid | unexpectedPayment | parse
  | payNotForUs | payWrongContent | payExpired | payOutOfRange | payChain
  | outdated | invalidSig | noTx | regNotFound | regInvalid | regDifferentBase | kindMismatch
deriving DecidableEq, Repr

/-- outcome of the payment checks: `ok` or the first failing step -/
inductive PayRes | ok | notForUs | wrongContent | expired | outOfRange | chain
deriving DecidableEq, Repr

/-- `RecordType` of a fetch-completed / replication notice: chunk, scratchpad, hash of the incoming
record value, hash of the value just stored -/
inductive Ty | c | s | i | m
deriving DecidableEq, Repr

/-- command shapes (keys and contents are filled in by `inst`) -/
inductive Tk
  | H | G | K | V | P
  | Wd          -- put the delivered content
  | Wm          -- put the delivered content merged with the local copy
  | F (t : Ty)  -- FetchCompleted(record.key, t)
  | Rk (t : Ty) -- replicate_valid_fresh_record(record.key, t)
  | Rd (t : Ty) -- replicate_valid_fresh_record(derived key, t)
deriving DecidableEq, Repr

/-- the six payment conditions of one proof of payment -/
structure PayVec where
  sigs : Bool
  selfPayee : Bool
  close : Bool
  fresh : Bool
  chain : Bool
  qaddr : Bool
deriving DecidableEq, Repr

def PayVec.all (v : PayVec) : Bool := v.sigs && v.selfPayee && v.close && v.fresh && v.chain && v.qaddr

def stepHolds (v : PayVec) : PayStep → Bool
  | .forUs => v.selfPayee && v.sigs
  | .content => v.qaddr
  | .expiry => v.fresh
  | .close => v.close
  | .chain => v.chain

def stepFail : PayStep → PayRes
  | .forUs => .notForUs
  | .content => .wrongContent
  | .expiry => .expired
  | .close => .outOfRange
  | .chain => .chain

/-- `payment_for_us_exists_and_is_still_valid`: the first failing check in source order -/
def payCheck (order : List PayStep) (v : PayVec) : PayRes :=
  match order with
  | [] => .ok
  | st :: rest => if stepHolds v st then payCheck rest v else stepFail st

/-- commands a payment check emits before it returns: the closest-peers query when the `close` step
is reached, the contract call when the `chain` step is reached, the payment notice on success -/
def payToksAux (order : List PayStep) (r : PayRes) : List Tk :=
  match order with
  | [] => [.P]
  | st :: rest =>
    let mine : List Tk := match st with | .close => [.K] | .chain => [.V] | _ => []
    if stepFail st = r then mine else mine ++ payToksAux rest r

def payToks (r : PayRes) : List Tk := payToksAux payCheckOrder r

def payErr : PayRes → Res
  | .ok => .ok
  | .notForUs => .payNotForUs
  | .wrongContent => .payWrongContent
  | .expired => .payExpired
  | .outOfRange => .payOutOfRange
  | .chain => .payChain

/-! ## The decision function -/

/-- Everything a validation observes. `h1`, `h2`: answers of the first / second `RecordStoreHasKey`;
`lSome`: `GetLocalRecord` returned a record; `lOk`: it decodes as the expected kind.
`cA cB cC` per kind — scratchpad: local counter blocks the update, signature valid, – ;
transactions: some entry is for this key, some such entry verifies, – ;
register: `verify()` passes, same base register as the local copy, merge changes the local copy. -/
structure Obs where
  parse : Bool
  km : Bool
  h1 : Bool
  h2 : Bool
  pay : PayRes
  lSome : Bool
  lOk : Bool
  cA : Bool
  cB : Bool
  cC : Bool
deriving DecidableEq, Repr

structure Out where
  res : Res
  toks : List Tk
  repl : List Tk
deriving DecidableEq, Repr

def Out.trace (o : Out) : List Tk := o.toks ++ o.repl

def rej (r : Res) (toks : List Tk := []) : Out := ⟨r, toks, []⟩

/-- `validate_and_store_scratchpad_record` after its key check -/
def storePad (client : Bool) (o : Obs) : Out :=
  if o.lSome && !o.lOk then rej .parse [.G]
  else if o.lSome && o.cA then rej .outdated [.G]
  else if padChecksSignature && !o.cB then rej .invalidSig [.G]
  else ⟨.ok, [.G, .Wd], if client then [.Rd .s] else []⟩

/-- `validate_merge_and_store_transactions` -/
def storeTx (o : Obs) : Out :=
  if !o.cA then rej .noTx
  else if !o.cB then ⟨.ok, [], []⟩
  else if o.lSome && !o.lOk then rej .kindMismatch [.G]
  else ⟨.ok, [.G, .Wm], []⟩

/-- `validate_and_store_register` / `register_validation` -/
def storeReg (client : Bool) (o : Obs) : Out :=
  if regVerifies && !o.cA then rej .regInvalid [.H]
  else if !o.h2 then ⟨.ok, [.H, .Wd], if client then [.Rd .m] else []⟩
  else if !o.lSome then rej .regNotFound [.H, .G]
  else if !o.lOk then rej .parse [.H, .G]
  else if !o.cB then rej .regDifferentBase [.H, .G]
  else if regVerifiedMerge && !o.cA then rej .regInvalid [.H, .G]
  else if !o.cC then ⟨.ok, [.H, .G], []⟩
  else ⟨.ok, [.H, .G, .Wm], if client then [.Rd .m] else []⟩

/-- key check of `validate_key_and_existence` -/
def vkeRejects (o : Obs) : Bool := vkeChecksKey && !o.km

def skel (b : Branch) (o : Obs) : Out :=
  match b with
  | .rejectUnpaid => rej .unpaid
  | .rejectPaid => rej .unexpectedPayment
  | .chunkPaid =>
    if !o.parse then rej .parse
    else if vkeRejects o then rej .keyMismatch
    else
      let pt := payToks o.pay
      if o.h1 then ⟨.ok, [.H] ++ pt ++ [.F .c], [.Rk .c]⟩
      else if o.pay ≠ .ok then rej (payErr o.pay) ([.H] ++ pt)
      else ⟨.ok, [.H] ++ pt ++ [.Wd, .F .c], [.Rk .c]⟩
  | .padPaid =>
    if !o.parse then rej .parse
    else if vkeRejects o then rej .keyMismatch
    else
      let pt := payToks o.pay
      if o.pay ≠ .ok then rej (payErr o.pay) ([.H] ++ pt)
      else if padChecksKey && !o.km then rej .keyMismatch ([.H] ++ pt)
      else
        let sp := storePad true o
        if sp.res = .ok ∨ sp.res = .outdated then ⟨sp.res, [.H] ++ pt ++ sp.toks ++ [.F .s], sp.repl ++ [.Rk .s]⟩
        else ⟨sp.res, [.H] ++ pt ++ sp.toks, sp.repl⟩
  | .padUpdate =>
    if !o.parse then rej .parse
    else if vkeRejects o then rej .keyMismatch
    else if !o.h1 then rej .unpaid [.H]
    else if padChecksKey && !o.km then rej .keyMismatch [.H]
    -- without payment only as an update of the copy held: the local read must find it
    else if padUpdateNeedsLocal && !o.lSome then rej .unpaid [.H, .G]
    else
      let sp := storePad false o
      ⟨sp.res, [.H] ++ sp.toks, sp.repl⟩
  | .padRepl =>
    if !o.parse then rej .parse
    else if padChecksKey && !o.km then rej .keyMismatch
    else storePad false o
  | .txPaid =>
    if !o.parse then rej .parse
    else if (txPaidChecksKey || vkeChecksKey) && !o.km then rej .keyMismatch
    else
      let pt := payToks o.pay
      if o.pay ≠ .ok && !o.h1 then rej (payErr o.pay) ([.H] ++ pt)
      -- a failed payment is tolerated only for an update of the set held: the local read must find it
      else if txFailedPayNeedsLocal && o.pay ≠ .ok && o.cA && o.cB && !o.lSome then rej .unpaid ([.H] ++ pt ++ [.G])
      else
        let st := storeTx o
        if st.res = .ok then ⟨.ok, [.H] ++ pt ++ st.toks ++ [.F .i], st.repl ++ [.Rk .i]⟩
        else ⟨st.res, [.H] ++ pt ++ st.toks, st.repl⟩
  | .txRepl =>
    if !o.parse then rej .parse else storeTx o
  | .regUpdate =>
    if !o.parse then rej .parse
    else if regUpdateChecksKey && !o.km then rej .keyMismatch
    else if !o.h1 then rej .unpaid [.H]
    -- without payment only as an update of the copy held: the store function's own existence test must find it
    else if regUpdateNeedsLocal && !o.h2 then rej .unpaid [.H, .H]
    else
      let sr := storeReg true o
      if sr.res = .ok then ⟨.ok, [.H] ++ sr.toks ++ [.F .i], sr.repl⟩
      else ⟨sr.res, [.H] ++ sr.toks, sr.repl⟩
  | .regPaid =>
    if !o.parse then rej .parse
    else if (regPaidChecksKey || vkeChecksKey) && !o.km then rej .keyMismatch
    else
      let pt := payToks o.pay
      if o.pay ≠ .ok && !o.h1 then rej (payErr o.pay) ([.H] ++ pt)
      else if regFailedPayNeedsLocal && o.pay ≠ .ok && !o.h2 then rej .unpaid ([.H] ++ pt ++ [.H])
      else
        let sr := storeReg true o
        if sr.res = .ok then ⟨.ok, [.H] ++ pt ++ sr.toks ++ [.F .i], sr.repl⟩
        else ⟨sr.res, [.H] ++ pt ++ sr.toks, sr.repl⟩
  | .regRepl =>
    if !o.parse then rej .parse
    else if regReplChecksKey && !o.km then rej .keyMismatch
    else storeReg false o
  | .chunkRepl =>
    if !o.parse then rej .parse
    else if vkeRejects o then rej .keyMismatch
    else if o.h1 then ⟨.ok, [.H], []⟩
    else ⟨.ok, [.H, .Wd], []⟩

def route (client : Bool) (k : Kind) : Branch := if client then clientRoute k else replRoute k

/-! ## Data -/

/-- content held in the local store -/
inductive Content
  | chunk
  | pad (n : Nat) (valid : Bool)
  | txs (ids : List Nat)
  | reg (alt : Bool) (ops : List Nat)
deriving DecidableEq, Repr

structure TxD where
  owner : Nat
  t : Nat
  valid : Bool
deriving DecidableEq, Repr

inductive RegBase | good | alt | bad
deriving DecidableEq, Repr

/-- register op classes: signed by the owner / by a stranger (unpermitted writer) / addressed to another
register / owner as source with a forged signature / oversize entry -/
inductive OpCls | v | u | f | s | z
deriving DecidableEq, Repr

structure OpD where
  id : Nat
  cls : OpCls
deriving DecidableEq, Repr

inductive DContent
  | bad
  | chunk (id : Nat)
  /-- a chunk whose bytes are exactly address preimage number `pre` (an owner's public key, a register's
  `meta ‖ pk`, or plain data) -/
  | chunkPre (pre : Nat)
  | pad (owner n : Nat) (valid : Bool)
  | txs (l : List TxD)
  | reg (id : Nat) (base : RegBase) (ops : List OpD)
deriving DecidableEq, Repr

structure QuoteD where
  payee : Nat
  signer : Nat
  sig : Bool
  fresh : Bool
  content : Bool
  valid : Bool
  amount : Nat
deriving DecidableEq, Repr

structure PayD where
  quotes : List QuoteD
  close : List Nat
deriving DecidableEq, Repr

structure Delivery where
  client : Bool
  kind : Kind
  rk : Nat
  content : DContent
  pay : Option PayD
deriving DecidableEq, Repr

def isPaid : Kind → Bool
  | .chunkp | .padp | .txp | .regp => true
  | _ => false

/-- 0 chunk, 1 scratchpad, 2 transaction, 3 register -/
def kindFam : Kind → Nat
  | .chunkp | .chunk => 0
  | .padp | .pad => 1
  | .txp | .tx => 2
  | .regp | .reg => 3

def contentFam : DContent → Option Nat
  | .bad => none
  | .chunk _ => some 0
  | .chunkPre _ => some 0
  | .pad .. => some 1
  | .txs _ => some 2
  | .reg .. => some 3

/-- the key the content itself determines: the number of the byte string that is hashed (for a chunk: its own
bytes, whatever they are) -/
def derivedKey : DContent → Option Nat
  | .bad => none
  | .chunk id => some (3 * id)
  | .chunkPre pre => some pre
  | .pad owner _ _ => some (3 * owner + 1)
  | .txs l => l.head?.map (fun t => 3 * t.owner + 1)
  | .reg id _ _ => some (3 * id + 2)

/-- payee ids 998 / 999 stand for claimed peer-id bytes that do not decode (empty / `[0xFF,0xFF,0xFF]`) -/
def undec (q : QuoteD) : Bool := decide (998 ≤ q.payee)

def vecOf (p : PayD) : PayVec :=
  { -- every quote is validly signed by the node it claims to come from; an undecodable claimed id cannot be
    -- checked and counts as a failure (`verify_for` returns false on it)
    sigs := p.quotes.all (fun q => !undec q && q.sig && q.signer == q.payee)
    selfPayee := p.quotes.any (fun q => q.payee == 0)
    -- `payees()` drops undecodable ids, so the closeness test never sees them
    close := p.quotes.all (fun q => undec q || p.close.contains q.payee)
    fresh := p.quotes.all (·.fresh)
    chain := p.quotes.length == 3 && (!chainFailsOnInvalid || p.quotes.all (·.valid))
    qaddr := p.quotes.all (fun q => q.signer != 0 || q.content) }

/-- `SwarmDriver::get_closest_k_value_local_peers` (the answer to `GetClosestKLocalPeers`): this node (id 0)
followed by the routing-table peers in order of increasing distance `ps`, cut at `K_VALUE` entries in all. -/
def closeSet (ps : List Nat) : List Nat :=
  if closeCutAfterChain then (0 :: ps).take kValue else 0 :: ps.take kValue

/-- amount reported with the payment notice: `amountPaid` summed over this node's quotes -/
def rewardOf (p : PayD) : Nat :=
  ((p.quotes.filter (fun q => !chainSumsOwnedOnly || q.signer == 0)).map (·.amount)).foldl (· + ·) 0

def insertSorted (x : Nat) : List Nat → List Nat
  | [] => [x]
  | y :: ys => if x < y then x :: y :: ys else if x = y then y :: ys else y :: insertSorted x ys

/-- sorted duplicate-free union (model of `BTreeSet::extend`) -/
def union (a b : List Nat) : List Nat := a.foldl (fun acc x => insertSorted x acc) (b.foldl (fun acc x => insertSorted x acc) [])

/-- `check_register_op` + the entry-size guard of `SignedRegister::verify`: with "anyone can write"
permissions neither the writer nor the signature is checked -/
def opValid (alt : Bool) : OpCls → Bool
  | .v => true
  | .u => alt
  | .f => false
  | .s => alt
  | .z => false

abbrev Store := List (Nat × Content)

def Store.get (s : Store) (k : Nat) : Option Content :=
  match s with
  | [] => none
  | (k', c) :: rest => if k' = k then some c else Store.get rest k

def Store.put (s : Store) (k : Nat) (c : Content) : Store :=
  match s with
  | [] => [(k, c)]
  | (k', c') :: rest => if k' = k then (k, c) :: rest else (k', c') :: Store.put rest k c

/-- the store drops a key (capacity eviction, range clean-up, removal of a failed write) -/
def Store.remove (s : Store) (k : Nat) : Store := s.filter (fun e => e.1 != k)

/-- 0 chunk, 1 scratchpad, 2 transaction set, 3 register (the numbering of `kindFam`) -/
def Content.fam : Content → Nat
  | .chunk => 0
  | .pad .. => 1
  | .txs _ => 2
  | .reg .. => 3

/-- answers a validation has received so far: `RecordStoreHasKey` replies in order, `GetLocalRecord` reply -/
structure Ans where
  hs : List Bool
  g : Option (Option Content)
deriving DecidableEq, Repr

/-- the key whose local copy the validation reads and writes -/
def rwKey (d : Delivery) : Nat :=
  match route d.client d.kind with
  | .txRepl => d.rk
  | _ => (derivedKey d.content).getD d.rk

def parseOk (d : Delivery) : Bool :=
  contentFam d.content == some (kindFam d.kind) && (isPaid d.kind == d.pay.isSome) &&
  (match d.content with | .txs l => !l.isEmpty || !d.client | _ => true)

/-- transactions of the delivery that are for the key being written -/
def txForKey (d : Delivery) : List TxD :=
  match d.content with
  | .txs l =>
    let l := if d.client then l.take 1 else l
    if txFiltersForeign then l.filter (fun t => 3 * t.owner + 1 == rwKey d) else l
  | _ => []

def txValid (d : Delivery) : List TxD :=
  if txFiltersInvalid then (txForKey d).filter (·.valid) else txForKey d

def regAlt : RegBase → Bool
  | .alt => true
  | _ => false

def obsOfAns (d : Delivery) (a : Ans) : Obs :=
  let loc : Option Content := a.g.getD none
  let base : Obs :=
    { parse := parseOk d
      km := (match route d.client d.kind with
              | .txRepl => true
              | _ => decide (derivedKey d.content = some d.rk))
      h1 := a.hs.getD 0 false
      h2 := a.hs.getD 1 false
      pay := (match d.pay with | some p => payCheck payCheckOrder (vecOf p) | none => .notForUs)
      lSome := loc.isSome
      lOk := false, cA := false, cB := false, cC := false }
  match d.content with
  | .pad _ n valid =>
    { base with
      lOk := (match loc with | some (.pad ..) => true | _ => false)
      cA := (match loc with
              | some (.pad m _) => if padRejectsEqualCounter then decide (n ≤ m) else decide (n < m)
              | _ => false)
      cB := valid }
  | .txs _ =>
    { base with
      lOk := (match loc with | some (.txs _) => true | _ => false)
      cA := !(txForKey d).isEmpty
      cB := !(txValid d).isEmpty }
  | .reg _ b ops =>
    { base with
      -- the register arms read the key twice before the local copy: first reply is `h1` only on the
      -- client paths; on the replication path the single `RecordStoreHasKey` is the one inside the store function
      h2 := (if d.client then a.hs.getD 1 false else a.hs.getD 0 false)
      lOk := (match loc with | some (.reg ..) => true | _ => false)
      cA := decide (b ≠ .bad) && ops.all (fun o => opValid (regAlt b) o.cls)
      cB := (match loc with | some (.reg alt _) => alt == regAlt b | _ => false)
      cC := (match loc with
              | some (.reg _ lops) => ops.any (fun o => !lops.contains o.id)
              | _ => false) }
  | _ => base

/-- the content written by `Wd` / `Wm` -/
def written (d : Delivery) (a : Ans) (merged : Bool) : Content :=
  let loc : Option Content := a.g.getD none
  match d.content with
  | .chunk _ => .chunk
  | .chunkPre _ => .chunk
  | .pad _ n valid => .pad n valid
  | .txs _ =>
    let mine := (txValid d).map (·.t)
    -- the merge is a `BTreeSet<Transaction>`: it is the set union of *transactions* (ids stand for whole
    -- transactions, every field included) only if ordering/equality of `Transaction` are the derived ones
    if txOrdDerived then
      .txs (union mine (match loc with | some (.txs l) => if txMergesLocal then l else [] | _ => []))
    else .txs mine
  | .reg _ b ops =>
    if merged then
      match loc with
      | some (.reg alt lops) => .reg alt (union (ops.map (·.id)) lops)
      | _ => .reg (regAlt b) (union (ops.map (·.id)) [])
    else .reg (regAlt b) (union (ops.map (·.id)) [])
  | .bad => .chunk

/-- concrete commands -/
inductive Tok
  | H (k : Nat) | G (k : Nat) | K | V | P (amount : Nat)
  | W (k : Nat) (c : Content)
  | F (k : Nat) (t : Ty) | R (k : Nat) (t : Ty)
deriving DecidableEq, Repr

def inst (d : Delivery) (a : Ans) : Tk → Tok
  | .H => .H (rwKey d)
  | .G => .G (rwKey d)
  | .K => .K
  | .V => .V
  | .P => .P (match d.pay with | some p => rewardOf p | none => 0)
  | .Wd => .W (rwKey d) (written d a false)
  | .Wm => .W (rwKey d) (written d a true)
  | .F t => .F d.rk t
  | .Rk t => .R d.rk t
  | .Rd t => .R (rwKey d) t

def applyToks (s : Store) : List Tok → Store
  | [] => s
  | .W k c :: rest => applyToks (s.put k c) rest
  | _ :: rest => applyToks s rest

/-- answers a validation gets when nothing else touches the store while it runs -/
def seqAns (d : Delivery) (s : Store) : Ans :=
  let has := (s.get (rwKey d)).isSome
  ⟨[has, has], some (s.get (rwKey d))⟩

/-- **The decision function**: result class and ordered command trace of one delivery processed against
local store content `s` without interference. -/
def validate (d : Delivery) (s : Store) : Res × List Tok :=
  let a := seqAns d s
  let o := skel (route d.client d.kind) (obsOfAns d a)
  (o.res, o.trace.map (inst d a))

/-- sequential composition with the store -/
def deliverSeq (s : Store) (d : Delivery) : Store := applyToks s (validate d s).2

def runSerial (s : Store) (ds : List Delivery) : Store := ds.foldl deliverSeq s

/-! ## Small-step semantics: store reads are steps -/

structure Flight where
  d : Delivery
  a : Ans
  emitted : Nat
  /-- the read the validation is blocked on: `some false` = `RecordStoreHasKey`, `some true` = `GetLocalRecord` -/
  pending : Option Bool
  answered : Bool
deriving DecidableEq, Repr

/-- index and kind of the first store read in `tks` not covered by the answers -/
def firstOpenRead : List Tk → Nat → Bool → Nat → Option (Nat × Bool)
  | [], _, _, _ => none
  | .H :: rest, nh, g, i => if nh = 0 then some (i, false) else firstOpenRead rest (nh - 1) g (i + 1)
  | .G :: rest, nh, g, i => if g then firstOpenRead rest nh g (i + 1) else some (i, true)
  | _ :: rest, nh, g, i => firstOpenRead rest nh g (i + 1)

structure StepOut where
  flight : Flight
  store : Store
  done : Option Res
  toks : List Tok
deriving Repr

/-- run a validation from where it stands to its next open store read or to its end -/
def advance (f : Flight) (s : Store) : StepOut :=
  let o := skel (route f.d.client f.d.kind) (obsOfAns f.d f.a)
  match firstOpenRead o.toks f.a.hs.length f.a.g.isSome 0 with
  | some (i, isG) =>
    let seg := ((o.toks.take (i + 1)).drop f.emitted).map (inst f.d f.a)
    { flight := { f with emitted := i + 1, pending := some isG, answered := false }
      store := applyToks s seg, done := none, toks := seg }
  | none =>
    let seg := ((o.toks.drop f.emitted) ++ o.repl).map (inst f.d f.a)
    { flight := { f with emitted := o.toks.length, pending := none, answered := false }
      store := applyToks s seg, done := some o.res, toks := seg }

/-- serve the pending read from the current store -/
def serve (f : Flight) (s : Store) : Flight :=
  match f.pending with
  | some false => { f with a := { f.a with hs := f.a.hs ++ [(s.get (rwKey f.d)).isSome] }, answered := true }
  | some true => { f with a := { f.a with g := some (s.get (rwKey f.d)) }, answered := true }
  | none => f

def Flight.start (d : Delivery) : Flight := ⟨d, ⟨[], none⟩, 0, none, false⟩

/-- process a delivery to completion with every read served immediately (`fuel` bounds the number of reads) -/
def runAlone (fuel : Nat) (f : Flight) (s : Store) (acc : List Tok) : Res × List Tok × Store :=
  let so := advance f s
  match so.done with
  | some r => (r, acc ++ so.toks, so.store)
  | none =>
    match fuel with
    | 0 => (.parse, acc ++ so.toks, so.store)
    | fuel + 1 => runAlone fuel (serve so.flight so.store) so.store (acc ++ so.toks)

/-- scheduler actions on named validations -/
inductive Act
  | begin (id : Nat) (d : Delivery)
  | ans (id : Nat)
  | run (id : Nat)
  /-- the store drops key `k` — whatever the cause (`prune_records_if_needed` at capacity, `cleanup_irrelevant_records`
  after a range change, `RemoveFailedLocalRecord`, kad `remove`): the swarm driver handles these between any two
  commands of a validation, so the scheduler may place this action anywhere -/
  | remove (k : Nat)
deriving Repr

structure World where
  store : Store
  flights : List (Nat × Flight)
deriving Repr

def World.flight (w : World) (id : Nat) : Option Flight :=
  (w.flights.find? (·.1 == id)).map (·.2)

def World.setFlight (w : World) (id : Nat) (f : Option Flight) : World :=
  let rest := w.flights.filter (·.1 != id)
  { w with flights := match f with | some f => rest ++ [(id, f)] | none => rest }

/-- one scheduler action; `none` = illegal action (ignored) -/
def World.act (w : World) : Act → World × Option (Option Res × List Tok)
  | .begin id d =>
    match w.flight id with
    | some _ => (w, none)
    | none =>
      let so := advance (Flight.start d) w.store
      (({ w with store := so.store }).setFlight id (if so.done.isSome then none else some so.flight), some (so.done, so.toks))
  | .ans id =>
    match w.flight id with
    | some f => if f.pending.isSome && !f.answered then (w.setFlight id (some (serve f w.store)), some (none, [])) else (w, none)
    | none => (w, none)
  | .run id =>
    match w.flight id with
    | some f =>
      if f.answered then
        let so := advance f w.store
        (({ w with store := so.store }).setFlight id (if so.done.isSome then none else some so.flight), some (so.done, so.toks))
      else (w, none)
    | none => (w, none)
  | .remove k => ({ w with store := w.store.remove k }, some (none, []))

def World.run (w : World) (acts : List Act) : World := acts.foldl (fun w a => (w.act a).1) w

/-! ## The node's own size test (first statement of both entry points of put validation) -/

/-- `record.value.len() >= MAX_PACKET_SIZE` (comparator and constant from the source) -/
def oversize (len : Nat) : Bool :=
  if nodeSizeRefusesAtLimit then decide (maxPacketSize ≤ len) else decide (maxPacketSize < len)

/-- the record is refused for its size before its header is even parsed -/
def sizeGate (client : Bool) (len : Nat) : Bool :=
  (if client then clientPathRefusesOversize else replPathRefusesOversize) && oversize len

/-- `validate_and_store_record` / `store_replicated_in_record` on a record whose value is `len` bytes long:
`none` = refused as too large (an error, no command at all), otherwise the decision function. -/
def validateSized (len : Nat) (d : Delivery) (s : Store) : Option (Res × List Tok) :=
  if sizeGate d.client len then none else some (validate d s)

/-! ## The size test on the record a store function BUILDS (delivered content merged with the local copy)

`validate_merge_and_store_transactions` re-serialises delivered ∪ local transactions, `validate_and_store_register`
the merged register: a new record, possibly larger than anything that arrived (`Transaction.parents / outputs` are
unbounded and an owner may append without payment).  Since the repair both apply the entry points' size test to that
record before `put_local_record` (flags regenerated from the source). -/

def hasPut : List Tok → Bool
  | [] => false
  | .W _ _ :: _ => true
  | _ :: r => hasPut r

/-- the commands emitted before the first put -/
def cutAtPut : List Tok → List Tok
  | [] => []
  | .W _ _ :: _ => []
  | t :: r => t :: cutAtPut r

/-- does the store function behind this delivery test the size of the record it builds? -/
def putGate (d : Delivery) : Bool :=
  if kindFam d.kind = 2 then txMergedPutRefusesOversize
  else if kindFam d.kind = 3 then regMergedPutRefusesOversize
  else false

inductive Sized
  /-- the arriving record is too large: an error before anything else, no command -/
  | refused
  /-- the record built for the put is too large: an error after these commands; no put, no notice, no replication -/
  | refusedAtPut (toks : List Tok)
  | done (r : Res) (toks : List Tok)
deriving DecidableEq, Repr

/-- `validate_and_store_record` / `store_replicated_in_record` on an arriving record of `len` bytes whose store
function would put a record of `plen` bytes (delivered content merged with the local copy, re-serialised) -/
def validateSizedPut (len plen : Nat) (d : Delivery) (s : Store) : Sized :=
  if sizeGate d.client len then .refused
  else
    let rt := validate d s
    if putGate d && oversize plen && hasPut rt.2 then .refusedAtPut (cutAtPut rt.2) else .done rt.1 rt.2

/-! ## `RecordStore::put` (the libp2p-facing put) -/

inductive Held | none | chunk | same | diff | pad
deriving DecidableEq, Repr

inductive PutRes | ok | tooLarge
deriving DecidableEq, Repr

/-- result and whether an `UnverifiedRecord` event is emitted; the store itself is not an output:
the function never touches it (`storePutNeverStores`) -/
def storePut (maxBytes len : Nat) (hdr : Option Kind) (held : Held) : PutRes × Bool :=
  if (if storePutRefusesAtLimit then maxBytes ≤ len else maxBytes < len) then (.tooLarge, false)
  else match hdr with
    | none => (.ok, !storePutSilentOnBadHeader)
    | some k =>
      if storePutAlwaysForwards.contains k then (.ok, true)
      else match held with
        | .chunk => (.ok, false)
        | .same => (.ok, false)
        | _ => (.ok, true)

end SafeNet.Validate
