import SafeNet.Model.StoreStart
import SafeNet.Proofs.StoreReach
/-!
Facts about the start-up step (`Model/StoreStart`): with the version file holding the current network id the step has no
effect at all, so neither a completed nor an interrupted start touches the version file or a record file; with any other
content it wipes, and it wipes before the new id is in the file. Node-level invariants: record-file names stay unique and
every stored value stays one handed over by a put (`NSound`), whatever starts — completed or interrupted — a history holds.
-/
namespace SafeNet.Store

theorem onlyOnMismatch : Gen.Startup.versionWrittenOnlyOnMismatch = true := rfl
theorem wipeFirst : Gen.Startup.wipeBeforeVersionWrite = true := rfl

theorem idText_ne_nil (n : Nat) : idText n ≠ [] := by
  simp [idText, Nat.toDigits_ne_nil]

/-- the step as the current source has it: nothing on a match; wipe, truncate, write on a mismatch -/
theorem startupEffects_eq (vf : Option Text) (cur : Text) :
    startupEffects vf cur =
      (match vf with | none => [.createEmpty] | some _ => []) ++
        (if (cur != vf.getD []) = true then [.wipe, .truncate, .write cur] else []) := by
  simp only [startupEffects, startupEffectsWith, onlyOnMismatch, wipeFirst, ↓reduceIte]
  split <;> (simp; split <;> rfl)

/-- **Same network id: the step does nothing.** -/
theorem startupEffects_same (cur : Text) : startupEffects (some cur) cur = [] := by
  rw [startupEffects_eq]; simp

theorem completeStart_same (d : Dir) (cur : Text) (h : d.vfile = some cur) : completeStart d cur = d := by
  simp [completeStart, h, startupEffects_same]

theorem interruptedStart_same (d : Dir) (cur : Text) (i : Intr) (h : d.vfile = some cur) :
    interruptedStart d cur i = d := by
  simp [interruptedStart, h, startupEffects_same]

/-- the effects on a mismatch, by the state of the version file -/
theorem startupEffects_mismatch_some (p cur : Text) (h : (cur != p) = true) :
    startupEffects (some p) cur = [.wipe, .truncate, .write cur] := by
  rw [startupEffects_eq]; simp [h]

theorem startupEffects_mismatch_none (cur : Text) (h : (cur != []) = true) :
    startupEffects none cur = [.createEmpty, .wipe, .truncate, .write cur] := by
  rw [startupEffects_eq]; simp [h]

/-- **Another network id (or an absent, empty or torn version file): the completed step wipes and records the id.** -/
theorem completeStart_mismatch (d : Dir) (cur : Text) (h : (cur != d.vfile.getD []) = true) :
    completeStart d cur = ⟨some cur, []⟩ := by
  obtain ⟨vf, disk⟩ := d
  cases vf with
  | none => simp only [completeStart]; rw [startupEffects_mismatch_none cur h]; rfl
  | some p => simp only [completeStart]; rw [startupEffects_mismatch_some p cur h]; rfl

/-- record files are only ever removed by the step -/
theorem foldl_applyEff_disk (effs : List FsEff) (d : Dir) :
    (effs.foldl applyEff d).disk = d.disk ∨ (effs.foldl applyEff d).disk = [] := by
  induction effs generalizing d with
  | nil => exact .inl rfl
  | cons e es ih =>
    rw [List.foldl_cons]
    rcases ih (applyEff d e) with h | h
    · cases e <;> simp [applyEff] at h ⊢ <;> simp [h]
    · exact .inr h

theorem completeStart_disk_sublist (d : Dir) (cur : Text) : (completeStart d cur).disk.Sublist d.disk := by
  rcases foldl_applyEff_disk (startupEffects d.vfile cur) d with h | h
  · simp only [completeStart]; rw [h]; exact List.Sublist.refl _
  · simp only [completeStart]; rw [h]; exact List.nil_sublist _

theorem partialEff_disk_sublist (d : Dir) (i : Intr) (e : FsEff) : (partialEff d i e).disk.Sublist d.disk := by
  cases e with
  | write t => simp only [partialEff]; split <;> exact List.Sublist.refl _
  | wipe => exact List.filter_sublist
  | createEmpty => exact List.Sublist.refl _
  | truncate => exact List.Sublist.refl _

theorem interruptedStart_disk_sublist (d : Dir) (cur : Text) (i : Intr) : (interruptedStart d cur i).disk.Sublist d.disk := by
  simp only [interruptedStart]
  have h1 : ((List.take i.done (startupEffects d.vfile cur)).foldl applyEff d).disk.Sublist d.disk := by
    rcases foldl_applyEff_disk (List.take i.done (startupEffects d.vfile cur)) d with h | h
    · rw [h]; exact List.Sublist.refl _
    · rw [h]; exact List.nil_sublist _
  split
  · exact h1
  · exact (partialEff_disk_sublist _ i _).trans h1

/-- **An interrupted start for another id: the new id is in the version file only after the wipe.** -/
theorem interruptedStart_mismatch (d : Dir) (cur : Text) (i : Intr) (h : (cur != d.vfile.getD []) = true) :
    (interruptedStart d cur i).vfile = some cur → (interruptedStart d cur i).disk = [] := by
  obtain ⟨vf, disk⟩ := d
  obtain ⟨done, bytes, gone⟩ := i
  have hne : cur ≠ vf.getD [] := by simpa using h
  cases vf with
  | none =>
    have hne' : cur ≠ [] := by simpa using hne
    simp only [interruptedStart]
    rw [startupEffects_mismatch_none cur h]
    match done with
    | 0 => simp [partialEff]
    | 1 => simp [partialEff, applyEff]; intro e; exact absurd e hne'
    | 2 => simp [partialEff, applyEff]
    | 3 => simp [partialEff, applyEff]; intros; split <;> rfl
    | n + 4 => simp [applyEff]
  | some p =>
    have hne' : cur ≠ p := by simpa using hne
    simp only [interruptedStart]
    rw [startupEffects_mismatch_some p cur h]
    match done with
    | 0 => simp [partialEff]; intro e; exact absurd e.symm hne'
    | 1 => simp [partialEff, applyEff]
    | 2 => simp [partialEff, applyEff]; intros; split <;> rfl
    | n + 3 => simp [applyEff]

/-- the invariant that makes a change of network id safe against interruptions: the new id is in the version file only
when the record store has been wiped -/
def WipedIfNamed (cur : Text) (d : Dir) : Prop := d.vfile = some cur → d.disk = []

theorem WipedIfNamed.interrupted {cur : Text} {d : Dir} (hc : cur ≠ []) (h : WipedIfNamed cur d) (i : Intr) :
    WipedIfNamed cur (interruptedStart d cur i) := by
  by_cases hv : d.vfile = some cur
  · rw [interruptedStart_same d cur i hv]; exact h
  · apply interruptedStart_mismatch
    cases hd : d.vfile with
    | none => simp [hc]   -- an absent file reads as the empty text
    | some p =>
      have : cur ≠ p := fun e => hv (by rw [hd, e])
      simp [this]

/-- after any interrupted starts for `cur`, a completed start for `cur` leaves the id in the version file and no record
of the previous network -/
theorem completeStart_of_wipedIfNamed {cur : Text} {d : Dir} (hc : cur ≠ []) (h : WipedIfNamed cur d) :
    completeStart d cur = ⟨some cur, []⟩ := by
  by_cases hv : d.vfile = some cur
  · rw [completeStart_same d cur hv]
    obtain ⟨vf, disk⟩ := d
    simp only at hv
    have := h hv
    simp only at this
    rw [hv, this]
  · apply completeStart_mismatch
    cases hd : d.vfile with
    | none => simp [hc]
    | some p =>
      have : cur ≠ p := fun e => hv (by rw [hd, e])
      simp [this]

/-! ## node level -/

theorem nstep_start_same_interrupted (cfg : Cfg) (dist : Nat → Nat) (n : Node) (cur : Text) (i : Intr)
    (h : n.vfile = some cur) :
    (nstep cfg dist n (.start cur (some i))).1 =
      { up := false, vfile := n.vfile, st := downSt n.st.disk n.st.hist n.st.nextId } := by
  simp only [nstep]
  rw [interruptedStart_same ⟨n.vfile, n.st.disk⟩ cur i h]

theorem nstep_start_same_complete (cfg : Cfg) (dist : Nat → Nat) (n : Node) (cur : Text) (h : n.vfile = some cur) :
    (nstep cfg dist n (.start cur none)).1 =
      { up := true, vfile := n.vfile, st := restart cfg dist n.st.disk n.st.hist n.st.nextId } := by
  simp only [nstep]
  rw [completeStart_same ⟨n.vfile, n.st.disk⟩ cur h]

/-- interrupted starts for network id text `cur`, one per interruption point -/
def interrupts (cur : Text) (is : List Intr) : List NOp := is.map (fun i => NOp.start cur (some i))

/-- **Any number of interrupted starts with the same id, then a completed one, equal a single stop-and-restart.** -/
theorem interrupted_starts_then_start (cfg : Cfg) (dist : Nat → Nat) (cur : Text) (is : List Intr) (n : Node)
    (h : n.vfile = some cur) :
    nrunFrom cfg dist n (interrupts cur is ++ [.start cur none]) =
      { up := true, vfile := some cur, st := restart cfg dist n.st.disk n.st.hist n.st.nextId } := by
  induction is generalizing n with
  | nil =>
    simp only [interrupts, List.map_nil, List.nil_append, nrunFrom]
    rw [nstep_start_same_complete cfg dist n cur h, h]
  | cons i is ih =>
    simp only [interrupts, List.map_cons, List.cons_append, nrunFrom]
    rw [nstep_start_same_interrupted cfg dist n cur i h]
    have := ih { up := false, vfile := n.vfile, st := downSt n.st.disk n.st.hist n.st.nextId } h
    simpa [interrupts, downSt] using this

/-- a stop with no torn write followed by a restart, as `Op.crash []` has it -/
theorem step_crash_nil (cfg : Cfg) (dist : Nat → Nat) (s : St) :
    (step cfg dist s (.crash [])).1 = restart cfg dist s.disk s.hist s.nextId := by
  simp [step, crashDisk]

/-! ## invariants of node histories -/

def NDiskOK (n : Node) : Prop := (keys n.st.disk).Nodup

theorem nodup_keys_sublist {l l' : List (Nat × File)} (h : l'.Sublist l) (hn : (keys l).Nodup) : (keys l').Nodup :=
  (h.map _).nodup hn

theorem restart_disk_sublist (cfg : Cfg) (dist : Nat → Nat) (disk : List (Nat × File)) (hist : Option Nat) (m : Nat) :
    (restart cfg dist disk hist m).disk.Sublist disk := List.filter_sublist

theorem NDiskOK.step (cfg : Cfg) (dist : Nat → Nat) {n : Node} (h : NDiskOK n) (op : NOp) :
    NDiskOK (nstep cfg dist n op).1 := by
  cases op with
  | store o =>
    simp only [nstep]
    split
    · exact DiskOK.step cfg dist h o
    · exact h
  | start cur intr =>
    cases intr with
    | none =>
      exact nodup_keys_sublist ((restart_disk_sublist cfg dist _ _ _).trans (completeStart_disk_sublist ⟨n.vfile, n.st.disk⟩ cur)) h
    | some i =>
      exact nodup_keys_sublist (interruptedStart_disk_sublist ⟨n.vfile, n.st.disk⟩ cur i) h

theorem NDiskOK.runFrom (cfg : Cfg) (dist : Nat → Nat) (ops : List NOp) {n : Node} (h : NDiskOK n) :
    NDiskOK (nrunFrom cfg dist n ops) := by
  induction ops generalizing n with
  | nil => exact h
  | cons op ops ih => exact ih (h.step cfg dist op)

theorem NDiskOK.run (cfg : Cfg) (dist : Nat → Nat) (ops : List NOp) : NDiskOK (nrun cfg dist ops) :=
  NDiskOK.runFrom cfg dist ops (by simp [NDiskOK, ninit, init, restart, keys])

variable {P : Nat → Nat → Prop}

theorem Sound.nstep {cfg : Cfg} {dist : Nat → Nat} {n : Node} (h : Sound P n.st) (op : NOp)
    (hp : ∀ k v rt, op = .store (.put k v rt) → P k v) : Sound P (nstep cfg dist n op).1.st := by
  cases op with
  | store o =>
    simp only [SafeNet.Store.nstep]
    split
    · exact h.step o (fun k v rt e => hp k v rt (by rw [e]))
    · exact h
  | start cur intr =>
    cases intr with
    | none =>
      apply Sound.restart
      intro e he
      exact h.disk e ((completeStart_disk_sublist ⟨n.vfile, n.st.disk⟩ cur).subset he)
    | some i =>
      refine ⟨?_, ?_, ?_⟩
      · intro e he; simp [SafeNet.Store.nstep, downSt] at he
      · intro e he
        exact h.disk e ((interruptedStart_disk_sublist ⟨n.vfile, n.st.disk⟩ cur i).subset he)
      · intro j k v rt hm; simp [SafeNet.Store.nstep, downSt] at hm

theorem Sound.nrunFrom {cfg : Cfg} {dist : Nat → Nat} (ops : List NOp) {n : Node} (h : Sound P n.st)
    (hp : ∀ op ∈ ops, ∀ k v rt, op = .store (.put k v rt) → P k v) : Sound P (nrunFrom cfg dist n ops).st := by
  induction ops generalizing n with
  | nil => exact h
  | cons op ops ih =>
    exact ih (h.nstep op (hp op (List.mem_cons_self ..))) (fun o ho => hp o (List.mem_cons_of_mem _ ho))

end SafeNet.Store
