import SafeNet.Model.FullGlue
import SafeNet.Proofs.Fetcher
import SafeNet.Proofs.StoreViews
/-!
Helper lemmas for the composed store + fetcher machine (`SafeNet.FullGlue`, property C08):
* `FarHeld`: the store's `farthest_record` is a held key — preserved by every store operation, no injectivity needed;
* `maxHeld`: the distance of the farthest held record;
* the fetcher's `farthest_acceptable_distance` is never cleared, never grows, and changes only in `set_farthest_on_full`;
* `step_put_eq`: the `PutLocalRecord` handler, as the generated step list makes it, in closed form.
-/
namespace SafeNet.FullGlue
open SafeNet

variable (cfg : Store.Cfg) (dist : Nat → Nat)

/-! ## the farthest held record -/

theorem le_maxHeld {idx : List (Nat × Store.RType)} {k : Nat} (h : k ∈ Store.keys idx) :
    dist k ≤ maxHeld dist idx := by
  induction idx with
  | nil => simp [Store.keys] at h
  | cons x xs ih =>
    obtain ⟨k', rt⟩ := x
    simp only [Store.keys, List.map_cons, List.mem_cons] at h
    simp only [maxHeld]
    rcases h with rfl | h
    · exact Nat.le_max_left _ _
    · exact Nat.le_trans (ih h) (Nat.le_max_right _ _)

theorem maxHeld_le {idx : List (Nat × Store.RType)} {m : Nat} (h : ∀ k ∈ Store.keys idx, dist k ≤ m) :
    maxHeld dist idx ≤ m := by
  induction idx with
  | nil => exact Nat.zero_le _
  | cons x xs ih =>
    obtain ⟨k', rt⟩ := x
    simp only [maxHeld]
    apply Nat.max_le.2
    refine ⟨h k' (by simp [Store.keys]), ih ?_⟩
    intro k hk
    exact h k (by simp only [Store.keys, List.map_cons, List.mem_cons]; exact Or.inr hk)

theorem maxHeld_mono {a b : List (Nat × Store.RType)} (h : ∀ k ∈ Store.keys a, k ∈ Store.keys b) :
    maxHeld dist a ≤ maxHeld dist b :=
  maxHeld_le dist fun k hk => le_maxHeld dist (h k hk)

/-- `farthest_record` names a held key -/
def FarHeld (s : Store.St) : Prop := ∀ f fd, s.farthest = some (f, fd) → f ∈ Store.keys s.index

theorem FarHeld.removeKey {s : Store.St} (h : FarHeld s) (k : Nat) : FarHeld (Store.removeKey dist s k) := by
  intro f fd hf
  have hidx : (Store.removeKey dist s k).index = Store.erase k s.index := rfl
  have hfar : (Store.removeKey dist s k).farthest =
      (match s.farthest with
       | some (f, fd) => if f = k then Store.calcFarthest dist (Store.erase k s.index) else some (f, fd)
       | none => none) := rfl
  rw [hidx]
  rw [hfar] at hf
  cases h0 : s.farthest with
  | none => rw [h0] at hf; cases hf
  | some p =>
    obtain ⟨f0, fd0⟩ := p
    rw [h0] at hf
    simp only at hf
    split at hf
    · have := Store.calcFarthest_ok dist (Store.erase k s.index)
      rw [hf] at this
      exact this.1
    · rename_i hne
      cases hf
      rw [Store.keys_erase, List.mem_filter]
      exact ⟨h f fd h0, by simpa using hne⟩

theorem FarHeld.foldl_removeKey (ks : List Nat) {s : Store.St} (h : FarHeld s) :
    FarHeld (ks.foldl (Store.removeKey dist) s) := by
  induction ks generalizing s with
  | nil => exact h
  | cons k ks ih => exact ih (h.removeKey dist k)

theorem FarHeld.markAsStored {s : Store.St} (h : FarHeld s) (k : Nat) (rt : Store.RType) :
    FarHeld (Store.markAsStored dist s k rt) := by
  intro f fd hf
  have hidx : (Store.markAsStored dist s k rt).index = Store.insert k rt s.index := rfl
  have hfar : (Store.markAsStored dist s k rt).farthest =
      (match s.farthest with
       | some (f, fd) => if Store.farther fd (dist k) then some (k, dist k) else some (f, fd)
       | none => some (k, dist k)) := rfl
  rw [hidx, Store.keys_insert]
  rw [hfar] at hf
  cases h0 : s.farthest with
  | none => rw [h0] at hf; cases hf; exact List.mem_cons_self
  | some p =>
    obtain ⟨f0, fd0⟩ := p
    rw [h0] at hf
    simp only at hf
    split at hf
    · cases hf; exact List.mem_cons_self
    · cases hf
      by_cases hk : f = k
      · subst hk; exact List.mem_cons_self
      · exact List.mem_cons_of_mem _ (List.mem_filter.2 ⟨h f fd h0, by simpa using hk⟩)

/-- `FarHeld` only looks at the index and the farthest record -/
theorem FarHeld.congr {s s' : Store.St} (h : FarHeld s) (hi : s'.index = s.index) (hf : s'.farthest = s.farthest) :
    FarHeld s' := by
  intro f fd hff
  rw [hi]; rw [hf] at hff; exact h f fd hff

theorem FarHeld.prune {s s2 : Store.St} (h : FarHeld s) {k : Nat} (hp : Store.prune cfg dist s k = some s2) :
    FarHeld s2 := by
  unfold Store.prune at hp
  split at hp
  · cases hp; exact h
  · split at hp
    · cases hp; exact h
    · split at hp
      · cases hp
      · cases hp; exact h.removeKey dist _

/-- a refusal leaves the index and the farthest record alone, and happens only with a farthest record at capacity -/
theorem putVerified_max {s : Store.St} {k v : Nat} {rt : Store.RType}
    (hm : (Store.putVerified cfg dist s k v rt).2 = .maxRecords) :
    (Store.putVerified cfg dist s k v rt).1.index = s.index ∧
    (Store.putVerified cfg dist s k v rt).1.farthest = s.farthest ∧
    (Store.putVerified cfg dist s k v rt).1.range = s.range ∧
    cfg.maxRecords ≤ s.index.length ∧
    ∃ f fd, s.farthest = some (f, fd) ∧ fd < dist k := by
  unfold Store.putVerified at hm ⊢
  simp only [] at hm ⊢
  split at hm
  · cases hm
  · rename_i hne
    rw [if_neg hne]
    split at hm
    · rename_i hp
      refine ⟨by first | rfl | trivial | simp only [hp], by first | rfl | trivial | simp only [hp],
        by first | rfl | trivial | simp only [hp], ?_⟩
      unfold Store.prune at hp
      split at hp
      · cases hp
      · rename_i hlen
        split at hp
        · cases hp
        · rename_i f fd hfar
          split at hp
          · rename_i hr
            exact ⟨Nat.le_of_not_lt hlen, f, fd, hfar, Store.refuses_iff.1 hr⟩
          · cases hp
    · cases hm

/-- an accepted or deduplicated put keeps `FarHeld` -/
theorem FarHeld.putVerified {s : Store.St} (h : FarHeld s) (k v : Nat) (rt : Store.RType) :
    FarHeld (Store.putVerified cfg dist s k v rt).1 := by
  unfold Store.putVerified
  simp only []
  split
  · exact h.congr rfl rfl
  · split
    · exact h.congr rfl rfl
    · rename_i s2 hp
      have h1 : FarHeld { s with cache := Store.pushBack cfg.cacheSize (Store.erase k s.cache) s.clock k v,
                                 clock := s.clock + 1 } := h.congr rfl rfl
      exact (h1.prune cfg dist hp).congr rfl rfl

theorem runTask_fields (s : Store.St) (id : Nat) :
    (Store.runTask s id).1.index = s.index ∧ (Store.runTask s id).1.farthest = s.farthest ∧
    (Store.runTask s id).1.range = s.range := by
  unfold Store.runTask
  split
  · exact ⟨rfl, rfl, rfl⟩
  · split
    · split <;> exact ⟨rfl, rfl, rfl⟩
    · exact ⟨rfl, rfl, rfl⟩

theorem FarHeld.deliver {s : Store.St} (h : FarHeld s) (id : Nat) : FarHeld (Store.deliver dist s id).1 := by
  unfold Store.deliver
  split
  · exact h
  · split
    · exact FarHeld.markAsStored dist (h.congr rfl rfl) _ _
    · exact h

theorem FarHeld.cleanup {s : Store.St} (h : FarHeld s) : FarHeld (Store.cleanup cfg dist s) := by
  unfold Store.cleanup
  split
  · exact h
  · split
    · exact h
    · exact h.foldl_removeKey dist _

theorem FarHeld.init : FarHeld (Store.init cfg dist) := by
  intro f fd hf
  have := Store.calcFarthest_ok dist (Store.scanIndex cfg [])
  have hf' : Store.calcFarthest dist (Store.scanIndex cfg []) = some (f, fd) := hf
  rw [hf'] at this
  exact this.1

/-- delivering a notification never takes a key out of the index -/
theorem deliver_keeps_keys (s : Store.St) (id : Nat) :
    ∀ k ∈ Store.keys s.index, k ∈ Store.keys (Store.deliver dist s id).1.index := by
  intro k hk
  unfold Store.deliver
  split
  · exact hk
  · split
    · show k ∈ Store.keys (Store.insert _ _ s.index)
      rw [Store.keys_insert]
      rename_i n _ _
      by_cases hkn : k = n.k
      · subst hkn; exact List.mem_cons_self
      · exact List.mem_cons_of_mem _ (List.mem_filter.2 ⟨hk, by simpa using hkn⟩)
    · exact hk

/-! ## the fetcher's farthest acceptable distance -/

/-- every fetcher operation except `set_farthest_on_full(Some(_))` leaves the bound alone -/
theorem fetcher_farthest_eq (s : Fetcher.State) (op : Fetcher.Op)
    (hop : match op with | .full (some _) => False | _ => True) :
    (Fetcher.step dist s op).1.farthest = s.farthest := by
  cases op with
  | add h inc loc c =>
    obtain ⟨X, ill, hx⟩ := Fetcher.addKeys_shape dist s h inc loc c
    show (Fetcher.addKeys dist s h inc loc c).1.farthest = _
    rw [hx]
    exact (Fetcher.nextKeys_fields dist _ X).2.1.trans (Fetcher.addCore_fields dist s h inc loc).2.1
  | put k t c => exact (Fetcher.nextKeys_fields dist _ c).2.1
  | early k t c => exact (Fetcher.nextKeys_fields dist _ c).2.1
  | next c => exact (Fetcher.nextKeys_fields dist _ c).2.1
  | setRange r => rfl
  | age d => rfl
  | full k =>
    cases k with
    | none => rfl
    | some k => cases hop

/-- `set_farthest_on_full(Some(key))`: afterwards a bound is set, it is at most the key's distance and at most the old one -/
theorem setFull_farthest (s : Fetcher.State) (d : Nat) :
    ∃ f, (Fetcher.setFull dist s d).farthest = some f ∧ f ≤ d ∧ ∀ b, s.farthest = some b → f ≤ b := by
  unfold Fetcher.setFull
  split
  · rename_i old hold
    split
    · rename_i hu
      exact ⟨old, hold, (Fetcher.unchanged_iff _ _).1 hu, fun b hb => by rw [hold] at hb; cases hb; exact Nat.le_refl _⟩
    · rename_i hu
      have : ¬ old ≤ d := fun h => hu ((Fetcher.unchanged_iff _ _).2 h)
      exact ⟨d, rfl, Nat.le_refl _, fun b hb => by rw [hold] at hb; cases hb; omega⟩
  · rename_i hnone
    exact ⟨d, rfl, Nat.le_refl _, fun b hb => by rw [hnone] at hb; cases hb⟩

/-- the bound never grows and is never cleared, whatever the fetcher does -/
theorem fetcher_farthest_mono (s : Fetcher.State) (op : Fetcher.Op) (b : Nat) (hb : s.farthest = some b) :
    ∃ b', (Fetcher.step dist s op).1.farthest = some b' ∧ b' ≤ b := by
  by_cases hop : (match op with | .full (some _) => False | _ => True)
  · exact ⟨b, (fetcher_farthest_eq dist s op hop).trans hb, Nat.le_refl _⟩
  · cases op with
    | full k =>
      cases k with
      | none => exact absurd trivial hop
      | some k =>
        obtain ⟨f, hf, _, hle⟩ := setFull_farthest dist s (dist k)
        exact ⟨f, hf, hle b hb⟩
    | add h inc loc c => exact absurd trivial hop
    | put k t c => exact absurd trivial hop
    | early k t c => exact absurd trivial hop
    | next c => exact absurd trivial hop
    | setRange r => exact absurd trivial hop
    | age d => exact absurd trivial hop

/-- what a call returns is in flight afterwards -/
theorem fetcher_ret_inflight (s : Fetcher.State) (op : Fetcher.Op) :
    ∀ e ∈ (Fetcher.step dist s op).2.ret, e ∈ (Fetcher.step dist s op).1.ogf := by
  intro e he
  cases op with
  | add h inc loc c =>
    obtain ⟨X, ill, hx⟩ := Fetcher.addKeys_shape dist s h inc loc c
    change e ∈ (Fetcher.addKeys dist s h inc loc c).2.ret at he
    show e ∈ (Fetcher.addKeys dist s h inc loc c).1.ogf
    rw [hx] at he ⊢
    rw [Fetcher.nextKeys_ogf_eq]
    rcases List.mem_append.1 he with he | he
    · apply List.mem_append_left
      have hog := (Fetcher.addCore_fields dist s h inc loc).2.2.2
      have hmem : e ∈ (Fetcher.addCore dist s h inc loc).1.ogf := by rw [hog]; exact List.mem_append_right _ he
      -- the fast-path entry has a fresh deadline: it survives the pruning of the final `next_keys_to_fetch`
      obtain ⟨p, _, _, rfl, _⟩ := Fetcher.addCore_fast dist he
      rw [Fetcher.mem_pOgf]
      refine ⟨hmem, ?_⟩
      have := Fetcher.fetchTimeout_pos
      rw [(Fetcher.addCore_fields dist s h inc loc).2.2.1]
      simp only [Fetcher.fastEntry]; omega
    · exact List.mem_append_right _ he
  | put k t c =>
    show e ∈ (Fetcher.nextKeys dist _ c).1.ogf
    rw [Fetcher.nextKeys_ogf_eq]; exact List.mem_append_right _ he
  | early k t c =>
    show e ∈ (Fetcher.nextKeys dist _ c).1.ogf
    rw [Fetcher.nextKeys_ogf_eq]; exact List.mem_append_right _ he
  | next c =>
    show e ∈ (Fetcher.nextKeys dist s c).1.ogf
    rw [Fetcher.nextKeys_ogf_eq]; exact List.mem_append_right _ he
  | setRange r => cases he
  | age d => cases he
  | full k => cases k <;> cases he

theorem mem_pending {f : Fetcher.State} {e : Fetcher.Entry} : e ∈ pending f ↔ e ∈ f.tbf ∨ e ∈ f.ogf :=
  List.mem_append

/-! ## the `PutLocalRecord` handler in closed form -/

/-- the handler as cmd.rs has it today: header, `put_verified`, on a `MaxRecords` refusal
`set_farthest_on_full(get_farthest())`, then `notify_about_new_put`, the emission, the range copy, the error return -/
def putRef (s : St) (k v : Nat) (c : List Fetcher.Entry) : St × HOut :=
  match Store.putLocalRecordType v with
  | none => (s, { res := .badHeader })
  | some rt =>
    let r := Store.putVerified cfg dist s.store k v rt
    let f1 := if r.2 = .maxRecords then (Fetcher.step dist s.fetcher (.full (r.1.farthest.map (·.1)))).1
              else s.fetcher
    let n := Fetcher.step dist f1 (.put k (tyCode rt) c)
    let f3 := match r.1.range with
      | some rg => (Fetcher.step dist n.1 (.setRange rg)).1
      | none => n.1
    ({ store := r.1, fetcher := f3 },
     { res := if r.2 = .maxRecords then .maxRecords else .ok,
       emitted := n.2.ret, failed := n.2.failed, illegal := n.2.illegal })

theorem step_put_eq (s : St) (k v : Nat) (c : List Fetcher.Entry) :
    step cfg dist s (.put k v c) = putRef cfg dist s k v c := by
  unfold step runHandler putRef
  simp only [Gen.FullGlue.putLocalSteps, List.foldl]
  cases hrt : Store.putLocalRecordType v with
  | none => simp [stepCode, hrt]
  | some rt =>
    cases hres : (Store.putVerified cfg dist s.store k v rt).2 with
    | ok =>
      cases hrg : (Store.putVerified cfg dist s.store k v rt).1.range <;>
        simp [stepCode, hrt, hres, hrg]
    | dedup =>
      cases hrg : (Store.putVerified cfg dist s.store k v rt).1.range <;>
        simp [stepCode, hrt, hres, hrg]
    | maxRecords =>
      cases hrg : (Store.putVerified cfg dist s.store k v rt).1.range <;>
        simp [stepCode, hrt, hres, hrg]

/-! ## invariant of the composed machine -/

structure Good (s : St) : Prop where
  inv : Fetcher.Inv dist s.fetcher
  far : FarHeld s.store

theorem good_init : Good dist (init cfg dist) :=
  ⟨Fetcher.init_inv dist, FarHeld.init cfg dist⟩

theorem putRef_good {s : St} (h : Good dist s) (k v : Nat) (c : List Fetcher.Entry) :
    Good dist (putRef cfg dist s k v c).1 := by
  unfold putRef
  split
  · exact h
  · refine ⟨?_, h.far.putVerified cfg dist k _ _⟩
    simp only []
    have h1 : ∀ (f1 : Fetcher.State) (t : Nat), Fetcher.Inv dist f1 → ∀ rg : Option Nat,
        Fetcher.Inv dist (match rg with
          | some rg => (Fetcher.step dist (Fetcher.step dist f1 (.put k t c)).1 (.setRange rg)).1
          | none => (Fetcher.step dist f1 (.put k t c)).1) := by
      intro f1 t hf1 rg
      cases rg with
      | none => exact Fetcher.step_inv dist hf1 _
      | some rg => exact Fetcher.step_inv dist (Fetcher.step_inv dist hf1 _) _
    apply h1
    split
    · exact Fetcher.step_inv dist h.inv _
    · exact h.inv

theorem step_store_fetcher (s : St) (op : Op) :
    match op with
    | .put .. => True
    | .advert h inc c =>
      (step cfg dist s op).1.store = s.store ∧
      (step cfg dist s op).1.fetcher = (Fetcher.step dist s.fetcher (.add h inc (locals s.store) c)).1
    | .early k t c =>
      (step cfg dist s op).1.store = s.store ∧
      (step cfg dist s op).1.fetcher = (Fetcher.step dist s.fetcher (.early k t c)).1
    | .run id => (step cfg dist s op).1.store = (Store.runTask s.store id).1 ∧ (step cfg dist s op).1.fetcher = s.fetcher
    | .deliver id =>
      (step cfg dist s op).1.store = (Store.deliver dist s.store id).1 ∧ (step cfg dist s op).1.fetcher = s.fetcher
    | .removeFailed k =>
      (step cfg dist s op).1.store = Store.removeKey dist s.store k ∧ (step cfg dist s op).1.fetcher = s.fetcher
    | .setRange r =>
      (step cfg dist s op).1.store = { s.store with range := some r } ∧
      (step cfg dist s op).1.fetcher = (Fetcher.step dist s.fetcher (.setRange r)).1
    | .cleanup =>
      (step cfg dist s op).1.store = Store.cleanup cfg dist s.store ∧ (step cfg dist s op).1.fetcher = s.fetcher := by
  cases op with
  | put k v c => trivial
  | advert h inc c => exact ⟨rfl, rfl⟩
  | early k t c => exact ⟨rfl, rfl⟩
  | run id => exact ⟨rfl, rfl⟩
  | deliver id =>
    refine ⟨?_, ?_⟩ <;>
      simp only [step, runHandler, Gen.FullGlue.addStoredSteps, List.foldl, stepCode] <;> simp
  | removeFailed k =>
    refine ⟨?_, ?_⟩ <;>
      simp only [step, runHandler, Gen.FullGlue.removeFailedSteps, List.foldl, stepCode] <;> simp
  | setRange r => exact ⟨rfl, rfl⟩
  | cleanup =>
    refine ⟨?_, ?_⟩ <;>
      simp only [step, runHandler, Gen.FullGlue.cleanupSteps, List.foldl, stepCode] <;> simp

theorem step_good {s : St} (h : Good dist s) (op : Op) : Good dist (step cfg dist s op).1 := by
  have hsf := step_store_fetcher cfg dist s op
  cases op with
  | put k v c => rw [step_put_eq]; exact putRef_good cfg dist h k v c
  | advert hh inc c =>
    obtain ⟨h1, h2⟩ := hsf
    exact ⟨by rw [h2]; exact Fetcher.step_inv dist h.inv _, by rw [h1]; exact h.far⟩
  | early k t c =>
    obtain ⟨h1, h2⟩ := hsf
    exact ⟨by rw [h2]; exact Fetcher.step_inv dist h.inv _, by rw [h1]; exact h.far⟩
  | run id =>
    obtain ⟨h1, h2⟩ := hsf
    obtain ⟨hi, hf, _⟩ := runTask_fields s.store id
    exact ⟨by rw [h2]; exact h.inv, by rw [h1]; exact h.far.congr hi hf⟩
  | deliver id =>
    obtain ⟨h1, h2⟩ := hsf
    exact ⟨by rw [h2]; exact h.inv, by rw [h1]; exact h.far.deliver dist id⟩
  | removeFailed k =>
    obtain ⟨h1, h2⟩ := hsf
    exact ⟨by rw [h2]; exact h.inv, by rw [h1]; exact h.far.removeKey dist k⟩
  | setRange r =>
    obtain ⟨h1, h2⟩ := hsf
    exact ⟨by rw [h2]; exact Fetcher.step_inv dist h.inv _, by rw [h1]; exact h.far.congr rfl rfl⟩
  | cleanup =>
    obtain ⟨h1, h2⟩ := hsf
    exact ⟨by rw [h2]; exact h.inv, by rw [h1]; exact h.far.cleanup cfg dist⟩

theorem runFrom_good {s : St} (h : Good dist s) (ops : List Op) : Good dist (runFrom cfg dist s ops) := by
  induction ops generalizing s with
  | nil => exact h
  | cons op ops ih => exact ih (step_good cfg dist h op)

theorem run_good (ops : List Op) : Good dist (run cfg dist ops) :=
  runFrom_good cfg dist (good_init cfg dist) ops

theorem runFrom_append (s : St) (a b : List Op) :
    runFrom cfg dist s (a ++ b) = runFrom cfg dist (runFrom cfg dist s a) b := by
  simp [runFrom, List.foldl_append]

/-! ## the bound along a history -/

/-- one step of the composed machine never clears or widens the fetcher's bound -/
theorem step_farthest_mono (s : St) (op : Op) (b : Nat) (hb : s.fetcher.farthest = some b) :
    ∃ b', (step cfg dist s op).1.fetcher.farthest = some b' ∧ b' ≤ b := by
  have hsf := step_store_fetcher cfg dist s op
  cases op with
  | put k v c =>
    rw [step_put_eq]
    unfold putRef
    split
    · exact ⟨b, hb, Nat.le_refl _⟩
    · simp only []
      rename_i rt _
      -- three fetcher operations in a row, each monotone
      have h1 : ∃ b1, (if (Store.putVerified cfg dist s.store k v rt).2 = .maxRecords
          then (Fetcher.step dist s.fetcher (.full ((Store.putVerified cfg dist s.store k v rt).1.farthest.map (·.1)))).1
          else s.fetcher).farthest = some b1 ∧ b1 ≤ b := by
        split
        · exact fetcher_farthest_mono dist _ _ b hb
        · exact ⟨b, hb, Nat.le_refl _⟩
      obtain ⟨b1, hb1, hle1⟩ := h1
      obtain ⟨b2, hb2, hle2⟩ := fetcher_farthest_mono dist _ (.put k (tyCode rt) c) b1 hb1
      cases hrg : (Store.putVerified cfg dist s.store k v rt).1.range with
      | none => exact ⟨b2, hb2, Nat.le_trans hle2 hle1⟩
      | some rg =>
        obtain ⟨b3, hb3, hle3⟩ := fetcher_farthest_mono dist _ (.setRange rg) b2 hb2
        exact ⟨b3, hb3, Nat.le_trans hle3 (Nat.le_trans hle2 hle1)⟩
  | advert hh inc c => rw [hsf.2]; exact fetcher_farthest_mono dist _ _ b hb
  | early k t c => rw [hsf.2]; exact fetcher_farthest_mono dist _ _ b hb
  | run id => rw [hsf.2]; exact ⟨b, hb, Nat.le_refl _⟩
  | deliver id => rw [hsf.2]; exact ⟨b, hb, Nat.le_refl _⟩
  | removeFailed k => rw [hsf.2]; exact ⟨b, hb, Nat.le_refl _⟩
  | setRange r => rw [hsf.2]; exact fetcher_farthest_mono dist _ _ b hb
  | cleanup => rw [hsf.2]; exact ⟨b, hb, Nat.le_refl _⟩

/-- the bound changes only in a `PutLocalRecord` that `put_verified` refuses with `MaxRecords` -/
theorem step_farthest_changes (s : St) (op : Op)
    (hne : (step cfg dist s op).1.fetcher.farthest ≠ s.fetcher.farthest) :
    ∃ k v c, op = .put k v c ∧ (step cfg dist s op).2.res = .maxRecords := by
  have hsf := step_store_fetcher cfg dist s op
  cases op with
  | put k v c =>
    refine ⟨k, v, c, rfl, ?_⟩
    rw [step_put_eq] at hne ⊢
    unfold putRef at hne ⊢
    split
    · rename_i hrt
      simp only [hrt] at hne
      exact absurd rfl hne
    · rename_i rt hrt
      simp only [hrt] at hne
      simp only []
      by_cases hm : (Store.putVerified cfg dist s.store k v rt).2 = .maxRecords
      · rw [if_pos hm]
      · exfalso
        apply hne
        rw [if_neg hm]
        cases hrg : (Store.putVerified cfg dist s.store k v rt).1.range with
        | none => exact fetcher_farthest_eq dist _ (.put k (tyCode rt) c) trivial
        | some rg =>
          exact (fetcher_farthest_eq dist _ (.setRange rg) trivial).trans
            (fetcher_farthest_eq dist _ (.put k (tyCode rt) c) trivial)
  | advert hh inc c => exact absurd (by rw [hsf.2]; exact fetcher_farthest_eq dist _ _ trivial) hne
  | early k t c => exact absurd (by rw [hsf.2]; exact fetcher_farthest_eq dist _ _ trivial) hne
  | run id => exact absurd (by rw [hsf.2]) hne
  | deliver id => exact absurd (by rw [hsf.2]) hne
  | removeFailed k => exact absurd (by rw [hsf.2]) hne
  | setRange r => exact absurd (by rw [hsf.2]; exact fetcher_farthest_eq dist _ _ trivial) hne
  | cleanup => exact absurd (by rw [hsf.2]) hne

/-- **The refusal step.** From a good state, a `PutLocalRecord` refused with `MaxRecords` leaves the index alone, finds
the store at capacity with a farthest record `f` that is held, and afterwards the fetcher's bound is set and is at
most `dist f`. -/
theorem refusal_sets_bound {s : St} (h : Good dist s) (k v : Nat) (c : List Fetcher.Entry)
    (hm : (step cfg dist s (.put k v c)).2.res = .maxRecords) :
    (step cfg dist s (.put k v c)).1.store.index = s.store.index ∧
    cfg.maxRecords ≤ s.store.index.length ∧
    ∃ f fd b, s.store.farthest = some (f, fd) ∧ (step cfg dist s (.put k v c)).1.store.farthest = some (f, fd) ∧
      f ∈ Store.keys s.store.index ∧ fd < dist k ∧
      (step cfg dist s (.put k v c)).1.fetcher.farthest = some b ∧ b ≤ dist f := by
  rw [step_put_eq] at hm ⊢
  unfold putRef at hm ⊢
  split at hm
  · cases hm
  · rename_i rt hrt
    simp only []
    simp only [] at hm
    have hmax : (Store.putVerified cfg dist s.store k v rt).2 = .maxRecords := by
      by_cases hx : (Store.putVerified cfg dist s.store k v rt).2 = .maxRecords
      · exact hx
      · rw [if_neg hx] at hm; cases hm
    obtain ⟨hidx, hfar, _, hcap, f, fd, hf, hlt⟩ := putVerified_max cfg dist hmax
    refine ⟨hidx, hcap, f, fd, ?_⟩
    rw [if_pos hmax, hfar, hf]
    obtain ⟨b1, hb1, hle1, _⟩ := setFull_farthest dist s.fetcher (dist f)
    have hb1' : (Fetcher.step dist s.fetcher (.full (Option.map (·.1) (some (f, fd))))).1.farthest = some b1 := hb1
    obtain ⟨b2, hb2, hle2⟩ := fetcher_farthest_mono dist _ (.put k (tyCode rt) c) b1 hb1'
    cases hrg : (Store.putVerified cfg dist s.store k v rt).1.range with
    | none => exact ⟨b2, rfl, rfl, h.far f fd hf, hlt, hb2, Nat.le_trans hle2 hle1⟩
    | some rg =>
      obtain ⟨b3, hb3, hle3⟩ := fetcher_farthest_mono dist _ (.setRange rg) b2 hb2
      exact ⟨b3, rfl, rfl, h.far f fd hf, hlt, hb3, Nat.le_trans hle3 (Nat.le_trans hle2 hle1)⟩

/-- what a step emits is in flight afterwards (nothing is sent up and then forgotten) -/
theorem emitted_inflight (s : St) (op : Op) :
    ∀ e ∈ (step cfg dist s op).2.emitted, e ∈ (step cfg dist s op).1.fetcher.ogf := by
  intro e he
  cases op with
  | put k v c =>
    rw [step_put_eq] at he ⊢
    unfold putRef at he ⊢
    split at he
    · cases he
    · rename_i rt hrt
      simp only []
      simp only [] at he
      have := fetcher_ret_inflight dist _ (.put k (tyCode rt) c) e he
      cases hrg : (Store.putVerified cfg dist s.store k v rt).1.range with
      | none => exact this
      | some rg => exact this
  | advert hh inc c => exact fetcher_ret_inflight dist _ _ e he
  | early k t c =>
    have he' : e ∈ (Fetcher.step dist s.fetcher (.early k t c)).2.ret := by
      simpa [step, runHandler, Gen.FullGlue.fetchCompletedSteps, List.foldl, stepCode] using he
    have := fetcher_ret_inflight dist _ _ e he'
    rw [(step_store_fetcher cfg dist s (.early k t c)).2]
    exact this
  | run id => cases he
  | deliver id =>
    simp [step, runHandler, Gen.FullGlue.addStoredSteps, List.foldl, stepCode] at he
  | removeFailed k =>
    simp [step, runHandler, Gen.FullGlue.removeFailedSteps, List.foldl, stepCode] at he
  | setRange r => cases he
  | cleanup =>
    simp [step, runHandler, Gen.FullGlue.cleanupSteps, List.foldl, stepCode] at he

/-! ## histories that lose no held record -/

/-- along `ops`, no step takes a key out of the index (no eviction by an accepted put, no failed-write removal, no
clean-up that removes something) -/
def NoLoss : St → List Op → Prop
  | _, [] => True
  | s, op :: ops =>
    (∀ k ∈ Store.keys s.store.index, k ∈ Store.keys (step cfg dist s op).1.store.index) ∧
    NoLoss (step cfg dist s op).1 ops

/-- a bound is set and it is no farther than the farthest held record -/
def Bounded (s : St) : Prop := ∃ b, s.fetcher.farthest = some b ∧ b ≤ maxHeld dist s.store.index

theorem bounded_pending {s : St} (h : Good dist s) (hb : Bounded dist s) :
    ∀ e ∈ pending s.fetcher, dist e.key ≤ maxHeld dist s.store.index := by
  obtain ⟨b, hf, hle⟩ := hb
  intro e he
  exact Nat.le_trans (h.inv.full b hf e (mem_pending.1 he)) hle

theorem bounded_step {s : St} (hb : Bounded dist s) (op : Op)
    (hk : ∀ k ∈ Store.keys s.store.index, k ∈ Store.keys (step cfg dist s op).1.store.index) :
    Bounded dist (step cfg dist s op).1 := by
  obtain ⟨b, hf, hle⟩ := hb
  obtain ⟨b', hf', hle'⟩ := step_farthest_mono cfg dist s op b hf
  exact ⟨b', hf', Nat.le_trans hle' (Nat.le_trans hle (maxHeld_mono dist hk))⟩

theorem bounded_runFrom {s : St} (hb : Bounded dist s) (ops : List Op) (hn : NoLoss cfg dist s ops) :
    Bounded dist (runFrom cfg dist s ops) := by
  induction ops generalizing s with
  | nil => exact hb
  | cons op ops ih => exact ih (bounded_step cfg dist hb op hn.1) hn.2

theorem noLoss_take {s : St} {ops : List Op} (hn : NoLoss cfg dist s ops) (n : Nat) :
    NoLoss cfg dist s (ops.take n) := by
  induction ops generalizing s n with
  | nil => simp [NoLoss]
  | cons op ops ih =>
    cases n with
    | zero => simp [NoLoss]
    | succ n => exact ⟨hn.1, ih hn.2 n⟩

end SafeNet.FullGlue
