import SafeNet.Proofs.Replication
/-! Abstract per-key view of replication rounds (C09): the version of one mutable key at each node is an element of a
join-semilattice (canonical set of ops / transactions, or "not held"); a completed exchange `src → dst` replaces `dst`'s
version by the join. Convergence of any schedule that contains a completed exchange for every ordered pair. -/
namespace SafeNet.Replication.Abs
open SafeNet.Validate (union)
open SafeNet.Replication

/-- version of one key at one node: `none` = not held -/
abbrev Ver := Option (List Nat)

/-- what `dst` holds after absorbing `src`'s version -/
def join : Ver → Ver → Ver
  | none, d => d
  | some a, none => some (union a [])
  | some a, some b => some (union a b)

def memV (m : Nat) (v : Ver) : Prop := ∃ l, v = some l ∧ m ∈ l
def CanonV (v : Ver) : Prop := ∀ l, v = some l → Canon l

theorem memV_join (m : Nat) (s d : Ver) : memV m (join s d) ↔ memV m s ∨ memV m d := by
  cases s with
  | none => simp [join, memV]
  | some a =>
    cases d with
    | none => simp [join, memV, mem_union']
    | some b => simp [join, memV, mem_union']

theorem isSome_join (s d : Ver) : (join s d).isSome = (s.isSome || d.isSome) := by
  cases s <;> cases d <;> simp [join]

theorem canon_join (s d : Ver) (hd : CanonV d) : CanonV (join s d) := by
  cases s with
  | none => exact hd
  | some a =>
    cases d with
    | none => intro l hl; simp [join] at hl; rw [← hl]; exact canon_union _ _
    | some b => intro l hl; simp [join] at hl; rw [← hl]; exact canon_union _ _

/-- a completed exchange `p.1 → p.2` -/
def xch (v : Nat → Ver) (p : Nat × Nat) : Nat → Ver :=
  fun i => if i = p.2 then join (v p.1) (v p.2) else v i

def runX (v : Nat → Ver) (sched : List (Nat × Nat)) : Nat → Ver := sched.foldl xch v

theorem xch_mono (v : Nat → Ver) (p : Nat × Nat) (i m : Nat) (h : memV m (v i)) : memV m (xch v p i) := by
  unfold xch
  split
  · rename_i hi; subst hi; exact (memV_join _ _ _).2 (Or.inr h)
  · exact h

theorem xch_some (v : Nat → Ver) (p : Nat × Nat) (i : Nat) (h : (v i).isSome = true) : (xch v p i).isSome = true := by
  unfold xch
  split
  · rename_i hi; subst hi; rw [isSome_join, h, Bool.or_true]
  · exact h

theorem xch_canon (v : Nat → Ver) (p : Nat × Nat) (h : ∀ i, CanonV (v i)) : ∀ i, CanonV (xch v p i) := by
  intro i
  unfold xch
  split
  · exact canon_join _ _ (h _)
  · exact h i

theorem run_mono (sched : List (Nat × Nat)) : ∀ (v : Nat → Ver) (i m : Nat), memV m (v i) → memV m (runX v sched i) := by
  induction sched with
  | nil => intro v i m h; exact h
  | cons p rest ih => intro v i m h; exact ih (xch v p) i m (xch_mono v p i m h)

theorem run_some (sched : List (Nat × Nat)) : ∀ (v : Nat → Ver) (i : Nat), (v i).isSome = true → (runX v sched i).isSome = true := by
  induction sched with
  | nil => intro v i h; exact h
  | cons p rest ih => intro v i h; exact ih (xch v p) i (xch_some v p i h)

theorem run_canon (sched : List (Nat × Nat)) : ∀ (v : Nat → Ver), (∀ i, CanonV (v i)) → ∀ i, CanonV (runX v sched i) := by
  induction sched with
  | nil => intro v h; exact h
  | cons p rest ih => intro v h; exact ih (xch v p) (xch_canon v p h)

/-- whatever `y` held when the schedule started has reached `x` once the schedule contains a completed `y → x` -/
theorem run_cover (sched : List (Nat × Nat)) : ∀ (v : Nat → Ver) (y x m : Nat), (y, x) ∈ sched → memV m (v y) →
    memV m (runX v sched x) := by
  induction sched with
  | nil => intro v y x m h; cases h
  | cons p rest ih =>
    intro v y x m h hm
    rcases List.mem_cons.1 h with h | h
    · subst h
      apply run_mono rest
      simp only [xch, if_true]
      exact (memV_join _ _ _).2 (Or.inl hm)
    · exact ih (xch v p) y x m h (xch_mono v p y m hm)

theorem run_cover_some (sched : List (Nat × Nat)) : ∀ (v : Nat → Ver) (y x : Nat), (y, x) ∈ sched → (v y).isSome = true →
    (runX v sched x).isSome = true := by
  induction sched with
  | nil => intro v y x h; cases h
  | cons p rest ih =>
    intro v y x h hm
    rcases List.mem_cons.1 h with h | h
    · subst h
      apply run_some rest
      simp only [xch, if_true]
      rw [isSome_join, hm, Bool.true_or]
    · exact ih (xch v p) y x h (xch_some v p y hm)

/-- nothing is invented: every member of a version after the schedule was held by some node at the start -/
theorem run_bound (n : Nat) (sched : List (Nat × Nat)) : ∀ (v : Nat → Ver), (∀ p ∈ sched, p.1 < n ∧ p.2 < n) →
    ∀ x m, x < n → memV m (runX v sched x) → ∃ y, y < n ∧ memV m (v y) := by
  induction sched with
  | nil => intro v _ x m hx h; exact ⟨x, hx, h⟩
  | cons p rest ih =>
    intro v hp x m hx h
    obtain ⟨y, hy, hm⟩ := ih (xch v p) (fun q hq => hp q (List.mem_cons_of_mem _ hq)) x m hx h
    unfold xch at hm
    split at hm
    · rcases (memV_join _ _ _).1 hm with h1 | h1
      · exact ⟨p.1, (hp p (List.mem_cons_self ..)).1, h1⟩
      · exact ⟨p.2, (hp p (List.mem_cons_self ..)).2, h1⟩
    · exact ⟨y, hy, hm⟩

theorem run_bound_some (n : Nat) (sched : List (Nat × Nat)) : ∀ (v : Nat → Ver), (∀ p ∈ sched, p.1 < n ∧ p.2 < n) →
    ∀ x, x < n → (runX v sched x).isSome = true → ∃ y, y < n ∧ (v y).isSome = true := by
  induction sched with
  | nil => intro v _ x hx h; exact ⟨x, hx, h⟩
  | cons p rest ih =>
    intro v hp x hx h
    obtain ⟨y, hy, hm⟩ := ih (xch v p) (fun q hq => hp q (List.mem_cons_of_mem _ hq)) x hx h
    unfold xch at hm
    split at hm
    · rw [isSome_join] at hm
      rcases Bool.or_eq_true_iff.1 hm with h1 | h1
      · exact ⟨p.1, (hp p (List.mem_cons_self ..)).1, h1⟩
      · exact ⟨p.2, (hp p (List.mem_cons_self ..)).2, h1⟩
    · exact ⟨y, hy, hm⟩

/-- every ordered pair of distinct nodes has a completed exchange in the schedule -/
def Covers (n : Nat) (sched : List (Nat × Nat)) : Prop := ∀ y x, y < n → x < n → y ≠ x → (y, x) ∈ sched

/-- **Convergence of the abstract system.** If the schedule stays within the `n` nodes and contains a completed exchange
for every ordered pair, then afterwards every node holds the same version, whose members are exactly what was held
anywhere at the start (and it is held at all iff it was held somewhere). -/
theorem abs_converge (n : Nat) (sched : List (Nat × Nat)) (v : Nat → Ver) (hc : ∀ i, CanonV (v i))
    (hin : ∀ p ∈ sched, p.1 < n ∧ p.2 < n) (hcov : Covers n sched) :
    (∀ x m, x < n → (memV m (runX v sched x) ↔ ∃ y, y < n ∧ memV m (v y))) ∧
    (∀ x, x < n → ((runX v sched x).isSome = true ↔ ∃ y, y < n ∧ (v y).isSome = true)) ∧
    (∀ x y, x < n → y < n → runX v sched x = runX v sched y) := by
  have hmem : ∀ x m, x < n → (memV m (runX v sched x) ↔ ∃ y, y < n ∧ memV m (v y)) := by
    intro x m hx
    constructor
    · exact run_bound n sched v hin x m hx
    · rintro ⟨y, hy, hm⟩
      by_cases hyx : y = x
      · subst hyx; exact run_mono sched v y m hm
      · exact run_cover sched v y x m (hcov y x hy hx hyx) hm
  have hsome : ∀ x, x < n → ((runX v sched x).isSome = true ↔ ∃ y, y < n ∧ (v y).isSome = true) := by
    intro x hx
    constructor
    · exact run_bound_some n sched v hin x hx
    · rintro ⟨y, hy, hm⟩
      by_cases hyx : y = x
      · subst hyx; exact run_some sched v y hm
      · exact run_cover_some sched v y x (hcov y x hy hx hyx) hm
  refine ⟨hmem, hsome, ?_⟩
  intro x y hx hy
  have hcx := run_canon sched v hc x
  have hcy := run_canon sched v hc y
  cases hvx : runX v sched x with
  | none =>
    cases hvy : runX v sched y with
    | none => rfl
    | some b =>
      have := (hsome y hy).1 (by rw [hvy]; rfl)
      have h2 := (hsome x hx).2 this
      rw [hvx] at h2; cases h2
  | some a =>
    cases hvy : runX v sched y with
    | none =>
      have := (hsome x hx).1 (by rw [hvx]; rfl)
      have h2 := (hsome y hy).2 this
      rw [hvy] at h2; cases h2
    | some b =>
      congr 1
      apply canon_ext (hcx a hvx) (hcy b hvy)
      intro m
      have e1 := hmem x m hx
      have e2 := hmem y m hy
      rw [hvx] at e1; rw [hvy] at e2
      simp only [memV, Option.some.injEq, exists_eq_left'] at e1 e2
      rw [e1, e2]

/-- the ranking function for one key: nodes whose version is not yet `target` -/
def measure (n : Nat) (v : Nat → Ver) (target : Ver) : Nat := ((List.range n).filter (fun i => decide (v i ≠ target))).length

/-- after a covering schedule the measure against the common final version is 0, hence strictly smaller than before
whenever some node was not there yet -/
theorem measure_zero (n : Nat) (sched : List (Nat × Nat)) (v : Nat → Ver) (hc : ∀ i, CanonV (v i))
    (hin : ∀ p ∈ sched, p.1 < n ∧ p.2 < n) (hcov : Covers n sched) (x0 : Nat) (hx0 : x0 < n) :
    measure n (runX v sched) (runX v sched x0) = 0 ∧
    (0 < measure n v (runX v sched x0) → measure n (runX v sched) (runX v sched x0) < measure n v (runX v sched x0)) := by
  have h := (abs_converge n sched v hc hin hcov).2.2
  have hz : measure n (runX v sched) (runX v sched x0) = 0 := by
    unfold measure
    rw [List.length_eq_zero_iff, List.filter_eq_nil_iff]
    intro i hi
    simp only [List.mem_range] at hi
    simp [h i x0 hi hx0]
  exact ⟨hz, fun hp => by rw [hz]; exact hp⟩

end SafeNet.Replication.Abs

/-! ## one advertisement at a fetcher whose earlier fetches have all timed out -/
namespace SafeNet.Replication
open SafeNet.Fetcher SafeNet.Gen.Fetcher

variable (dist : Nat → Nat)

/-- nothing queued, no farthest-distance restriction, and every in-flight entry is past its FETCH_TIMEOUT (what a
fetcher looks like one FETCH_TIMEOUT after the previous exchange finished) -/
def StaleQuiet (f : Fetcher.State) : Prop := f.tbf = [] ∧ f.farthest = none ∧ ∀ e ∈ f.ogf, e.deadline ≤ f.now

theorem pOgf_nil_of_expired {s : Fetcher.State} (h : ∀ e ∈ s.ogf, e.deadline ≤ s.now) : pOgf s = [] := by
  apply List.eq_nil_iff_forall_not_mem.2
  intro e he
  have := (mem_pOgf.1 he)
  have := h e this.1
  omega

theorem addKeys_shape' (s : Fetcher.State) (h : Nat) (incoming locals : List (Nat × Nat)) (choice : List Entry) :
    ∃ X, (addKeys dist s h incoming locals choice).1 = (nextKeys dist (addCore dist s h incoming locals).1 X).1 ∧
      (addKeys dist s h incoming locals choice).2.ret =
        (addCore dist s h incoming locals).2 ++ (nextKeys dist (addCore dist s h incoming locals).1 X).2.ret ∧
      ((addKeys dist s h incoming locals choice).2.illegal = false →
        (nextKeys dist (addCore dist s h incoming locals).1 X).2.illegal = false) := by
  unfold addKeys
  generalize addCore dist s h incoming locals = r
  obtain ⟨s1, fast⟩ := r
  cases fast with
  | nil => exact ⟨choice, rfl, rfl, id⟩
  | cons f fs =>
    cases choice with
    | nil => exact ⟨[], rfl, rfl, fun h => by simp [addKeysFrom] at h⟩
    | cons c rest =>
      simp only [addKeysFrom]
      split
      · exact ⟨rest, rfl, rfl, id⟩
      · exact ⟨[], rfl, rfl, fun h => by simp at h⟩

/-- with nothing queued a `next_keys_to_fetch` schedules nothing and only drops the timed-out in-flight entries -/
theorem nextKeys_tbf_nil (s : Fetcher.State) (X : List Entry) (ht : s.tbf = []) :
    (nextKeys dist s X).2.ret = [] ∧ (nextKeys dist s X).1.tbf = [] ∧ (nextKeys dist s X).1.ogf = pOgf s := by
  have hp : pTbf s = [] := by simp [pTbf, ht]
  have hret : (nextKeys dist s X).2.ret = [] := by
    apply List.eq_nil_iff_forall_not_mem.2
    intro e he
    obtain ⟨⟨x, hx, _⟩, _⟩ := nextKeys_ret_origin dist he
    rw [hp] at hx; cases hx
  refine ⟨hret, ?_, ?_⟩
  · have := nextKeys_tbf_sub dist s X
    rw [hp] at this
    exact List.eq_nil_of_sublist_nil this
  · rw [nextKeys_ogf_eq, hret, List.append_nil]

theorem maxParallel_pos : 0 < maxParallelFetch := by decide

/-- **one `next_keys_to_fetch` takes everything** when all in-flight entries have timed out, every queued entry is from
one holder `h` that is not among the timed-out ones, the choice witness is legal and there is room -/
theorem nextKeys_all (s : Fetcher.State) (X : List Entry) (h : Nat)
    (hexp : ∀ e ∈ s.ogf, e.deadline ≤ s.now) (hh : ∀ e ∈ s.tbf, e.holder = h) (hnf : h ∉ failedOf s)
    (hroom : s.ogf.length + s.tbf.length < maxParallelFetch)
    (hleg : (nextKeys dist s X).2.illegal = false) :
    (nextKeys dist s X).1.tbf = [] ∧ (nextKeys dist s X).1.ogf = (nextKeys dist s X).2.ret ∧
    (∀ e ∈ s.tbf, hasKT (nextKeys dist s X).2.ret e.key e.ty = true) ∧
    (∀ x ∈ (nextKeys dist s X).2.ret, x.holder = h ∧ x.deadline = s.now + fetchTimeout ∧
      ∃ e ∈ s.tbf, e.key = x.key ∧ e.ty = x.ty) := by
  have hpo := pOgf_nil_of_expired hexp
  have hogf : (nextKeys dist s X).1.ogf = (nextKeys dist s X).2.ret := by
    rw [nextKeys_ogf_eq, hpo, List.nil_append]
  have hall : ∀ e ∈ s.tbf, hasKT (nextKeys dist s X).2.ret e.key e.ty = true := by
    intro e he
    have hresp : e.holder ∉ (nextKeys dist s X).2.failed := by
      rw [(nextKeys_fields dist s X).2.2.2, hh e he]; exact hnf
    have hr : s.ogf.length +
        (s.tbf.filter (fun x => decide (dist x.key ≤ dist e.key) && !(x.key == e.key && x.ty == e.ty))).length
          < maxParallelFetch := by
      have := List.length_filter_le (fun x : Entry => decide (dist x.key ≤ dist e.key) && !(x.key == e.key && x.ty == e.ty)) s.tbf
      omega
    have := SafeNet.Props.C08.progress_partial dist s X e hleg he hresp hr
    rw [hogf] at this
    exact this
  have horigin : ∀ x ∈ (nextKeys dist s X).2.ret, x.holder = h ∧ x.deadline = s.now + fetchTimeout ∧
      ∃ e ∈ s.tbf, e.key = x.key ∧ e.ty = x.ty := by
    intro x hx
    obtain ⟨⟨y, hy, hk, ht, hhh⟩, hd, _⟩ := nextKeys_ret_origin dist hx
    have hy' := (pTbf_sub s).subset hy
    exact ⟨by rw [← hhh]; exact hh y hy', hd, y, hy', hk, ht⟩
  refine ⟨?_, hogf, hall, horigin⟩
  rcases nextKeys_cases dist s X with ⟨h1, _⟩ | ⟨_, _, h2⟩ | ⟨_, hl, h3⟩
  · rw [hpo] at h1; have := maxParallel_pos; simp at h1; omega
  · rw [h2] at hleg; simp at hleg
  · rw [h3]
    simp only []
    apply List.filter_eq_nil_iff.2
    intro e he
    have he' := (pTbf_sub s).subset he
    have hsch := hall e he'
    rw [h3] at hsch
    simp only [] at hsch
    obtain ⟨x, hx, hxk, hxt⟩ := (hasKT_true_iff _ _ _).1 hsch
    obtain ⟨c, hc, hck, hct, _, _⟩ := mem_sched hx
    obtain ⟨_, hin, _⟩ := legal_spec dist hl
    obtain ⟨y, hy, _, _, hyh⟩ := (hasKTH_true_iff _ _ _ _).1 (hin c hc)
    have hch : c.holder = h := by rw [← hyh]; exact hh y ((pTbf_sub s).subset hy)
    have : hasKTH X e.key e.ty e.holder = true :=
      (hasKTH_true_iff _ _ _ _).2 ⟨c, hc, by rw [← hck, hxk], by rw [← hct, hxt], by rw [hch, hh e he']⟩
    simp [this]

theorem insertPending_length_le (now h : Nat) (new : List (Nat × Nat)) :
    ∀ tbf : List Entry, (insertPending now h tbf new).length ≤ tbf.length + new.length := by
  induction new with
  | nil => intro tbf; simp [insertPending]
  | cons p ps ih =>
    intro tbf
    rw [insertPending_cons]
    split
    · have := ih tbf; simp only [List.length_cons]; omega
    · have := ih (tbf ++ [⟨p.1, p.2, h, now + pendingTimeout⟩])
      simp only [List.length_append, List.length_cons, List.length_nil] at this ⊢
      omega

/-- **A whole advertisement is taken up at once.** Fetcher `s` is `StaleQuiet`, no timed-out entry is from the advertiser
`h` and none is one of the advertised new versions, the list (plus the stale entries) stays below MAX_PARALLEL_FETCH, the
new keys are within the range, and the choice witness is legal. Then after `add_keys`: nothing is queued, the in-flight set
is exactly the returned batch, every new `(key, type)` is in the batch, and every batch entry is a new key fetched from `h`
with a fresh FETCH_TIMEOUT. -/
theorem adv_complete (s : Fetcher.State) (h : Nat) (inc loc : List (Nat × Nat)) (choice : List Entry)
    (hq : StaleQuiet s) (hsrc : ∀ e ∈ s.ogf, e.holder ≠ h)
    (hfresh : ∀ p ∈ inc.filter (admits dist s loc h), hasKT s.ogf p.1 p.2 = false)
    (hroom : s.ogf.length + inc.length < maxParallelFetch)
    (hrange : ∀ r, s.range = some r → ∀ p ∈ inc.filter (admits dist s loc h), dist p.1 ≤ r)
    (hleg : (addKeys dist s h inc loc choice).2.illegal = false) :
    let r := addKeys dist s h inc loc choice
    r.1.tbf = [] ∧ r.1.ogf = r.2.ret ∧ r.1.farthest = none ∧ r.1.now = s.now ∧ r.1.range = s.range ∧
    (∀ p ∈ inc.filter (admits dist s loc h), hasKT r.2.ret p.1 p.2 = true) ∧
    (∀ x ∈ r.2.ret, x.holder = h ∧ x.deadline = s.now + fetchTimeout ∧ (x.key, x.ty) ∈ inc.filter (admits dist s loc h)) := by
  intro r
  obtain ⟨ht, hf, hexp⟩ := hq
  obtain ⟨X, hst, hret, hlegal⟩ := addKeys_shape' dist s h inc loc choice
  have hleg' := hlegal hleg
  have hfields := nextKeys_fields dist (addCore dist s h inc loc).1 X
  have hcf := addCore_fields dist s h inc loc
  have hsub1 : ∀ e ∈ ogf1 s loc, e ∈ s.ogf := fun e he => (List.mem_filter.1 he).1
  have hnew_def : newOf dist s loc h inc = inc.filter (admits dist s loc h) := rfl
  show (addKeys dist s h inc loc choice).1.tbf = [] ∧ _
  rw [hst, hret]
  rcases addCore_cases dist s h inc loc with ⟨p, hp, hk, _⟩ | ⟨p, hp, hk, hc⟩ | ⟨hlen, hc⟩
  · -- the single new version is already in flight: excluded
    exfalso
    have hin : p ∈ inc.filter (admits dist s loc h) := by rw [← hnew_def, hp]; exact List.mem_singleton.2 rfl
    have := hfresh p hin
    obtain ⟨e, he, hek, het⟩ := (hasKT_true_iff _ _ _).1 hk
    rw [hasKT_false_iff] at this
    exact this e (hsub1 e he) ⟨hek, het⟩
  · -- fast path
    have htb : (addCore dist s h inc loc).1.tbf = [] := by
      rw [hc]; simp [tbf2, tbf1, ht]
    obtain ⟨h1, h2, h3⟩ := nextKeys_tbf_nil dist (addCore dist s h inc loc).1 X htb
    have hpo : pOgf (addCore dist s h inc loc).1 = [fastEntry s h p] := by
      rw [hc]
      simp only [pOgf, List.filter_append]
      have e1 : (ogf1 s loc).filter (fun e => !expired s.now e) = [] := by
        apply List.filter_eq_nil_iff.2
        intro e he
        simp [(expired_iff s.now e).2 (hexp e (hsub1 e he))]
      have e2 : expired s.now (fastEntry s h p) = false := by
        cases hx : expired s.now (fastEntry s h p) with
        | false => rfl
        | true =>
          have := (expired_iff _ _).1 hx
          simp only [fastEntry] at this
          have := fetchTimeout_pos
          omega
      simp [e1, e2]
    have hfast : (addCore dist s h inc loc).2 = [fastEntry s h p] := by rw [hc]
    rw [h1, h2, h3, hpo, hfast]
    refine ⟨rfl, by simp, ?_, ?_, ?_, ?_, ?_⟩
    · rw [hfields.2.1, hcf.2.1]; exact hf
    · rw [hfields.2.2.1, hcf.2.2.1]
    · rw [hfields.1, hcf.1]
    · intro q hq
      rw [← hnew_def, hp] at hq
      rw [List.mem_singleton.1 hq]
      simp [hasKT, sameKT, fastEntry]
    · intro x hx
      simp only [List.append_nil, List.mem_singleton] at hx
      subst hx
      refine ⟨rfl, rfl, ?_⟩
      rw [← hnew_def, hp]
      exact List.mem_singleton.2 rfl
  · -- several (or no) new keys: queued, then taken by the final `next_keys_to_fetch`
    have hnew3 : new3 dist s (newOf dist s loc h inc) = newOf dist s loc h inc := by
      unfold new3
      split
      · rename_i r hr
        apply List.filter_eq_self.2
        intro q hq
        exact (rangeOk_iff _ _).2 (hrange r hr q hq)
      · rfl
    have htbf2 : tbf2 s loc = [] := by simp [tbf2, tbf1, ht]
    have hs1 : (addCore dist s h inc loc).1 =
        { s with tbf := insertPending s.now h [] (newOf dist s loc h inc), ogf := ogf1 s loc } := by
      rw [hc, hnew3, htbf2]
    have hholder : ∀ e ∈ (addCore dist s h inc loc).1.tbf, e.holder = h := by
      intro e he
      rw [hs1] at he
      rcases mem_insertPending he with h1 | ⟨q, _, rfl⟩
      · cases h1
      · rfl
    have hexp1 : ∀ e ∈ (addCore dist s h inc loc).1.ogf, e.deadline ≤ (addCore dist s h inc loc).1.now := by
      intro e he
      rw [hs1] at he ⊢
      exact hexp e (hsub1 e he)
    have hnf : h ∉ failedOf (addCore dist s h inc loc).1 := by
      intro hin
      rw [hs1] at hin
      simp only [failedOf, List.mem_map, List.mem_filter] at hin
      obtain ⟨e, ⟨he, _⟩, heh⟩ := hin
      exact hsrc e (hsub1 e he) heh
    have hroom1 : (addCore dist s h inc loc).1.ogf.length + (addCore dist s h inc loc).1.tbf.length < maxParallelFetch := by
      rw [hs1]
      have a1 := insertPending_length_le s.now h (newOf dist s loc h inc) []
      have a2 : (newOf dist s loc h inc).length ≤ inc.length := List.length_filter_le _ _
      have a3 : (ogf1 s loc).length ≤ s.ogf.length := List.length_filter_le _ _
      simp only [List.length_nil] at a1
      simp only []
      omega
    obtain ⟨g1, g2, g3, g4⟩ := nextKeys_all dist (addCore dist s h inc loc).1 X h hexp1 hholder hnf hroom1 hleg'
    have hfast : (addCore dist s h inc loc).2 = [] := by rw [hc]
    rw [hfast, List.nil_append]
    refine ⟨g1, g2, ?_, ?_, ?_, ?_, ?_⟩
    · rw [hfields.2.1, hcf.2.1]; exact hf
    · rw [hfields.2.2.1, hcf.2.2.1]
    · rw [hfields.1, hcf.1]
    · intro q hq
      have : hasKTH (addCore dist s h inc loc).1.tbf q.1 q.2 h = true := by
        rw [hs1]; exact insertPending_has hq
      obtain ⟨e, he, hek, het, _⟩ := (hasKTH_true_iff _ _ _ _).1 this
      have := g3 e he
      rw [hek, het] at this
      exact this
    · intro x hx
      obtain ⟨a, b, e, he, hek, het⟩ := g4 x hx
      refine ⟨a, by rw [b, hs1], ?_⟩
      rw [hs1] at he
      rcases mem_insertPending he with h1 | ⟨q, hq, rfl⟩
      · cases h1
      · simp only at hek het
        rw [← hek, ← het]
        exact hq

end SafeNet.Replication

/-! ## processing the replies -/
namespace SafeNet.Replication
open SafeNet.Validate SafeNet.Gen.Validate
open SafeNet.Fetcher (Entry)
set_option linter.unusedSimpArgs false

theorem mem_writesOf {l : List Tok} {p : Nat × Content} (h : p ∈ writesOf l) : Tok.W p.1 p.2 ∈ l := by
  induction l with
  | nil => cases h
  | cons t rest ih =>
    cases t <;> simp only [writesOf] at h
    all_goals first
      | exact List.mem_cons_of_mem _ (ih h)
      | (rcases List.mem_cons.1 h with h | h
         · subst h; exact List.mem_cons_self ..
         · exact List.mem_cons_of_mem _ (ih h))

/-- whatever `store_replicated_in_record` writes for a fetched `(key, c)`, it writes under `key` -/
theorem replWrites_key (s : Store) (key : Nat) (c : Content) (p : Nat × Content) (h : p ∈ replWrites s key c) :
    p.1 = key := by
  have hW := mem_writesOf h
  unfold replWrites at hW
  rw [validate_trace] at hW
  obtain ⟨hk, hw, _⟩ := W_mem_inv hW
  have hkey := imp_of_bool (tbl_put_needs_key_match (replDelivery key c).client (replDelivery key c).kind
    (obsOfAns (replDelivery key c) (seqAns (replDelivery key c) s))) hw
  simp only [Bool.and_eq_true, Bool.or_eq_true] at hkey
  rw [hk]
  rcases hkey.1 with h1 | h1
  · by_cases hnot : (replDelivery key c).client = false ∧ (replDelivery key c).kind = .tx
    · have : route (replDelivery key c).client (replDelivery key c).kind = .txRepl := by
        rw [hnot.1, hnot.2]; rfl
      simp only [rwKey, this]; rfl
    · exact (km_true_key h1 hnot).2
  · simp only [Bool.not_eq_true', beq_iff_eq] at h1
    have : route (replDelivery key c).client (replDelivery key c).kind = .txRepl := by
      rw [h1.1, h1.2]; rfl
    simp only [rwKey, this]; rfl

theorem nodeRsp_store (w : World) (i : Nat) (nd : NodeSt) (key : Nat) (c : Content) (ch : List Entry) :
    (nodeRsp w i nd key c ch).1.store =
      match replWrites nd.store key c with
      | [] => nd.store
      | (k', c') :: _ => nd.store.put k' c' := by
  unfold nodeRsp nodeRspWith
  simp only []
  split <;> split <;> simp_all [putLocal]

/-- a reply about `key` never touches another key -/
theorem nodeRsp_other (w : World) (i : Nat) (nd : NodeSt) (key : Nat) (c : Content) (ch : List Entry) (k : Nat)
    (hk : k ≠ key) : (nodeRsp w i nd key c ch).1.store.get k = nd.store.get k := by
  rw [nodeRsp_store]
  split
  · rfl
  · rename_i k' c' rest heq
    have : k' = key := replWrites_key nd.store key c (k', c') (by rw [heq]; exact List.mem_cons_self ..)
    subst this
    exact get_put_other _ _ _ _ hk

/-- the replies to a batch of scheduled fetches, processed in batch order; `serve` reads the holder `ns` -/
def fetchAll (w : World) (dst : Nat) (ns : NodeSt) : NodeSt → List Entry → List (List Entry) → NodeSt
  | nd, [], _ => nd
  | nd, e :: rest, cs =>
    match serve ns e.key with
    | some c => fetchAll w dst ns (nodeRsp w dst nd e.key c (cs.headD [])).1 rest cs.tail
    | none => fetchAll w dst ns nd rest cs.tail

/-- a complete exchange: `src`'s whole index is delivered at `dst`, every scheduled fetch is served by `src` and the
reply processed by `dst` -/
def exchangeAll (w : World) (src dst : Nat) (ns nd : NodeSt) (c1 : List Entry) (cs : List (List Entry)) : NodeSt :=
  fetchAll w dst ns (nodeRep w dst nd src (indexOf ns.store) c1).1 (nodeRep w dst nd src (indexOf ns.store) c1).2.ret cs

theorem fetchAll_untouched (w : World) (dst : Nat) (ns : NodeSt) (k : Nat) :
    ∀ (es : List Entry) (nd : NodeSt) (cs : List (List Entry)), (∀ e ∈ es, e.key ≠ k) →
      (fetchAll w dst ns nd es cs).store.get k = nd.store.get k := by
  intro es
  induction es with
  | nil => intro nd cs _; rfl
  | cons e rest ih =>
    intro nd cs h
    have hr : ∀ x ∈ rest, x.key ≠ k := fun x hx => h x (List.mem_cons_of_mem _ hx)
    have he : k ≠ e.key := fun hh => h e (List.mem_cons_self ..) hh.symm
    simp only [fetchAll]
    split
    · rw [ih _ _ hr, nodeRsp_other _ _ _ _ _ _ _ he]
    · exact ih _ _ hr

/-- transaction sets: after the replies, `k` holds the union if it was fetched at all -/
theorem fetchAll_txs (w : World) (dst : Nat) (ns : NodeSt) (k : Nat) (a : List Nat) (hk : k % 3 = 1) (ha : a ≠ [])
    (hs : ns.store.get k = some (.txs a)) :
    ∀ (es : List Entry) (nd : NodeSt) (cs : List (List Entry)) (b : List Nat),
      (nd.store.get k = some (.txs b) ∨ (nd.store.get k = none ∧ b = [])) →
      (fetchAll w dst ns nd es cs).store.get k =
        if es.any (fun e => e.key == k) then some (.txs (union a b)) else nd.store.get k := by
  intro es
  induction es with
  | nil => intro nd cs b _; rfl
  | cons e rest ih =>
    intro nd cs b hb
    simp only [fetchAll, List.any_cons]
    by_cases hek : e.key = k
    · subst hek
      simp only [serve, hs, beq_self_eq_true, Bool.true_or, if_true]
      have h1 : (nodeRsp w dst nd e.key (.txs a) (cs.headD [])).1.store.get e.key = some (.txs (union a b)) := by
        rw [nodeRsp_store, replWrites_txs nd.store e.key a hk ha b hb]
        exact get_put_same _ _ _
      rw [ih _ _ (union a b) (Or.inl h1)]
      split
      · rw [union_absorb_left]
      · exact h1
    · have hne : (e.key == k) = false := by simpa using hek
      simp only [hne, Bool.false_or]
      split
      · rename_i c _
        have h1 : (nodeRsp w dst nd e.key c (cs.headD [])).1.store.get k = nd.store.get k :=
          nodeRsp_other _ _ _ _ _ _ _ (fun hh => hek hh.symm)
        rw [ih _ _ b (by rw [h1]; exact hb), h1]
      · exact ih _ _ b hb

/-- registers: after the replies, `k` holds the union of the op sets if it was fetched at all -/
theorem fetchAll_reg (w : World) (dst : Nat) (ns : NodeSt) (k : Nat) (alt : Bool) (a : List Nat) (hk : k % 3 = 2)
    (hs : ns.store.get k = some (.reg alt a)) :
    ∀ (es : List Entry) (nd : NodeSt) (cs : List (List Entry)) (b : List Nat), Canon b →
      nd.store.get k = some (.reg alt b) →
      (fetchAll w dst ns nd es cs).store.get k =
        if es.any (fun e => e.key == k) then some (.reg alt (union a b)) else nd.store.get k := by
  intro es
  induction es with
  | nil => intro nd cs b _ _; rfl
  | cons e rest ih =>
    intro nd cs b hcb hb
    simp only [fetchAll, List.any_cons]
    by_cases hek : e.key = k
    · subst hek
      simp only [serve, hs, beq_self_eq_true, Bool.true_or, if_true]
      have h1 : (nodeRsp w dst nd e.key (.reg alt a) (cs.headD [])).1.store.get e.key = some (.reg alt (union a b)) := by
        rw [nodeRsp_store, replWrites_reg_held nd.store e.key alt a b hk hb]
        by_cases hany : (a.any fun o => !b.contains o) = true
        · simp only [hany, if_true]
          exact get_put_same _ _ _
        · have hsub : ∀ x ∈ a, x ∈ b := by
            intro x hx
            simp only [List.any_eq_true, Bool.not_eq_true', not_exists, not_and] at hany
            simpa using hany x hx
          simp only [hany, if_false, Bool.false_eq_true]
          rw [hb, union_of_subset hcb hsub]
      rw [ih _ _ (union a b) (canon_union _ _) h1]
      split
      · rw [union_absorb_left]
      · exact h1
    · have hne : (e.key == k) = false := by simpa using hek
      simp only [hne, Bool.false_or]
      split
      · rename_i c _
        have h1 : (nodeRsp w dst nd e.key c (cs.headD [])).1.store.get k = nd.store.get k :=
          nodeRsp_other _ _ _ _ _ _ _ (fun hh => hek hh.symm)
        rw [ih _ _ b hcb (by rw [h1]; exact hb), h1]
      · exact ih _ _ b hcb hb

/-- a register the requester did not hold at all -/
theorem fetchAll_reg_absent (w : World) (dst : Nat) (ns : NodeSt) (k : Nat) (alt : Bool) (a : List Nat) (hk : k % 3 = 2)
    (hs : ns.store.get k = some (.reg alt a)) (es : List Entry) (nd : NodeSt) (cs : List (List Entry))
    (hb : nd.store.get k = none) :
    (fetchAll w dst ns nd es cs).store.get k =
      if es.any (fun e => e.key == k) then some (.reg alt (union a [])) else none := by
  induction es generalizing nd cs with
  | nil => simpa [fetchAll] using hb
  | cons e rest ih =>
    simp only [fetchAll, List.any_cons]
    by_cases hek : e.key = k
    · subst hek
      simp only [serve, hs, beq_self_eq_true, Bool.true_or, if_true]
      have h1 : (nodeRsp w dst nd e.key (.reg alt a) (cs.headD [])).1.store.get e.key = some (.reg alt (union a [])) := by
        rw [nodeRsp_store, replWrites_reg_absent nd.store e.key alt a hk hb]
        exact get_put_same _ _ _
      rw [fetchAll_reg w dst ns e.key alt a hk hs rest _ _ (union a []) (canon_union _ _) h1]
      split
      · rw [union_absorb_left]
      · exact h1
    · have hne : (e.key == k) = false := by simpa using hek
      simp only [hne, Bool.false_or]
      split
      · rename_i c _
        have h1 : (nodeRsp w dst nd e.key c (cs.headD [])).1.store.get k = nd.store.get k :=
          nodeRsp_other _ _ _ _ _ _ _ (fun hh => hek hh.symm)
        exact ih _ _ (by rw [h1]; exact hb)
      · exact ih _ _ hb

end SafeNet.Replication

/-! ## one complete exchange, per key, as a join -/
namespace SafeNet.Replication
open SafeNet.Validate SafeNet.Gen.Validate SafeNet.Gen.Replication
open SafeNet.Fetcher (Entry admits hasKT)
open Abs
set_option linter.unusedSimpArgs false

theorem nodeRep_eq (w : World) (i : Nat) (nd : NodeSt) (h : Nat) (keys : List (Nat × Nat)) (c : List Entry)
    (hh : heard w i h = true) :
    nodeRep w i nd h keys c =
      ({ nd with fetcher := (Fetcher.addKeys (w.kdist i) nd.fetcher h keys (indexOf nd.store) c).1 },
       (Fetcher.addKeys (w.kdist i) nd.fetcher h keys (indexOf nd.store) c).2) := by
  simp [nodeRep, hh, replicateArmPassesOn, replicateEmitsFetchEvent]

theorem nodeRep_store' (w : World) (i : Nat) (nd : NodeSt) (h : Nat) (keys : List (Nat × Nat)) (c : List Entry) :
    (nodeRep w i nd h keys c).1.store = nd.store := by
  unfold nodeRep
  split <;> rfl

theorem mem_get_isSome (s : Store) (k : Nat) (c : Content) (h : (k, c) ∈ s) : (s.get k).isSome = true := by
  induction s with
  | nil => cases h
  | cons p rest ih =>
    obtain ⟨k', c'⟩ := p
    simp only [SafeNet.Validate.Store.get]
    by_cases hk : k' = k
    · simp [hk]
    · simp only [hk, if_false]
      rcases List.mem_cons.1 h with h | h
      · injection h with h1 _; exact absurd h1.symm hk
      · exact ih h

/-- the hypotheses under which an advertisement `src → dst` is taken up completely (besides `StaleQuiet`) -/
structure AdvOk (w : World) (src dst : Nat) (ns nd : NodeSt) (c1 : List Entry) : Prop where
  distinct : src ≠ dst
  heard : heard w dst src = true
  /-- the F-g side effect: no timed-out fetch from `src` is still registered (it would get `src` reported as failed
  and this advertisement dropped) -/
  noStaleFrom : ∀ e ∈ nd.fetcher.ogf, e.holder ≠ src
  /-- …and none of the new versions is itself a timed-out in-flight entry (the fast path would skip it) -/
  noStaleVersion : ∀ p ∈ (indexOf ns.store).filter (admits (w.kdist dst) nd.fetcher (indexOf nd.store) src),
      hasKT nd.fetcher.ogf p.1 p.2 = false
  room : nd.fetcher.ogf.length + (indexOf ns.store).length < SafeNet.Gen.Fetcher.maxParallelFetch
  inRange : ∀ r, nd.fetcher.range = some r →
      ∀ p ∈ (indexOf ns.store).filter (admits (w.kdist dst) nd.fetcher (indexOf nd.store) src), w.kdist dst p.1 ≤ r
  legal : (nodeRep w dst nd src (indexOf ns.store) c1).2.illegal = false

/-- a key of the advertisement that is not fetched is held with the advertised type -/
theorem not_fetched_same_type (w : World) (src dst : Nat) (ns nd : NodeSt) (c1 : List Entry) (hq : StaleQuiet nd.fetcher)
    (ok : AdvOk w src dst ns nd c1) (k : Nat) (c : Content) (hs : ns.store.get k = some c)
    (hno : (nodeRep w dst nd src (indexOf ns.store) c1).2.ret.any (fun e => e.key == k) = false) :
    ∃ c', nd.store.get k = some c' ∧ tyOf c' = tyOf c := by
  rw [nodeRep_eq w dst nd src _ c1 ok.heard] at hno
  have hleg := ok.legal
  rw [nodeRep_eq w dst nd src _ c1 ok.heard] at hleg
  have hc := adv_complete (w.kdist dst) nd.fetcher src (indexOf ns.store) (indexOf nd.store) c1 hq ok.noStaleFrom
    ok.noStaleVersion ok.room ok.inRange hleg
  simp only at hc hno
  obtain ⟨_, _, _, _, _, hall, _⟩ := hc
  have hadv := indexOf_complete ns.store k c hs
  by_cases hadm : admits (w.kdist dst) nd.fetcher (indexOf nd.store) src (k, tyOf c) = true
  · have := hall (k, tyOf c) (List.mem_filter.2 ⟨hadv, hadm⟩)
    obtain ⟨e, he, hek, _⟩ := (SafeNet.Fetcher.hasKT_true_iff _ _ _).1 this
    have : (Fetcher.addKeys (w.kdist dst) nd.fetcher src (indexOf ns.store) (indexOf nd.store) c1).2.ret.any
        (fun e => e.key == k) = true := List.any_eq_true.2 ⟨e, he, by simp [hek]⟩
    rw [this] at hno; cases hno
  · have hadm' : admits (w.kdist dst) nd.fetcher (indexOf nd.store) src (k, tyOf c) = false := by simpa using hadm
    obtain ⟨ht, hf, _⟩ := hq
    simp only [admits, SafeNet.Fetcher.skipHeld, SafeNet.Fetcher.skip_same, if_true, ht, hf,
      SafeNet.Fetcher.hasKTH, List.any_nil, Bool.not_false, Bool.and_true, Bool.not_eq_false',
      beq_iff_eq, indexOf_lookup] at hadm'
    cases hd : nd.store.get k with
    | none => rw [hd] at hadm'; simp at hadm'
    | some c' =>
      rw [hd] at hadm'
      simp only [Option.map_some, Option.some.injEq] at hadm'
      exact ⟨c', rfl, hadm'⟩

/-- a key the holder does not have is not fetched from it -/
theorem absent_not_fetched (w : World) (src dst : Nat) (ns nd : NodeSt) (c1 : List Entry) (hq : StaleQuiet nd.fetcher)
    (ok : AdvOk w src dst ns nd c1) (k : Nat) (hs : ns.store.get k = none) :
    ∀ e ∈ (nodeRep w dst nd src (indexOf ns.store) c1).2.ret, e.key ≠ k := by
  intro e he hek
  rw [nodeRep_eq w dst nd src _ c1 ok.heard] at he
  have hleg := ok.legal
  rw [nodeRep_eq w dst nd src _ c1 ok.heard] at hleg
  have hc := adv_complete (w.kdist dst) nd.fetcher src (indexOf ns.store) (indexOf nd.store) c1 hq ok.noStaleFrom
    ok.noStaleVersion ok.room ok.inRange hleg
  simp only at hc he
  obtain ⟨_, _, _, _, _, _, horig⟩ := hc
  have := (horig e he).2.2
  obtain ⟨c, hm, _⟩ := indexOf_sound ns.store _ (List.mem_filter.1 this).1
  simp only at hm
  rw [hek] at hm
  have := mem_get_isSome ns.store k c hm
  rw [hs] at this; cases this

/-- version of a transaction-set key -/
def verTx : Option Content → Ver
  | some (.txs l) => some l
  | _ => none

/-- version of a register key with base `alt` -/
def verReg (alt : Bool) : Option Content → Ver
  | some (.reg a l) => if a = alt then some l else none
  | _ => none

/-- the key holds nothing or a canonical non-empty transaction set -/
def TxKey (k : Nat) (nd : NodeSt) : Prop :=
  nd.store.get k = none ∨ ∃ l, nd.store.get k = some (.txs l) ∧ Canon l ∧ l ≠ []

/-- the key holds nothing or a canonical version of the register with base `alt` -/
def RegKey (alt : Bool) (k : Nat) (nd : NodeSt) : Prop :=
  nd.store.get k = none ∨ ∃ l, nd.store.get k = some (.reg alt l) ∧ Canon l

theorem union_nil_of_canon {a : List Nat} (h : Canon a) : union a [] = a :=
  canon_ext (canon_union _ _) h (by intro x; simp [mem_union'])

theorem union_self_of_canon {a : List Nat} (h : Canon a) : union a a = a :=
  union_of_subset h (fun _ hx => hx)

/-- **A complete exchange is a join, transaction sets.** -/
theorem exchange_join_tx (w : World) (src dst : Nat) (ns nd : NodeSt) (c1 : List Entry) (cs : List (List Entry))
    (k : Nat) (hk : k % 3 = 1) (hq : StaleQuiet nd.fetcher) (ok : AdvOk w src dst ns nd c1)
    (hs : TxKey k ns) (hd : TxKey k nd) :
    verTx ((exchangeAll w src dst ns nd c1 cs).store.get k) = join (verTx (ns.store.get k)) (verTx (nd.store.get k)) ∧
    TxKey k (exchangeAll w src dst ns nd c1 cs) := by
  unfold exchangeAll
  have hst := nodeRep_store' w dst nd src (indexOf ns.store) c1
  rcases hs with hs | ⟨a, hs, hca, hane⟩
  · have := fetchAll_untouched w dst ns k _ (nodeRep w dst nd src (indexOf ns.store) c1).1 cs
      (absent_not_fetched w src dst ns nd c1 hq ok k hs)
    rw [hst] at this
    refine ⟨by rw [this, hs]; rfl, ?_⟩
    unfold TxKey
    rw [this]; exact hd
  · have hb : ∃ b, ((nodeRep w dst nd src (indexOf ns.store) c1).1.store.get k = some (.txs b) ∨
        ((nodeRep w dst nd src (indexOf ns.store) c1).1.store.get k = none ∧ b = [])) ∧ Canon b ∧
        verTx (nd.store.get k) = (if nd.store.get k = none then none else some b) := by
      rcases hd with hd | ⟨b, hd, hcb, _⟩
      · exact ⟨[], Or.inr ⟨by rw [hst]; exact hd, rfl⟩, trivial, by simp [hd, verTx]⟩
      · exact ⟨b, Or.inl (by rw [hst]; exact hd), hcb, by simp [hd, verTx]⟩
    obtain ⟨b, hb, hcb, hvb⟩ := hb
    have hget := fetchAll_txs w dst ns k a hk hane hs (nodeRep w dst nd src (indexOf ns.store) c1).2.ret
      (nodeRep w dst nd src (indexOf ns.store) c1).1 cs b hb
    by_cases hany : (nodeRep w dst nd src (indexOf ns.store) c1).2.ret.any (fun e => e.key == k) = true
    · simp only [hany, if_true] at hget
      refine ⟨?_, Or.inr ⟨_, hget, canon_union _ _, ?_⟩⟩
      · rw [hget, hs, hvb]
        by_cases hn : nd.store.get k = none
        · rcases hb with hb | ⟨_, rfl⟩
          · rw [hst, hn] at hb; cases hb
          · simp [hn, verTx, join]
        · simp [hn, verTx, join]
      · intro h0
        cases a with
        | nil => exact hane rfl
        | cons x xs =>
          have : x ∈ union (x :: xs) b := (mem_union' _ _ _).2 (Or.inl (List.mem_cons_self ..))
          rw [h0] at this; cases this
    · have hany' : (nodeRep w dst nd src (indexOf ns.store) c1).2.ret.any (fun e => e.key == k) = false := by
        simpa using hany
      obtain ⟨c', hc', hty⟩ := not_fetched_same_type w src dst ns nd c1 hq ok k _ hs hany'
      have hcc : c' = .txs a := by
        rcases tyOf_inj hty with h | ⟨_, _, _, _, _, h⟩
        · exact h
        · cases h
      subst hcc
      simp only [hany', if_false, Bool.false_eq_true, hst, hc'] at hget
      refine ⟨?_, Or.inr ⟨a, hget, hca, hane⟩⟩
      rw [hget, hs, hc']
      simp only [verTx, join]
      rw [union_self_of_canon hca]

/-- **A complete exchange is a join, registers.** -/
theorem exchange_join_reg (w : World) (src dst : Nat) (ns nd : NodeSt) (c1 : List Entry) (cs : List (List Entry))
    (alt : Bool) (k : Nat) (hk : k % 3 = 2) (hq : StaleQuiet nd.fetcher) (ok : AdvOk w src dst ns nd c1)
    (hs : RegKey alt k ns) (hd : RegKey alt k nd) :
    verReg alt ((exchangeAll w src dst ns nd c1 cs).store.get k) =
      join (verReg alt (ns.store.get k)) (verReg alt (nd.store.get k)) ∧
    RegKey alt k (exchangeAll w src dst ns nd c1 cs) := by
  unfold exchangeAll
  have hst := nodeRep_store' w dst nd src (indexOf ns.store) c1
  rcases hs with hs | ⟨a, hs, hca⟩
  · have := fetchAll_untouched w dst ns k _ (nodeRep w dst nd src (indexOf ns.store) c1).1 cs
      (absent_not_fetched w src dst ns nd c1 hq ok k hs)
    rw [hst] at this
    refine ⟨by rw [this, hs]; rfl, ?_⟩
    unfold RegKey
    rw [this]; exact hd
  · by_cases hany : (nodeRep w dst nd src (indexOf ns.store) c1).2.ret.any (fun e => e.key == k) = true
    · rcases hd with hd | ⟨b, hd, hcb⟩
      · have hget := fetchAll_reg_absent w dst ns k alt a hk hs (nodeRep w dst nd src (indexOf ns.store) c1).2.ret
          (nodeRep w dst nd src (indexOf ns.store) c1).1 cs (by rw [hst]; exact hd)
        simp only [hany, if_true] at hget
        refine ⟨?_, Or.inr ⟨_, hget, canon_union _ _⟩⟩
        rw [hget, hs, hd]
        simp [verReg, join]
      · have hget := fetchAll_reg w dst ns k alt a hk hs (nodeRep w dst nd src (indexOf ns.store) c1).2.ret
          (nodeRep w dst nd src (indexOf ns.store) c1).1 cs b hcb (by rw [hst]; exact hd)
        simp only [hany, if_true] at hget
        refine ⟨?_, Or.inr ⟨_, hget, canon_union _ _⟩⟩
        rw [hget, hs, hd]
        simp [verReg, join]
    · have hany' : (nodeRep w dst nd src (indexOf ns.store) c1).2.ret.any (fun e => e.key == k) = false := by
        simpa using hany
      obtain ⟨c', hc', hty⟩ := not_fetched_same_type w src dst ns nd c1 hq ok k _ hs hany'
      have hcc : c' = .reg alt a := by
        rcases tyOf_inj hty with h | ⟨_, _, _, _, _, h⟩
        · exact h
        · cases h
      subst hcc
      have hun : ∀ e ∈ (nodeRep w dst nd src (indexOf ns.store) c1).2.ret, e.key ≠ k := by
        intro e he hek
        have : (nodeRep w dst nd src (indexOf ns.store) c1).2.ret.any (fun e => e.key == k) = true :=
          List.any_eq_true.2 ⟨e, he, by simp [hek]⟩
        rw [this] at hany'; cases hany'
      have hget := fetchAll_untouched w dst ns k _ (nodeRep w dst nd src (indexOf ns.store) c1).1 cs hun
      rw [hst, hc'] at hget
      refine ⟨?_, Or.inr ⟨a, hget, hca⟩⟩
      rw [hget, hs, hc']
      simp only [verReg, join, if_true]
      rw [union_self_of_canon hca]

end SafeNet.Replication

/-! ## chunks: the same exchange, immutable data -/
namespace SafeNet.Replication
open SafeNet.Validate SafeNet.Gen.Validate SafeNet.Gen.Replication
open SafeNet.Fetcher (Entry admits hasKT)
open Abs
set_option linter.unusedSimpArgs false

/-- chunks: after the replies, `k` holds the chunk if it was fetched at all -/
theorem fetchAll_chunk (w : World) (dst : Nat) (ns : NodeSt) (k : Nat) (hk : k % 3 = 0)
    (hs : ns.store.get k = some .chunk) :
    ∀ (es : List Entry) (nd : NodeSt) (cs : List (List Entry)),
      (nd.store.get k = none ∨ nd.store.get k = some .chunk) →
      (fetchAll w dst ns nd es cs).store.get k =
        if es.any (fun e => e.key == k) then some .chunk else nd.store.get k := by
  intro es
  induction es with
  | nil => intro nd cs _; rfl
  | cons e rest ih =>
    intro nd cs hb
    simp only [fetchAll, List.any_cons]
    by_cases hek : e.key = k
    · subst hek
      simp only [serve, hs, beq_self_eq_true, Bool.true_or, if_true]
      have h1 : (nodeRsp w dst nd e.key .chunk (cs.headD [])).1.store.get e.key = some .chunk := by
        rw [nodeRsp_store]
        rcases hb with hb | hb
        · rw [replWrites_chunk_absent nd.store e.key hk hb]; exact get_put_same _ _ _
        · rw [replWrites_chunk_held nd.store e.key _ hk hb]; exact hb
      rw [ih _ _ (Or.inr h1)]
      split
      · rfl
      · exact h1
    · have hne : (e.key == k) = false := by simpa using hek
      simp only [hne, Bool.false_or]
      split
      · rename_i c _
        have h1 : (nodeRsp w dst nd e.key c (cs.headD [])).1.store.get k = nd.store.get k :=
          nodeRsp_other _ _ _ _ _ _ _ (fun hh => hek hh.symm)
        rw [ih _ _ (by rw [h1]; exact hb), h1]
      · exact ih _ _ hb

/-- version of a chunk key: held or not (the content is determined by the key) -/
def verChunk : Option Content → Ver
  | some .chunk => some []
  | _ => none

/-- the key holds nothing or the chunk -/
def ChunkKey (k : Nat) (nd : NodeSt) : Prop := nd.store.get k = none ∨ nd.store.get k = some .chunk

/-- **A complete exchange is a join, chunks**: afterwards the requester holds the chunk iff one of the two did. -/
theorem exchange_join_chunk (w : World) (src dst : Nat) (ns nd : NodeSt) (c1 : List Entry) (cs : List (List Entry))
    (k : Nat) (hk : k % 3 = 0) (hq : StaleQuiet nd.fetcher) (ok : AdvOk w src dst ns nd c1)
    (hs : ChunkKey k ns) (hd : ChunkKey k nd) :
    verChunk ((exchangeAll w src dst ns nd c1 cs).store.get k) =
      join (verChunk (ns.store.get k)) (verChunk (nd.store.get k)) ∧
    ChunkKey k (exchangeAll w src dst ns nd c1 cs) := by
  unfold exchangeAll
  have hst := nodeRep_store' w dst nd src (indexOf ns.store) c1
  rcases hs with hs | hs
  · have := fetchAll_untouched w dst ns k _ (nodeRep w dst nd src (indexOf ns.store) c1).1 cs
      (absent_not_fetched w src dst ns nd c1 hq ok k hs)
    rw [hst] at this
    refine ⟨by rw [this, hs]; rfl, ?_⟩
    unfold ChunkKey
    rw [this]; exact hd
  · have hget := fetchAll_chunk w dst ns k hk hs (nodeRep w dst nd src (indexOf ns.store) c1).2.ret
      (nodeRep w dst nd src (indexOf ns.store) c1).1 cs (by rw [hst]; exact hd)
    by_cases hany : (nodeRep w dst nd src (indexOf ns.store) c1).2.ret.any (fun e => e.key == k) = true
    · simp only [hany, if_true] at hget
      refine ⟨?_, Or.inr hget⟩
      rw [hget, hs]
      rcases hd with hd | hd <;> rw [hd] <;> rfl
    · have hany' : (nodeRep w dst nd src (indexOf ns.store) c1).2.ret.any (fun e => e.key == k) = false := by
        simpa using hany
      obtain ⟨c', hc', hty⟩ := not_fetched_same_type w src dst ns nd c1 hq ok k _ hs hany'
      have hcc : c' = .chunk := by
        rcases tyOf_inj hty with h | ⟨_, _, _, _, _, h⟩
        · exact h
        · cases h
      subst hcc
      simp only [hany', if_false, Bool.false_eq_true, hst, hc'] at hget
      refine ⟨?_, Or.inr hget⟩
      rw [hget, hs, hc']; rfl

end SafeNet.Replication

/-! ## the fetcher after an exchange, and rounds of exchanges -/
namespace SafeNet.Replication
open SafeNet.Validate SafeNet.Gen.Validate SafeNet.Gen.Replication
open SafeNet.Fetcher (Entry admits hasKT)
open Abs
set_option linter.unusedSimpArgs false

/-- nothing queued, no restriction, clock `n0`, every in-flight entry satisfies `Q` -/
def FetcherShape (n0 : Nat) (Q : Entry → Prop) (f : Fetcher.State) : Prop :=
  f.tbf = [] ∧ f.farthest = none ∧ f.now = n0 ∧ ∀ e ∈ f.ogf, Q e

theorem earlyDone_shape (dist : Nat → Nat) (f : Fetcher.State) (k t : Nat) (ch : List Entry) (n0 : Nat)
    (Q : Entry → Prop) (h : FetcherShape n0 Q f) : FetcherShape n0 Q (Fetcher.earlyDone dist f k t ch).1 := by
  obtain ⟨ht, hf, hn, hq⟩ := h
  let s0 : Fetcher.State := { f with tbf := f.tbf.filter (fun e => !Fetcher.sameKT k t e),
                                     ogf := f.ogf.filter (fun e => !Fetcher.sameKT k t e) }
  have ht0 : s0.tbf = [] := by simp [s0, ht]
  obtain ⟨_, g2, g3⟩ := nextKeys_tbf_nil dist s0 ch ht0
  have gf := SafeNet.Fetcher.nextKeys_fields dist s0 ch
  have hnp : Fetcher.earlyDone dist f k t ch = Fetcher.nextKeys dist s0 ch := rfl
  rw [hnp]
  refine ⟨g2, by rw [gf.2.1]; exact hf, by rw [gf.2.2.1]; exact hn, ?_⟩
  intro e he
  rw [g3] at he
  have := (SafeNet.Fetcher.pOgf_sub s0).subset he
  exact hq e (List.mem_filter.1 this).1

theorem newPut_shape (dist : Nat → Nat) (f : Fetcher.State) (k t : Nat) (ch : List Entry) (n0 : Nat)
    (Q : Entry → Prop) (h : FetcherShape n0 Q f) : FetcherShape n0 Q (Fetcher.newPut dist f k t ch).1 := by
  obtain ⟨ht, hf, hn, hq⟩ := h
  let s0 : Fetcher.State := { f with tbf := f.tbf.filter (fun e => !Fetcher.sameKT k t e),
                                     ogf := f.ogf.filter (fun e => !(e.key == k)) }
  have ht0 : s0.tbf = [] := by simp [s0, ht]
  obtain ⟨_, g2, g3⟩ := nextKeys_tbf_nil dist s0 ch ht0
  have gf := SafeNet.Fetcher.nextKeys_fields dist s0 ch
  have hnp : Fetcher.newPut dist f k t ch = Fetcher.nextKeys dist s0 ch := rfl
  rw [hnp]
  refine ⟨g2, by rw [gf.2.1]; exact hf, by rw [gf.2.2.1]; exact hn, ?_⟩
  intro e he
  rw [g3] at he
  have := (SafeNet.Fetcher.pOgf_sub s0).subset he
  exact hq e (List.mem_filter.1 this).1

theorem putLocal_shape (w : World) (i : Nat) (nd : NodeSt) (k : Nat) (c : Content) (ch : List Entry) (n0 : Nat)
    (Q : Entry → Prop) (h : FetcherShape n0 Q nd.fetcher) : FetcherShape n0 Q (putLocal w i nd k c ch).1.fetcher := by
  have := newPut_shape (w.kdist i) nd.fetcher k (tyOf c) ch n0 Q h
  simp only [putLocal]
  cases nd.range <;> exact this

theorem nodeRsp_shape (w : World) (i : Nat) (nd : NodeSt) (key : Nat) (c : Content) (ch : List Entry) (n0 : Nat)
    (Q : Entry → Prop) (h : FetcherShape n0 Q nd.fetcher) : FetcherShape n0 Q (nodeRsp w i nd key c ch).1.fetcher := by
  unfold nodeRsp nodeRspWith
  simp only []
  split
  · split
    · exact earlyDone_shape _ _ _ _ _ _ _ h
    · exact h
  · split
    · rename_i k' c' _ _ _
      have := earlyDone_shape (w.kdist i) _ key (tyOf c) (choiceDone ch) n0 Q
        (newPut_shape (w.kdist i) nd.fetcher k' (tyOf c') (choicePut ch) n0 Q h)
      cases nd.range <;> exact this
    · exact putLocal_shape w i nd _ _ _ n0 Q h

theorem fetchAll_shape (w : World) (dst : Nat) (ns : NodeSt) (n0 : Nat) (Q : Entry → Prop) :
    ∀ (es : List Entry) (nd : NodeSt) (cs : List (List Entry)), FetcherShape n0 Q nd.fetcher →
      FetcherShape n0 Q (fetchAll w dst ns nd es cs).fetcher := by
  intro es
  induction es with
  | nil => intro nd cs h; exact h
  | cons e rest ih =>
    intro nd cs h
    simp only [fetchAll]
    split
    · exact ih _ _ (nodeRsp_shape w dst nd e.key _ _ n0 Q h)
    · exact ih _ _ h

/-- simulated time passes at a node -/
def tickNode (nd : NodeSt) (d : Nat) : NodeSt := { nd with fetcher := { nd.fetcher with now := nd.fetcher.now + d } }

/-- **The quiet fetcher is re-established**: after a complete exchange followed by at least FETCH_TIMEOUT of time, the
requester's fetcher is `StaleQuiet` again (what is left in flight — fetches that merged to nothing — has timed out). -/
theorem exchange_then_tick_staleQuiet (w : World) (src dst : Nat) (ns nd : NodeSt) (c1 : List Entry)
    (cs : List (List Entry)) (d : Nat) (hq : StaleQuiet nd.fetcher) (ok : AdvOk w src dst ns nd c1)
    (hd : SafeNet.Gen.Fetcher.fetchTimeout ≤ d) :
    StaleQuiet (tickNode (exchangeAll w src dst ns nd c1 cs) d).fetcher := by
  have hleg := ok.legal
  rw [nodeRep_eq w dst nd src _ c1 ok.heard] at hleg
  have hc := adv_complete (w.kdist dst) nd.fetcher src (indexOf ns.store) (indexOf nd.store) c1 hq ok.noStaleFrom
    ok.noStaleVersion ok.room ok.inRange hleg
  simp only at hc
  obtain ⟨h1, h2, h3, h4, _, _, h7⟩ := hc
  have hshape0 : FetcherShape nd.fetcher.now (fun e => e.deadline = nd.fetcher.now + SafeNet.Gen.Fetcher.fetchTimeout)
      (nodeRep w dst nd src (indexOf ns.store) c1).1.fetcher := by
    rw [nodeRep_eq w dst nd src _ c1 ok.heard]
    refine ⟨h1, h3, h4, ?_⟩
    intro e he
    have he' : e ∈ (Fetcher.addKeys (w.kdist dst) nd.fetcher src (indexOf ns.store) (indexOf nd.store) c1).1.ogf := he
    rw [h2] at he'
    exact (h7 e he').2.1
  obtain ⟨g1, g2, g3, g4⟩ := fetchAll_shape w dst ns _ _ (nodeRep w dst nd src (indexOf ns.store) c1).2.ret _ cs hshape0
  refine ⟨g1, g2, ?_⟩
  intro e he
  have := g4 e he
  show e.deadline ≤ (exchangeAll w src dst ns nd c1 cs).fetcher.now + d
  have hn : (exchangeAll w src dst ns nd c1 cs).fetcher.now = nd.fetcher.now := g3
  rw [hn, this]
  omega

/-- **The F-g side effect, modelled.** If a timed-out fetch from `src` is still registered at `dst` and the advertisement
has several (or no) new keys, the advertisement is void — nothing is scheduled, `src` is reported as failed — but it
leaves the fetcher completely quiet, so the next advertisement from `src` meets `noStaleFrom` / `noStaleVersion`. -/
theorem void_exchange_quiets (w : World) (src dst : Nat) (ns nd : NodeSt) (c1 : List Entry)
    (hq : StaleQuiet nd.fetcher) (hh : heard w dst src = true)
    (hstale : ∃ e ∈ nd.fetcher.ogf, e.holder = src ∧ Fetcher.heldSame (indexOf nd.store) e = false)
    (hmulti : ((indexOf ns.store).filter (admits (w.kdist dst) nd.fetcher (indexOf nd.store) src)).length ≠ 1) :
    (nodeRep w dst nd src (indexOf ns.store) c1).2.ret = [] ∧ src ∈ (nodeRep w dst nd src (indexOf ns.store) c1).2.failed ∧
    (nodeRep w dst nd src (indexOf ns.store) c1).1.store = nd.store ∧
    (nodeRep w dst nd src (indexOf ns.store) c1).1.fetcher.tbf = [] ∧
    (nodeRep w dst nd src (indexOf ns.store) c1).1.fetcher.ogf = [] := by
  rw [nodeRep_eq w dst nd src _ c1 hh]
  simp only
  obtain ⟨ht, hf, hexp⟩ := hq
  obtain ⟨X, hst, hret, _⟩ := addKeys_shape' (w.kdist dst) nd.fetcher src (indexOf ns.store) (indexOf nd.store) c1
  have hfail : (Fetcher.addKeys (w.kdist dst) nd.fetcher src (indexOf ns.store) (indexOf nd.store) c1).2.failed =
      (Fetcher.nextKeys (w.kdist dst) (Fetcher.addCore (w.kdist dst) nd.fetcher src (indexOf ns.store) (indexOf nd.store)).1 X).2.failed := by
    obtain ⟨X', ill, hx⟩ := SafeNet.Fetcher.addKeys_shape (w.kdist dst) nd.fetcher src (indexOf ns.store) (indexOf nd.store) c1
    rw [hx]
    have e1 : (Fetcher.nextKeys (w.kdist dst) (Fetcher.addCore (w.kdist dst) nd.fetcher src (indexOf ns.store) (indexOf nd.store)).1 X').2.failed
        = SafeNet.Fetcher.failedOf (Fetcher.addCore (w.kdist dst) nd.fetcher src (indexOf ns.store) (indexOf nd.store)).1 :=
      (SafeNet.Fetcher.nextKeys_fields _ _ _).2.2.2
    have e2 := (SafeNet.Fetcher.nextKeys_fields (w.kdist dst) (Fetcher.addCore (w.kdist dst) nd.fetcher src (indexOf ns.store) (indexOf nd.store)).1 X).2.2.2
    rw [e1, e2]
  rcases SafeNet.Fetcher.addCore_cases (w.kdist dst) nd.fetcher src (indexOf ns.store) (indexOf nd.store) with
    ⟨p, hp, _, _⟩ | ⟨p, hp, _, _⟩ | ⟨_, hc⟩
  · exact absurd (by rw [show (indexOf ns.store).filter _ = [p] from hp]; rfl) hmulti
  · exact absurd (by rw [show (indexOf ns.store).filter _ = [p] from hp]; rfl) hmulti
  · have htbf2 : SafeNet.Fetcher.tbf2 nd.fetcher (indexOf nd.store) = [] := by
      simp [SafeNet.Fetcher.tbf2, SafeNet.Fetcher.tbf1, ht]
    have hholder : ∀ e ∈ (Fetcher.addCore (w.kdist dst) nd.fetcher src (indexOf ns.store) (indexOf nd.store)).1.tbf, e.holder = src := by
      intro e he
      rw [hc, htbf2] at he
      rcases SafeNet.Fetcher.mem_insertPending he with h1 | ⟨q, _, rfl⟩
      · cases h1
      · rfl
    obtain ⟨e0, he0, heh, hes⟩ := hstale
    have hfailed : src ∈ SafeNet.Fetcher.failedOf (Fetcher.addCore (w.kdist dst) nd.fetcher src (indexOf ns.store) (indexOf nd.store)).1 := by
      have := SafeNet.Fetcher.mem_failedOf
        (s := (Fetcher.addCore (w.kdist dst) nd.fetcher src (indexOf ns.store) (indexOf nd.store)).1) (o := e0)
        (by rw [hc]; exact List.mem_filter.2 ⟨he0, by simp [hes]⟩) (by rw [hc]; exact hexp e0 he0)
      rw [heh] at this
      exact this
    have hp : SafeNet.Fetcher.pTbf (Fetcher.addCore (w.kdist dst) nd.fetcher src (indexOf ns.store) (indexOf nd.store)).1 = [] := by
      apply List.filter_eq_nil_iff.2
      intro e he
      simp [hholder e he, hfailed]
    have hret0 : (Fetcher.nextKeys (w.kdist dst) (Fetcher.addCore (w.kdist dst) nd.fetcher src (indexOf ns.store) (indexOf nd.store)).1 X).2.ret = [] := by
      apply List.eq_nil_iff_forall_not_mem.2
      intro e he
      obtain ⟨⟨x, hx, _⟩, _⟩ := SafeNet.Fetcher.nextKeys_ret_origin (w.kdist dst) he
      rw [hp] at hx; cases hx
    have hpo : SafeNet.Fetcher.pOgf (Fetcher.addCore (w.kdist dst) nd.fetcher src (indexOf ns.store) (indexOf nd.store)).1 = [] := by
      apply pOgf_nil_of_expired
      intro e he
      rw [hc] at he ⊢
      exact hexp e (List.mem_filter.1 he).1
    have hfast : (Fetcher.addCore (w.kdist dst) nd.fetcher src (indexOf ns.store) (indexOf nd.store)).2 = [] := by rw [hc]
    refine ⟨?_, ?_, trivial, ?_, ?_⟩
    · rw [hret, hret0, hfast]; rfl
    · rw [hfail, (SafeNet.Fetcher.nextKeys_fields _ _ _).2.2.2]; exact hfailed
    · show (Fetcher.addKeys (w.kdist dst) nd.fetcher src (indexOf ns.store) (indexOf nd.store) c1).1.tbf = []
      rw [hst]
      have := SafeNet.Fetcher.nextKeys_tbf_sub (w.kdist dst) (Fetcher.addCore (w.kdist dst) nd.fetcher src (indexOf ns.store) (indexOf nd.store)).1 X
      rw [hp] at this
      exact List.eq_nil_of_sublist_nil this
    · show (Fetcher.addKeys (w.kdist dst) nd.fetcher src (indexOf ns.store) (indexOf nd.store) c1).1.ogf = []
      rw [hst, SafeNet.Fetcher.nextKeys_ogf_eq, hpo, hret0]; rfl

/-! ### schedules of exchanges over `n` nodes -/

structure Xch where
  src : Nat
  dst : Nat
  c1 : List Entry
  cs : List (List Entry)
  /-- time that passes at `dst` after the exchange, before anything else reaches it -/
  tick : Nat

def stepX (w : World) (nodes : Nat → NodeSt) (x : Xch) : Nat → NodeSt :=
  fun i => if i = x.dst then tickNode (exchangeAll w x.src x.dst (nodes x.src) (nodes x.dst) x.c1 x.cs) x.tick else nodes i

def runXs (w : World) (nodes : Nat → NodeSt) (xs : List Xch) : Nat → NodeSt := xs.foldl (stepX w) nodes

/-- **FairRound hypotheses**, checked at the state each exchange meets: the advertisement is taken up completely
(`AdvOk`: heard, legal choice witness, room below MAX_PARALLEL_FETCH, keys within the range, no timed-out fetch from the
advertiser / of an advertised version still registered), every scheduled fetch is served and its reply processed
(`exchangeAll`), and at least FETCH_TIMEOUT passes at the requester before the next advertisement reaches it. -/
def Valid (w : World) : (Nat → NodeSt) → List Xch → Prop
  | _, [] => True
  | nodes, x :: xs =>
    AdvOk w x.src x.dst (nodes x.src) (nodes x.dst) x.c1 ∧ SafeNet.Gen.Fetcher.fetchTimeout ≤ x.tick ∧
      Valid w (stepX w nodes x) xs

/-- generic refinement: if one complete exchange acts on the key's version as a join, a valid schedule acts as the
abstract schedule -/
theorem runXs_refines (w : World) (k : Nat) (ver : Option Content → Ver) (KeyOk : NodeSt → Prop)
    (hext : ∀ nd d, KeyOk nd → KeyOk (tickNode nd d))
    (hjoin : ∀ src dst ns nd c1 cs, StaleQuiet nd.fetcher → AdvOk w src dst ns nd c1 → KeyOk ns → KeyOk nd →
      ver ((exchangeAll w src dst ns nd c1 cs).store.get k) = join (ver (ns.store.get k)) (ver (nd.store.get k)) ∧
      KeyOk (exchangeAll w src dst ns nd c1 cs)) :
    ∀ (xs : List Xch) (nodes : Nat → NodeSt), (∀ i, StaleQuiet (nodes i).fetcher) → (∀ i, KeyOk (nodes i)) →
      Valid w nodes xs →
      (∀ i, ver ((runXs w nodes xs i).store.get k) =
        runX (fun j => ver ((nodes j).store.get k)) (xs.map (fun x => (x.src, x.dst))) i) ∧
      (∀ i, KeyOk (runXs w nodes xs i)) ∧ (∀ i, StaleQuiet (runXs w nodes xs i).fetcher) := by
  intro xs
  induction xs with
  | nil => intro nodes hq hk _; exact ⟨fun _ => rfl, hk, hq⟩
  | cons x rest ih =>
    intro nodes hq hk hv
    obtain ⟨ok, htick, hrest⟩ := hv
    obtain ⟨hj, hko⟩ := hjoin x.src x.dst (nodes x.src) (nodes x.dst) x.c1 x.cs (hq x.dst) ok (hk x.src) (hk x.dst)
    have hq' : ∀ i, StaleQuiet (stepX w nodes x i).fetcher := by
      intro i
      unfold stepX
      split
      · exact exchange_then_tick_staleQuiet w x.src x.dst _ _ x.c1 x.cs x.tick (hq x.dst) ok htick
      · exact hq i
    have hk' : ∀ i, KeyOk (stepX w nodes x i) := by
      intro i
      unfold stepX
      split
      · exact hext _ _ hko
      · exact hk i
    obtain ⟨r1, r2, r3⟩ := ih (stepX w nodes x) hq' hk' hrest
    refine ⟨?_, r2, r3⟩
    intro i
    have := r1 i
    simp only [runXs, List.foldl_cons, List.map_cons, runX] at this ⊢
    rw [this]
    have hfun : (fun j => ver ((stepX w nodes x j).store.get k)) =
        xch (fun j => ver ((nodes j).store.get k)) (x.src, x.dst) := by
      funext j
      unfold stepX xch
      simp only
      split
      · exact hj
      · rfl
    rw [hfun]

end SafeNet.Replication
