import SafeNet.Proofs.Store
/-!
`Views`: the three views of the held set (`records`, `records_by_distance`, `farthest_record`) agree.
Preserved by every step when `dist` is injective on keys (SHA-256, stated assumption).
-/
namespace SafeNet.Store

def Injective (dist : Nat → Nat) : Prop := ∀ a b, dist a = dist b → a = b

theorem refuses_iff {fd dk : Nat} : refuses fd dk = true ↔ fd < dk := by
  simp [refuses, show Gen.Store.pruneRefuseStrict = true from rfl]

theorem farther_iff {fd dk : Nat} : farther fd dk = true ↔ fd < dk := by
  simp [farther, show Gen.Store.farthestUpdateStrict = true from rfl]

theorem within_iff {d r : Nat} : within d r = true ↔ d < r := by
  simp [within, show Gen.Store.withinRangeExclusive = true from rfl]

theorem beyond_iff {d r : Nat} : beyond d r = true ↔ r ≤ d := by
  simp [beyond, show Gen.Store.cleanupFromInclusive = true from rfl]

/-- `far` is the arg-max of `dist` over the keys of `idx` -/
def FarOK (dist : Nat → Nat) (idx : List (Nat × RType)) : Option (Nat × Nat) → Prop
  | none => idx = []
  | some (f, fd) => f ∈ keys idx ∧ fd = dist f ∧ ∀ k ∈ keys idx, dist k ≤ fd

theorem calcFarthest_ok (dist : Nat → Nat) (idx : List (Nat × RType)) : FarOK dist idx (calcFarthest dist idx) := by
  induction idx with
  | nil => simp [calcFarthest, FarOK]
  | cons x xs ih =>
    obtain ⟨k, rt⟩ := x
    simp only [calcFarthest]
    cases hc : calcFarthest dist xs with
    | none =>
      rw [hc] at ih
      simp only [FarOK] at ih
      subst ih
      simp [FarOK, keys]
    | some p =>
      obtain ⟨f, fd⟩ := p
      rw [hc] at ih
      simp only [FarOK] at ih
      obtain ⟨hf, hfd, hmax⟩ := ih
      simp only
      split
      · rename_i hlt
        refine ⟨by simp [keys], rfl, ?_⟩
        intro k' hk'
        simp only [keys, List.map_cons, List.mem_cons] at hk'
        rcases hk' with rfl | hk'
        · exact Nat.le_refl _
        · have := hmax k' hk'; omega
      · rename_i hge
        refine ⟨by simp only [keys, List.map_cons, List.mem_cons]; exact .inr hf, hfd, ?_⟩
        intro k' hk'
        simp only [keys, List.map_cons, List.mem_cons] at hk'
        rcases hk' with rfl | hk'
        · omega
        · exact hmax k' hk'

structure Views (dist : Nat → Nat) (s : St) : Prop where
  perm : (s.byDist.map (·.2)).Perm (keys s.index)
  dOK : ∀ e ∈ s.byDist, e.1 = dist e.2
  nodup : (keys s.index).Nodup
  far : FarOK dist s.index s.farthest
  diskNodup : (keys s.disk).Nodup

/-- erasing distance `dist k` from the distance index is erasing key `k` -/
theorem byDist_erase {dist : Nat → Nat} (inj : Injective dist) {b : List (Nat × Nat)}
    (dOK : ∀ e ∈ b, e.1 = dist e.2) (k : Nat) :
    (erase (dist k) b).map (·.2) = (b.map (·.2)).filter (· != k) := by
  rw [List.filter_map]
  congr 1
  simp only [erase]
  apply List.filter_congr
  intro e he
  show (e.1 != dist k) = (e.2 != k)
  rw [dOK e he]
  by_cases h : e.2 = k
  · rw [h]; simp
  · have : dist e.2 ≠ dist k := fun hh => h (inj _ _ hh)
    rw [bne_iff_ne.mpr this, bne_iff_ne.mpr h]

theorem Views.removeKey {dist : Nat → Nat} (inj : Injective dist) {s : St} (h : Views dist s) (k : Nat) :
    Views dist (removeKey dist s k) := by
  have hidx : (keys (erase k s.index)) = (keys s.index).filter (· != k) := keys_erase k s.index
  refine ⟨?_, ?_, ?_, ?_, h.diskNodup⟩
  · -- perm
    simp only [SafeNet.Store.removeKey]
    cases hl : lookup k s.index with
    | some rt =>
      simp only
      rw [byDist_erase inj h.dOK, hidx]
      exact h.perm.filter _
    | none =>
      simp only
      rw [erase_of_not_mem (lookup_none_iff.mp hl)]
      exact h.perm
  · intro e he
    simp only [SafeNet.Store.removeKey] at he
    cases hl : lookup k s.index with
    | some rt => rw [hl] at he; exact h.dOK e (mem_erase.mp he).1
    | none => rw [hl] at he; exact h.dOK e he
  · exact nodup_keys_erase h.nodup
  · simp only [SafeNet.Store.removeKey]
    have hfar := h.far
    cases hf : s.farthest with
    | none =>
      rw [hf] at hfar
      simp only [FarOK] at hfar
      simp [FarOK, hfar, erase]
    | some p =>
      obtain ⟨f, fd⟩ := p
      rw [hf] at hfar
      simp only [FarOK] at hfar
      simp only
      split
      · exact calcFarthest_ok dist _
      · rename_i hne
        obtain ⟨hfm, hfd, hmax⟩ := hfar
        refine ⟨?_, hfd, ?_⟩
        · rw [hidx, List.mem_filter]; exact ⟨hfm, by simp [hne]⟩
        · intro k' hk'
          rw [hidx, List.mem_filter] at hk'
          exact hmax k' hk'.1

theorem Views.foldl_removeKey {dist : Nat → Nat} (inj : Injective dist) (ks : List Nat) {s : St} (h : Views dist s) :
    Views dist (ks.foldl (SafeNet.Store.removeKey dist) s) := by
  induction ks generalizing s with
  | nil => exact h
  | cons k ks ih => exact ih (h.removeKey inj k)

theorem Views.markAsStored {dist : Nat → Nat} (inj : Injective dist) {s : St} (h : Views dist s) (k : Nat) (rt : RType) :
    Views dist (markAsStored dist s k rt) := by
  refine ⟨?_, ?_, nodup_keys_insert h.nodup, ?_, h.diskNodup⟩
  · simp only [SafeNet.Store.markAsStored, insert, List.map_cons]
    show (k :: (erase (dist k) s.byDist).map (·.2)).Perm (keys ((k, rt) :: erase k s.index))
    simp only [keys, List.map_cons]
    apply List.Perm.cons
    rw [byDist_erase inj h.dOK]
    have := keys_erase k s.index
    simp only [keys] at this
    rw [this]
    exact h.perm.filter _
  · intro e he
    simp only [SafeNet.Store.markAsStored] at he
    rcases mem_insert.mp he with rfl | he
    · rfl
    · exact h.dOK e he.1
  · simp only [SafeNet.Store.markAsStored]
    have hk : keys (insert k rt s.index) = k :: (keys s.index).filter (· != k) := keys_insert k rt s.index
    have hfar := h.far
    cases hf : s.farthest with
    | none =>
      rw [hf] at hfar
      simp only [FarOK] at hfar
      rw [hfar]
      simp [FarOK, insert, erase, keys]
    | some p =>
      obtain ⟨f, fd⟩ := p
      rw [hf] at hfar
      simp only [FarOK] at hfar
      obtain ⟨hfm, hfd, hmax⟩ := hfar
      simp only
      split
      · rename_i hlt
        rw [farther_iff] at hlt
        refine ⟨by rw [hk]; simp, rfl, ?_⟩
        intro k' hk'
        rw [hk] at hk'
        rcases List.mem_cons.mp hk' with rfl | hk'
        · exact Nat.le_refl _
        · have := hmax k' (List.mem_filter.mp hk').1; omega
      · rename_i hge
        rw [farther_iff] at hge
        refine ⟨?_, hfd, ?_⟩
        · rw [hk]
          by_cases e : f = k
          · simp [e]
          · exact List.mem_cons_of_mem _ (List.mem_filter.mpr ⟨hfm, by simp [e]⟩)
        · intro k' hk'
          rw [hk] at hk'
          rcases List.mem_cons.mp hk' with rfl | hk'
          · omega
          · exact hmax k' (List.mem_filter.mp hk').1

/-- anything that leaves the three index fields and the files alone preserves `Views` -/
theorem Views.congr {dist : Nat → Nat} {s s' : St} (h : Views dist s) (h1 : s'.index = s.index)
    (h2 : s'.byDist = s.byDist) (h3 : s'.farthest = s.farthest) (h4 : s'.disk = s.disk) : Views dist s' :=
  ⟨by rw [h1, h2]; exact h.perm, by rw [h2]; exact h.dOK, by rw [h1]; exact h.nodup,
   by rw [h1, h3]; exact h.far, by rw [h4]; exact h.diskNodup⟩

theorem prune_views {cfg : Cfg} {dist : Nat → Nat} (inj : Injective dist) {s s2 : St} (h : Views dist s) {k : Nat}
    (hp : prune cfg dist s k = some s2) : Views dist s2 := by
  unfold prune at hp
  split at hp
  · cases hp; exact h
  · split at hp
    · cases hp; exact h
    · split at hp
      · cases hp
      · cases hp; exact h.removeKey inj _

theorem Views.putVerified {cfg : Cfg} {dist : Nat → Nat} (inj : Injective dist) {s : St} (h : Views dist s)
    (k v : Nat) (rt : RType) : Views dist (putVerified cfg dist s k v rt).1 := by
  unfold SafeNet.Store.putVerified
  split
  · exact h.congr rfl rfl rfl rfl
  · have h1 : Views dist { s with cache := pushBack cfg.cacheSize (erase k s.cache) s.clock k v, clock := s.clock + 1 } :=
      h.congr rfl rfl rfl rfl
    simp only
    split
    · exact h1.congr rfl rfl rfl rfl
    · rename_i s2 hs2
      exact (prune_views inj h1 hs2).congr rfl rfl rfl rfl

theorem Views.runTask {dist : Nat → Nat} {s : St} (h : Views dist s) (id : Nat) : Views dist (runTask s id).1 := by
  unfold SafeNet.Store.runTask
  split
  · exact h
  · rename_i t ht
    split
    · cases t with
      | write k v rt => exact ⟨h.perm, h.dOK, h.nodup, h.far, nodup_keys_insert h.diskNodup⟩
      | delete k => exact ⟨h.perm, h.dOK, h.nodup, h.far, nodup_keys_erase h.diskNodup⟩
      | flush n => exact h.congr rfl rfl rfl rfl
    · exact h

theorem Views.deliver {dist : Nat → Nat} (inj : Injective dist) {s : St} (h : Views dist s) (id : Nat) :
    Views dist (deliver dist s id).1 := by
  unfold SafeNet.Store.deliver
  split
  · exact h
  · split
    · exact Views.markAsStored inj (Views.congr (s' := { s with notes := erase id s.notes }) h rfl rfl rfl rfl) _ _
    · exact h

theorem Views.cleanup {cfg : Cfg} {dist : Nat → Nat} (inj : Injective dist) {s : St} (h : Views dist s) :
    Views dist (cleanup cfg dist s) := by
  unfold SafeNet.Store.cleanup
  split
  · exact h
  · split
    · exact h
    · exact Views.foldl_removeKey inj _ h

/-! ### restart -/

theorem keys_scanIndex_sublist (cfg : Cfg) (disk : List (Nat × File)) :
    (keys (scanIndex cfg disk)).Sublist (keys disk) := by
  induction disk with
  | nil => simp [scanIndex, keys]
  | cons x xs ih =>
    obtain ⟨k, f⟩ := x
    simp only [scanIndex]
    split
    · simp only [keys, List.map_cons]; exact ih.cons_cons _
    · simp only [keys, List.map_cons]; exact ih.cons _

theorem restart_byDist {dist : Nat → Nat} (inj : Injective dist) (idx : List (Nat × RType)) (hn : (keys idx).Nodup) :
    let b := idx.foldr (fun e acc => insert (dist e.1) e.1 acc) []
    (b.map (·.2)).Perm (keys idx) ∧ ∀ e ∈ b, e.1 = dist e.2 := by
  induction idx with
  | nil => simp [keys]
  | cons x xs ih =>
    obtain ⟨k, rt⟩ := x
    simp only [keys, List.map_cons, List.nodup_cons] at hn
    obtain ⟨ihp, ihd⟩ := ih hn.2
    simp only [List.foldr_cons]
    constructor
    · have hins : ∀ b : List (Nat × Nat), (insert (dist k) k b).map (·.2) = k :: (erase (dist k) b).map (·.2) :=
        fun b => rfl
      rw [hins]
      show (k :: _).Perm (k :: keys xs)
      apply List.Perm.cons
      rw [byDist_erase inj ihd]
      have hk : k ∉ (xs.foldr (fun e acc => insert (dist e.1) e.1 acc) []).map (·.2) := by
        intro hm; exact hn.1 (ihp.mem_iff.mp hm)
      rw [List.filter_eq_self.mpr]
      · exact ihp
      · intro a ha
        simp only [bne_iff_ne, ne_eq]
        intro e; subst e; exact hk ha
    · intro e he
      rcases mem_insert.mp he with rfl | he
      · rfl
      · exact ihd e he.1

theorem nodup_crashDisk {s : St} (h : (keys s.disk).Nodup) (torn : List (Nat × Nat)) :
    (keys (crashDisk s torn)).Nodup := by
  unfold crashDisk
  have : ∀ (d : List (Nat × File)), (keys d).Nodup →
      (keys (torn.foldl (fun d t =>
        match lookup t.1 s.tasks with
        | some (.write k v _) => insert k (.torn v t.2) d
        | _ => d) d)).Nodup := by
    induction torn with
    | nil => intro d hd; exact hd
    | cons t ts ih =>
      intro d hd
      simp only [List.foldl_cons]
      apply ih
      split
      · exact nodup_keys_insert hd
      · exact hd
  exact this s.disk h

theorem Views.restart {cfg : Cfg} {dist : Nat → Nat} (inj : Injective dist) {disk : List (Nat × File)}
    (hd : (keys disk).Nodup) (hist : Option Nat) (n : Nat) : Views dist (restart cfg dist disk hist n) := by
  have hn : (keys (scanIndex cfg disk)).Nodup := (keys_scanIndex_sublist _ _).nodup hd
  obtain ⟨hp, hdk⟩ := restart_byDist inj _ hn
  refine ⟨hp, hdk, hn, calcFarthest_ok dist _, ?_⟩
  simp only [SafeNet.Store.restart]
  have : (keys (disk.filter (fun e => (scanEntry cfg e.1 e.2).isSome || !nameKept e.1))).Sublist (keys disk) := by
    simp only [keys]; exact (List.filter_sublist).map _
  exact this.nodup hd

theorem Views.step {cfg : Cfg} {dist : Nat → Nat} (inj : Injective dist) {s : St} (h : Views dist s) (op : Op) :
    Views dist (step cfg dist s op).1 := by
  cases op with
  | put k v rt => exact h.putVerified inj k v rt
  | remove k => exact h.removeKey inj k
  | run id => exact h.runTask id
  | deliver id => exact h.deliver inj id
  | setRange r => exact h.congr rfl rfl rfl rfl
  | cleanup => exact h.cleanup inj
  | payment => exact h.congr rfl rfl rfl rfl
  | crash torn =>
    simp only [SafeNet.Store.step]
    split
    · exact Views.restart inj (nodup_crashDisk h.diskNodup torn) _ _
    · exact h

theorem Views.runFrom {cfg : Cfg} {dist : Nat → Nat} (inj : Injective dist) (ops : List Op) {s : St} (h : Views dist s) :
    Views dist (runFrom cfg dist s ops) := by
  induction ops generalizing s with
  | nil => exact h
  | cons op ops ih => exact ih (h.step inj op)

theorem Views.init (cfg : Cfg) {dist : Nat → Nat} (inj : Injective dist) : Views dist (init cfg dist) :=
  Views.restart inj (by simp [keys]) _ _

theorem Views.run (cfg : Cfg) {dist : Nat → Nat} (inj : Injective dist) (ops : List Op) : Views dist (run cfg dist ops) :=
  Views.runFrom inj ops (Views.init cfg inj)

/-! ### counting through the distance index -/

theorem Views.count_byDist {dist : Nat → Nat} {s : St} (h : Views dist s) (p : Nat → Bool) :
    (s.byDist.filter (fun e => p e.1)).length = (s.index.filter (fun e => p (dist e.1))).length := by
  have h1 : s.byDist.filter (fun e => p e.1) = s.byDist.filter (fun e => p (dist e.2)) := by
    apply List.filter_congr
    intro e he
    rw [h.dOK e he]
  rw [h1]
  have h2 : (s.byDist.filter (fun e => p (dist e.2))).length = ((s.byDist.map (·.2)).filter (fun k => p (dist k))).length := by
    rw [List.filter_map, List.length_map]; rfl
  have h3 : (s.index.filter (fun e => p (dist e.1))).length = ((keys s.index).filter (fun k => p (dist k))).length := by
    simp only [keys]
    rw [List.filter_map, List.length_map]; rfl
  rw [h2, h3]
  exact (h.perm.filter _).length_eq

end SafeNet.Store
