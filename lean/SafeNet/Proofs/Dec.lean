import SafeNet.Base.Dec
namespace SafeNet.Dec

theorem foldl_acc (b : List Nat) (acc : Nat) :
    b.foldl (fun a d => a * 10 + d) acc = acc * 10 ^ b.length + b.foldl (fun a d => a * 10 + d) 0 := by
  induction b generalizing acc with
  | nil => simp
  | cons d b ih =>
    simp only [List.foldl_cons, List.length_cons]
    rw [ih, ih (0 * 10 + d), Nat.pow_succ]
    simp [Nat.add_mul, Nat.mul_assoc, Nat.add_assoc, Nat.mul_comm 10]

theorem ofDigits_nil : ofDigits [] = 0 := rfl

theorem ofDigits_cons (d : Nat) (ds : List Nat) :
    ofDigits (d :: ds) = d * 10 ^ ds.length + ofDigits ds := by
  unfold ofDigits
  simp only [List.foldl_cons]
  rw [foldl_acc]; simp

theorem ofDigits_append (a b : List Nat) :
    ofDigits (a ++ b) = ofDigits a * 10 ^ b.length + ofDigits b := by
  unfold ofDigits
  rw [List.foldl_append, foldl_acc]

theorem ofDigits_replicate_zero (k : Nat) : ofDigits (List.replicate k 0) = 0 := by
  induction k with
  | zero => rfl
  | succ k ih => rw [List.replicate_succ, ofDigits_cons, ih]; simp

theorem ofDigits_padLeft (w : Nat) (ds : List Nat) : ofDigits (padLeft w ds) = ofDigits ds := by
  unfold padLeft
  rw [ofDigits_append, ofDigits_replicate_zero]; simp

theorem ofDigits_reverse_digitsLE (n : Nat) : ofDigits (digitsLE n).reverse = n := by
  induction n using Nat.strongRecOn with
  | _ n ih =>
    cases n with
    | zero => simp [digitsLE, ofDigits]
    | succ m =>
      rw [digitsLE, List.reverse_cons, ofDigits_append, ih ((m+1)/10) (by omega)]
      simp [ofDigits]
      omega

theorem ofDigits_toDigits (n : Nat) : ofDigits (toDigits n) = n := by
  unfold toDigits
  split
  · subst_vars; rfl
  · exact ofDigits_reverse_digitsLE n

theorem digitsLE_lt (n : Nat) : ∀ d ∈ digitsLE n, d < 10 := by
  induction n using Nat.strongRecOn with
  | _ n ih =>
    cases n with
    | zero => simp [digitsLE]
    | succ m =>
      rw [digitsLE]
      intro d hd
      simp only [List.mem_cons] at hd
      rcases hd with h | h
      · omega
      · exact ih _ (by omega) d h

theorem toDigits_lt (n : Nat) : ∀ d ∈ toDigits n, d < 10 := by
  unfold toDigits
  split
  · simp
  · intro d hd; exact digitsLE_lt n d (by simpa using hd)

theorem toDigits_ne_nil (n : Nat) : toDigits n ≠ [] := by
  unfold toDigits
  split
  · simp
  · cases n with
    | zero => contradiction
    | succ m => rw [digitsLE]; simp

theorem digitsLE_length_le (n k : Nat) (h : n < 10 ^ k) : (digitsLE n).length ≤ k := by
  induction k generalizing n with
  | zero => simp at h; subst h; simp [digitsLE]
  | succ k ih =>
    cases n with
    | zero => simp [digitsLE]
    | succ m =>
      rw [digitsLE]
      simp only [List.length_cons]
      have : (m+1)/10 < 10 ^ k := by
        rw [Nat.pow_succ] at h
        omega
      have := ih _ this
      omega

theorem toDigits_length_le (n k : Nat) (hk : 0 < k) (h : n < 10 ^ k) : (toDigits n).length ≤ k := by
  unfold toDigits
  split
  · simp; omega
  · simpa using digitsLE_length_le n k h

end SafeNet.Dec
