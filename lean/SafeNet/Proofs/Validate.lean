import SafeNet.Model.Validate
/-!
Helper lemmas for C03 / C04 / C07: exhaustive enumeration of the finite decision table
(`skel` over kinds × paths × observations) lifted to all values, and the facts that connect the
observations with the data (`obsOfAns`, `inst`, `written`).
-/
namespace SafeNet.Validate
open SafeNet.Gen.Validate

/-! ## Enumeration combinators -/

def allBool (f : Bool → Bool) : Bool := f true && f false

theorem allBool_spec {f : Bool → Bool} (h : allBool f = true) : ∀ b, f b = true := by
  intro b; cases b <;> simp_all [allBool]

def allPay (f : PayRes → Bool) : Bool :=
  f .ok && f .notForUs && f .wrongContent && f .expired && f .outOfRange && f .chain

theorem allPay_spec {f : PayRes → Bool} (h : allPay f = true) : ∀ p, f p = true := by
  intro p; cases p <;> simp_all [allPay]

def allKind (f : Kind → Bool) : Bool :=
  f .chunkp && f .chunk && f .padp && f .pad && f .txp && f .tx && f .regp && f .reg

theorem allKind_spec {f : Kind → Bool} (h : allKind f = true) : ∀ k, f k = true := by
  intro k; cases k <;> simp_all [allKind]

def allObs (f : Obs → Bool) : Bool :=
  allBool fun parse => allBool fun km => allBool fun h1 => allBool fun h2 => allPay fun pay =>
  allBool fun lSome => allBool fun lOk => allBool fun cA => allBool fun cB => allBool fun cC =>
    f ⟨parse, km, h1, h2, pay, lSome, lOk, cA, cB, cC⟩

theorem allObs_spec {f : Obs → Bool} (h : allObs f = true) : ∀ o, f o = true := by
  intro ⟨parse, km, h1, h2, pay, lSome, lOk, cA, cB, cC⟩
  have h := allBool_spec h parse
  have h := allBool_spec h km
  have h := allBool_spec h h1
  have h := allBool_spec h h2
  have h := allPay_spec h pay
  have h := allBool_spec h lSome
  have h := allBool_spec h lOk
  have h := allBool_spec h cA
  have h := allBool_spec h cB
  exact allBool_spec h cC

/-- the whole table: both paths, every kind, every observation vector -/
def allTable (f : Bool → Kind → Obs → Bool) : Bool :=
  allBool fun client => allKind fun k => allObs fun o => f client k o

theorem allTable_spec {f : Bool → Kind → Obs → Bool} (h : allTable f = true) :
    ∀ client k o, f client k o = true := by
  intro client k o
  exact allObs_spec (allKind_spec (allBool_spec h client) k) o

def allVec (f : PayVec → Bool) : Bool :=
  allBool fun a => allBool fun b => allBool fun c => allBool fun d => allBool fun e => allBool fun g =>
    f ⟨a, b, c, d, e, g⟩

theorem allVec_spec {f : PayVec → Bool} (h : allVec f = true) : ∀ v, f v = true := by
  intro ⟨a, b, c, d, e, g⟩
  have h := allBool_spec h a
  have h := allBool_spec h b
  have h := allBool_spec h c
  have h := allBool_spec h d
  have h := allBool_spec h e
  exact allBool_spec h g

/-! ## Table-level facts (each a `decide` over the complete table) -/

def isW : Tk → Bool
  | .Wd => true
  | .Wm => true
  | _ => false

def hasW (l : List Tk) : Bool := l.any isW

def tr (client : Bool) (k : Kind) (o : Obs) : List Tk := (skel (route client k) o).trace
def rs (client : Bool) (k : Kind) (o : Obs) : Res := (skel (route client k) o).res

/-- the store does not hold the key: every read says so -/
def freshObs (o : Obs) : Bool := !o.h1 && !o.h2 && !o.lSome
/-- the store holds the key: every read says so -/
def heldObs (o : Obs) : Bool := o.h1 && o.h2 && o.lSome

theorem payCheck_ok_iff_all : ∀ v : PayVec, (payCheck payCheckOrder v == .ok) = v.all :=
  fun v => by
    have := allVec_spec (f := fun v => (payCheck payCheckOrder v == .ok) == v.all) (by decide) v
    simpa using this

/-- C03: on the client path, a put for a key the store does not hold happens only after all payment checks passed -/
theorem tbl_new_store_needs_payment : ∀ client k o,
    (!(client && freshObs o && hasW (tr client k o)) || (o.pay == .ok && isPaid k)) = true :=
  allTable_spec (by decide +kernel)

/-- C03: a failed payment (or none) for a key not held: error and no put -/
theorem tbl_failure_rejects : ∀ client k o,
    (!(client && freshObs o && (o.pay != .ok || !isPaid k)) || (rs client k o != .ok && !hasW (tr client k o))) = true :=
  allTable_spec (by decide +kernel)

/-- C03: a put without a fully valid payment only for a key that is held and a mutable kind; a held chunk is never rewritten -/
theorem tbl_unpaid_only_updates : ∀ client k o,
    (!(client && hasW (tr client k o) && (o.pay != .ok || !isPaid k)) || (o.h1 && kindFam k != 0)) = true :=
  allTable_spec (by decide +kernel)

/-- C03 (update only): a put without a fully valid payment happens only when the validation's own read of the
local copy (`GetLocalRecord`) found a record, and one of the kind it delivers — so the put is a checked update
of that record (counter compared / sets merged), never a first store.  True only of the repaired code
(`padUpdateNeedsLocal`, `regUpdateNeedsLocal`, `txFailedPayNeedsLocal`, `regFailedPayNeedsLocal`). -/
theorem tbl_unpaid_put_reads_local : ∀ client k o,
    (!(client && hasW (tr client k o) && (o.pay != .ok || !isPaid k)) || (o.lSome && o.lOk && kindFam k != 0)) = true :=
  allTable_spec (by decide +kernel)

theorem tbl_chunk_never_rewritten : ∀ client k o,
    (!(o.h1 && kindFam k == 0) || !hasW (tr client k o)) = true :=
  allTable_spec (by decide +kernel)

/-- every error result comes with no put at all -/
theorem tbl_error_no_put : ∀ client k o,
    (!(rs client k o != .ok) || !hasW (tr client k o)) = true :=
  allTable_spec (by decide +kernel)

/-- C04: a put happens only when the record key is the derived key, and the record decoded -/
theorem tbl_put_needs_key_match : ∀ client k o,
    (!(hasW (tr client k o)) || ((o.km || (!client && k == .tx)) && o.parse)) = true :=
  allTable_spec (by decide +kernel)

/-- C04: key mismatch: error, no put (the replicated transaction vector has no single derived key: `km` is
fixed to true there and foreign entries are filtered instead) -/
theorem tbl_mismatch_rejected : ∀ client k o,
    (!(!o.km && !(!client && k == .tx)) || (rs client k o != .ok && !hasW (tr client k o))) = true :=
  allTable_spec (by decide +kernel)

/-- at most one put per validation -/
theorem tbl_one_put : ∀ client k o, (decide (((tr client k o).filter isW).length ≤ 1)) = true :=
  allTable_spec (by decide +kernel)

/-- C07 scratchpads: a put only when the local counter does not block and the signature is valid -/
theorem tbl_pad_put : ∀ client k o,
    (!(hasW (tr client k o) && kindFam k == 1) || (!(o.lSome && o.cA) && o.cB && (!o.lSome || o.lOk))) = true :=
  allTable_spec (by decide +kernel)

/-- C07 transactions: a put only of a non-empty valid set, merged with a local copy of the right kind -/
theorem tbl_tx_put : ∀ client k o,
    (!(hasW (tr client k o) && kindFam k == 2) || (o.cA && o.cB && (!o.lSome || o.lOk) && (tr client k o).contains .Wm)) = true :=
  allTable_spec (by decide +kernel)

/-- C07 registers: a put only of a verified register; merged (`Wm`) exactly when the key is held -/
theorem tbl_reg_put : ∀ client k o,
    (!(hasW (tr client k o) && kindFam k == 3) ||
      (o.cA && (if o.h2 then (o.lSome && o.lOk && o.cB && (tr client k o).contains .Wm && !(tr client k o).contains .Wd)
                else ((tr client k o).contains .Wd && !(tr client k o).contains .Wm)))) = true :=
  allTable_spec (by decide +kernel)

/-- chunk puts are `Wd` -/
theorem tbl_fam_of_put : ∀ client k o,
    (!(hasW (tr client k o) && (kindFam k == 0 || kindFam k == 1)) || !(tr client k o).contains .Wm) = true :=
  allTable_spec (by decide +kernel)

/-- a put over a held key needs a local copy of the same kind (so kinds never overwrite each other) -/
theorem tbl_put_over_held_same_kind : ∀ client k o,
    (!(hasW (tr client k o) && heldObs o) || (kindFam k != 0 && o.lOk)) = true :=
  allTable_spec (by decide +kernel)

end SafeNet.Validate
