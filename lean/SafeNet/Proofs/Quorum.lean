import SafeNet.Model.Quorum
/-! Helper lemmas and invariants for the quorum model (C05). -/
namespace SafeNet.Quorum
open SafeNet.Gen.Quorum

/-! ### list helpers -/

theorem findQ_some {qid : Nat} {l : List Query} {q : Query} (h : findQ qid l = some q) :
    q ∈ l ∧ q.qid = qid := by
  unfold findQ at h
  exact ⟨List.mem_of_find?_eq_some h, by simpa using List.find?_some h⟩

theorem findQ_none {qid : Nat} {l : List Query} (h : findQ qid l = none) :
    ∀ q ∈ l, q.qid ≠ qid := by
  unfold findQ at h
  intro q hq
  have := List.find?_eq_none.1 h q hq
  simpa using this

theorem mem_removeQ {qid : Nat} {l : List Query} {x : Query} :
    x ∈ removeQ qid l ↔ x ∈ l ∧ x.qid ≠ qid := by
  simp [removeQ]

theorem reached_false {n q : Nat} (h : reached n q = false) : n < q := by
  simp [reached, thresholdIsGe] at h; omega

theorem reached_true {n q : Nat} (h : reached n q = true) : q ≤ n := by
  simp [reached, thresholdIsGe] at h; omega

/-! ### `addPeer` -/

theorem addPeer_mem {rs : List (Content × List Nat)} {c : Content} {p : Nat} {e : Content × List Nat}
    (h : e ∈ (addPeer rs c p).1) :
    e ∈ rs ∨ (e.1 = c ∧ e.2.length = (addPeer rs c p).2 ∧ ∀ x ∈ e.2, x = p ∨ ∃ ps, (c, ps) ∈ rs ∧ x ∈ ps) := by
  induction rs with
  | nil =>
    simp [addPeer] at h
    subst h; right; simp [addPeer]
  | cons hd tl ih =>
    obtain ⟨c', ps⟩ := hd
    by_cases hc : c' = c
    · subst hc
      simp only [addPeer, if_true] at h ⊢
      rcases List.mem_cons.1 h with h | h
      · right
        subst h
        refine ⟨rfl, rfl, ?_⟩
        intro x hx
        split at hx
        · right; exact ⟨ps, by simp, hx⟩
        · rcases List.mem_append.1 hx with hx | hx
          · right; exact ⟨ps, by simp, hx⟩
          · left; simpa using hx
      · left; exact List.mem_cons_of_mem _ h
    · simp only [addPeer, hc, if_false] at h ⊢
      rcases List.mem_cons.1 h with h | h
      · left; subst h; simp
      · rcases ih h with h | ⟨h1, h2, h3⟩
        · left; exact List.mem_cons_of_mem _ h
        · right
          refine ⟨h1, h2, ?_⟩
          intro x hx
          rcases h3 x hx with h | ⟨ps', hps', hx'⟩
          · left; exact h
          · right; exact ⟨ps', List.mem_cons_of_mem _ hps', hx'⟩

/-- the version that just arrived is in the updated map with exactly `responded_peers` responders -/
theorem addPeer_has (rs : List (Content × List Nat)) (c : Content) (p : Nat) :
    ∃ ps, (c, ps) ∈ (addPeer rs c p).1 ∧ ps.length = (addPeer rs c p).2 ∧ p ∈ ps := by
  induction rs with
  | nil => exact ⟨[p], by simp [addPeer]⟩
  | cons hd tl ih =>
    obtain ⟨c', ps⟩ := hd
    by_cases hc : c' = c
    · subst hc
      simp only [addPeer, if_true]
      refine ⟨_, List.mem_cons_self .., rfl, ?_⟩
      split
      · rename_i h; simp at h; exact h.2
      · simp
    · obtain ⟨ps', h1, h2, h3⟩ := ih
      simp only [addPeer, hc, if_false]
      exact ⟨ps', List.mem_cons_of_mem _ h1, h2, h3⟩

theorem addPeer_keys (rs : List (Content × List Nat)) (c : Content) (p : Nat) :
    (addPeer rs c p).1.map (·.1) = if c ∈ rs.map (·.1) then rs.map (·.1) else rs.map (·.1) ++ [c] := by
  induction rs with
  | nil => simp [addPeer]
  | cons hd tl ih =>
    obtain ⟨c', ps⟩ := hd
    by_cases hc : c' = c
    · subst hc; simp [addPeer]
    · have hc' : ¬ c = c' := fun h => hc h.symm
      simp only [addPeer, hc, if_false, List.map_cons, ih, List.mem_cons, hc', false_or]
      split <;> simp

theorem addPeer_keys_nodup {rs : List (Content × List Nat)} (c : Content) (p : Nat)
    (h : (rs.map (·.1)).Nodup) : ((addPeer rs c p).1.map (·.1)).Nodup := by
  rw [addPeer_keys]
  split
  · exact h
  · rename_i hn
    exact List.nodup_append.2 ⟨h, by simp, by
      intro a ha b hb
      simp at hb; subst hb
      intro hab; subst hab; exact hn ha⟩

theorem addPeer_peers_nodup {rs : List (Content × List Nat)} (c : Content) (p : Nat)
    (h : ∀ e ∈ rs, e.2.Nodup) : ∀ e ∈ (addPeer rs c p).1, e.2.Nodup := by
  induction rs with
  | nil => intro e he; simp [addPeer] at he; subst he; simp
  | cons hd tl ih =>
    obtain ⟨c', ps⟩ := hd
    have hps : ps.Nodup := h (c', ps) (List.mem_cons_self ..)
    have htl : ∀ e ∈ tl, e.2.Nodup := fun e he => h e (List.mem_cons_of_mem _ he)
    by_cases hc : c' = c
    · subst hc
      intro e he
      simp only [addPeer, if_true] at he
      rcases List.mem_cons.1 he with he | he
      · subst he
        by_cases hp : p ∈ ps
        · simp [respondersAreSet, hp]; exact hps
        · simp only [respondersAreSet, Bool.true_and, List.contains_eq_mem, hp, decide_false]
          simp only [Bool.false_eq_true, if_false]
          exact List.nodup_append.2 ⟨hps, by simp, by
            intro a ha b hb; simp at hb; subst hb; intro hab; subst hab; exact hp ha⟩
      · exact htl e he
    · intro e he
      simp only [addPeer, hc, if_false] at he
      rcases List.mem_cons.1 he with he | he
      · subst he; exact hps
      · exact ih htl e he

/-- a peer that already answered with this content changes nothing -/
theorem addPeer_dup {rs : List (Content × List Nat)} {c : Content} {p : Nat} {ps : List Nat}
    (hk : (rs.map (·.1)).Nodup) (hm : (c, ps) ∈ rs) (hp : p ∈ ps) :
    addPeer rs c p = (rs, ps.length) := by
  induction rs with
  | nil => simp at hm
  | cons hd tl ih =>
    obtain ⟨c', ps'⟩ := hd
    by_cases hc : c' = c
    · subst hc
      have : ps' = ps := by
        rcases List.mem_cons.1 hm with h | h
        · exact (Prod.mk.inj h).2.symm
        · exfalso
          have : c' ∈ tl.map (·.1) := List.mem_map.2 ⟨(c', ps), h, rfl⟩
          simp at hk; exact (hk.1 _ h).elim
      subst this
      simp [addPeer, respondersAreSet, hp]
    · have hm' : (c, ps) ∈ tl := by
        rcases List.mem_cons.1 hm with h | h
        · exact absurd (Prod.mk.inj h).1.symm hc
        · exact h
      have hk' : (tl.map (·.1)).Nodup := by simp at hk; exact hk.2
      simp [addPeer, hc, ih hk' hm']

/-! ### structural invariant of reachable states -/

structure Inv (s : State) : Prop where
  qidNodup : (s.pending.map (·.qid)).Nodup
  qidLt : ∀ q ∈ s.pending, q.qid < s.nextQid
  keyNodup : (s.pending.map (·.key)).Nodup
  below : ∀ q ∈ s.pending, ∀ e ∈ q.results, e.2.length < quorumOf q.cfg
  verNodup : ∀ q ∈ s.pending, (q.results.map (·.1)).Nodup
  peersNodup : ∀ q ∈ s.pending, ∀ e ∈ q.results, e.2.Nodup
  returned : ∀ q ∈ s.pending, ∀ e ∈ q.results, ∀ p ∈ e.2, (q.qid, p, e.1) ∈ s.returned
  firstCfg : ∀ q ∈ s.pending, ∃ c0 rest, q.senders = c0 :: rest ∧ (c0, q.key, q.cfg) ∈ s.asked

theorem inv_init : Inv {} := by
  constructor <;> simp

theorem map_upd_qid (l : List Query) (f : Query → Query) (hf : ∀ x, (f x).qid = x.qid) :
    (l.map f).map (·.qid) = l.map (·.qid) := by
  simp [List.map_map, Function.comp_def, hf]

theorem map_upd_key (l : List Query) (f : Query → Query) (hf : ∀ x, (f x).key = x.key) :
    (l.map f).map (·.key) = l.map (·.key) := by
  simp [List.map_map, Function.comp_def, hf]

theorem qid_unique {l : List Query} (h : (l.map (·.qid)).Nodup) {a b : Query} (ha : a ∈ l) (hb : b ∈ l)
    (hab : a.qid = b.qid) : a = b := by
  induction l with
  | nil => simp at ha
  | cons x xs ih =>
    simp only [List.map_cons, List.nodup_cons, List.mem_map, not_exists, not_and] at h
    rcases List.mem_cons.1 ha with ha' | ha' <;> rcases List.mem_cons.1 hb with hb' | hb'
    · rw [ha', hb']
    · subst ha'; exact absurd hab.symm (h.1 b hb')
    · subst hb'; exact absurd hab (h.1 a ha')
    · exact ih h.2 ha' hb'

theorem key_unique {l : List Query} (h : (l.map (·.key)).Nodup) {a b : Query} (ha : a ∈ l) (hb : b ∈ l)
    (hab : a.key = b.key) : a = b := by
  induction l with
  | nil => simp at ha
  | cons x xs ih =>
    simp only [List.map_cons, List.nodup_cons, List.mem_map, not_exists, not_and] at h
    rcases List.mem_cons.1 ha with ha' | ha' <;> rcases List.mem_cons.1 hb with hb' | hb'
    · rw [ha', hb']
    · subst ha'; exact absurd hab.symm (h.1 b hb')
    · subst hb'; exact absurd hab (h.1 a ha')
    · exact ih h.2 ha' hb'

/-- removing an entry and answering its senders keeps the invariant -/
theorem inv_terminate {s : State} (h : Inv s) (q : Query) (o : Outcome) : Inv (terminate s q o).1 := by
  have sub : ∀ x, x ∈ removeQ q.qid s.pending → x ∈ s.pending := fun x hx => (mem_removeQ.1 hx).1
  constructor
  · exact List.Nodup.sublist (List.Sublist.map _ List.filter_sublist) h.qidNodup
  · intro x hx; exact h.qidLt x (sub x hx)
  · exact List.Nodup.sublist (List.Sublist.map _ List.filter_sublist) h.keyNodup
  · intro x hx; exact h.below x (sub x hx)
  · intro x hx; exact h.verNodup x (sub x hx)
  · intro x hx; exact h.peersNodup x (sub x hx)
  · intro x hx; exact h.returned x (sub x hx)
  · intro x hx; exact h.firstCfg x (sub x hx)

/-- recording a reply in the history keeps the invariant -/
theorem inv_returned {s : State} (h : Inv s) (r : Nat × Nat × Content) :
    Inv { s with returned := s.returned ++ [r] } := by
  constructor
  · exact h.qidNodup
  · exact h.qidLt
  · exact h.keyNodup
  · exact h.below
  · exact h.verNodup
  · exact h.peersNodup
  · intro q hq e he p hp; exact List.mem_append_left _ (h.returned q hq e he p hp)
  · exact h.firstCfg

/-- recording a reply in both histories keeps the invariant -/
theorem inv_hist {s : State} (h : Inv s) (r : Nat × Nat × Content) (ks : List (Nat × Nat × Content × Nat)) :
    Inv { s with returned := s.returned ++ [r], keys := ks } := by
  constructor
  · exact h.qidNodup
  · exact h.qidLt
  · exact h.keyNodup
  · exact h.below
  · exact h.verNodup
  · exact h.peersNodup
  · intro q hq e he p hp; exact List.mem_append_left _ (h.returned q hq e he p hp)
  · exact h.firstCfg

theorem inv_step {s : State} (h : Inv s) (op : Op) : Inv (step s op).1 := by
  cases op with
  | get key caller cfg =>
    simp only [step]
    split
    · exact h
    · split
      · -- joined
        rename_i q hq
        constructor
        · simp only []; rw [map_upd_qid _ _ (by intro x; split <;> rfl)]; exact h.qidNodup
        · intro x hx
          obtain ⟨y, hy, rfl⟩ := List.mem_map.1 hx
          have := h.qidLt y hy
          split <;> simpa using this
        · simp only []; rw [map_upd_key _ _ (by intro x; split <;> rfl)]; exact h.keyNodup
        · intro x hx
          obtain ⟨y, hy, rfl⟩ := List.mem_map.1 hx
          have := h.below y hy
          split <;> simpa using this
        · intro x hx
          obtain ⟨y, hy, rfl⟩ := List.mem_map.1 hx
          have := h.verNodup y hy
          split <;> simpa using this
        · intro x hx
          obtain ⟨y, hy, rfl⟩ := List.mem_map.1 hx
          have := h.peersNodup y hy
          split <;> simpa using this
        · intro x hx
          obtain ⟨y, hy, rfl⟩ := List.mem_map.1 hx
          have := h.returned y hy
          split <;> simpa using this
        · intro x hx
          obtain ⟨y, hy, rfl⟩ := List.mem_map.1 hx
          obtain ⟨c0, rest, h1, h2⟩ := h.firstCfg y hy
          split
          · exact ⟨c0, rest ++ [caller], by simp [h1], List.mem_append_left _ h2⟩
          · exact ⟨c0, rest, h1, List.mem_append_left _ h2⟩
      · -- new query
        rename_i hnone
        have hk : ∀ y ∈ s.pending, y.key ≠ key := by
          intro y hy
          have := List.find?_eq_none.1 hnone y hy
          simpa using this
        constructor
        · simp only [List.map_append, List.map_cons, List.map_nil]
          refine List.nodup_append.2 ⟨h.qidNodup, by simp, ?_⟩
          intro a ha b hb
          simp at hb; subst hb
          obtain ⟨y, hy, rfl⟩ := List.mem_map.1 ha
          have := h.qidLt y hy
          omega
        · intro x hx
          rcases List.mem_append.1 hx with hx | hx
          · have := h.qidLt x hx; simp only []; omega
          · simp at hx; subst hx; simp
        · simp only [List.map_append, List.map_cons, List.map_nil]
          refine List.nodup_append.2 ⟨h.keyNodup, by simp, ?_⟩
          intro a ha b hb
          simp at hb; subst hb
          obtain ⟨y, hy, rfl⟩ := List.mem_map.1 ha
          exact hk y hy
        · intro x hx
          rcases List.mem_append.1 hx with hx | hx
          · exact h.below x hx
          · simp at hx; subst hx; simp
        · intro x hx
          rcases List.mem_append.1 hx with hx | hx
          · exact h.verNodup x hx
          · simp at hx; subst hx; simp
        · intro x hx
          rcases List.mem_append.1 hx with hx | hx
          · exact h.peersNodup x hx
          · simp at hx; subst hx; simp
        · intro x hx
          rcases List.mem_append.1 hx with hx | hx
          · exact h.returned x hx
          · simp at hx; subst hx; simp
        · intro x hx
          rcases List.mem_append.1 hx with hx | hx
          · obtain ⟨c0, rest, h1, h2⟩ := h.firstCfg x hx
            exact ⟨c0, rest, h1, List.mem_append_left _ h2⟩
          · simp at hx; subst hx
            exact ⟨caller, [], rfl, by simp⟩
  | found qid p c fk =>
    simp only [step]
    split
    · exact h
    · rename_i q hq
      obtain ⟨hqm, hqid⟩ := findQ_some hq
      split
      · exact h
      split
      · exact inv_terminate (inv_hist h _ _) q _
      · rename_i hnr
        have hlt := reached_false (by simpa using hnr)
        have hr := inv_hist h (qid, p, c) (s.keys ++ [(qid, p, c, fk.getD q.key)])
        have same : ∀ y ∈ s.pending, (y.qid == qid) = true → y = q := by
          intro y hy hyq
          exact qid_unique h.qidNodup hy hqm (by simp at hyq; omega)
        constructor
        · simp only []; rw [map_upd_qid _ _ (by intro x; split <;> rfl)]; exact h.qidNodup
        · intro x hx
          obtain ⟨y, hy, rfl⟩ := List.mem_map.1 hx
          have := h.qidLt y hy
          split <;> simpa using this
        · simp only []; rw [map_upd_key _ _ (by intro x; split <;> rfl)]; exact h.keyNodup
        · intro x hx
          obtain ⟨y, hy, rfl⟩ := List.mem_map.1 hx
          split
          · rename_i hyq
            have := same y hy hyq; subst this
            intro e he
            rcases addPeer_mem he with he | ⟨_, he, _⟩
            · exact h.below y hy e he
            · simp only []; omega
          · exact h.below y hy
        · intro x hx
          obtain ⟨y, hy, rfl⟩ := List.mem_map.1 hx
          split
          · rename_i hyq
            have := same y hy hyq; subst this
            exact addPeer_keys_nodup c p (h.verNodup y hy)
          · exact h.verNodup y hy
        · intro x hx
          obtain ⟨y, hy, rfl⟩ := List.mem_map.1 hx
          split
          · rename_i hyq
            have := same y hy hyq; subst this
            exact addPeer_peers_nodup c p (h.peersNodup y hy)
          · exact h.peersNodup y hy
        · intro x hx
          obtain ⟨y, hy, rfl⟩ := List.mem_map.1 hx
          split
          · rename_i hyq
            have := same y hy hyq; subst this
            intro e he p' hp'
            rcases addPeer_mem he with he | ⟨he1, _, he3⟩
            · exact hr.returned y hy e he p' hp'
            · rcases he3 p' hp' with hpp | ⟨ps, hps, hpps⟩
              · subst hpp; simp only [he1, hqid]; simp
              · have := hr.returned y hy (c, ps) hps p' hpps
                simpa [he1] using this
          · exact hr.returned y hy
        · intro x hx
          obtain ⟨y, hy, rfl⟩ := List.mem_map.1 hx
          have := hr.firstCfg y hy
          split <;> simpa using this
  | finished qid =>
    simp only [step]; split
    · exact h
    · exact inv_terminate h _ _
  | notFound qid =>
    simp only [step]; split
    · exact h
    · exact inv_terminate h _ _
  | quorumFailed qid =>
    simp only [step]; split
    · exact h
    · exact inv_terminate h _ _
  | timeout qid =>
    simp only [step]; split
    · exact h
    · exact inv_terminate h _ _
  | hangup caller =>
    simp only [step]; split
    · exact h
    · exact ⟨h.qidNodup, h.qidLt, h.keyNodup, h.below, h.verNodup, h.peersNodup, h.returned, h.firstCfg⟩

theorem inv_foldl (ops : List Op) : ∀ s, Inv s → Inv (ops.foldl (fun s op => (step s op).1) s) := by
  induction ops with
  | nil => intro s h; exact h
  | cons op ops ih => intro s h; exact ih _ (inv_step h op)

theorem inv_run (ops : List Op) : Inv (run ops) := inv_foldl ops _ inv_init

/-! ### `deliver` -/

theorem deliver_mem {hung cs : List Nat} {o : Outcome} {x : Nat} {o' : Outcome}
    (h : (x, o') ∈ (deliver hung cs o).1) : x ∈ cs ∧ (o' = o ∨ o' = .closed) := by
  induction cs with
  | nil => simp [deliver] at h
  | cons c cs ih =>
    simp only [deliver] at h
    split at h
    · -- (both values of `Gen.sendServesAllCallers`)
      split at h
      · obtain ⟨h1, h2⟩ := ih h
        exact ⟨List.mem_cons_of_mem _ h1, h2⟩
      · simp only [List.mem_map, List.mem_filter] at h
        obtain ⟨y, ⟨hy, _⟩, hxy⟩ := h
        simp only [Prod.mk.injEq] at hxy
        exact ⟨by rw [← hxy.1]; exact List.mem_cons_of_mem _ hy, Or.inr hxy.2.symm⟩
    · rcases List.mem_cons.1 h with h | h
      · simp only [Prod.mk.injEq] at h
        exact ⟨by rw [h.1]; exact List.mem_cons_self .., Or.inl h.2⟩
      · obtain ⟨h1, h2⟩ := ih h
        exact ⟨List.mem_cons_of_mem _ h1, h2⟩

/-- the callers that observe something are exactly the live senders, in order -/
theorem deliver_callers (hung cs : List Nat) (o : Outcome) :
    (deliver hung cs o).1.map (·.1) = cs.filter (fun x => !hung.contains x) := by
  induction cs with
  | nil => simp [deliver]
  | cons c cs ih =>
    simp only [deliver]
    split
    · rename_i hc
      have hc' : c ∈ hung := by simpa using hc
      split
      · simp only [ih]
        simp [hc']
      · simp [hc', List.map_map, Function.comp_def]
    · rename_i hc
      have hc' : c ∉ hung := by simpa using hc
      simp only [List.map_cons, ih, List.filter_cons]
      simp [hc']

/-! ### deliveries of one step -/

/-- deliveries of a step: which query they come from and what was sent -/
theorem step_deliveries {s : State} {op : Op} {x : Nat} {o : Outcome}
    (h : (x, o) ∈ (step s op).2.deliveries) :
    ∃ q ∈ s.pending, x ∈ q.senders ∧
      ((∃ p c fk, op = .found q.qid p c fk ∧ fk.getD q.key = q.key ∧ reached (addPeer q.results c p).2 (quorumOf q.cfg) = true ∧
          (o = completedOutcome q.cfg (addPeer q.results c p).1 c (fk.getD q.key == q.key) ∨ o = .closed)) ∨
       (op = .finished q.qid ∧ (o = finishedOutcome q ∨ o = .closed)) ∨
       ((op = .notFound q.qid ∨ op = .quorumFailed q.qid) ∧ (o = .notFound ∨ o = .closed)) ∨
       (op = .timeout q.qid ∧ (o = timeoutOutcome q ∨ o = .closed))) := by
  cases op with
  | get key caller cfg =>
    simp only [step] at h
    split at h
    · simp at h
    · split at h <;> simp at h
  | found qid p c fk =>
    simp only [step] at h
    split at h
    · simp at h
    · rename_i q hq
      obtain ⟨hqm, hqid⟩ := findQ_some hq
      split at h
      · simp at h
      rename_i hguard
      have hkey : fk.getD q.key = q.key := by
        simpa [foundChecksKey] using hguard
      split at h
      · rename_i hr
        simp only [terminate] at h
        obtain ⟨h1, h2⟩ := deliver_mem h
        exact ⟨q, hqm, h1, Or.inl ⟨p, c, fk, by rw [hqid], hkey, hr, h2⟩⟩
      · simp at h
  | finished qid =>
    simp only [step] at h
    split at h
    · simp at h
    · rename_i q hq
      obtain ⟨hqm, hqid⟩ := findQ_some hq
      simp only [terminate] at h
      obtain ⟨h1, h2⟩ := deliver_mem h
      exact ⟨q, hqm, h1, Or.inr (Or.inl ⟨by rw [hqid], h2⟩)⟩
  | notFound qid =>
    simp only [step] at h
    split at h
    · simp at h
    · rename_i q hq
      obtain ⟨hqm, hqid⟩ := findQ_some hq
      simp only [terminate] at h
      obtain ⟨h1, h2⟩ := deliver_mem h
      exact ⟨q, hqm, h1, Or.inr (Or.inr (Or.inl ⟨Or.inl (by rw [hqid]), h2⟩))⟩
  | quorumFailed qid =>
    simp only [step] at h
    split at h
    · simp at h
    · rename_i q hq
      obtain ⟨hqm, hqid⟩ := findQ_some hq
      simp only [terminate] at h
      obtain ⟨h1, h2⟩ := deliver_mem h
      exact ⟨q, hqm, h1, Or.inr (Or.inr (Or.inl ⟨Or.inr (by rw [hqid]), h2⟩))⟩
  | timeout qid =>
    simp only [step] at h
    split at h
    · simp at h
    · rename_i q hq
      obtain ⟨hqm, hqid⟩ := findQ_some hq
      simp only [terminate] at h
      obtain ⟨h1, h2⟩ := deliver_mem h
      exact ⟨q, hqm, h1, Or.inr (Or.inr (Or.inr ⟨by rw [hqid], h2⟩))⟩
  | hangup caller =>
    simp only [step] at h
    split at h <;> simp at h


/-! ### history variables -/

theorem terminate_returned (s : State) (q : Query) (o : Outcome) : (terminate s q o).1.returned = s.returned := rfl
theorem terminate_asked (s : State) (q : Query) (o : Outcome) : (terminate s q o).1.asked = s.asked := rfl

theorem returned_step {s : State} {op : Op} {r : Nat × Nat × Content} (h : r ∈ (step s op).1.returned) :
    r ∈ s.returned ∨ ∃ fk, op = .found r.1 r.2.1 r.2.2 fk := by
  cases op with
  | get key caller cfg =>
    simp only [step] at h
    split at h
    · exact Or.inl h
    · split at h <;> exact Or.inl h
  | found qid p c fk =>
    simp only [step] at h
    split at h
    · exact Or.inl h
    · split at h
      · exact Or.inl h
      split at h
      · rw [terminate_returned] at h
        rcases List.mem_append.1 h with h | h
        · exact Or.inl h
        · simp at h; subst h; exact Or.inr ⟨fk, rfl⟩
      · rcases List.mem_append.1 h with h | h
        · exact Or.inl h
        · simp at h; subst h; exact Or.inr ⟨fk, rfl⟩
  | finished qid => simp only [step] at h; split at h <;> exact Or.inl h
  | notFound qid => simp only [step] at h; split at h <;> exact Or.inl h
  | quorumFailed qid => simp only [step] at h; split at h <;> exact Or.inl h
  | timeout qid => simp only [step] at h; split at h <;> exact Or.inl h
  | hangup caller => simp only [step] at h; split at h <;> exact Or.inl h

theorem returned_foldl (ops : List Op) : ∀ (s : State) (r : Nat × Nat × Content),
    r ∈ (ops.foldl (fun s op => (step s op).1) s).returned → r ∈ s.returned ∨ ∃ fk, Op.found r.1 r.2.1 r.2.2 fk ∈ ops := by
  induction ops with
  | nil => intro s r h; exact Or.inl h
  | cons op ops ih =>
    intro s r h
    rcases ih _ r h with h | h
    · rcases returned_step h with h | h
      · exact Or.inl h
      · obtain ⟨fk, h⟩ := h
        exact Or.inr ⟨fk, by rw [h]; exact List.mem_cons_self ..⟩
    · obtain ⟨fk, h⟩ := h
      exact Or.inr ⟨fk, List.mem_cons_of_mem _ h⟩

/-- every recorded reply was an event of the history -/
theorem returned_sound (ops : List Op) (r : Nat × Nat × Content) (h : r ∈ (run ops).returned) :
    ∃ fk, Op.found r.1 r.2.1 r.2.2 fk ∈ ops := by
  rcases returned_foldl ops {} r h with h | h
  · simp at h
  · exact h


/-! ### callers: every request is pending in exactly one query or answered exactly once -/

structure InvC (s : State) : Prop where
  sendersNodup : ∀ q ∈ s.pending, q.senders.Nodup
  disjoint : ∀ q1 ∈ s.pending, ∀ q2 ∈ s.pending, ∀ c, c ∈ q1.senders → c ∈ q2.senders → q1.qid = q2.qid
  pendLt : ∀ q ∈ s.pending, ∀ c ∈ q.senders, c < s.nextCaller
  pendNotDelivered : ∀ q ∈ s.pending, ∀ c ∈ q.senders, c ∉ s.delivered.map (·.1)
  delNodup : (s.delivered.map (·.1)).Nodup
  delLt : ∀ c ∈ s.delivered.map (·.1), c < s.nextCaller
  cover : ∀ c, c < s.nextCaller → (∃ q ∈ s.pending, c ∈ q.senders) ∨ c ∈ s.delivered.map (·.1) ∨ c ∈ s.hung

theorem invC_init : InvC {} := by
  constructor <;> simp

theorem invC_terminate {s : State} (hi : Inv s) (h : InvC s) {q : Query} (hq : q ∈ s.pending) (o : Outcome) :
    InvC (terminate s q o).1 := by
  have sub : ∀ x, x ∈ removeQ q.qid s.pending → x ∈ s.pending ∧ x.qid ≠ q.qid := fun x hx => mem_removeQ.1 hx
  have hdel : (terminate s q o).1.delivered.map (·.1) =
      s.delivered.map (·.1) ++ q.senders.filter (fun x => !s.hung.contains x) := by
    simp only [terminate, List.map_append, deliver_callers]
  constructor
  · intro x hx; exact h.sendersNodup x (sub x hx).1
  · intro x1 hx1 x2 hx2; exact h.disjoint x1 (sub x1 hx1).1 x2 (sub x2 hx2).1
  · intro x hx; exact h.pendLt x (sub x hx).1
  · intro x hx c hc
    rw [hdel]
    intro hmem
    rcases List.mem_append.1 hmem with hm | hm
    · exact h.pendNotDelivered x (sub x hx).1 c hc hm
    · have := h.disjoint x (sub x hx).1 q hq c hc (List.mem_filter.1 hm).1
      exact (sub x hx).2 this
  · rw [hdel]
    refine List.nodup_append.2 ⟨h.delNodup, (h.sendersNodup q hq).filter _, ?_⟩
    intro a ha b hb hab
    subst hab
    exact h.pendNotDelivered q hq a (List.mem_filter.1 hb).1 ha
  · rw [hdel]
    intro c hc
    rcases List.mem_append.1 hc with hm | hm
    · exact h.delLt c hm
    · exact h.pendLt q hq c (List.mem_filter.1 hm).1
  · intro c hc
    rw [hdel]
    rcases h.cover c hc with ⟨x, hx, hcx⟩ | hd | hh
    · by_cases hxq : x.qid = q.qid
      · have := qid_unique hi.qidNodup hx hq hxq
        subst this
        by_cases hh : c ∈ s.hung
        · right; right; exact hh
        · right; left
          exact List.mem_append_right _ (List.mem_filter.2 ⟨hcx, by simpa using hh⟩)
      · left; exact ⟨x, mem_removeQ.2 ⟨hx, hxq⟩, hcx⟩
    · right; left; exact List.mem_append_left _ hd
    · right; right; exact hh

/-- updating entries in place without touching senders or ids keeps the caller invariant -/
theorem invC_map_same {s : State} (h : InvC s) (f : Query → Query)
    (hf : ∀ y, (f y).senders = y.senders ∧ (f y).qid = y.qid) (r : List (Nat × Nat × Content))
    (ks : List (Nat × Nat × Content × Nat)) :
    InvC { s with pending := s.pending.map f, returned := r, keys := ks } := by
  constructor
  · intro x hx
    obtain ⟨y, hy, rfl⟩ := List.mem_map.1 hx
    rw [(hf y).1]; exact h.sendersNodup y hy
  · intro x1 hx1 x2 hx2 c hc1 hc2
    obtain ⟨y1, hy1, rfl⟩ := List.mem_map.1 hx1
    obtain ⟨y2, hy2, rfl⟩ := List.mem_map.1 hx2
    rw [(hf y1).1] at hc1; rw [(hf y2).1] at hc2
    rw [(hf y1).2, (hf y2).2]
    exact h.disjoint y1 hy1 y2 hy2 c hc1 hc2
  · intro x hx c hc
    obtain ⟨y, hy, rfl⟩ := List.mem_map.1 hx
    rw [(hf y).1] at hc; exact h.pendLt y hy c hc
  · intro x hx c hc
    obtain ⟨y, hy, rfl⟩ := List.mem_map.1 hx
    rw [(hf y).1] at hc; exact h.pendNotDelivered y hy c hc
  · exact h.delNodup
  · exact h.delLt
  · intro c hc
    rcases h.cover c hc with ⟨x, hx, hcx⟩ | hd | hh
    · left; exact ⟨f x, List.mem_map.2 ⟨x, hx, rfl⟩, by rw [(hf x).1]; exact hcx⟩
    · right; left; exact hd
    · right; right; exact hh

theorem invC_step {s : State} (hi : Inv s) (h : InvC s) (op : Op) : InvC (step s op).1 := by
  cases op with
  | get key caller cfg =>
    simp only [step]
    split
    · exact h
    · rename_i hok
      have hcaller : caller = s.nextCaller := by
        simp at hok; exact hok.1
      subst hcaller
      split
      · -- joined
        rename_i q hq
        have hqm : q ∈ s.pending := List.mem_of_find?_eq_some hq
        have hqk : q.key = key := by simpa using List.find?_some hq
        have mem_upd : ∀ (y : Query) (c : Nat), c ∈ (if (y.key == key) = true then { y with senders := y.senders ++ [s.nextCaller] } else y).senders →
            c ∈ y.senders ∨ (c = s.nextCaller ∧ y.key = key) := by
          intro y c hc
          split at hc
          · rename_i hk
            rcases List.mem_append.1 hc with hc | hc
            · exact Or.inl hc
            · exact Or.inr ⟨by simpa using hc, by simpa using hk⟩
          · exact Or.inl hc
        have qid_upd : ∀ y : Query, (if (y.key == key) = true then { y with senders := y.senders ++ [s.nextCaller] } else y).qid = y.qid := by
          intro y; split <;> rfl
        have fresh : ∀ y ∈ s.pending, s.nextCaller ∉ y.senders := by
          intro y hy hc; have := h.pendLt y hy _ hc; omega
        constructor
        · intro x hx
          obtain ⟨y, hy, rfl⟩ := List.mem_map.1 hx
          split
          · refine List.nodup_append.2 ⟨h.sendersNodup y hy, by simp, ?_⟩
            intro a ha b hb hab
            simp at hb; subst hb; subst hab
            exact fresh y hy ha
          · exact h.sendersNodup y hy
        · intro x1 hx1 x2 hx2 c hc1 hc2
          obtain ⟨y1, hy1, rfl⟩ := List.mem_map.1 hx1
          obtain ⟨y2, hy2, rfl⟩ := List.mem_map.1 hx2
          rw [qid_upd, qid_upd]
          rcases mem_upd y1 c hc1 with h1 | ⟨h1, k1⟩ <;> rcases mem_upd y2 c hc2 with h2 | ⟨h2, k2⟩
          · exact h.disjoint y1 hy1 y2 hy2 c h1 h2
          · subst h2; exact absurd h1 (fresh y1 hy1)
          · subst h1; exact absurd h2 (fresh y2 hy2)
          · rw [key_unique hi.keyNodup hy1 hy2 (by rw [k1, k2])]
        · intro x hx c hc
          obtain ⟨y, hy, rfl⟩ := List.mem_map.1 hx
          rcases mem_upd y c hc with h1 | ⟨h1, _⟩
          · have := h.pendLt y hy c h1; simp only []; omega
          · subst h1; simp
        · intro x hx c hc
          obtain ⟨y, hy, rfl⟩ := List.mem_map.1 hx
          rcases mem_upd y c hc with h1 | ⟨h1, _⟩
          · exact h.pendNotDelivered y hy c h1
          · subst h1; intro hd; have := h.delLt _ hd; omega
        · exact h.delNodup
        · intro c hc; have := h.delLt c hc; simp only []; omega
        · intro c hc
          simp only [] at hc
          by_cases hlt : c < s.nextCaller
          · rcases h.cover c hlt with ⟨x, hx, hcx⟩ | hd | hh
            · left
              refine ⟨_, List.mem_map.2 ⟨x, hx, rfl⟩, ?_⟩
              split
              · exact List.mem_append_left _ hcx
              · exact hcx
            · right; left; exact hd
            · right; right; exact hh
          · have : c = s.nextCaller := by omega
            subst this
            left
            refine ⟨_, List.mem_map.2 ⟨q, hqm, rfl⟩, ?_⟩
            simp [hqk]
      · -- new query
        have fresh : ∀ y ∈ s.pending, s.nextCaller ∉ y.senders := by
          intro y hy hc; have := h.pendLt y hy _ hc; omega
        constructor
        · intro x hx
          rcases List.mem_append.1 hx with hx | hx
          · exact h.sendersNodup x hx
          · simp at hx; subst hx; simp
        · intro x1 hx1 x2 hx2 c hc1 hc2
          rcases List.mem_append.1 hx1 with hx1 | hx1 <;> rcases List.mem_append.1 hx2 with hx2 | hx2
          · exact h.disjoint x1 hx1 x2 hx2 c hc1 hc2
          · simp at hx2; subst hx2; simp at hc2; subst hc2; exact absurd hc1 (fresh x1 hx1)
          · simp at hx1; subst hx1; simp at hc1; subst hc1; exact absurd hc2 (fresh x2 hx2)
          · simp at hx1 hx2; subst hx1; subst hx2; rfl
        · intro x hx c hc
          rcases List.mem_append.1 hx with hx | hx
          · have := h.pendLt x hx c hc; simp only []; omega
          · simp at hx; subst hx; simp at hc; subst hc; simp
        · intro x hx c hc
          rcases List.mem_append.1 hx with hx | hx
          · exact h.pendNotDelivered x hx c hc
          · simp at hx; subst hx; simp at hc; subst hc
            intro hd; have := h.delLt _ hd; omega
        · exact h.delNodup
        · intro c hc; have := h.delLt c hc; simp only []; omega
        · intro c hc
          simp only [] at hc
          by_cases hlt : c < s.nextCaller
          · rcases h.cover c hlt with ⟨x, hx, hcx⟩ | hd | hh
            · left; exact ⟨x, List.mem_append_left _ hx, hcx⟩
            · right; left; exact hd
            · right; right; exact hh
          · have : c = s.nextCaller := by omega
            subst this
            left
            exact ⟨_, List.mem_append_right _ (List.mem_singleton.2 rfl), by simp⟩
  | found qid p c fk =>
    simp only [step]
    split
    · exact h
    · rename_i q hq
      obtain ⟨hqm, _⟩ := findQ_some hq
      split
      · exact h
      split
      · exact invC_terminate (s := { s with returned := s.returned ++ [(qid, p, c)], keys := s.keys ++ [(qid, p, c, fk.getD q.key)] }) (inv_hist hi _ _)
          ⟨h.sendersNodup, h.disjoint, h.pendLt, h.pendNotDelivered, h.delNodup, h.delLt, h.cover⟩ hqm _
      · exact invC_map_same h _ (by intro y; split <;> exact ⟨rfl, rfl⟩) _ _
  | finished qid =>
    simp only [step]; split
    · exact h
    · rename_i q hq; exact invC_terminate hi h (findQ_some hq).1 _
  | notFound qid =>
    simp only [step]; split
    · exact h
    · rename_i q hq; exact invC_terminate hi h (findQ_some hq).1 _
  | quorumFailed qid =>
    simp only [step]; split
    · exact h
    · rename_i q hq; exact invC_terminate hi h (findQ_some hq).1 _
  | timeout qid =>
    simp only [step]; split
    · exact h
    · rename_i q hq; exact invC_terminate hi h (findQ_some hq).1 _
  | hangup caller =>
    simp only [step]; split
    · exact h
    · refine ⟨h.sendersNodup, h.disjoint, h.pendLt, h.pendNotDelivered, h.delNodup, h.delLt, ?_⟩
      intro c hc
      rcases h.cover c hc with hx | hd | hh
      · left; exact hx
      · right; left; exact hd
      · right; right; exact List.mem_cons_of_mem _ hh

theorem invBoth_foldl (ops : List Op) : ∀ s, Inv s → InvC s →
    InvC (ops.foldl (fun s op => (step s op).1) s) := by
  induction ops with
  | nil => intro s _ h; exact h
  | cons op ops ih => intro s hi h; exact ih _ (inv_step hi op) (invC_step hi h op)

theorem invC_run (ops : List Op) : InvC (run ops) := invBoth_foldl ops _ inv_init invC_init


/-- the history of deliveries is exactly what the steps put on the callers' channels -/
theorem delivered_step (s : State) (op : Op) :
    (step s op).1.delivered = s.delivered ++ (step s op).2.deliveries := by
  cases op with
  | get key caller cfg =>
    simp only [step]
    split
    · simp
    · split <;> simp
  | found qid p c fk =>
    simp only [step]
    split
    · simp
    · split
      · simp
      split
      · simp [terminate]
      · simp
  | finished qid => simp only [step]; split <;> simp [terminate]
  | notFound qid => simp only [step]; split <;> simp [terminate]
  | quorumFailed qid => simp only [step]; split <;> simp [terminate]
  | timeout qid => simp only [step]; split <;> simp [terminate]
  | hangup caller => simp only [step]; split <;> simp


/-! ### sorted duplicate-free lists (`BTreeSet`) -/

def Asc (l : List Nat) : Prop := l.Pairwise (· < ·)

theorem mem_insertSorted {x y : Nat} {l : List Nat} : y ∈ insertSorted x l ↔ y = x ∨ y ∈ l := by
  induction l with
  | nil => simp [insertSorted]
  | cons a l ih =>
    simp only [insertSorted]
    split
    · simp
    · split
      · rename_i h; subst h; simp
      · simp [ih]; constructor
        · rintro (h | h | h)
          · right; left; exact h
          · left; exact h
          · right; right; exact h
        · rintro (h | h | h)
          · right; left; exact h
          · left; exact h
          · right; right; exact h

theorem asc_insertSorted {x : Nat} {l : List Nat} (h : Asc l) : Asc (insertSorted x l) := by
  induction l with
  | nil => simp [insertSorted, Asc]
  | cons a l ih =>
    unfold Asc at h ⊢
    rw [List.pairwise_cons] at h
    simp only [insertSorted]
    split
    · rename_i hlt
      refine List.pairwise_cons.2 ⟨?_, List.pairwise_cons.2 h⟩
      intro b hb
      rcases List.mem_cons.1 hb with hb | hb
      · omega
      · have := h.1 b hb; omega
    · split
      · exact List.pairwise_cons.2 h
      · rename_i h1 h2
        refine List.pairwise_cons.2 ⟨?_, ih h.2⟩
        intro b hb
        rcases mem_insertSorted.1 hb with hb | hb
        · omega
        · exact h.1 b hb

theorem mem_unionInto {acc l : List Nat} {y : Nat} : y ∈ unionInto acc l ↔ y ∈ acc ∨ y ∈ l := by
  unfold unionInto
  induction l generalizing acc with
  | nil => simp
  | cons a l ih =>
    simp only [List.foldl_cons, ih, mem_insertSorted, List.mem_cons]
    constructor
    · rintro ((h | h) | h)
      · right; left; exact h
      · left; exact h
      · right; right; exact h
    · rintro (h | h | h)
      · left; right; exact h
      · left; left; exact h
      · right; exact h

theorem asc_unionInto {acc l : List Nat} (h : Asc acc) : Asc (unionInto acc l) := by
  unfold unionInto
  induction l generalizing acc with
  | nil => exact h
  | cons a l ih => exact ih (asc_insertSorted h)

/-- strictly ascending lists with the same members are equal -/
theorem asc_ext {l1 l2 : List Nat} (h1 : Asc l1) (h2 : Asc l2) (h : ∀ x, x ∈ l1 ↔ x ∈ l2) : l1 = l2 := by
  induction l1 generalizing l2 with
  | nil =>
    cases l2 with
    | nil => rfl
    | cons b l2 => exact absurd ((h b).2 (List.mem_cons_self ..)) (by simp)
  | cons a l1 ih =>
    cases l2 with
    | nil => exact absurd ((h a).1 (List.mem_cons_self ..)) (by simp)
    | cons b l2 =>
      unfold Asc at h1 h2
      rw [List.pairwise_cons] at h1 h2
      have hab : a = b := by
        have ha := (h a).1 (List.mem_cons_self ..)
        have hb := (h b).2 (List.mem_cons_self ..)
        rcases List.mem_cons.1 ha with ha | ha
        · exact ha
        · rcases List.mem_cons.1 hb with hb | hb
          · exact hb.symm
          · have := h2.1 a ha; have := h1.1 b hb; omega
      subst hab
      congr 1
      apply ih h1.2 h2.2
      intro x
      constructor
      · intro hx
        have := (h x).1 (List.mem_cons_of_mem _ hx)
        rcases List.mem_cons.1 this with h' | h'
        · have := h1.1 x hx; omega
        · exact h'
      · intro hx
        have := (h x).2 (List.mem_cons_of_mem _ hx)
        rcases List.mem_cons.1 this with h' | h'
        · have := h2.1 x hx; omega
        · exact h'

theorem txUnionH_aux (cs : List Content) (acc : List Nat) (hacc : Asc acc) :
    Asc (cs.foldl txAddH acc) ∧
    ∀ y, y ∈ cs.foldl txAddH acc ↔
      y ∈ acc ∨ ∃ l, Content.txs l ∈ cs ∧ y ∈ l := by
  induction cs generalizing acc with
  | nil => simp [hacc]
  | cons c cs ih =>
    simp only [List.foldl_cons]
    cases c with
    | txs l =>
      have e : txAddH acc (.txs l) = unionInto acc l := rfl
      rw [e]
      obtain ⟨h1, h2⟩ := ih (unionInto acc l) (asc_unionInto hacc)
      refine ⟨h1, ?_⟩
      intro y
      rw [h2 y, mem_unionInto]
      constructor
      · rintro ((h | h) | ⟨l', hl', hy⟩)
        · left; exact h
        · right; exact ⟨l, List.mem_cons_self .., h⟩
        · right; exact ⟨l', List.mem_cons_of_mem _ hl', hy⟩
      · rintro (h | ⟨l', hl', hy⟩)
        · left; left; exact h
        · rcases List.mem_cons.1 hl' with hl' | hl'
          · injection hl' with hl'; subst hl'; left; right; exact hy
          · right; exact ⟨l', hl', hy⟩
    | junk n =>
      have e : txAddH acc (.junk n) = acc := rfl
      rw [e]
      obtain ⟨h1, h2⟩ := ih acc hacc
      exact ⟨h1, fun y => by rw [h2 y]; simp⟩
    | hdr k n =>
      have e : txAddH acc (.hdr k n) = acc := rfl
      rw [e]
      obtain ⟨h1, h2⟩ := ih acc hacc
      exact ⟨h1, fun y => by rw [h2 y]; simp⟩
    | reg b s o =>
      have e : txAddH acc (.reg b s o) = acc := rfl
      rw [e]
      obtain ⟨h1, h2⟩ := ih acc hacc
      exact ⟨h1, fun y => by rw [h2 y]; simp⟩
    | pad a b c d =>
      have e : txAddH acc (.pad a b c d) = acc := rfl
      rw [e]
      obtain ⟨h1, h2⟩ := ih acc hacc
      exact ⟨h1, fun y => by rw [h2 y]; simp⟩

theorem asc_txUnionH (cs : List Content) : Asc (txUnionH cs) := (txUnionH_aux cs [] (by simp [Asc])).1

theorem mem_txUnionH {cs : List Content} {y : Nat} : y ∈ txUnionH cs ↔ ∃ l, Content.txs l ∈ cs ∧ y ∈ l := by
  have := (txUnionH_aux cs [] (by simp [Asc])).2 y
  simpa [txUnionH] using this

/-- with the derived `Ord` (all fields) the `BTreeSet` union is the plain sorted union -/
theorem txInsert_eq (x : Nat) (acc : List Nat) : txInsert x acc = insertSorted x acc := by
  simp [txInsert, txOrdComparesAllFields]

theorem txUnionInto_eq (acc l : List Nat) : txUnionInto acc l = unionInto acc l := by
  unfold txUnionInto unionInto
  induction l generalizing acc with
  | nil => rfl
  | cons x l ih => simp only [List.foldl_cons, txInsert_eq, ih]

theorem txAdd_eq (acc : List Nat) (c : Content) : txAdd acc c = txAddH acc c := by
  unfold txAdd txAddH
  split
  · exact txUnionInto_eq _ _
  · rfl

theorem txUnion_eq (cs : List Content) : txUnion cs = txUnionH cs := by
  unfold txUnion txUnionH
  generalize ([] : List Nat) = acc
  induction cs generalizing acc with
  | nil => rfl
  | cons c cs ih => simp only [List.foldl_cons, txAdd_eq, ih]

theorem asc_txUnion (cs : List Content) : Asc (txUnion cs) := by rw [txUnion_eq]; exact asc_txUnionH cs

theorem mem_txUnion {cs : List Content} {y : Nat} : y ∈ txUnion cs ↔ ∃ l, Content.txs l ∈ cs ∧ y ∈ l := by
  rw [txUnion_eq]; exact mem_txUnionH

/-- union of the ops of a list of registers -/
theorem regUnion_aux (rs : List Content) (acc : List Nat) (hacc : Asc acc) :
    Asc (rs.foldl (fun acc r => unionInto acc (regOps r)) acc) ∧
    ∀ y, y ∈ rs.foldl (fun acc r => unionInto acc (regOps r)) acc ↔ y ∈ acc ∨ ∃ r ∈ rs, y ∈ regOps r := by
  induction rs generalizing acc with
  | nil => simp [hacc]
  | cons r rs ih =>
    simp only [List.foldl_cons]
    obtain ⟨h1, h2⟩ := ih (unionInto acc (regOps r)) (asc_unionInto hacc)
    refine ⟨h1, ?_⟩
    intro y
    rw [h2 y, mem_unionInto]
    constructor
    · rintro ((h | h) | ⟨r', hr', hy⟩)
      · left; exact h
      · right; exact ⟨r, List.mem_cons_self .., h⟩
      · right; exact ⟨r', List.mem_cons_of_mem _ hr', hy⟩
    · rintro (h | ⟨r', hr', hy⟩)
      · left; left; exact h
      · rcases List.mem_cons.1 hr' with hr' | hr'
        · subst hr'; left; right; exact hy
        · right; exact ⟨r', hr', hy⟩

theorem padStep_some {best : Option Content} {c b : Content} (h : padStep best c = some b) :
    (b = c ∧ padValid c = true) ∨ best = some b := by
  unfold padStep at h
  split at h
  · rename_i hv
    cases best with
    | none => simp at h; left; exact ⟨h.symm, hv⟩
    | some old =>
      simp only [] at h
      split at h
      · right; exact h
      · injection h with h; left; exact ⟨h.symm, hv⟩
  · right; exact h

theorem padStep_ge_new {best : Option Content} {c : Content} (hv : padValid c = true) :
    ∃ b', padStep best c = some b' ∧ padCount c ≤ padCount b' := by
  unfold padStep
  simp only [hv, if_true]
  cases best with
  | none => exact ⟨c, rfl, Nat.le_refl _⟩
  | some old =>
    simp only []
    split
    · rename_i hle; exact ⟨old, rfl, hle⟩
    · exact ⟨c, rfl, Nat.le_refl _⟩

theorem padStep_ge_old {b0 c : Content} :
    ∃ b', padStep (some b0) c = some b' ∧ padCount b0 ≤ padCount b' := by
  unfold padStep
  split
  · simp only []
    split
    · exact ⟨b0, rfl, Nat.le_refl _⟩
    · rename_i hle; exact ⟨c, rfl, by omega⟩
  · exact ⟨b0, rfl, Nat.le_refl _⟩

theorem bestPad_aux (cs : List Content) : ∀ (best : Option Content) (b : Content),
    (∀ b0, best = some b0 → padValid b0 = true) →
    cs.foldl padStep best = some b →
    (b ∈ cs ∨ best = some b) ∧ padValid b = true ∧
    (∀ x ∈ cs, padValid x = true → padCount x ≤ padCount b) ∧
    (∀ b0, best = some b0 → padCount b0 ≤ padCount b) := by
  induction cs with
  | nil =>
    intro best b hv h
    simp only [List.foldl_nil] at h
    exact ⟨Or.inr h, hv b h, by simp, fun b0 hb0 => by rw [h] at hb0; injection hb0 with hb0; subst hb0; exact Nat.le_refl _⟩
  | cons c cs ih =>
    intro best b hv h
    simp only [List.foldl_cons] at h
    have hv' : ∀ b0, padStep best c = some b0 → padValid b0 = true := by
      intro b0 hb0
      rcases padStep_some hb0 with ⟨h1, h2⟩ | h1
      · rw [h1]; exact h2
      · exact hv b0 h1
    obtain ⟨h1, h2, h3, h4⟩ := ih (padStep best c) b hv' h
    refine ⟨?_, h2, ?_, ?_⟩
    · rcases h1 with h1 | h1
      · left; exact List.mem_cons_of_mem _ h1
      · rcases padStep_some h1 with ⟨e, _⟩ | e
        · left; rw [e]; exact List.mem_cons_self ..
        · right; exact e
    · intro x hx hxv
      rcases List.mem_cons.1 hx with hx | hx
      · subst hx
        obtain ⟨b', e, hle⟩ := padStep_ge_new (best := best) hxv
        have := h4 b' e; omega
      · exact h3 x hx hxv
    · intro b0 hb0
      subst hb0
      obtain ⟨b', e, hle⟩ := padStep_ge_old (b0 := b0) (c := c)
      have := h4 b' e; omega

/-- the selected scratchpad is a valid member with maximal counter among the valid ones -/
theorem bestPad_spec {cs : List Content} {b : Content} (h : bestPad cs = some b) :
    b ∈ cs ∧ padValid b = true ∧ ∀ x ∈ cs, padValid x = true → padCount x ≤ padCount b := by
  obtain ⟨h1, h2, h3, _⟩ := bestPad_aux cs none b (by simp) h
  refine ⟨?_, h2, h3⟩
  rcases h1 with h1 | h1
  · exact h1
  · cases h1


theorem foldl_padStep_some (cs : List Content) (b0 : Content) : ∃ b, cs.foldl padStep (some b0) = some b := by
  induction cs generalizing b0 with
  | nil => exact ⟨b0, rfl⟩
  | cons c cs ih =>
    obtain ⟨b', e, _⟩ := padStep_ge_old (b0 := b0) (c := c)
    simp only [List.foldl_cons, e]
    exact ih b'

/-- no scratchpad is selected only if none is valid -/
theorem bestPad_none {cs : List Content} (h : bestPad cs = none) : ∀ x ∈ cs, padValid x = false := by
  unfold bestPad at h
  induction cs with
  | nil => simp
  | cons c cs ih =>
    simp only [List.foldl_cons] at h
    cases hv : padValid c with
    | true =>
      obtain ⟨b', e, _⟩ := padStep_ge_new (best := none) hv
      rw [e] at h
      obtain ⟨b, hb⟩ := foldl_padStep_some cs b'
      rw [hb] at h; cases h
    | false =>
      have e : padStep none c = none := by simp [padStep, hv]
      rw [e] at h
      intro x hx
      rcases List.mem_cons.1 hx with hx | hx
      · subst hx; exact hv
      · exact ih h x hx

/-- a closed channel is observed only behind a sender whose receiver was dropped -/
theorem deliver_closed {hung cs : List Nat} {o : Outcome} {x : Nat}
    (h : (x, Outcome.closed) ∈ (deliver hung cs o).1) : o = .closed ∨ ∃ c' ∈ cs, c' ∈ hung := by
  induction cs with
  | nil => simp [deliver] at h
  | cons c cs ih =>
    simp only [deliver] at h
    split at h
    · rename_i hc
      right; exact ⟨c, List.mem_cons_self .., by simpa using hc⟩
    · rcases List.mem_cons.1 h with h | h
      · simp only [Prod.mk.injEq] at h
        left; exact h.2.symm
      · rcases ih h with h | ⟨c', h1, h2⟩
        · left; exact h
        · right; exact ⟨c', List.mem_cons_of_mem _ h1, h2⟩

theorem sendChecked_ne_closed (cfg : Cfg) (c : Content) : sendChecked cfg c ≠ .closed := by
  unfold sendChecked
  intro h
  split at h
  · split at h <;> cases h
  · cases h

theorem sendCheckedK_ne_closed (cfg : Cfg) (c : Content) (k : Bool) : sendCheckedK cfg c k ≠ .closed := by
  unfold sendCheckedK
  intro h
  split at h
  · exact sendChecked_ne_closed _ _ h
  · split at h <;> cases h

theorem completedOutcome_ne_closed (cfg : Cfg) (rs : List (Content × List Nat)) (c : Content) (k : Bool) :
    completedOutcome cfg rs c k ≠ .closed := by
  unfold completedOutcome completedOutcomeWith
  intro h
  split at h
  · exact sendCheckedK_ne_closed _ _ _ h
  · dsimp only at h
    split at h <;> cases h

theorem finishedOutcome_ne_closed (q : Query) : finishedOutcome q ≠ .closed := by
  unfold finishedOutcome
  intro h
  split at h
  · cases h
  · split at h <;> cases h
  · cases h

theorem timeoutOutcome_ne_closed (q : Query) : timeoutOutcome q ≠ .closed := by
  unfold timeoutOutcome sendChecked
  intro h
  split at h
  · split at h
    · split at h
      · split at h <;> cases h
      · cases h
    · cases h
  · cases h

/-- a step lets a caller observe a closed channel only if some caller of the same query hung up -/
theorem step_closed {s : State} {op : Op} {x : Nat} (h : (x, Outcome.closed) ∈ (step s op).2.deliveries) :
    ∃ q ∈ s.pending, x ∈ q.senders ∧ ∃ c' ∈ q.senders, c' ∈ s.hung := by
  cases op with
  | get key caller cfg =>
    simp only [step] at h
    split at h
    · simp at h
    · split at h <;> simp at h
  | found qid p c fk =>
    simp only [step] at h
    split at h
    · simp at h
    · rename_i q hq
      split at h
      · simp at h
      split at h
      · simp only [terminate] at h
        rcases deliver_closed h with hc | hc
        · exact absurd hc (completedOutcome_ne_closed _ _ _ _)
        · exact ⟨q, (findQ_some hq).1, (deliver_mem h).1, hc⟩
      · simp at h
  | finished qid =>
    simp only [step] at h
    split at h
    · simp at h
    · rename_i q hq
      simp only [terminate] at h
      rcases deliver_closed h with hc | hc
      · exact absurd hc (finishedOutcome_ne_closed _)
      · exact ⟨q, (findQ_some hq).1, (deliver_mem h).1, hc⟩
  | notFound qid =>
    simp only [step] at h
    split at h
    · simp at h
    · rename_i q hq
      simp only [terminate] at h
      rcases deliver_closed h with hc | hc
      · cases hc
      · exact ⟨q, (findQ_some hq).1, (deliver_mem h).1, hc⟩
  | quorumFailed qid =>
    simp only [step] at h
    split at h
    · simp at h
    · rename_i q hq
      simp only [terminate] at h
      rcases deliver_closed h with hc | hc
      · cases hc
      · exact ⟨q, (findQ_some hq).1, (deliver_mem h).1, hc⟩
  | timeout qid =>
    simp only [step] at h
    split at h
    · simp at h
    · rename_i q hq
      simp only [terminate] at h
      rcases deliver_closed h with hc | hc
      · exact absurd hc (timeoutOutcome_ne_closed _)
      · exact ⟨q, (findQ_some hq).1, (deliver_mem h).1, hc⟩
  | hangup caller =>
    simp only [step] at h
    split at h <;> simp at h

/-! ### the key carried by a reply's record -/

/-- the two reply histories grow together -/
theorem hist_step (s : State) (op : Op) :
    ((step s op).1.returned = s.returned ∧ (step s op).1.keys = s.keys) ∨
    ∃ qid p c k, (step s op).1.returned = s.returned ++ [(qid, p, c)] ∧
      (step s op).1.keys = s.keys ++ [(qid, p, c, k)] := by
  cases op with
  | get key caller cfg =>
    left
    simp only [step]
    split
    · exact ⟨rfl, rfl⟩
    · split <;> exact ⟨rfl, rfl⟩
  | found qid p c fk =>
    simp only [step]
    split
    · left; exact ⟨rfl, rfl⟩
    · rename_i q _
      split
      · left; exact ⟨rfl, rfl⟩
      right
      refine ⟨qid, p, c, fk.getD q.key, ?_⟩
      split <;> exact ⟨rfl, rfl⟩
  | finished qid => left; simp only [step]; split <;> exact ⟨rfl, rfl⟩
  | notFound qid => left; simp only [step]; split <;> exact ⟨rfl, rfl⟩
  | quorumFailed qid => left; simp only [step]; split <;> exact ⟨rfl, rfl⟩
  | timeout qid => left; simp only [step]; split <;> exact ⟨rfl, rfl⟩
  | hangup caller => left; simp only [step]; split <;> exact ⟨rfl, rfl⟩

def KeysCover (s : State) : Prop := ∀ r ∈ s.returned, ∃ k, (r.1, r.2.1, r.2.2, k) ∈ s.keys

theorem keysCover_step {s : State} (h : KeysCover s) (op : Op) : KeysCover (step s op).1 := by
  rcases hist_step s op with ⟨h1, h2⟩ | ⟨qid, p, c, k, h1, h2⟩
  · intro r hr; rw [h1] at hr; rw [h2]; exact h r hr
  · intro r hr
    rw [h1] at hr; rw [h2]
    rcases List.mem_append.1 hr with hr | hr
    · obtain ⟨k', hk'⟩ := h r hr
      exact ⟨k', List.mem_append_left _ hk'⟩
    · simp at hr; subst hr
      exact ⟨k, by simp⟩

theorem keysCover_foldl (ops : List Op) : ∀ s, KeysCover s → KeysCover (ops.foldl (fun s op => (step s op).1) s) := by
  induction ops with
  | nil => intro s h; exact h
  | cons op ops ih => intro s h; exact ih _ (keysCover_step h op)

theorem keysCover_run (ops : List Op) : KeysCover (run ops) :=
  keysCover_foldl ops _ (by intro r hr; simp at hr)

/-- every entry of the key history is a reply of the history; an explicit key on the event is the recorded one -/
theorem keys_step {s : State} {op : Op} {r : Nat × Nat × Content × Nat} (h : r ∈ (step s op).1.keys) :
    r ∈ s.keys ∨ ∃ fk, op = .found r.1 r.2.1 r.2.2.1 fk ∧ ∀ k, fk = some k → r.2.2.2 = k := by
  cases op with
  | get key caller cfg =>
    simp only [step] at h
    split at h
    · exact Or.inl h
    · split at h <;> exact Or.inl h
  | found qid p c fk =>
    simp only [step] at h
    split at h
    · exact Or.inl h
    · have hk : ∀ q : Query, ∀ k, fk = some k → fk.getD q.key = k := by
        intro q k hk; subst hk; rfl
      split at h
      · exact Or.inl h
      split at h
      · simp only [terminate] at h
        rcases List.mem_append.1 h with h | h
        · exact Or.inl h
        · simp at h; subst h; exact Or.inr ⟨fk, rfl, hk _⟩
      · rcases List.mem_append.1 h with h | h
        · exact Or.inl h
        · simp at h; subst h; exact Or.inr ⟨fk, rfl, hk _⟩
  | finished qid => simp only [step] at h; split at h <;> exact Or.inl h
  | notFound qid => simp only [step] at h; split at h <;> exact Or.inl h
  | quorumFailed qid => simp only [step] at h; split at h <;> exact Or.inl h
  | timeout qid => simp only [step] at h; split at h <;> exact Or.inl h
  | hangup caller => simp only [step] at h; split at h <;> exact Or.inl h

theorem keys_foldl (ops : List Op) : ∀ (s : State) (r : Nat × Nat × Content × Nat),
    r ∈ (ops.foldl (fun s op => (step s op).1) s).keys →
    r ∈ s.keys ∨ ∃ fk, Op.found r.1 r.2.1 r.2.2.1 fk ∈ ops ∧ ∀ k, fk = some k → r.2.2.2 = k := by
  induction ops with
  | nil => intro s r h; exact Or.inl h
  | cons op ops ih =>
    intro s r h
    rcases ih _ r h with h | ⟨fk, h1, h2⟩
    · rcases keys_step h with h | ⟨fk, h1, h2⟩
      · exact Or.inl h
      · exact Or.inr ⟨fk, by rw [h1]; exact List.mem_cons_self .., h2⟩
    · exact Or.inr ⟨fk, List.mem_cons_of_mem _ h1, h2⟩

theorem keys_sound (ops : List Op) (r : Nat × Nat × Content × Nat) (h : r ∈ (run ops).keys) :
    ∃ fk, Op.found r.1 r.2.1 r.2.2.1 fk ∈ ops ∧ ∀ k, fk = some k → r.2.2.2 = k := by
  rcases keys_foldl ops {} r h with h | h
  · simp at h
  · exact h


/-- every responder of every version of a pending query returned that version in a record carrying the query's key -/
def InvRK (s : State) : Prop :=
  ∀ q ∈ s.pending, ∀ e ∈ q.results, ∀ p ∈ e.2, (q.qid, p, e.1, q.key) ∈ s.keys

theorem invRK_terminate {s : State} (h : InvRK s) (q : Query) (o : Outcome) : InvRK (terminate s q o).1 := by
  intro x hx
  exact h x (mem_removeQ.1 hx).1

theorem invRK_step {s : State} (hi : Inv s) (h : InvRK s) (op : Op) : InvRK (step s op).1 := by
  cases op with
  | get key caller cfg =>
    simp only [step]
    split
    · exact h
    · split
      · intro x hx
        obtain ⟨y, hy, rfl⟩ := List.mem_map.1 hx
        have := h y hy
        split <;> simpa using this
      · intro x hx
        rcases List.mem_append.1 hx with hx | hx
        · exact h x hx
        · simp at hx; subst hx; simp
  | found qid p c fk =>
    simp only [step]
    split
    · exact h
    · rename_i q hq
      obtain ⟨hqm, hqid⟩ := findQ_some hq
      split
      · exact h
      rename_i hguard
      have hkey : fk.getD q.key = q.key := by simpa [foundChecksKey] using hguard
      have hmono : InvRK { s with returned := s.returned ++ [(qid, p, c)], keys := s.keys ++ [(qid, p, c, fk.getD q.key)] } := by
        intro x hx e he p' hp'
        exact List.mem_append_left _ (h x hx e he p' hp')
      split
      · exact invRK_terminate hmono q _
      · intro x hx
        obtain ⟨y, hy, rfl⟩ := List.mem_map.1 hx
        split
        · rename_i hyq
          have hyq' : y = q := qid_unique hi.qidNodup hy hqm (by simp at hyq; omega)
          subst hyq'
          intro e he p' hp'
          rcases addPeer_mem he with he | ⟨he1, _, he3⟩
          · exact hmono y hy e he p' hp'
          · rcases he3 p' hp' with hpp | ⟨ps, hps, hpps⟩
            · subst hpp
              simp only [he1, hqid, hkey]
              simp
            · have := hmono y hy (c, ps) hps p' hpps
              simpa [he1] using this
        · exact hmono y hy
  | finished qid =>
    simp only [step]; split
    · exact h
    · exact invRK_terminate h _ _
  | notFound qid =>
    simp only [step]; split
    · exact h
    · exact invRK_terminate h _ _
  | quorumFailed qid =>
    simp only [step]; split
    · exact h
    · exact invRK_terminate h _ _
  | timeout qid =>
    simp only [step]; split
    · exact h
    · exact invRK_terminate h _ _
  | hangup caller =>
    simp only [step]; split
    · exact h
    · exact h

theorem invRK_foldl (ops : List Op) : ∀ s, Inv s → InvRK s → InvRK (ops.foldl (fun s op => (step s op).1) s) := by
  induction ops with
  | nil => intro s _ h; exact h
  | cons op ops ih => intro s hi h; exact ih _ (inv_step hi op) (invRK_step hi h op)

theorem invRK_run (ops : List Op) : InvRK (run ops) :=
  invRK_foldl ops _ inv_init (by intro q hq; simp at hq)

/-! ### the visiting order of a result map -/

theorem entry_unique {m : List (Nat × Content)} (h : (m.map (·.1)).Nodup) {a b : Nat × Content}
    (ha : a ∈ m) (hb : b ∈ m) (hab : a.1 = b.1) : a = b := by
  induction m with
  | nil => simp at ha
  | cons x xs ih =>
    simp only [List.map_cons, List.nodup_cons, List.mem_map, not_exists, not_and] at h
    rcases List.mem_cons.1 ha with ha' | ha' <;> rcases List.mem_cons.1 hb with hb' | hb'
    · rw [ha', hb']
    · subst ha'; exact absurd hab.symm (h.1 b hb')
    · subst hb'; exact absurd hab (h.1 a ha')
    · exact ih h.2 ha' hb'

theorem insertByKey_perm (x : Nat × Content) (m : List (Nat × Content)) : (insertByKey x m).Perm (x :: m) := by
  induction m with
  | nil => exact List.Perm.refl _
  | cons y ys ih =>
    simp only [insertByKey]
    split
    · exact List.Perm.refl _
    · exact ((List.Perm.cons y ih).trans (List.Perm.swap x y ys))

theorem sortByKey_perm (m : List (Nat × Content)) : (sortByKey m).Perm m := by
  induction m with
  | nil => exact List.Perm.refl _
  | cons x xs ih =>
    simp only [sortByKey, List.foldr_cons]
    exact (insertByKey_perm x _).trans (List.Perm.cons x ih)

theorem insertByKey_sorted (x : Nat × Content) {m : List (Nat × Content)}
    (h : m.Pairwise (fun a b => a.1 ≤ b.1)) : (insertByKey x m).Pairwise (fun a b => a.1 ≤ b.1) := by
  induction m with
  | nil => simp [insertByKey]
  | cons y ys ih =>
    simp only [insertByKey]
    have hy := List.pairwise_cons.1 h
    split
    · rename_i hxy
      refine List.pairwise_cons.2 ⟨?_, h⟩
      intro z hz
      rcases List.mem_cons.1 hz with e | hz
      · subst e; exact hxy
      · exact Nat.le_trans hxy (hy.1 z hz)
    · rename_i hxy
      refine List.pairwise_cons.2 ⟨?_, ih hy.2⟩
      intro z hz
      rcases List.mem_cons.1 ((insertByKey_perm x ys).subset hz) with e | hz
      · subst e; omega
      · exact hy.1 z hz

theorem sortByKey_sorted (m : List (Nat × Content)) : (sortByKey m).Pairwise (fun a b => a.1 ≤ b.1) := by
  induction m with
  | nil => simp [sortByKey]
  | cons x xs ih =>
    simp only [sortByKey, List.foldr_cons]
    exact insertByKey_sorted x ih

/-- two listings of one map (distinct keys) are visited in the same order -/
theorem sortByKey_eq_of_perm {m m' : List (Nat × Content)} (hp : m.Perm m') (hk : (m.map (·.1)).Nodup) :
    sortByKey m = sortByKey m' := by
  apply List.Perm.eq_of_pairwise (le := fun a b => a.1 ≤ b.1)
  · intro a b ha hb h1 h2
    have ha' : a ∈ m := (sortByKey_perm m).subset ha
    have hb' : b ∈ m := hp.symm.subset ((sortByKey_perm m').subset hb)
    exact entry_unique hk ha' hb' (Nat.le_antisymm h1 h2)
  · exact sortByKey_sorted m
  · exact sortByKey_sorted m'
  · exact (sortByKey_perm m).trans (hp.trans (sortByKey_perm m').symm)

end SafeNet.Quorum
