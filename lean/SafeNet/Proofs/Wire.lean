import SafeNet.Proofs.MsgPack
import SafeNet.Model.Wire
import SafeNet.Gen.WireShape
/-!
Helper lemmas for C12: the serde-tree embedding produces well-formed MessagePack values, and the type-directed
reader `ofVal` inverts `toVal` on every value of every (well-formed) schema.
-/
namespace SafeNet.Wire
open SafeNet.MsgPack

/-- schemas whose values never serialise to `nil` (so `Some(x)` and `None` cannot be confused) -/
def nonNil : Schema → Bool
  | .unit => false
  | .opt _ => false
  | .absent => false
  | _ => true

mutual
/-- well-formed schema: the payload of every `Option` is a non-nil type -/
def schemaOk : Schema → Bool
  | .opt s => nonNil s && schemaOk s
  | .seq s => schemaOk s
  | .tup ss => schemaOkList ss
  | .enum vs => schemaOkVariants vs
  | _ => true
def schemaOkList : List Schema → Bool
  | [] => true
  | s :: ss => schemaOk s && schemaOkList ss
def schemaOkVariants : List (List Nat × Schema) → Bool
  | [] => true
  | (_, p) :: rest => schemaOk p && schemaOkVariants rest
end

def nameOk (n : List Nat) : Bool := n.length < 4294967296 && isBytes n

mutual
/-- sizes fit the 32-bit length fields, integers fit 64 bits, bytes are bytes -/
def treeWf : Tree → Bool
  | .unit => true
  | .bool _ => true
  | .u n => n < 18446744073709551616
  | .i m => m < 9223372036854775808
  | .str s => nameOk s
  | .bytes s => nameOk s
  | .none => true
  | .some t => treeWf t
  | .seq ts => ts.length < 4294967296 && treeWfList ts
  | .tup ts => ts.length < 4294967296 && treeWfList ts
  | .uvar n => nameOk n
  | .nvar n t => nameOk n && treeWf t
def treeWfList : List Tree → Bool
  | [] => true
  | t :: ts => treeWf t && treeWfList ts
end

theorem toVals_length (ts : List Tree) : (toVals ts).length = ts.length := by
  induction ts with
  | nil => rfl
  | cons t ts ih => simp [toVals, ih]

mutual
theorem toVal_wf' : (t : Tree) → treeWf t = true → wf (toVal t) = true
  | .unit, _ => rfl
  | .bool _, _ => rfl
  | .u n, h => by simpa [treeWf, toVal, wf] using h
  | .i m, h => by simpa [treeWf, toVal, wf] using h
  | .str s, h => by simpa [treeWf, toVal, wf, nameOk] using h
  | .bytes s, h => by simpa [treeWf, toVal, wf, nameOk] using h
  | .none, _ => rfl
  | .some t, h => by
      simp only [treeWf] at h; simp only [toVal]; exact toVal_wf' t h
  | .seq ts, h => by
      simp only [treeWf, Bool.and_eq_true, decide_eq_true_eq] at h
      simp only [toVal, wf, Bool.and_eq_true, decide_eq_true_eq, toVals_length]
      exact ⟨h.1, toVals_wf ts h.2⟩
  | .tup ts, h => by
      simp only [treeWf, Bool.and_eq_true, decide_eq_true_eq] at h
      simp only [toVal, wf, Bool.and_eq_true, decide_eq_true_eq, toVals_length]
      exact ⟨h.1, toVals_wf ts h.2⟩
  | .uvar n, h => by simpa [treeWf, toVal, wf, nameOk] using h
  | .nvar n t, h => by
      simp only [treeWf, Bool.and_eq_true] at h
      have := toVal_wf' t h.2
      have hn := h.1
      simp only [nameOk, Bool.and_eq_true, decide_eq_true_eq] at hn
      simp [toVal, wf, wfPairs, this, hn.1, hn.2]
theorem toVals_wf : (ts : List Tree) → treeWfList ts = true → wfList (toVals ts) = true
  | [], _ => rfl
  | t :: ts, h => by
      simp only [treeWfList, Bool.and_eq_true] at h
      simp only [toVals, wfList, Bool.and_eq_true]
      exact ⟨toVal_wf' t h.1, toVals_wf ts h.2⟩
end

theorem toVal_wf (t : Tree) (h : treeWf t = true) : WellFormed (toVal t) := toVal_wf' t h

theorem toVal_ne_nil (s : Schema) (t : Tree) (hn : nonNil s = true) (hc : conforms s t = true) :
    toVal t ≠ .nil := by
  cases s <;> cases t <;> simp [conforms, nonNil] at hc hn <;> simp [toVal]

theorem ofVal_opt_of_ne_nil (s : Schema) (v : Val) (h : v ≠ .nil) :
    ofVal (.opt s) v = (ofVal s v).map .some := by
  cases v <;> first | (exact absurd rfl h) | simp [ofVal]

theorem toVals_cons_mapM (s : Schema) (ts : List Tree)
    (ih : ∀ t ∈ ts, ofVal s (toVal t) = some t) : (toVals ts).mapM (ofVal s) = some ts := by
  induction ts with
  | nil => rfl
  | cons t ts iht =>
    simp only [toVals, List.mapM_cons, ih t (by simp), iht (fun x hx => ih x (by simp [hx]))]
    rfl

theorem conforms_absent (t : Tree) : conforms .absent t = false := by
  cases t <;> simp [conforms]

theorem ofVal_absent (v : Val) : ofVal .absent v = none := by
  cases v <;> simp [ofVal]

mutual
theorem ofVal_toVal (s : Schema) (t : Tree) (hs : schemaOk s = true) (hc : conforms s t = true) :
    ofVal s (toVal t) = some t := by
  match s, t with
  | .unit, .unit => rfl
  | .bool, .bool _ => rfl
  | .uint bound, .u n => simp only [conforms, decide_eq_true_eq] at hc; simp [toVal, ofVal, hc]
  | .str, .str x => simp only [conforms] at hc; simp [toVal, ofVal, hc]
  | .bytes, .bytes _ => rfl
  | .bytesN n, .bytes x => simp only [conforms, decide_eq_true_eq] at hc; simp [toVal, ofVal, hc]
  | .opt _, .none => rfl
  | .opt s', .some t' =>
    simp only [schemaOk, Bool.and_eq_true] at hs
    simp only [conforms] at hc
    simp only [toVal]
    rw [ofVal_opt_of_ne_nil s' _ (toVal_ne_nil s' t' hs.1 hc), ofVal_toVal s' t' hs.2 hc]; rfl
  | .seq s', .seq ts =>
    simp only [schemaOk] at hs
    simp only [conforms, List.all_eq_true] at hc
    simp only [toVal, ofVal]
    rw [toVals_cons_mapM s' ts (fun x hx => ofVal_toVal s' x hs (hc x hx))]; rfl
  | .tup ss, .tup ts =>
    simp only [schemaOk] at hs
    simp only [conforms] at hc
    simp only [toVal, ofVal]
    rw [ofValTup_toVals ss ts hs hc]; rfl
  | .enum vs, .uvar name => simp only [conforms] at hc; simp [toVal, ofVal, hc]
  | .enum vs, .nvar name t' =>
    simp only [schemaOk] at hs
    simp only [conforms] at hc
    simp only [toVal, ofVal]
    exact ofValVariant_toVal vs name t' hs hc
  | .unit, .bool _ | .unit, .u _ | .unit, .i _ | .unit, .str _ | .unit, .bytes _ | .unit, .none | .unit, .some _
  | .unit, .seq _ | .unit, .tup _ | .unit, .uvar _ | .unit, .nvar _ _ => simp [conforms] at hc
  | .bool, .unit | .bool, .u _ | .bool, .i _ | .bool, .str _ | .bool, .bytes _ | .bool, .none | .bool, .some _
  | .bool, .seq _ | .bool, .tup _ | .bool, .uvar _ | .bool, .nvar _ _ => simp [conforms] at hc
  | .uint _, .unit | .uint _, .bool _ | .uint _, .i _ | .uint _, .str _ | .uint _, .bytes _ | .uint _, .none | .uint _, .some _
  | .uint _, .seq _ | .uint _, .tup _ | .uint _, .uvar _ | .uint _, .nvar _ _ => simp [conforms] at hc
  | .str, .unit | .str, .bool _ | .str, .u _ | .str, .i _ | .str, .bytes _ | .str, .none | .str, .some _
  | .str, .seq _ | .str, .tup _ | .str, .uvar _ | .str, .nvar _ _ => simp [conforms] at hc
  | .bytes, .unit | .bytes, .bool _ | .bytes, .u _ | .bytes, .i _ | .bytes, .str _ | .bytes, .none | .bytes, .some _
  | .bytes, .seq _ | .bytes, .tup _ | .bytes, .uvar _ | .bytes, .nvar _ _ => simp [conforms] at hc
  | .bytesN _, .unit | .bytesN _, .bool _ | .bytesN _, .u _ | .bytesN _, .i _ | .bytesN _, .str _ | .bytesN _, .none | .bytesN _, .some _
  | .bytesN _, .seq _ | .bytesN _, .tup _ | .bytesN _, .uvar _ | .bytesN _, .nvar _ _ => simp [conforms] at hc
  | .opt _, .unit | .opt _, .bool _ | .opt _, .u _ | .opt _, .i _ | .opt _, .str _ | .opt _, .bytes _
  | .opt _, .seq _ | .opt _, .tup _ | .opt _, .uvar _ | .opt _, .nvar _ _ => simp [conforms] at hc
  | .seq _, .unit | .seq _, .bool _ | .seq _, .u _ | .seq _, .i _ | .seq _, .str _ | .seq _, .bytes _ | .seq _, .none | .seq _, .some _
  | .seq _, .tup _ | .seq _, .uvar _ | .seq _, .nvar _ _ => simp [conforms] at hc
  | .tup _, .unit | .tup _, .bool _ | .tup _, .u _ | .tup _, .i _ | .tup _, .str _ | .tup _, .bytes _ | .tup _, .none | .tup _, .some _
  | .tup _, .seq _ | .tup _, .uvar _ | .tup _, .nvar _ _ => simp [conforms] at hc
  | .enum _, .unit | .enum _, .bool _ | .enum _, .u _ | .enum _, .i _ | .enum _, .str _ | .enum _, .bytes _ | .enum _, .none | .enum _, .some _
  | .enum _, .seq _ | .enum _, .tup _ => simp [conforms] at hc
  | .absent, _ => simp [conforms] at hc
termination_by sizeOf s
decreasing_by
  all_goals simp_wf
  all_goals omega
theorem ofValTup_toVals (ss : List Schema) (ts : List Tree) (hs : schemaOkList ss = true)
    (hc : conformsTup ss ts = true) : ofValTup ss (toVals ts) = some ts := by
  match ss, ts with
  | [], [] => rfl
  | s :: ss', t :: ts' =>
    simp only [schemaOkList, Bool.and_eq_true] at hs
    simp only [conformsTup, Bool.and_eq_true] at hc
    simp only [toVals, ofValTup, ofVal_toVal s t hs.1 hc.1, ofValTup_toVals ss' ts' hs.2 hc.2]
    rfl
  | [], _ :: _ => simp [conformsTup] at hc
  | _ :: _, [] => simp [conformsTup] at hc
termination_by sizeOf ss
decreasing_by
  all_goals simp_wf
  all_goals omega
theorem ofValVariant_toVal (vs : List (List Nat × Schema)) (name : List Nat) (t : Tree)
    (hs : schemaOkVariants vs = true) (hc : conformsVariant vs name t = true) :
    ofValVariant vs name (toVal t) = some (.nvar name t) := by
  match vs with
  | [] => simp [conformsVariant] at hc
  | (n, p) :: rest =>
    simp only [schemaOkVariants, Bool.and_eq_true] at hs
    cases hn : (n == name) with
    | true =>
      simp only [conformsVariant, hn] at hc
      simp only [ofValVariant, hn]
      rw [ofVal_toVal p t hs.1 hc]; rfl
    | false =>
      simp only [conformsVariant, hn] at hc
      simp only [ofValVariant, hn]
      exact ofValVariant_toVal rest name t hs.2 hc
termination_by sizeOf vs
decreasing_by
  all_goals simp_wf
  all_goals omega
end

/-! ## header entry points: the chunk test and `try_deserialize` on whole slices -/

open SafeNet.Gen.Wire in
theorem is_chunk_spec (bs : List Nat) :
    (isChunk bs = none ↔ fromRecord bs = none) ∧
    (isChunk bs = some true ↔ fromRecord bs = some .Chunk) ∧
    (∀ b, isChunk bs = some b → ∃ k, fromRecord bs = some k ∧ b = (k == .Chunk)) := by
  unfold isChunk
  simp only [isChunkViaFromRecord, ↓reduceIte]
  cases h : fromRecord bs with
  | none => simp
  | some k => cases k <;> simp

open SafeNet.Gen.Wire in
theorem elem_two (b1 b2 : Nat) :
    (match decodeHead [b1, b2] with | some (.uint n, _) => tagKind n | _ => none) =
      (if b1 < 0x80 then tagKind b1 else if b1 = 0xcc then tagKind b2
       else if b1 = 0xd0 then (if b2 < 0x80 then tagKind b2 else none) else none) := by
  simp only [decodeHead]
  by_cases c0 : b1 < 128
  · simp [c0]
  by_cases c1 : b1 = 204
  · subst c1; simp [readBE, fromBE]
  by_cases c2 : b1 = 208
  · subst c2
    by_cases c3 : b2 < 128
    · simp [readBE, fromBE, signedHead, c3]
    · simp [readBE, fromBE, signedHead, c3]
  simp only [c0, c1, c2, ↓reduceIte]
  split
  · rename_i h
    exfalso
    by_cases d0 : b1 < 144
    · rw [if_pos d0] at h; simp [readBE] at h
    rw [if_neg d0] at h
    by_cases d1 : b1 < 160
    · rw [if_pos d1] at h; simp [readBE] at h
    rw [if_neg d1] at h
    by_cases d2 : b1 < 192
    · rw [if_pos d2] at h; simp [readBE] at h
    rw [if_neg d2] at h
    by_cases d3 : b1 = 192
    · rw [if_pos d3] at h; simp [readBE] at h
    rw [if_neg d3] at h
    by_cases d4 : b1 = 194
    · rw [if_pos d4] at h; simp [readBE] at h
    rw [if_neg d4] at h
    by_cases d5 : b1 = 195
    · rw [if_pos d5] at h; simp [readBE] at h
    rw [if_neg d5] at h
    by_cases d6 : b1 = 196
    · rw [if_pos d6] at h; simp [readBE] at h
    rw [if_neg d6] at h
    by_cases d7 : b1 = 197
    · rw [if_pos d7] at h; simp [readBE] at h
    rw [if_neg d7] at h
    by_cases d8 : b1 = 198
    · rw [if_pos d8] at h; simp [readBE] at h
    rw [if_neg d8] at h
    by_cases d9 : b1 = 205
    · rw [if_pos d9] at h; simp [readBE] at h
    rw [if_neg d9] at h
    by_cases d10 : b1 = 206
    · rw [if_pos d10] at h; simp [readBE] at h
    rw [if_neg d10] at h
    by_cases d11 : b1 = 207
    · rw [if_pos d11] at h; simp [readBE] at h
    rw [if_neg d11] at h
    by_cases d12 : b1 = 209
    · rw [if_pos d12] at h; simp [readBE] at h
    rw [if_neg d12] at h
    by_cases d13 : b1 = 210
    · rw [if_pos d13] at h; simp [readBE] at h
    rw [if_neg d13] at h
    by_cases d14 : b1 = 211
    · rw [if_pos d14] at h; simp [readBE] at h
    rw [if_neg d14] at h
    by_cases d15 : b1 = 217
    · rw [if_pos d15] at h; simp [readBE] at h
    rw [if_neg d15] at h
    by_cases d16 : b1 = 218
    · rw [if_pos d16] at h; simp [readBE] at h
    rw [if_neg d16] at h
    by_cases d17 : b1 = 219
    · rw [if_pos d17] at h; simp [readBE] at h
    rw [if_neg d17] at h
    by_cases d18 : b1 = 220
    · rw [if_pos d18] at h; simp [readBE] at h
    rw [if_neg d18] at h
    by_cases d19 : b1 = 221
    · rw [if_pos d19] at h; simp [readBE] at h
    rw [if_neg d19] at h
    by_cases d20 : b1 = 222
    · rw [if_pos d20] at h; simp [readBE] at h
    rw [if_neg d20] at h
    by_cases d21 : b1 = 223
    · rw [if_pos d21] at h; simp [readBE] at h
    rw [if_neg d21] at h
    by_cases d22 : 224 ≤ b1 ∧ b1 < 256
    · rw [if_pos d22] at h; simp [readBE] at h
    rw [if_neg d22] at h
    cases h
  · rfl

open SafeNet.Gen.Wire in
theorem tryDeserialize_window (b0 b1 b2 : Nat) :
    headerTryDeserialize [b0, b1, b2] = headerFromWindow [b0, b1, b2] := by
  unfold headerTryDeserialize
  split
  · rename_i heq; simp only [List.cons.injEq, and_true] at heq
    obtain ⟨rfl, rfl⟩ := heq
    simp only [headerFromWindow, ↓reduceIte]
    exact elem_two b1 b2
  · rename_i heq; simp only [List.cons.injEq, and_true] at heq
    obtain ⟨rfl, rfl, rfl, rfl⟩ := heq
    simp [headerFromWindow, decodeHead]
  · rename_i heq; simp at heq
  · rename_i heq; simp only [List.cons.injEq, and_true] at heq
    obtain ⟨rfl, rfl, rfl, rfl⟩ := heq
    simp [headerFromWindow]
  · rename_i heq; simp at heq
  · rename_i heq; simp at heq
  · rename_i heq; simp only [List.cons.injEq, and_true] at heq
    obtain ⟨rfl, rfl, rfl⟩ := heq
    simp [headerFromWindow]
  · rename_i bs x5 x4 x3 x2 x1 x0 heq
    have h91 : b0 ≠ 145 := fun e => x5 [b1, b2] (by simp [e])
    have hc4 : ¬ (b0 = 196 ∧ b1 = 1) := fun ⟨e1, e2⟩ => x2 b2 [] (by simp [e1, e2])
    have h81 : ¬ (b0 = 129 ∧ b1 = 0) := fun ⟨e1, e2⟩ => heq b2 (by simp [e1, e2])
    simp only [headerFromWindow]
    rw [if_neg h91]
    by_cases c1 : b0 = 196
    · have : b1 ≠ 1 := fun e => hc4 ⟨c1, e⟩
      simp [c1, this]
    · rw [if_neg c1]
      by_cases c2 : b0 = 129
      · have : b1 ≠ 0 := fun e => h81 ⟨c2, e⟩
        simp [c2, this]
      · simp [c2]

/-! ## tie of the hand-written schemas to the source's type definitions (`Gen.WireShape`) -/

section Shapes
open SafeNet.Gen.WireShape

/-- does a schema payload have the shape serde derives for the variant? -/
def shapeOk : VShape → Schema → Bool
  | .unit, .absent => true
  | .unit, _ => false
  | .newtype, .absent => false
  | .newtype, _ => true
  | .fields names, .tup ss => ss.length == names.length
  | .fields _, _ => false

/-- the schema describes exactly the variants of the source enum (by name, any order), each with the derived shape -/
def enumTied (gen : List (String × VShape)) : Schema → Bool
  | .enum vs =>
    gen.length == vs.length &&
    gen.all (fun g => match vs.find? (fun v => v.1 == nm g.1) with
      | some v => shapeOk g.2 v.2
      | none => false) &&
    (gen.map (·.1)).eraseDups.length == gen.length
  | _ => false

/-- the schema has one position per field of the source struct -/
def structTied (gen : List String) : Schema → Bool
  | .tup ss => ss.length == gen.length
  | _ => false

/-- same variants (as a set) -/
def sameVariants (a b : List (String × VShape)) : Bool :=
  a.length == b.length && a.all (b.contains ·) && b.all (a.contains ·)

end Shapes

end SafeNet.Wire
