import SafeNet.Proofs.Lifecycle
/-!
# C19: the ports an `add` records (requested ranges)

What `add_node` records for the services of one call when every port is requested (node / metrics / RPC ranges, no
`get_available_port`): service `num0 + d` records, for each requested range `(a, b)`, the port `a + d`. With the checks
in front of the loop — each range against the registry (`check_port_availability`), the ranges against each other
(`check_port_ranges_disjoint`) — no two recorded ports are equal.
-/
namespace SafeNet.Lifecycle

/-- The ports an entry records. -/
def svcPorts (s : Svc) : List Nat := s.metricsPort.toList ++ s.nodePort.toList ++ [s.rpcPort]

theorem allPorts_eq (reg : List Svc) : allPorts reg = reg.flatMap svcPorts := rfl

theorem allPorts_append (r1 r2 : List Svc) : allPorts (r1 ++ r2) = allPorts r1 ++ allPorts r2 := by
  simp [allPorts]

/-- Two ranges share no port. -/
def NoOverlap (x y : Nat × Nat) : Prop := ¬ (max x.1 y.1 ≤ min x.2 y.2)

theorem NoOverlap.symm {x y : Nat × Nat} (h : NoOverlap x y) : NoOverlap y x := by
  unfold NoOverlap at *
  rw [Nat.max_comm, Nat.min_comm]; exact h

/-- The requested ranges in the order metrics, node, RPC (the order of `svcPorts`). -/
def slots (np mp rp : Option (Nat × Nat)) : List (Nat × Nat) := mp.toList ++ np.toList ++ rp.toList

theorem overlapErr_none {a b : Option (Nat × Nat)} (h : overlapErr a b = none) :
    ∀ x ∈ a.toList, ∀ y ∈ b.toList, NoOverlap x y := by
  intro x hx y hy
  cases a with
  | none => simp at hx
  | some a =>
    cases b with
    | none => simp at hy
    | some b =>
      simp only [Option.toList_some, List.mem_singleton] at hx hy
      subst hx; subst hy
      unfold overlapErr at h
      simp only at h
      split at h
      · cases h
      · assumption

theorem pairwise_toList {α : Type} (R : α → α → Prop) (o : Option α) : o.toList.Pairwise R := by
  cases o <;> simp

/-- Translator tie: `add_node` checks the requested ranges against each other (regenerated from add_services/mod.rs). -/
theorem checkDisjoint_none {np mp rp : Option (Nat × Nat)} (h : checkDisjoint np mp rp = none) :
    (slots np mp rp).Pairwise NoOverlap := by
  unfold checkDisjoint at h
  simp only [Gen.Lifecycle.requestedRangesDisjointChecked, if_true] at h
  split at h
  · cases h
  · rename_i h1
    split at h
    · cases h
    · rename_i h2
      have a1 := overlapErr_none h1
      have a2 := overlapErr_none h2
      have a3 := overlapErr_none h
      unfold slots
      rw [List.pairwise_append, List.pairwise_append]
      refine ⟨⟨pairwise_toList _ _, pairwise_toList _ _, a1⟩, pairwise_toList _ _, ?_⟩
      intro x hx y hy
      rcases List.mem_append.mp hx with hx | hx
      · exact (a3 y hy x hx).symm
      · exact (a2 y hy x hx).symm

theorem checkDisjoint_none' {np mp rp : Option (Nat × Nat)} (h : checkDisjoint np mp rp = none) :
    overlapErr mp np = none ∧ overlapErr rp np = none ∧ overlapErr rp mp = none := by
  unfold checkDisjoint at h
  simp only [Gen.Lifecycle.requestedRangesDisjointChecked, if_true] at h
  split at h
  · cases h
  · rename_i h1
    split at h
    · cases h
    · rename_i h2
      exact ⟨h1, h2, h⟩

theorem mem_prPorts (x : Nat × Nat) (p : Nat) : p ∈ prPorts x ↔ x.1 ≤ p ∧ p < x.1 + prCount x := by
  unfold prPorts prCount
  rw [List.mem_range'_1]

theorem checkRange_none {r : Option (Nat × Nat)} {count : Nat} {ports : List Nat} (h : checkRange r count ports = none) :
    ∀ x ∈ r.toList, count = prCount x ∧ ∀ p, x.1 ≤ p → p < x.1 + count → p ∉ ports := by
  intro x hx
  cases r with
  | none => simp at hx
  | some r =>
    simp only [Option.toList_some, List.mem_singleton] at hx
    subst hx
    unfold checkRange at h
    simp only at h
    split at h
    · cases h
    · rename_i hc
      have hc' : count = prCount x := by
        cases hd : decide (count = prCount x) with
        | true => exact of_decide_eq_true hd
        | false => exact absurd (of_decide_eq_false hd) hc
      refine ⟨hc', ?_⟩
      split at h
      · cases h
      · rename_i hnone
        intro p h1 h2 hin
        have := List.find?_eq_none.mp hnone p ((mem_prPorts x p).mpr ⟨h1, hc' ▸ h2⟩)
        simp [hin] at this

theorem pairwise_mem {α : Type} {R : α → α → Prop} (hs : ∀ a b, R a b → R b a) {l : List α} (h : l.Pairwise R) :
    ∀ a ∈ l, ∀ b ∈ l, a = b ∨ R a b := by
  induction l with
  | nil => intro a ha; cases ha
  | cons c r ih =>
    rw [List.pairwise_cons] at h
    intro a ha b hb
    simp only [List.mem_cons] at ha hb
    rcases ha with rfl | ha <;> rcases hb with rfl | hb
    · left; rfl
    · right; exact h.1 b hb
    · right; exact hs _ _ (h.1 a ha)
    · exact ih h.2 a ha b hb

/-- Ranges of one length `count` that share no port: equal offsets land on different ports ... -/
theorem noOverlap_ne {x y : Nat × Nat} {count d d' : Nat} (hx : count = prCount x) (hy : count = prCount y)
    (hd : d < count) (hd' : d' < count) (h : NoOverlap x y) : x.1 + d ≠ y.1 + d' := by
  unfold NoOverlap at h
  unfold prCount at hx hy
  rw [Nat.max_def, Nat.min_def] at h
  split at h <;> split at h <;> omega

/-- The ports service `num0 + d` gets from the requested ranges. -/
def portsAt (sl : List (Nat × Nat)) (d : Nat) : List Nat := sl.map (fun x => x.1 + d)

theorem portsAt_nodup {sl : List (Nat × Nat)} {count d : Nat} (hp : sl.Pairwise NoOverlap)
    (hc : ∀ x ∈ sl, count = prCount x) (hd : d < count) : (portsAt sl d).Nodup := by
  unfold portsAt
  rw [List.Nodup, List.pairwise_map]
  exact hp.imp_of_mem (fun {x y} hx hy h => noOverlap_ne (hc x hx) (hc y hy) hd hd h)

theorem portsAt_disjoint {sl : List (Nat × Nat)} {count d d' : Nat} (hp : sl.Pairwise NoOverlap)
    (hc : ∀ x ∈ sl, count = prCount x) (hd : d < count) (hd' : d' < count) (hne : d ≠ d') :
    ∀ p ∈ portsAt sl d, p ∉ portsAt sl d' := by
  intro p h1 h2
  unfold portsAt at h1 h2
  obtain ⟨x, hx, rfl⟩ := List.mem_map.mp h1
  obtain ⟨y, hy, he⟩ := List.mem_map.mp h2
  rcases pairwise_mem (fun _ _ h => NoOverlap.symm h) hp x hx y hy with rfl | hno
  · omega
  · exact noOverlap_ne (hc x hx) (hc y hy) hd hd' hno he.symm

theorem portsAt_free {sl : List (Nat × Nat)} {count d : Nat} {ports : List Nat}
    (hf : ∀ x ∈ sl, ∀ p, x.1 ≤ p → p < x.1 + count → p ∉ ports) (hd : d < count) :
    ∀ p ∈ portsAt sl d, p ∉ ports := by
  intro p hp
  obtain ⟨x, hx, rfl⟩ := List.mem_map.mp hp
  exact hf x hx _ (Nat.le_add_right _ _) (by omega)

/-! ## The install loop when every port is requested -/

/-- What the loop started at `(num, npc, mpc, r)` records for an entry: ports at the entry's offset. -/
def NewAt (num : Nat) (npc mpc : Option Nat) (r k : Nat) (e : Svc) : Prop :=
  num ≤ e.number ∧ e.number < num + k ∧ e.nodePort = npc.map (· + (e.number - num)) ∧
  e.metricsPort = mpc.map (· + (e.number - num)) ∧ e.rpcPort = r + (e.number - num)

theorem addOne_requested (num : Nat) (np mp : Option Nat) (r : Nat) (metrics : Bool) (ver : Nat) (a : AddAcc)
    (hmp : mp.isSome = true ∨ metrics = false) :
    (addOne num np mp (some r) metrics ver a).w.reg = a.w.reg ∨
    ∃ e, (addOne num np mp (some r) metrics ver a).w.reg = a.w.reg ++ [e] ∧ e.number = num ∧ e.nodePort = np ∧
      e.metricsPort = mp ∧ e.rpcPort = r := by
  have hports : addPorts mp (some r) metrics a.w a.fx = (some (r, mp), a.w, a.fx) := by
    unfold addPorts
    cases mp with
    | some m => rfl
    | none =>
      rcases hmp with h | h
      · cases h
      · subst h; rfl
  unfold addOne
  rw [hports]
  simp only
  split
  · left; rfl
  · left; rfl
  · right; exact ⟨_, rfl, rfl, rfl, rfl, rfl⟩

theorem addLoop_requested (k num : Nat) (np mp : Option Nat) (r : Nat) (metrics : Bool) (ver : Nat) (a : AddAcc)
    (hmp : mp.isSome = true ∨ metrics = false) :
    ∃ new, (addLoop k num np mp (some r) metrics ver a).w.reg = a.w.reg ++ new ∧ ∀ e ∈ new, NewAt num np mp r k e := by
  induction k generalizing num np mp r a with
  | zero => exact ⟨[], by simp [addLoop], fun _ h => by cases h⟩
  | succ k ih =>
    have hmp' : (mp.map (· + 1)).isSome = true ∨ metrics = false := by
      rcases hmp with h | h
      · left; cases mp <;> simp_all
      · right; exact h
    have hstep : ∃ n1, (addOne num np mp (some r) metrics ver a).w.reg = a.w.reg ++ n1 ∧
        ∀ e ∈ n1, NewAt num np mp r (k + 1) e := by
      rcases addOne_requested num np mp r metrics ver a hmp with h | ⟨e, h, h1, h2, h3, h4⟩
      · exact ⟨[], by simpa using h, fun _ h => by cases h⟩
      · refine ⟨[e], h, ?_⟩
        intro e' he'
        simp only [List.mem_singleton] at he'
        subst he'
        refine ⟨by omega, by omega, ?_, ?_, ?_⟩
        · rw [h2, h1]; cases np <;> simp
        · rw [h3, h1]; cases mp <;> simp
        · rw [h4, h1]; simp
    unfold addLoop
    dsimp only
    split
    · exact hstep
    · obtain ⟨n1, e1, a1⟩ := hstep
      obtain ⟨n2, e2, a2⟩ := ih (num + 1) (np.map (· + 1)) (mp.map (· + 1)) (r + 1)
        (addOne num np mp (some r) metrics ver a) hmp'
      have e2' : (addLoop k (num + 1) (np.map (· + 1)) (mp.map (· + 1)) ((some r).map (· + 1)) metrics ver
          (addOne num np mp (some r) metrics ver a)).w.reg = (addOne num np mp (some r) metrics ver a).w.reg ++ n2 := e2
      refine ⟨n1 ++ n2, by rw [e2', e1, List.append_assoc], ?_⟩
      intro e he
      rcases List.mem_append.mp he with h | h
      · exact a1 e h
      · obtain ⟨g1, g2, g3, g4, g5⟩ := a2 e h
        refine ⟨by omega, by omega, ?_, ?_, ?_⟩
        · rw [g3]; cases np with
          | none => rfl
          | some x => simp only [Option.map_some]; congr 1; omega
        · rw [g4]; cases mp with
          | none => rfl
          | some x => simp only [Option.map_some]; congr 1; omega
        · rw [g5]; omega

/-- The ports of a new entry are the requested ranges at the entry's offset. -/
theorem newAt_ports {num0 : Nat} {np mp : Option (Nat × Nat)} {rr : Nat × Nat} {k : Nat} {e : Svc}
    (h : NewAt num0 (np.map (·.1)) (mp.map (·.1)) rr.1 k e) :
    svcPorts e = portsAt (slots np mp (some rr)) (e.number - num0) := by
  obtain ⟨_, _, g3, g4, g5⟩ := h
  unfold svcPorts portsAt slots
  rw [g3, g4, g5]
  cases np <;> cases mp <;> simp

end SafeNet.Lifecycle
