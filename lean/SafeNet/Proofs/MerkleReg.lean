import SafeNet.Model.MerkleReg
/-!
# `MerkleReg` convergence: the state reached is a function of the *set* of received nodes

`Inv R s` says that `s` is the canonical state for the received set `R`:
the dag is the well-founded closure `InDag R`, the orphans are the rest of `R`, the roots are the dag
nodes without a parent in the dag. `apply` preserves it (`inv_apply`), so any two delivery orders of the
same set of nodes reach equivalent states (`equiv_of_inv`).
-/
namespace SafeNet.MerkleReg

/-! ## Basic predicates -/

/-- All children of `n` are hashes of nodes of `d`. -/
def Ready (d : List Node) (n : Node) : Prop := ∀ c ∈ n.children, ∃ x ∈ d, x.hash = c

/-- Hashes that are well-founded in `R`: the hash of a node of `R` all of whose child hashes are grounded. -/
inductive Grounded (R : List Node) : Nat → Prop
  | mk (n : Node) : n ∈ R → (∀ c ∈ n.children, Grounded R c) → Grounded R n.hash

/-- Nodes of `R` whose whole ancestry (through child hashes) is in `R`: what ends up in the dag. -/
def InDag (R : List Node) (n : Node) : Prop := n ∈ R ∧ ∀ c ∈ n.children, Grounded R c

/-- Hash consistency (collision-freedom on the nodes under consideration). -/
def HC (R : List Node) : Prop := ∀ a ∈ R, ∀ b ∈ R, a.hash = b.hash → a = b

/-- No two nodes of the list share a hash. -/
def HashNodup (l : List Node) : Prop := (l.map (·.hash)).Nodup

theorem inDag_iff (m : MReg) (h : Nat) : inDag m h = true ↔ ∃ x ∈ m.dag, x.hash = h := by
  simp [inDag]

theorem inOrphans_iff (m : MReg) (h : Nat) : inOrphans m h = true ↔ ∃ x ∈ m.orphans, x.hash = h := by
  simp [inOrphans]

theorem allSeen_iff (m : MReg) (n : Node) : allSeen m n.children = true ↔ Ready m.dag n := by
  simp [allSeen, Ready, inDag]

theorem Ready.mono {d d' : List Node} {n : Node} (hs : ∀ x ∈ d, x ∈ d') (h : Ready d n) : Ready d' n := by
  intro c hc
  obtain ⟨x, hx, hxc⟩ := h c hc
  exact ⟨x, hs x hx, hxc⟩

theorem Grounded.mono {R R' : List Node} (hs : ∀ x ∈ R, x ∈ R') {h : Nat} (g : Grounded R h) :
    Grounded R' h := by
  induction g with
  | mk n hn _ ih => exact Grounded.mk n (hs n hn) ih

theorem InDag.mono {R R' : List Node} (hs : ∀ x ∈ R, x ∈ R') {n : Node} (h : InDag R n) : InDag R' n :=
  ⟨hs n h.1, fun c hc => (h.2 c hc).mono hs⟩

theorem InDag.grounded {R : List Node} {n : Node} (h : InDag R n) : Grounded R n.hash :=
  Grounded.mk n h.1 h.2

theorem grounded_iff {R : List Node} {h : Nat} : Grounded R h ↔ ∃ m, InDag R m ∧ m.hash = h := by
  constructor
  · intro g
    cases g with
    | mk n hn hc => exact ⟨n, ⟨hn, hc⟩, rfl⟩
  · rintro ⟨m, hm, rfl⟩
    exact hm.grounded

/-- `InDag R` is the least fixpoint of "in `R` and every child hash is the hash of an `InDag R` node". -/
theorem inDag_unfold {R : List Node} {n : Node} :
    InDag R n ↔ n ∈ R ∧ ∀ c ∈ n.children, ∃ m, InDag R m ∧ m.hash = c := by
  unfold InDag
  constructor
  · exact fun ⟨h1, h2⟩ => ⟨h1, fun c hc => grounded_iff.mp (h2 c hc)⟩
  · exact fun ⟨h1, h2⟩ => ⟨h1, fun c hc => grounded_iff.mpr (h2 c hc)⟩

/-- `InDag` depends only on the member set of `R`. -/
theorem inDag_congr {R R' : List Node} (h : ∀ x, x ∈ R ↔ x ∈ R') (n : Node) : InDag R n ↔ InDag R' n :=
  ⟨InDag.mono (fun x hx => (h x).mp hx), InDag.mono (fun x hx => (h x).mpr hx)⟩

theorem HashNodup.nodup {l : List Node} (h : HashNodup l) : l.Nodup := by
  unfold HashNodup at h
  rw [List.Nodup, List.pairwise_map] at h
  exact h.imp (fun hab heq => hab (by rw [heq]))

theorem HashNodup.perm {l l' : List Node} (p : l.Perm l') (h : HashNodup l) : HashNodup l' :=
  (List.Perm.nodup_iff (p.map _)).mp h

theorem HashNodup.inj {l : List Node} (h : HashNodup l) {a b : Node} (ha : a ∈ l) (hb : b ∈ l)
    (hab : a.hash = b.hash) : a = b := by
  induction l with
  | nil => cases ha
  | cons x l ih =>
    unfold HashNodup at h
    simp only [List.map_cons, List.nodup_cons, List.mem_map, not_exists, not_and] at h
    rcases List.mem_cons.mp ha with rfl | ha' <;> rcases List.mem_cons.mp hb with rfl | hb'
    · rfl
    · exact absurd hab.symm (h.1 b hb')
    · exact absurd hab (h.1 a ha')
    · exact ih h.2 ha' hb'

theorem hashNodup_cons {p : Node} {l : List Node} :
    HashNodup (p :: l) ↔ (∀ x ∈ l, x.hash ≠ p.hash) ∧ HashNodup l := by
  unfold HashNodup
  simp only [List.map_cons, List.nodup_cons, List.mem_map, not_exists, not_and]

theorem HashNodup.of_append_right {l₁ l₂ : List Node} (h : HashNodup (l₁ ++ l₂)) : HashNodup l₂ := by
  unfold HashNodup at *
  rw [List.map_append, List.nodup_append] at h
  exact h.2.1

/-! ## One insertion into the dag -/

/-- The state right after `n` is inserted into the dag (before newly-ready orphans are drained). -/
def ins1 (m : MReg) (n : Node) : MReg :=
  { roots := (m.roots.filter (fun r => !n.children.contains r)) ++ [n.hash], dag := m.dag ++ [n],
    orphans := m.orphans }

def readyOf (m : MReg) (n : Node) : List Node :=
  m.orphans.filter (fun o => allSeen (ins1 m n) o.children)

def ins (m : MReg) (n : Node) : MReg :=
  { ins1 m n with orphans := m.orphans.filter (fun o => !allSeen (ins1 m n) o.children) }

theorem applyFuel_succ_ready (fuel : Nat) (m : MReg) (n : Node)
    (h1 : inDag m n.hash = false) (h2 : inOrphans m n.hash = false) (h3 : allSeen m n.children = true) :
    applyFuel (fuel + 1) m n = (readyOf m n).foldl (applyFuel fuel) (ins m n) := by
  simp [applyFuel, h1, h2, h3, readyOf, ins, ins1]

theorem applyFuel_succ_seen (fuel : Nat) (m : MReg) (n : Node)
    (h : (inDag m n.hash || inOrphans m n.hash) = true) : applyFuel (fuel + 1) m n = m := by
  simp only [applyFuel, h, ↓reduceIte]

theorem applyFuel_succ_orphan (fuel : Nat) (m : MReg) (n : Node)
    (h1 : inDag m n.hash = false) (h2 : inOrphans m n.hash = false) (h3 : allSeen m n.children = false) :
    applyFuel (fuel + 1) m n = { m with orphans := m.orphans ++ [n] } := by
  simp [applyFuel, h1, h2, h3]

/-- Well-formedness that does not mention the received set. -/
structure W (m : MReg) : Prop where
  closed : ∀ x ∈ m.dag, InDag m.dag x
  stable : ∀ o ∈ m.orphans, ¬ Ready m.dag o
  roots : ∀ h, h ∈ m.roots ↔ (∃ x ∈ m.dag, x.hash = h) ∧ ¬ ∃ p ∈ m.dag, h ∈ p.children

theorem grounded_has_node {d : List Node} {h : Nat} (g : Grounded d h) : ∃ x ∈ d, x.hash = h := by
  cases g with | mk n hn _ => exact ⟨n, hn, rfl⟩

theorem InDag.ready {d : List Node} {n : Node} (h : InDag d n) : Ready d n :=
  fun c hc => grounded_has_node (h.2 c hc)

theorem inDag_snoc {d : List Node} {n : Node} (hc : ∀ x ∈ d, InDag d x) (hr : Ready d n) :
    ∀ x ∈ d ++ [n], InDag (d ++ [n]) x := by
  have hsub : ∀ x ∈ d, x ∈ d ++ [n] := fun x hx => List.mem_append_left _ hx
  intro x hx
  rcases List.mem_append.mp hx with hx | hx
  · exact (hc x hx).mono hsub
  · have : x = n := by simpa using hx
    subst this
    refine ⟨by simp, fun c hcx => ?_⟩
    obtain ⟨y, hy, hyc⟩ := hr c hcx
    exact hyc ▸ ((hc y hy).mono hsub).grounded

theorem W_ins {m : MReg} {n : Node} (w : W m) (hr : Ready m.dag n) (hf : ∀ x ∈ m.dag, x.hash ≠ n.hash) :
    W (ins m n) ∧ ∀ p ∈ readyOf m n, Ready (ins m n).dag p := by
  refine ⟨⟨inDag_snoc w.closed hr, ?_, ?_⟩, ?_⟩
  · intro o ho
    simp only [ins, List.mem_filter, Bool.not_eq_eq_eq_not, Bool.not_true] at ho
    intro hro
    have := (allSeen_iff (ins1 m n) o).mpr hro
    rw [this] at ho
    exact absurd ho.2 (by simp)
  · intro h
    simp only [ins, ins1, List.mem_append, List.mem_filter, List.mem_singleton, w.roots h]
    constructor
    · rintro (⟨⟨⟨x, hx, hxh⟩, hnp⟩, hnc⟩ | rfl)
      · refine ⟨⟨x, Or.inl hx, hxh⟩, ?_⟩
        rintro ⟨p, hp | rfl, hpc⟩
        · exact hnp ⟨p, hp, hpc⟩
        · simp [hpc] at hnc
      · refine ⟨⟨n, Or.inr rfl, rfl⟩, ?_⟩
        rintro ⟨p, hp | rfl, hpc⟩
        · obtain ⟨y, hy, hyh⟩ := (w.closed p hp).ready _ hpc
          exact hf y hy hyh
        · obtain ⟨y, hy, hyh⟩ := hr _ hpc
          exact hf y hy hyh
    · rintro ⟨⟨x, hx | rfl, hxh⟩, hnp⟩
      · refine Or.inl ⟨⟨⟨x, hx, hxh⟩, fun ⟨p, hp, hpc⟩ => hnp ⟨p, Or.inl hp, hpc⟩⟩, ?_⟩
        simp only [Bool.not_eq_eq_eq_not, Bool.not_true, List.contains_eq_mem, decide_eq_false_iff_not]
        exact fun hc => hnp ⟨n, Or.inr rfl, hc⟩
      · exact Or.inr hxh.symm
  · intro p hp
    simp only [readyOf, List.mem_filter] at hp
    exact (allSeen_iff (ins1 m n) p).mp hp.2

/-! ## Draining newly-ready orphans -/

/-- What applying the pending nodes `ps` to `m` must achieve. -/
structure Post (m m' : MReg) (ps : List Node) : Prop where
  w : W m'
  perm : (m'.dag ++ m'.orphans).Perm (ps ++ (m.dag ++ m.orphans))
  dagMono : ∀ x ∈ m.dag, x ∈ m'.dag
  orphLen : m'.orphans.length ≤ m.orphans.length

/-- Applying one ready, fresh node with enough fuel. -/
def PStep (fuel : Nat) : Prop := ∀ (m : MReg) (p : Node), W m → Ready m.dag p →
  HashNodup (p :: (m.dag ++ m.orphans)) → m.orphans.length + 1 ≤ fuel → Post m (applyFuel fuel m p) [p]

/-- Applying a list of ready, fresh, pairwise hash-distinct nodes with enough fuel. -/
def PFold (fuel : Nat) : Prop := ∀ (ps : List Node) (m : MReg), W m → (∀ p ∈ ps, Ready m.dag p) →
  HashNodup (ps ++ (m.dag ++ m.orphans)) → m.orphans.length + ps.length ≤ fuel →
  Post m (ps.foldl (applyFuel fuel) m) ps

theorem pfold_of_pstep {fuel : Nat} (hP : PStep fuel) : PFold fuel := by
  intro ps
  induction ps with
  | nil => intro m w _ _ _; exact ⟨w, List.Perm.refl _, fun _ h => h, Nat.le_refl _⟩
  | cons p ps ih =>
    intro m w hr hn hl
    simp only [List.length_cons] at hl
    simp only [List.foldl_cons]
    have hn' := hashNodup_cons.mp (by simpa using hn)
    have hp1 : HashNodup (p :: (m.dag ++ m.orphans)) :=
      hashNodup_cons.mpr ⟨fun x hx => hn'.1 x (List.mem_append_right _ hx), hn'.2.of_append_right⟩
    have post1 := hP m p w (hr p (by simp)) hp1 (by omega)
    have perm1 : (ps ++ ((applyFuel fuel m p).dag ++ (applyFuel fuel m p).orphans)).Perm
        (p :: (ps ++ (m.dag ++ m.orphans))) :=
      (List.Perm.append_left ps post1.perm).trans (by simp)
    have post2 := ih (applyFuel fuel m p) post1.w
      (fun q hq => (hr q (by simp [hq])).mono post1.dagMono)
      (HashNodup.perm perm1.symm (by simpa using hn)) (by have := post1.orphLen; omega)
    exact ⟨post2.w, post2.perm.trans (by simpa using perm1),
      fun x hx => post2.dagMono x (post1.dagMono x hx), Nat.le_trans post2.orphLen post1.orphLen⟩

theorem ins_perm (m : MReg) (p : Node) :
    (readyOf m p ++ ((ins m p).dag ++ (ins m p).orphans)).Perm (p :: (m.dag ++ m.orphans)) := by
  simp only [readyOf, ins, ins1]
  refine List.perm_append_comm.trans ?_
  rw [List.append_assoc]
  refine (List.Perm.append_left _
    (List.perm_append_comm.trans (List.filter_append_perm _ m.orphans))).trans ?_
  simp

theorem ins_orphLen (m : MReg) (p : Node) :
    (ins m p).orphans.length + (readyOf m p).length = m.orphans.length := by
  have := (List.filter_append_perm (fun o => allSeen (ins1 m p) o.children) m.orphans).length_eq
  simp only [List.length_append] at this
  simp only [readyOf, ins]
  omega

theorem pstep_succ {fuel : Nat} (hQ : PFold fuel) : PStep (fuel + 1) := by
  intro m p w hr hn hl
  have hn' := hashNodup_cons.mp hn
  have h1 : inDag m p.hash = false := by
    rw [Bool.eq_false_iff]; intro h
    obtain ⟨x, hx, hxh⟩ := (inDag_iff _ _).mp h
    exact hn'.1 x (List.mem_append_left _ hx) hxh
  have h2 : inOrphans m p.hash = false := by
    rw [Bool.eq_false_iff]; intro h
    obtain ⟨x, hx, hxh⟩ := (inOrphans_iff _ _).mp h
    exact hn'.1 x (List.mem_append_right _ hx) hxh
  rw [applyFuel_succ_ready fuel m p h1 h2 ((allSeen_iff m p).mpr hr)]
  obtain ⟨w2, hr2⟩ := W_ins w hr (fun x hx => hn'.1 x (List.mem_append_left _ hx))
  have hlen := ins_orphLen m p
  have post := hQ (readyOf m p) (ins m p) w2 hr2 (HashNodup.perm (ins_perm m p).symm hn) (by omega)
  exact ⟨post.w, post.perm.trans (by simpa using ins_perm m p),
    fun x hx => post.dagMono x (by simp [ins, ins1, hx]), by have := post.orphLen; omega⟩

theorem pstep_all (fuel : Nat) : PStep fuel := by
  induction fuel with
  | zero => intro m p _ _ _ hl; omega
  | succ f ih => exact pstep_succ (pfold_of_pstep ih)

/-! ## The invariant: the state is the canonical one for the received set `R` -/

structure Inv (R : List Node) (s : MReg) : Prop where
  w : W s
  nodup : HashNodup (s.dag ++ s.orphans)
  mem : ∀ x, x ∈ s.dag ++ s.orphans ↔ x ∈ R

theorem inv_empty : Inv [] {} :=
  ⟨⟨by simp, by simp, by simp⟩, by simp [HashNodup], by simp⟩

theorem Inv.congr {R R' : List Node} {s : MReg} (h : ∀ x, x ∈ R ↔ x ∈ R') (i : Inv R s) : Inv R' s :=
  ⟨i.w, i.nodup, fun x => (i.mem x).trans (h x)⟩

theorem HC.congr {R R' : List Node} (h : ∀ x, x ∈ R ↔ x ∈ R') (hc : HC R) : HC R' :=
  fun a ha b hb => hc a ((h a).mpr ha) b ((h b).mpr hb)

theorem inv_apply {R : List Node} {s : MReg} {n : Node} (i : Inv R s) (hc : HC (n :: R)) :
    Inv (n :: R) (apply s n) := by
  unfold apply
  by_cases hseen : (inDag s n.hash || inOrphans s n.hash) = true
  · rw [applyFuel_succ_seen _ _ _ hseen]
    have : ∃ x ∈ s.dag ++ s.orphans, x.hash = n.hash := by
      rw [Bool.or_eq_true, inDag_iff, inOrphans_iff] at hseen
      rcases hseen with ⟨x, hx, hxh⟩ | ⟨x, hx, hxh⟩
      · exact ⟨x, List.mem_append_left _ hx, hxh⟩
      · exact ⟨x, List.mem_append_right _ hx, hxh⟩
    obtain ⟨x, hx, hxh⟩ := this
    have hxR : x ∈ R := (i.mem x).mp hx
    have : x = n := hc x (List.mem_cons_of_mem _ hxR) n (by simp) hxh
    subst this
    exact i.congr (fun y => by
      constructor
      · exact fun h => List.mem_cons_of_mem _ h
      · intro h
        rcases List.mem_cons.mp h with rfl | h
        · exact hxR
        · exact h)
  · rw [Bool.not_eq_true, Bool.or_eq_false_iff] at hseen
    obtain ⟨h1, h2⟩ := hseen
    have hfresh : ∀ x ∈ s.dag ++ s.orphans, x.hash ≠ n.hash := by
      intro x hx hxh
      rcases List.mem_append.mp hx with hx | hx
      · have := (inDag_iff s n.hash).mpr ⟨x, hx, hxh⟩; rw [h1] at this; cases this
      · have := (inOrphans_iff s n.hash).mpr ⟨x, hx, hxh⟩; rw [h2] at this; cases this
    have hn : HashNodup (n :: (s.dag ++ s.orphans)) := hashNodup_cons.mpr ⟨hfresh, i.nodup⟩
    by_cases hr : allSeen s n.children = true
    · have post := pstep_all (s.orphans.length + 1) s n i.w ((allSeen_iff s n).mp hr) hn (Nat.le_refl _)
      have perm : ((applyFuel (s.orphans.length + 1) s n).dag ++
          (applyFuel (s.orphans.length + 1) s n).orphans).Perm (n :: (s.dag ++ s.orphans)) := by
        simpa using post.perm
      refine ⟨post.w, HashNodup.perm perm.symm hn, fun x => ?_⟩
      rw [perm.mem_iff, List.mem_cons, List.mem_cons, i.mem x]
    · rw [Bool.not_eq_true] at hr
      rw [applyFuel_succ_orphan _ _ _ h1 h2 hr]
      have hnr : ¬ Ready s.dag n := by
        intro h; rw [(allSeen_iff s n).mpr h] at hr; cases hr
      have perm : (s.dag ++ (s.orphans ++ [n])).Perm (n :: (s.dag ++ s.orphans)) := by
        rw [← List.append_assoc]
        exact List.perm_append_comm
      refine ⟨⟨i.w.closed, ?_, i.w.roots⟩, HashNodup.perm perm.symm hn, fun x => ?_⟩
      · intro o ho
        rcases List.mem_append.mp ho with ho | ho
        · exact i.w.stable o ho
        · have : o = n := by simpa using ho
          exact this ▸ hnr
      · show x ∈ s.dag ++ (s.orphans ++ [n]) ↔ _
        rw [perm.mem_iff, List.mem_cons, List.mem_cons, i.mem x]

theorem inv_foldl (l : List Node) {R : List Node} {s : MReg} (i : Inv R s) (hc : HC (l ++ R)) :
    Inv (l ++ R) (l.foldl apply s) := by
  induction l generalizing R s with
  | nil => exact i
  | cons n l ih =>
    have hmem : ∀ x, x ∈ l ++ n :: R ↔ x ∈ n :: l ++ R := by
      intro x; simp only [List.mem_append, List.mem_cons, List.cons_append]
      constructor
      · rintro (h | h | h)
        · exact Or.inr (Or.inl h)
        · exact Or.inl h
        · exact Or.inr (Or.inr h)
      · rintro (h | h | h)
        · exact Or.inr (Or.inl h)
        · exact Or.inl h
        · exact Or.inr (Or.inr h)
    have hc1 : HC (n :: R) := fun a ha b hb =>
      hc a (by rcases List.mem_cons.mp ha with rfl | h <;> simp [*]) b
        (by rcases List.mem_cons.mp hb with rfl | h <;> simp [*])
    have := ih (inv_apply i hc1) (hc.congr (fun x => (hmem x).symm))
    exact this.congr hmem

theorem inv_of_list (l : List Node) (hc : HC l) : Inv l (l.foldl apply {}) := by
  have := inv_foldl l inv_empty (R := []) (by rw [List.append_nil]; exact hc)
  rwa [List.append_nil] at this

/-! ## Characterisation by the received set -/

theorem Inv.dag_of_grounded {R : List Node} {s : MReg} (i : Inv R s) {h : Nat} (g : Grounded R h) :
    ∃ x ∈ s.dag, x.hash = h := by
  induction g with
  | mk n hn _ ih =>
    rcases List.mem_append.mp ((i.mem n).mpr hn) with hd | ho
    · exact ⟨n, hd, rfl⟩
    · exact absurd ih (i.w.stable n ho)

/-- (1) the dag is exactly the well-founded part of the received set. -/
theorem Inv.mem_dag {R : List Node} {s : MReg} (i : Inv R s) (n : Node) : n ∈ s.dag ↔ InDag R n := by
  constructor
  · intro h
    exact (i.w.closed n h).mono (fun x hx => (i.mem x).mp (List.mem_append_left _ hx))
  · intro h
    rcases List.mem_append.mp ((i.mem n).mpr h.1) with hd | ho
    · exact hd
    · exact absurd (fun c hc => i.dag_of_grounded (h.2 c hc)) (i.w.stable n ho)

/-- (2) the orphans are exactly the rest of the received set. -/
theorem Inv.mem_orphans {R : List Node} {s : MReg} (i : Inv R s) (n : Node) :
    n ∈ s.orphans ↔ n ∈ R ∧ ¬ InDag R n := by
  have hnd := List.nodup_append.mp i.nodup.nodup
  constructor
  · intro h
    refine ⟨(i.mem n).mp (List.mem_append_right _ h), fun hd => ?_⟩
    exact hnd.2.2 n ((i.mem_dag n).mpr hd) n h rfl
  · rintro ⟨hR, hnd'⟩
    rcases List.mem_append.mp ((i.mem n).mpr hR) with hd | ho
    · exact absurd ((i.mem_dag n).mp hd) hnd'
    · exact ho

/-- (3) the roots are exactly the hashes of dag nodes that no dag node names as a child. -/
theorem Inv.mem_roots {R : List Node} {s : MReg} (i : Inv R s) (h : Nat) :
    h ∈ s.roots ↔ (∃ x, InDag R x ∧ x.hash = h) ∧ ¬ ∃ p, InDag R p ∧ h ∈ p.children := by
  rw [i.w.roots h]
  simp only [i.mem_dag]

theorem mem_read_iff (s : MReg) (h : Nat) : h ∈ read s ↔ h ∈ s.roots ∧ ∃ x ∈ s.dag, x.hash = h := by
  simp only [read, List.mem_filter, inDag_iff]

/-- `read` returns the hashes of the received nodes that are well-founded and not superseded. -/
theorem Inv.mem_read {R : List Node} {s : MReg} (i : Inv R s) (h : Nat) :
    h ∈ read s ↔ (∃ x, InDag R x ∧ x.hash = h) ∧ ¬ ∃ p, InDag R p ∧ h ∈ p.children := by
  rw [mem_read_iff, i.mem_roots h]
  simp only [i.mem_dag]
  exact ⟨fun h => h.1, fun h => ⟨h, h.1⟩⟩

/-! ## StateEquivalence of states -/

/-- Observational equality of two replicas: same nodes in the dag, same orphans, same roots, same `size()`. -/
structure StateEquiv (s t : MReg) : Prop where
  dag : ∀ n, n ∈ s.dag ↔ n ∈ t.dag
  orphans : ∀ n, n ∈ s.orphans ↔ n ∈ t.orphans
  roots : ∀ h, h ∈ s.roots ↔ h ∈ t.roots
  size : s.dag.length + s.orphans.length = t.dag.length + t.orphans.length

theorem StateEquiv.read {s t : MReg} (e : StateEquiv s t) (h : Nat) : h ∈ read s ↔ h ∈ read t := by
  simp only [mem_read_iff, e.roots h, e.dag]

theorem equiv_of_inv {R R' : List Node} {s t : MReg} (hs : Inv R s) (ht : Inv R' t)
    (h : ∀ x, x ∈ R ↔ x ∈ R') : StateEquiv s t := by
  have ht' : Inv R t := ht.congr (fun x => (h x).symm)
  refine ⟨fun n => ?_, fun n => ?_, fun x => ?_, ?_⟩
  · rw [hs.mem_dag, ht'.mem_dag]
  · rw [hs.mem_orphans, ht'.mem_orphans]
  · rw [hs.mem_roots, ht'.mem_roots]
  · have p : (s.dag ++ s.orphans).Perm (t.dag ++ t.orphans) :=
      (List.perm_ext_iff_of_nodup hs.nodup.nodup ht'.nodup.nodup).mpr
        (fun x => (hs.mem x).trans (ht'.mem x).symm)
    simpa using p.length_eq

/-! ## Merge, and everything reachable through `apply` and `merge` -/

theorem HC.sub {R R' : List Node} (h : ∀ x ∈ R', x ∈ R) (hc : HC R) : HC R' :=
  fun a ha b hb => hc a (h a ha) b (h b hb)

theorem inv_merge {R₁ R₂ : List Node} {a b : MReg} (ia : Inv R₁ a) (ib : Inv R₂ b) (hc : HC (R₂ ++ R₁)) :
    Inv (R₂ ++ R₁) (merge a b) := by
  have hmem : ∀ x, x ∈ (b.dag ++ b.orphans) ++ R₁ ↔ x ∈ R₂ ++ R₁ := by
    intro x
    rw [List.mem_append, List.mem_append (s := R₂), ib.mem x]
  exact (inv_foldl (b.dag ++ b.orphans) ia (hc.congr (fun x => (hmem x).symm))).congr hmem

/-- `Reach R s`: replica state `s` was reached from the empty register by `apply`s and `merge`s (with other
reachable replicas), having received exactly the nodes `R` (listed with repetitions, in some order). -/
inductive Reach : List Node → MReg → Prop
  | init : Reach [] {}
  | apply {R : List Node} {s : MReg} (n : Node) : Reach R s → Reach (n :: R) (apply s n)
  | merge {R₁ R₂ : List Node} {a b : MReg} : Reach R₁ a → Reach R₂ b → Reach (R₂ ++ R₁) (merge a b)

theorem reach_inv {R : List Node} {s : MReg} (r : Reach R s) (hc : HC R) : Inv R s := by
  induction r with
  | init => exact inv_empty
  | apply n _ ih => exact inv_apply (ih (hc.sub (fun x hx => List.mem_cons_of_mem _ hx))) hc
  | merge _ _ iha ihb =>
    exact inv_merge (iha (hc.sub (fun x hx => List.mem_append_right _ hx)))
      (ihb (hc.sub (fun x hx => List.mem_append_left _ hx))) hc

theorem reach_foldl (l : List Node) {R : List Node} {s : MReg} (r : Reach R s) :
    Reach (l.reverse ++ R) (l.foldl MerkleReg.apply s) := by
  induction l generalizing R s with
  | nil => exact r
  | cons n l ih =>
    have := ih (Reach.apply n r)
    simpa using this

end SafeNet.MerkleReg
