import SafeNet.Model.Upgrade
import SafeNet.Proofs.ArgFinal
/-! C20: the registry entry after `on_start` pinned the listener port is the registry entry of the same
`add` with that port as `node_port` (`recordOf_pin`): everything proved for all option records applies
to upgrades of started nodes. -/
namespace SafeNet.Upgrade
open SafeNet.ArgTable SafeNet.Gen.Upgrade

def portPath : Path := ["node_port"]

theorem lookup_mem {β : Type} (tbl : List (String × β)) (k : String) (v : β) (h : tbl.lookup k = some v) :
    (k, v) ∈ tbl := by
  induction tbl with
  | nil => simp at h
  | cons kv tbl ih =>
    obtain ⟨k', v'⟩ := kv
    simp only [List.lookup_cons] at h
    cases hk : (k == k') with
    | true =>
      simp only [hk] at h
      injection h with h
      have : k = k' := by simpa using hk
      subst this; subst h
      exact List.mem_cons_self ..
    | false =>
      simp only [hk] at h
      exact List.mem_cons_of_mem _ (ih h)

theorem pin_off (σ : Valuation) (l : Option AStr) (p : Path) (h : p ≠ portPath) : pin σ l p = σ p := by
  simp only [portPath] at h
  simp [pin, h]

theorem pin_none (σ : Valuation) : pin σ none = σ := by
  funext p
  simp [pin]

/-- No derived local of `add_node` is called `node_port`, and none is computed from it. -/
theorem locals_no_port : localsLiteral.lookup "node_port" = none := by decide
theorem locals_dont_read_port : localsLiteral.all (fun kv => !kv.2.reads portPath) = true := by decide

theorem through_locals_pin (σ : Valuation) (l : Option AStr) :
    through viaAddLocals (pin σ l) = pin (through viaAddLocals σ) l := by
  funext p
  match p with
  | [] => simp [through, viaAddLocals, viaLocals, evalSrc, pin]
  | h :: h2 :: r => simp [through, viaAddLocals, viaLocals, evalSrc, pin]
  | [h] =>
    simp only [through, viaAddLocals, viaLocals]
    cases hl : localsLiteral.lookup h with
    | none =>
      simp only [evalSrc, pin]
      by_cases hp : [h] = ["node_port"]
      · simp only [hp, if_true]
        have : h = "node_port" := by simpa using hp
        subst this
        cases l <;> simp [through, viaLocals, locals_no_port, evalSrc]
      · simp only [hp, if_false]
        simp [through, viaLocals, hl, evalSrc]
    | some s =>
      simp only
      have hmem := lookup_mem _ _ _ hl
      have hr := List.all_eq_true.mp locals_dont_read_port _ hmem
      have hne : [h] ≠ ["node_port"] := by
        intro heq
        have : h = "node_port" := by simpa using heq
        subst this
        rw [locals_no_port] at hl
        exact absurd hl (by simp)
      rw [evalSrc_congr σ (pin σ l) portPath (fun q hq => pin_off σ l q hq) s (by simpa using hr)]
      simp [pin, hne, through, viaLocals, hl]

/-- Registry fields other than `node_port` are not filled from `add_node`'s `node_port`. -/
theorem data_reads_port :
    dataLiteral.all (fun kv =>
      match kv.2 with
      | .var q => !q.isEmpty && (q.head? != some "node_port" || kv.1 == "node_port")
      | .const _ => true
      | .fold _ s => !s.reads portPath) = true := by decide

theorem data_port : viaData ["node_port"] = .var ["node_port"] := by decide

theorem viaLiteral_data_reads_port (h : String) (rest : Path) (hp : h :: rest ≠ portPath) :
    (viaLiteral dataLiteral (h :: rest)).reads portPath = false := by
  simp only [viaLiteral]
  cases hl : dataLiteral.lookup h with
  | none => simp [Src.reads, portPath]
  | some s =>
    have hmem := lookup_mem _ _ _ hl
    have hfact := List.all_eq_true.mp data_reads_port _ hmem
    cases s with
    | const t => simp [Src.reads]
    | fold f s' =>
      simp only at hfact ⊢
      split
      · simpa [Src.reads] using hfact
      · simp [Src.reads, portPath]
    | var q =>
      simp only [Bool.and_eq_true, Bool.not_eq_true', List.isEmpty_eq_false_iff, Bool.or_eq_true, bne_iff_ne,
        ne_eq, beq_iff_eq] at hfact
      simp only [Src.reads, portPath, beq_eq_false_iff_ne, ne_eq]
      intro heq
      cases q with
      | nil => exact hfact.1 rfl
      | cons a q' =>
        simp only [List.cons_append, List.cons.injEq, List.append_eq_nil_iff] at heq
        obtain ⟨ha, hq', hrest⟩ := heq
        subst ha
        rcases hfact.2 with hh | hh
        · simp at hh
        · subst hh; subst hrest
          exact hp rfl

theorem viaData_reads_port (p : Path) (hp : p ≠ portPath) : (viaData p).reads portPath = false := by
  unfold viaData
  split
  · simp [Src.reads, portPath]
  · simp [Src.reads, portPath]
  · simp [Src.reads, portPath]
  · cases p with
    | nil => simp [viaLiteral, Src.reads, portPath]
    | cons h rest => exact viaLiteral_data_reads_port h rest hp

theorem through_data_pin (τ : Valuation) (l : Option AStr) :
    through viaData (pin τ l) = afterStart (through viaData τ) l := by
  funext p
  simp only [through, afterStart]
  by_cases hp : p = ["node_port"]
  · subst hp
    rw [data_port]
    cases l <;> simp [evalSrc, pin]
  · simp only [hp, if_false]
    exact evalSrc_congr τ (pin τ l) portPath (fun q hq => pin_off τ l q hq) _ (viaData_reads_port p hp)

/-- **What `on_start` does to the registry entry**, seen from `add_node`: the entry with the pinned
listener port is the entry the same `add` would have recorded with `node_port` = that port. -/
theorem recordOf_pin (σ : Valuation) (l : Option AStr) :
    recordOf (pin σ l) = afterStart (recordOf σ) l := by
  unfold recordOf
  rw [through_locals_pin, through_data_pin]

/-- All entries not reading `P`: the closed form is the same for records differing only at `P`. -/
theorem slotsAfter_congr (disp : List (String × String)) (ds : List Decl) (σ σ' : Valuation) (P : Path)
    (h : ∀ p, p ≠ P → σ' p = σ p) (T : List Entry) (hT : T.all (fun e => !e.reads P) = true) (s : Slots) :
    slotsAfter disp ds σ' T s = slotsAfter disp ds σ T s := by
  induction T generalizing s with
  | nil => rfl
  | cons e T ih =>
    simp only [List.all_cons, Bool.and_eq_true, Bool.not_eq_true'] at hT
    rw [slotsAfter_cons, slotsAfter_cons, evalEntry_congr disp σ σ' P h e hT.1]
    exact ih (by simpa using hT.2) _

end SafeNet.Upgrade
