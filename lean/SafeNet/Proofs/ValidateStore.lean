import SafeNet.Model.ValidateStore
import SafeNet.Proofs.StoreHistory
import SafeNet.Proofs.ValidateData
/-!
# `Validate ∘ Store` refines the plain-map composition when every read sees the last accepted write

`Rel vs w s`: the record-store state `vs.st` satisfies the per-key in-flight invariant `KeyInv` (C01) for the
ghost "last accepted write per key" `w`, and the content of that last accepted write is what the plain map `s`
holds.  A put (`putRec`) preserves `Rel` against `s.put` whenever the store is below capacity — whatever is in
flight; completion of a write and handling of its notification preserve it against the same `s`.  A validation
whose key has nothing in flight (`KeyQuiet`) gets from the store exactly the answers the plain map gives
(`KeyInv.readback`), hence emits the same commands: under `Disciplined` the composed history refines
`runSerial`, and every theorem about serial histories over a plain map transfers.
-/
namespace SafeNet.ValidateStore
open SafeNet.Validate
open SafeNet.Store (KeyInv KeyQuiet Want wSet wSet_self wSet_ne lookup erase pushBack mem_pushBack mem_erase)

/-! ## the plain map -/

theorem get_put_same (s : Validate.Store) (k : Nat) (c : Content) : (s.put k c).get k = some c := by
  induction s with
  | nil => simp [Validate.Store.put, Validate.Store.get]
  | cons e rest ih =>
    obtain ⟨k', c'⟩ := e
    unfold Validate.Store.put
    split
    · simp [Validate.Store.get]
    · rename_i h; simp [Validate.Store.get, h, ih]

theorem get_put_ne (s : Validate.Store) (k k' : Nat) (c : Content) (h : k' ≠ k) :
    (s.put k' c).get k = s.get k := by
  induction s with
  | nil => simp [Validate.Store.put, Validate.Store.get, h]
  | cons e rest ih =>
    obtain ⟨k2, c2⟩ := e
    unfold Validate.Store.put
    split
    · rename_i h2; subst h2; simp [Validate.Store.get, h]
    · simp [Validate.Store.get, ih]

/-! ## the value table -/

theorem idxOf_spec (x : SVal) (t : List SVal) (i0 i : Nat) (h : idxOf x t i0 = some i) :
    i0 ≤ i ∧ t[i - i0]? = some x := by
  induction t generalizing i0 with
  | nil => simp [idxOf] at h
  | cons y ys ih =>
    unfold idxOf at h
    split at h
    · rename_i hy
      injection h with h
      subst h
      simp [hy]
    · obtain ⟨h1, h2⟩ := ih (i0 + 1) h
      refine ⟨by omega, ?_⟩
      have : i - i0 = (i - (i0 + 1)) + 1 := by omega
      rw [this]
      simpa using h2

theorem intern_new (t : List SVal) (x : SVal) : (intern t x).2[(intern t x).1]? = some x := by
  unfold intern
  cases h : idxOf x t 0 with
  | none => simp
  | some i => simpa using (idxOf_spec x t 0 i h).2

theorem intern_old (t : List SVal) (x : SVal) {v : Nat} {y : SVal} (h : t[v]? = some y) :
    (intern t x).2[v]? = some y := by
  unfold intern
  cases hi : idxOf x t 0 with
  | none =>
    have hv : v < t.length := by
      rcases Nat.lt_or_ge v t.length with hlt | hge
      · exact hlt
      · rw [List.getElem?_eq_none hge] at h; cases h
    simp only
    rw [List.getElem?_append_left hv]
    exact h
  | some i => exact h

/-! ## the refinement relation -/

/-- content of the last accepted write of `k` -/
def latest (vs : VS) (w : Want) (k : Nat) : Option SVal := (w k).bind (fun e => vs.tbl[e.1]?)

structure Rel (vs : VS) (w : Want) (s : Validate.Store) : Prop where
  inv : KeyInv vs.st w
  tracked : ∀ k e, w k = some e → (vs.tbl[e.1]?).isSome
  same : ∀ k, (latest vs w k).map (·.c) = s.get k

theorem rtOf_isSome (v : Nat) (c : Content) : ∃ rt, rtOf v c = some rt := by
  cases c <;> exact ⟨_, rfl⟩

/-- below capacity `put_verified` has two outcomes: the cache-equality early return, or an accepted write -/
theorem putVerified_below (cfg : SafeNet.Store.Cfg) (dst : Nat → Nat) (s : SafeNet.Store.St) (k v : Nat)
    (rt : SafeNet.Store.RType) (hcap : s.index.length < cfg.maxRecords) :
    let pb := pushBack cfg.cacheSize (erase k s.cache) s.clock k v
    ((∃ t, (k, v, t) ∈ s.cache) ∧
      SafeNet.Store.putVerified cfg dst s k v rt = ({ s with cache := pb, clock := s.clock + 1 }, .dedup)) ∨
    SafeNet.Store.putVerified cfg dst s k v rt =
      ({ s with cache := pb, clock := s.clock + 1, tasks := s.tasks ++ [(s.nextId, .write k v rt)],
                nextId := s.nextId + 1 }, .ok) := by
  intro pb
  by_cases hit : (lookup k s.cache).map (·.1) = some v
  · left
    refine ⟨?_, by simp only [SafeNet.Store.putVerified, hit, ↓reduceIte]; rfl⟩
    cases hl : lookup k s.cache with
    | none => simp [hl] at hit
    | some p =>
      obtain ⟨v', t⟩ := p
      simp only [hl, Option.map_some, Option.some.injEq] at hit
      subst hit
      exact ⟨t, SafeNet.Store.lookup_some_mem hl⟩
  · right
    simp only [SafeNet.Store.putVerified, hit, ↓reduceIte, SafeNet.Store.prune, hcap]
    rfl

/-- the fields of the state after a put -/
theorem putRec_fields (vs : VS) (k : Nat) (x : SVal) :
    ∃ rt, rtOf (intern vs.tbl x).1 x.c = some rt ∧ (putRec vs k x).1.tbl = (intern vs.tbl x).2 ∧
      (putRec vs k x).1.cfg = vs.cfg ∧
      (putRec vs k x).1.st = (SafeNet.Store.putVerified vs.cfg dist vs.st k (intern vs.tbl x).1 rt).1 := by
  obtain ⟨rt, hrt⟩ := rtOf_isSome (intern vs.tbl x).1 x.c
  refine ⟨rt, hrt, ?_⟩
  simp only [putRec, hrt]
  split <;> exact ⟨rfl, rfl, rfl⟩

/-- the last accepted content of `k` is unchanged when the table only grows and `w` is unchanged at `k` -/
theorem latest_ext {vs vs' : VS} {w w' : Want} (k : Nat) (hw : w' k = w k)
    (hext : ∀ (v : Nat) (y : SVal), vs.tbl[v]? = some y → vs'.tbl[v]? = some y)
    (htr : ∀ k e, w k = some e → (vs.tbl[e.1]?).isSome) : latest vs' w' k = latest vs w k := by
  unfold latest
  rw [hw]
  cases hwk : w k with
  | none => rfl
  | some e =>
    simp only [Option.bind_some]
    have := htr k e hwk
    cases hv : vs.tbl[e.1]? with
    | none => rw [hv] at this; cases this
    | some y => exact hext _ _ hv

theorem tracked_ext {vs vs' : VS} {w : Want}
    (hext : ∀ (v : Nat) (y : SVal), vs.tbl[v]? = some y → vs'.tbl[v]? = some y)
    (htr : ∀ k e, w k = some e → (vs.tbl[e.1]?).isSome) : ∀ k e, w k = some e → (vs'.tbl[e.1]?).isSome := by
  intro k e hw
  have := htr k e hw
  cases hv : vs.tbl[e.1]? with
  | none => rw [hv] at this; cases this
  | some y => rw [hext _ _ hv]; rfl

/-- **A put below capacity keeps the relation**, against the plain map with the same put applied — whatever
else is in flight. -/
theorem putRec_rel {vs : VS} {w : Want} {s : Validate.Store} (hrel : Rel vs w s)
    (hcap : vs.st.index.length < vs.cfg.maxRecords) (k : Nat) (x : SVal) :
    (∃ w', Rel (putRec vs k x).1 w' (s.put k x.c)) ∧
      (putRec vs k x).1.cfg = vs.cfg ∧ (putRec vs k x).1.st.index = vs.st.index := by
  obtain ⟨rt, hrt, htbl, hcfg, hst⟩ := putRec_fields vs k x
  have hext : ∀ (v : Nat) (y : SVal), vs.tbl[v]? = some y → (putRec vs k x).1.tbl[v]? = some y := by
    intro v y h; rw [htbl]; exact intern_old _ _ h
  have hnew : (putRec vs k x).1.tbl[(intern vs.tbl x).1]? = some x := by rw [htbl]; exact intern_new _ _
  have hpb : ∀ e ∈ pushBack vs.cfg.cacheSize (erase k vs.st.cache) vs.st.clock k (intern vs.tbl x).1,
      e = (k, (intern vs.tbl x).1, vs.st.clock) ∨ (e ∈ vs.st.cache ∧ e.1 ≠ k) := by
    intro e he
    rcases mem_pushBack he with he | he
    · exact .inl he
    · exact .inr (mem_erase.mp he)
  rcases putVerified_below vs.cfg dist vs.st k (intern vs.tbl x).1 rt hcap with ⟨⟨t, ht⟩, hr⟩ | hr
  · -- the cache holds this very value: nothing is scheduled, the last accepted write of `k` is this value already
    rw [hr] at hst
    refine ⟨⟨w, ⟨?_, tracked_ext hext hrel.tracked, ?_⟩⟩, hcfg, by rw [hst]⟩
    · rw [hst]
      apply hrel.inv.cacheOnly
      intro e he
      rcases hpb e he with rfl | he
      · exact ⟨_, ht, rfl, rfl⟩
      · exact ⟨e, he.1, rfl, rfl⟩
    · intro k'
      rw [latest_ext k' rfl hext hrel.tracked]
      by_cases hk : k' = k
      · subst hk
        rw [get_put_same]
        -- the cached entry of `k'` carries the value of its last accepted write
        cases hw : w k' with
        | none =>
          have := (hrel.inv.absent k' hw).2.2.1 _ ht
          exact absurd rfl this
        | some e =>
          obtain ⟨v', rt', i'⟩ := e
          have hv := (hrel.inv.present k' v' rt' i' hw).1 _ ht rfl
          simp only at hv
          simp only [latest, hw, Option.bind_some]
          have hold := hrel.tracked k' _ hw
          simp only at hold
          cases ho : vs.tbl[v']? with
          | none => rw [ho] at hold; cases hold
          | some y =>
            have h1 := hext _ _ ho
            rw [← hv, hnew] at h1
            injection h1 with h1
            subst h1
            rfl
      · rw [get_put_ne _ _ _ _ (Ne.symm hk)]
        exact hrel.same k'
  · rw [hr] at hst
    refine ⟨⟨wSet w k (some ((intern vs.tbl x).1, rt, vs.st.nextId)), ⟨?_, ?_, ?_⟩⟩, hcfg, by rw [hst]⟩
    · rw [hst]
      apply hrel.inv.accept
      intro e he
      rcases hpb e he with rfl | he
      · exact .inl ⟨rfl, rfl⟩
      · exact .inr he
    · intro k' e hw
      by_cases hk : k' = k
      · subst hk
        rw [wSet_self] at hw
        injection hw with hw
        subst hw
        rw [hnew]; rfl
      · rw [wSet_ne _ _ hk] at hw
        exact tracked_ext hext hrel.tracked k' e hw
    · intro k'
      by_cases hk : k' = k
      · subst hk
        rw [get_put_same]
        simp only [latest, wSet_self, Option.bind_some, hnew, Option.map_some]
      · rw [get_put_ne _ _ _ _ (Ne.symm hk), latest_ext k' (wSet_ne _ _ hk) hext hrel.tracked]
        exact hrel.same k'

theorem applyToksS_rel (dx : DX) (toks : List Tok) {vs : VS} {w : Want} {s : Validate.Store} (hrel : Rel vs w s)
    (hcap : vs.st.index.length < vs.cfg.maxRecords) :
    ∃ w', Rel (applyToksS vs dx toks).1 w' (applyToks s toks) := by
  induction toks generalizing vs w s with
  | nil => exact ⟨w, hrel⟩
  | cons t rest ih =>
    cases t with
    | W k c =>
      simp only [applyToksS, applyToks]
      obtain ⟨⟨w1, h1⟩, hc, hi⟩ := putRec_rel hrel hcap k (svalOf dx c)
      have hcc : (svalOf dx c).c = c := by cases c <;> rfl
      rw [hcc] at h1
      exact ih h1 (by rw [hc, hi]; exact hcap)
    | H _ | G _ | K | V | P _ | F _ _ | R _ _ =>
      simp only [applyToksS, applyToks]
      exact ih hrel hcap

/-! ## what a validation reads -/

/-- with nothing of the key in flight the store answers like the plain map -/
theorem reads_of_quiet {vs : VS} {w : Want} {s : Validate.Store} (hrel : Rel vs w s) (k : Nat)
    (hq : KeyQuiet vs.st k) : view vs k = s.get k ∧ has vs k = (s.get k).isSome := by
  have hb := hrel.inv.readback vs.cfg k hq
  have hs := hrel.same k
  cases hw : w k with
  | none =>
    rw [hw] at hb
    simp only [latest, hw, Option.bind_none, Option.map_none] at hs
    refine ⟨?_, ?_⟩
    · simp [view, viewS, hb.1, ← hs]
    · simp [has, SafeNet.Store.contains, hb.2.1, ← hs]
  | some e =>
    obtain ⟨v, rt, i⟩ := e
    rw [hw] at hb
    simp only [latest, hw, Option.bind_some] at hs
    have ht := hrel.tracked k _ hw
    simp only at ht
    refine ⟨?_, ?_⟩
    · simp [view, viewS, hb.1, valAt, hs]
    · rw [← hs]
      cases hv : vs.tbl[v]? with
      | none => rw [hv] at ht; cases ht
      | some y => simp [has, SafeNet.Store.contains, hb.2.1]

theorem ansOf_eq_seqAns {vs : VS} {w : Want} {s : Validate.Store} (hrel : Rel vs w s) (d : Delivery)
    (hq : KeyQuiet vs.st (rwKey d)) : ansOf vs d = seqAns d s := by
  obtain ⟨h1, h2⟩ := reads_of_quiet hrel (rwKey d) hq
  simp [ansOf, seqAns, h1, h2]

theorem validateS_eq_validate {vs : VS} {w : Want} {s : Validate.Store} (hrel : Rel vs w s) (d : Delivery)
    (hq : KeyQuiet vs.st (rwKey d)) : validateS vs d = validate d s := by
  simp only [validateS, validate, ansOf_eq_seqAns hrel d hq]

/-! ## histories -/

/-- what the hypothesis asks of one operation: a validation starts when nothing of its key is in flight and the
store is below capacity -/
def opOk (vs : VS) : Op → Prop
  | .deliver dx => KeyQuiet vs.st (rwKey dx.d) ∧ vs.st.index.length < vs.cfg.maxRecords
  | _ => True

/-- **The named hypothesis.** Every validation of the history starts when nothing of its key is in flight —
every accepted write of that key has completed and been acknowledged — and the store is below capacity. -/
def Disciplined : VS → List Op → Prop
  | _, [] => True
  | vs, op :: ops => opOk vs op ∧ Disciplined (step vs op) ops

/-- the plain-map counterpart of one operation -/
def absStep (s : Validate.Store) : Op → Validate.Store
  | .deliver dx => deliverSeq s dx.d
  | _ => s

theorem step_rel {vs : VS} {w : Want} {s : Validate.Store} (hrel : Rel vs w s) (op : Op) (hd : opOk vs op) :
    ∃ w', Rel (step vs op) w' (absStep s op) := by
  cases op with
  | deliver dx =>
    simp only [opOk] at hd
    simp only [step, absStep, deliver, deliverSeq, validateS_eq_validate hrel dx.d hd.1]
    exact applyToksS_rel dx _ hrel hd.2
  | run n =>
    simp only [step, absStep]
    cases vs.wids[n]? with
    | none => exact ⟨w, hrel⟩
    | some id => exact ⟨w, ⟨hrel.inv.runTask id, hrel.tracked, hrel.same⟩⟩
  | ack n =>
    simp only [step, absStep]
    cases vs.wids[n]? with
    | none => exact ⟨w, hrel⟩
    | some id => exact ⟨w, ⟨hrel.inv.deliver dist id, hrel.tracked, hrel.same⟩⟩

theorem runSerial_deliveries_cons (s : Validate.Store) (op : Op) (ops : List Op) :
    runSerial s (deliveriesOf (op :: ops)) = runSerial (absStep s op) (deliveriesOf ops) := by
  cases op <;> simp [deliveriesOf, runSerial, absStep]

/-- **Refinement.** Under `Disciplined` the composed history is related to the serial plain-map run of its
deliveries. -/
theorem runOps_rel (ops : List Op) {vs : VS} {w : Want} {s : Validate.Store} (hrel : Rel vs w s)
    (hd : Disciplined vs ops) : ∃ w', Rel (runOps vs ops) w' (runSerial s (deliveriesOf ops)) := by
  induction ops generalizing vs w s with
  | nil => exact ⟨w, hrel⟩
  | cons op rest ih =>
    obtain ⟨h1, h2⟩ := hd
    obtain ⟨w1, hr1⟩ := step_rel hrel op h1
    rw [runSerial_deliveries_cons]
    simp only [runOps, List.foldl_cons]
    exact ih hr1 h2

theorem rel_fresh (cache : Nat) : Rel (fresh cache) (fun _ => none) [] := by
  refine ⟨SafeNet.Store.KeyInv.init _ _, ?_, ?_⟩
  · intro k e h; cases h
  · intro k; rfl

theorem runOps_append (vs : VS) (a b : List Op) : runOps vs (a ++ b) = runOps (runOps vs a) b := by
  simp [runOps, List.foldl_append]

theorem deliveriesOf_append (a b : List Op) : deliveriesOf (a ++ b) = deliveriesOf a ++ deliveriesOf b := by
  induction a with
  | nil => rfl
  | cons op rest ih => cases op <;> simp [deliveriesOf, ih]

theorem Disciplined_append {vs : VS} {a b : List Op} (h : Disciplined vs (a ++ b)) :
    Disciplined vs a ∧ Disciplined (runOps vs a) b := by
  induction a generalizing vs with
  | nil => exact ⟨trivial, h⟩
  | cons op rest ih =>
    obtain ⟨h1, h2⟩ := h
    obtain ⟨h3, h4⟩ := ih h2
    exact ⟨⟨h1, h3⟩, by simpa [runOps] using h4⟩

/-- what the store shows for a key with nothing in flight after a disciplined history from a fresh store: the
content the serial plain-map run of the deliveries holds -/
theorem view_after (cache : Nat) (ops : List Op) (hd : Disciplined (fresh cache) ops) (k : Nat)
    (hq : KeyQuiet (runOps (fresh cache) ops).st k) :
    view (runOps (fresh cache) ops) k = (runSerial [] (deliveriesOf ops)).get k ∧
    has (runOps (fresh cache) ops) k = ((runSerial [] (deliveriesOf ops)).get k).isSome := by
  obtain ⟨w', hr⟩ := runOps_rel ops (rel_fresh cache) hd
  exact reads_of_quiet hr k hq


/-! ## A weaker hypothesis for the kinds whose decision reads only the record (scratchpad, transactions)

While an accepted write is in flight the key is usually still in the FIFO cache, and `get` serves the cache
first: the validation then reads the last accepted copy even before the acknowledgement.  Only what
`RecordStoreHasKey` says differs (it reads the index). -/

/-- the key is in the FIFO cache -/
def Cached (vs : VS) (k : Nat) : Prop := (lookup k vs.st.cache).isSome

/-- a cached key reads as its last accepted write, whatever is in flight -/
theorem view_of_cached {vs : VS} {w : Want} {s : Validate.Store} (hrel : Rel vs w s) (k : Nat) (hc : Cached vs k) :
    view vs k = s.get k := by
  unfold Cached at hc
  cases hl : lookup k vs.st.cache with
  | none => rw [hl] at hc; cases hc
  | some p =>
    obtain ⟨v, t⟩ := p
    have hm := SafeNet.Store.lookup_some_mem hl
    have hs := hrel.same k
    cases hw : w k with
    | none => exact absurd rfl ((hrel.inv.absent k hw).2.2.1 _ hm)
    | some e =>
      obtain ⟨v', rt, i⟩ := e
      have hv := (hrel.inv.present k v' rt i hw).1 _ hm rfl
      simp only at hv
      subst hv
      simp only [latest, hw, Option.bind_some] at hs
      simp [view, viewS, SafeNet.Store.get, hl, valAt, hs]

/-- the key reads as its last accepted write: still cached, or nothing of it in flight -/
def Readable (vs : VS) (k : Nat) : Prop := Cached vs k ∨ KeyQuiet vs.st k

theorem view_of_readable {vs : VS} {w : Want} {s : Validate.Store} (hrel : Rel vs w s) (k : Nat)
    (hr : Readable vs k) : view vs k = s.get k := by
  rcases hr with hc | hq
  · exact view_of_cached hrel k hc
  · exact (reads_of_quiet hrel k hq).1

def opOkR (vs : VS) : Op → Prop
  | .deliver dx => Readable vs (rwKey dx.d) ∧ vs.st.index.length < vs.cfg.maxRecords
  | _ => True

/-- **The weaker named hypothesis.** Every validation starts when its key is still cached or has nothing in
flight (every accepted write of the key acknowledged), and the store is below capacity. -/
def ReadsLastWrite : VS → List Op → Prop
  | _, [] => True
  | vs, op :: ops => opOkR vs op ∧ ReadsLastWrite (step vs op) ops

/-- the plain map after one operation, with the puts the validation really issued (whatever it read) -/
def absStepG (vs : VS) (s : Validate.Store) : Op → Validate.Store
  | .deliver dx => applyToks s (validateS vs dx.d).2
  | _ => s

theorem step_relG {vs : VS} {w : Want} {s : Validate.Store} (hrel : Rel vs w s) (op : Op)
    (hcap : vs.st.index.length < vs.cfg.maxRecords) : ∃ w', Rel (step vs op) w' (absStepG vs s op) := by
  cases op with
  | deliver dx =>
    simp only [step, absStepG, deliver]
    exact applyToksS_rel dx _ hrel hcap
  | run n =>
    simp only [step, absStepG]
    cases vs.wids[n]? with
    | none => exact ⟨w, hrel⟩
    | some id => exact ⟨w, ⟨hrel.inv.runTask id, hrel.tracked, hrel.same⟩⟩
  | ack n =>
    simp only [step, absStepG]
    cases vs.wids[n]? with
    | none => exact ⟨w, hrel⟩
    | some id => exact ⟨w, ⟨hrel.inv.deliver dist id, hrel.tracked, hrel.same⟩⟩

theorem ReadsLastWrite_append {vs : VS} {a b : List Op} (h : ReadsLastWrite vs (a ++ b)) :
    ReadsLastWrite vs a ∧ ReadsLastWrite (runOps vs a) b := by
  induction a generalizing vs with
  | nil => exact ⟨trivial, h⟩
  | cons op rest ih =>
    obtain ⟨h1, h2⟩ := h
    obtain ⟨h3, h4⟩ := ih h2
    exact ⟨⟨h1, h3⟩, by simpa [runOps] using h4⟩

/-- an invariant of the plain map that every validation reading the last accepted copy of its key preserves is
preserved by the whole history; `Q` is a property every delivery of the history has -/
theorem runOps_invQ (Q : Delivery → Prop) (P : Validate.Store → Prop)
    (hstep : ∀ (vs : VS) (s : Validate.Store) (dx : DX), Q dx.d → P s → view vs (rwKey dx.d) = s.get (rwKey dx.d) →
      P (applyToks s (validateS vs dx.d).2))
    (ops : List Op) {vs : VS} {w : Want} {s : Validate.Store} (hrel : Rel vs w s) (hd : ReadsLastWrite vs ops)
    (hQ : ∀ d ∈ deliveriesOf ops, Q d) (hP : P s) :
    ∃ w' s', Rel (runOps vs ops) w' s' ∧ P s' := by
  induction ops generalizing vs w s with
  | nil => exact ⟨w, s, hrel, hP⟩
  | cons op rest ih =>
    obtain ⟨h1, h2⟩ := hd
    simp only [runOps, List.foldl_cons]
    cases op with
    | deliver dx =>
      simp only [opOkR] at h1
      obtain ⟨w1, hr1⟩ := step_relG hrel (.deliver dx) h1.2
      exact ih hr1 h2 (fun d hd => hQ d (by simp [deliveriesOf, hd]))
        (hstep vs s dx (hQ dx.d (by simp [deliveriesOf])) hP (view_of_readable hrel _ h1.1))
    | run n =>
      have hcapless : ∃ w', Rel (step vs (.run n)) w' s := by
        simp only [step]
        cases vs.wids[n]? with
        | none => exact ⟨w, hrel⟩
        | some id => exact ⟨w, ⟨hrel.inv.runTask id, hrel.tracked, hrel.same⟩⟩
      obtain ⟨w1, hr1⟩ := hcapless
      exact ih hr1 h2 (fun d hd => hQ d (by simpa [deliveriesOf] using hd)) hP
    | ack n =>
      have hcapless : ∃ w', Rel (step vs (.ack n)) w' s := by
        simp only [step]
        cases vs.wids[n]? with
        | none => exact ⟨w, hrel⟩
        | some id => exact ⟨w, ⟨hrel.inv.deliver dist id, hrel.tracked, hrel.same⟩⟩
      obtain ⟨w1, hr1⟩ := hcapless
      exact ih hr1 h2 (fun d hd => hQ d (by simpa [deliveriesOf] using hd)) hP

theorem runOps_inv (P : Validate.Store → Prop)
    (hstep : ∀ (vs : VS) (s : Validate.Store) (dx : DX), P s → view vs (rwKey dx.d) = s.get (rwKey dx.d) →
      P (applyToks s (validateS vs dx.d).2))
    (ops : List Op) {vs : VS} {w : Want} {s : Validate.Store} (hrel : Rel vs w s) (hd : ReadsLastWrite vs ops) (hP : P s) :
    ∃ w' s', Rel (runOps vs ops) w' s' ∧ P s' :=
  runOps_invQ (fun _ => True) P (fun vs s dx _ => hstep vs s dx) ops hrel hd (fun _ _ => trivial) hP

end SafeNet.ValidateStore
