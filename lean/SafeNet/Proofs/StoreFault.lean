import SafeNet.Model.StoreFault
import SafeNet.Proofs.StoreCap
/-!
Lemmas about the write-error extension (`Model/StoreFault`): the invariants `Sound`, `Views`, `CapInvL` of the base
model are preserved by `fstep`; histories without a fault are histories of the base model; what a failed write and the
handling of its `RemoveFailedLocalRecord` change.
-/
namespace SafeNet.Store

variable {P : Nat → Nat → Prop}

/-! ## `Sound` -/

theorem Sound.runFail {cfg : Cfg} {fs : FSt} (h : Sound P fs.s) (id : Nat) (f : Fault) :
    Sound P (runFail cfg fs id f).1.s := by
  unfold SafeNet.Store.runFail
  split
  · exact h
  · rename_i k v rt ht
    have htasks : ∀ i k v rt, (i, Task.write k v rt) ∈ erase id fs.s.tasks → P k v :=
      fun i k v rt hm => h.tasks i k v rt (mem_erase.mp hm).1
    split
    · cases f with
      | encryptFail => exact ⟨h.cache, h.disk, htasks⟩
      | openFail => exact ⟨h.cache, h.disk, htasks⟩
      | full b =>
        simp only
        split
        · refine ⟨h.cache, ?_, htasks⟩
          intro e he
          rcases mem_insert.mp he with rfl | he
          · exact h.tasks id k v rt (lookup_some_mem ht)
          · exact h.disk e he.1
        · exact h.runTask id
    · exact h
  · exact h

theorem Sound.fdeliver {dist : Nat → Nat} {fs : FSt} (h : Sound P fs.s) (id : Nat) :
    Sound P (fdeliver dist fs id).1.s := by
  unfold SafeNet.Store.fdeliver
  split
  · split
    · exact h
    · split
      · exact Sound.removeKey (s := { fs.s with notes := erase id fs.s.notes }) ⟨h.cache, h.disk, h.tasks⟩ _
      · exact h
  · exact h.deliver id

theorem Sound.fstep {cfg : Cfg} {dist : Nat → Nat} {fs : FSt} (h : Sound P fs.s) (op : FOp)
    (hp : ∀ k v rt, op = .base (.put k v rt) → P k v) : Sound P (fstep cfg dist fs op).1.s := by
  cases op with
  | runFail id f => exact h.runFail id f
  | base op =>
    have hb : Sound P (SafeNet.Store.step cfg dist fs.s op).1 := h.step op (fun k v rt e => hp k v rt (by rw [e]))
    cases op with
    | deliver id => exact h.fdeliver id
    | crash torn =>
      simp only [SafeNet.Store.fstep]
      split
      · exact hb
      · exact h
    | put k v rt => exact hb
    | remove k => exact hb
    | run id => exact hb
    | setRange r => exact hb
    | cleanup => exact hb
    | payment => exact hb

theorem Sound.frunFrom {cfg : Cfg} {dist : Nat → Nat} (ops : List FOp) {fs : FSt} (h : Sound P fs.s)
    (hp : ∀ op ∈ ops, ∀ k v rt, op = .base (.put k v rt) → P k v) : Sound P (frunFrom cfg dist fs ops).s := by
  induction ops generalizing fs with
  | nil => exact h
  | cons op ops ih =>
    exact ih (h.fstep op (hp op (List.mem_cons_self ..))) (fun o ho => hp o (List.mem_cons_of_mem _ ho))

/-! ## without a fault the extension is the base model -/

theorem fdeliver_nil (dist : Nat → Nat) (s : St) (id : Nat) :
    fdeliver dist ⟨s, []⟩ id = (⟨(deliver dist s id).1, []⟩, (deliver dist s id).2) := by
  simp [fdeliver]

theorem fstep_base_nil (cfg : Cfg) (dist : Nat → Nat) (s : St) (op : Op) :
    (fstep cfg dist ⟨s, []⟩ (.base op)).1 = ⟨(step cfg dist s op).1, []⟩ := by
  cases op with
  | deliver id => simp [fstep, fdeliver_nil, step]
  | crash torn =>
    simp only [fstep]
    split
    · rfl
    · rename_i hne
      simp only [step] at hne ⊢
      split
      · rename_i hall; simp [hall] at hne
      · rfl
  | put k v rt => rfl
  | remove k => rfl
  | run id => rfl
  | setRange r => rfl
  | cleanup => rfl
  | payment => rfl

theorem frunFrom_base (cfg : Cfg) (dist : Nat → Nat) (ops : List Op) (s : St) :
    frunFrom cfg dist ⟨s, []⟩ (ops.map .base) = ⟨runFrom cfg dist s ops, []⟩ := by
  induction ops generalizing s with
  | nil => rfl
  | cons op ops ih =>
    simp only [List.map_cons, frunFrom, runFrom]
    rw [fstep_base_nil]
    exact ih _

/-- a history in which no write fails is a history of the base model -/
theorem frun_base (cfg : Cfg) (dist : Nat → Nat) (ops : List Op) :
    frun cfg dist (ops.map .base) = ⟨run cfg dist ops, []⟩ :=
  frunFrom_base cfg dist ops _

/-! ## what a failed write changes: files and the pending lists, nothing else -/

/-- the fault bites: the open fails, or fewer bytes fit than the file has -/
def Fault.bites (cfg : Cfg) (v : Nat) : Fault → Prop
  | .openFail => True
  | .full b => b < fileLen cfg.encrypt (.full v)
  | .encryptFail => True

theorem runFail_frame (cfg : Cfg) (fs : FSt) (id : Nat) (f : Fault) :
    let s' := (runFail cfg fs id f).1.s
    s'.index = fs.s.index ∧ s'.byDist = fs.s.byDist ∧ s'.farthest = fs.s.farthest ∧ s'.cache = fs.s.cache ∧
      s'.payments = fs.s.payments ∧ s'.range = fs.s.range ∧ s'.nextId = fs.s.nextId := by
  simp only [runFail]
  split
  · simp
  · split
    · cases f with
      | encryptFail => simp
      | openFail => simp
      | full b =>
        simp only
        split
        · simp
        · simp only [runTask]
          split
          · simp
          · split
            · split <;> simp
            · simp
    · simp
  · simp

/-- the outcome of a failing write: the task is gone, a failure note is pending (none for `encryptFail`), and the
file of the key is — `openFail`, `encryptFail`: what it was; `full b`: the `b`-byte prefix of the new ciphertext -/
theorem runFail_outcome (cfg : Cfg) (fs : FSt) (id k v : Nat) (rt : RType) (f : Fault)
    (ht : lookup id fs.s.tasks = some (.write k v rt)) (hl : legalRun fs.s.tasks id (.write k v rt) = true)
    (hb : f.bites cfg v) :
    let r := runFail cfg fs id f
    r.1.s.tasks = erase id fs.s.tasks ∧
    (match f with
     | .openFail => r.2 = .ranFail ∧ r.1.s.disk = fs.s.disk ∧ r.1.s.notes = fs.s.notes ++ [(id, ⟨k, rt⟩)] ∧
         r.1.failed = fs.failed ++ [id]
     | .full b => r.2 = .ranFail ∧ r.1.s.disk = insert k (.torn v b) fs.s.disk ∧
         r.1.s.notes = fs.s.notes ++ [(id, ⟨k, rt⟩)] ∧ r.1.failed = fs.failed ++ [id]
     | .encryptFail => r.2 = .ranSilent ∧ r.1.s.disk = fs.s.disk ∧ r.1.s.notes = fs.s.notes ∧ r.1.failed = fs.failed) := by
  cases f with
  | openFail => simp [runFail, ht, hl]
  | encryptFail => simp [runFail, ht, hl]
  | full b =>
    have hb' : b < fileLen cfg.encrypt (.full v) := hb
    simp [runFail, ht, hl, hb']

/-- handling a `RemoveFailedLocalRecord` is `RecordStore::remove`: afterwards the key is not listed, not cached, hence
not readable, and a file delete is pending for it -/
theorem fdeliver_failed (cfg : Cfg) (dist : Nat → Nat) (fs : FSt) (id : Nat) (n : Note)
    (hf : id ∈ fs.failed) (hn : lookup id fs.s.notes = some n) (hl : legalDeliver fs.s.notes id n = true) :
    let r := fdeliver dist fs id
    r.2 = .ok ∧ lookup n.k r.1.s.index = none ∧ lookup n.k r.1.s.cache = none ∧
      get cfg r.1.s n.k = none ∧ contains r.1.s n.k = false ∧
      r.1.s.tasks = fs.s.tasks ++ [(fs.s.nextId, .delete n.k)] ∧ r.1.s.disk = fs.s.disk ∧
      r.1.s.notes = erase id fs.s.notes := by
  have hi : lookup n.k (removeKey dist { fs.s with notes := erase id fs.s.notes } n.k).index = none := by
    simp [removeKey, lookup_erase_self]
  have hc : lookup n.k (removeKey dist { fs.s with notes := erase id fs.s.notes } n.k).cache = none := by
    simp [removeKey, lookup_erase_self]
  simp only [fdeliver, hf, ↓reduceIte, hn, hl]
  refine ⟨trivial, hi, hc, ?_, ?_, ?_, ?_, ?_⟩
  · simp [get, hc, hi]
  · simp [contains, hi]
  · simp [removeKey]
  · simp [removeKey]
  · simp [removeKey]

/-- a file delete that runs leaves no file of the key -/
theorem runTask_delete (s : St) (id k : Nat) (ht : lookup id s.tasks = some (.delete k))
    (hl : legalRun s.tasks id (.delete k) = true) :
    lookup k (runTask s id).1.disk = none ∧ (runTask s id).1.index = s.index ∧ (runTask s id).1.cache = s.cache := by
  simp [runTask, ht, hl, lookup_erase_self]

theorem lookup_append_new {α : Type} {l : List (Nat × α)} {id : Nat} (a : α) (h : ∀ e ∈ l, e.1 ≠ id) :
    lookup id (l ++ [(id, a)]) = some a := by
  induction l with
  | nil => simp [lookup]
  | cons x xs ih =>
    obtain ⟨i, b⟩ := x
    have hi : i ≠ id := h (i, b) (List.mem_cons_self ..)
    simp only [List.cons_append, lookup, if_neg hi]
    exact ih (fun e he => h e (List.mem_cons_of_mem _ he))

theorem firstNoteOf_append_new {l : List (Nat × Note)} {id k : Nat} (rt : RType) (h : ∀ e ∈ l, e.2.k ≠ k) :
    firstNoteOf k (l ++ [(id, ⟨k, rt⟩)]) = some id := by
  induction l with
  | nil => simp [firstNoteOf]
  | cons x xs ih =>
    obtain ⟨i, n⟩ := x
    have hi : n.k ≠ k := h (i, n) (List.mem_cons_self ..)
    simp only [List.cons_append, firstNoteOf, if_neg hi]
    exact ih (fun e he => h e (List.mem_cons_of_mem _ he))

theorem firstTaskOf_append_new {l : List (Nat × Task)} {id k : Nat} (h : ∀ e ∈ l, taskKey e.2 ≠ some k) :
    firstTaskOf k (l ++ [(id, .delete k)]) = some id := by
  induction l with
  | nil => simp [firstTaskOf, taskKey]
  | cons x xs ih =>
    obtain ⟨i, t⟩ := x
    have hi : taskKey t ≠ some k := h (i, t) (List.mem_cons_self ..)
    simp only [List.cons_append, firstTaskOf, if_neg hi]
    exact ih (fun e he => h e (List.mem_cons_of_mem _ he))

/-- **A failed write, handled and settled.** From ANY state in which write task `id` of key `k` may run and nothing
else of `k` is pending: the write fails (`openFail` or `full b`), its `RemoveFailedLocalRecord` is handled, the file
delete the handler spawned runs. While the failure is not handled the index and the cache are what they were (the
cache keeps serving the unpersisted value); once it is handled the key is neither listed nor cached nor readable;
once the delete ran there is no file either. -/
theorem failed_write_chain (cfg : Cfg) (dist : Nat → Nat) (fs : FSt) (id k v : Nat) (rt : RType) (f : Fault)
    (ht : lookup id fs.s.tasks = some (.write k v rt)) (hl : legalRun fs.s.tasks id (.write k v rt) = true)
    (hb : f.bites cfg v) (hne : f ≠ .encryptFail)
    (hnotes : ∀ e ∈ fs.s.notes, e.1 ≠ id ∧ e.2.k ≠ k)
    (htasks : ∀ e ∈ fs.s.tasks, e.1 < fs.s.nextId ∧ (e.1 ≠ id → taskKey e.2 ≠ some k)) :
    let fs1 := (runFail cfg fs id f).1
    let fs2 := (fdeliver dist fs1 id).1
    let s3 := (runTask fs2.s fs.s.nextId).1
    (runFail cfg fs id f).2 = .ranFail ∧ fs1.s.cache = fs.s.cache ∧ fs1.s.index = fs.s.index ∧
    (fdeliver dist fs1 id).2 = .ok ∧ get cfg fs2.s k = none ∧ contains fs2.s k = false ∧
    (runTask fs2.s fs.s.nextId).2 = .ran ∧
    get cfg s3 k = none ∧ contains s3 k = false ∧ lookup k s3.disk = none := by
  intro fs1 fs2 s3
  have hfr := runFail_frame cfg fs id f
  have ho := runFail_outcome cfg fs id k v rt f ht hl hb
  simp only at hfr ho
  have hnotes1 : fs1.s.notes = fs.s.notes ++ [(id, ⟨k, rt⟩)] ∧ fs1.failed = fs.failed ++ [id] ∧
      (runFail cfg fs id f).2 = .ranFail := by
    cases f with
    | openFail => exact ⟨ho.2.2.2.1, ho.2.2.2.2, ho.2.1⟩
    | full b => exact ⟨ho.2.2.2.1, ho.2.2.2.2, ho.2.1⟩
    | encryptFail => exact absurd rfl hne
  have hlk : lookup id fs1.s.notes = some ⟨k, rt⟩ := by
    rw [hnotes1.1]; exact lookup_append_new _ (fun e he => (hnotes e he).1)
  have hleg : legalDeliver fs1.s.notes id ⟨k, rt⟩ = true := by
    simp only [legalDeliver, hnotes1.1]
    rw [firstNoteOf_append_new rt (fun e he => (hnotes e he).2)]
    simp
  have hmem : id ∈ fs1.failed := by rw [hnotes1.2.1]; simp
  have hd := fdeliver_failed cfg dist fs1 id ⟨k, rt⟩ hmem hlk hleg
  simp only at hd
  obtain ⟨hd1, hd2, hd3, hd4, hd5, hd6, hd7, _⟩ := hd
  have htk : fs2.s.tasks = erase id fs.s.tasks ++ [(fs.s.nextId, .delete k)] := by
    show (fdeliver dist fs1 id).1.s.tasks = _
    rw [hd6, ho.1, hfr.2.2.2.2.2.2]
  have hlk3 : lookup fs.s.nextId fs2.s.tasks = some (.delete k) := by
    rw [htk]
    exact lookup_append_new _ (fun e he => Nat.ne_of_lt (htasks e (mem_erase.mp he).1).1)
  have hleg3 : legalRun fs2.s.tasks fs.s.nextId (.delete k) = true := by
    simp only [legalRun, taskKey, htk]
    rw [firstTaskOf_append_new (fun e he => (htasks e (mem_erase.mp he).1).2 (mem_erase.mp he).2)]
    simp
  have h3 := runTask_delete fs2.s fs.s.nextId k hlk3 hleg3
  have hran : (runTask fs2.s fs.s.nextId).2 = .ran := by simp [runTask, hlk3, hleg3]
  have hi3 : lookup k s3.index = none := by show lookup k (runTask fs2.s fs.s.nextId).1.index = none; rw [h3.2.1]; exact hd2
  have hc3 : lookup k s3.cache = none := by show lookup k (runTask fs2.s fs.s.nextId).1.cache = none; rw [h3.2.2]; exact hd3
  refine ⟨hnotes1.2.2, hfr.2.2.2.1, hfr.1, hd1, hd4, hd5, hran, ?_, ?_, h3.1⟩
  · simp [get, hc3, hi3]
  · simp [contains, hi3]

/-! ## `Views` and the capacity invariant -/

theorem Views.runFail {cfg : Cfg} {dist : Nat → Nat} {fs : FSt} (h : Views dist fs.s) (id : Nat) (f : Fault) :
    Views dist (runFail cfg fs id f).1.s := by
  unfold SafeNet.Store.runFail
  split
  · exact h
  · split
    · cases f with
      | encryptFail => exact h.congr rfl rfl rfl rfl
      | openFail => exact h.congr rfl rfl rfl rfl
      | full b =>
        simp only
        split
        · exact ⟨h.perm, h.dOK, h.nodup, h.far, nodup_keys_insert h.diskNodup⟩
        · exact h.runTask id
    · exact h
  · exact h

theorem Views.fdeliver {dist : Nat → Nat} (inj : Injective dist) {fs : FSt} (h : Views dist fs.s) (id : Nat) :
    Views dist (fdeliver dist fs id).1.s := by
  unfold SafeNet.Store.fdeliver
  split
  · split
    · exact h
    · split
      · exact Views.removeKey inj (s := { fs.s with notes := erase id fs.s.notes }) (h.congr rfl rfl rfl rfl) _
      · exact h
  · exact h.deliver inj id

theorem Views.fstep {cfg : Cfg} {dist : Nat → Nat} (inj : Injective dist) {fs : FSt} (h : Views dist fs.s) (op : FOp) :
    Views dist (fstep cfg dist fs op).1.s := by
  cases op with
  | runFail id f => exact h.runFail id f
  | base op =>
    have hb : Views dist (SafeNet.Store.step cfg dist fs.s op).1 := h.step inj op
    cases op with
    | deliver id => exact h.fdeliver inj id
    | crash torn =>
      simp only [SafeNet.Store.fstep]
      split
      · exact hb
      · exact h
    | put k v rt => exact hb
    | remove k => exact hb
    | run id => exact hb
    | setRange r => exact hb
    | cleanup => exact hb
    | payment => exact hb

theorem Views.frunFrom {cfg : Cfg} {dist : Nat → Nat} (inj : Injective dist) (ops : List FOp) {fs : FSt}
    (h : Views dist fs.s) : Views dist (frunFrom cfg dist fs ops).s := by
  induction ops generalizing fs with
  | nil => exact h
  | cons op ops ih => exact ih (h.fstep inj op)

/-- a failing write leaves `listed + in flight` as it was: the write task becomes a pending failure note (none for
`encryptFail`: one fewer in flight), the index is not touched -/
theorem CapInvL.runFail {cfg : Cfg} {L : Nat} {fs : FSt} (h : CapInvL cfg L fs.s) (id : Nat) (f : Fault) :
    CapInvL cfg L (runFail cfg fs id f).1.s := by
  unfold SafeNet.Store.runFail
  split
  · exact h
  · rename_i k v rt ht
    split
    · have hm : (id, Task.write k v rt) ∈ fs.s.tasks := lookup_some_mem ht
      have hlt := writes_erase_lt hm (by rfl : isWrite (.write k v rt) = true)
      cases f with
      | encryptFail =>
        unfold CapInvL inflight at *
        simp only
        omega
      | openFail =>
        unfold CapInvL inflight at *
        simp only [List.length_append, List.length_singleton]
        omega
      | full b =>
        simp only
        split
        · unfold CapInvL inflight at *
          simp only [List.length_append, List.length_singleton]
          omega
        · exact h.runTask id
    · exact h
  · exact h

theorem CapInvL.fdeliver {cfg : Cfg} {L : Nat} {dist : Nat → Nat} {fs : FSt} (h : CapInvL cfg L fs.s) (id : Nat) :
    CapInvL cfg L (fdeliver dist fs id).1.s := by
  unfold SafeNet.Store.fdeliver
  split
  · split
    · exact h
    · split
      · apply CapInvL.removeKey (s := { fs.s with notes := erase id fs.s.notes })
        unfold CapInvL inflight at *
        have := length_erase_le id fs.s.notes
        simp only
        omega
      · exact h
  · exact h.deliver id

def isPutF : FOp → Bool
  | .base (.put _ _ _) => true
  | _ => false

def isCrashF : FOp → Bool
  | .base (.crash _) => true
  | _ => false

/-- every put happens with no write or notification (of either kind) in flight, and the node does not stop -/
def AckBeforePutF (cfg : Cfg) (dist : Nat → Nat) : FSt → List FOp → Prop
  | _, [] => True
  | fs, op :: ops =>
    (isPutF op = true → inflight fs.s = 0) ∧ isCrashF op = false ∧ AckBeforePutF cfg dist (fstep cfg dist fs op).1 ops

theorem CapInvL.fstep {cfg : Cfg} {L : Nat} {dist : Nat → Nat} {fs : FSt} (hv : Views dist fs.s) (h : CapInvL cfg L fs.s)
    (op : FOp) (hp : isPutF op = true → inflight fs.s = 0) (hc : isCrashF op = false) :
    CapInvL cfg L (fstep cfg dist fs op).1.s := by
  cases op with
  | runFail id f => exact h.runFail id f
  | base op =>
    cases op with
    | deliver id => exact h.fdeliver id
    | crash torn => simp [isCrashF] at hc
    | put k v rt => exact CapInvL.step hv h (.put k v rt) (fun _ => hp rfl) rfl
    | remove k => exact CapInvL.step hv h (.remove k) (by simp [isPut]) rfl
    | run id => exact CapInvL.step hv h (.run id) (by simp [isPut]) rfl
    | setRange r => exact CapInvL.step hv h (.setRange r) (by simp [isPut]) rfl
    | cleanup => exact CapInvL.step hv h .cleanup (by simp [isPut]) rfl
    | payment => exact CapInvL.step hv h .payment (by simp [isPut]) rfl

theorem CapInv.frunFrom {cfg : Cfg} {dist : Nat → Nat} (inj : Injective dist) (ops : List FOp) {fs : FSt}
    (hv : Views dist fs.s) (h : CapInv cfg fs.s) (ha : AckBeforePutF cfg dist fs ops) :
    CapInv cfg (frunFrom cfg dist fs ops).s := by
  induction ops generalizing fs with
  | nil => exact h
  | cons op ops ih =>
    obtain ⟨hp, hc, hrest⟩ := ha
    exact ih (hv.fstep inj op) (CapInvL.fstep hv h op hp hc) hrest

end SafeNet.Store
