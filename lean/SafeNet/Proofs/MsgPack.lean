import SafeNet.Base.MsgPack
/-!
Lemmas about `SafeNet.MsgPack`: big/little-endian round trips, head round trip, and the centre-piece
`decode_encode`: the decoder inverts the shortest-form encoder on every well-formed value, whatever follows.
-/
namespace SafeNet.MsgPack

/-! ## fixed-width integers -/

theorem toBE_length (k n : Nat) : (toBE k n).length = k := by
  induction k with
  | zero => rfl
  | succ k ih => simp [toBE, ih]

theorem toLE_length (k n : Nat) : (toLE k n).length = k := by
  induction k generalizing n with
  | zero => rfl
  | succ k ih => simp [toLE, ih]

theorem foldl_toBE (k n a : Nat) :
    (toBE k n).foldl (fun a b => a * 256 + b) a = a * 256 ^ k + n % 256 ^ k := by
  induction k generalizing a with
  | zero => simp [toBE, Nat.mod_one]
  | succ k ih =>
    simp only [toBE, List.foldl_cons, ih]
    rw [Nat.mod_pow_succ, Nat.pow_succ, Nat.add_mul, Nat.mul_assoc, Nat.mul_comm 256 (256 ^ k),
      Nat.mul_comm (n / 256 ^ k % 256)]
    omega

theorem fromBE_toBE (k n : Nat) (h : n < 256 ^ k) : fromBE (toBE k n) = n := by
  simp [fromBE, foldl_toBE, Nat.mod_eq_of_lt h]

theorem fromLE_toLE (k n : Nat) (h : n < 256 ^ k) : fromLE (toLE k n) = n := by
  induction k generalizing n with
  | zero => simp at h; simp [toLE, fromLE, h]
  | succ k ih =>
    have : n / 256 < 256 ^ k := by
      rw [Nat.div_lt_iff_lt_mul (by omega)]; rw [Nat.pow_succ] at h; exact h
    simp only [toLE, fromLE, ih _ this]
    omega

theorem readBE_toBE (k n : Nat) (rest : List Nat) (h : n < 256 ^ k) :
    readBE k (toBE k n ++ rest) = some (n, rest) := by
  have hl := toBE_length k n
  unfold readBE
  rw [if_neg (by simp [hl])]
  congr 2
  · rw [List.take_append_of_le_length (by omega), List.take_of_length_le (by omega), fromBE_toBE k n h]
  · rw [List.drop_append_of_le_length (by omega), List.drop_of_length_le (by omega)]; rfl

theorem readBE_one (n : Nat) (rest : List Nat) : readBE 1 (n :: rest) = some (n, rest) := by
  simp [readBE, fromBE]

theorem signedHead_neg (k u m : Nat) (h : 256 ^ k / 2 ≤ u) (hm : 256 ^ k - 1 - u = m) :
    signedHead k u = .nint m := by
  subst hm; unfold signedHead; rw [if_neg (by omega)]

theorem takeN_append (s rest : List Nat) : takeN s.length (s ++ rest) = some (s, rest) := by
  simp [takeN]

/-! ## heads -/

def wfHead : Head → Bool
  | .nil => true
  | .bool _ => true
  | .uint n => n < 18446744073709551616
  | .nint m => m < 9223372036854775808
  | .str n => n < 4294967296
  | .bin n => n < 4294967296
  | .arr n => n < 4294967296
  | .map n => n < 4294967296

theorem encodeHead_length_pos (h : Head) : 0 < (encodeHead h).length := by
  cases h with
  | bool b => cases b <;> simp [encodeHead]
  | _ => simp only [encodeHead]; repeat' split
         all_goals simp

macro "head_ifs" : tactic =>
  `(tactic| (simp only [decodeHead]; repeat (first | rw [if_pos (by omega)] | rw [if_neg (by omega)])))

theorem decodeHead_encodeHead (h : Head) (rest : List Nat) (hw : wfHead h = true) :
    decodeHead (encodeHead h ++ rest) = some (h, rest) := by
  cases h with
  | nil => simp [encodeHead, decodeHead]
  | bool b => cases b <;> simp [encodeHead, decodeHead]
  | uint n =>
    simp only [wfHead, decide_eq_true_eq] at hw
    simp only [encodeHead]
    split
    · simp only [List.cons_append, List.nil_append]; head_ifs
    split
    · simp only [List.cons_append, List.nil_append]; head_ifs; simp [readBE_one]
    split
    · simp only [List.cons_append]; head_ifs; rw [readBE_toBE _ _ _ (by omega)]; rfl
    split
    · simp only [List.cons_append]; head_ifs; rw [readBE_toBE _ _ _ (by omega)]; rfl
    · simp only [List.cons_append]; head_ifs; rw [readBE_toBE _ _ _ (by omega)]; rfl
  | nint m =>
    simp only [wfHead, decide_eq_true_eq] at hw
    simp only [encodeHead]
    split
    · simp only [List.cons_append, List.nil_append]; head_ifs
      simp only [Option.some.injEq, Prod.mk.injEq, and_true, Head.nint.injEq]; omega
    split
    · simp only [List.cons_append, List.nil_append]; head_ifs
      simp only [readBE_one, Option.map_some]
      rw [signedHead_neg 1 _ m (by simp; omega) (by simp; omega)]; rfl
    split
    · simp only [List.cons_append]; head_ifs; rw [readBE_toBE _ _ _ (by omega)]
      simp only [Option.map_some]
      rw [signedHead_neg 2 _ m (by simp; omega) (by simp; omega)]; rfl
    split
    · simp only [List.cons_append]; head_ifs; rw [readBE_toBE _ _ _ (by omega)]
      simp only [Option.map_some]
      rw [signedHead_neg 4 _ m (by simp; omega) (by simp; omega)]; rfl
    · simp only [List.cons_append]; head_ifs; rw [readBE_toBE _ _ _ (by omega)]
      simp only [Option.map_some]
      rw [signedHead_neg 8 _ m (by simp; omega) (by simp; omega)]; rfl
  | str n =>
    simp only [wfHead, decide_eq_true_eq] at hw
    simp only [encodeHead]
    split
    · simp only [List.cons_append, List.nil_append]; head_ifs
      simp only [Option.some.injEq, Prod.mk.injEq, and_true, Head.str.injEq]; omega
    split
    · simp only [List.cons_append, List.nil_append]; head_ifs; simp [readBE_one]
    split
    · simp only [List.cons_append]; head_ifs; rw [readBE_toBE _ _ _ (by omega)]; rfl
    · simp only [List.cons_append]; head_ifs; rw [readBE_toBE _ _ _ (by omega)]; rfl
  | bin n =>
    simp only [wfHead, decide_eq_true_eq] at hw
    simp only [encodeHead]
    split
    · simp only [List.cons_append, List.nil_append]; head_ifs; simp [readBE_one]
    split
    · simp only [List.cons_append]; head_ifs; rw [readBE_toBE _ _ _ (by omega)]; rfl
    · simp only [List.cons_append]; head_ifs; rw [readBE_toBE _ _ _ (by omega)]; rfl
  | arr n =>
    simp only [wfHead, decide_eq_true_eq] at hw
    simp only [encodeHead]
    split
    · simp only [List.cons_append, List.nil_append]; head_ifs
      simp only [Option.some.injEq, Prod.mk.injEq, and_true, Head.arr.injEq]; omega
    split
    · simp only [List.cons_append]; head_ifs; rw [readBE_toBE _ _ _ (by omega)]; rfl
    · simp only [List.cons_append]; head_ifs; rw [readBE_toBE _ _ _ (by omega)]; rfl
  | map n =>
    simp only [wfHead, decide_eq_true_eq] at hw
    simp only [encodeHead]
    split
    · simp only [List.cons_append, List.nil_append]; head_ifs
      simp only [Option.some.injEq, Prod.mk.injEq, and_true, Head.map.injEq]; omega
    split
    · simp only [List.cons_append]; head_ifs; rw [readBE_toBE _ _ _ (by omega)]; rfl
    · simp only [List.cons_append]; head_ifs; rw [readBE_toBE _ _ _ (by omega)]; rfl

/-! ## sequences -/

theorem decodeSeq_encodeList (dec : List Nat → Option (Val × List Nat)) (xs : List Val) (rest : List Nat)
    (h : ∀ x ∈ xs, ∀ r, dec (encode x ++ r) = some (x, r)) :
    decodeSeq dec xs.length (encodeList xs ++ rest) = some (xs, rest) := by
  induction xs with
  | nil => simp [decodeSeq, encodeList]
  | cons x xs ih =>
    simp only [List.length_cons, encodeList, List.append_assoc, decodeSeq]
    rw [h x (by simp)]
    simp only
    rw [ih (fun y hy r => h y (by simp [hy]) r)]

theorem decodePairs_encodePairs (dec : List Nat → Option (Val × List Nat)) (ps : List (Val × Val)) (rest : List Nat)
    (h : ∀ p ∈ ps, (∀ r, dec (encode p.1 ++ r) = some (p.1, r)) ∧ (∀ r, dec (encode p.2 ++ r) = some (p.2, r))) :
    decodePairs dec ps.length (encodePairs ps ++ rest) = some (ps, rest) := by
  induction ps with
  | nil => simp [decodePairs, encodePairs]
  | cons p ps ih =>
    obtain ⟨k, v⟩ := p
    simp only [List.length_cons, encodePairs, List.append_assoc, decodePairs]
    rw [(h (k, v) (by simp)).1]
    simp only
    rw [(h (k, v) (by simp)).2]
    simp only
    rw [ih (fun y hy => h y (by simp [hy]))]

theorem wfList_mem {xs : List Val} (h : wfList xs = true) : ∀ x ∈ xs, wf x = true := by
  induction xs with
  | nil => simp
  | cons y ys ih =>
    simp only [wfList, Bool.and_eq_true] at h
    intro x hx
    rcases List.mem_cons.mp hx with rfl | hx
    · exact h.1
    · exact ih h.2 x hx

theorem wfPairs_mem {ps : List (Val × Val)} (h : wfPairs ps = true) :
    ∀ p ∈ ps, wf p.1 = true ∧ wf p.2 = true := by
  induction ps with
  | nil => simp
  | cons q qs ih =>
    obtain ⟨k, v⟩ := q
    simp only [wfPairs, Bool.and_eq_true] at h
    intro p hp
    rcases List.mem_cons.mp hp with rfl | hp
    · exact ⟨h.1, h.2.1⟩
    · exact ih h.2.2 p hp

theorem encodeList_length_mem {xs : List Val} : ∀ x ∈ xs, (encode x).length ≤ (encodeList xs).length := by
  induction xs with
  | nil => simp
  | cons y ys ih =>
    intro x hx
    simp only [encodeList, List.length_append]
    rcases List.mem_cons.mp hx with rfl | hx
    · omega
    · have := ih x hx; omega

theorem encodePairs_length_mem {ps : List (Val × Val)} :
    ∀ p ∈ ps, (encode p.1).length ≤ (encodePairs ps).length ∧ (encode p.2).length ≤ (encodePairs ps).length := by
  induction ps with
  | nil => simp
  | cons q qs ih =>
    obtain ⟨k, v⟩ := q
    intro p hp
    simp only [encodePairs, List.length_append]
    rcases List.mem_cons.mp hp with rfl | hp
    · constructor <;> simp only <;> omega
    · have := ih p hp; omega

/-! ## the decoder inverts the encoder -/

theorem decodeF_encode (v : Val) (fuel : Nat) (rest : List Nat) (hw : wf v = true)
    (hf : (encode v).length ≤ fuel) : decodeF fuel (encode v ++ rest) = some (v, rest) := by
  match fuel, v with
  | 0, v =>
    exfalso
    cases v <;> simp only [encode, List.length_append] at hf <;>
      (have := encodeHead_length_pos; first | (have := this .nil; omega) | skip)
    all_goals first
      | (rename_i b; have := encodeHead_length_pos (.bool b); omega)
      | (rename_i n; have := encodeHead_length_pos (.uint n); have := encodeHead_length_pos (.nint n); omega)
      | (rename_i s; have := encodeHead_length_pos (.str s.length); have := encodeHead_length_pos (.bin s.length);
         have := encodeHead_length_pos (.arr s.length); have := encodeHead_length_pos (.map s.length); omega)
  | f+1, .nil => simp [encode, decodeF, decodeHead_encodeHead _ _ (show wfHead .nil = true from rfl)]
  | f+1, .bool b => simp [encode, decodeF, decodeHead_encodeHead _ _ (show wfHead (.bool b) = true from rfl)]
  | f+1, .uint n =>
    simp only [wf] at hw
    simp [encode, decodeF, decodeHead_encodeHead _ _ (show wfHead (.uint n) = true from hw)]
  | f+1, .nint m =>
    simp only [wf] at hw
    simp [encode, decodeF, decodeHead_encodeHead _ _ (show wfHead (.nint m) = true from hw)]
  | f+1, .str s =>
    simp only [wf, Bool.and_eq_true] at hw
    simp [encode, decodeF, decodeHead_encodeHead _ _ (show wfHead (.str s.length) = true from hw.1), takeN_append]
  | f+1, .bin s =>
    simp only [wf, Bool.and_eq_true] at hw
    simp [encode, decodeF, decodeHead_encodeHead _ _ (show wfHead (.bin s.length) = true from hw.1), takeN_append]
  | f+1, .arr xs =>
    simp only [wf, Bool.and_eq_true] at hw
    have hpos := encodeHead_length_pos (.arr xs.length)
    simp only [encode, List.length_append] at hf
    have ih : ∀ x ∈ xs, ∀ r, decodeF f (encode x ++ r) = some (x, r) := fun x hx r =>
      decodeF_encode x f r (wfList_mem hw.2 x hx) (by have := encodeList_length_mem x hx; omega)
    simp only [encode, List.append_assoc, decodeF,
      decodeHead_encodeHead _ _ (show wfHead (.arr xs.length) = true from hw.1),
      decodeSeq_encodeList (decodeF f) xs rest ih, Option.map_some]
  | f+1, .map ps =>
    simp only [wf, Bool.and_eq_true] at hw
    have hpos := encodeHead_length_pos (.map ps.length)
    simp only [encode, List.length_append] at hf
    have ih : ∀ p ∈ ps, (∀ r, decodeF f (encode p.1 ++ r) = some (p.1, r)) ∧
        (∀ r, decodeF f (encode p.2 ++ r) = some (p.2, r)) := fun p hp =>
      ⟨fun r => decodeF_encode p.1 f r (wfPairs_mem hw.2 p hp).1 (by have := (encodePairs_length_mem p hp).1; omega),
       fun r => decodeF_encode p.2 f r (wfPairs_mem hw.2 p hp).2 (by have := (encodePairs_length_mem p hp).2; omega)⟩
    simp only [encode, List.append_assoc, decodeF,
      decodeHead_encodeHead _ _ (show wfHead (.map ps.length) = true from hw.1),
      decodePairs_encodePairs (decodeF f) ps rest ih, Option.map_some]
termination_by sizeOf v
decreasing_by
  all_goals simp_wf
  · have := List.sizeOf_lt_of_mem hx; omega
  · have := List.sizeOf_lt_of_mem hp
    have : sizeOf p.1 < sizeOf p := by cases p; simp; omega
    omega
  · have := List.sizeOf_lt_of_mem hp
    have : sizeOf p.2 < sizeOf p := by cases p; simp; omega
    omega

/-- **Centre-piece.** The decoder inverts the shortest-form encoder on every well-formed value and
hands back exactly the bytes that followed it. -/
theorem decode_encode (v : Val) (rest : List Nat) (hw : WellFormed v) :
    decode (encode v ++ rest) = some (v, rest) := by
  unfold decode
  exact decodeF_encode v _ rest hw (by simp)


/-! ## fuel monotonicity: more nesting budget never changes a successful result -/

theorem decodeSeq_mono (d1 d2 : List Nat → Option (Val × List Nat))
    (h : ∀ bs r, d1 bs = some r → d2 bs = some r) :
    ∀ n bs r, decodeSeq d1 n bs = some r → decodeSeq d2 n bs = some r := by
  intro n
  induction n with
  | zero => intro bs r hr; simpa [decodeSeq] using hr
  | succ n ih =>
    intro bs r hr
    simp only [decodeSeq] at hr ⊢
    cases h1 : d1 bs with
    | none => simp [h1] at hr
    | some p =>
      obtain ⟨v, r1⟩ := p
      rw [h1] at hr
      rw [h bs _ h1]
      simp only at hr ⊢
      cases h2 : decodeSeq d1 n r1 with
      | none => simp [h2] at hr
      | some q => rw [h2] at hr; rw [ih r1 q h2]; exact hr

theorem decodePairs_mono (d1 d2 : List Nat → Option (Val × List Nat))
    (h : ∀ bs r, d1 bs = some r → d2 bs = some r) :
    ∀ n bs r, decodePairs d1 n bs = some r → decodePairs d2 n bs = some r := by
  intro n
  induction n with
  | zero => intro bs r hr; simpa [decodePairs] using hr
  | succ n ih =>
    intro bs r hr
    simp only [decodePairs] at hr ⊢
    cases h1 : d1 bs with
    | none => simp [h1] at hr
    | some p =>
      obtain ⟨k, r1⟩ := p
      rw [h1] at hr
      rw [h bs _ h1]
      simp only at hr ⊢
      cases h2 : d1 r1 with
      | none => simp [h2] at hr
      | some p2 =>
        obtain ⟨v, r2⟩ := p2
        rw [h2] at hr
        rw [h r1 _ h2]
        simp only at hr ⊢
        cases h3 : decodePairs d1 n r2 with
        | none => simp [h3] at hr
        | some q => rw [h3] at hr; rw [ih r2 q h3]; exact hr

theorem decodeF_succ (f : Nat) : ∀ bs r, decodeF f bs = some r → decodeF (f + 1) bs = some r := by
  induction f with
  | zero => intro bs r h; simp [decodeF] at h
  | succ f ih =>
    intro bs r h
    rw [decodeF] at h ⊢
    cases hd : decodeHead bs with
    | none => simp [hd] at h
    | some p =>
      obtain ⟨hh, r1⟩ := p
      rw [hd] at h
      cases hh with
      | arr n =>
        simp only at h ⊢
        cases hs : decodeSeq (decodeF f) n r1 with
        | none => simp [hs] at h
        | some q => rw [hs] at h; rw [decodeSeq_mono _ _ ih n r1 q hs]; exact h
      | map n =>
        simp only at h ⊢
        cases hs : decodePairs (decodeF f) n r1 with
        | none => simp [hs] at h
        | some q => rw [hs] at h; rw [decodePairs_mono _ _ ih n r1 q hs]; exact h
      | _ => exact h

theorem decodeF_le {f g : Nat} (hfg : f ≤ g) (bs : List Nat) (r : Val × List Nat)
    (h : decodeF f bs = some r) : decodeF g bs = some r := by
  induction hfg with
  | refl => exact h
  | step _ ih => exact decodeF_succ _ bs r ih

/-- with any budget the decoder either gives up or returns exactly the encoded value and what followed -/
theorem decodeF_encode_or_none (v : Val) (fuel : Nat) (rest : List Nat) (hw : wf v = true) :
    decodeF fuel (encode v ++ rest) = none ∨ decodeF fuel (encode v ++ rest) = some (v, rest) := by
  cases h : decodeF fuel (encode v ++ rest) with
  | none => exact Or.inl rfl
  | some r =>
    right
    have big := decodeF_encode v (max fuel (encode v).length) rest hw (Nat.le_max_right _ _)
    have := decodeF_le (Nat.le_max_left fuel (encode v).length) _ r h
    rw [big] at this
    exact congrArg some (Option.some.inj this).symm ▸ rfl

/-! ## prefix-freeness: no strict prefix of an encoding decodes -/

theorem readBE_short (k : Nat) (bs : List Nat) (h : bs.length < k) : readBE k bs = none := by
  simp [readBE, h]

theorem takeN_short (n : Nat) (bs : List Nat) (h : bs.length < n) : takeN n bs = none := by
  simp [takeN, h]

theorem take_cons_toBE (m k x n : Nat) (hn : n < k + 1) :
    (m :: toBE k x).take n = [] ∨ ∃ t, (m :: toBE k x).take n = m :: t ∧ t.length < k := by
  cases n with
  | zero => exact Or.inl rfl
  | succ j =>
    right
    refine ⟨(toBE k x).take j, rfl, ?_⟩
    rw [List.length_take, toBE_length]; omega


set_option hygiene false in
macro "pfx_multi" k:term : tactic =>
  `(tactic| (
    simp only [List.length_cons, toBE_length] at hn
    rcases take_cons_toBE _ $k _ n (by omega) with h0 | ⟨t, ht, hl⟩
    · rw [h0]; rfl
    · rw [ht]; simp [decodeHead, readBE_short _ t hl]))

set_option hygiene false in
macro "pfx_two" : tactic =>
  `(tactic| (
    simp only [List.length_cons, List.length_nil] at hn
    have : n = 0 ∨ n = 1 := by omega
    rcases this with rfl | rfl
    · rfl
    · simp [decodeHead, readBE]))

set_option hygiene false in
macro "pfx_one" : tactic =>
  `(tactic| (
    simp only [List.length_cons, List.length_nil] at hn
    have : n = 0 := by omega
    subst this; rfl))

/-- no strict prefix of a head (marker + length / immediate bytes) decodes -/
theorem head_prefix_none (h : Head) (n : Nat) (hn : n < (encodeHead h).length) :
    decodeHead ((encodeHead h).take n) = none := by
  cases h with
  | nil => simp only [encodeHead] at hn ⊢; pfx_one
  | bool b => cases b <;> (simp only [encodeHead] at hn ⊢; pfx_one)
  | uint x =>
    simp only [encodeHead] at hn ⊢
    split at hn <;> rename_i c0
    · rw [if_pos c0]; pfx_one
    rw [if_neg c0]
    split at hn <;> rename_i c1
    · rw [if_pos c1]; pfx_two
    rw [if_neg c1]
    split at hn <;> rename_i c2
    · rw [if_pos c2]; pfx_multi 2
    rw [if_neg c2]
    split at hn <;> rename_i c3
    · rw [if_pos c3]; pfx_multi 4
    rw [if_neg c3]
    pfx_multi 8
  | nint x =>
    simp only [encodeHead] at hn ⊢
    split at hn <;> rename_i c0
    · rw [if_pos c0]; pfx_one
    rw [if_neg c0]
    split at hn <;> rename_i c1
    · rw [if_pos c1]; pfx_two
    rw [if_neg c1]
    split at hn <;> rename_i c2
    · rw [if_pos c2]; pfx_multi 2
    rw [if_neg c2]
    split at hn <;> rename_i c3
    · rw [if_pos c3]; pfx_multi 4
    rw [if_neg c3]
    pfx_multi 8
  | str x =>
    simp only [encodeHead] at hn ⊢
    split at hn <;> rename_i c0
    · rw [if_pos c0]; pfx_one
    rw [if_neg c0]
    split at hn <;> rename_i c1
    · rw [if_pos c1]; pfx_two
    rw [if_neg c1]
    split at hn <;> rename_i c2
    · rw [if_pos c2]; pfx_multi 2
    rw [if_neg c2]
    pfx_multi 4
  | bin x =>
    simp only [encodeHead] at hn ⊢
    split at hn <;> rename_i c0
    · rw [if_pos c0]; pfx_two
    rw [if_neg c0]
    split at hn <;> rename_i c1
    · rw [if_pos c1]; pfx_multi 2
    rw [if_neg c1]
    pfx_multi 4
  | arr x =>
    simp only [encodeHead] at hn ⊢
    split at hn <;> rename_i c0
    · rw [if_pos c0]; pfx_one
    rw [if_neg c0]
    split at hn <;> rename_i c1
    · rw [if_pos c1]; pfx_multi 2
    rw [if_neg c1]
    pfx_multi 4
  | map x =>
    simp only [encodeHead] at hn ⊢
    split at hn <;> rename_i c0
    · rw [if_pos c0]; pfx_one
    rw [if_neg c0]
    split at hn <;> rename_i c1
    · rw [if_pos c1]; pfx_multi 2
    rw [if_neg c1]
    pfx_multi 4

theorem decodeSeq_prefix_none (dec : List Nat → Option (Val × List Nat)) (xs : List Val)
    (h : ∀ x ∈ xs, (∀ r, dec (encode x ++ r) = none ∨ dec (encode x ++ r) = some (x, r)) ∧
      (∀ k, k < (encode x).length → dec ((encode x).take k) = none))
    (m : Nat) (hm : m < (encodeList xs).length) :
    decodeSeq dec xs.length ((encodeList xs).take m) = none := by
  induction xs generalizing m with
  | nil => simp [encodeList] at hm
  | cons x xs ih =>
    simp only [encodeList, List.length_append] at hm
    simp only [List.length_cons, encodeList, decodeSeq]
    obtain ⟨hx1, hx2⟩ := h x (by simp)
    by_cases hlt : m < (encode x).length
    · rw [List.take_append_of_le_length (by omega), hx2 m hlt]
    · rw [List.take_append, List.take_of_length_le (by omega)]
      rcases hx1 ((encodeList xs).take (m - (encode x).length)) with e | e
      · rw [e]
      · rw [e]; simp only
        rw [ih (fun y hy => h y (by simp [hy])) _ (by omega)]

theorem decodePairs_prefix_none (dec : List Nat → Option (Val × List Nat)) (ps : List (Val × Val))
    (h : ∀ p ∈ ps, ((∀ r, dec (encode p.1 ++ r) = none ∨ dec (encode p.1 ++ r) = some (p.1, r)) ∧
        (∀ k, k < (encode p.1).length → dec ((encode p.1).take k) = none)) ∧
      ((∀ r, dec (encode p.2 ++ r) = none ∨ dec (encode p.2 ++ r) = some (p.2, r)) ∧
        (∀ k, k < (encode p.2).length → dec ((encode p.2).take k) = none)))
    (m : Nat) (hm : m < (encodePairs ps).length) :
    decodePairs dec ps.length ((encodePairs ps).take m) = none := by
  induction ps generalizing m with
  | nil => simp [encodePairs] at hm
  | cons p ps ih =>
    obtain ⟨k, v⟩ := p
    simp only [encodePairs, List.length_append] at hm
    simp only [List.length_cons, encodePairs, decodePairs]
    obtain ⟨⟨hk1, hk2⟩, ⟨hv1, hv2⟩⟩ := h (k, v) (by simp)
    simp only at hk1 hk2 hv1 hv2
    by_cases hlt : m < (encode k).length
    · rw [List.take_append_of_le_length (by omega), hk2 m hlt]
    · rw [List.take_append, List.take_of_length_le (by omega)]
      rcases hk1 ((encode v ++ encodePairs ps).take (m - (encode k).length)) with e | e
      · rw [e]
      · rw [e]; simp only
        by_cases hlt2 : m - (encode k).length < (encode v).length
        · rw [List.take_append_of_le_length (by omega), hv2 _ hlt2]
        · rw [List.take_append, List.take_of_length_le (by omega)]
          rcases hv1 ((encodePairs ps).take (m - (encode k).length - (encode v).length)) with e2 | e2
          · rw [e2]
          · rw [e2]; simp only
            rw [ih (fun y hy => h y (by simp [hy])) _ (by omega)]


theorem decodeF_head_none (f : Nat) (bs : List Nat) (h : decodeHead bs = none) : decodeF (f + 1) bs = none := by
  rw [decodeF, h]

/-- no strict prefix of the encoding of a well-formed value decodes, whatever the nesting budget -/
theorem decodeF_prefix_none (v : Val) (fuel n : Nat) (hw : wf v = true) (hn : n < (encode v).length) :
    decodeF fuel ((encode v).take n) = none := by
  match fuel, v with
  | 0, _ => rfl
  | f+1, .nil => simp only [encode] at hn ⊢; exact decodeF_head_none f _ (head_prefix_none _ n hn)
  | f+1, .bool b => simp only [encode] at hn ⊢; exact decodeF_head_none f _ (head_prefix_none _ n hn)
  | f+1, .uint x => simp only [encode] at hn ⊢; exact decodeF_head_none f _ (head_prefix_none _ n hn)
  | f+1, .nint x => simp only [encode] at hn ⊢; exact decodeF_head_none f _ (head_prefix_none _ n hn)
  | f+1, .str s =>
    simp only [wf, Bool.and_eq_true] at hw
    simp only [encode, List.length_append] at hn ⊢
    by_cases hlt : n < (encodeHead (.str s.length)).length
    · rw [List.take_append_of_le_length (by omega)]
      exact decodeF_head_none f _ (head_prefix_none _ n hlt)
    · rw [List.take_append, List.take_of_length_le (by omega), decodeF,
        decodeHead_encodeHead _ _ (show wfHead (.str s.length) = true from hw.1)]
      simp only
      rw [takeN_short _ _ (by rw [List.length_take]; omega)]; rfl
  | f+1, .bin s =>
    simp only [wf, Bool.and_eq_true] at hw
    simp only [encode, List.length_append] at hn ⊢
    by_cases hlt : n < (encodeHead (.bin s.length)).length
    · rw [List.take_append_of_le_length (by omega)]
      exact decodeF_head_none f _ (head_prefix_none _ n hlt)
    · rw [List.take_append, List.take_of_length_le (by omega), decodeF,
        decodeHead_encodeHead _ _ (show wfHead (.bin s.length) = true from hw.1)]
      simp only
      rw [takeN_short _ _ (by rw [List.length_take]; omega)]; rfl
  | f+1, .arr xs =>
    simp only [wf, Bool.and_eq_true] at hw
    simp only [encode, List.length_append] at hn ⊢
    by_cases hlt : n < (encodeHead (.arr xs.length)).length
    · rw [List.take_append_of_le_length (by omega)]
      exact decodeF_head_none f _ (head_prefix_none _ n hlt)
    · have ih : ∀ x ∈ xs, (∀ r, decodeF f (encode x ++ r) = none ∨ decodeF f (encode x ++ r) = some (x, r)) ∧
          (∀ k, k < (encode x).length → decodeF f ((encode x).take k) = none) := fun x hx =>
        ⟨fun r => decodeF_encode_or_none x f r (wfList_mem hw.2 x hx),
         fun k hk => decodeF_prefix_none x f k (wfList_mem hw.2 x hx) hk⟩
      rw [List.take_append, List.take_of_length_le (by omega), decodeF,
        decodeHead_encodeHead _ _ (show wfHead (.arr xs.length) = true from hw.1)]
      simp only
      rw [decodeSeq_prefix_none (decodeF f) xs ih _ (by omega)]; rfl
  | f+1, .map ps =>
    simp only [wf, Bool.and_eq_true] at hw
    simp only [encode, List.length_append] at hn ⊢
    by_cases hlt : n < (encodeHead (.map ps.length)).length
    · rw [List.take_append_of_le_length (by omega)]
      exact decodeF_head_none f _ (head_prefix_none _ n hlt)
    · have ih : ∀ p ∈ ps, ((∀ r, decodeF f (encode p.1 ++ r) = none ∨ decodeF f (encode p.1 ++ r) = some (p.1, r)) ∧
            (∀ k, k < (encode p.1).length → decodeF f ((encode p.1).take k) = none)) ∧
          ((∀ r, decodeF f (encode p.2 ++ r) = none ∨ decodeF f (encode p.2 ++ r) = some (p.2, r)) ∧
            (∀ k, k < (encode p.2).length → decodeF f ((encode p.2).take k) = none)) := fun p hp =>
        ⟨⟨fun r => decodeF_encode_or_none p.1 f r (wfPairs_mem hw.2 p hp).1,
          fun k hk => decodeF_prefix_none p.1 f k (wfPairs_mem hw.2 p hp).1 hk⟩,
         ⟨fun r => decodeF_encode_or_none p.2 f r (wfPairs_mem hw.2 p hp).2,
          fun k hk => decodeF_prefix_none p.2 f k (wfPairs_mem hw.2 p hp).2 hk⟩⟩
      rw [List.take_append, List.take_of_length_le (by omega), decodeF,
        decodeHead_encodeHead _ _ (show wfHead (.map ps.length) = true from hw.1)]
      simp only
      rw [decodePairs_prefix_none (decodeF f) ps ih _ (by omega)]; rfl
termination_by sizeOf v
decreasing_by
  all_goals simp_wf
  · have := List.sizeOf_lt_of_mem hx; omega
  · have := List.sizeOf_lt_of_mem hp
    have : sizeOf p.1 < sizeOf p := by cases p; simp; omega
    omega
  · have := List.sizeOf_lt_of_mem hp
    have : sizeOf p.2 < sizeOf p := by cases p; simp; omega
    omega

/-- **MessagePack is prefix-free on well-formed values**: no strict prefix of `encode v` decodes. -/
theorem prefix_rejected (v : Val) (hw : WellFormed v) (n : Nat) (hn : n < (encode v).length) :
    decode ((encode v).take n) = none := by
  unfold decode
  exact decodeF_prefix_none v _ n hw hn

/-- the encoder is injective on well-formed values -/
theorem encode_injective (v w : Val) (hv : WellFormed v) (_hw : WellFormed w) (h : encode v = encode w) : v = w := by
  have a := decode_encode v [] hv
  have b := decode_encode w [] _hw
  rw [h, b] at a
  exact ((Prod.mk.inj (Option.some.inj a)).1).symm

/-- even stronger: two encodings followed by arbitrary bytes that agree as byte strings carry the same value and the same rest -/
theorem encode_append_injective (v w : Val) (r s : List Nat) (hv : WellFormed v) (hw : WellFormed w)
    (h : encode v ++ r = encode w ++ s) : v = w ∧ r = s := by
  have a := decode_encode v r hv
  have b := decode_encode w s hw
  rw [h, b] at a
  have := Prod.mk.inj (Option.some.inj a)
  exact ⟨this.1.symm, this.2.symm⟩


/-! ## the decoder's range: decoded values are well-formed; the decoder normalises -/

theorem isBytes_iff (bs : List Nat) : isBytes bs = true ↔ ∀ b ∈ bs, b < 256 := by
  simp [isBytes, List.all_eq_true]

theorem foldl_lt (bs : List Nat) (hb : ∀ b ∈ bs, b < 256) (a : Nat) :
    bs.foldl (fun a b => a * 256 + b) a < (a + 1) * 256 ^ bs.length := by
  induction bs generalizing a with
  | nil => simp
  | cons b bs ih =>
    have hb0 := hb b (by simp)
    have := ih (fun x hx => hb x (by simp [hx])) (a * 256 + b)
    simp only [List.foldl_cons, List.length_cons, Nat.pow_succ]
    calc _ < (a * 256 + b + 1) * 256 ^ bs.length := this
      _ ≤ ((a + 1) * 256) * 256 ^ bs.length := Nat.mul_le_mul_right _ (by omega)
      _ = (a + 1) * (256 ^ bs.length * 256) := by rw [Nat.mul_assoc, Nat.mul_comm 256]

theorem readBE_bound (k : Nat) (bs : List Nat) (hb : isBytes bs = true) (n : Nat) (r : List Nat)
    (h : readBE k bs = some (n, r)) : n < 256 ^ k ∧ isBytes r = true := by
  rw [isBytes_iff] at hb
  unfold readBE at h
  split at h
  · cases h
  · rename_i hl
    simp only [Option.some.injEq, Prod.mk.injEq] at h
    obtain ⟨rfl, rfl⟩ := h
    constructor
    · have := foldl_lt (bs.take k) (fun b hb' => hb b (List.mem_of_mem_take hb')) 0
      simp only [Nat.zero_add, Nat.one_mul, List.length_take] at this
      rw [Nat.min_eq_left (by omega)] at this
      exact this
    · rw [isBytes_iff]; exact fun b hb' => hb b (List.mem_of_mem_drop hb')

theorem signedHead_wf (k u : Nat) (hk : k ≤ 8) (hu : u < 256 ^ k) : wfHead (signedHead k u) = true := by
  have h8 : 256 ^ k ≤ 256 ^ 8 := Nat.pow_le_pow_right (by omega) hk
  have e8 : (256:Nat) ^ 8 = 18446744073709551616 := by decide
  unfold signedHead
  split
  · simp only [wfHead, decide_eq_true_eq]; omega
  · simp only [wfHead, decide_eq_true_eq]; omega

theorem isBytes_cons (b : Nat) (bs : List Nat) (h : isBytes (b :: bs) = true) : b < 256 ∧ isBytes bs = true := by
  simpa [isBytes] using h

theorem map_readBE (k : Nat) (bs : List Nat) (hb : isBytes bs = true) (g : Nat → Head) (hd : Head) (r : List Nat)
    (h : (readBE k bs).map (fun x => (g x.1, x.2)) = some (hd, r)) :
    ∃ n, n < 256 ^ k ∧ hd = g n ∧ isBytes r = true := by
  cases hr : readBE k bs with
  | none => simp [hr] at h
  | some p =>
    obtain ⟨n, r'⟩ := p
    rw [hr] at h
    simp only [Option.map_some, Option.some.injEq, Prod.mk.injEq] at h
    obtain ⟨rfl, rfl⟩ := h
    obtain ⟨h1, h2⟩ := readBE_bound k bs hb n r' hr
    exact ⟨n, h1, rfl, h2⟩

theorem decodeHead_wf (bs : List Nat) (hb : isBytes bs = true) (hd : Head) (r : List Nat)
    (h : decodeHead bs = some (hd, r)) : wfHead hd = true ∧ isBytes r = true := by
  cases bs with
  | nil => simp [decodeHead] at h
  | cons b bs =>
    obtain ⟨hb0, hbs⟩ := isBytes_cons b bs hb
    simp only [decodeHead] at h
    by_cases c0 : b < 128
    · rw [if_pos c0] at h
      simp only [Option.some.injEq, Prod.mk.injEq] at h
      obtain ⟨rfl, rfl⟩ := h
      exact ⟨by first | (simp only [wfHead, decide_eq_true_eq]; omega) | rfl, hbs⟩
    rw [if_neg c0] at h
    by_cases c1 : b < 144
    · rw [if_pos c1] at h
      simp only [Option.some.injEq, Prod.mk.injEq] at h
      obtain ⟨rfl, rfl⟩ := h
      exact ⟨by first | (simp only [wfHead, decide_eq_true_eq]; omega) | rfl, hbs⟩
    rw [if_neg c1] at h
    by_cases c2 : b < 160
    · rw [if_pos c2] at h
      simp only [Option.some.injEq, Prod.mk.injEq] at h
      obtain ⟨rfl, rfl⟩ := h
      exact ⟨by first | (simp only [wfHead, decide_eq_true_eq]; omega) | rfl, hbs⟩
    rw [if_neg c2] at h
    by_cases c3 : b < 192
    · rw [if_pos c3] at h
      simp only [Option.some.injEq, Prod.mk.injEq] at h
      obtain ⟨rfl, rfl⟩ := h
      exact ⟨by first | (simp only [wfHead, decide_eq_true_eq]; omega) | rfl, hbs⟩
    rw [if_neg c3] at h
    by_cases c4 : b = 192
    · rw [if_pos c4] at h
      simp only [Option.some.injEq, Prod.mk.injEq] at h
      obtain ⟨rfl, rfl⟩ := h
      exact ⟨by first | (simp only [wfHead, decide_eq_true_eq]; omega) | rfl, hbs⟩
    rw [if_neg c4] at h
    by_cases c5 : b = 194
    · rw [if_pos c5] at h
      simp only [Option.some.injEq, Prod.mk.injEq] at h
      obtain ⟨rfl, rfl⟩ := h
      exact ⟨by first | (simp only [wfHead, decide_eq_true_eq]; omega) | rfl, hbs⟩
    rw [if_neg c5] at h
    by_cases c6 : b = 195
    · rw [if_pos c6] at h
      simp only [Option.some.injEq, Prod.mk.injEq] at h
      obtain ⟨rfl, rfl⟩ := h
      exact ⟨by first | (simp only [wfHead, decide_eq_true_eq]; omega) | rfl, hbs⟩
    rw [if_neg c6] at h
    by_cases c7 : b = 196
    · rw [if_pos c7] at h
      obtain ⟨n, hn, rfl, hr⟩ := map_readBE _ bs hbs _ hd r h
      refine ⟨?_, hr⟩
      simp only [wfHead, decide_eq_true_eq]
      simp only [Nat.reducePow] at hn
      omega
    rw [if_neg c7] at h
    by_cases c8 : b = 197
    · rw [if_pos c8] at h
      obtain ⟨n, hn, rfl, hr⟩ := map_readBE _ bs hbs _ hd r h
      refine ⟨?_, hr⟩
      simp only [wfHead, decide_eq_true_eq]
      simp only [Nat.reducePow] at hn
      omega
    rw [if_neg c8] at h
    by_cases c9 : b = 198
    · rw [if_pos c9] at h
      obtain ⟨n, hn, rfl, hr⟩ := map_readBE _ bs hbs _ hd r h
      refine ⟨?_, hr⟩
      simp only [wfHead, decide_eq_true_eq]
      simp only [Nat.reducePow] at hn
      omega
    rw [if_neg c9] at h
    by_cases c10 : b = 204
    · rw [if_pos c10] at h
      obtain ⟨n, hn, rfl, hr⟩ := map_readBE _ bs hbs _ hd r h
      refine ⟨?_, hr⟩
      simp only [wfHead, decide_eq_true_eq]
      simp only [Nat.reducePow] at hn
      omega
    rw [if_neg c10] at h
    by_cases c11 : b = 205
    · rw [if_pos c11] at h
      obtain ⟨n, hn, rfl, hr⟩ := map_readBE _ bs hbs _ hd r h
      refine ⟨?_, hr⟩
      simp only [wfHead, decide_eq_true_eq]
      simp only [Nat.reducePow] at hn
      omega
    rw [if_neg c11] at h
    by_cases c12 : b = 206
    · rw [if_pos c12] at h
      obtain ⟨n, hn, rfl, hr⟩ := map_readBE _ bs hbs _ hd r h
      refine ⟨?_, hr⟩
      simp only [wfHead, decide_eq_true_eq]
      simp only [Nat.reducePow] at hn
      omega
    rw [if_neg c12] at h
    by_cases c13 : b = 207
    · rw [if_pos c13] at h
      obtain ⟨n, hn, rfl, hr⟩ := map_readBE _ bs hbs _ hd r h
      refine ⟨?_, hr⟩
      simp only [wfHead, decide_eq_true_eq]
      simp only [Nat.reducePow] at hn
      omega
    rw [if_neg c13] at h
    by_cases c14 : b = 208
    · rw [if_pos c14] at h
      obtain ⟨n, hn, rfl, hr⟩ := map_readBE _ bs hbs (fun n => signedHead _ n) hd r h
      exact ⟨signedHead_wf _ n (by omega) hn, hr⟩
    rw [if_neg c14] at h
    by_cases c15 : b = 209
    · rw [if_pos c15] at h
      obtain ⟨n, hn, rfl, hr⟩ := map_readBE _ bs hbs (fun n => signedHead _ n) hd r h
      exact ⟨signedHead_wf _ n (by omega) hn, hr⟩
    rw [if_neg c15] at h
    by_cases c16 : b = 210
    · rw [if_pos c16] at h
      obtain ⟨n, hn, rfl, hr⟩ := map_readBE _ bs hbs (fun n => signedHead _ n) hd r h
      exact ⟨signedHead_wf _ n (by omega) hn, hr⟩
    rw [if_neg c16] at h
    by_cases c17 : b = 211
    · rw [if_pos c17] at h
      obtain ⟨n, hn, rfl, hr⟩ := map_readBE _ bs hbs (fun n => signedHead _ n) hd r h
      exact ⟨signedHead_wf _ n (by omega) hn, hr⟩
    rw [if_neg c17] at h
    by_cases c18 : b = 217
    · rw [if_pos c18] at h
      obtain ⟨n, hn, rfl, hr⟩ := map_readBE _ bs hbs _ hd r h
      refine ⟨?_, hr⟩
      simp only [wfHead, decide_eq_true_eq]
      simp only [Nat.reducePow] at hn
      omega
    rw [if_neg c18] at h
    by_cases c19 : b = 218
    · rw [if_pos c19] at h
      obtain ⟨n, hn, rfl, hr⟩ := map_readBE _ bs hbs _ hd r h
      refine ⟨?_, hr⟩
      simp only [wfHead, decide_eq_true_eq]
      simp only [Nat.reducePow] at hn
      omega
    rw [if_neg c19] at h
    by_cases c20 : b = 219
    · rw [if_pos c20] at h
      obtain ⟨n, hn, rfl, hr⟩ := map_readBE _ bs hbs _ hd r h
      refine ⟨?_, hr⟩
      simp only [wfHead, decide_eq_true_eq]
      simp only [Nat.reducePow] at hn
      omega
    rw [if_neg c20] at h
    by_cases c21 : b = 220
    · rw [if_pos c21] at h
      obtain ⟨n, hn, rfl, hr⟩ := map_readBE _ bs hbs _ hd r h
      refine ⟨?_, hr⟩
      simp only [wfHead, decide_eq_true_eq]
      simp only [Nat.reducePow] at hn
      omega
    rw [if_neg c21] at h
    by_cases c22 : b = 221
    · rw [if_pos c22] at h
      obtain ⟨n, hn, rfl, hr⟩ := map_readBE _ bs hbs _ hd r h
      refine ⟨?_, hr⟩
      simp only [wfHead, decide_eq_true_eq]
      simp only [Nat.reducePow] at hn
      omega
    rw [if_neg c22] at h
    by_cases c23 : b = 222
    · rw [if_pos c23] at h
      obtain ⟨n, hn, rfl, hr⟩ := map_readBE _ bs hbs _ hd r h
      refine ⟨?_, hr⟩
      simp only [wfHead, decide_eq_true_eq]
      simp only [Nat.reducePow] at hn
      omega
    rw [if_neg c23] at h
    by_cases c24 : b = 223
    · rw [if_pos c24] at h
      obtain ⟨n, hn, rfl, hr⟩ := map_readBE _ bs hbs _ hd r h
      refine ⟨?_, hr⟩
      simp only [wfHead, decide_eq_true_eq]
      simp only [Nat.reducePow] at hn
      omega
    rw [if_neg c24] at h
    by_cases c25 : 224 ≤ b ∧ b < 256
    · rw [if_pos c25] at h
      simp only [Option.some.injEq, Prod.mk.injEq] at h
      obtain ⟨rfl, rfl⟩ := h
      exact ⟨by first | (simp only [wfHead, decide_eq_true_eq]; omega) | rfl, hbs⟩
    rw [if_neg c25] at h
    cases h

theorem takeN_spec (n : Nat) (bs s r : List Nat) (hb : isBytes bs = true) (h : takeN n bs = some (s, r)) :
    s.length = n ∧ isBytes s = true ∧ isBytes r = true := by
  rw [isBytes_iff] at hb
  unfold takeN at h
  split at h
  · cases h
  · simp only [Option.some.injEq, Prod.mk.injEq] at h
    obtain ⟨rfl, rfl⟩ := h
    refine ⟨by rw [List.length_take]; omega, ?_, ?_⟩
    · rw [isBytes_iff]; exact fun b hb' => hb b (List.mem_of_mem_take hb')
    · rw [isBytes_iff]; exact fun b hb' => hb b (List.mem_of_mem_drop hb')

theorem decodeSeq_wf (dec : List Nat → Option (Val × List Nat))
    (hdec : ∀ bs v r, isBytes bs = true → dec bs = some (v, r) → wf v = true ∧ isBytes r = true) :
    ∀ n bs xs r, isBytes bs = true → decodeSeq dec n bs = some (xs, r) →
      xs.length = n ∧ wfList xs = true ∧ isBytes r = true := by
  intro n
  induction n with
  | zero =>
    intro bs xs r hb h
    simp only [decodeSeq, Option.some.injEq, Prod.mk.injEq] at h
    obtain ⟨rfl, rfl⟩ := h
    exact ⟨rfl, rfl, hb⟩
  | succ n ih =>
    intro bs xs r hb h
    simp only [decodeSeq] at h
    cases h1 : dec bs with
    | none => simp [h1] at h
    | some p =>
      obtain ⟨v, r1⟩ := p
      rw [h1] at h
      simp only at h
      obtain ⟨wv, b1⟩ := hdec bs v r1 hb h1
      cases h2 : decodeSeq dec n r1 with
      | none => simp [h2] at h
      | some q =>
        obtain ⟨vs, r2⟩ := q
        rw [h2] at h
        simp only [Option.some.injEq, Prod.mk.injEq] at h
        obtain ⟨rfl, rfl⟩ := h
        obtain ⟨l, w, b2⟩ := ih r1 vs r2 b1 h2
        exact ⟨by simp [l], by simp [wfList, wv, w], b2⟩

theorem decodePairs_wf (dec : List Nat → Option (Val × List Nat))
    (hdec : ∀ bs v r, isBytes bs = true → dec bs = some (v, r) → wf v = true ∧ isBytes r = true) :
    ∀ n bs ps r, isBytes bs = true → decodePairs dec n bs = some (ps, r) →
      ps.length = n ∧ wfPairs ps = true ∧ isBytes r = true := by
  intro n
  induction n with
  | zero =>
    intro bs ps r hb h
    simp only [decodePairs, Option.some.injEq, Prod.mk.injEq] at h
    obtain ⟨rfl, rfl⟩ := h
    exact ⟨rfl, rfl, hb⟩
  | succ n ih =>
    intro bs ps r hb h
    simp only [decodePairs] at h
    cases h1 : dec bs with
    | none => simp [h1] at h
    | some p =>
      obtain ⟨k, r1⟩ := p
      rw [h1] at h
      simp only at h
      obtain ⟨wk, b1⟩ := hdec bs k r1 hb h1
      cases h1' : dec r1 with
      | none => simp [h1'] at h
      | some p' =>
        obtain ⟨v, r1'⟩ := p'
        rw [h1'] at h
        simp only at h
        obtain ⟨wv, b1'⟩ := hdec r1 v r1' b1 h1'
        cases h2 : decodePairs dec n r1' with
        | none => simp [h2] at h
        | some q =>
          obtain ⟨vs, r2⟩ := q
          rw [h2] at h
          simp only [Option.some.injEq, Prod.mk.injEq] at h
          obtain ⟨rfl, rfl⟩ := h
          obtain ⟨l, w, b2⟩ := ih r1' vs r2 b1' h2
          exact ⟨by simp [l], by simp [wfPairs, wk, wv, w], b2⟩

theorem decodeF_wf (f : Nat) : ∀ bs v r, isBytes bs = true → decodeF f bs = some (v, r) →
    wf v = true ∧ isBytes r = true := by
  induction f with
  | zero => intro bs v r _ h; simp [decodeF] at h
  | succ f ih =>
    intro bs v r hb h
    rw [decodeF] at h
    cases hd : decodeHead bs with
    | none => simp [hd] at h
    | some p =>
      obtain ⟨hh, r1⟩ := p
      rw [hd] at h
      obtain ⟨wh, b1⟩ := decodeHead_wf bs hb hh r1 hd
      cases hh with
      | nil => simp only [Option.some.injEq, Prod.mk.injEq] at h; obtain ⟨rfl, rfl⟩ := h; exact ⟨rfl, b1⟩
      | bool b => simp only [Option.some.injEq, Prod.mk.injEq] at h; obtain ⟨rfl, rfl⟩ := h; exact ⟨rfl, b1⟩
      | uint n => simp only [Option.some.injEq, Prod.mk.injEq] at h; obtain ⟨rfl, rfl⟩ := h; exact ⟨wh, b1⟩
      | nint n => simp only [Option.some.injEq, Prod.mk.injEq] at h; obtain ⟨rfl, rfl⟩ := h; exact ⟨wh, b1⟩
      | str n =>
        simp only at h
        cases ht : takeN n r1 with
        | none => simp [ht] at h
        | some q =>
          obtain ⟨s, r2⟩ := q
          rw [ht] at h
          simp only [Option.map_some, Option.some.injEq, Prod.mk.injEq] at h
          obtain ⟨rfl, rfl⟩ := h
          obtain ⟨l, bs', br⟩ := takeN_spec n r1 s r2 b1 ht
          simp only [wfHead, decide_eq_true_eq] at wh
          exact ⟨by simp [wf, l, wh, bs'], br⟩
      | bin n =>
        simp only at h
        cases ht : takeN n r1 with
        | none => simp [ht] at h
        | some q =>
          obtain ⟨s, r2⟩ := q
          rw [ht] at h
          simp only [Option.map_some, Option.some.injEq, Prod.mk.injEq] at h
          obtain ⟨rfl, rfl⟩ := h
          obtain ⟨l, bs', br⟩ := takeN_spec n r1 s r2 b1 ht
          simp only [wfHead, decide_eq_true_eq] at wh
          exact ⟨by simp [wf, l, wh, bs'], br⟩
      | arr n =>
        simp only at h
        cases ht : decodeSeq (decodeF f) n r1 with
        | none => simp [ht] at h
        | some q =>
          obtain ⟨xs, r2⟩ := q
          rw [ht] at h
          simp only [Option.map_some, Option.some.injEq, Prod.mk.injEq] at h
          obtain ⟨rfl, rfl⟩ := h
          obtain ⟨l, w, br⟩ := decodeSeq_wf (decodeF f) ih n r1 xs r2 b1 ht
          simp only [wfHead, decide_eq_true_eq] at wh
          exact ⟨by simp [wf, l, wh, w], br⟩
      | map n =>
        simp only at h
        cases ht : decodePairs (decodeF f) n r1 with
        | none => simp [ht] at h
        | some q =>
          obtain ⟨ps, r2⟩ := q
          rw [ht] at h
          simp only [Option.map_some, Option.some.injEq, Prod.mk.injEq] at h
          obtain ⟨rfl, rfl⟩ := h
          obtain ⟨l, w, br⟩ := decodePairs_wf (decodeF f) ih n r1 ps r2 b1 ht
          simp only [wfHead, decide_eq_true_eq] at wh
          exact ⟨by simp [wf, l, wh, w], br⟩

/-- whatever the decoder accepts from a byte string is a well-formed value (so `WellFormed` is exactly the
decoder's range), and what is left over is again a byte string -/
theorem decode_wf (bs : List Nat) (hb : isBytes bs = true) (v : Val) (r : List Nat) (h : decode bs = some (v, r)) :
    WellFormed v ∧ isBytes r = true :=
  decodeF_wf _ bs v r hb h

/-- the decoder normalises: every accepted input — canonical or not — is equivalent to the canonical encoding of
the value it yields (re-encoding and decoding again gives the same value and the same rest) -/
theorem decode_normalises (bs : List Nat) (hb : isBytes bs = true) (v : Val) (r : List Nat)
    (h : decode bs = some (v, r)) : decode (encode v ++ r) = some (v, r) :=
  decode_encode v r (decode_wf bs hb v r h).1

end SafeNet.MsgPack
