import SafeNet.Base.MsgPack
/-!
Lemmas about `SafeNet.MsgPack`: big/little-endian round trips, head round trip, and the centre-piece
`decode_encode`: the decoder inverts the shortest-form encoder on every well-formed value, whatever follows.
-/
namespace SafeNet.MsgPack

/-! ## fixed-width integers -/

theorem toBE_length (k n : Nat) : (toBE k n).length = k := by
  induction k with
  | zero => rfl
  | succ k ih => simp [toBE, ih]

theorem toLE_length (k n : Nat) : (toLE k n).length = k := by
  induction k generalizing n with
  | zero => rfl
  | succ k ih => simp [toLE, ih]

theorem foldl_toBE (k n a : Nat) :
    (toBE k n).foldl (fun a b => a * 256 + b) a = a * 256 ^ k + n % 256 ^ k := by
  induction k generalizing a with
  | zero => simp [toBE, Nat.mod_one]
  | succ k ih =>
    simp only [toBE, List.foldl_cons, ih]
    rw [Nat.mod_pow_succ, Nat.pow_succ, Nat.add_mul, Nat.mul_assoc, Nat.mul_comm 256 (256 ^ k),
      Nat.mul_comm (n / 256 ^ k % 256)]
    omega

theorem fromBE_toBE (k n : Nat) (h : n < 256 ^ k) : fromBE (toBE k n) = n := by
  simp [fromBE, foldl_toBE, Nat.mod_eq_of_lt h]

theorem fromLE_toLE (k n : Nat) (h : n < 256 ^ k) : fromLE (toLE k n) = n := by
  induction k generalizing n with
  | zero => simp at h; simp [toLE, fromLE, h]
  | succ k ih =>
    have : n / 256 < 256 ^ k := by
      rw [Nat.div_lt_iff_lt_mul (by omega)]; rw [Nat.pow_succ] at h; exact h
    simp only [toLE, fromLE, ih _ this]
    omega

theorem readBE_toBE (k n : Nat) (rest : List Nat) (h : n < 256 ^ k) :
    readBE k (toBE k n ++ rest) = some (n, rest) := by
  have hl := toBE_length k n
  unfold readBE
  rw [if_neg (by simp [hl])]
  congr 2
  · rw [List.take_append_of_le_length (by omega), List.take_of_length_le (by omega), fromBE_toBE k n h]
  · rw [List.drop_append_of_le_length (by omega), List.drop_of_length_le (by omega)]; rfl

theorem readBE_one (n : Nat) (rest : List Nat) : readBE 1 (n :: rest) = some (n, rest) := by
  simp [readBE, fromBE]

theorem signedHead_neg (k u m : Nat) (h : 256 ^ k / 2 ≤ u) (hm : 256 ^ k - 1 - u = m) :
    signedHead k u = .nint m := by
  subst hm; unfold signedHead; rw [if_neg (by omega)]

theorem takeN_append (s rest : List Nat) : takeN s.length (s ++ rest) = some (s, rest) := by
  simp [takeN]

/-! ## heads -/

def wfHead : Head → Bool
  | .nil => true
  | .bool _ => true
  | .uint n => n < 18446744073709551616
  | .nint m => m < 9223372036854775808
  | .str n => n < 4294967296
  | .bin n => n < 4294967296
  | .arr n => n < 4294967296
  | .map n => n < 4294967296

theorem encodeHead_length_pos (h : Head) : 0 < (encodeHead h).length := by
  cases h with
  | bool b => cases b <;> simp [encodeHead]
  | _ => simp only [encodeHead]; repeat' split
         all_goals simp

macro "head_ifs" : tactic =>
  `(tactic| (simp only [decodeHead]; repeat (first | rw [if_pos (by omega)] | rw [if_neg (by omega)])))

theorem decodeHead_encodeHead (h : Head) (rest : List Nat) (hw : wfHead h = true) :
    decodeHead (encodeHead h ++ rest) = some (h, rest) := by
  cases h with
  | nil => simp [encodeHead, decodeHead]
  | bool b => cases b <;> simp [encodeHead, decodeHead]
  | uint n =>
    simp only [wfHead, decide_eq_true_eq] at hw
    simp only [encodeHead]
    split
    · simp only [List.cons_append, List.nil_append]; head_ifs
    split
    · simp only [List.cons_append, List.nil_append]; head_ifs; simp [readBE_one]
    split
    · simp only [List.cons_append]; head_ifs; rw [readBE_toBE _ _ _ (by omega)]; rfl
    split
    · simp only [List.cons_append]; head_ifs; rw [readBE_toBE _ _ _ (by omega)]; rfl
    · simp only [List.cons_append]; head_ifs; rw [readBE_toBE _ _ _ (by omega)]; rfl
  | nint m =>
    simp only [wfHead, decide_eq_true_eq] at hw
    simp only [encodeHead]
    split
    · simp only [List.cons_append, List.nil_append]; head_ifs
      simp only [Option.some.injEq, Prod.mk.injEq, and_true, Head.nint.injEq]; omega
    split
    · simp only [List.cons_append, List.nil_append]; head_ifs
      simp only [readBE_one, Option.map_some]
      rw [signedHead_neg 1 _ m (by simp; omega) (by simp; omega)]; rfl
    split
    · simp only [List.cons_append]; head_ifs; rw [readBE_toBE _ _ _ (by omega)]
      simp only [Option.map_some]
      rw [signedHead_neg 2 _ m (by simp; omega) (by simp; omega)]; rfl
    split
    · simp only [List.cons_append]; head_ifs; rw [readBE_toBE _ _ _ (by omega)]
      simp only [Option.map_some]
      rw [signedHead_neg 4 _ m (by simp; omega) (by simp; omega)]; rfl
    · simp only [List.cons_append]; head_ifs; rw [readBE_toBE _ _ _ (by omega)]
      simp only [Option.map_some]
      rw [signedHead_neg 8 _ m (by simp; omega) (by simp; omega)]; rfl
  | str n =>
    simp only [wfHead, decide_eq_true_eq] at hw
    simp only [encodeHead]
    split
    · simp only [List.cons_append, List.nil_append]; head_ifs
      simp only [Option.some.injEq, Prod.mk.injEq, and_true, Head.str.injEq]; omega
    split
    · simp only [List.cons_append, List.nil_append]; head_ifs; simp [readBE_one]
    split
    · simp only [List.cons_append]; head_ifs; rw [readBE_toBE _ _ _ (by omega)]; rfl
    · simp only [List.cons_append]; head_ifs; rw [readBE_toBE _ _ _ (by omega)]; rfl
  | bin n =>
    simp only [wfHead, decide_eq_true_eq] at hw
    simp only [encodeHead]
    split
    · simp only [List.cons_append, List.nil_append]; head_ifs; simp [readBE_one]
    split
    · simp only [List.cons_append]; head_ifs; rw [readBE_toBE _ _ _ (by omega)]; rfl
    · simp only [List.cons_append]; head_ifs; rw [readBE_toBE _ _ _ (by omega)]; rfl
  | arr n =>
    simp only [wfHead, decide_eq_true_eq] at hw
    simp only [encodeHead]
    split
    · simp only [List.cons_append, List.nil_append]; head_ifs
      simp only [Option.some.injEq, Prod.mk.injEq, and_true, Head.arr.injEq]; omega
    split
    · simp only [List.cons_append]; head_ifs; rw [readBE_toBE _ _ _ (by omega)]; rfl
    · simp only [List.cons_append]; head_ifs; rw [readBE_toBE _ _ _ (by omega)]; rfl
  | map n =>
    simp only [wfHead, decide_eq_true_eq] at hw
    simp only [encodeHead]
    split
    · simp only [List.cons_append, List.nil_append]; head_ifs
      simp only [Option.some.injEq, Prod.mk.injEq, and_true, Head.map.injEq]; omega
    split
    · simp only [List.cons_append]; head_ifs; rw [readBE_toBE _ _ _ (by omega)]; rfl
    · simp only [List.cons_append]; head_ifs; rw [readBE_toBE _ _ _ (by omega)]; rfl

/-! ## sequences -/

theorem decodeSeq_encodeList (dec : List Nat → Option (Val × List Nat)) (xs : List Val) (rest : List Nat)
    (h : ∀ x ∈ xs, ∀ r, dec (encode x ++ r) = some (x, r)) :
    decodeSeq dec xs.length (encodeList xs ++ rest) = some (xs, rest) := by
  induction xs with
  | nil => simp [decodeSeq, encodeList]
  | cons x xs ih =>
    simp only [List.length_cons, encodeList, List.append_assoc, decodeSeq]
    rw [h x (by simp)]
    simp only
    rw [ih (fun y hy r => h y (by simp [hy]) r)]

theorem decodePairs_encodePairs (dec : List Nat → Option (Val × List Nat)) (ps : List (Val × Val)) (rest : List Nat)
    (h : ∀ p ∈ ps, (∀ r, dec (encode p.1 ++ r) = some (p.1, r)) ∧ (∀ r, dec (encode p.2 ++ r) = some (p.2, r))) :
    decodePairs dec ps.length (encodePairs ps ++ rest) = some (ps, rest) := by
  induction ps with
  | nil => simp [decodePairs, encodePairs]
  | cons p ps ih =>
    obtain ⟨k, v⟩ := p
    simp only [List.length_cons, encodePairs, List.append_assoc, decodePairs]
    rw [(h (k, v) (by simp)).1]
    simp only
    rw [(h (k, v) (by simp)).2]
    simp only
    rw [ih (fun y hy => h y (by simp [hy]))]

theorem wfList_mem {xs : List Val} (h : wfList xs = true) : ∀ x ∈ xs, wf x = true := by
  induction xs with
  | nil => simp
  | cons y ys ih =>
    simp only [wfList, Bool.and_eq_true] at h
    intro x hx
    rcases List.mem_cons.mp hx with rfl | hx
    · exact h.1
    · exact ih h.2 x hx

theorem wfPairs_mem {ps : List (Val × Val)} (h : wfPairs ps = true) :
    ∀ p ∈ ps, wf p.1 = true ∧ wf p.2 = true := by
  induction ps with
  | nil => simp
  | cons q qs ih =>
    obtain ⟨k, v⟩ := q
    simp only [wfPairs, Bool.and_eq_true] at h
    intro p hp
    rcases List.mem_cons.mp hp with rfl | hp
    · exact ⟨h.1, h.2.1⟩
    · exact ih h.2.2 p hp

theorem encodeList_length_mem {xs : List Val} : ∀ x ∈ xs, (encode x).length ≤ (encodeList xs).length := by
  induction xs with
  | nil => simp
  | cons y ys ih =>
    intro x hx
    simp only [encodeList, List.length_append]
    rcases List.mem_cons.mp hx with rfl | hx
    · omega
    · have := ih x hx; omega

theorem encodePairs_length_mem {ps : List (Val × Val)} :
    ∀ p ∈ ps, (encode p.1).length ≤ (encodePairs ps).length ∧ (encode p.2).length ≤ (encodePairs ps).length := by
  induction ps with
  | nil => simp
  | cons q qs ih =>
    obtain ⟨k, v⟩ := q
    intro p hp
    simp only [encodePairs, List.length_append]
    rcases List.mem_cons.mp hp with rfl | hp
    · constructor <;> simp only <;> omega
    · have := ih p hp; omega

/-! ## the decoder inverts the encoder -/

theorem decodeF_encode (v : Val) (fuel : Nat) (rest : List Nat) (hw : wf v = true)
    (hf : (encode v).length ≤ fuel) : decodeF fuel (encode v ++ rest) = some (v, rest) := by
  match fuel, v with
  | 0, v =>
    exfalso
    cases v <;> simp only [encode, List.length_append] at hf <;>
      (have := encodeHead_length_pos; first | (have := this .nil; omega) | skip)
    all_goals first
      | (rename_i b; have := encodeHead_length_pos (.bool b); omega)
      | (rename_i n; have := encodeHead_length_pos (.uint n); have := encodeHead_length_pos (.nint n); omega)
      | (rename_i s; have := encodeHead_length_pos (.str s.length); have := encodeHead_length_pos (.bin s.length);
         have := encodeHead_length_pos (.arr s.length); have := encodeHead_length_pos (.map s.length); omega)
  | f+1, .nil => simp [encode, decodeF, decodeHead_encodeHead _ _ (show wfHead .nil = true from rfl)]
  | f+1, .bool b => simp [encode, decodeF, decodeHead_encodeHead _ _ (show wfHead (.bool b) = true from rfl)]
  | f+1, .uint n =>
    simp only [wf] at hw
    simp [encode, decodeF, decodeHead_encodeHead _ _ (show wfHead (.uint n) = true from hw)]
  | f+1, .nint m =>
    simp only [wf] at hw
    simp [encode, decodeF, decodeHead_encodeHead _ _ (show wfHead (.nint m) = true from hw)]
  | f+1, .str s =>
    simp only [wf, Bool.and_eq_true] at hw
    simp [encode, decodeF, decodeHead_encodeHead _ _ (show wfHead (.str s.length) = true from hw.1), takeN_append]
  | f+1, .bin s =>
    simp only [wf, Bool.and_eq_true] at hw
    simp [encode, decodeF, decodeHead_encodeHead _ _ (show wfHead (.bin s.length) = true from hw.1), takeN_append]
  | f+1, .arr xs =>
    simp only [wf, Bool.and_eq_true] at hw
    have hpos := encodeHead_length_pos (.arr xs.length)
    simp only [encode, List.length_append] at hf
    have ih : ∀ x ∈ xs, ∀ r, decodeF f (encode x ++ r) = some (x, r) := fun x hx r =>
      decodeF_encode x f r (wfList_mem hw.2 x hx) (by have := encodeList_length_mem x hx; omega)
    simp only [encode, List.append_assoc, decodeF,
      decodeHead_encodeHead _ _ (show wfHead (.arr xs.length) = true from hw.1),
      decodeSeq_encodeList (decodeF f) xs rest ih, Option.map_some]
  | f+1, .map ps =>
    simp only [wf, Bool.and_eq_true] at hw
    have hpos := encodeHead_length_pos (.map ps.length)
    simp only [encode, List.length_append] at hf
    have ih : ∀ p ∈ ps, (∀ r, decodeF f (encode p.1 ++ r) = some (p.1, r)) ∧
        (∀ r, decodeF f (encode p.2 ++ r) = some (p.2, r)) := fun p hp =>
      ⟨fun r => decodeF_encode p.1 f r (wfPairs_mem hw.2 p hp).1 (by have := (encodePairs_length_mem p hp).1; omega),
       fun r => decodeF_encode p.2 f r (wfPairs_mem hw.2 p hp).2 (by have := (encodePairs_length_mem p hp).2; omega)⟩
    simp only [encode, List.append_assoc, decodeF,
      decodeHead_encodeHead _ _ (show wfHead (.map ps.length) = true from hw.1),
      decodePairs_encodePairs (decodeF f) ps rest ih, Option.map_some]
termination_by sizeOf v
decreasing_by
  all_goals simp_wf
  · have := List.sizeOf_lt_of_mem hx; omega
  · have := List.sizeOf_lt_of_mem hp
    have : sizeOf p.1 < sizeOf p := by cases p; simp; omega
    omega
  · have := List.sizeOf_lt_of_mem hp
    have : sizeOf p.2 < sizeOf p := by cases p; simp; omega
    omega

/-- **Centre-piece.** The decoder inverts the shortest-form encoder on every well-formed value and
hands back exactly the bytes that followed it. -/
theorem decode_encode (v : Val) (rest : List Nat) (hw : WellFormed v) :
    decode (encode v ++ rest) = some (v, rest) := by
  unfold decode
  exact decodeF_encode v _ rest hw (by simp)

end SafeNet.MsgPack
