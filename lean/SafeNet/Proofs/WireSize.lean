import SafeNet.Proofs.WireCbor
/-!
Sizes of written messages against the codec's read limits (C12): the closed form of the worst-case honest
`Cmd::Replicate`, the response with a large payload.  Everything by induction / `omega`; no evaluation of large encodings.
-/
namespace SafeNet.WireCbor
open SafeNet.Cbor SafeNet.Gen.WireCodec
open SafeNet.Wire (nm)

theorem encodeArg_length (m n : Nat) : (encodeArg m n).length = 1 + argLen n := by
  simp [encodeArg, argBytes_length]; omega

theorem toCs_replicate (n : Nat) (t : CTree) : toCs (List.replicate n t) = List.replicate n (toC t) := by
  induction n with
  | zero => rfl
  | succ n ih => simp only [List.replicate_succ, toCs, ih]

theorem encodeList_replicate_length (n : Nat) (v : Val) :
    (encodeList (List.replicate n v)).length = n * (encode v).length := by
  induction n with
  | zero => simp [encodeList]
  | succ n ih => simp only [List.replicate_succ, encodeList, List.length_append, ih]; rw [Nat.succ_mul]; omega

theorem uint_byte_length (b : Nat) (hb : b < 256) : (encode (.uint b)).length = if b < 24 then 1 else 2 := by
  simp only [encode, encodeHead, encodeArg_length, argLen]
  by_cases h : b < 24
  · simp [h]
  · simp [h, hb]

theorem nm_RecordKey_length : (nm "RecordKey").length = 9 := by decide
theorem nm_NonChunk_length : (nm "NonChunk").length = 8 := by decide

/-- one advertised record takes `entrySize b` bytes -/
theorem fillEntry_size (b : Nat) (hb : b < 256) : (encode (toC (fillEntry b))).length = entrySize b := by
  have hu := uint_byte_length b hb
  have hl : (encodeList (List.replicate 32 (Val.uint b))).length = 32 * (encode (.uint b)).length :=
    encodeList_replicate_length 32 _
  have ht : toCs (List.replicate 32 (CTree.u b)) = List.replicate 32 (Val.uint b) := by
    rw [toCs_replicate]; rfl
  simp only [fillEntry, toC, toCs, ht, encode, encodeList, encodePairs, encodeHead, List.length_append, List.length_cons,
    List.length_nil, List.length_replicate, encodeArg_length, argLen, nm_RecordKey_length, nm_NonChunk_length, hl]
  unfold entrySize
  by_cases h : b < 24
  · simp [h]
  · simp [h, hb]

theorem nm_lengths : (nm "Cmd").length = 3 ∧ (nm "Replicate").length = 9 ∧ (nm "holder").length = 6 ∧ (nm "keys").length = 4 ∧
    (nm "PeerId").length = 6 := by decide

/-- **closed form**: the written size of the honest `Replicate` of `n` records is `77 + |array header of n| + n · entrySize` -/
theorem replicate_size_closed_form (n b : Nat) (hb : b < 256) :
    (writeMsg (fillReplicate n b)).length = replicateRequestSize n b := by
  have he := fillEntry_size b hb
  have hl : (encodeList (List.replicate n (toC (fillEntry b)))).length = n * (encode (toC (fillEntry b))).length :=
    encodeList_replicate_length n _
  obtain ⟨h1, h2, h3, h4, h5⟩ := nm_lengths
  simp only [writeMsg, fillReplicate, toC, toCFields, toCs_replicate, encode, encodePairs, encodeHead,
    List.length_append, List.length_cons, List.length_nil, List.length_replicate, encodeArg_length, argLen, h1, h2, h3, h4, h5, hl, he,
    replicateRequestSize]
  simp
  omega

theorem all_replicate {α} (n : Nat) (a : α) (p : α → Bool) (h : p a = true) : (List.replicate n a).all p = true := by
  induction n with
  | zero => rfl
  | succ n ih => simp only [List.replicate_succ, List.all_cons, h, ih, Bool.and_self]

theorem nameOk_replicate (n b : Nat) (hb : b < 256) (hn : n < 18446744073709551616) : nameOkC (List.replicate n b) = true := by
  simp only [nameOkC, List.length_replicate, Bool.and_eq_true, decide_eq_true_eq]
  refine ⟨hn, ?_⟩
  unfold isBytes
  exact all_replicate n b _ (by simpa using hb)

theorem conformsCTup_bytes (n b : Nat) (hb : b < 256) :
    conformsCTup (List.replicate n u8) (List.replicate n (.u b)) = true := by
  induction n with
  | zero => rfl
  | succ n ih =>
    simp only [List.replicate_succ, conformsCTup, conformsC, u8, hb, decide_true, Bool.true_and] at ih ⊢
    exact ih

theorem entry_conforms (b : Nat) (hb : b < 256) : conformsC (.tup [networkAddress, recordType]) (fillEntry b) = true := by
  have h : conformsC (.tup [networkAddress, recordType]) (fillEntry b) =
      (conformsCTup (List.replicate 32 u8) (List.replicate 32 (.u b)) && true) := rfl
  rw [h, conformsCTup_bytes 32 b hb]; rfl

theorem wfList_bytes (n b : Nat) (hb : b < 256) : treeWfCList (List.replicate n (.u b)) = true := by
  induction n with
  | zero => rfl
  | succ n ih =>
    have h1 : b < 18446744073709551616 := by omega
    simp only [List.replicate_succ, treeWfCList, treeWfC, ih, h1, decide_true, Bool.and_self]

theorem entry_wf (b : Nat) (hb : b < 256) : treeWfC (fillEntry b) = true := by
  have hk : nameOkC (nm "RecordKey") = true ∧ nameOkC (nm "NonChunk") = true := by decide
  simp only [fillEntry, treeWfC, treeWfCList, hk.1, hk.2, nameOk_replicate 32 b hb (by omega), wfList_bytes 32 b hb,
    List.length_replicate, List.length_cons, List.length_nil, Bool.and_self, Bool.true_and, Bool.and_true]
  rfl

theorem wfList_replicate (n : Nat) (t : CTree) (h : treeWfC t = true) : treeWfCList (List.replicate n t) = true := by
  induction n with
  | zero => rfl
  | succ n ih => simp only [List.replicate_succ, treeWfCList, h, ih, Bool.and_self]

theorem fillReplicate_conforms (n b : Nat) (hb : b < 256) : conformsC request (fillReplicate n b) = true := by
  have he := all_replicate n (fillEntry b) (conformsC (.tup [networkAddress, recordType])) (entry_conforms b hb)
  have h : conformsC request (fillReplicate n b) =
      ((List.replicate n (fillEntry b)).all (conformsC (.tup [networkAddress, recordType])) && true) := rfl
  rw [h, he]; rfl

theorem fillReplicate_wf (n b : Nat) (hb : b < 256) (hn : n < 18446744073709551616) : treeWfC (fillReplicate n b) = true := by
  have he := wfList_replicate n (fillEntry b) (entry_wf b hb)
  have hk : nameOkC (nm "Cmd") = true ∧ nameOkC (nm "Replicate") = true ∧ nameOkC (nm "holder") = true ∧
      nameOkC (nm "keys") = true ∧ nameOkC (nm "PeerId") = true := by decide
  obtain ⟨h1, h2, h3, h4, h5⟩ := hk
  have hp : nameOkC (List.replicate 38 b) = true := by
    simp [nameOkC, isBytes, List.replicate, hb]
  simp only [fillReplicate, treeWfC, treeWfCFields, h1, h2, h3, h4, h5, he, hp, List.length_replicate, List.length_cons,
    List.length_nil, Bool.and_self, Bool.true_and, Bool.and_true]
  simp [hn]

/-- reading the written advertisement through the request limit: itself when it fits, an error when it does not -/
theorem replicate_read (n b : Nat) (hb : b < 256) (hn : n < 18446744073709551616) :
    (replicateRequestSize n b ≤ requestCap →
      readCapped requestCap request (writeMsg (fillReplicate n b)) = some (fillReplicate n b, [])) ∧
    (requestCap < replicateRequestSize n b → readCapped requestCap request (writeMsg (fillReplicate n b)) = none) := by
  have hs := replicate_size_closed_form n b hb
  have hw := fillReplicate_wf n b hb hn
  constructor
  · intro h
    unfold readCapped
    rw [List.take_of_length_le (by omega)]
    have := readMsg_writeMsg request (fillReplicate n b) [] (by decide +kernel) (fillReplicate_conforms n b hb) hw
    simpa using this
  · intro h
    unfold readCapped
    exact readMsg_prefix_none request _ hw requestCap (by omega)

/-! ## mixed lists: `c` chunks (52 bytes each) and `n` non-chunk records -/

theorem toCs_append (a b : List CTree) : toCs (a ++ b) = toCs a ++ toCs b := by
  induction a with
  | nil => rfl
  | cons x xs ih => simp only [List.cons_append, toCs, ih]

theorem encodeList_append_length (a b : List Val) :
    (encodeList (a ++ b)).length = (encodeList a).length + (encodeList b).length := by
  induction a with
  | nil => simp [encodeList]
  | cons x xs ih => simp only [List.cons_append, encodeList, List.length_append, ih]; omega

theorem nm_Chunk_length : (nm "Chunk").length = 5 := by decide

theorem chunkEntry_size (b : Nat) : (encode (toC (chunkEntry b))).length = chunkEntrySize := by
  simp only [chunkEntry, toC, toCs, encode, encodeList, encodePairs, encodeHead, List.length_append, List.length_cons,
    List.length_nil, List.length_replicate, encodeArg_length, argLen, nm_RecordKey_length, nm_Chunk_length, chunkEntrySize]
  simp

theorem mixed_size_closed_form (c n b : Nat) (hb : b < 256) :
    (writeMsg (mixedReplicate c n b)).length = mixedRequestSize c n b := by
  have he := fillEntry_size b hb
  have hc := chunkEntry_size b
  have hl1 : (encodeList (List.replicate c (toC (chunkEntry b)))).length = c * (encode (toC (chunkEntry b))).length :=
    encodeList_replicate_length c _
  have hl2 : (encodeList (List.replicate n (toC (fillEntry b)))).length = n * (encode (toC (fillEntry b))).length :=
    encodeList_replicate_length n _
  obtain ⟨h1, h2, h3, h4, h5⟩ := nm_lengths
  simp only [writeMsg, mixedReplicate, toC, toCFields, toCs_append, toCs_replicate, encode, encodePairs, encodeHead,
    List.length_append, List.length_cons, List.length_nil, List.length_replicate, encodeArg_length, argLen, h1, h2, h3, h4, h5,
    encodeList_append_length, hl1, hl2, he, hc, mixedRequestSize]
  simp
  omega

theorem chunkEntry_conforms (b : Nat) : conformsC (.tup [networkAddress, recordType]) (chunkEntry b) = true := rfl

theorem chunkEntry_wf (b : Nat) (hb : b < 256) : treeWfC (chunkEntry b) = true := by
  have hk : nameOkC (nm "RecordKey") = true ∧ nameOkC (nm "Chunk") = true := by decide
  simp only [chunkEntry, treeWfC, treeWfCList, hk.1, hk.2, nameOk_replicate 32 b hb (by omega), Bool.and_self]
  rfl

theorem wfList_append (a b : List CTree) (ha : treeWfCList a = true) (hb : treeWfCList b = true) :
    treeWfCList (a ++ b) = true := by
  induction a with
  | nil => exact hb
  | cons x xs ih =>
    simp only [List.cons_append, treeWfCList, Bool.and_eq_true] at ha ⊢
    exact ⟨ha.1, ih ha.2⟩

theorem mixedReplicate_conforms (c n b : Nat) (hb : b < 256) : conformsC request (mixedReplicate c n b) = true := by
  have he := all_replicate n (fillEntry b) (conformsC (.tup [networkAddress, recordType])) (entry_conforms b hb)
  have hc := all_replicate c (chunkEntry b) (conformsC (.tup [networkAddress, recordType])) (chunkEntry_conforms b)
  have h : conformsC request (mixedReplicate c n b) =
      ((List.replicate c (chunkEntry b) ++ List.replicate n (fillEntry b)).all (conformsC (.tup [networkAddress, recordType])) && true) := rfl
  rw [h, List.all_append, he, hc]; rfl

theorem mixedReplicate_wf (c n b : Nat) (hb : b < 256) (hn : c + n < 18446744073709551616) :
    treeWfC (mixedReplicate c n b) = true := by
  have he := wfList_append _ _ (wfList_replicate c (chunkEntry b) (chunkEntry_wf b hb)) (wfList_replicate n (fillEntry b) (entry_wf b hb))
  have hk : nameOkC (nm "Cmd") = true ∧ nameOkC (nm "Replicate") = true ∧ nameOkC (nm "holder") = true ∧
      nameOkC (nm "keys") = true ∧ nameOkC (nm "PeerId") = true := by decide
  obtain ⟨h1, h2, h3, h4, h5⟩ := hk
  have hp : nameOkC (List.replicate 38 b) = true := by
    simp [nameOkC, isBytes, List.replicate, hb]
  simp only [mixedReplicate, treeWfC, treeWfCFields, h1, h2, h3, h4, h5, he, hp, List.length_replicate, List.length_append,
    List.length_cons, List.length_nil, Bool.and_self, Bool.true_and, Bool.and_true]
  simp [hn]

theorem mixed_read (c n b : Nat) (hb : b < 256) (hn : c + n < 18446744073709551616) :
    (mixedRequestSize c n b ≤ requestCap →
      readCapped requestCap request (writeMsg (mixedReplicate c n b)) = some (mixedReplicate c n b, [])) ∧
    (requestCap < mixedRequestSize c n b → readCapped requestCap request (writeMsg (mixedReplicate c n b)) = none) := by
  have hs := mixed_size_closed_form c n b hb
  have hw := mixedReplicate_wf c n b hb hn
  constructor
  · intro h
    unfold readCapped
    rw [List.take_of_length_le (by omega)]
    have := readMsg_writeMsg request (mixedReplicate c n b) [] (by decide +kernel) (mixedReplicate_conforms c n b hb) hw
    simpa using this
  · intro h
    unfold readCapped
    exact readMsg_prefix_none request _ hw requestCap (by omega)

theorem mixed_zero_chunks (n b : Nat) : mixedReplicate 0 n b = fillReplicate n b := by
  simp [mixedReplicate, fillReplicate]

/-! ## the response with a large payload -/

theorem fillResponse_bytes (n b : Nat) :
    writeMsg (fillResponse n b) = responsePrefix ++ (encodeArg 2 n ++ List.replicate n b) := by
  have hp : responsePrefix = (writeMsg (fillResponse 0 0)).dropLast := rfl
  simp only [writeMsg, fillResponse, toC, toCs, encode, encodeList, encodePairs, encodeHead, List.length_replicate,
    List.append_assoc, List.append_nil] at hp ⊢
  rw [hp]
  simp [encodeArg, argInfo, argBytes, List.dropLast_append_of_ne_nil, List.dropLast]

theorem responsePrefix_length : responsePrefix.length = 45 := by decide

theorem fillResponse_size (n b : Nat) : (writeMsg (fillResponse n b)).length = fillResponseSize n := by
  rw [fillResponse_bytes]
  simp only [List.length_append, List.length_replicate, responsePrefix_length, fillResponseSize]
  omega

theorem fillResponse_conforms (n b : Nat) : conformsC (response prettyKeyW) (fillResponse n b) = true := rfl

theorem fillResponse_wf (n b : Nat) (hb : b < 256) (hn : n < 18446744073709551616) : treeWfC (fillResponse n b) = true := by
  have hp := nameOk_replicate n b hb hn
  have hk : nameOkC (nm "Query") = true ∧ nameOkC (nm "GetReplicatedRecord") = true ∧ nameOkC (nm "Ok") = true ∧
      nameOkC (nm "RecordKey") = true ∧ nameOkC [] = true := by decide
  obtain ⟨h1, h2, h3, h4, h5⟩ := hk
  simp only [fillResponse, treeWfC, treeWfCList, h1, h2, h3, h4, h5, hp, List.length_cons, List.length_nil, Bool.and_self,
    Bool.true_and, Bool.and_true, decide_eq_true_eq]
  decide

theorem response_read (n b : Nat) (hb : b < 256) (hn : n < 18446744073709551616) :
    (fillResponseSize n ≤ responseCap →
      readCapped responseCap (response prettyKeyR) (writeMsg (fillResponse n b)) = some (fillResponse n b, [])) ∧
    (responseCap < fillResponseSize n → readCapped responseCap (response prettyKeyR) (writeMsg (fillResponse n b)) = none) := by
  have hs := fillResponse_size n b
  have hw := fillResponse_wf n b hb hn
  have hr : prettyKeyR = prettyKeyW := rfl
  constructor
  · intro h
    unfold readCapped
    rw [List.take_of_length_le (by omega), hr]
    have := readMsg_writeMsg (response prettyKeyW) (fillResponse n b) [] (by decide +kernel) (fillResponse_conforms n b) hw
    simpa using this
  · intro h
    unfold readCapped
    exact readMsg_prefix_none _ _ hw responseCap (by omega)

end SafeNet.WireCbor
