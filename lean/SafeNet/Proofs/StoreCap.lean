import SafeNet.Proofs.StoreViews
/-!
Capacity accounting: with every accepted put acknowledged before the next put, listed records plus
writes/notifications in flight never exceed `max max_records 1`.
-/
namespace SafeNet.Store

def isWrite : Task → Bool
  | .write _ _ _ => true
  | _ => false

/-- pending writes plus pending `AddLocalRecordAsStored` notifications -/
def inflight (s : St) : Nat := (s.tasks.filter (fun t => isWrite t.2)).length + s.notes.length

def cap (cfg : Cfg) : Nat := max cfg.maxRecords 1

/-- listed records plus writes / notifications in flight stay within the capacity plus an allowance `L` (the number of
file deletions lost in crashes so far; `0` in a history without crashes) -/
def CapInvL (cfg : Cfg) (L : Nat) (s : St) : Prop := s.index.length + inflight s ≤ cap cfg + L

def CapInv (cfg : Cfg) (s : St) : Prop := CapInvL cfg 0 s

theorem length_erase_le {α : Type} (k : Nat) (l : List (Nat × α)) : (erase k l).length ≤ l.length :=
  List.length_filter_le _ _

theorem length_erase_lt_of_mem {α : Type} {k : Nat} {l : List (Nat × α)} (h : k ∈ keys l) :
    (erase k l).length < l.length := by
  induction l with
  | nil => simp [keys] at h
  | cons x xs ih =>
    simp only [erase, List.filter_cons]
    by_cases hx : x.1 = k
    · simp only [hx, bne_self_eq_false, Bool.false_eq_true, ↓reduceIte, List.length_cons]
      have := List.length_filter_le (fun e : Nat × α => e.1 != k) xs
      omega
    · have hne : (x.1 != k) = true := by simp [hx]
      simp only [hne, ↓reduceIte, List.length_cons]
      have : k ∈ keys xs := by
        simp only [keys, List.map_cons, List.mem_cons] at h
        rcases h with h | h
        · exact absurd h.symm hx
        · exact h
      have := ih this
      simp only [erase] at this
      omega

@[simp] theorem isWrite_write (k v : Nat) (rt : RType) : isWrite (.write k v rt) = true := rfl
@[simp] theorem isWrite_delete (k : Nat) : isWrite (.delete k) = false := rfl
@[simp] theorem isWrite_flush (n : Nat) : isWrite (.flush n) = false := rfl

theorem writes_erase_le (id : Nat) (ts : List (Nat × Task)) :
    ((erase id ts).filter (fun t => isWrite t.2)).length ≤ (ts.filter (fun t => isWrite t.2)).length :=
  ((List.filter_sublist (l := ts) (p := fun e => e.1 != id)).filter _).length_le

theorem writes_erase_lt {id : Nat} {t : Task} {ts : List (Nat × Task)} (hm : (id, t) ∈ ts) (hw : isWrite t = true) :
    ((erase id ts).filter (fun t => isWrite t.2)).length < (ts.filter (fun t => isWrite t.2)).length := by
  induction ts with
  | nil => simp at hm
  | cons x xs ih =>
    have hle := writes_erase_le id xs
    by_cases hx : x.1 = id
    · have he : erase id (x :: xs) = erase id xs := by
        simp [erase, hx]
      rw [he]
      rcases List.mem_cons.mp hm with h | h
      · subst h
        simp only [List.filter_cons, hw, ↓reduceIte, List.length_cons]
        omega
      · have := ih h
        have h2 : (xs.filter (fun t => isWrite t.2)).length ≤ ((x :: xs).filter (fun t => isWrite t.2)).length :=
          ((List.sublist_cons_self x xs).filter _).length_le
        omega
    · have he : erase id (x :: xs) = x :: erase id xs := by
        simp [erase, hx]
      rw [he]
      have hm' : (id, t) ∈ xs := by
        rcases List.mem_cons.mp hm with h | h
        · subst h; exact absurd rfl hx
        · exact h
      have := ih hm'
      simp only [List.filter_cons]
      split
      · simp only [List.length_cons]; omega
      · omega

theorem inflight_removeKey (dist : Nat → Nat) (s : St) (k : Nat) : inflight (removeKey dist s k) = inflight s := by
  simp [inflight, removeKey, List.filter_append]

theorem index_removeKey_le (dist : Nat → Nat) (s : St) (k : Nat) : (removeKey dist s k).index.length ≤ s.index.length :=
  length_erase_le _ _

theorem CapInvL.removeKey {cfg : Cfg} {L : Nat} {dist : Nat → Nat} {s : St} (h : CapInvL cfg L s) (k : Nat) :
    CapInvL cfg L (removeKey dist s k) := by
  unfold CapInvL at *
  rw [inflight_removeKey]
  have := index_removeKey_le dist s k
  omega

theorem CapInvL.foldl_removeKey {cfg : Cfg} {L : Nat} {dist : Nat → Nat} (ks : List Nat) {s : St} (h : CapInvL cfg L s) :
    CapInvL cfg L (ks.foldl (SafeNet.Store.removeKey dist) s) := by
  induction ks generalizing s with
  | nil => exact h
  | cons k ks ih => exact ih (h.removeKey k)

theorem CapInvL.putVerified {cfg : Cfg} {L : Nat} {dist : Nat → Nat} {s : St} (hv : Views dist s) (h : CapInvL cfg L s)
    (hq : inflight s = 0) (k v : Nat) (rt : RType) : CapInvL cfg L (putVerified cfg dist s k v rt).1 := by
  unfold CapInvL at *
  have hcap : 1 ≤ cap cfg := by unfold cap; omega
  have hmax : cfg.maxRecords ≤ cap cfg := by unfold cap; omega
  unfold SafeNet.Store.putVerified
  split
  · exact h
  · simp only
    split
    · exact h
    · rename_i s2 hs2
      have key : s2.index.length + inflight s2 + 1 ≤ cap cfg + L := by
        unfold prune at hs2
        simp only at hs2
        split at hs2
        · rename_i hlt
          cases hs2
          simp only [inflight] at hq ⊢
          omega
        · split at hs2
          · rename_i hf
            cases hs2
            have := hv.far
            rw [hf] at this
            simp only [FarOK] at this
            simp only [inflight] at hq ⊢
            rw [this]
            simp only [List.length_nil]
            omega
          · rename_i f fd hf
            split at hs2
            · cases hs2
            · cases hs2
              have hfm := hv.far
              rw [hf] at hfm
              simp only [FarOK] at hfm
              rw [inflight_removeKey]
              have := length_erase_lt_of_mem hfm.1
              simp only [SafeNet.Store.removeKey, inflight] at hq ⊢
              omega
      simp only [inflight, List.filter_append, List.length_append] at key ⊢
      simp only [List.filter_cons, isWrite_write, ↓reduceIte, List.filter_nil, List.length_cons, List.length_nil]
      omega

theorem CapInvL.runTask {cfg : Cfg} {L : Nat} {s : St} (h : CapInvL cfg L s) (id : Nat) : CapInvL cfg L (runTask s id).1 := by
  unfold CapInvL at *
  unfold SafeNet.Store.runTask
  split
  · exact h
  · rename_i t ht
    split
    · cases t with
      | write k v rt =>
        have := writes_erase_lt (lookup_some_mem ht) (isWrite_write k v rt)
        simp only [inflight, List.length_append, List.length_cons, List.length_nil] at h ⊢
        omega
      | delete k =>
        have := writes_erase_le id s.tasks
        simp only [inflight] at h ⊢
        omega
      | flush n =>
        have := writes_erase_le id s.tasks
        simp only [inflight] at h ⊢
        omega
    · exact h

theorem CapInvL.deliver {cfg : Cfg} {L : Nat} {dist : Nat → Nat} {s : St} (h : CapInvL cfg L s) (id : Nat) :
    CapInvL cfg L (deliver dist s id).1 := by
  unfold CapInvL at *
  unfold SafeNet.Store.deliver
  split
  · exact h
  · rename_i n hn
    split
    · have h1 : (erase id s.notes).length < s.notes.length :=
        length_erase_lt_of_mem (List.mem_map.mpr ⟨_, lookup_some_mem hn, rfl⟩)
      have h2 := length_erase_le n.k s.index
      simp only [inflight, markAsStored, insert, List.length_cons] at h ⊢
      omega
    · exact h

theorem CapInvL.cleanup {cfg : Cfg} {L : Nat} {dist : Nat → Nat} {s : St} (h : CapInvL cfg L s) : CapInvL cfg L (cleanup cfg dist s) := by
  unfold SafeNet.Store.cleanup
  split
  · exact h
  · split
    · exact h
    · exact CapInvL.foldl_removeKey _ h

def isPut : Op → Bool
  | .put _ _ _ => true
  | _ => false

def isCrash : Op → Bool
  | .crash _ => true
  | _ => false

/-- every put happens with no write or notification in flight, and the node does not stop -/
def AckBeforePut (cfg : Cfg) (dist : Nat → Nat) : St → List Op → Prop
  | _, [] => True
  | s, op :: ops =>
    (isPut op = true → inflight s = 0) ∧ isCrash op = false ∧ AckBeforePut cfg dist (step cfg dist s op).1 ops

theorem CapInvL.step {cfg : Cfg} {L : Nat} {dist : Nat → Nat} {s : St} (hv : Views dist s) (h : CapInvL cfg L s) (op : Op)
    (hp : isPut op = true → inflight s = 0) (hc : isCrash op = false) : CapInvL cfg L (step cfg dist s op).1 := by
  cases op with
  | put k v rt => exact h.putVerified hv (hp rfl) k v rt
  | remove k => exact h.removeKey k
  | run id => exact h.runTask id
  | deliver id => exact h.deliver id
  | setRange r => exact h
  | cleanup => exact h.cleanup
  | payment =>
    unfold CapInvL at *
    simp only [SafeNet.Store.step, payment_eq, paymentSync, inflight] at h ⊢
    exact h
  | crash t => simp [isCrash] at hc

theorem CapInv.runFrom {cfg : Cfg} {dist : Nat → Nat} (inj : Injective dist) (ops : List Op) {s : St}
    (hv : Views dist s) (h : CapInv cfg s) (ha : AckBeforePut cfg dist s ops) :
    CapInv cfg (runFrom cfg dist s ops) := by
  induction ops generalizing s with
  | nil => exact h
  | cons op ops ih =>
    obtain ⟨hp, hc, hrest⟩ := ha
    exact ih (hv.step inj op) (CapInvL.step hv h op hp hc) hrest

theorem CapInv.init (cfg : Cfg) (dist : Nat → Nat) : CapInv cfg (init cfg dist) := by
  simp [CapInv, CapInvL, SafeNet.Store.init, restart, scanIndex, inflight, cap, flushSync]

end SafeNet.Store
