import SafeNet.Proofs.StoreSettled
import SafeNet.Proofs.StoreCap
/-!
History level: the ghost "last store-changing event" (`Want`) follows the write / delete tasks each step
spawns; `NoRemoveWhileInFlight` says that no step removes a key while a write or a notification of
that key is in flight (and the node does not stop); under it `KeyInv` holds after every history.
-/
namespace SafeNet.Store

variable {s : St} {w : Want}

/-- effect of one spawned task on the last store-changing event: a write task is an accepted put, a delete
task is a removal (explicit, eviction or clean-up) -/
def applyTask (w : Want) : Nat × Task → Want
  | (i, .write k v rt) => wSet w k (some (v, rt, i))
  | (_, .delete k) => wSet w k none
  | (_, .flush _) => w

/-- the tasks a step appended -/
def newTasks (s s' : St) : List (Nat × Task) := s'.tasks.drop s.tasks.length

/-- operations that spawn tasks (they only append to the pending list) -/
def spawns : Op → Bool
  | .put _ _ _ => true
  | .remove _ => true
  | .cleanup => true
  | .payment => true
  | _ => false

def wantStep (cfg : Cfg) (dist : Nat → Nat) (s : St) (w : Want) (op : Op) : Want :=
  if spawns op then (newTasks s (step cfg dist s op).1).foldl applyTask w else w

/-- this step removes no key that has a write or a notification in flight -/
def NoRemoveInFlightStep (cfg : Cfg) (dist : Nat → Nat) (s : St) (op : Op) : Prop :=
  spawns op = true → ∀ j k, (j, Task.delete k) ∈ newTasks s (step cfg dist s op).1 → ¬ inFlightKey s k

theorem newTasks_append (s s' : St) (l : List (Nat × Task)) (h : s'.tasks = s.tasks ++ l) : newTasks s s' = l := by
  simp [newTasks, h]

/-! ## payment, put, clean-up -/

/-- a call that spawns nothing but takes an id (the in-place metrics flush) -/
theorem KeyInv.bump (h : KeyInv s w) (p : Nat) (hh : Option Nat) :
    KeyInv { s with payments := p, hist := hh, nextId := s.nextId + 1 } w :=
  ⟨h.tsorted, fun e he => Nat.lt_succ_of_lt (h.tlt e he), fun e he => Nat.lt_succ_of_lt (h.nlt e he), h.nnodup, h.disj,
   h.nsorted, h.nbefore, h.delBefore, h.absent, h.present⟩

theorem KeyInv.addFlush (h : KeyInv s w) (n p : Nat) :
    KeyInv { s with payments := p, tasks := s.tasks ++ [(s.nextId, .flush n)], nextId := s.nextId + 1 } w := by
  have hmem : ∀ e, e ∈ s.tasks ++ [(s.nextId, Task.flush n)] ↔ e ∈ s.tasks ∨ e = (s.nextId, Task.flush n) := by
    intro e; simp
  have hw : ∀ k, hasWrite { s with payments := p, tasks := s.tasks ++ [(s.nextId, .flush n)], nextId := s.nextId + 1 } k ↔ hasWrite s k := by
    intro k; simp [hasWrite]
  have hd : ∀ k, hasDelete { s with payments := p, tasks := s.tasks ++ [(s.nextId, .flush n)], nextId := s.nextId + 1 } k ↔ hasDelete s k := by
    intro k; simp [hasDelete]
  refine ⟨pairwise_lt_append_fresh _ h.tsorted h.tlt, ?_, fun e he => Nat.lt_succ_of_lt (h.nlt e he), h.nnodup, ?_,
    h.nsorted, ?_, ?_, ?_, ?_⟩
  · intro e he
    rcases (hmem e).mp he with he | rfl
    · exact Nat.lt_succ_of_lt (h.tlt e he)
    · exact Nat.lt_succ_self _
  · intro e he n' hnn
    rcases (hmem e).mp he with he | rfl
    · exact h.disj e he n' hnn
    · exact Nat.ne_of_gt (h.nlt n' hnn)
  · intro j k rt hj i v rt' hi
    rcases (hmem _).mp hi with hi | hi
    · exact h.nbefore j k rt hj i v rt' hi
    · cases hi
  · intro j k hj i v rt hi
    rcases (hmem _).mp hi with hi | hi
    · rcases (hmem _).mp hj with hj | hj
      · exact h.delBefore j k hj i v rt hi
      · cases hj
    · cases hi
  · intro k hk
    obtain ⟨h1, h2, h3, h4⟩ := h.absent k hk
    refine ⟨?_, h2, h3, fun hdk => (hd k).mpr (h4 hdk)⟩
    rintro (hw' | hn')
    · exact h1 (.inl ((hw k).mp hw'))
    · exact h1 (.inr hn')
  · intro k v rt i hk
    obtain ⟨h1, h2, h3, h4⟩ := h.present k v rt i hk
    refine ⟨h1, ?_, h3, ?_⟩
    · intro j v' rt' hj
      rcases (hmem _).mp hj with hj | hj
      · exact h2 j v' rt' hj
      · cases hj
    · rcases h4 with h4 | ⟨a, b, c, d⟩ | ⟨a, b, c, d, e⟩
      · exact .inl ((hmem _).mpr (.inl h4))
      · exact .inr (.inl ⟨a, not_of_iff (hw k) b, c, not_of_iff (hd k) d⟩)
      · exact .inr (.inr ⟨not_of_iff (hw k) a, b, c, d, not_of_iff (hd k) e⟩)

/-- the state after an accepted put on top of `s` -/
abbrev acceptSt (s : St) (c : List (Nat × Nat × Nat)) (clk k v : Nat) (rt : RType) : St :=
  { s with cache := c, clock := clk, tasks := s.tasks ++ [(s.nextId, .write k v rt)], nextId := s.nextId + 1 }

/-- the four outcomes of `put_verified` -/
theorem putVerified_shape (cfg : Cfg) (dist : Nat → Nat) (s : St) (k v : Nat) (rt : RType) :
    let pb := pushBack cfg.cacheSize (erase k s.cache) s.clock k v
    ((∃ t, (k, v, t) ∈ s.cache) ∧
      putVerified cfg dist s k v rt = ({ s with cache := pb, clock := s.clock + 1 }, .dedup)) ∨
    putVerified cfg dist s k v rt = ({ s with cache := erase k pb, clock := s.clock + 1 }, .maxRecords) ∨
    putVerified cfg dist s k v rt =
      ({ s with cache := pb, clock := s.clock + 1, tasks := s.tasks ++ [(s.nextId, .write k v rt)], nextId := s.nextId + 1 }, .ok) ∨
    (∃ f, putVerified cfg dist s k v rt = (acceptSt (removeKey dist s f) (erase f pb) (s.clock + 1) k v rt, .ok)) := by
  intro pb
  by_cases hit : (lookup k s.cache).map (·.1) = some v
  · left
    refine ⟨?_, by simp only [putVerified, hit, ↓reduceIte]; rfl⟩
    cases hl : lookup k s.cache with
    | none => simp [hl] at hit
    | some p =>
      obtain ⟨v', t⟩ := p
      simp only [hl, Option.map_some, Option.some.injEq] at hit
      subst hit
      exact ⟨t, lookup_some_mem hl⟩
  · right
    simp only [putVerified, hit, ↓reduceIte, prune]
    by_cases hlen : s.index.length < cfg.maxRecords
    · right; left
      simp only [hlen, ↓reduceIte]; rfl
    · simp only [hlen, ↓reduceIte]
      cases hf : s.farthest with
      | none => right; left; rfl
      | some p =>
        obtain ⟨f, fd⟩ := p
        simp only
        by_cases href : refuses fd (dist k) = true
        · left; simp only [href, ↓reduceIte]; rfl
        · right; right
          refine ⟨f, ?_⟩
          simp [href, acceptSt, removeKey, hf, pb]

theorem KeyInv.putVerified (cfg : Cfg) (dist : Nat → Nat) (h : KeyInv s w) (k v : Nat) (rt : RType)
    (hn : NoRemoveInFlightStep cfg dist s (.put k v rt)) :
    KeyInv (SafeNet.Store.putVerified cfg dist s k v rt).1 (wantStep cfg dist s w (.put k v rt)) := by
  have hpb : ∀ e ∈ pushBack cfg.cacheSize (erase k s.cache) s.clock k v,
      e = (k, v, s.clock) ∨ (e ∈ s.cache ∧ e.1 ≠ k) := by
    intro e he
    rcases mem_pushBack he with he | he
    · exact .inl he
    · exact .inr (mem_erase.mp he)
  simp only [wantStep, spawns, ↓reduceIte, SafeNet.Store.step]
  rcases putVerified_shape cfg dist s k v rt with ⟨⟨t, ht⟩, hr⟩ | hr | hr | ⟨f, hr⟩
  · rw [hr]
    have : newTasks s { s with cache := pushBack cfg.cacheSize (erase k s.cache) s.clock k v, clock := s.clock + 1 } = [] := by
      simp [newTasks]
    simp only [this, List.foldl_nil]
    apply h.cacheOnly
    intro e he
    rcases hpb e he with rfl | he
    · exact ⟨_, ht, rfl, rfl⟩
    · exact ⟨e, he.1, rfl, rfl⟩
  · rw [hr]
    have : newTasks s { s with cache := erase k (pushBack cfg.cacheSize (erase k s.cache) s.clock k v), clock := s.clock + 1 } = [] := by
      simp [newTasks]
    simp only [this, List.foldl_nil]
    apply h.cacheOnly
    intro e he
    obtain ⟨he1, he2⟩ := mem_erase.mp he
    rcases hpb e he1 with rfl | he1
    · exact absurd rfl he2
    · exact ⟨e, he1.1, rfl, rfl⟩
  · rw [hr]
    rw [newTasks_append s _ [(s.nextId, Task.write k v rt)] rfl]
    simp only [List.foldl_cons, List.foldl_nil, applyTask]
    apply h.accept
    intro e he
    rcases hpb e he with rfl | he
    · exact .inl ⟨rfl, rfl⟩
    · exact .inr he
  · have hnt : newTasks s (SafeNet.Store.putVerified cfg dist s k v rt).1 = [(s.nextId, Task.delete f), (s.nextId + 1, Task.write k v rt)] := by
      rw [hr]
      apply newTasks_append
      simp [SafeNet.Store.removeKey]
    have hnf : ¬ inFlightKey s f := by
      have := hn rfl s.nextId f
      simp only [SafeNet.Store.step] at this
      rw [hnt] at this
      exact this (by simp)
    rw [hnt, hr]
    simp only [List.foldl_cons, List.foldl_nil, applyTask]
    have h1 := h.removeKey dist f hnf
    have h2 := h1.accept k v rt (erase f (pushBack cfg.cacheSize (erase k s.cache) s.clock k v)) (s.clock + 1) (by
      intro e he
      obtain ⟨he1, he2⟩ := mem_erase.mp he
      rcases hpb e he1 with rfl | he1
      · exact .inl ⟨rfl, rfl⟩
      · exact .inr ⟨mem_erase.mpr ⟨he1.1, he2⟩, he1.2⟩)
    exact h2

def delTasks : Nat → List Nat → List (Nat × Task)
  | _, [] => []
  | n, k :: ks => (n, .delete k) :: delTasks (n + 1) ks

theorem foldl_removeKey_tasks (dist : Nat → Nat) (ks : List Nat) (s : St) :
    (ks.foldl (removeKey dist) s).tasks = s.tasks ++ delTasks s.nextId ks := by
  induction ks generalizing s with
  | nil => simp [delTasks]
  | cons k ks ih =>
    rw [List.foldl_cons, ih]
    simp [removeKey, delTasks]

theorem mem_delTasks {n : Nat} {ks : List Nat} {k : Nat} (h : k ∈ ks) : ∃ j, (j, Task.delete k) ∈ delTasks n ks := by
  induction ks generalizing n with
  | nil => cases h
  | cons x xs ih =>
    rcases List.mem_cons.mp h with rfl | h
    · exact ⟨n, by simp [delTasks]⟩
    · obtain ⟨j, hj⟩ := ih (n := n + 1) h
      exact ⟨j, by simp [delTasks, hj]⟩

theorem KeyInv.foldl_removeKey (dist : Nat → Nat) (ks : List Nat) (h : KeyInv s w)
    (hn : ∀ k ∈ ks, ¬ inFlightKey s k) :
    KeyInv (ks.foldl (SafeNet.Store.removeKey dist) s) ((delTasks s.nextId ks).foldl applyTask w) := by
  induction ks generalizing s w with
  | nil => exact h
  | cons k ks ih =>
    simp only [List.foldl_cons, delTasks, applyTask]
    have h1 := h.removeKey dist k (hn k (List.mem_cons_self ..))
    have := ih h1 (fun k' hk' => not_of_iff (inFlightKey_removeKey dist s k k') (hn k' (List.mem_cons_of_mem _ hk')))
    exact this

theorem KeyInv.cleanup (cfg : Cfg) (dist : Nat → Nat) (h : KeyInv s w)
    (hn : NoRemoveInFlightStep cfg dist s .cleanup) :
    KeyInv (SafeNet.Store.cleanup cfg dist s) (wantStep cfg dist s w .cleanup) := by
  simp only [wantStep, spawns, ↓reduceIte, SafeNet.Store.step]
  unfold SafeNet.Store.cleanup
  have hnil : newTasks s s = [] := by simp [newTasks]
  split
  · rw [hnil]; exact h
  · split
    · rw [hnil]; exact h
    · rename_i r hr
      have ht := foldl_removeKey_tasks dist ((sortByFst (s.byDist.filter (fun e => beyond e.1 r))).map (·.2)) s
      rw [newTasks_append s _ _ ht]
      apply h.foldl_removeKey
      intro k hk
      obtain ⟨j, hj⟩ := mem_delTasks (n := s.nextId) hk
      have := hn rfl j k
      simp only [SafeNet.Store.step, SafeNet.Store.cleanup] at this
      rw [if_neg (by assumption), hr] at this
      simp only at this
      rw [newTasks_append s _ _ ht] at this
      exact this hj

theorem KeyInv.step (cfg : Cfg) (dist : Nat → Nat) (h : KeyInv s w) (op : Op) (hc : isCrash op = false)
    (hn : NoRemoveInFlightStep cfg dist s op) :
    KeyInv (SafeNet.Store.step cfg dist s op).1 (wantStep cfg dist s w op) := by
  cases op with
  | put k v rt => exact h.putVerified cfg dist k v rt hn
  | remove k =>
    have hnt : newTasks s (SafeNet.Store.step cfg dist s (.remove k)).1 = [(s.nextId, Task.delete k)] := by
      apply newTasks_append; simp [SafeNet.Store.step, SafeNet.Store.removeKey]
    simp only [wantStep, spawns, ↓reduceIte, hnt, List.foldl_cons, List.foldl_nil, applyTask]
    apply h.removeKey
    exact hn rfl s.nextId k (by rw [hnt]; simp)
  | run id => exact h.runTask id
  | deliver id => exact h.deliver dist id
  | setRange r =>
    exact ⟨h.tsorted, h.tlt, h.nlt, h.nnodup, h.disj, h.nsorted, h.nbefore, h.delBefore, h.absent, h.present⟩
  | cleanup => exact h.cleanup cfg dist hn
  | payment =>
    -- the metrics flush is written in place: no task is appended, the call only takes an id
    have hs : (SafeNet.Store.step cfg dist s .payment).1 = paymentSync s := by
      simp [SafeNet.Store.step, payment_eq]
    have hnt : newTasks s (SafeNet.Store.step cfg dist s .payment).1 = [] := by
      rw [hs]; simp [newTasks, paymentSync]
    simp only [wantStep, spawns, ↓reduceIte, hnt, List.foldl_nil]
    rw [hs]
    exact h.bump _ _
  | crash t => simp [isCrash] at hc

/-! ## histories -/

def wantFrom (cfg : Cfg) (dist : Nat → Nat) : St → Want → List Op → Want
  | _, w, [] => w
  | s, w, op :: ops => wantFrom cfg dist (step cfg dist s op).1 (wantStep cfg dist s w op) ops

/-- **NoRemoveWhileInFlight**: no step of the history removes a key (explicitly, by eviction or by clean-up)
while a write or a notification of that key is in flight, and the node does not stop. -/
def NoRemoveWhileInFlight (cfg : Cfg) (dist : Nat → Nat) : St → List Op → Prop
  | _, [] => True
  | s, op :: ops =>
    isCrash op = false ∧ NoRemoveInFlightStep cfg dist s op ∧ NoRemoveWhileInFlight cfg dist (step cfg dist s op).1 ops

/-! ### an executable check of the hypothesis (for examples and the driver) -/

def inFlightKeyB (s : St) (k : Nat) : Bool :=
  s.tasks.any (fun t => match t.2 with | .write k' _ _ => k' == k | _ => false) || s.notes.any (fun n => n.2.k == k)

theorem inFlightKey_of_not_B {s : St} {k : Nat} (h : inFlightKeyB s k = false) : ¬ inFlightKey s k := by
  simp only [inFlightKeyB, Bool.or_eq_false_iff, List.any_eq_false] at h
  rintro (⟨i, v, rt, hm⟩ | ⟨i, rt, hm⟩)
  · have := h.1 _ hm; simp at this
  · have := h.2 _ hm; simp at this

def stepOkB (cfg : Cfg) (dist : Nat → Nat) (s : St) (op : Op) : Bool :=
  !spawns op || (newTasks s (step cfg dist s op).1).all
    (fun t => match t.2 with | .delete k => !inFlightKeyB s k | _ => true)

def nrwifB (cfg : Cfg) (dist : Nat → Nat) : St → List Op → Bool
  | _, [] => true
  | s, op :: ops => !isCrash op && stepOkB cfg dist s op && nrwifB cfg dist (step cfg dist s op).1 ops

theorem nrwifB_sound (cfg : Cfg) (dist : Nat → Nat) (ops : List Op) (s : St) (h : nrwifB cfg dist s ops = true) :
    NoRemoveWhileInFlight cfg dist s ops := by
  induction ops generalizing s with
  | nil => trivial
  | cons op ops ih =>
    simp only [nrwifB, Bool.and_eq_true, Bool.not_eq_eq_eq_not, Bool.not_true] at h
    refine ⟨h.1.1, ?_, ih _ h.2⟩
    intro hsp j k hm
    have h2 := h.1.2
    simp only [stepOkB, hsp, Bool.not_true, Bool.false_or, List.all_eq_true] at h2
    have := h2 _ hm
    simp only [Bool.not_eq_eq_eq_not, Bool.not_true] at this
    exact inFlightKey_of_not_B this

theorem KeyInv.runFrom (cfg : Cfg) (dist : Nat → Nat) (ops : List Op) (h : KeyInv s w)
    (hn : NoRemoveWhileInFlight cfg dist s ops) :
    KeyInv (SafeNet.Store.runFrom cfg dist s ops) (wantFrom cfg dist s w ops) := by
  induction ops generalizing s w with
  | nil => exact h
  | cons op ops ih =>
    obtain ⟨hc, h1, h2⟩ := hn
    exact ih (h.step cfg dist op hc h1) h2

theorem KeyInv.init (cfg : Cfg) (dist : Nat → Nat) : KeyInv (SafeNet.Store.init cfg dist) (fun _ => none) := by
  refine ⟨by simp [SafeNet.Store.init, restart, flushSync], ?_, ?_, by simp [SafeNet.Store.init, restart], ?_, by simp [SafeNet.Store.init, restart], ?_, ?_, ?_, ?_⟩
  · intro e he
    simp [SafeNet.Store.init, restart, flushSync] at he
  · intro e he; simp [SafeNet.Store.init, restart] at he
  · intro e he n hn; simp [SafeNet.Store.init, restart] at hn
  · intro j k rt hj; simp [SafeNet.Store.init, restart] at hj
  · intro j k hj; simp [SafeNet.Store.init, restart] at hj
  · intro k _
    refine ⟨?_, ?_, ?_, ?_⟩
    · simp [inFlightKey, hasWrite, hasNote, SafeNet.Store.init, restart]
    · simp [SafeNet.Store.init, restart, scanIndex, lookup]
    · simp [SafeNet.Store.init, restart]
    · simp [SafeNet.Store.init, restart, lookup]
  · intro k v rt i hk; cases hk

/-- the last store-changing event on each key after a history from a fresh store -/
def lastEvent (cfg : Cfg) (dist : Nat → Nat) (ops : List Op) : Want :=
  wantFrom cfg dist (init cfg dist) (fun _ => none) ops

theorem KeyInv.run (cfg : Cfg) (dist : Nat → Nat) (ops : List Op)
    (hn : NoRemoveWhileInFlight cfg dist (SafeNet.Store.init cfg dist) ops) :
    KeyInv (SafeNet.Store.run cfg dist ops) (lastEvent cfg dist ops) :=
  KeyInv.runFrom cfg dist ops (KeyInv.init cfg dist) hn

/-- nothing pending for key `k` -/
def KeyQuiet (s : St) (k : Nat) : Prop := ¬ hasWrite s k ∧ ¬ hasNote s k ∧ ¬ hasDelete s k

/-- what a quiet key looks like, given the invariant -/
theorem KeyInv.readback (cfg : Cfg) (h : KeyInv s w) (k : Nat) (hq : KeyQuiet s k) :
    match w k with
    | some (v, rt, _) =>
      get cfg s k = some (.whole v) ∧ lookup k s.index = some rt ∧ lookup k s.disk = some (.full v)
    | none => get cfg s k = none ∧ lookup k s.index = none ∧ lookup k s.disk = none := by
  obtain ⟨hq1, hq2, hq3⟩ := hq
  cases hw : w k with
  | none =>
    obtain ⟨_, h2, h3, h4⟩ := h.absent k hw
    have hdisk : lookup k s.disk = none := by
      cases hd : lookup k s.disk with
      | none => rfl
      | some f => exact absurd (h4 (by rw [hd]; simp)) hq3
    have hcache : lookup k s.cache = none := by
      cases hc : lookup k s.cache with
      | none => rfl
      | some p => exact absurd rfl (h3 _ (lookup_some_mem hc))
    exact ⟨by simp [SafeNet.Store.get, hcache, h2], h2, hdisk⟩
  | some p =>
    obtain ⟨v, rt, i⟩ := p
    obtain ⟨h1, _, _, h4⟩ := h.present k v rt i hw
    rcases h4 with h4 | ⟨a, _⟩ | ⟨_, _, c, d, _⟩
    · exact absurd ⟨i, v, rt, h4⟩ hq1
    · exact absurd ⟨i, rt, a⟩ hq2
    · refine ⟨?_, d, c⟩
      cases hc : lookup k s.cache with
      | none => simp [SafeNet.Store.get, hc, d, c, readFile]
      | some p =>
        obtain ⟨v', t⟩ := p
        have := h1 _ (lookup_some_mem hc) rfl
        simp only at this
        subst this
        simp [SafeNet.Store.get, hc]

end SafeNet.Store
