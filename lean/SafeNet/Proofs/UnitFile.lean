import SafeNet.Model.UnitFile
/-! systemd's word splitting is the inverse of `make_service`'s unquoted `join(" ")` exactly on word lists
that are `wordSafe` (C20, audit item C20-1). -/
namespace SafeNet.UnitFile
open SafeNet.ArgTable

theorem plain_not (c : Char) (h : plainChar c = true) :
    isWs c = false ∧ (c == '"' || c == '\'') = false ∧ (c == '\\' || c == '%' || c == '$') = false := by
  simp only [plainChar, Bool.not_eq_true', Bool.or_eq_false_iff] at h
  obtain ⟨⟨⟨⟨⟨h1, h2⟩, h3⟩, h4⟩, h5⟩, h6⟩ := h
  simp [h1, h2, h3, h4, h5, h6]

/-- a run of plain characters is appended to the word under construction -/
theorem sdGo_plain (w : List Char) (h : w.all plainChar = true) (rest acc : List Char) :
    sdGo (w ++ rest) (some acc) none = sdGo rest (some (w.reverse ++ acc)) none := by
  induction w generalizing acc with
  | nil => rfl
  | cons c cs ih =>
    simp only [List.all_cons, Bool.and_eq_true] at h
    obtain ⟨h1, h2, h3⟩ := plain_not c h.1
    simp only [List.cons_append, sdGo, h1, h2, h3, Bool.false_eq_true, if_false, Option.getD_some]
    rw [ih h.2]
    simp

/-- … and starts a word when none is under construction -/
theorem sdGo_plain_start (c : Char) (w : List Char) (h : (c :: w).all plainChar = true) (rest : List Char) :
    sdGo (c :: w ++ rest) none none = sdGo rest (some (c :: w).reverse) none := by
  simp only [List.all_cons, Bool.and_eq_true] at h
  obtain ⟨h1, h2, h3⟩ := plain_not c h.1
  simp only [List.cons_append, sdGo, h1, h2, h3, Bool.false_eq_true, if_false, Option.getD_none]
  rw [sdGo_plain w h.2]
  simp

def charsSafe (w : List Char) : Bool := !w.isEmpty && w.all plainChar

theorem sdGo_word_end (w : List Char) (h : charsSafe w = true) :
    sdGo w none none = some [String.ofList w] := by
  cases w with
  | nil => simp [charsSafe] at h
  | cons c cs =>
    simp only [charsSafe, List.isEmpty_cons, Bool.not_false, Bool.true_and] at h
    have := sdGo_plain_start c cs h []
    simp only [List.append_nil] at this
    rw [this]
    simp [sdGo]

theorem sdGo_word_space (w : List Char) (h : charsSafe w = true) (rest : List Char) :
    sdGo (w ++ ' ' :: rest) none none = (sdGo rest none none).map (String.ofList w :: ·) := by
  cases w with
  | nil => simp [charsSafe] at h
  | cons c cs =>
    simp only [charsSafe, List.isEmpty_cons, Bool.not_false, Bool.true_and] at h
    rw [sdGo_plain_start c cs h]
    have hws : isWs ' ' = true := by decide
    simp [sdGo, hws]

theorem intercalate_cons_cons' (c : Char) (x y : List Char) (r : List (List Char)) :
    [c].intercalate (x :: y :: r) = x ++ c :: [c].intercalate (y :: r) := by
  simp [List.intercalate, List.intersperse]

/-- **split ∘ join = id** on safe words -/
theorem sdGo_join (ws : List (List Char)) (h : ∀ w ∈ ws, charsSafe w = true) :
    sdGo ([' '].intercalate ws) none none = some (ws.map String.ofList) := by
  induction ws with
  | nil => rfl
  | cons x r ih =>
    cases r with
    | nil =>
      have : [' '].intercalate [x] = x := by simp [List.intercalate, List.intersperse]
      rw [this, sdGo_word_end x (h x (List.mem_cons_self ..))]
      rfl
    | cons y r' =>
      rw [intercalate_cons_cons', sdGo_word_space x (h x (List.mem_cons_self ..))]
      rw [ih (fun w hw => h w (List.mem_cons_of_mem _ hw))]
      rfl

theorem wordSafe_chars (w : String) (h : wordSafe w = true) : charsSafe w.toList = true ∧ w ≠ ";" := by
  simp only [wordSafe, Bool.and_eq_true, bne_iff_ne, ne_eq] at h
  exact ⟨by simp [charsSafe, h.1.1, h.1.2], h.2⟩

theorem ofList_toList_map (ws : List String) : (ws.map String.toList).map String.ofList = ws := by
  rw [List.map_map]
  have : (String.ofList ∘ String.toList) = id := by funext s; simp
  rw [this, List.map_id]

/-- **systemd reads back exactly what was written** when program and arguments are `UnitSafe`. -/
theorem unitCommand_execStart (program : String) (args : List String) (h : UnitSafe program args = true) :
    unitCommand (execStartValue program args) = some (program, args) := by
  simp only [UnitSafe, Bool.and_eq_true, List.all_eq_true] at h
  obtain ⟨hp, ha⟩ := h
  have hsp : " ".toList = [' '] := by decide
  have hall : ∀ w ∈ (program :: args).map String.toList, charsSafe w = true := by
    intro w hw
    obtain ⟨s, hs, rfl⟩ := List.mem_map.mp hw
    rcases List.mem_cons.mp hs with rfl | hs
    · exact (wordSafe_chars _ hp).1
    · exact (wordSafe_chars _ (ha s hs)).1
  cases args with
  | nil =>
    have hc := (wordSafe_chars _ hp)
    have hgo : sdGo (execStartValue program []).toList none none = some [program] := by
      have : (execStartValue program []).toList = program.toList ++ ' ' :: [] := by
        simp [execStartValue, String.toList_append, hsp]
      rw [this, sdGo_word_space _ hc.1]
      simp [sdGo]
    have hne : ([program] : List String).contains ";" = false := by
      simp only [List.contains_cons, List.contains_nil, Bool.or_false, beq_eq_false_iff_ne, ne_eq]
      exact fun e => hc.2 e.symm
    simp only [unitCommand, sdLex, hgo, hne, Bool.false_eq_true, if_false]
  | cons a r =>
    have hline : (execStartValue program (a :: r)).toList =
        [' '].intercalate ((program :: a :: r).map String.toList) := by
      simp only [execStartValue, String.toList_append, String.toList_intercalate, hsp]
      rw [List.map_cons, List.map_cons, List.map_cons, intercalate_cons_cons']
      simp
    have hgo : sdGo (execStartValue program (a :: r)).toList none none = some (program :: a :: r) := by
      rw [hline, sdGo_join _ hall, ofList_toList_map]
    have hne : (program :: a :: r).contains ";" = false := by
      rw [List.contains_eq_any_beq, List.any_eq_false]
      intro w hw
      have : w ≠ ";" := by
        rcases List.mem_cons.mp hw with rfl | hw
        · exact (wordSafe_chars _ hp).2
        · exact (wordSafe_chars _ (ha w hw)).2
      simpa using fun e => this e.symm
    simp only [unitCommand, sdLex, hgo, hne, Bool.false_eq_true, if_false]

/-! ### `Environment="var=val"` -/

theorem env_not (c q : Char) (hq : q = '"') (h : envCharSafe c = true) :
    (c == q) = false ∧ (c == '\\' || c == '%' || c == '$') = false := by
  subst hq
  simp only [envCharSafe, Bool.not_eq_true', Bool.or_eq_false_iff] at h
  obtain ⟨⟨⟨⟨⟨h1, h2⟩, h3⟩, h4⟩, _⟩, _⟩ := h
  simp [h1, h2, h3, h4]

theorem sdGo_quoted (w : List Char) (h : w.all envCharSafe = true) (rest acc : List Char) :
    sdGo (w ++ rest) (some acc) (some '"') = sdGo rest (some (w.reverse ++ acc)) (some '"') := by
  induction w generalizing acc with
  | nil => rfl
  | cons c cs ih =>
    simp only [List.all_cons, Bool.and_eq_true] at h
    obtain ⟨h1, h2⟩ := env_not c '"' rfl h.1
    simp only [List.cons_append, sdGo, h1, h2, Bool.false_eq_true, if_false, Option.getD_some]
    rw [ih h.2]
    simp

/-- systemd reads one `Environment=` line written by `make_service` back as the one assignment
`var=val`, when neither string contains `"`, `\`, `%`, `$` or a line break (blanks are fine). -/
theorem environmentRead_line (var val : String) (hk : envStringSafe var = true) (hv : envStringSafe val = true) :
    environmentRead (environmentLine var val) = some [var ++ "=" ++ val] := by
  have hpre : (environmentLine var val).toList.drop "Environment=".length =
      '"' :: ((var ++ "=" ++ val).toList ++ ['"']) := by
    have : (environmentLine var val).toList = "Environment=".toList ++ ('"' :: ((var ++ "=" ++ val).toList ++ ['"'])) := by
      simp [environmentLine, String.toList_append]
    rw [this]
    have hl : "Environment=".length = "Environment=".toList.length := by decide
    rw [hl, List.drop_left]
  have hbody : (var ++ "=" ++ val).toList.all envCharSafe = true := by
    simp only [envStringSafe] at hk hv
    simp only [String.toList_append, List.all_append, hk, hv, Bool.true_and, Bool.and_true]
    decide
  unfold environmentRead
  rw [hpre]
  have h0 : sdGo ('"' :: ((var ++ "=" ++ val).toList ++ ['"'])) none none =
      sdGo ((var ++ "=" ++ val).toList ++ ['"']) (some []) (some '"') := by
    simp [sdGo, isWs]
  rw [h0, sdGo_quoted _ hbody]
  simp [sdGo, String.append_assoc]

end SafeNet.UnitFile
