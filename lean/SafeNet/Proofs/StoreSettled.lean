import SafeNet.Proofs.StoreKey
/-!
`KeyInv` is preserved by every step of a crash-free history that removes no key in flight
(`NoRemoveInFlightStep`), where the ghost `Want` follows the write / delete tasks each step spawns.
-/
namespace SafeNet.Store

variable {s : St} {w : Want}

/-! ## task completion -/

theorem KeyInv.runTask (h : KeyInv s w) (id : Nat) : KeyInv (runTask s id).1 w := by
  unfold SafeNet.Store.runTask
  split
  · exact h
  · rename_i t ht
    split
    · rename_i hlegal
      have hin := lookup_some_mem ht
      -- every other pending task keeps its place
      have hkeep : ∀ j t', (j, t') ∈ s.tasks → t' ≠ t → (j, t') ∈ erase id s.tasks := by
        intro j t' hm hne
        refine mem_erase.mpr ⟨hm, ?_⟩
        intro (e : j = id)
        subst e
        exact hne (pairwise_lt_unique h.tsorted hm hin)
      have hsub : ∀ e, e ∈ erase id s.tasks → e ∈ s.tasks := fun e he => (mem_erase.mp he).1
      have hts := pairwise_map_erase h.tsorted id
      have htl : ∀ e ∈ erase id s.tasks, e.1 < s.nextId := fun e he => h.tlt e (hsub e he)
      cases t with
      | write k0 v0 rt0 =>
        have hmin : ∀ j t, (j, t) ∈ s.tasks → taskKey t = some k0 → id ≤ j := by
          simp only [legalRun, taskKey, beq_iff_eq] at hlegal
          exact firstTaskOf_min h.tsorted hlegal
        have hnmem : ∀ e, e ∈ s.notes ++ [(id, (⟨k0, rt0⟩ : Note))] ↔ e ∈ s.notes ∨ e = (id, ⟨k0, rt0⟩) := by
          intro e; simp
        refine ⟨hts, htl, ?_, ?_, ?_, ?_, ?_, ?_, ?_, ?_⟩
        · intro e he
          rcases (hnmem e).mp he with he | rfl
          · exact h.nlt e he
          · exact h.tlt _ hin
        · simp only [List.map_append, List.map_cons, List.map_nil]
          rw [List.nodup_append]
          refine ⟨h.nnodup, by simp, ?_⟩
          intro a ha b hb
          simp only [List.mem_singleton] at hb
          obtain ⟨n, hn, rfl⟩ := List.mem_map.mp ha
          rw [hb]
          exact fun e => h.disj _ hin n hn e.symm
        · intro e he n hn
          rcases (hnmem n).mp hn with hn | rfl
          · exact h.disj e (hsub e he) n hn
          · exact (mem_erase.mp he).2
        · show (s.notes ++ [(id, (⟨k0, rt0⟩ : Note))]).Pairwise _
          rw [List.pairwise_append]
          refine ⟨h.nsorted, by simp, ?_⟩
          intro a ha b hb
          simp only [List.mem_singleton] at hb
          subst hb
          intro hk
          obtain ⟨j, n⟩ := a
          obtain ⟨k, rt⟩ := n
          simp only at hk
          subst hk
          exact h.nbefore j k rt ha id v0 rt0 hin
        · intro j k rt hj i v rt' hi
          have hi' := mem_erase.mp hi
          rcases (hnmem _).mp hj with hj | hj
          · exact h.nbefore j k rt hj i v rt' hi'.1
          · cases hj
            have := hmin i _ hi'.1 rfl
            have hne : i ≠ id := hi'.2
            omega
        · intro j k hj i v rt hi
          exact h.delBefore j k (hsub _ hj) i v rt (hsub _ hi)
        · intro k hk
          obtain ⟨h1, h2, h3, h4⟩ := h.absent k hk
          have hkk : k ≠ k0 := by
            intro e; subst e; exact h1 (.inl ⟨id, v0, rt0, hin⟩)
          refine ⟨?_, h2, h3, ?_⟩
          · rintro (⟨i, v, rt, hm⟩ | ⟨i, rt, hm⟩)
            · exact h1 (.inl ⟨i, v, rt, hsub _ hm⟩)
            · rcases (hnmem _).mp hm with hm | hm
              · exact h1 (.inr ⟨i, rt, hm⟩)
              · cases hm; exact hkk rfl
          · intro hd
            have hd' : lookup k s.disk ≠ none := by
              intro e; apply hd
              show lookup k (insert k0 (File.full v0) s.disk) = none
              rw [lookup_insert_ne hkk]; exact e
            obtain ⟨j, hj⟩ := h4 hd'
            exact ⟨j, hkeep j _ hj (by intro e; cases e)⟩
        · intro k v rt i hk
          obtain ⟨h1, h2, h3, h4⟩ := h.present k v rt i hk
          refine ⟨h1, fun j v' rt' hj => h2 j v' rt' (hsub _ hj), ?_, ?_⟩
          · intro j rt' hj
            rcases (hnmem _).mp hj with hj | hj
            · exact h3 j rt' hj
            · cases hj; exact h2 id v0 rt0 hin
          · by_cases hkk : k = k0
            · subst hkk
              rcases h4 with h4 | ⟨_, b, _⟩ | ⟨a, _⟩
              · by_cases hi : i = id
                · subst hi
                  have := pairwise_lt_unique h.tsorted h4 hin
                  cases this
                  refine .inr (.inl ⟨(hnmem _).mpr (.inr rfl), ?_, lookup_insert_self _ _ _, ?_⟩)
                  · rintro ⟨j, v', rt', hj⟩
                    have hj' := mem_erase.mp hj
                    have h5 := h2 j v' rt' hj'.1
                    have h6 := hmin j _ hj'.1 rfl
                    have hne : j ≠ i := hj'.2
                    omega
                  · rintro ⟨j, hj⟩
                    have hj' := hsub _ hj
                    have h5 := h.delBefore j k hj' i _ _ hin
                    have h6 := hmin j _ hj' rfl
                    omega
                · refine .inl (mem_erase.mpr ⟨h4, hi⟩)
              · exact absurd ⟨id, v0, rt0, hin⟩ b
              · exact absurd ⟨id, v0, rt0, hin⟩ a
            · have hdisk : lookup k (insert k0 (File.full v0) s.disk) = lookup k s.disk := lookup_insert_ne hkk _ _
              have hw' : ¬ hasWrite s k → ¬ hasWrite { s with tasks := erase id s.tasks, disk := insert k0 (.full v0) s.disk, notes := s.notes ++ [(id, ⟨k0, rt0⟩)] } k :=
                fun hnw ⟨j, v', rt', hm⟩ => hnw ⟨j, v', rt', hsub _ hm⟩
              have hd' : ¬ hasDelete s k → ¬ hasDelete { s with tasks := erase id s.tasks, disk := insert k0 (.full v0) s.disk, notes := s.notes ++ [(id, ⟨k0, rt0⟩)] } k :=
                fun hnd ⟨j, hm⟩ => hnd ⟨j, hsub _ hm⟩
              rcases h4 with h4 | ⟨a, b, c, d⟩ | ⟨a, b, c, d, e⟩
              · exact .inl (hkeep _ _ h4 (by intro e; cases e; exact hkk rfl))
              · exact .inr (.inl ⟨(hnmem _).mpr (.inl a), hw' b, hdisk.trans c, hd' d⟩)
              · refine .inr (.inr ⟨hw' a, ?_, hdisk.trans c, d, hd' e⟩)
                rintro ⟨j, rt', hm⟩
                rcases (hnmem _).mp hm with hm | hm
                · exact b ⟨j, rt', hm⟩
                · cases hm; exact hkk rfl
      | delete k0 =>
        have hmin : ∀ j t, (j, t) ∈ s.tasks → taskKey t = some k0 → id ≤ j := by
          simp only [legalRun, taskKey, beq_iff_eq] at hlegal
          exact firstTaskOf_min h.tsorted hlegal
        refine ⟨hts, htl, h.nlt, h.nnodup, fun e he => h.disj e (hsub e he), h.nsorted, ?_, ?_, ?_, ?_⟩
        · intro j k rt hj i v rt' hi; exact h.nbefore j k rt hj i v rt' (hsub _ hi)
        · intro j k hj i v rt hi; exact h.delBefore j k (hsub _ hj) i v rt (hsub _ hi)
        · intro k hk
          obtain ⟨h1, h2, h3, h4⟩ := h.absent k hk
          refine ⟨?_, h2, h3, ?_⟩
          · rintro (⟨i, v, rt, hm⟩ | hn)
            · exact h1 (.inl ⟨i, v, rt, hsub _ hm⟩)
            · exact h1 (.inr hn)
          · intro hd
            by_cases hkk : k = k0
            · subst hkk
              exact absurd (lookup_erase_self k s.disk) hd
            · have hd' : lookup k s.disk ≠ none := by
                intro e; apply hd
                show lookup k (erase k0 s.disk) = none
                rw [lookup_erase_ne hkk]; exact e
              obtain ⟨j, hj⟩ := h4 hd'
              exact ⟨j, hkeep j _ hj (by intro e; cases e; exact hkk rfl)⟩
        · intro k v rt i hk
          obtain ⟨h1, h2, h3, h4⟩ := h.present k v rt i hk
          refine ⟨h1, fun j v' rt' hj => h2 j v' rt' (hsub _ hj), h3, ?_⟩
          have hw' : ¬ hasWrite s k → ¬ hasWrite { s with tasks := erase id s.tasks, disk := erase k0 s.disk } k :=
            fun hnw ⟨j, v', rt', hm⟩ => hnw ⟨j, v', rt', hsub _ hm⟩
          have hd' : ¬ hasDelete s k → ¬ hasDelete { s with tasks := erase id s.tasks, disk := erase k0 s.disk } k :=
            fun hnd ⟨j, hm⟩ => hnd ⟨j, hsub _ hm⟩
          rcases h4 with h4 | ⟨a, b, c, d⟩ | ⟨a, b, c, d, e⟩
          · exact .inl (hkeep _ _ h4 (by intro e; cases e))
          · have hkk : k ≠ k0 := by intro e; subst e; exact d ⟨id, hin⟩
            exact .inr (.inl ⟨a, hw' b, (lookup_erase_ne hkk _).trans c, hd' d⟩)
          · have hkk : k ≠ k0 := by intro e'; subst e'; exact e ⟨id, hin⟩
            exact .inr (.inr ⟨hw' a, b, (lookup_erase_ne hkk _).trans c, d, hd' e⟩)
      | flush n =>
        refine ⟨hts, htl, h.nlt, h.nnodup, fun e he => h.disj e (hsub e he), h.nsorted, ?_, ?_, ?_, ?_⟩
        · intro j k rt hj i v rt' hi; exact h.nbefore j k rt hj i v rt' (hsub _ hi)
        · intro j k hj i v rt hi; exact h.delBefore j k (hsub _ hj) i v rt (hsub _ hi)
        · intro k hk
          obtain ⟨h1, h2, h3, h4⟩ := h.absent k hk
          refine ⟨?_, h2, h3, ?_⟩
          · rintro (⟨i, v, rt, hm⟩ | hn)
            · exact h1 (.inl ⟨i, v, rt, hsub _ hm⟩)
            · exact h1 (.inr hn)
          · intro hd
            obtain ⟨j, hj⟩ := h4 hd
            exact ⟨j, hkeep j _ hj (by intro e; cases e)⟩
        · intro k v rt i hk
          obtain ⟨h1, h2, h3, h4⟩ := h.present k v rt i hk
          refine ⟨h1, fun j v' rt' hj => h2 j v' rt' (hsub _ hj), h3, ?_⟩
          have hw' : ¬ hasWrite s k → ¬ hasWrite { s with tasks := erase id s.tasks, hist := some n } k :=
            fun hnw ⟨j, v', rt', hm⟩ => hnw ⟨j, v', rt', hsub _ hm⟩
          have hd' : ¬ hasDelete s k → ¬ hasDelete { s with tasks := erase id s.tasks, hist := some n } k :=
            fun hnd ⟨j, hm⟩ => hnd ⟨j, hsub _ hm⟩
          rcases h4 with h4 | ⟨a, b, c, d⟩ | ⟨a, b, c, d, e⟩
          · exact .inl (hkeep _ _ h4 (by intro e; cases e))
          · exact .inr (.inl ⟨a, hw' b, c, hd' d⟩)
          · exact .inr (.inr ⟨hw' a, b, c, d, hd' e⟩)
    · exact h

/-! ## notification delivery -/

theorem KeyInv.deliver (dist : Nat → Nat) (h : KeyInv s w) (id : Nat) : KeyInv (deliver dist s id).1 w := by
  unfold SafeNet.Store.deliver
  split
  · exact h
  · rename_i n hn
    split
    · rename_i hlegal
      obtain ⟨k0, rt0⟩ := n
      have hin := lookup_some_mem hn
      have hmin : ∀ j n, (j, n) ∈ s.notes → n.k = k0 → id ≤ j := by
        simp only [legalDeliver, beq_iff_eq] at hlegal
        exact firstNoteOf_min h.nsorted hlegal
      have hsub : ∀ e, e ∈ erase id s.notes → e ∈ s.notes := fun e he => (mem_erase.mp he).1
      have hkeep : ∀ j n', (j, n') ∈ s.notes → n' ≠ (⟨k0, rt0⟩ : Note) → (j, n') ∈ erase id s.notes := by
        intro j n' hm hne
        refine mem_erase.mpr ⟨hm, ?_⟩
        intro (e : j = id)
        subst e
        exact hne (nodup_unique h.nnodup hm hin)
      have hidx : ∀ k, k ≠ k0 → lookup k (insert k0 rt0 s.index) = lookup k s.index :=
        fun k hk => lookup_insert_ne hk _ _
      refine ⟨h.tsorted, h.tlt, fun e he => h.nlt e (hsub e he), nodup_map_erase h.nnodup id,
        fun e he n hn => h.disj e he n (hsub n hn), pairwise_erase h.nsorted id, ?_, h.delBefore, ?_, ?_⟩
      · intro j k rt hj i v rt' hi; exact h.nbefore j k rt (hsub _ hj) i v rt' hi
      · intro k hk
        obtain ⟨h1, h2, h3, h4⟩ := h.absent k hk
        have hkk : k ≠ k0 := by
          intro e; subst e; exact h1 (.inr ⟨id, rt0, hin⟩)
        refine ⟨?_, (hidx k hkk).trans h2, h3, h4⟩
        rintro (hw | ⟨i, rt, hm⟩)
        · exact h1 (.inl hw)
        · exact h1 (.inr ⟨i, rt, hsub _ hm⟩)
      · intro k v rt i hk
        obtain ⟨h1, h2, h3, h4⟩ := h.present k v rt i hk
        refine ⟨h1, h2, fun j rt' hj => h3 j rt' (hsub _ hj), ?_⟩
        have hnn' : ¬ hasNote s k → ¬ hasNote (markAsStored dist { s with notes := erase id s.notes } k0 rt0) k :=
          fun hnn ⟨j, rt', hm⟩ => hnn ⟨j, rt', hsub _ hm⟩
        by_cases hkk : k = k0
        · subst hkk
          rcases h4 with h4 | ⟨a, b, c, d⟩ | ⟨_, b, _⟩
          · exact .inl h4
          · by_cases hi : i = id
            · subst hi
              have := nodup_unique h.nnodup a hin
              cases this
              refine .inr (.inr ⟨b, ?_, c, lookup_insert_self _ _ _, d⟩)
              rintro ⟨j, rt', hj⟩
              have hj' := mem_erase.mp hj
              have h5 := h3 j rt' hj'.1
              have h6 := hmin j _ hj'.1 rfl
              have hne : j ≠ i := hj'.2
              omega
            · exact .inr (.inl ⟨mem_erase.mpr ⟨a, hi⟩, b, c, d⟩)
          · exact absurd ⟨id, rt0, hin⟩ b
        · rcases h4 with h4 | ⟨a, b, c, d⟩ | ⟨a, b, c, d, e⟩
          · exact .inl h4
          · exact .inr (.inl ⟨hkeep _ _ a (by intro e; cases e; exact hkk rfl), b, c, d⟩)
          · exact .inr (.inr ⟨a, hnn' b, c, (hidx k hkk).trans d, e⟩)
    · exact h

end SafeNet.Store
