import SafeNet.Model.StoreFault
import SafeNet.Proofs.StoreHistory
/-!
Histories under the RELAXED legality (`RelaxedOp`: a spawned task may run although an older task of the same key is
pending): the ghost "last store-changing event" and the hypothesis `NoRemoveWhileInFlight` carried over to them, and
the embedding of per-key-FIFO histories.
-/
namespace SafeNet.Store

/-- `wantFrom` for relaxed histories: a task that runs spawns nothing -/
def rwantFrom (cfg : Cfg) (dist : Nat → Nat) : St → Want → List RelaxedOp → Want
  | _, w, [] => w
  | s, w, .base op :: ops => rwantFrom cfg dist (step cfg dist s op).1 (wantStep cfg dist s w op) ops
  | s, w, .runAny id :: ops => rwantFrom cfg dist (runTaskAny s id).1 w ops

/-- the last store-changing event on each key after a relaxed history from a fresh store -/
def rlastEvent (cfg : Cfg) (dist : Nat → Nat) (rops : List RelaxedOp) : Want :=
  rwantFrom cfg dist (init cfg dist) (fun _ => none) rops

/-- `NoRemoveWhileInFlight` for relaxed histories -/
def RNoRemoveWhileInFlight (cfg : Cfg) (dist : Nat → Nat) : St → List RelaxedOp → Prop
  | _, [] => True
  | s, .base op :: ops =>
    isCrash op = false ∧ NoRemoveInFlightStep cfg dist s op ∧ RNoRemoveWhileInFlight cfg dist (step cfg dist s op).1 ops
  | s, .runAny id :: ops => RNoRemoveWhileInFlight cfg dist (runTaskAny s id).1 ops

def rnrwifB (cfg : Cfg) (dist : Nat → Nat) : St → List RelaxedOp → Bool
  | _, [] => true
  | s, .base op :: ops => !isCrash op && stepOkB cfg dist s op && rnrwifB cfg dist (step cfg dist s op).1 ops
  | s, .runAny id :: ops => rnrwifB cfg dist (runTaskAny s id).1 ops

theorem rnrwifB_sound (cfg : Cfg) (dist : Nat → Nat) (rops : List RelaxedOp) (s : St)
    (h : rnrwifB cfg dist s rops = true) : RNoRemoveWhileInFlight cfg dist s rops := by
  induction rops generalizing s with
  | nil => trivial
  | cons rop rops ih =>
    cases rop with
    | runAny id => exact ih _ h
    | base op =>
      simp only [rnrwifB, Bool.and_eq_true, Bool.not_eq_eq_eq_not, Bool.not_true] at h
      refine ⟨h.1.1, ?_, ih _ h.2⟩
      intro hsp j k hm
      have h2 := h.1.2
      simp only [stepOkB, hsp, Bool.not_true, Bool.false_or, List.all_eq_true] at h2
      have := h2 _ hm
      simp only [Bool.not_eq_eq_eq_not, Bool.not_true] at this
      exact inFlightKey_of_not_B this

/-! ## per-key-FIFO histories are relaxed histories without `runAny` -/

theorem rrunFrom_base (cfg : Cfg) (dist : Nat → Nat) (ops : List Op) (s : St) :
    rrunFrom cfg dist s (ops.map .base) = runFrom cfg dist s ops := by
  induction ops generalizing s with
  | nil => rfl
  | cons op ops ih => simp only [List.map_cons, rrunFrom, rstep, runFrom]; exact ih _

theorem rrun_base (cfg : Cfg) (dist : Nat → Nat) (ops : List Op) : rrun cfg dist (ops.map .base) = run cfg dist ops :=
  rrunFrom_base cfg dist ops _

theorem rwantFrom_base (cfg : Cfg) (dist : Nat → Nat) (ops : List Op) (s : St) (w : Want) :
    rwantFrom cfg dist s w (ops.map .base) = wantFrom cfg dist s w ops := by
  induction ops generalizing s w with
  | nil => rfl
  | cons op ops ih => simp only [List.map_cons, rwantFrom, wantFrom]; exact ih _ _

theorem rlastEvent_base (cfg : Cfg) (dist : Nat → Nat) (ops : List Op) :
    rlastEvent cfg dist (ops.map .base) = lastEvent cfg dist ops :=
  rwantFrom_base cfg dist ops _ _

end SafeNet.Store
