import SafeNet.Proofs.StoreIds
/-!
Capacity accounting across restarts. A stop forgets the pending tasks; the start-up scan then re-indexes every record
file it can decrypt and does not enforce `max_records`. Every file deletion that was still pending when the node stopped
can therefore bring one record back: with every put acknowledged before the next put, listed records plus writes /
notifications in flight never exceed `max max_records 1` **plus the number of file deletions lost in crashes**.
-/
namespace SafeNet.Store

/-- keys of the pending delete tasks, in spawn order -/
def delKeys (ts : List (Nat × Task)) : List Nat :=
  ts.filterMap (fun t => match t.2 with | .delete k => some k | _ => none)

/-- keys of the pending write tasks, in spawn order -/
def wrKeys (ts : List (Nat × Task)) : List Nat :=
  ts.filterMap (fun t => match t.2 with | .write k _ _ => some k | _ => none)

/-- file deletions still pending -/
def pendDel (s : St) : Nat := (delKeys s.tasks).length

theorem mem_delKeys {ts : List (Nat × Task)} {k : Nat} : k ∈ delKeys ts ↔ ∃ j, (j, Task.delete k) ∈ ts := by
  simp only [delKeys, List.mem_filterMap]
  constructor
  · rintro ⟨⟨j, t⟩, hm, h⟩
    cases t <;> simp at h
    subst h; exact ⟨j, hm⟩
  · rintro ⟨j, hm⟩; exact ⟨_, hm, rfl⟩

theorem mem_wrKeys {ts : List (Nat × Task)} {k : Nat} : k ∈ wrKeys ts ↔ ∃ j v rt, (j, Task.write k v rt) ∈ ts := by
  simp only [wrKeys, List.mem_filterMap]
  constructor
  · rintro ⟨⟨j, t⟩, hm, h⟩
    cases t <;> simp at h
    subst h; exact ⟨j, _, _, hm⟩
  · rintro ⟨j, v, rt, hm⟩; exact ⟨_, hm, rfl⟩

theorem length_wrKeys (ts : List (Nat × Task)) : (wrKeys ts).length = (ts.filter (fun t => isWrite t.2)).length := by
  induction ts with
  | nil => rfl
  | cons x xs ih =>
    obtain ⟨j, t⟩ := x
    cases t <;> simp [wrKeys, List.filterMap_cons, List.filter_cons] <;> simpa [wrKeys] using ih

/-- a duplicate-free list inside another list is no longer than it -/
theorem length_le_of_nodup_subset : ∀ {l m : List Nat}, l.Nodup → (∀ a ∈ l, a ∈ m) → l.length ≤ m.length
  | [], _, _, _ => Nat.zero_le _
  | a :: l, m, hn, hs => by
    have ha : a ∈ m := hs a (List.mem_cons_self ..)
    obtain ⟨hnot, hn'⟩ := List.nodup_cons.mp hn
    have hsub : ∀ b ∈ l, b ∈ m.erase a := by
      intro b hb
      have hne : b ≠ a := fun e => hnot (e ▸ hb)
      exact (List.mem_erase_of_ne hne).mpr (hs b (List.mem_cons_of_mem _ hb))
    have ih := length_le_of_nodup_subset hn' hsub
    have hl := List.length_erase_of_mem ha
    have hpos : 0 < m.length := List.length_pos_of_mem ha
    simp only [List.length_cons]
    omega

theorem mem_keys_tearFold (s : St) {k : Nat} (torn : List (Nat × Nat)) (d : List (Nat × File))
    (h : k ∈ keys (torn.foldl (fun d t =>
        match lookup t.1 s.tasks with
        | some (.write k v _) => insert k (.torn v t.2) d
        | _ => d) d)) : k ∈ keys d ∨ k ∈ wrKeys s.tasks := by
  induction torn generalizing d with
  | nil => exact .inl h
  | cons t ts ih =>
    simp only [List.foldl_cons] at h
    rcases ih _ h with hd' | hd'
    · split at hd'
      · rename_i k' v' rt' ht
        rcases mem_keys_insert.mp hd' with rfl | ⟨hd', _⟩
        · exact .inr (mem_wrKeys.mpr ⟨_, _, _, lookup_some_mem ht⟩)
        · exact .inl hd'
      · exact .inl hd'
    · exact .inr hd'

/-- a torn write only adds a file for the key of a pending write -/
theorem mem_keys_crashDisk {s : St} (torn : List (Nat × Nat)) {k : Nat} (h : k ∈ keys (crashDisk s torn)) :
    k ∈ keys s.disk ∨ k ∈ wrKeys s.tasks :=
  mem_keys_tearFold s torn s.disk h

/-- what a start-up scan can list: no more than the records listed before the stop, the notifications and writes in
flight, and the file deletions that were still pending -/
theorem scanIndex_length_le {s : St} (cfg : Cfg) (hd : DiskCov s) (hk : DiskOK s) (torn : List (Nat × Nat)) :
    (scanIndex cfg (crashDisk s torn)).length ≤ s.index.length + inflight s + pendDel s := by
  have hnd : (keys (scanIndex cfg (crashDisk s torn))).Nodup :=
    (keys_scanIndex_sublist cfg _).nodup (nodup_crashDisk hk torn)
  have hsub : ∀ k ∈ keys (scanIndex cfg (crashDisk s torn)),
      k ∈ keys s.index ++ s.notes.map (·.2.k) ++ delKeys s.tasks ++ wrKeys s.tasks := by
    intro k hk'
    have h1 := (keys_scanIndex_sublist cfg _).subset hk'
    simp only [List.mem_append]
    rcases mem_keys_crashDisk torn h1 with h2 | h2
    · rcases hd k h2 with h3 | ⟨i, rt, h3⟩ | h3
      · exact .inl (.inl (.inl h3))
      · exact .inl (.inl (.inr (List.mem_map.mpr ⟨_, h3, rfl⟩)))
      · exact .inl (.inr (mem_delKeys.mpr h3))
    · exact .inr h2
  have := length_le_of_nodup_subset hnd hsub
  simp only [keys, List.length_map, List.length_append, length_wrKeys] at this
  simp only [inflight, pendDel]
  omega

/-- the stop-and-restart step: the allowance grows by the file deletions that were still pending -/
theorem CapInvL.crash {cfg : Cfg} {L : Nat} {dist : Nat → Nat} {s : St} (h : CapInvL cfg L s) (hd : DiskCov s) (hk : DiskOK s)
    (torn : List (Nat × Nat)) :
    CapInvL cfg (L + pendDel s) (restart cfg dist (crashDisk s torn) s.hist s.nextId) := by
  unfold CapInvL at *
  have h1 := scanIndex_length_le cfg hd hk torn
  have h2 : inflight (restart cfg dist (crashDisk s torn) s.hist s.nextId) = 0 := by
    simp [inflight, restart_tasks, restart]
  rw [h2]
  show (scanIndex cfg (crashDisk s torn)).length + 0 ≤ _
  omega

/-- file deletions lost by this step: those pending when the node stops -/
def lostAt (s : St) : Op → Nat
  | .crash torn => if torn.all (tearOk s) then pendDel s else 0
  | _ => 0

/-- file deletions lost in the crashes of a history -/
def lostDeletes (cfg : Cfg) (dist : Nat → Nat) : St → List Op → Nat
  | _, [] => 0
  | s, op :: ops => lostAt s op + lostDeletes cfg dist (step cfg dist s op).1 ops

/-- every put happens with no write or notification in flight (the node may stop and restart at any point) -/
def AckBeforePutC (cfg : Cfg) (dist : Nat → Nat) : St → List Op → Prop
  | _, [] => True
  | s, op :: ops => (isPut op = true → inflight s = 0) ∧ AckBeforePutC cfg dist (step cfg dist s op).1 ops

theorem AckBeforePut.toC {cfg : Cfg} {dist : Nat → Nat} {s : St} {ops : List Op} (h : AckBeforePut cfg dist s ops) :
    AckBeforePutC cfg dist s ops := by
  induction ops generalizing s with
  | nil => trivial
  | cons op ops ih => exact ⟨h.1, ih h.2.2⟩

theorem lostDeletes_of_noCrash {cfg : Cfg} {dist : Nat → Nat} {s : St} {ops : List Op} (h : AckBeforePut cfg dist s ops) :
    lostDeletes cfg dist s ops = 0 := by
  induction ops generalizing s with
  | nil => rfl
  | cons op ops ih =>
    obtain ⟨_, hc, hr⟩ := h
    simp only [lostDeletes, ih hr, Nat.add_zero]
    cases op <;> simp [lostAt, isCrash] at hc ⊢

structure Reach (dist : Nat → Nat) (s : St) : Prop where
  views : Views dist s
  ids : Ids s
  cov : DiskCov s
  disk : DiskOK s

theorem Reach.step {cfg : Cfg} {dist : Nat → Nat} (inj : Injective dist) {s : St} (h : Reach dist s) (op : Op) :
    Reach dist (SafeNet.Store.step cfg dist s op).1 :=
  ⟨h.views.step inj op, h.ids.step cfg dist op, h.cov.step cfg dist h.ids op, h.disk.step cfg dist op⟩

theorem Reach.init (cfg : Cfg) {dist : Nat → Nat} (inj : Injective dist) : Reach dist (init cfg dist) :=
  ⟨Views.init cfg inj, Ids.init cfg dist, DiskCov.init cfg dist, by simp [DiskOK, SafeNet.Store.init, restart, keys]⟩

theorem CapInvL.stepC {cfg : Cfg} {L : Nat} {dist : Nat → Nat} {s : St} (hr : Reach dist s) (h : CapInvL cfg L s) (op : Op)
    (hp : isPut op = true → inflight s = 0) : CapInvL cfg (L + lostAt s op) (SafeNet.Store.step cfg dist s op).1 := by
  by_cases hc : isCrash op = false
  · have : lostAt s op = 0 := by cases op <;> simp [lostAt, isCrash] at hc ⊢
    rw [this, Nat.add_zero]
    exact CapInvL.step hr.views h op hp hc
  · cases op with
    | crash torn =>
      simp only [SafeNet.Store.step, lostAt]
      split
      · exact h.crash hr.cov hr.disk torn
      · rw [Nat.add_zero]; exact h
    | _ => simp [isCrash] at hc

theorem CapInvL.runFromC {cfg : Cfg} {dist : Nat → Nat} (inj : Injective dist) (ops : List Op) {s : St} {L : Nat}
    (hr : Reach dist s) (h : CapInvL cfg L s) (ha : AckBeforePutC cfg dist s ops) :
    CapInvL cfg (L + lostDeletes cfg dist s ops) (runFrom cfg dist s ops) := by
  induction ops generalizing s L with
  | nil => simpa [lostDeletes, runFrom] using h
  | cons op ops ih =>
    obtain ⟨hp, hrest⟩ := ha
    have := ih (hr.step (cfg := cfg) inj op) (h.stepC hr op hp) hrest
    simp only [lostDeletes, runFrom]
    rw [← Nat.add_assoc]
    exact this

end SafeNet.Store
