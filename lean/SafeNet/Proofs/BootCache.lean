import SafeNet.Model.BootCache
/-! Helper lemmas for C18 (bootstrap cache). Core Lean only. -/
namespace SafeNet.BootCache
open SafeNet.Gen.BootCache

/-- at most `max_peers` peers, at most `max_addrs_per_peer` addresses each -/
def Bounded (cfg : Cfg) (c : Cache) : Prop :=
  c.length ≤ cfg.maxPeers ∧ ∀ e ∈ c, e.2.length ≤ cfg.maxAddrs

/-- every address is dialable and carries the peer id it is filed under -/
def WF (c : Cache) : Prop := ∀ e ∈ c, ∀ a ∈ e.2, dialable a.ma = some e.1

/-! ### association-list basics -/

theorem lookup_mem {p : Nat} {c : Cache} {l : List Addr} (h : lookup p c = some l) : (p, l) ∈ c := by
  induction c with
  | nil => simp [lookup] at h
  | cons e t ih =>
    simp only [lookup] at h
    split at h
    · rename_i he
      cases e with
      | mk q l' =>
        simp at he h
        subst he; subst h
        simp
    · exact List.mem_cons_of_mem _ (ih h)

theorem lookup_none_iff {p : Nat} {c : Cache} : lookup p c = none ↔ p ∉ keys c := by
  induction c with
  | nil => simp [lookup, keys]
  | cons e t ih =>
    simp only [lookup, keys, List.map_cons, List.mem_cons, not_or]
    split
    · rename_i he; simp [he]
    · rename_i he
      simp only [keys] at ih
      rw [ih]
      constructor
      · intro h; exact ⟨fun h' => he h'.symm, h⟩
      · intro h; exact h.2

theorem lookup_isSome_iff {p : Nat} {c : Cache} : (lookup p c).isSome ↔ p ∈ keys c := by
  have := @lookup_none_iff p c
  cases h : lookup p c with
  | none => simp [h] at this; simp [this]
  | some l =>
    simp
    false_or_by_contra
    rename_i hn
    have := this.mpr hn
    simp [h] at this

theorem mem_setKey {p : Nat} {l : List Addr} {c : Cache} {e : Nat × List Addr}
    (h : e ∈ setKey p l c) : e ∈ c ∨ e = (p, l) := by
  simp only [setKey, List.mem_map] at h
  obtain ⟨e0, he0, rfl⟩ := h
  split
  · right; rfl
  · left; exact he0

theorem length_setKey (p : Nat) (l : List Addr) (c : Cache) : (setKey p l c).length = c.length := by
  simp [setKey]

theorem keys_setKey (p : Nat) (l : List Addr) (c : Cache) : keys (setKey p l c) = keys c := by
  simp only [keys, setKey, List.map_map]
  apply List.map_congr_left
  intro e _
  simp only [Function.comp]
  split
  · rename_i h; exact h.symm
  · rfl

theorem lookup_setKey_self {p : Nat} {l : List Addr} {c : Cache} (h : p ∈ keys c) :
    lookup p (setKey p l c) = some l := by
  induction c with
  | nil => simp [keys] at h
  | cons e t ih =>
    simp only [setKey, List.map_cons, lookup]
    by_cases he : e.1 = p
    · simp [he]
    · simp only [he, if_false]
      simp only [keys, List.map_cons, List.mem_cons] at h
      have ht : p ∈ keys t := by
        rcases h with h | h
        · exact absurd h.symm he
        · exact h
      exact ih ht

theorem lookup_setKey_other {p q : Nat} {l : List Addr} {c : Cache} (h : q ≠ p) :
    lookup q (setKey p l c) = lookup q c := by
  induction c with
  | nil => simp [setKey, lookup]
  | cons e t ih =>
    simp only [setKey, List.map_cons, lookup]
    by_cases he : e.1 = p
    · have hq : ¬ p = q := fun h' => h h'.symm
      have hq' : ¬ e.1 = q := by rw [he]; exact hq
      simp only [he, if_true, hq, if_false]
      exact ih
    · simp only [he, if_false]
      split
      · rfl
      · exact ih

theorem lookup_append_new {p q : Nat} {l : List Addr} {c : Cache} (hp : lookup p c = none) :
    lookup q (c ++ [(p, l)]) = if q = p then some l else lookup q c := by
  induction c with
  | nil =>
    simp only [List.nil_append, lookup]
    by_cases h : p = q
    · simp [h]
    · have : ¬ q = p := fun h' => h h'.symm
      simp [h, this]
  | cons e t ih =>
    simp only [lookup] at hp
    split at hp
    · simp at hp
    · rename_i he
      simp only [List.cons_append, lookup]
      by_cases heq : e.1 = q
      · have : ¬ q = p := by rw [← heq]; exact he
        simp [heq, this]
      · simp only [heq, if_false]
        exact ih hp

/-! ### eviction -/

theorem length_eraseKey_le (p : Nat) (c : Cache) : (eraseKey p c).length ≤ c.length := by
  simp only [eraseKey]; exact List.length_filter_le _ _

theorem length_eraseKey_lt {p : Nat} {c : Cache} (h : p ∈ keys c) : (eraseKey p c).length < c.length := by
  induction c with
  | nil => simp [keys] at h
  | cons e t ih =>
    by_cases he : e.1 = p
    · have h1 : eraseKey p (e :: t) = eraseKey p t := by simp [eraseKey, he]
      rw [h1]
      have := length_eraseKey_le p t
      simp only [List.length_cons]
      omega
    · have h1 : eraseKey p (e :: t) = e :: eraseKey p t := by simp [eraseKey, he]
      rw [h1]
      simp only [keys, List.map_cons, List.mem_cons] at h
      have ht : p ∈ keys t := by
        rcases h with h | h
        · exact absurd h.symm he
        · exact h
      have := ih ht
      simp only [List.length_cons]
      omega

theorem mem_eraseKey {p : Nat} {c : Cache} {e : Nat × List Addr} (h : e ∈ eraseKey p c) : e ∈ c := by
  simp only [eraseKey, List.mem_filter] at h; exact h.1

theorem oldest_none {now : Nat} {c : Cache} (h : oldest now c = none) : c = [] := by
  cases c with
  | nil => rfl
  | cons e t =>
    simp only [oldest] at h
    split at h
    · simp at h
    · split at h <;> simp at h

theorem oldest_mem {now : Nat} {c : Cache} {q a : Nat} (h : oldest now c = some (q, a)) : q ∈ keys c := by
  induction c generalizing q a with
  | nil => simp [oldest] at h
  | cons e t ih =>
    simp only [oldest] at h
    simp only [keys, List.map_cons, List.mem_cons]
    split at h
    · simp at h; left; exact h.1.symm
    · rename_i q' a' ho
      split at h
      · simp at h; left; exact h.1.symm
      · simp at h
        right
        have := ih ho
        simp only [keys] at this
        rw [← h.1]; exact this

theorem pickOldest_none {ch : List Nat} {now : Nat} {c : Cache} (h : pickOldest ch now c = none) : c = [] := by
  simp only [pickOldest] at h
  split at h
  · simp at h
  · cases ho : oldest now c with
    | none => exact oldest_none ho
    | some x => simp [ho] at h

theorem pickOldest_mem {ch : List Nat} {now : Nat} {c : Cache} {p : Nat}
    (h : pickOldest ch now c = some p) : p ∈ keys c := by
  simp only [pickOldest] at h
  split at h
  · rename_i q hq
    simp at h; subst h
    have := List.find?_some hq
    simp only [isOldest] at this
    split at this
    · rename_i l _ _ hl _
      apply lookup_isSome_iff.mp
      simp [hl]
    · simp at this
  · cases ho : oldest now c with
    | none => simp [ho] at h
    | some x =>
      cases x with
      | mk q a =>
        simp [ho] at h
        subst h
        exact oldest_mem ho

theorem evictLoop_length (cfg : Cfg) (ch : List Nat) (now : Nat) :
    ∀ (fuel : Nat) (c : Cache), c.length ≤ fuel → (evictLoop cfg ch now fuel c).length ≤ cfg.maxPeers := by
  intro fuel
  induction fuel with
  | zero =>
    intro c h
    simp only [evictLoop]
    omega
  | succ n ih =>
    intro c h
    simp only [evictLoop]
    split
    · split
      · rename_i hp
        have := pickOldest_none hp
        subst this
        simp
      · rename_i p hp
        apply ih
        have := length_eraseKey_lt (pickOldest_mem hp)
        omega
    · rename_i hn
      simp only [peersOverCmp, decide_eq_true_eq] at hn
      omega

theorem evictLoop_mem (cfg : Cfg) (ch : List Nat) (now : Nat) :
    ∀ (fuel : Nat) (c : Cache) (e : Nat × List Addr), e ∈ evictLoop cfg ch now fuel c → e ∈ c := by
  intro fuel
  induction fuel with
  | zero => intro c e h; simpa [evictLoop] using h
  | succ n ih =>
    intro c e h
    simp only [evictLoop] at h
    split at h
    · split at h
      · exact h
      · exact mem_eraseKey (ih _ _ h)
    · exact h

theorem evictLoop_length_le (cfg : Cfg) (ch : List Nat) (now : Nat) :
    ∀ (fuel : Nat) (c : Cache), (evictLoop cfg ch now fuel c).length ≤ c.length := by
  intro fuel
  induction fuel with
  | zero => intro c; simp [evictLoop]
  | succ n ih =>
    intro c
    simp only [evictLoop]
    split
    · split
      · exact Nat.le_refl _
      · exact Nat.le_trans (ih _) (length_eraseKey_le _ _)
    · exact Nat.le_refl _

theorem removeOldest_length (cfg : Cfg) (ch : List Nat) (now : Nat) (c : Cache) :
    (removeOldest cfg ch now c).length ≤ cfg.maxPeers :=
  evictLoop_length cfg ch now c.length c (Nat.le_refl _)

theorem removeOldest_mem {cfg : Cfg} {ch : List Nat} {now : Nat} {c : Cache} {e : Nat × List Addr}
    (h : e ∈ removeOldest cfg ch now c) : e ∈ c :=
  evictLoop_mem cfg ch now _ _ _ h

theorem removeOldest_id {cfg : Cfg} {ch : List Nat} {now : Nat} {c : Cache} (h : c.length ≤ cfg.maxPeers) :
    removeOldest cfg ch now c = c := by
  simp only [removeOldest]
  cases hc : c.length with
  | zero => simp [evictLoop]
  | succ n =>
    simp only [evictLoop]
    have : ¬ (n + 1 > cfg.maxPeers) := by omega
    simp [peersOverCmp, hc, this]

/-! ### sorting and capping the addresses of one peer -/

theorem mem_insertByKey {a x : Addr} {l : List Addr} : x ∈ insertByKey a l ↔ x = a ∨ x ∈ l := by
  induction l with
  | nil => simp [insertByKey]
  | cons b t ih =>
    simp only [insertByKey]
    split
    · simp
    · simp only [List.mem_cons, ih]
      constructor
      · rintro (h | h | h)
        · right; left; exact h
        · left; exact h
        · right; right; exact h
      · rintro (h | h | h)
        · right; left; exact h
        · left; exact h
        · right; right; exact h

theorem length_insertByKey (a : Addr) (l : List Addr) : (insertByKey a l).length = l.length + 1 := by
  induction l with
  | nil => simp [insertByKey]
  | cons b t ih =>
    simp only [insertByKey]
    split
    · simp
    · simp [ih]

theorem mem_sortByKey {x : Addr} {l : List Addr} : x ∈ sortByKey l ↔ x ∈ l := by
  induction l with
  | nil => simp [sortByKey]
  | cons a t ih => simp [sortByKey, mem_insertByKey, ih]

theorem length_sortByKey (l : List Addr) : (sortByKey l).length = l.length := by
  induction l with
  | nil => simp [sortByKey]
  | cons a t ih => simp [sortByKey, length_insertByKey, ih]

theorem capAddrs_length (cfg : Cfg) (l : List Addr) : (capAddrs cfg l).length ≤ cfg.maxAddrs := by
  simp only [capAddrs]
  split
  · simp only [List.length_take]; omega
  · rename_i h
    simp only [addrsOverCmp, decide_eq_true_eq] at h
    omega

theorem capAddrs_mem {cfg : Cfg} {l : List Addr} {a : Addr} (h : a ∈ capAddrs cfg l) : a ∈ l := by
  simp only [capAddrs] at h
  split at h
  · exact mem_sortByKey.mp (List.mem_of_mem_take h)
  · exact h

theorem capAddrs_id {cfg : Cfg} {l : List Addr} (h : l.length ≤ cfg.maxAddrs) : capAddrs cfg l = l := by
  simp only [capAddrs]
  have : ¬ (l.length > cfg.maxAddrs) := by omega
  simp [addrsOverCmp, this]

/-! ### clean-up -/

/-- what `perform_cleanup` leaves comes from the input, satisfies `keep`, and is capped -/
theorem cleanup_mem {cfg : Cfg} {ch : List Nat} {now : Nat} {c : Cache} {e : Nat × List Addr}
    (h : e ∈ cleanup cfg ch now c) :
    ∃ e0 ∈ c, e.1 = e0.1 ∧ e.2.length ≤ cfg.maxAddrs ∧ ∀ a ∈ e.2, a ∈ e0.2 ∧ keep cfg now a = true := by
  simp only [cleanup] at h
  have h1 := removeOldest_mem h
  simp only [List.mem_map, List.mem_filter] at h1
  obtain ⟨e1, ⟨⟨e0, he0, rfl⟩, _⟩, rfl⟩ := h1
  refine ⟨e0, he0, rfl, capAddrs_length _ _, ?_⟩
  intro a ha
  have := capAddrs_mem ha
  simp only [List.mem_filter] at this
  exact this

theorem cleanup_length (cfg : Cfg) (ch : List Nat) (now : Nat) (c : Cache) :
    (cleanup cfg ch now c).length ≤ cfg.maxPeers := by
  simp only [cleanup]; exact removeOldest_length _ _ _ _

theorem cleanup_length_le (cfg : Cfg) (ch : List Nat) (now : Nat) (c : Cache) :
    (cleanup cfg ch now c).length ≤ c.length := by
  simp only [cleanup, removeOldest]
  refine Nat.le_trans (evictLoop_length_le _ _ _ _ _) ?_
  simp only [List.length_map]
  refine Nat.le_trans (List.length_filter_le _ _) ?_
  simp

theorem cleanup_bounded (cfg : Cfg) (ch : List Nat) (now : Nat) (c : Cache) : Bounded cfg (cleanup cfg ch now c) := by
  refine ⟨cleanup_length _ _ _ _, ?_⟩
  intro e he
  obtain ⟨_, _, _, hl, _⟩ := cleanup_mem he
  exact hl

theorem cleanup_wf {cfg : Cfg} {ch : List Nat} {now : Nat} {c : Cache} (h : WF c) : WF (cleanup cfg ch now c) := by
  intro e he a ha
  obtain ⟨e0, he0, hk, _, hall⟩ := cleanup_mem he
  rw [hk]
  exact h e0 he0 a (hall a ha).1

theorem removeOldest_wf {cfg : Cfg} {ch : List Nat} {now : Nat} {c : Cache} (h : WF c) : WF (removeOldest cfg ch now c) :=
  fun e he => h e (removeOldest_mem he)

theorem removeOldest_bounded {cfg : Cfg} {ch : List Nat} {now : Nat} {c : Cache} (h : ∀ e ∈ c, e.2.length ≤ cfg.maxAddrs) :
    Bounded cfg (removeOldest cfg ch now c) :=
  ⟨removeOldest_length _ _ _ _, fun e he => h e (removeOldest_mem he)⟩

/-- a cache that clean-up has nothing to do on -/
def Clean (cfg : Cfg) (now : Nat) (c : Cache) : Prop :=
  Bounded cfg c ∧ ∀ e ∈ c, e.2 ≠ [] ∧ ∀ a ∈ e.2, keep cfg now a = true

theorem cleanup_of_clean {cfg : Cfg} {ch : List Nat} {now : Nat} {c : Cache} (h : Clean cfg now c) :
    cleanup cfg ch now c = c := by
  obtain ⟨⟨hlen, haddrs⟩, hk⟩ := h
  simp only [cleanup]
  have h1 : c.map (fun e => (e.1, e.2.filter (keep cfg now))) = c := by
    conv => rhs; rw [← List.map_id c]
    apply List.map_congr_left
    intro e he
    have : e.2.filter (keep cfg now) = e.2 := List.filter_eq_self.mpr (hk e he).2
    simp [this]
  rw [h1]
  have h2 : c.filter (fun e => !e.2.isEmpty) = c := by
    apply List.filter_eq_self.mpr
    intro e he
    have := (hk e he).1
    cases h2 : e.2 with
    | nil => exact absurd h2 this
    | cons _ _ => simp
  rw [h2]
  have h3 : c.map (fun e => (e.1, capAddrs cfg e.2)) = c := by
    conv => rhs; rw [← List.map_id c]
    apply List.map_congr_left
    intro e he
    simp [capAddrs_id (haddrs e he)]
  rw [h3]
  exact removeOldest_id hlen

theorem capAddrs_ne_nil {cfg : Cfg} {l : List Addr} (hl : l ≠ []) (hm : 1 ≤ cfg.maxAddrs) : capAddrs cfg l ≠ [] := by
  simp only [capAddrs]
  split
  · intro h
    have h1 : ((sortByKey l).take cfg.maxAddrs).length = 0 := by rw [h]; rfl
    simp only [List.length_take, length_sortByKey] at h1
    have : l.length ≠ 0 := fun h0 => hl (List.length_eq_zero_iff.mp h0)
    omega
  · exact hl

theorem cleanup_clean {cfg : Cfg} {ch : List Nat} {now : Nat} {c : Cache} (hm : 1 ≤ cfg.maxAddrs) :
    Clean cfg now (cleanup cfg ch now c) := by
  refine ⟨cleanup_bounded _ _ _ _, ?_⟩
  intro e he
  refine ⟨?_, fun a ha => ?_⟩
  · simp only [cleanup] at he
    have h1 := removeOldest_mem he
    simp only [List.mem_map, List.mem_filter] at h1
    obtain ⟨e1, ⟨_, hne⟩, rfl⟩ := h1
    apply capAddrs_ne_nil _ hm
    intro h0
    simp [h0] at hne
  · obtain ⟨_, _, _, _, hall⟩ := cleanup_mem he
    exact (hall a ha).2

/-! ### `craft_valid_multiaddr` -/

theorem isIp4_eq {p : Proto} (h : p.isIp4 = true) : ∃ n, p = .ip4 n := by
  cases p <;> simp [Proto.isIp4] at h; exact ⟨_, rfl⟩
theorem isUdp_eq {p : Proto} (h : p.isUdp = true) : ∃ n, p = .udp n := by
  cases p <;> simp [Proto.isUdp] at h; exact ⟨_, rfl⟩
theorem isTcp_eq {p : Proto} (h : p.isTcp = true) : ∃ n, p = .tcp n := by
  cases p <;> simp [Proto.isTcp] at h; exact ⟨_, rfl⟩
theorem isP2p_eq {p : Proto} (h : p.isP2p = true) : ∃ n, p = .p2p n := by
  cases p <;> simp [Proto.isP2p] at h; exact ⟨_, rfl⟩
theorem isQuic_eq {p : Proto} (h : p.isQuic = true) : p = .quic := by
  cases p <;> simp [Proto.isQuic] at h; rfl
theorem isWs_eq {p : Proto} (h : p.isWs = true) : p = .ws := by
  cases p <;> simp [Proto.isWs] at h; rfl

/-- whatever `craft_valid_multiaddr` returns is one of the dialable shapes and carries the first peer id
of the input -/
theorem craft_spec {ma out : Ma} (h : craft ma = some out) :
    ∃ k, dialable out = some k ∧ peerOf out = some k ∧ peerOf ma = some k := by
  simp only [craft] at h
  cases hip : ma.find? Proto.isIp4 with
  | none => simp [hip] at h
  | some ip =>
    obtain ⟨n, rfl⟩ := isIp4_eq (List.find?_some hip)
    cases hp : ma.find? Proto.isP2p with
    | none =>
      simp only [hip, hp] at h
      split at h <;> simp_all
    | some p =>
      obtain ⟨k, rfl⟩ := isP2p_eq (List.find?_some hp)
      refine ⟨k, ?_⟩
      cases hu : ma.find? Proto.isUdp with
      | some u =>
        obtain ⟨m, rfl⟩ := isUdp_eq (List.find?_some hu)
        cases hq : ma.find? Proto.isQuic with
        | none =>
          simp [hip, hp, hu, hq] at h
          subst h
          simp [dialable, peerOf, hp, Proto.isP2p]
        | some q =>
          obtain rfl := isQuic_eq (List.find?_some hq)
          simp [hip, hp, hu, hq] at h
          subst h
          simp [dialable, peerOf, hp, Proto.isP2p]
      | none =>
        cases ht : ma.find? Proto.isTcp with
        | none => simp [hip, hp, hu, ht] at h
        | some t =>
          obtain ⟨m, rfl⟩ := isTcp_eq (List.find?_some ht)
          cases hw : ma.find? Proto.isWs with
          | none =>
            simp [hip, hp, hu, ht, hw] at h
            subst h
            simp [dialable, peerOf, hp, Proto.isP2p]
          | some q =>
            obtain rfl := isWs_eq (List.find?_some hw)
            simp [hip, hp, hu, ht, hw] at h
            subst h
            simp [dialable, peerOf, hp, Proto.isP2p]

/-! ### per-peer address lists -/

theorem mem_mapFirst {p : Addr → Bool} {f : Addr → Addr} {l : List Addr} {x : Addr}
    (h : x ∈ mapFirst p f l) : x ∈ l ∨ ∃ y ∈ l, x = f y := by
  induction l with
  | nil => simp [mapFirst] at h
  | cons a t ih =>
    simp only [mapFirst] at h
    split at h
    · simp only [List.mem_cons] at h
      rcases h with h | h
      · right; exact ⟨a, by simp, h⟩
      · left; simp [h]
    · simp only [List.mem_cons] at h
      rcases h with h | h
      · left; simp [h]
      · rcases ih h with h' | ⟨y, hy, hxy⟩
        · left; simp [h']
        · right; exact ⟨y, by simp [hy], hxy⟩

theorem length_mapFirst (p : Addr → Bool) (f : Addr → Addr) (l : List Addr) :
    (mapFirst p f l).length = l.length := by
  induction l with
  | nil => simp [mapFirst]
  | cons a t ih =>
    simp only [mapFirst]
    split <;> simp [ih]

theorem hasMa_mapFirst {p : Addr → Bool} {f : Addr → Addr} (hf : ∀ a, (f a).ma = a.ma) (l : List Addr) (m : Ma) :
    hasMa (mapFirst p f l) m = hasMa l m := by
  induction l with
  | nil => simp [mapFirst]
  | cons a t ih =>
    simp only [mapFirst]
    split
    · simp [hasMa, hf]
    · simp only [hasMa, List.any_cons] at ih ⊢
      rw [ih]

theorem syncAddr_ma (a o : Addr) : (syncAddr a o).ma = a.ma := by
  simp only [syncAddr]
  split
  · rfl
  · split
    · rfl
    · split <;> rfl

theorem updStatus_ma (now : Nat) (ok : Bool) (a : Addr) : (updStatus now ok a).ma = a.ma := by
  simp only [updStatus]
  split <;> split <;> rfl

theorem syncOne_prop {P : Ma → Prop} {l : List Addr} {o : Addr} (hl : ∀ a ∈ l, P a.ma) (ho : P o.ma) :
    ∀ x ∈ syncOne l o, P x.ma := by
  intro x hx
  simp only [syncOne] at hx
  split at hx
  · rcases mem_mapFirst hx with h | ⟨y, hy, rfl⟩
    · exact hl x h
    · rw [syncAddr_ma]; exact hl y hy
  · simp only [List.mem_append, List.mem_singleton] at hx
    rcases hx with h | rfl
    · exact hl x h
    · exact ho

theorem syncAddrs_prop {P : Ma → Prop} : ∀ (os l : List Addr), (∀ a ∈ l, P a.ma) → (∀ o ∈ os, P o.ma) →
    ∀ x ∈ syncAddrs l os, P x.ma := by
  intro os
  induction os with
  | nil => intro l hl _ x hx; exact hl x (by simpa [syncAddrs] using hx)
  | cons o os ih =>
    intro l hl hos x hx
    simp only [syncAddrs] at hx
    exact ih (syncOne l o) (syncOne_prop hl (hos o (by simp))) (fun o' ho' => hos o' (by simp [ho'])) x hx

theorem hasMa_syncOne_left {l : List Addr} {o : Addr} {m : Ma} (h : hasMa l m = true) : hasMa (syncOne l o) m = true := by
  simp only [syncOne]
  split
  · rw [hasMa_mapFirst (fun a => syncAddr_ma a o)]; exact h
  · simp only [hasMa, List.any_append] at h ⊢
    simp [h]

theorem hasMa_syncOne_self (l : List Addr) (o : Addr) : hasMa (syncOne l o) o.ma = true := by
  simp only [syncOne]
  split
  · rename_i h
    rw [hasMa_mapFirst (fun a => syncAddr_ma a o)]; exact h
  · simp [hasMa]

theorem hasMa_syncAddrs_left {m : Ma} : ∀ (os l : List Addr), hasMa l m = true → hasMa (syncAddrs l os) m = true := by
  intro os
  induction os with
  | nil => intro l h; simpa [syncAddrs] using h
  | cons o os ih => intro l h; simp only [syncAddrs]; exact ih _ (hasMa_syncOne_left h)

theorem hasMa_syncAddrs_right : ∀ (os l : List Addr), ∀ o ∈ os, hasMa (syncAddrs l os) o.ma = true := by
  intro os
  induction os with
  | nil => intro l o ho; simp at ho
  | cons o' os ih =>
    intro l o ho
    simp only [syncAddrs]
    simp only [List.mem_cons] at ho
    rcases ho with rfl | ho
    · exact hasMa_syncAddrs_left _ _ (hasMa_syncOne_self l o)
    · exact ih _ o ho

/-! ### well-formedness through the cache operations -/

theorem wf_setKey {p : Nat} {l : List Addr} {c : Cache} (hc : WF c) (hl : ∀ a ∈ l, dialable a.ma = some p) :
    WF (setKey p l c) := by
  intro e he
  rcases mem_setKey he with h | rfl
  · exact hc e h
  · exact hl

theorem wf_append {p : Nat} {l : List Addr} {c : Cache} (hc : WF c) (hl : ∀ a ∈ l, dialable a.ma = some p) :
    WF (c ++ [(p, l)]) := by
  intro e he
  simp only [List.mem_append, List.mem_singleton] at he
  rcases he with h | rfl
  · exact hc e h
  · exact hl

theorem wf_lookup {p : Nat} {l : List Addr} {c : Cache} (hc : WF c) (h : lookup p c = some l) :
    ∀ a ∈ l, dialable a.ma = some p := hc (p, l) (lookup_mem h)

theorem addAddr_wf {cfg : Cfg} {ch : List Nat} {now : Nat} {c : Cache} (ma : Ma) (hc : WF c) :
    WF (addAddr cfg ch now c ma) := by
  simp only [addAddr]
  split
  · exact hc
  · rename_i a ha
    obtain ⟨k, hd, hp, _⟩ := craft_spec ha
    simp only [hp]
    split
    · rename_i l hl
      have hwl := wf_lookup hc hl
      split
      · apply wf_setKey hc
        intro x hx
        rcases mem_mapFirst hx with h | ⟨y, hy, rfl⟩
        · exact hwl x h
        · exact hwl y hy
      · apply cleanup_wf
        apply wf_setKey hc
        intro x hx
        simp only [List.mem_append, List.mem_singleton] at hx
        rcases hx with h | rfl
        · exact hwl x h
        · exact hd
    · apply cleanup_wf
      apply wf_append hc
      intro x hx
      simp only [List.mem_singleton] at hx
      subst hx
      exact hd

theorem updAddr_wf {now : Nat} {c : Cache} (ma : Ma) (ok : Bool) (hc : WF c) : WF (updAddr now c ma ok) := by
  simp only [updAddr]
  split
  · exact hc
  · split
    · exact hc
    · rename_i p _ l hl
      have hwl := wf_lookup hc hl
      apply wf_setKey hc
      intro x hx
      rcases mem_mapFirst hx with h | ⟨y, hy, rfl⟩
      · exact hwl x h
      · rw [updStatus_ma]; exact hwl y hy

theorem syncPeer_wf {c : Cache} {e : Nat × List Addr} (hc : WF c) (he : ∀ a ∈ e.2, dialable a.ma = some e.1) :
    WF (syncPeer c e) := by
  simp only [syncPeer]
  split
  · rename_i l hl
    exact wf_setKey hc (syncAddrs_prop (P := fun m => dialable m = some e.1) _ _ (wf_lookup hc hl) he)
  · exact wf_append hc (syncAddrs_prop (P := fun m => dialable m = some e.1) _ _ he he)

theorem syncCache_wf : ∀ (other c : Cache), WF c → WF other → WF (syncCache c other) := by
  intro other
  induction other with
  | nil => intro c hc _; simpa [syncCache] using hc
  | cons e es ih =>
    intro c hc ho
    simp only [syncCache]
    exact ih _ (syncPeer_wf hc (ho e (by simp))) (fun e' he' => ho e' (by simp [he']))

/-! ### bounds through the store operations -/

theorem bounded_setKey {cfg : Cfg} {p : Nat} {l : List Addr} {c : Cache} (hc : Bounded cfg c)
    (hl : l.length ≤ cfg.maxAddrs) : Bounded cfg (setKey p l c) := by
  refine ⟨by rw [length_setKey]; exact hc.1, ?_⟩
  intro e he
  rcases mem_setKey he with h | rfl
  · exact hc.2 e h
  · exact hl

theorem addAddr_bounded {cfg : Cfg} {ch : List Nat} {now : Nat} {c : Cache} (ma : Ma) (hc : Bounded cfg c) :
    Bounded cfg (addAddr cfg ch now c ma) := by
  simp only [addAddr]
  split
  · exact hc
  · split
    · exact hc
    · split
      · rename_i l hl
        split
        · apply bounded_setKey hc
          rw [length_mapFirst]
          exact hc.2 _ (lookup_mem hl)
        · exact cleanup_bounded _ _ _ _
      · exact cleanup_bounded _ _ _ _

theorem updAddr_bounded {cfg : Cfg} {now : Nat} {c : Cache} (ma : Ma) (ok : Bool) (hc : Bounded cfg c) :
    Bounded cfg (updAddr now c ma ok) := by
  simp only [updAddr]
  split
  · exact hc
  · split
    · exact hc
    · rename_i l hl
      apply bounded_setKey hc
      rw [length_mapFirst]
      exact hc.2 _ (lookup_mem hl)

/-! ### merging keeps both sides -/

/-- peer `p` is known with address `m` -/
def HasAddr (c : Cache) (p : Nat) (m : Ma) : Prop := ∃ l, lookup p c = some l ∧ hasMa l m = true

/-- peer `p` is known -/
def HasPeer (c : Cache) (p : Nat) : Prop := (lookup p c).isSome = true

theorem syncPeer_hasPeer_left {c : Cache} {e : Nat × List Addr} {p : Nat} (h : HasPeer c p) : HasPeer (syncPeer c e) p := by
  simp only [HasPeer] at h ⊢
  simp only [syncPeer]
  split
  · rename_i l hl
    by_cases hp : p = e.1
    · subst hp
      rw [lookup_setKey_self (lookup_isSome_iff.mp (by simp [hl]))]; rfl
    · rw [lookup_setKey_other hp]; exact h
  · rename_i hn
    rw [lookup_append_new hn]
    split
    · rfl
    · exact h

theorem syncPeer_hasPeer_self (c : Cache) (e : Nat × List Addr) : HasPeer (syncPeer c e) e.1 := by
  simp only [HasPeer, syncPeer]
  split
  · rename_i l hl
    rw [lookup_setKey_self (lookup_isSome_iff.mp (by simp [hl]))]; rfl
  · rename_i hn
    rw [lookup_append_new hn]; simp

theorem syncPeer_hasAddr_left {c : Cache} {e : Nat × List Addr} {p : Nat} {m : Ma} (h : HasAddr c p m) :
    HasAddr (syncPeer c e) p m := by
  obtain ⟨l, hl, hm⟩ := h
  simp only [syncPeer]
  split
  · rename_i l0 hl0
    by_cases hp : p = e.1
    · subst hp
      rw [hl] at hl0
      cases hl0
      exact ⟨_, lookup_setKey_self (lookup_isSome_iff.mp (by simp [hl])), hasMa_syncAddrs_left _ _ hm⟩
    · exact ⟨l, by rw [lookup_setKey_other hp]; exact hl, hm⟩
  · rename_i hn
    refine ⟨l, ?_, hm⟩
    rw [lookup_append_new hn]
    split
    · rename_i hp
      subst hp
      rw [hl] at hn
      cases hn
    · exact hl

theorem syncPeer_hasAddr_self (c : Cache) (e : Nat × List Addr) : ∀ a ∈ e.2, HasAddr (syncPeer c e) e.1 a.ma := by
  intro a ha
  simp only [syncPeer]
  split
  · rename_i l hl
    exact ⟨_, lookup_setKey_self (lookup_isSome_iff.mp (by simp [hl])), hasMa_syncAddrs_right _ _ a ha⟩
  · rename_i hn
    exact ⟨syncAddrs e.2 e.2, by rw [lookup_append_new hn]; simp, hasMa_syncAddrs_right _ _ a ha⟩

theorem syncCache_hasAddr_left {p : Nat} {m : Ma} : ∀ (other c : Cache), HasAddr c p m → HasAddr (syncCache c other) p m := by
  intro other
  induction other with
  | nil => intro c h; simpa [syncCache] using h
  | cons e es ih => intro c h; simp only [syncCache]; exact ih _ (syncPeer_hasAddr_left h)

theorem syncCache_hasPeer_left {p : Nat} : ∀ (other c : Cache), HasPeer c p → HasPeer (syncCache c other) p := by
  intro other
  induction other with
  | nil => intro c h; simpa [syncCache] using h
  | cons e es ih => intro c h; simp only [syncCache]; exact ih _ (syncPeer_hasPeer_left h)

theorem syncCache_hasAddr_right : ∀ (other c : Cache), ∀ e ∈ other, ∀ a ∈ e.2, HasAddr (syncCache c other) e.1 a.ma := by
  intro other
  induction other with
  | nil => intro c e he; simp at he
  | cons e' es ih =>
    intro c e he a ha
    simp only [syncCache]
    simp only [List.mem_cons] at he
    rcases he with rfl | he
    · exact syncCache_hasAddr_left _ _ (syncPeer_hasAddr_self c e a ha)
    · exact ih _ e he a ha

theorem syncCache_hasPeer_right : ∀ (other c : Cache), ∀ e ∈ other, HasPeer (syncCache c other) e.1 := by
  intro other
  induction other with
  | nil => intro c e he; simp at he
  | cons e' es ih =>
    intro c e he
    simp only [syncCache]
    simp only [List.mem_cons] at he
    rcases he with rfl | he
    · exact syncCache_hasPeer_left _ _ (syncPeer_hasPeer_self c e)
    · exact ih _ e he

/-! ### the system: several stores and one file -/

theorem mem_modAt {f : Writer → Writer} : ∀ {i : Nat} {ws : List Writer} {w : Writer},
    w ∈ modAt f i ws → w ∈ ws ∨ ∃ w0 ∈ ws, w = f w0 := by
  intro i ws
  induction ws generalizing i with
  | nil => intro w h; simp [modAt] at h
  | cons a t ih =>
    intro w h
    cases i with
    | zero =>
      simp only [modAt, List.mem_cons] at h
      rcases h with h | h
      · right; exact ⟨a, by simp, h⟩
      · left; simp [h]
    | succ j =>
      simp only [modAt, List.mem_cons] at h
      rcases h with h | h
      · left; simp [h]
      · rcases ih h with h' | ⟨w0, hw0, hw⟩
        · left; simp [h']
        · right; exact ⟨w0, by simp [hw0], hw⟩

theorem length_modAt (f : Writer → Writer) : ∀ (i : Nat) (ws : List Writer), (modAt f i ws).length = ws.length := by
  intro i ws
  induction ws generalizing i with
  | nil => simp [modAt]
  | cons a t ih => cases i <;> simp [modAt, ih]

theorem getW_mem {ws : List Writer} {i : Nat} (h : i < ws.length) : getW ws i ∈ ws := by
  simp only [getW, List.getD_eq_getElem?_getD, List.getElem?_eq_getElem h, Option.getD_some]
  exact List.getElem_mem h

theorem getW_modAt (f : Writer → Writer) : ∀ (i : Nat) (ws : List Writer), i < ws.length →
    getW (modAt f i ws) i = f (getW ws i) := by
  intro i ws
  induction ws generalizing i with
  | nil => intro h; simp at h
  | cons a t ih =>
    intro h
    cases i with
    | zero => simp [modAt, getW]
    | succ j =>
      have hj : j < t.length := by simpa using h
      have := ih j hj
      simp only [getW, modAt, List.getD_cons_succ] at this ⊢
      exact this

/-- the invariant over memory AND file: every store's memory, whatever an in-flight flush has read, and
the file hold only dialable addresses filed under the peer id they carry -/
def Inv (s : Sys) : Prop :=
  (∀ w ∈ s.ws, WF w.mem ∧ ∀ d, w.loaded = some (some d) → WF d) ∧ (∀ c, s.file = .data c → WF c)

/-- an operation of the cache code itself, or an external replacement of the file by well-formed content
(or by garbage) -/
def OpOk : Op → Prop
  | .extFile (.data c) => WF c
  | _ => True

theorem load_wf {cfg : Cfg} {ch : List Nat} {now : Nat} {f : File} {d : Cache}
    (hf : ∀ c, f = .data c → WF c) (h : load cfg ch now f = some d) : WF d := by
  cases f with
  | absent => simp [load] at h
  | garbage => simp [load] at h
  | data c =>
    simp only [load, Option.some.injEq] at h
    subst h
    split
    · exact cleanup_wf (hf c rfl)
    · exact hf c rfl

theorem commitData_wf {cfg : Cfg} {ch : List Nat} {now : Nat} {wc : Bool} {w : Writer}
    (hm : WF w.mem) (hl : ∀ d, w.loaded = some (some d) → WF d) : WF (commitData cfg ch now wc w) := by
  simp only [commitData]
  have hmerged : WF (match w.loaded with | some (some d) => syncCache w.mem d | _ => w.mem) := by
    split
    · rename_i d hd; exact syncCache_wf _ _ hm (hl d hd)
    · exact hm
  split
  · exact removeOldest_wf (cleanup_wf hmerged)
  · exact hmerged

theorem wf_nil : WF [] := by intro e he; simp at he

theorem step_inv {s : Sys} {op : Op} (h : Inv s) (hop : OpOk op) : Inv (step s op) := by
  obtain ⟨hws, hfile⟩ := h
  cases op with
  | tick d => exact ⟨hws, hfile⟩
  | add i ma ch =>
    refine ⟨?_, hfile⟩
    intro w hw
    rcases mem_modAt hw with h' | ⟨w0, hw0, rfl⟩
    · exact hws w h'
    · exact ⟨addAddr_wf ma (hws w0 hw0).1, (hws w0 hw0).2⟩
  | upd i ma ok =>
    refine ⟨?_, hfile⟩
    intro w hw
    rcases mem_modAt hw with h' | ⟨w0, hw0, rfl⟩
    · exact hws w h'
    · exact ⟨updAddr_wf ma ok (hws w0 hw0).1, (hws w0 hw0).2⟩
  | clean i ch =>
    refine ⟨?_, hfile⟩
    intro w hw
    rcases mem_modAt hw with h' | ⟨w0, hw0, rfl⟩
    · exact hws w h'
    · exact ⟨cleanup_wf (hws w0 hw0).1, (hws w0 hw0).2⟩
  | flushLoad i ch =>
    refine ⟨?_, hfile⟩
    intro w hw
    rcases mem_modAt hw with h' | ⟨w0, hw0, rfl⟩
    · exact hws w h'
    · split
      · exact hws w0 hw0
      · refine ⟨(hws w0 hw0).1, ?_⟩
        intro d hd
        simp only [Option.some.injEq] at hd
        exact load_wf hfile hd
  | flushCommit i wc ch =>
    simp only [step]
    split
    · rename_i hi
      simp only [Bool.and_eq_true, decide_eq_true_eq] at hi
      refine ⟨?_, ?_⟩
      · intro w hw
        rcases mem_modAt hw with h' | ⟨w0, _, rfl⟩
        · exact hws w h'
        · exact ⟨wf_nil, by intro d hd; simp at hd⟩
      · intro c hc
        simp only [File.data.injEq] at hc
        subst hc
        have := hws _ (getW_mem hi.1)
        exact commitData_wf this.1 this.2
    · exact ⟨hws, hfile⟩
  | rebuild i first disabled =>
    simp only [step]
    split
    · refine ⟨?_, ?_⟩
      · intro w hw
        rcases mem_modAt hw with h' | ⟨w0, _, rfl⟩
        · exact hws w h'
        · exact ⟨wf_nil, by intro d hd; simp at hd⟩
      · intro c hc
        split at hc
        · simp only [File.data.injEq] at hc
          subst hc
          exact wf_nil
        · exact hfile c hc
    · exact ⟨hws, hfile⟩
  | write i =>
    simp only [step]
    split
    · rename_i hi
      refine ⟨hws, ?_⟩
      intro c hc
      simp only [File.data.injEq] at hc
      subst hc
      exact (hws _ (getW_mem hi)).1
    · exact ⟨hws, hfile⟩
  | halfWrite i =>
    simp only [step]
    split
    · exact ⟨hws, hfile⟩
    · refine ⟨hws, ?_⟩
      intro c hc
      simp at hc
  | flushFail i wc ch =>
    simp only [step]
    split
    · refine ⟨?_, hfile⟩
      intro w hw
      rcases mem_modAt hw with h' | ⟨w0, hw0, rfl⟩
      · exact hws w h'
      · refine ⟨?_, by intro d hd; simp at hd⟩
        simp only [failMem]
        split
        · exact (hws w0 hw0).1
        · exact commitData_wf (hws w0 hw0).1 (hws w0 hw0).2
    · exact ⟨hws, hfile⟩
  | swap i j =>
    simp only [step]
    split
    · rename_i hi
      simp only [Bool.and_eq_true, decide_eq_true_eq] at hi
      refine ⟨?_, hfile⟩
      intro w hw
      rcases mem_modAt hw with h' | ⟨w0, _, rfl⟩
      · rcases mem_modAt h' with h'' | ⟨w1, _, rfl⟩
        · exact hws w h''
        · exact ⟨(hws _ (getW_mem hi.1)).1, by intro d hd; simp at hd⟩
      · exact ⟨wf_nil, by intro d hd; simp at hd⟩
    · exact ⟨hws, hfile⟩
  | extFile f =>
    refine ⟨hws, ?_⟩
    intro c hc
    simp only [step] at hc
    subst hc
    exact hop

theorem run_inv : ∀ (ops : List Op) (s : Sys), Inv s → (∀ op ∈ ops, OpOk op) → Inv (run s ops) := by
  intro ops
  induction ops with
  | nil => intro s h _; exact h
  | cons op ops ih =>
    intro s h hops
    simp only [run]
    exact ih _ (step_inv h (hops op (by simp))) (fun o ho => hops o (by simp [ho]))

theorem step_cfg (s : Sys) (op : Op) : (step s op).cfg = s.cfg := by
  cases op <;> simp only [step] <;> (try split) <;> rfl

theorem run_cfg : ∀ (ops : List Op) (s : Sys), (run s ops).cfg = s.cfg := by
  intro ops
  induction ops with
  | nil => intro s; rfl
  | cons op ops ih => intro s; simp only [run]; rw [ih, step_cfg]

/-- every store's memory is within the configured limits -/
def BoundedSys (s : Sys) : Prop := ∀ w ∈ s.ws, Bounded s.cfg w.mem

theorem bounded_nil (cfg : Cfg) : Bounded cfg [] := ⟨by simp, by intro e he; simp at he⟩

theorem step_bounded {s : Sys} (op : Op) (h : BoundedSys s) : BoundedSys (step s op) := by
  intro w hw
  rw [step_cfg]
  cases op with
  | tick d => exact h w hw
  | add i ma ch =>
    rcases mem_modAt hw with h' | ⟨w0, hw0, rfl⟩
    · exact h w h'
    · exact addAddr_bounded ma (h w0 hw0)
  | upd i ma ok =>
    rcases mem_modAt hw with h' | ⟨w0, hw0, rfl⟩
    · exact h w h'
    · exact updAddr_bounded ma ok (h w0 hw0)
  | clean i ch =>
    rcases mem_modAt hw with h' | ⟨w0, hw0, rfl⟩
    · exact h w h'
    · exact cleanup_bounded _ _ _ _
  | flushLoad i ch =>
    rcases mem_modAt hw with h' | ⟨w0, hw0, rfl⟩
    · exact h w h'
    · split <;> exact h w0 hw0
  | flushCommit i wc ch =>
    simp only [step] at hw
    split at hw
    · rcases mem_modAt hw with h' | ⟨w0, _, rfl⟩
      · exact h w h'
      · exact bounded_nil _
    · exact h w hw
  | rebuild i first disabled =>
    simp only [step] at hw
    split at hw
    · rcases mem_modAt hw with h' | ⟨w0, _, rfl⟩
      · exact h w h'
      · exact bounded_nil _
    · exact h w hw
  | write i =>
    simp only [step] at hw
    split at hw <;> exact h w hw
  | halfWrite i =>
    simp only [step] at hw
    split at hw <;> exact h w hw
  | flushFail i wc ch =>
    -- a flush whose write failed: with `flushFailKeepsMemory` the memory is what it was (without it, the unbounded
    -- merge `memory ∪ file` stays behind: `Props.C18.failed_flush_old_shape_unbounded`)
    simp only [step] at hw
    split at hw
    · rcases mem_modAt hw with h' | ⟨w0, hw0, rfl⟩
      · exact h w h'
      · have hk : failMem flushFailKeepsMemory s.cfg ch s.now wc w0 = w0.mem := by
          simp [failMem, flushFailKeepsMemory]
        simpa [hk] using h w0 hw0
    · exact h w hw
  | swap i j =>
    simp only [step] at hw
    split at hw
    · rename_i hi
      simp only [Bool.and_eq_true, decide_eq_true_eq] at hi
      rcases mem_modAt hw with h' | ⟨w0, _, rfl⟩
      · rcases mem_modAt h' with h'' | ⟨w1, _, rfl⟩
        · exact h w h''
        · exact h (getW s.ws i) (getW_mem hi.1)
      · exact bounded_nil _
    · exact h w hw
  | extFile f => exact h w hw

theorem run_bounded : ∀ (ops : List Op) (s : Sys), BoundedSys s → BoundedSys (run s ops) := by
  intro ops
  induction ops with
  | nil => intro s h; exact h
  | cons op ops ih => intro s h; simp only [run]; exact ih _ (step_bounded op h)

/-- an operation of the cache code (anything but an external replacement of the file) -/
def Op.isWriterOp : Op → Bool
  | .extFile _ => false
  | _ => true

end SafeNet.BootCache
