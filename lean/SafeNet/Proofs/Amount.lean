import SafeNet.Proofs.Dec
import SafeNet.Model.Amount
namespace SafeNet.Amount
open SafeNet.Dec SafeNet.Gen.Amount

/-! ### digit-character strings -/

def Digits (ds : List Nat) : Prop := ∀ d ∈ ds, d < 10

theorem Digits.tail {d : Nat} {ds : List Nat} (h : Digits (d :: ds)) : Digits ds :=
  fun x hx => h x (List.mem_cons_of_mem _ hx)

theorem Digits.head {d : Nat} {ds : List Nat} (h : Digits (d :: ds)) : d < 10 :=
  h d (List.mem_cons_self ..)

theorem isDecimal_toChars {ds : List Nat} (h : Digits ds) : isDecimal (toChars ds) = true := by
  unfold isDecimal toChars
  simp only [List.all_map, List.all_eq_true]
  intro d hd
  have := h d hd
  simp; omega

theorem isDecimal_exists {s : List Nat} (h : isDecimal s = true) : ∃ ds, Digits ds ∧ s = toChars ds := by
  induction s with
  | nil => exact ⟨[], by simp [Digits], rfl⟩
  | cons c cs ih =>
    simp only [isDecimal, List.all_cons, Bool.and_eq_true, decide_eq_true_eq] at h
    obtain ⟨ds, hds, rfl⟩ := ih (by simpa [isDecimal] using h.2)
    refine ⟨(c - 48) :: ds, ?_, ?_⟩
    · intro d hd
      simp only [List.mem_cons] at hd
      rcases hd with rfl | hd
      · omega
      · exact hds d hd
    · simp [toChars]; omega

theorem classify_digit {d : Nat} (h : d < 10) : classify (d + 48) = some (some d) := by
  unfold classify
  rw [if_pos (by omega)]
  simp

theorem fromStrRadixGo_digits (ds : List Nat) (h : Digits ds) (acc : Nat) (hacc : acc < U256) :
    fromStrRadixGo 10 (toChars ds) acc =
      if acc * 10 ^ ds.length + ofDigits ds < U256 then some (acc * 10 ^ ds.length + ofDigits ds) else none := by
  induction ds generalizing acc with
  | nil => simp [toChars, fromStrRadixGo, ofDigits, hacc]
  | cons d ds ih =>
    have hd := h.head
    have hpos : 0 < 10 ^ ds.length := Nat.pow_pos (by omega)
    simp only [toChars, List.map_cons, fromStrRadixGo, classify_digit hd]
    rw [if_neg (by omega)]
    rw [ofDigits_cons, List.length_cons, Nat.pow_succ]
    by_cases hov : acc * 10 + d ≥ U256
    · rw [if_pos hov, if_neg]
      have : (acc * 10 + d) * 10 ^ ds.length ≥ U256 * 1 := Nat.mul_le_mul hov hpos
      have e : acc * (10 ^ ds.length * 10) + (d * 10 ^ ds.length + ofDigits ds)
             = (acc * 10 + d) * 10 ^ ds.length + ofDigits ds := by
        rw [Nat.add_mul, Nat.mul_assoc, Nat.mul_comm 10]; omega
      omega
    · rw [if_neg hov]
      have := ih h.tail (acc * 10 + d) (by omega)
      simp only [toChars] at this
      rw [this]
      have e : acc * (10 ^ ds.length * 10) + (d * 10 ^ ds.length + ofDigits ds)
             = (acc * 10 + d) * 10 ^ ds.length + ofDigits ds := by
        rw [Nat.add_mul, Nat.mul_assoc, Nat.mul_comm 10]; omega
      rw [e]

theorem uintFromStr_digits (ds : List Nat) (h : Digits ds) :
    uintFromStr (toChars ds) = if ofDigits ds < U256 then some (ofDigits ds) else none := by
  have main : fromStrRadix (toChars ds) 10 = if ofDigits ds < U256 then some (ofDigits ds) else none := by
    unfold fromStrRadix
    rw [fromStrRadixGo_digits ds h 0 (by unfold U256; exact Nat.pow_pos (by omega))]
    simp
  match ds, h with
  | [], _ => simpa [uintFromStr, toChars] using main
  | [a], _ => simpa [uintFromStr, toChars] using main
  | a :: b :: rest, h =>
    have hb : b < 10 := h.tail.head
    by_cases ha : a = 0
    · subst ha
      simp only [toChars, List.map_cons] at main ⊢
      unfold uintFromStr
      simp only [Nat.zero_add]
      rw [if_neg (by omega), if_neg (by omega), if_neg (by omega)]
      simpa using main
    · have : a + 48 ≠ 48 := by omega
      simp only [toChars, List.map_cons] at main ⊢
      unfold uintFromStr
      split
      · rename_i heq; simp at heq; omega
      · exact main

/-! ### splitting at the first dot -/

theorem splitDot_toChars (u : List Nat) : splitDot (toChars u) = (toChars u, none) := by
  induction u with
  | nil => rfl
  | cons d u ih =>
    simp only [toChars, List.map_cons, splitDot] at ih ⊢
    rw [if_neg (by omega), ih]

theorem splitDot_toChars_dot (u : List Nat) (f : List Nat) :
    splitDot (toChars u ++ 46 :: f) = (toChars u, some f) := by
  induction u with
  | nil => simp [toChars, splitDot]
  | cons d u ih =>
    simp only [toChars, List.map_cons, List.cons_append, splitDot] at ih ⊢
    rw [if_neg (by omega), ih]

/-- What `splitDot` returns reassembles to the input. -/
theorem splitDot_spec (s : List Nat) :
    s = (splitDot s).1 ++ (match (splitDot s).2 with | none => [] | some f => 46 :: f) := by
  induction s with
  | nil => rfl
  | cons c cs ih =>
    unfold splitDot
    by_cases h : c = 46
    · simp [h]
    · rw [if_neg h]
      simp only [List.cons_append]
      congr 1

/-! ### trailing zeros -/

theorem trimTrailingZeros_spec (ds : List Nat) :
    ∃ t, ds = trimTrailingZeros ds ++ List.replicate t 0 := by
  unfold trimTrailingZeros
  generalize hr : ds.reverse = r
  have hds : ds = r.reverse := by rw [← hr, List.reverse_reverse]
  subst hds
  clear hr
  induction r with
  | nil => exact ⟨0, rfl⟩
  | cons a r ih =>
    simp only [List.dropWhile_cons]
    by_cases h : a = 0
    · subst h
      obtain ⟨t, ht⟩ := ih
      refine ⟨t + 1, ?_⟩
      simp only [beq_self_eq_true, ↓reduceIte, List.reverse_cons]
      rw [ht, List.append_assoc]
      congr 1
      rw [List.replicate_succ']
    · refine ⟨0, ?_⟩
      have : (a == 0) = false := by simpa using h
      simp [this]

theorem trimEnd0_toChars (ds : List Nat) : trimEnd0 (toChars ds) = toChars (trimTrailingZeros ds) := by
  unfold trimEnd0 toChars trimTrailingZeros
  rw [← List.map_reverse, List.dropWhile_map, ← List.map_reverse]
  have : ((fun x => x == 48) ∘ (fun x => x + 48)) = (fun (x : Nat) => x == 0) := by
    funext d; simp
  rw [this]

theorem Digits.trim {ds : List Nat} (h : Digits ds) : Digits (trimTrailingZeros ds) := by
  obtain ⟨t, ht⟩ := trimTrailingZeros_spec ds
  intro d hd
  apply h d
  rw [ht]
  exact List.mem_append_left _ hd

theorem ofDigits_lt {ds : List Nat} (h : Digits ds) : ofDigits ds < 10 ^ ds.length := by
  induction ds with
  | nil => simp [ofDigits]
  | cons d ds ih =>
    have := ih h.tail
    have hd := h.head
    rw [ofDigits_cons, List.length_cons, Nat.pow_succ]
    have : d * 10 ^ ds.length ≤ 9 * 10 ^ ds.length := Nat.mul_le_mul_right _ (by omega)
    omega

theorem toChars_eq_nil {ds : List Nat} : toChars ds = [] ↔ ds = [] := by
  simp [toChars]

/-- The result of `parse` on a string in the decimal grammar, in closed form. -/
def parseSpec (u : List Nat) (f : List Nat) : Except PErr Nat :=
  if u = [] then .error .units else
  if ofDigits u ≥ U256 then .error .units else
  if ofDigits u * 10 ^ 18 ≥ U256 then .error .excessive else
  if 18 < f.length then .error .lossOfPrecision else
  let f' := trimTrailingZeros f
  if f' = [] then .ok (ofDigits u * 10 ^ 18) else
  if ofDigits f' ≥ U256 then .error .remainder else
  if 18 < f'.length then .error .lossOfPrecision else
  if ofDigits u * 10 ^ 18 + ofDigits f' * 10 ^ (18 - f'.length) ≥ U256 then .error .excessive else
  .ok (ofDigits u * 10 ^ 18 + ofDigits f' * 10 ^ (18 - f'.length))

theorem scaled_lt {x L : Nat} (hx : x < 10 ^ L) (hL : L ≤ 18) : x * 10 ^ (18 - L) < 10 ^ 18 := by
  have h1 : x * 10 ^ (18 - L) < 10 ^ L * 10 ^ (18 - L) :=
    Nat.mul_lt_mul_of_lt_of_le hx (Nat.le_refl _) (Nat.pow_pos (by omega))
  rw [← Nat.pow_add] at h1
  have : L + (18 - L) = 18 := by omega
  rw [this] at h1
  exact h1

theorem toChars_length (ds : List Nat) : (toChars ds).length = ds.length := by simp [toChars]

theorem parse_core (u f : List Nat) (hu : Digits u) (hf : Digits f) (fo : Option (List Nat))
    (hfo : fo.getD [] = toChars f) (s : List Nat) (hs : splitDot s = (toChars u, fo)) :
    parse s = parseSpec u f := by
  have hlt := ofDigits_lt hf.trim
  have hU : (1000000000000000000 : Nat) < U256 := by unfold U256; decide
  unfold parse parseWith parseSpec
  simp only [hs, hfo, isDecimal_toChars hu, isDecimal_toChars hf, uintFromStr_digits u hu,
    trimEnd0_toChars, uintFromStr_digits _ hf.trim, List.isEmpty_iff, toChars_eq_nil,
    toChars_length, unitsMulChecked, finalAddChecked, fracLenCheckedUntrimmed, powConv, rawConv, Nat.reducePow]
  by_cases hnil : u = []
  · simp [hnil, toChars]
  have hnil' : ¬ toChars u = [] := by rwa [toChars_eq_nil]
  by_cases h1 : U256 ≤ ofDigits u
  · have h1' : ¬ ofDigits u < U256 := by omega
    simp [hnil, hnil', h1, h1']
  have h1' : ofDigits u < U256 := by omega
  by_cases h2 : U256 ≤ ofDigits u * 1000000000000000000
  · simp [hnil, hnil', h1, h1', h2]
  have hmod : ofDigits u * 1000000000000000000 % U256 = ofDigits u * 1000000000000000000 :=
    Nat.mod_eq_of_lt (by omega)
  by_cases h25 : 18 < f.length
  · simp [hnil, hnil', h1, h1', h2, h25]
  by_cases h3 : trimTrailingZeros f = []
  · simp [hnil, hnil', h1, h1', h2, h25, h3, hmod]
  by_cases h4 : U256 ≤ ofDigits (trimTrailingZeros f)
  · have h4' : ¬ ofDigits (trimTrailingZeros f) < U256 := by omega
    simp [hnil, hnil', h1, h1', h2, h25, h3, h4, h4']
  have h4' : ofDigits (trimTrailingZeros f) < U256 := by omega
  by_cases h5 : 18 < (trimTrailingZeros f).length
  · simp [hnil, hnil', h1, h1', h2, h25, h3, h4, h4', h5]
  have hsc := scaled_lt hlt (by omega)
  simp only [Nat.reducePow] at hsc
  have hmod2 : ofDigits (trimTrailingZeros f) * 10 ^ (18 - (trimTrailingZeros f).length) % U256
      = ofDigits (trimTrailingZeros f) * 10 ^ (18 - (trimTrailingZeros f).length) :=
    Nat.mod_eq_of_lt (by omega)
  by_cases h6 : U256 ≤ ofDigits u * 1000000000000000000 + ofDigits (trimTrailingZeros f) * 10 ^ (18 - (trimTrailingZeros f).length)
  · simp [hnil, hnil', h1, h1', h2, h25, h3, h4, h4', h5, h6, hmod, hmod2]
  · have hmod3 := Nat.mod_eq_of_lt (Nat.lt_of_not_le h6)
    simp [hnil, hnil', h1, h1', h2, h25, h3, h4, h4', h5, h6, hmod, hmod2, hmod3]

/-! ### consequences of the closed form -/

theorem pow_split {a b : Nat} (h : a ≤ b) : (10 : Nat) ^ b = 10 ^ a * 10 ^ (b - a) := by
  rw [← Nat.pow_add]; congr 1; omega

/-- value of the trimmed fraction, rescaled, equals value of the untrimmed one rescaled -/
theorem trim_scaled (f : List Nat) (hlen : f.length ≤ 18) :
    (trimTrailingZeros f).length ≤ 18 ∧
    ofDigits (trimTrailingZeros f) * 10 ^ (18 - (trimTrailingZeros f).length)
      = ofDigits f * 10 ^ (18 - f.length) := by
  obtain ⟨t, ht⟩ := trimTrailingZeros_spec f
  generalize trimTrailingZeros f = f' at ht ⊢
  subst ht
  simp only [List.length_append, List.length_replicate] at hlen ⊢
  refine ⟨by omega, ?_⟩
  rw [ofDigits_append, ofDigits_replicate_zero, List.length_replicate, Nat.add_zero,
    Nat.mul_assoc, ← Nat.pow_add]
  congr 2
  omega

theorem parseSpec_complete (u f : List Nat) (hne : u ≠ []) (hlen : f.length ≤ 18)
    (hV : ofDigits u * 10 ^ 18 + ofDigits f * 10 ^ (18 - f.length) < U256) :
    parseSpec u f = .ok (ofDigits u * 10 ^ 18 + ofDigits f * 10 ^ (18 - f.length)) := by
  obtain ⟨hL, hval⟩ := trim_scaled f hlen
  unfold parseSpec
  rw [← hval] at hV ⊢
  have hp : 0 < 10 ^ (18 - (trimTrailingZeros f).length) := Nat.pow_pos (by omega)
  have h18 : (0 : Nat) < 10 ^ 18 := Nat.pow_pos (by omega)
  have hu1 : ofDigits u ≤ ofDigits u * 10 ^ 18 := Nat.le_mul_of_pos_right _ h18
  have hf1 : ofDigits (trimTrailingZeros f) ≤
      ofDigits (trimTrailingZeros f) * 10 ^ (18 - (trimTrailingZeros f).length) :=
    Nat.le_mul_of_pos_right _ hp
  rw [if_neg hne, if_neg (by omega), if_neg (by omega), if_neg (by omega)]
  by_cases h3 : trimTrailingZeros f = []
  · simp [h3, ofDigits]
  · simp only [h3, ↓reduceIte]
    rw [if_neg (by omega), if_neg (by omega), if_neg (by omega)]

theorem ofDigits_trim_nil {f : List Nat} (h : trimTrailingZeros f = []) : ofDigits f = 0 := by
  obtain ⟨t, ht⟩ := trimTrailingZeros_spec f
  rw [h] at ht
  rw [ht]; simpa using ofDigits_replicate_zero t

/-- Soundness at the level of the closed form: an accepted string denotes exactly `n`
(`n / 10^18 = u + f / 10^|f|`, stated without division). -/
theorem parseSpec_sound (u f : List Nat) (n : Nat) (h : parseSpec u f = .ok n) :
    u ≠ [] ∧ n < U256 ∧ n * 10 ^ f.length = (ofDigits u * 10 ^ f.length + ofDigits f) * 10 ^ 18 := by
  unfold parseSpec at h
  by_cases hnil : u = []
  · simp [hnil] at h
  rw [if_neg hnil] at h
  by_cases h1 : ofDigits u ≥ U256
  · simp [h1] at h
  rw [if_neg h1] at h
  by_cases h2 : ofDigits u * 10 ^ 18 ≥ U256
  · simp [h2] at h
  rw [if_neg h2] at h
  by_cases h25 : 18 < f.length
  · simp [h25] at h
  rw [if_neg h25] at h
  by_cases h3 : trimTrailingZeros f = []
  · simp only [h3, ↓reduceIte] at h
    injection h with h
    subst h
    refine ⟨hnil, by omega, ?_⟩
    rw [ofDigits_trim_nil h3, Nat.add_zero]
    simp [Nat.mul_comm, Nat.mul_left_comm]
  · simp only [h3, ↓reduceIte] at h
    by_cases h4 : ofDigits (trimTrailingZeros f) ≥ U256
    · simp [h4] at h
    rw [if_neg h4] at h
    by_cases h5 : 18 < (trimTrailingZeros f).length
    · simp [h5] at h
    rw [if_neg h5] at h
    by_cases h6 : ofDigits u * 10 ^ 18 + ofDigits (trimTrailingZeros f) * 10 ^ (18 - (trimTrailingZeros f).length) ≥ U256
    · simp [h6] at h
    rw [if_neg h6] at h
    injection h with h
    subst h
    refine ⟨hnil, by omega, ?_⟩
    obtain ⟨t, ht⟩ := trimTrailingZeros_spec f
    generalize trimTrailingZeros f = f' at *
    subst ht
    rw [ofDigits_append, ofDigits_replicate_zero, List.length_replicate, Nat.add_zero,
      List.length_append, List.length_replicate]
    have e1 : (10 : Nat) ^ 18 = 10 ^ f'.length * 10 ^ (18 - f'.length) := pow_split (by omega)
    have e2 : (10 : Nat) ^ (f'.length + t) = 10 ^ f'.length * 10 ^ t := Nat.pow_add ..
    rw [e2]
    generalize (10 : Nat) ^ (18 - f'.length) = A at *
    generalize (10 : Nat) ^ f'.length = B at *
    generalize (10 : Nat) ^ t = C at *
    rw [e1]
    simp only [Nat.add_mul]
    simp [Nat.mul_assoc, Nat.mul_comm, Nat.mul_left_comm]

/-- An accepted string has at most 18 fractional digits as written and the amount is its value in atto. -/
theorem parseSpec_ok_iff (u f : List Nat) (n : Nat) :
    parseSpec u f = .ok n ↔
      u ≠ [] ∧ f.length ≤ 18 ∧ n = ofDigits u * 10 ^ 18 + ofDigits f * 10 ^ (18 - f.length) ∧ n < U256 := by
  constructor
  · intro h
    obtain ⟨hne, hlt, heq⟩ := parseSpec_sound u f n h
    have hlen : f.length ≤ 18 := by
      unfold parseSpec at h
      by_cases h25 : 18 < f.length
      · exfalso
        rw [if_neg hne] at h
        split at h
        · cases h
        · split at h
          · cases h
          · simp at h
      · omega
    refine ⟨hne, hlen, ?_, hlt⟩
    have e1 : (10 : Nat) ^ 18 = 10 ^ f.length * 10 ^ (18 - f.length) := pow_split hlen
    have hpos : 0 < 10 ^ f.length := Nat.pow_pos (by omega)
    have : n * 10 ^ f.length = (ofDigits u * 10 ^ 18 + ofDigits f * 10 ^ (18 - f.length)) * 10 ^ f.length := by
      rw [heq, e1]
      simp only [Nat.add_mul]
      simp [Nat.mul_assoc, Nat.mul_comm, Nat.mul_left_comm]
    exact Nat.eq_of_mul_eq_mul_right hpos this
  · rintro ⟨hne, hlen, rfl, hlt⟩
    exact parseSpec_complete u f hne hlen hlt

end SafeNet.Amount
