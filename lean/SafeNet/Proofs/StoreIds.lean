import SafeNet.Proofs.StoreReach
/-!
Two invariants of every reachable state, with no hypothesis on the history (crashes included):

* `Ids` — pending task ids increase along the task list and lie below `nextId`; notification ids are pairwise
  different, lie below `nextId` and differ from every pending task id;
* `DiskCov` — every record file belongs to a listed key, to a write whose notification is still pending, or to a
  pending delete. It bounds what a start-up scan can re-index (`Proofs/StoreCapCrash`).
-/
namespace SafeNet.Store

structure Ids (s : St) : Prop where
  tsorted : (s.tasks.map (·.1)).Pairwise (· < ·)
  tlt : ∀ e ∈ s.tasks, e.1 < s.nextId
  nnodup : (s.notes.map (·.1)).Nodup
  nlt : ∀ e ∈ s.notes, e.1 < s.nextId
  disj : ∀ n ∈ s.notes, ∀ t ∈ s.tasks, n.1 ≠ t.1

/-- one fresh task appended -/
theorem Ids.push {s s' : St} (h : Ids s) (t : Task) (ht : s'.tasks = s.tasks ++ [(s.nextId, t)])
    (hn : s'.notes = s.notes) (hi : s'.nextId = s.nextId + 1) : Ids s' := by
  refine ⟨?_, ?_, ?_, ?_, ?_⟩
  · rw [ht]; exact pairwise_lt_append_fresh _ h.tsorted h.tlt
  · intro e he
    rw [ht] at he; rw [hi]
    rcases List.mem_append.mp he with he | he
    · exact Nat.lt_succ_of_lt (h.tlt e he)
    · simp only [List.mem_singleton] at he; subst he; exact Nat.lt_succ_self _
  · rw [hn]; exact h.nnodup
  · intro e he
    rw [hn] at he; rw [hi]; exact Nat.lt_succ_of_lt (h.nlt e he)
  · intro n hn' t' ht'
    rw [hn] at hn'; rw [ht] at ht'
    rcases List.mem_append.mp ht' with ht' | ht'
    · exact h.disj n hn' t' ht'
    · simp only [List.mem_singleton] at ht'; subst ht'
      exact Nat.ne_of_lt (h.nlt n hn')

/-- nothing spawned (an id may be taken) -/
theorem Ids.same {s s' : St} (h : Ids s) (ht : s'.tasks = s.tasks) (hn : s'.notes = s.notes)
    (hi : s.nextId ≤ s'.nextId) : Ids s' := by
  refine ⟨by rw [ht]; exact h.tsorted, ?_, by rw [hn]; exact h.nnodup, ?_, ?_⟩
  · intro e he; rw [ht] at he; exact Nat.lt_of_lt_of_le (h.tlt e he) hi
  · intro e he; rw [hn] at he; exact Nat.lt_of_lt_of_le (h.nlt e he) hi
  · intro n hn' t ht'; rw [hn] at hn'; rw [ht] at ht'; exact h.disj n hn' t ht'

theorem Ids.removeKey {s : St} (dist : Nat → Nat) (h : Ids s) (k : Nat) : Ids (removeKey dist s k) :=
  h.push (.delete k) rfl rfl rfl

theorem Ids.foldl_removeKey (dist : Nat → Nat) (ks : List Nat) {s : St} (h : Ids s) :
    Ids (ks.foldl (SafeNet.Store.removeKey dist) s) := by
  induction ks generalizing s with
  | nil => exact h
  | cons k ks ih => exact ih (h.removeKey dist k)

theorem Ids.putVerified {s : St} (cfg : Cfg) (dist : Nat → Nat) (h : Ids s) (k v : Nat) (rt : RType) :
    Ids (putVerified cfg dist s k v rt).1 := by
  rcases putVerified_shape cfg dist s k v rt with ⟨_, hr⟩ | hr | hr | ⟨f, hr⟩
  · rw [hr]; exact h.same rfl rfl (Nat.le_refl _)
  · rw [hr]; exact h.same rfl rfl (Nat.le_refl _)
  · rw [hr]; exact h.push (.write k v rt) rfl rfl rfl
  · rw [hr]; exact (h.removeKey dist f).push (.write k v rt) rfl rfl rfl

theorem Ids.runTask {s : St} (h : Ids s) (id : Nat) : Ids (runTask s id).1 := by
  unfold SafeNet.Store.runTask
  split
  · exact h
  · rename_i t ht
    split
    · have hin := lookup_some_mem ht
      have h1 := pairwise_map_erase h.tsorted id
      have h2 : ∀ e ∈ erase id s.tasks, e.1 < s.nextId := fun e he => h.tlt e (mem_erase.mp he).1
      have h5 : ∀ n ∈ s.notes, ∀ t ∈ erase id s.tasks, n.1 ≠ t.1 := fun n hn t ht' => h.disj n hn t (mem_erase.mp ht').1
      cases t with
      | write k v rt =>
        refine ⟨h1, h2, ?_, ?_, ?_⟩
        · show ((s.notes ++ [(id, (⟨k, rt⟩ : Note))]).map (·.1)).Nodup
          rw [List.map_append, List.nodup_append]
          refine ⟨h.nnodup, by simp, ?_⟩
          intro a ha b hb
          simp only [List.map_cons, List.map_nil, List.mem_singleton] at hb
          obtain ⟨n, hn, rfl⟩ := List.mem_map.mp ha
          rw [hb]
          exact h.disj n hn _ hin
        · intro e he
          rcases List.mem_append.mp he with he | he
          · exact h.nlt e he
          · simp only [List.mem_singleton] at he; subst he; exact h.tlt _ hin
        · intro n hn t' ht'
          rcases List.mem_append.mp hn with hn | hn
          · exact h5 n hn t' ht'
          · simp only [List.mem_singleton] at hn; subst hn
            exact fun e => (mem_erase.mp ht').2 e.symm
      | delete k => exact ⟨h1, h2, h.nnodup, h.nlt, h5⟩
      | flush n => exact ⟨h1, h2, h.nnodup, h.nlt, h5⟩
    · exact h

theorem Ids.deliver {s : St} (dist : Nat → Nat) (h : Ids s) (id : Nat) : Ids (deliver dist s id).1 := by
  unfold SafeNet.Store.deliver
  split
  · exact h
  · split
    · refine ⟨h.tsorted, h.tlt, nodup_map_erase h.nnodup id, fun e he => h.nlt e (mem_erase.mp he).1, ?_⟩
      intro n hn t ht
      exact h.disj n (mem_erase.mp hn).1 t ht
    · exact h

theorem Ids.step {s : St} (cfg : Cfg) (dist : Nat → Nat) (h : Ids s) (op : Op) : Ids (step cfg dist s op).1 := by
  cases op with
  | put k v rt => exact h.putVerified cfg dist k v rt
  | remove k => exact h.removeKey dist k
  | run id => exact h.runTask id
  | deliver id => exact h.deliver dist id
  | setRange r => exact h.same rfl rfl (Nat.le_refl _)
  | cleanup =>
    simp only [SafeNet.Store.step, cleanup]
    split
    · exact h
    · split
      · exact h
      · exact h.foldl_removeKey dist _
  | payment =>
    simp only [SafeNet.Store.step, payment_eq]
    exact h.same rfl rfl (Nat.le_succ _)
  | crash torn =>
    simp only [SafeNet.Store.step]
    split
    · refine ⟨?_, ?_, by simp [restart], ?_, ?_⟩
      · rw [restart_tasks]; simp
      · intro e he; rw [restart_tasks] at he; cases he
      · intro e he; simp [restart] at he
      · intro n hn; simp [restart] at hn
    · exact h

theorem Ids.runFrom (cfg : Cfg) (dist : Nat → Nat) (ops : List Op) {s : St} (h : Ids s) : Ids (runFrom cfg dist s ops) := by
  induction ops generalizing s with
  | nil => exact h
  | cons op ops ih => exact ih (h.step cfg dist op)

theorem Ids.init (cfg : Cfg) (dist : Nat → Nat) : Ids (init cfg dist) := by
  refine ⟨?_, ?_, by simp [SafeNet.Store.init, restart], ?_, ?_⟩
  · simp only [SafeNet.Store.init]; rw [restart_tasks]; simp
  · intro e he; simp only [SafeNet.Store.init] at he; rw [restart_tasks] at he; cases he
  · intro e he; simp [SafeNet.Store.init, restart] at he
  · intro n hn; simp [SafeNet.Store.init, restart] at hn

/-! ## every record file is accounted for -/

def DiskCov (s : St) : Prop :=
  ∀ k ∈ keys s.disk, k ∈ keys s.index ∨ hasNote s k ∨ hasDelete s k

theorem mem_keys_erase {α : Type} {k k' : Nat} {l : List (Nat × α)} : k' ∈ keys (erase k l) ↔ k' ∈ keys l ∧ k' ≠ k := by
  rw [keys_erase, List.mem_filter]
  simp

theorem mem_keys_insert {α : Type} {k k' : Nat} {a : α} {l : List (Nat × α)} :
    k' ∈ keys (insert k a l) ↔ k' = k ∨ (k' ∈ keys l ∧ k' ≠ k) := by
  rw [keys_insert, List.mem_cons, List.mem_filter]
  simp

theorem DiskCov.removeKey {s : St} (dist : Nat → Nat) (h : DiskCov s) (f : Nat) : DiskCov (removeKey dist s f) := by
  intro k hk
  rcases h k hk with hi | ⟨i, rt, hn⟩ | ⟨j, hj⟩
  · by_cases e : k = f
    · subst e
      exact .inr (.inr ⟨s.nextId, by simp [SafeNet.Store.removeKey]⟩)
    · exact .inl (mem_keys_erase.mpr ⟨hi, e⟩)
  · exact .inr (.inl ⟨i, rt, hn⟩)
  · exact .inr (.inr ⟨j, by simp [SafeNet.Store.removeKey, hj]⟩)

theorem DiskCov.foldl_removeKey (dist : Nat → Nat) (ks : List Nat) {s : St} (h : DiskCov s) :
    DiskCov (ks.foldl (SafeNet.Store.removeKey dist) s) := by
  induction ks generalizing s with
  | nil => exact h
  | cons k ks ih => exact ih (h.removeKey dist k)

/-- index, files and notifications unchanged, pending tasks only added -/
theorem DiskCov.grow {s s' : St} (h : DiskCov s) (hd : s'.disk = s.disk) (hi : s'.index = s.index) (hn : s'.notes = s.notes)
    (ht : ∀ e ∈ s.tasks, e ∈ s'.tasks) : DiskCov s' := by
  intro k hk
  rw [hd] at hk
  rcases h k hk with h1 | ⟨i, rt, h2⟩ | ⟨j, h3⟩
  · exact .inl (by rw [hi]; exact h1)
  · exact .inr (.inl ⟨i, rt, by rw [hn]; exact h2⟩)
  · exact .inr (.inr ⟨j, ht _ h3⟩)

theorem DiskCov.putVerified {s : St} (cfg : Cfg) (dist : Nat → Nat) (h : DiskCov s) (k v : Nat) (rt : RType) :
    DiskCov (putVerified cfg dist s k v rt).1 := by
  rcases putVerified_shape cfg dist s k v rt with ⟨_, hr⟩ | hr | hr | ⟨f, hr⟩
  · rw [hr]; exact h.grow rfl rfl rfl (fun e he => he)
  · rw [hr]; exact h.grow rfl rfl rfl (fun e he => he)
  · rw [hr]; exact h.grow rfl rfl rfl (fun e he => List.mem_append_left _ he)
  · rw [hr]; exact (h.removeKey dist f).grow rfl rfl rfl (fun e he => List.mem_append_left _ he)

theorem DiskCov.runTask {s : St} (hi : Ids s) (h : DiskCov s) (id : Nat) : DiskCov (runTask s id).1 := by
  unfold SafeNet.Store.runTask
  split
  · exact h
  · rename_i t ht
    split
    · have hin := lookup_some_mem ht
      -- a pending delete other than the task that ran is still pending
      have keep : ∀ j k', (j, Task.delete k') ∈ s.tasks → t ≠ .delete k' → (j, Task.delete k') ∈ erase id s.tasks := by
        intro j k' hj hne
        refine mem_erase.mpr ⟨hj, ?_⟩
        intro (e : j = id)
        subst e
        exact hne (pairwise_lt_unique hi.tsorted hin hj)
      cases t with
      | write k v rt =>
        intro k' hk'
        rcases mem_keys_insert.mp hk' with rfl | ⟨hk', hne⟩
        · exact .inr (.inl ⟨id, rt, by simp⟩)
        · rcases h k' hk' with h1 | ⟨i, rt', h2⟩ | ⟨j, h3⟩
          · exact .inl h1
          · exact .inr (.inl ⟨i, rt', List.mem_append_left _ h2⟩)
          · exact .inr (.inr ⟨j, keep j k' h3 (by intro e; cases e)⟩)
      | delete k =>
        intro k' hk'
        obtain ⟨hk', hne⟩ := mem_keys_erase.mp hk'
        rcases h k' hk' with h1 | ⟨i, rt', h2⟩ | ⟨j, h3⟩
        · exact .inl h1
        · exact .inr (.inl ⟨i, rt', h2⟩)
        · exact .inr (.inr ⟨j, keep j k' h3 (by intro e; cases e; exact hne rfl)⟩)
      | flush n =>
        intro k' hk'
        rcases h k' hk' with h1 | ⟨i, rt', h2⟩ | ⟨j, h3⟩
        · exact .inl h1
        · exact .inr (.inl ⟨i, rt', h2⟩)
        · exact .inr (.inr ⟨j, keep j k' h3 (by intro e; cases e)⟩)
    · exact h

theorem DiskCov.deliver {s : St} (dist : Nat → Nat) (hi : Ids s) (h : DiskCov s) (id : Nat) : DiskCov (deliver dist s id).1 := by
  unfold SafeNet.Store.deliver
  split
  · exact h
  · rename_i n hn
    split
    · have hin := lookup_some_mem hn
      intro k hk
      have hk' : k ∈ keys s.disk := hk
      show k ∈ keys (insert n.k n.rt s.index) ∨ hasNote _ k ∨ hasDelete _ k
      rcases h k hk' with h1 | ⟨i, rt, h2⟩ | ⟨j, h3⟩
      · by_cases e : k = n.k
        · exact .inl (mem_keys_insert.mpr (.inl e))
        · exact .inl (mem_keys_insert.mpr (.inr ⟨h1, e⟩))
      · by_cases e : i = id
        · subst e
          have := nodup_unique hi.nnodup hin h2
          exact .inl (mem_keys_insert.mpr (.inl (by rw [this])))
        · exact .inr (.inl ⟨i, rt, mem_erase.mpr ⟨h2, e⟩⟩)
      · exact .inr (.inr ⟨j, h3⟩)
    · exact h

/-- every hex file name is taken for a key by the scan of the current source (regenerated flags) -/
theorem nameKept_true (k : Nat) : nameKept k = true := by
  simp [nameKept, show Gen.Store.scanAcceptsEveryHexName = true from rfl, show Gen.Store.fileNameIsFullHex = true from rfl]

theorem mem_scanIndex {cfg : Cfg} {disk : List (Nat × File)} {k : Nat} {rt : RType} :
    (k, rt) ∈ scanIndex cfg disk ↔ ∃ f, (k, f) ∈ disk ∧ scanEntry cfg k f = some rt := by
  induction disk with
  | nil => simp [scanIndex]
  | cons x xs ih =>
    obtain ⟨k', f'⟩ := x
    simp only [scanIndex]
    split
    · rename_i rt' hst
      simp only [List.mem_cons, Prod.mk.injEq, ih]
      constructor
      · rintro (⟨rfl, rfl⟩ | ⟨f, hf, hs⟩)
        · exact ⟨f', .inl ⟨rfl, rfl⟩, hst⟩
        · exact ⟨f, .inr hf, hs⟩
      · rintro ⟨f, (⟨rfl, rfl⟩ | hf), hs⟩
        · rw [hst] at hs; cases hs; exact .inl ⟨rfl, rfl⟩
        · exact .inr ⟨f, hf, hs⟩
    · rename_i hst
      simp only [List.mem_cons, Prod.mk.injEq, ih]
      constructor
      · rintro ⟨f, hf, hs⟩; exact ⟨f, .inr hf, hs⟩
      · rintro ⟨f, (⟨rfl, rfl⟩ | hf), hs⟩
        · rw [hst] at hs; cases hs
        · exact ⟨f, hf, hs⟩

/-- after a start-up scan every remaining record file is listed -/
theorem DiskCov.restart (cfg : Cfg) (dist : Nat → Nat) (disk : List (Nat × File)) (hist : Option Nat) (n : Nat) :
    DiskCov (restart cfg dist disk hist n) := by
  intro k hk
  have hk' : k ∈ keys (disk.filter (fun e => (scanEntry cfg e.1 e.2).isSome || !nameKept e.1)) := hk
  obtain ⟨e, he, rfl⟩ := List.mem_map.mp hk'
  obtain ⟨hm, hp⟩ := List.mem_filter.mp he
  rw [nameKept_true] at hp
  simp only [Bool.not_true, Bool.or_false] at hp
  cases hs : scanEntry cfg e.1 e.2 with
  | none => rw [hs] at hp; cases hp
  | some rt =>
    left
    show e.1 ∈ keys (scanIndex cfg disk)
    exact List.mem_map.mpr ⟨(e.1, rt), mem_scanIndex.mpr ⟨e.2, hm, hs⟩, rfl⟩

theorem DiskCov.step {s : St} (cfg : Cfg) (dist : Nat → Nat) (hi : Ids s) (h : DiskCov s) (op : Op) :
    DiskCov (step cfg dist s op).1 := by
  cases op with
  | put k v rt => exact h.putVerified cfg dist k v rt
  | remove k => exact h.removeKey dist k
  | run id => exact h.runTask hi id
  | deliver id => exact h.deliver dist hi id
  | setRange r => exact h.grow rfl rfl rfl (fun e he => he)
  | cleanup =>
    simp only [SafeNet.Store.step, cleanup]
    split
    · exact h
    · split
      · exact h
      · exact h.foldl_removeKey dist _
  | payment =>
    simp only [SafeNet.Store.step, payment_eq]
    exact h.grow rfl rfl rfl (fun e he => he)
  | crash torn =>
    simp only [SafeNet.Store.step]
    split
    · exact DiskCov.restart cfg dist _ _ _
    · exact h

theorem DiskCov.init (cfg : Cfg) (dist : Nat → Nat) : DiskCov (init cfg dist) := DiskCov.restart cfg dist [] none 0

end SafeNet.Store
