import SafeNet.Model.Store
/-!
Helper lemmas about the record-store model: association lists, the FIFO cache, and the two step
invariants `Sound` (every stored byte string was handed over by a `put` of that key) and `Views`
(the three views of the held set agree).  Property statements live in `Props/C01|C02|C10`.
-/
namespace SafeNet.Store

/-! ## Association lists -/

section AList
variable {α : Type}

theorem mem_erase {k : Nat} {l : List (Nat × α)} {e : Nat × α} : e ∈ erase k l ↔ e ∈ l ∧ e.1 ≠ k := by
  simp [erase, List.mem_filter]

theorem mem_insert {k : Nat} {a : α} {l : List (Nat × α)} {e : Nat × α} :
    e ∈ insert k a l ↔ e = (k, a) ∨ (e ∈ l ∧ e.1 ≠ k) := by
  simp [insert, mem_erase]

theorem lookup_some_mem {k : Nat} {l : List (Nat × α)} {a : α} (h : lookup k l = some a) : (k, a) ∈ l := by
  induction l with
  | nil => simp [lookup] at h
  | cons x xs ih =>
    obtain ⟨k', a'⟩ := x
    simp only [lookup] at h
    split at h
    · rename_i hk; cases h; subst hk; simp
    · exact List.mem_cons_of_mem _ (ih h)

theorem lookup_none_iff {k : Nat} {l : List (Nat × α)} : lookup k l = none ↔ k ∉ keys l := by
  induction l with
  | nil => simp [lookup, keys]
  | cons x xs ih =>
    obtain ⟨k', a'⟩ := x
    simp only [lookup, keys, List.map_cons, List.mem_cons, not_or]
    split
    · rename_i hk; subst hk; simp
    · rename_i hk
      simp only [keys] at ih
      rw [ih]
      constructor
      · intro h; exact ⟨fun e => hk e.symm, h⟩
      · intro h; exact h.2

theorem lookup_isSome_iff {k : Nat} {l : List (Nat × α)} : (lookup k l).isSome ↔ k ∈ keys l := by
  cases h : lookup k l with
  | none => simp [lookup_none_iff.mp h]
  | some a =>
    simp only [Option.isSome_some, true_iff]
    have := lookup_some_mem h
    simp only [keys, List.mem_map]
    exact ⟨_, this, rfl⟩

theorem lookup_erase_self (k : Nat) (l : List (Nat × α)) : lookup k (erase k l) = none := by
  rw [lookup_none_iff]
  simp [keys, mem_erase]

theorem lookup_erase_ne {k k' : Nat} (h : k' ≠ k) (l : List (Nat × α)) :
    lookup k' (erase k l) = lookup k' l := by
  induction l with
  | nil => simp [erase, lookup]
  | cons x xs ih =>
    obtain ⟨k'', a⟩ := x
    simp only [erase, List.filter_cons] at ih ⊢
    by_cases hk : k'' = k
    · subst hk
      simp only [bne_self_eq_false, Bool.false_eq_true, ↓reduceIte, lookup]
      rw [ih, if_neg (fun e => h e.symm)]
    · have : (k'' != k) = true := by simp [hk]
      simp only [this, ↓reduceIte, lookup]
      rw [ih]

theorem lookup_insert_self (k : Nat) (a : α) (l : List (Nat × α)) : lookup k (insert k a l) = some a := by
  simp [insert, lookup]

theorem lookup_insert_ne {k k' : Nat} (h : k' ≠ k) (a : α) (l : List (Nat × α)) :
    lookup k' (insert k a l) = lookup k' l := by
  simp only [insert, lookup]
  rw [if_neg (fun e => h e.symm), lookup_erase_ne h]

theorem erase_of_not_mem {k : Nat} {l : List (Nat × α)} (h : k ∉ keys l) : erase k l = l := by
  simp only [erase, List.filter_eq_self]
  intro e he
  simp only [bne_iff_ne, ne_eq]
  intro hk
  apply h
  simp only [keys, List.mem_map]
  exact ⟨e, he, hk⟩

theorem keys_erase (k : Nat) (l : List (Nat × α)) : keys (erase k l) = (keys l).filter (· != k) := by
  simp only [keys, erase, List.filter_map]
  rfl

theorem keys_insert (k : Nat) (a : α) (l : List (Nat × α)) :
    keys (insert k a l) = k :: (keys l).filter (· != k) := by
  show k :: keys (erase k l) = _
  rw [keys_erase]

theorem nodup_keys_erase {k : Nat} {l : List (Nat × α)} (h : (keys l).Nodup) : (keys (erase k l)).Nodup := by
  rw [keys_erase]; exact h.filter _

theorem nodup_keys_insert {k : Nat} {a : α} {l : List (Nat × α)} (h : (keys l).Nodup) :
    (keys (insert k a l)).Nodup := by
  rw [keys_insert, List.nodup_cons]
  exact ⟨by simp [List.mem_filter], h.filter _⟩

/-- with duplicate-free keys, membership determines lookup -/
theorem lookup_of_mem {k : Nat} {a : α} {l : List (Nat × α)} (hn : (keys l).Nodup) (h : (k, a) ∈ l) :
    lookup k l = some a := by
  induction l with
  | nil => simp at h
  | cons x xs ih =>
    obtain ⟨k', a'⟩ := x
    simp only [keys, List.map_cons, List.nodup_cons] at hn
    simp only [lookup]
    rcases List.mem_cons.mp h with h | h
    · cases h; simp
    · have : k' ≠ k := by
        intro e; subst e
        exact hn.1 (List.mem_map.mpr ⟨_, h, rfl⟩)
      rw [if_neg this]
      exact ih hn.2 h

end AList

/-! ## FIFO cache: nothing is invented -/

theorem mem_removeOldest {c : List (Nat × Nat × Nat)} {e} (h : e ∈ removeOldest c) : e ∈ c := by
  unfold removeOldest at h
  split at h
  · exact h
  · exact (List.mem_filter.mp h).1

theorem mem_freeUp {size fuel : Nat} {c : List (Nat × Nat × Nat)} {e} (h : e ∈ freeUp size fuel c) : e ∈ c := by
  induction fuel generalizing c with
  | zero => exact h
  | succ n ih =>
    simp only [freeUp] at h
    split at h
    · exact mem_removeOldest (ih h)
    · exact h

theorem mem_pushBack {size now k v : Nat} {c : List (Nat × Nat × Nat)} {e}
    (h : e ∈ pushBack size c now k v) : e = (k, v, now) ∨ e ∈ c := by
  rcases mem_insert.mp h with h | h
  · exact .inl h
  · exact .inr (mem_freeUp h.1)

/-! ## the metrics flush is written in place (regenerated flag `flushSynchronous`) -/

theorem flushSync : Gen.Store.flushSynchronous = true := rfl

/-- `payment_received` as the current source has it: count and metrics file updated together, nothing spawned -/
theorem payment_eq (s : St) : payment s = paymentSync s := by
  simp [payment, flushSync]

/-- `with_config` as the current source has it: nothing spawned, the metrics file holds the restored count -/
theorem restart_tasks (cfg : Cfg) (dist : Nat → Nat) (disk : List (Nat × File)) (hist : Option Nat) (n : Nat) :
    (restart cfg dist disk hist n).tasks = [] := by
  simp [restart, flushSync]

theorem restart_hist (cfg : Cfg) (dist : Nat → Nat) (disk : List (Nat × File)) (hist : Option Nat) (n : Nat) :
    (restart cfg dist disk hist n).hist = some (hist.getD 0) := by
  simp [restart, flushSync]

/-! ## `Sound`: every cached value, file and pending write carries a value put for that key -/

def fileVal : File → Nat
  | .full v => v
  | .torn v _ => v

def readVal : Read → Nat
  | .whole v => v
  | .part v _ => v

structure Sound (P : Nat → Nat → Prop) (s : St) : Prop where
  cache : ∀ e ∈ s.cache, P e.1 e.2.1
  disk : ∀ e ∈ s.disk, P e.1 (fileVal e.2)
  tasks : ∀ i k v rt, (i, Task.write k v rt) ∈ s.tasks → P k v

variable {P : Nat → Nat → Prop}

theorem Sound.removeKey {dist : Nat → Nat} {s : St} (h : Sound P s) (k : Nat) : Sound P (removeKey dist s k) := by
  refine ⟨?_, h.disk, ?_⟩
  · intro e he
    exact h.cache e (mem_erase.mp he).1
  · intro i k' v rt hm
    simp only [SafeNet.Store.removeKey, List.mem_append, List.mem_singleton, Prod.mk.injEq] at hm
    rcases hm with hm | hm
    · exact h.tasks i k' v rt hm
    · cases hm.2

theorem Sound.foldl_removeKey {dist : Nat → Nat} (ks : List Nat) {s : St} (h : Sound P s) :
    Sound P (ks.foldl (SafeNet.Store.removeKey dist) s) := by
  induction ks generalizing s with
  | nil => exact h
  | cons k ks ih => exact ih (h.removeKey k)

theorem Sound.putVerified {cfg : Cfg} {dist : Nat → Nat} {s : St} (h : Sound P s) {k v : Nat} (rt : RType)
    (hp : P k v) : Sound P (putVerified cfg dist s k v rt).1 := by
  have hc : ∀ e ∈ pushBack cfg.cacheSize (erase k s.cache) s.clock k v, P e.1 e.2.1 := by
    intro e he
    rcases mem_pushBack he with rfl | he
    · exact hp
    · exact h.cache e (mem_erase.mp he).1
  unfold SafeNet.Store.putVerified
  split
  · exact ⟨hc, h.disk, h.tasks⟩
  · have h1 : Sound P { s with cache := pushBack cfg.cacheSize (erase k s.cache) s.clock k v, clock := s.clock + 1 } :=
      ⟨hc, h.disk, h.tasks⟩
    simp only
    split
    · exact ⟨fun e he => h1.cache e (mem_erase.mp he).1, h1.disk, h1.tasks⟩
    · rename_i s2 hs2
      have h2 : Sound P s2 := by
        unfold prune at hs2
        split at hs2
        · cases hs2; exact h1
        · split at hs2
          · cases hs2; exact h1
          · split at hs2
            · cases hs2
            · cases hs2; exact h1.removeKey _
      refine ⟨h2.cache, h2.disk, ?_⟩
      intro i k' v' rt' hm
      simp only [List.mem_append, List.mem_singleton, Prod.mk.injEq, Task.write.injEq] at hm
      rcases hm with hm | ⟨_, rfl, rfl, _⟩
      · exact h2.tasks i k' v' rt' hm
      · exact hp

theorem Sound.runTask {s : St} (h : Sound P s) (id : Nat) : Sound P (runTask s id).1 := by
  unfold SafeNet.Store.runTask
  split
  · exact h
  · rename_i t ht
    split
    · have htasks : ∀ i k v rt, (i, Task.write k v rt) ∈ erase id s.tasks → P k v :=
        fun i k v rt hm => h.tasks i k v rt (mem_erase.mp hm).1
      cases t with
      | write k v rt =>
        refine ⟨h.cache, ?_, htasks⟩
        intro e he
        rcases mem_insert.mp he with rfl | he
        · exact h.tasks id k v rt (lookup_some_mem ht)
        · exact h.disk e he.1
      | delete k => exact ⟨h.cache, fun e he => h.disk e (mem_erase.mp he).1, htasks⟩
      | flush n => exact ⟨h.cache, h.disk, htasks⟩
    · exact h

theorem Sound.deliver {dist : Nat → Nat} {s : St} (h : Sound P s) (id : Nat) : Sound P (deliver dist s id).1 := by
  unfold SafeNet.Store.deliver
  split
  · exact h
  · split
    · exact ⟨h.cache, h.disk, h.tasks⟩
    · exact h

theorem Sound.cleanup {cfg : Cfg} {dist : Nat → Nat} {s : St} (h : Sound P s) : Sound P (cleanup cfg dist s) := by
  unfold SafeNet.Store.cleanup
  split
  · exact h
  · split
    · exact h
    · exact Sound.foldl_removeKey _ h

theorem mem_crashDisk {s : St} (h : Sound P s) (torn : List (Nat × Nat)) :
    ∀ e ∈ crashDisk s torn, P e.1 (fileVal e.2) := by
  unfold crashDisk
  have : ∀ (d : List (Nat × File)), (∀ e ∈ d, P e.1 (fileVal e.2)) →
      ∀ e ∈ torn.foldl (fun d t =>
        match lookup t.1 s.tasks with
        | some (.write k v _) => insert k (.torn v t.2) d
        | _ => d) d, P e.1 (fileVal e.2) := by
    induction torn with
    | nil => intro d hd; exact hd
    | cons t ts ih =>
      intro d hd
      simp only [List.foldl_cons]
      apply ih
      split
      · rename_i rt ht
        intro e he
        rcases mem_insert.mp he with rfl | he
        · exact h.tasks _ _ _ rt (lookup_some_mem ht)
        · exact hd e he.1
      · exact hd
  exact this s.disk h.disk

theorem Sound.restart {cfg : Cfg} {dist : Nat → Nat} {disk : List (Nat × File)} (hd : ∀ e ∈ disk, P e.1 (fileVal e.2))
    (hist : Option Nat) (n : Nat) : Sound P (restart cfg dist disk hist n) := by
  refine ⟨?_, ?_, ?_⟩
  · intro e he; simp [SafeNet.Store.restart] at he
  · intro e he
    simp only [SafeNet.Store.restart, List.mem_filter] at he
    exact hd e he.1
  · intro i k v rt hm
    simp [SafeNet.Store.restart] at hm

theorem Sound.step {cfg : Cfg} {dist : Nat → Nat} {s : St} (h : Sound P s) (op : Op)
    (hp : ∀ k v rt, op = .put k v rt → P k v) : Sound P (step cfg dist s op).1 := by
  cases op with
  | put k v rt => exact h.putVerified rt (hp k v rt rfl)
  | remove k => exact h.removeKey k
  | run id => exact h.runTask id
  | deliver id => exact h.deliver id
  | setRange r => exact ⟨h.cache, h.disk, h.tasks⟩
  | cleanup => exact h.cleanup
  | payment =>
    simp only [SafeNet.Store.step, payment_eq]
    exact ⟨h.cache, h.disk, h.tasks⟩
  | crash torn =>
    simp only [SafeNet.Store.step]
    split
    · exact Sound.restart (mem_crashDisk h torn) _ _
    · exact h

theorem Sound.runFrom {cfg : Cfg} {dist : Nat → Nat} (ops : List Op) {s : St} (h : Sound P s)
    (hp : ∀ op ∈ ops, ∀ k v rt, op = .put k v rt → P k v) : Sound P (runFrom cfg dist s ops) := by
  induction ops generalizing s with
  | nil => exact h
  | cons op ops ih =>
    exact ih (h.step op (hp op (List.mem_cons_self ..))) (fun o ho => hp o (List.mem_cons_of_mem _ ho))

theorem Sound.init (cfg : Cfg) (dist : Nat → Nat) : Sound P (init cfg dist) :=
  Sound.restart (by intro e he; cases he) _ _

/-- what `get` returns comes from the cache or from a file of that key -/
theorem Sound.get {cfg : Cfg} {s : St} (h : Sound P s) {k : Nat} {r : Read} (hg : get cfg s k = some r) :
    P k (readVal r) ∧ (cfg.encrypt = true → ∃ v, r = .whole v) := by
  unfold SafeNet.Store.get at hg
  split at hg
  · rename_i v t hc
    cases hg
    exact ⟨h.cache _ (lookup_some_mem hc), fun _ => ⟨v, rfl⟩⟩
  · split at hg
    · cases hg
    · cases hd : lookup k s.disk with
      | none => simp [hd] at hg
      | some f =>
        have hm := h.disk _ (lookup_some_mem hd)
        simp only [hd, Option.bind_some] at hg
        cases f with
        | full v => simp only [readFile, Option.some.injEq] at hg; subst hg; exact ⟨hm, fun _ => ⟨v, rfl⟩⟩
        | torn v n =>
          simp only [readFile] at hg
          split at hg
          · cases hg
          · rename_i he
            simp only [Option.some.injEq] at hg; subst hg
            refine ⟨hm, fun h' => ?_⟩
            -- a decryption failure yields no record in the current source (regenerated flag)
            exact absurd (by simp [h', show Gen.Store.decryptFailureSkips = true from rfl]) he

end SafeNet.Store
