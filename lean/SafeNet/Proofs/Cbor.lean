import SafeNet.Base.Cbor
/-!
Lemmas about `SafeNet.Cbor`: argument / head round trip, the centre-piece `decode_encode` (the decoder inverts the
shortest-form encoder on every well-formed item, whatever follows), fuel monotonicity, prefix-freeness
(`prefix_rejected`: no strict prefix of an encoding decodes) and injectivity of the encoder.
-/
namespace SafeNet.Cbor

/-! ## fixed-width integers -/

theorem toBE_length (k n : Nat) : (toBE k n).length = k := by
  induction k with
  | zero => rfl
  | succ k ih => simp [toBE, ih]

theorem foldl_toBE (k n a : Nat) :
    (toBE k n).foldl (fun a b => a * 256 + b) a = a * 256 ^ k + n % 256 ^ k := by
  induction k generalizing a with
  | zero => simp [toBE, Nat.mod_one]
  | succ k ih =>
    simp only [toBE, List.foldl_cons, ih]
    rw [Nat.mod_pow_succ, Nat.pow_succ, Nat.add_mul, Nat.mul_assoc, Nat.mul_comm 256 (256 ^ k),
      Nat.mul_comm (n / 256 ^ k % 256)]
    omega

theorem fromBE_toBE (k n : Nat) (h : n < 256 ^ k) : fromBE (toBE k n) = n := by
  simp [fromBE, foldl_toBE, Nat.mod_eq_of_lt h]

theorem readBE_toBE (k n : Nat) (rest : List Nat) (h : n < 256 ^ k) :
    readBE k (toBE k n ++ rest) = some (n, rest) := by
  have hl := toBE_length k n
  unfold readBE
  rw [if_neg (by simp [hl])]
  congr 2
  · rw [List.take_append_of_le_length (by omega), List.take_of_length_le (by omega), fromBE_toBE k n h]
  · rw [List.drop_append_of_le_length (by omega), List.drop_of_length_le (by omega)]; rfl

theorem readBE_one (n : Nat) (rest : List Nat) : readBE 1 (n :: rest) = some (n, rest) := by
  simp [readBE, fromBE]

theorem readBE_short (k : Nat) (bs : List Nat) (h : bs.length < k) : readBE k bs = none := by
  simp [readBE, h]

theorem takeN_append (s rest : List Nat) : takeN s.length (s ++ rest) = some (s, rest) := by
  simp [takeN]

theorem takeN_short (n : Nat) (bs : List Nat) (h : bs.length < n) : takeN n bs = none := by
  simp [takeN, h]

/-! ## arguments and heads -/

theorem argInfo_le (n : Nat) : argInfo n ≤ 27 := by
  unfold argInfo; repeat' split
  all_goals omega

/-- number of bytes after the initial byte -/
def argLen (n : Nat) : Nat :=
  if n < 24 then 0 else if n < 256 then 1 else if n < 65536 then 2 else if n < 4294967296 then 4 else 8

theorem argBytes_length (n : Nat) : (argBytes n).length = argLen n := by
  unfold argBytes argLen; repeat' split
  all_goals simp [toBE_length]

theorem readArg_arg (n : Nat) (rest : List Nat) (h : n < 18446744073709551616) :
    readArg (argInfo n) (argBytes n ++ rest) = some (n, rest) := by
  unfold argInfo argBytes
  by_cases c0 : n < 24
  · simp [c0, readArg]
  by_cases c1 : n < 256
  · simp [c0, c1, readArg, readBE_one]
  by_cases c2 : n < 65536
  · simp only [c0, c1, c2, if_false, if_true, readArg]
    rw [readBE_toBE _ _ _ (by omega)]; simp
  by_cases c3 : n < 4294967296
  · simp only [c0, c1, c2, c3, if_false, if_true, readArg]
    rw [readBE_toBE _ _ _ (by omega)]; simp
  · simp only [c0, c1, c2, c3, if_false, if_true, readArg]
    rw [readBE_toBE _ _ _ (by omega)]; simp

/-- a cut-off argument is not read -/
theorem readArg_short (n : Nat) (t : List Nat) (h : t.length < argLen n) : readArg (argInfo n) t = none := by
  unfold argLen at h
  unfold argInfo
  by_cases c0 : n < 24
  · simp [c0] at h
  by_cases c1 : n < 256
  · simp only [c0, c1, if_false, if_true] at h ⊢
    simp [readArg, readBE_short _ t h]
  by_cases c2 : n < 65536
  · simp only [c0, c1, c2, if_false, if_true] at h ⊢
    simp [readArg, readBE_short _ t h]
  by_cases c3 : n < 4294967296
  · simp only [c0, c1, c2, c3, if_false, if_true] at h ⊢
    simp [readArg, readBE_short _ t h]
  · simp only [c0, c1, c2, c3, if_false] at h ⊢
    simp [readArg, readBE_short _ t h]

def wfHead : Head → Bool
  | .uint n => n < 18446744073709551616
  | .nint m => m < 18446744073709551616
  | .bytes n => n < 18446744073709551616
  | .text n => n < 18446744073709551616
  | .arr n => n < 18446744073709551616
  | .map n => n < 18446744073709551616
  | .bool _ => true
  | .null => true

theorem encodeHead_length_pos (h : Head) : 0 < (encodeHead h).length := by
  cases h with
  | bool b => cases b <;> simp [encodeHead]
  | _ => simp [encodeHead, encodeArg]

/-- reading back an initial byte `major*32 + info` with a major type `0…5` -/
theorem decodeHead_arg (mj n : Nat) (rest : List Nat) (hm : mj ≤ 5) (h : n < 18446744073709551616) :
    decodeHead (encodeArg mj n ++ rest) = some (headOf mj n, rest) := by
  have hi := argInfo_le n
  simp only [encodeArg, List.cons_append, decodeHead]
  rw [if_neg (by omega), if_neg (by omega), if_neg (by omega), if_pos (by omega)]
  have e1 : (mj * 32 + argInfo n) % 32 = argInfo n := by omega
  have e2 : (mj * 32 + argInfo n) / 32 = mj := by omega
  rw [e1, e2, readArg_arg n rest h]
  rfl

theorem decodeHead_encodeHead (h : Head) (rest : List Nat) (hw : wfHead h = true) :
    decodeHead (encodeHead h ++ rest) = some (h, rest) := by
  cases h with
  | uint n => simp only [wfHead, decide_eq_true_eq] at hw; exact decodeHead_arg 0 n rest (by omega) hw
  | nint n => simp only [wfHead, decide_eq_true_eq] at hw; exact decodeHead_arg 1 n rest (by omega) hw
  | bytes n => simp only [wfHead, decide_eq_true_eq] at hw; exact decodeHead_arg 2 n rest (by omega) hw
  | text n => simp only [wfHead, decide_eq_true_eq] at hw; exact decodeHead_arg 3 n rest (by omega) hw
  | arr n => simp only [wfHead, decide_eq_true_eq] at hw; exact decodeHead_arg 4 n rest (by omega) hw
  | map n => simp only [wfHead, decide_eq_true_eq] at hw; exact decodeHead_arg 5 n rest (by omega) hw
  | bool b => cases b <;> simp [encodeHead, decodeHead]
  | null => simp [encodeHead, decodeHead]

/-- no strict prefix of `encodeArg` decodes as a head -/
theorem arg_prefix_none (mj n k : Nat) (hm : mj ≤ 5) (hk : k < (encodeArg mj n).length) :
    decodeHead ((encodeArg mj n).take k) = none := by
  have hi := argInfo_le n
  simp only [encodeArg, List.length_cons, argBytes_length] at hk
  cases k with
  | zero => rfl
  | succ j =>
    simp only [encodeArg, List.take_succ_cons, decodeHead]
    rw [if_neg (by omega), if_neg (by omega), if_neg (by omega), if_pos (by omega)]
    have e1 : (mj * 32 + argInfo n) % 32 = argInfo n := by omega
    rw [e1, readArg_short n _ (by rw [List.length_take, argBytes_length]; omega)]
    rfl

theorem head_prefix_none (h : Head) (k : Nat) (hk : k < (encodeHead h).length) :
    decodeHead ((encodeHead h).take k) = none := by
  cases h with
  | uint n => exact arg_prefix_none 0 n k (by omega) hk
  | nint n => exact arg_prefix_none 1 n k (by omega) hk
  | bytes n => exact arg_prefix_none 2 n k (by omega) hk
  | text n => exact arg_prefix_none 3 n k (by omega) hk
  | arr n => exact arg_prefix_none 4 n k (by omega) hk
  | map n => exact arg_prefix_none 5 n k (by omega) hk
  | bool b =>
    cases b <;> (simp only [encodeHead, List.length_cons, List.length_nil] at hk
                 have : k = 0 := by omega
                 subst this; rfl)
  | null =>
    simp only [encodeHead, List.length_cons, List.length_nil] at hk
    have : k = 0 := by omega
    subst this; rfl

/-! ## sequences -/

theorem decodeSeq_encodeList (dec : List Nat → Option (Val × List Nat)) (xs : List Val) (rest : List Nat)
    (h : ∀ x ∈ xs, ∀ r, dec (encode x ++ r) = some (x, r)) :
    decodeSeq dec xs.length (encodeList xs ++ rest) = some (xs, rest) := by
  induction xs with
  | nil => simp [decodeSeq, encodeList]
  | cons x xs ih =>
    simp only [List.length_cons, encodeList, List.append_assoc, decodeSeq]
    rw [h x (by simp)]
    simp only
    rw [ih (fun y hy r => h y (by simp [hy]) r)]

theorem decodePairs_encodePairs (dec : List Nat → Option (Val × List Nat)) (ps : List (Val × Val)) (rest : List Nat)
    (h : ∀ p ∈ ps, (∀ r, dec (encode p.1 ++ r) = some (p.1, r)) ∧ (∀ r, dec (encode p.2 ++ r) = some (p.2, r))) :
    decodePairs dec ps.length (encodePairs ps ++ rest) = some (ps, rest) := by
  induction ps with
  | nil => simp [decodePairs, encodePairs]
  | cons p ps ih =>
    obtain ⟨k, v⟩ := p
    simp only [List.length_cons, encodePairs, List.append_assoc, decodePairs]
    rw [(h (k, v) (by simp)).1]
    simp only
    rw [(h (k, v) (by simp)).2]
    simp only
    rw [ih (fun y hy => h y (by simp [hy]))]

theorem wfList_mem {xs : List Val} (h : wfList xs = true) : ∀ x ∈ xs, wf x = true := by
  induction xs with
  | nil => simp
  | cons y ys ih =>
    simp only [wfList, Bool.and_eq_true] at h
    intro x hx
    rcases List.mem_cons.mp hx with rfl | hx
    · exact h.1
    · exact ih h.2 x hx

theorem wfPairs_mem {ps : List (Val × Val)} (h : wfPairs ps = true) :
    ∀ p ∈ ps, wf p.1 = true ∧ wf p.2 = true := by
  induction ps with
  | nil => simp
  | cons q qs ih =>
    obtain ⟨k, v⟩ := q
    simp only [wfPairs, Bool.and_eq_true] at h
    intro p hp
    rcases List.mem_cons.mp hp with rfl | hp
    · exact ⟨h.1, h.2.1⟩
    · exact ih h.2.2 p hp

theorem encodeList_length_mem {xs : List Val} : ∀ x ∈ xs, (encode x).length ≤ (encodeList xs).length := by
  induction xs with
  | nil => simp
  | cons y ys ih =>
    intro x hx
    simp only [encodeList, List.length_append]
    rcases List.mem_cons.mp hx with rfl | hx
    · omega
    · have := ih x hx; omega

theorem encodePairs_length_mem {ps : List (Val × Val)} :
    ∀ p ∈ ps, (encode p.1).length ≤ (encodePairs ps).length ∧ (encode p.2).length ≤ (encodePairs ps).length := by
  induction ps with
  | nil => simp
  | cons q qs ih =>
    obtain ⟨k, v⟩ := q
    intro p hp
    simp only [encodePairs, List.length_append]
    rcases List.mem_cons.mp hp with rfl | hp
    · constructor <;> simp only <;> omega
    · have := ih p hp; omega

theorem encode_length_pos (v : Val) : 0 < (encode v).length := by
  cases v <;> simp only [encode, List.length_append]
  all_goals first
    | exact encodeHead_length_pos _
    | (rename_i s; have := encodeHead_length_pos (.bytes s.length); have := encodeHead_length_pos (.text s.length)
       have := encodeHead_length_pos (.arr s.length); have := encodeHead_length_pos (.map s.length); omega)

/-! ## the decoder inverts the encoder -/

theorem decodeF_encode (v : Val) (fuel : Nat) (rest : List Nat) (hw : wf v = true)
    (hf : (encode v).length ≤ fuel) : decodeF fuel (encode v ++ rest) = some (v, rest) := by
  match fuel, v with
  | 0, v => exfalso; have := encode_length_pos v; omega
  | f+1, .uint n =>
    simp only [wf] at hw
    simp [encode, decodeF, decodeHead_encodeHead _ _ (show wfHead (.uint n) = true from hw)]
  | f+1, .nint m =>
    simp only [wf] at hw
    simp [encode, decodeF, decodeHead_encodeHead _ _ (show wfHead (.nint m) = true from hw)]
  | f+1, .bool b => simp [encode, decodeF, decodeHead_encodeHead _ _ (show wfHead (.bool b) = true from rfl)]
  | f+1, .null => simp [encode, decodeF, decodeHead_encodeHead _ _ (show wfHead .null = true from rfl)]
  | f+1, .bytes s =>
    simp only [wf, Bool.and_eq_true] at hw
    simp [encode, decodeF, decodeHead_encodeHead _ _ (show wfHead (.bytes s.length) = true from hw.1), takeN_append]
  | f+1, .text s =>
    simp only [wf, Bool.and_eq_true] at hw
    simp [encode, decodeF, decodeHead_encodeHead _ _ (show wfHead (.text s.length) = true from hw.1), takeN_append]
  | f+1, .arr xs =>
    simp only [wf, Bool.and_eq_true] at hw
    have hpos := encodeHead_length_pos (.arr xs.length)
    simp only [encode, List.length_append] at hf
    have ih : ∀ x ∈ xs, ∀ r, decodeF f (encode x ++ r) = some (x, r) := fun x hx r =>
      decodeF_encode x f r (wfList_mem hw.2 x hx) (by have := encodeList_length_mem x hx; omega)
    simp only [encode, List.append_assoc, decodeF,
      decodeHead_encodeHead _ _ (show wfHead (.arr xs.length) = true from hw.1),
      decodeSeq_encodeList (decodeF f) xs rest ih, Option.map_some]
  | f+1, .map ps =>
    simp only [wf, Bool.and_eq_true] at hw
    have hpos := encodeHead_length_pos (.map ps.length)
    simp only [encode, List.length_append] at hf
    have ih : ∀ p ∈ ps, (∀ r, decodeF f (encode p.1 ++ r) = some (p.1, r)) ∧
        (∀ r, decodeF f (encode p.2 ++ r) = some (p.2, r)) := fun p hp =>
      ⟨fun r => decodeF_encode p.1 f r (wfPairs_mem hw.2 p hp).1 (by have := (encodePairs_length_mem p hp).1; omega),
       fun r => decodeF_encode p.2 f r (wfPairs_mem hw.2 p hp).2 (by have := (encodePairs_length_mem p hp).2; omega)⟩
    simp only [encode, List.append_assoc, decodeF,
      decodeHead_encodeHead _ _ (show wfHead (.map ps.length) = true from hw.1),
      decodePairs_encodePairs (decodeF f) ps rest ih, Option.map_some]
termination_by sizeOf v
decreasing_by
  all_goals simp_wf
  · have := List.sizeOf_lt_of_mem hx; omega
  · have := List.sizeOf_lt_of_mem hp
    have : sizeOf p.1 < sizeOf p := by cases p; simp; omega
    omega
  · have := List.sizeOf_lt_of_mem hp
    have : sizeOf p.2 < sizeOf p := by cases p; simp; omega
    omega

/-- **Centre-piece.** The decoder inverts the shortest-form encoder on every well-formed item and hands back exactly
the bytes that followed it. -/
theorem decode_encode (v : Val) (rest : List Nat) (hw : WellFormed v) :
    decode (encode v ++ rest) = some (v, rest) := by
  unfold decode
  exact decodeF_encode v _ rest hw (by simp)

/-! ## fuel monotonicity -/

theorem decodeSeq_mono (d1 d2 : List Nat → Option (Val × List Nat))
    (h : ∀ bs r, d1 bs = some r → d2 bs = some r) :
    ∀ n bs r, decodeSeq d1 n bs = some r → decodeSeq d2 n bs = some r := by
  intro n
  induction n with
  | zero => intro bs r hr; simpa [decodeSeq] using hr
  | succ n ih =>
    intro bs r hr
    simp only [decodeSeq] at hr ⊢
    cases h1 : d1 bs with
    | none => simp [h1] at hr
    | some p =>
      obtain ⟨v, r1⟩ := p
      rw [h1] at hr
      rw [h bs _ h1]
      simp only at hr ⊢
      cases h2 : decodeSeq d1 n r1 with
      | none => simp [h2] at hr
      | some q => rw [h2] at hr; rw [ih r1 q h2]; exact hr

theorem decodePairs_mono (d1 d2 : List Nat → Option (Val × List Nat))
    (h : ∀ bs r, d1 bs = some r → d2 bs = some r) :
    ∀ n bs r, decodePairs d1 n bs = some r → decodePairs d2 n bs = some r := by
  intro n
  induction n with
  | zero => intro bs r hr; simpa [decodePairs] using hr
  | succ n ih =>
    intro bs r hr
    simp only [decodePairs] at hr ⊢
    cases h1 : d1 bs with
    | none => simp [h1] at hr
    | some p =>
      obtain ⟨k, r1⟩ := p
      rw [h1] at hr
      rw [h bs _ h1]
      simp only at hr ⊢
      cases h2 : d1 r1 with
      | none => simp [h2] at hr
      | some p2 =>
        obtain ⟨v, r2⟩ := p2
        rw [h2] at hr
        rw [h r1 _ h2]
        simp only at hr ⊢
        cases h3 : decodePairs d1 n r2 with
        | none => simp [h3] at hr
        | some q => rw [h3] at hr; rw [ih r2 q h3]; exact hr

theorem decodeF_succ (f : Nat) : ∀ bs r, decodeF f bs = some r → decodeF (f + 1) bs = some r := by
  induction f with
  | zero => intro bs r h; simp [decodeF] at h
  | succ f ih =>
    intro bs r h
    rw [decodeF] at h ⊢
    cases hd : decodeHead bs with
    | none => simp [hd] at h
    | some p =>
      obtain ⟨hh, r1⟩ := p
      rw [hd] at h
      cases hh with
      | arr n =>
        simp only at h ⊢
        cases hs : decodeSeq (decodeF f) n r1 with
        | none => simp [hs] at h
        | some q => rw [hs] at h; rw [decodeSeq_mono _ _ ih n r1 q hs]; exact h
      | map n =>
        simp only at h ⊢
        cases hs : decodePairs (decodeF f) n r1 with
        | none => simp [hs] at h
        | some q => rw [hs] at h; rw [decodePairs_mono _ _ ih n r1 q hs]; exact h
      | _ => exact h

theorem decodeF_le {f g : Nat} (hfg : f ≤ g) (bs : List Nat) (r : Val × List Nat)
    (h : decodeF f bs = some r) : decodeF g bs = some r := by
  induction hfg with
  | refl => exact h
  | step _ ih => exact decodeF_succ _ bs r ih

/-- with any budget the decoder either gives up or returns exactly the encoded item and what followed -/
theorem decodeF_encode_or_none (v : Val) (fuel : Nat) (rest : List Nat) (hw : wf v = true) :
    decodeF fuel (encode v ++ rest) = none ∨ decodeF fuel (encode v ++ rest) = some (v, rest) := by
  cases h : decodeF fuel (encode v ++ rest) with
  | none => exact Or.inl rfl
  | some r =>
    right
    have big := decodeF_encode v (max fuel (encode v).length) rest hw (Nat.le_max_right _ _)
    have := decodeF_le (Nat.le_max_left fuel (encode v).length) _ r h
    rw [big] at this
    exact congrArg some (Option.some.inj this).symm ▸ rfl

/-! ## prefix-freeness: no strict prefix of an encoding decodes -/

theorem decodeSeq_prefix_none (dec : List Nat → Option (Val × List Nat)) (xs : List Val)
    (h : ∀ x ∈ xs, (∀ r, dec (encode x ++ r) = none ∨ dec (encode x ++ r) = some (x, r)) ∧
      (∀ k, k < (encode x).length → dec ((encode x).take k) = none))
    (m : Nat) (hm : m < (encodeList xs).length) :
    decodeSeq dec xs.length ((encodeList xs).take m) = none := by
  induction xs generalizing m with
  | nil => simp [encodeList] at hm
  | cons x xs ih =>
    simp only [encodeList, List.length_append] at hm
    simp only [List.length_cons, encodeList, decodeSeq]
    obtain ⟨hx1, hx2⟩ := h x (by simp)
    by_cases hlt : m < (encode x).length
    · rw [List.take_append_of_le_length (by omega), hx2 m hlt]
    · rw [List.take_append, List.take_of_length_le (by omega)]
      rcases hx1 ((encodeList xs).take (m - (encode x).length)) with e | e
      · rw [e]
      · rw [e]; simp only
        rw [ih (fun y hy => h y (by simp [hy])) _ (by omega)]

theorem decodePairs_prefix_none (dec : List Nat → Option (Val × List Nat)) (ps : List (Val × Val))
    (h : ∀ p ∈ ps, ((∀ r, dec (encode p.1 ++ r) = none ∨ dec (encode p.1 ++ r) = some (p.1, r)) ∧
        (∀ k, k < (encode p.1).length → dec ((encode p.1).take k) = none)) ∧
      ((∀ r, dec (encode p.2 ++ r) = none ∨ dec (encode p.2 ++ r) = some (p.2, r)) ∧
        (∀ k, k < (encode p.2).length → dec ((encode p.2).take k) = none)))
    (m : Nat) (hm : m < (encodePairs ps).length) :
    decodePairs dec ps.length ((encodePairs ps).take m) = none := by
  induction ps generalizing m with
  | nil => simp [encodePairs] at hm
  | cons p ps ih =>
    obtain ⟨k, v⟩ := p
    simp only [encodePairs, List.length_append] at hm
    simp only [List.length_cons, encodePairs, decodePairs]
    obtain ⟨⟨hk1, hk2⟩, ⟨hv1, hv2⟩⟩ := h (k, v) (by simp)
    simp only at hk1 hk2 hv1 hv2
    by_cases hlt : m < (encode k).length
    · rw [List.take_append_of_le_length (by omega), hk2 m hlt]
    · rw [List.take_append, List.take_of_length_le (by omega)]
      rcases hk1 ((encode v ++ encodePairs ps).take (m - (encode k).length)) with e | e
      · rw [e]
      · rw [e]; simp only
        by_cases hlt2 : m - (encode k).length < (encode v).length
        · rw [List.take_append_of_le_length (by omega), hv2 _ hlt2]
        · rw [List.take_append, List.take_of_length_le (by omega)]
          rcases hv1 ((encodePairs ps).take (m - (encode k).length - (encode v).length)) with e2 | e2
          · rw [e2]
          · rw [e2]; simp only
            rw [ih (fun y hy => h y (by simp [hy])) _ (by omega)]

theorem decodeF_head_none (f : Nat) (bs : List Nat) (h : decodeHead bs = none) : decodeF (f + 1) bs = none := by
  rw [decodeF, h]

/-- no strict prefix of the encoding of a well-formed item decodes, whatever the nesting budget -/
theorem decodeF_prefix_none (v : Val) (fuel n : Nat) (hw : wf v = true) (hn : n < (encode v).length) :
    decodeF fuel ((encode v).take n) = none := by
  match fuel, v with
  | 0, _ => rfl
  | f+1, .uint x => simp only [encode] at hn ⊢; exact decodeF_head_none f _ (head_prefix_none _ n hn)
  | f+1, .nint x => simp only [encode] at hn ⊢; exact decodeF_head_none f _ (head_prefix_none _ n hn)
  | f+1, .bool b => simp only [encode] at hn ⊢; exact decodeF_head_none f _ (head_prefix_none _ n hn)
  | f+1, .null => simp only [encode] at hn ⊢; exact decodeF_head_none f _ (head_prefix_none _ n hn)
  | f+1, .bytes s =>
    simp only [wf, Bool.and_eq_true] at hw
    simp only [encode, List.length_append] at hn ⊢
    by_cases hlt : n < (encodeHead (.bytes s.length)).length
    · rw [List.take_append_of_le_length (by omega)]
      exact decodeF_head_none f _ (head_prefix_none _ n hlt)
    · rw [List.take_append, List.take_of_length_le (by omega), decodeF,
        decodeHead_encodeHead _ _ (show wfHead (.bytes s.length) = true from hw.1)]
      simp only
      rw [takeN_short _ _ (by rw [List.length_take]; omega)]; rfl
  | f+1, .text s =>
    simp only [wf, Bool.and_eq_true] at hw
    simp only [encode, List.length_append] at hn ⊢
    by_cases hlt : n < (encodeHead (.text s.length)).length
    · rw [List.take_append_of_le_length (by omega)]
      exact decodeF_head_none f _ (head_prefix_none _ n hlt)
    · rw [List.take_append, List.take_of_length_le (by omega), decodeF,
        decodeHead_encodeHead _ _ (show wfHead (.text s.length) = true from hw.1)]
      simp only
      rw [takeN_short _ _ (by rw [List.length_take]; omega)]; rfl
  | f+1, .arr xs =>
    simp only [wf, Bool.and_eq_true] at hw
    simp only [encode, List.length_append] at hn ⊢
    by_cases hlt : n < (encodeHead (.arr xs.length)).length
    · rw [List.take_append_of_le_length (by omega)]
      exact decodeF_head_none f _ (head_prefix_none _ n hlt)
    · have ih : ∀ x ∈ xs, (∀ r, decodeF f (encode x ++ r) = none ∨ decodeF f (encode x ++ r) = some (x, r)) ∧
          (∀ k, k < (encode x).length → decodeF f ((encode x).take k) = none) := fun x hx =>
        ⟨fun r => decodeF_encode_or_none x f r (wfList_mem hw.2 x hx),
         fun k hk => decodeF_prefix_none x f k (wfList_mem hw.2 x hx) hk⟩
      rw [List.take_append, List.take_of_length_le (by omega), decodeF,
        decodeHead_encodeHead _ _ (show wfHead (.arr xs.length) = true from hw.1)]
      simp only
      rw [decodeSeq_prefix_none (decodeF f) xs ih _ (by omega)]; rfl
  | f+1, .map ps =>
    simp only [wf, Bool.and_eq_true] at hw
    simp only [encode, List.length_append] at hn ⊢
    by_cases hlt : n < (encodeHead (.map ps.length)).length
    · rw [List.take_append_of_le_length (by omega)]
      exact decodeF_head_none f _ (head_prefix_none _ n hlt)
    · have ih : ∀ p ∈ ps, ((∀ r, decodeF f (encode p.1 ++ r) = none ∨ decodeF f (encode p.1 ++ r) = some (p.1, r)) ∧
            (∀ k, k < (encode p.1).length → decodeF f ((encode p.1).take k) = none)) ∧
          ((∀ r, decodeF f (encode p.2 ++ r) = none ∨ decodeF f (encode p.2 ++ r) = some (p.2, r)) ∧
            (∀ k, k < (encode p.2).length → decodeF f ((encode p.2).take k) = none)) := fun p hp =>
        ⟨⟨fun r => decodeF_encode_or_none p.1 f r (wfPairs_mem hw.2 p hp).1,
          fun k hk => decodeF_prefix_none p.1 f k (wfPairs_mem hw.2 p hp).1 hk⟩,
         ⟨fun r => decodeF_encode_or_none p.2 f r (wfPairs_mem hw.2 p hp).2,
          fun k hk => decodeF_prefix_none p.2 f k (wfPairs_mem hw.2 p hp).2 hk⟩⟩
      rw [List.take_append, List.take_of_length_le (by omega), decodeF,
        decodeHead_encodeHead _ _ (show wfHead (.map ps.length) = true from hw.1)]
      simp only
      rw [decodePairs_prefix_none (decodeF f) ps ih _ (by omega)]; rfl
termination_by sizeOf v
decreasing_by
  all_goals simp_wf
  · have := List.sizeOf_lt_of_mem hx; omega
  · have := List.sizeOf_lt_of_mem hp
    have : sizeOf p.1 < sizeOf p := by cases p; simp; omega
    omega
  · have := List.sizeOf_lt_of_mem hp
    have : sizeOf p.2 < sizeOf p := by cases p; simp; omega
    omega

/-- **CBOR (this subset) is prefix-free on well-formed items**: no strict prefix of `encode v` decodes. -/
theorem prefix_rejected (v : Val) (hw : WellFormed v) (n : Nat) (hn : n < (encode v).length) :
    decode ((encode v).take n) = none := by
  unfold decode
  exact decodeF_prefix_none v _ n hw hn

/-- the encoder is injective on well-formed items -/
theorem encode_injective (v w : Val) (hv : WellFormed v) (hw : WellFormed w) (h : encode v = encode w) : v = w := by
  have a := decode_encode v [] hv
  have b := decode_encode w [] hw
  rw [h, b] at a
  exact ((Prod.mk.inj (Option.some.inj a)).1).symm

/-- two encodings followed by arbitrary bytes that agree as byte strings carry the same item and the same rest -/
theorem encode_append_injective (v w : Val) (r s : List Nat) (hv : WellFormed v) (hw : WellFormed w)
    (h : encode v ++ r = encode w ++ s) : v = w ∧ r = s := by
  have a := decode_encode v r hv
  have b := decode_encode w s hw
  rw [h, b] at a
  have := Prod.mk.inj (Option.some.inj a)
  exact ⟨this.1.symm, this.2.symm⟩

end SafeNet.Cbor
