import SafeNet.Model.Replication
import SafeNet.Props.C08
import SafeNet.Proofs.ValidateData
/-! Helper lemmas for C09 (`Props/C09.lean`): the record-type code is injective, `union` is canonical,
evaluation of the validation model on replication deliveries, the local index as a lookup table. -/
namespace SafeNet.Replication
open SafeNet.Validate SafeNet.Gen.Validate SafeNet.Gen.Replication
open SafeNet.Fetcher (Entry)
set_option linter.unusedSimpArgs false

/-! ## the ideal hash -/

theorem odd_mul_pow_inj : ∀ (x y a b : Nat), (2 * a + 1) * 2 ^ x = (2 * b + 1) * 2 ^ y → x = y ∧ a = b
  | 0, 0, a, b, h => by simp at h; exact ⟨rfl, by omega⟩
  | 0, y + 1, a, b, h => by
    exfalso
    rw [Nat.pow_succ, ← Nat.mul_assoc] at h
    simp only [Nat.pow_zero, Nat.mul_one] at h
    omega
  | x + 1, 0, a, b, h => by
    exfalso
    rw [Nat.pow_succ, ← Nat.mul_assoc] at h
    simp only [Nat.pow_zero, Nat.mul_one] at h
    omega
  | x + 1, y + 1, a, b, h => by
    rw [Nat.pow_succ, Nat.pow_succ, ← Nat.mul_assoc, ← Nat.mul_assoc] at h
    have h' : (2 * a + 1) * 2 ^ x = (2 * b + 1) * 2 ^ y := by omega
    obtain ⟨h1, h2⟩ := odd_mul_pow_inj x y a b h'
    exact ⟨by omega, h2⟩

theorem encList_cons_pos (x : Nat) (xs : List Nat) : 0 < encList (x :: xs) := by
  show 0 < (2 * encList xs + 1) * 2 ^ x
  exact Nat.mul_pos (by omega) (Nat.pow_pos (by omega))

theorem encList_inj : ∀ (a b : List Nat), encList a = encList b → a = b
  | [], [], _ => rfl
  | [], y :: ys, h => by have := encList_cons_pos y ys; simp only [encList] at h this; omega
  | x :: xs, [], h => by have := encList_cons_pos x xs; simp only [encList] at h this; omega
  | x :: xs, y :: ys, h => by
    obtain ⟨h1, h2⟩ := odd_mul_pow_inj x y (encList xs) (encList ys) h
    rw [h1, encList_inj xs ys h2]

/-- record types of two transaction sets / registers coincide only for equal content; a scratchpad's record type
says nothing about its counter -/
theorem tyOf_inj {c c' : Content} (h : tyOf c = tyOf c') :
    c = c' ∨ (∃ n v n' v', c = .pad n v ∧ c' = .pad n' v') := by
  cases c <;> cases c' <;> simp only [tyOf] at h
  all_goals first
    | exact Or.inl rfl
    | (right; exact ⟨_, _, _, _, rfl, rfl⟩)
    | (exfalso; split at h <;> omega)
    | (exfalso; omega)
    | skip
  · rename_i a b
    left; rw [encList_inj a b (by omega)]
  · rename_i alt a alt' b
    left
    cases alt <;> cases alt' <;> simp at h
    all_goals first
      | (exfalso; omega)
      | (rw [encList_inj a b (by omega)])

/-! ## canonical sets -/

/-- strictly increasing -/
def Canon : List Nat → Prop
  | [] => True
  | [_] => True
  | a :: b :: rest => a < b ∧ Canon (b :: rest)

theorem canon_tail {a : Nat} {l : List Nat} (h : Canon (a :: l)) : Canon l := by
  cases l with
  | nil => trivial
  | cons b r => exact h.2

theorem canon_lt {a : Nat} {l : List Nat} (h : Canon (a :: l)) : ∀ x ∈ l, a < x := by
  induction l generalizing a with
  | nil => simp
  | cons b r ih =>
    intro x hx
    rcases List.mem_cons.1 hx with rfl | hx
    · exact h.1
    · exact Nat.lt_trans h.1 (ih h.2 x hx)

theorem canon_cons {a : Nat} {l : List Nat} (hl : Canon l) (h : ∀ x ∈ l, a < x) : Canon (a :: l) := by
  cases l with
  | nil => trivial
  | cons b r => exact ⟨h b (List.mem_cons_self ..), hl⟩

theorem mem_insertSorted' (x y : Nat) (l : List Nat) : y ∈ insertSorted x l ↔ y = x ∨ y ∈ l := by
  induction l with
  | nil => simp [insertSorted]
  | cons z zs ih =>
    unfold insertSorted
    split
    · simp
    · split
      · rename_i h; subst h; simp
      · simp [ih]; constructor
        · rintro (h | h | h) <;> simp [h]
        · rintro (h | h | h) <;> simp [h]

theorem mem_foldl_insert' (a acc : List Nat) (y : Nat) :
    y ∈ a.foldl (fun acc x => insertSorted x acc) acc ↔ y ∈ a ∨ y ∈ acc := by
  induction a generalizing acc with
  | nil => simp
  | cons x xs ih =>
    simp only [List.foldl_cons, ih, mem_insertSorted', List.mem_cons]
    constructor
    · rintro (h | h | h) <;> simp [h]
    · rintro ((h | h) | h) <;> simp [h]

theorem canon_insertSorted (x : Nat) {l : List Nat} (h : Canon l) : Canon (insertSorted x l) := by
  induction l with
  | nil => trivial
  | cons y ys ih =>
    unfold insertSorted
    split
    · rename_i hxy; exact ⟨hxy, h⟩
    · split
      · exact h
      · rename_i h1 h2
        apply canon_cons (ih (canon_tail h))
        intro z hz
        rcases (mem_insertSorted' x z ys).1 hz with rfl | hz
        · omega
        · exact canon_lt h z hz

theorem canon_foldl (a : List Nat) {acc : List Nat} (h : Canon acc) :
    Canon (a.foldl (fun acc x => insertSorted x acc) acc) := by
  induction a generalizing acc with
  | nil => exact h
  | cons x xs ih => exact ih (canon_insertSorted x h)

theorem canon_union (a b : List Nat) : Canon (union a b) := by
  unfold union
  exact canon_foldl a (canon_foldl b trivial)

theorem canon_ext : ∀ {a b : List Nat}, Canon a → Canon b → (∀ x, x ∈ a ↔ x ∈ b) → a = b
  | [], [], _, _, _ => rfl
  | [], y :: ys, _, _, h => by have := (h y).2 (List.mem_cons_self ..); simp at this
  | x :: xs, [], _, _, h => by have := (h x).1 (List.mem_cons_self ..); simp at this
  | x :: xs, y :: ys, ha, hb, h => by
    have hxy : x = y := by
      have h1 := (h x).1 (List.mem_cons_self ..)
      have h2 := (h y).2 (List.mem_cons_self ..)
      rcases List.mem_cons.1 h1 with h1 | h1
      · exact h1
      · rcases List.mem_cons.1 h2 with h2 | h2
        · exact h2.symm
        · have := canon_lt ha y h2; have := canon_lt hb x h1; omega
    subst hxy
    congr 1
    apply canon_ext (canon_tail ha) (canon_tail hb)
    intro z
    constructor
    · intro hz
      have := (h z).1 (List.mem_cons_of_mem _ hz)
      rcases List.mem_cons.1 this with rfl | this
      · have := canon_lt ha z hz; omega
      · exact this
    · intro hz
      have := (h z).2 (List.mem_cons_of_mem _ hz)
      rcases List.mem_cons.1 this with rfl | this
      · have := canon_lt hb z hz; omega
      · exact this

theorem mem_union' (a b : List Nat) (y : Nat) : y ∈ union a b ↔ y ∈ a ∨ y ∈ b := by
  unfold union
  rw [mem_foldl_insert', mem_foldl_insert']
  simp

/-- the merge of two sets does not depend on the side it is computed on -/
theorem union_comm (a b : List Nat) : union a b = union b a :=
  canon_ext (canon_union a b) (canon_union b a) (by intro x; rw [mem_union', mem_union']; exact Or.comm)

theorem union_absorb (a b : List Nat) : union (union a b) b = union a b :=
  canon_ext (canon_union _ _) (canon_union _ _) (by
    intro x; simp only [mem_union']
    constructor
    · rintro ((h | h) | h) <;> simp [h]
    · rintro (h | h) <;> simp [h])

theorem union_absorb_left (a b : List Nat) : union a (union a b) = union a b :=
  canon_ext (canon_union _ _) (canon_union _ _) (by
    intro x; simp only [mem_union']
    constructor
    · rintro (h | h | h) <;> simp [h]
    · rintro (h | h) <;> simp [h])

theorem union_of_subset {a b : List Nat} (hb : Canon b) (h : ∀ x ∈ a, x ∈ b) : union a b = b :=
  canon_ext (canon_union _ _) hb (by
    intro x; rw [mem_union']
    constructor
    · rintro (h1 | h1)
      · exact h _ h1
      · exact h1
    · intro h1; exact Or.inr h1)

/-! ## the local index -/

theorem indexOf_lookup (s : Store) (k : Nat) : (indexOf s).lookup k = (s.get k).map tyOf := by
  induction s with
  | nil => rfl
  | cons p rest ih =>
    obtain ⟨k', c⟩ := p
    simp only [indexOf, List.map_cons, List.lookup_cons, SafeNet.Validate.Store.get]
    by_cases h : k' = k
    · subst h; simp
    · have : (k == k') = false := by simp; omega
      simp only [this, h, if_false]
      exact ih

/-- every held record is listed with its record type -/
theorem indexOf_complete (s : Store) (k : Nat) (c : Content) (h : s.get k = some c) : (k, tyOf c) ∈ indexOf s := by
  induction s with
  | nil => simp [SafeNet.Validate.Store.get] at h
  | cons p rest ih =>
    obtain ⟨k', c'⟩ := p
    simp only [SafeNet.Validate.Store.get] at h
    by_cases hk : k' = k
    · subst hk; simp at h; subst h; simp [indexOf]
    · simp only [hk, if_false] at h
      simp only [indexOf, List.map_cons, List.mem_cons]
      exact Or.inr (ih h)

/-- nothing else is listed -/
theorem indexOf_sound (s : Store) (p : Nat × Nat) (h : p ∈ indexOf s) : ∃ c, (p.1, c) ∈ s ∧ p.2 = tyOf c := by
  simp only [indexOf, List.mem_map] at h
  obtain ⟨⟨k, c⟩, hm, rfl⟩ := h
  exact ⟨c, hm, rfl⟩

theorem get_put_same (s : Store) (k : Nat) (c : Content) : (s.put k c).get k = some c := by
  induction s with
  | nil => simp [SafeNet.Validate.Store.put, SafeNet.Validate.Store.get]
  | cons p rest ih =>
    obtain ⟨k', c'⟩ := p
    simp only [SafeNet.Validate.Store.put]
    by_cases h : k' = k
    · simp [h, SafeNet.Validate.Store.get]
    · simp [h, SafeNet.Validate.Store.get, ih]

theorem get_put_other (s : Store) (k k' : Nat) (c : Content) (h : k' ≠ k) : (s.put k c).get k' = s.get k' := by
  induction s with
  | nil => simp [SafeNet.Validate.Store.put, SafeNet.Validate.Store.get]; omega
  | cons p rest ih =>
    obtain ⟨k2, c2⟩ := p
    simp only [SafeNet.Validate.Store.put]
    by_cases h2 : k2 = k
    · subst h2
      have : ¬ k2 = k' := by omega
      simp [SafeNet.Validate.Store.get, this]
    · by_cases h3 : k2 = k'
      · subst h3; simp [h, SafeNet.Validate.Store.get]
      · simp [h2, SafeNet.Validate.Store.get, h3, ih]

/-! ## `store_replicated_in_record` evaluated -/

theorem map_t (k : Nat) (ids : List Nat) :
    (List.map (fun t => (⟨k / 3, t, true⟩ : TxD)) ids).map (·.t) = ids := by
  simp [List.map_map, Function.comp_def]

theorem replWrites_chunk_absent (s : Store) (k : Nat) (hk : k % 3 = 0) (h : s.get k = none) :
    replWrites s k .chunk = [(k, .chunk)] := by
  have hd : 3 * (k / 3) = k := by omega
  simp [replWrites, validate, replDelivery, route, replRoute, kindOf, skel, obsOfAns, seqAns, parseOk, contentFam,
    kindFam, isPaid, dcontentOf, derivedKey, rwKey, vkeRejects, vkeChecksKey, h, hd, Out.trace, rej, inst, written, writesOf]

theorem replWrites_chunk_held (s : Store) (k : Nat) (c : Content) (hk : k % 3 = 0) (h : s.get k = some c) :
    replWrites s k .chunk = [] := by
  have hd : 3 * (k / 3) = k := by omega
  simp [replWrites, validate, replDelivery, route, replRoute, kindOf, skel, obsOfAns, seqAns, parseOk, contentFam,
    kindFam, isPaid, dcontentOf, derivedKey, rwKey, vkeRejects, vkeChecksKey, h, hd, Out.trace, rej, inst, written, writesOf]

theorem replWrites_txs (s : Store) (k : Nat) (ia : List Nat) (hk : k % 3 = 1) (hne : ia ≠ [])
    (loc : List Nat) (h : s.get k = some (.txs loc) ∨ (s.get k = none ∧ loc = [])) :
    replWrites s k (.txs ia) = [(k, .txs (union ia loc))] := by
  have hd : 3 * (k / 3) + 1 = k := by omega
  have hf : (List.filter (fun t : TxD => 3 * t.owner + 1 == k) (List.map (fun t => (⟨k / 3, t, true⟩ : TxD)) ia))
      = List.map (fun t => (⟨k / 3, t, true⟩ : TxD)) ia := by
    apply List.filter_eq_self.2
    intro t ht
    obtain ⟨x, _, rfl⟩ := List.mem_map.1 ht
    simp [hd]
  have hv : (List.filter (fun t : TxD => t.valid) (List.map (fun t => (⟨k / 3, t, true⟩ : TxD)) ia))
      = List.map (fun t => (⟨k / 3, t, true⟩ : TxD)) ia := by
    apply List.filter_eq_self.2
    intro t ht
    obtain ⟨x, _, rfl⟩ := List.mem_map.1 ht
    rfl
  have hne' : List.map (fun t => (⟨k / 3, t, true⟩ : TxD)) ia ≠ [] := by simpa using hne
  rcases h with h | ⟨h, rfl⟩ <;>
  simp [replWrites, validate, replDelivery, route, replRoute, kindOf, skel, obsOfAns, seqAns, parseOk, contentFam,
    kindFam, isPaid, dcontentOf, derivedKey, rwKey, storeTx, txForKey, txValid, txFiltersForeign, txFiltersInvalid,
    txMergesLocal, txOrdDerived, h, hd, hf, hv, hne', hne, Out.trace, rej, inst, written, writesOf, map_t, Function.comp_def]

theorem map_id_ops (l : List Nat) : (List.map (fun o => (⟨o, .v⟩ : OpD)) l).map (·.id) = l := by
  simp [List.map_map, Function.comp_def]

theorem replWrites_reg_absent (s : Store) (k : Nat) (alt : Bool) (oa : List Nat) (hk : k % 3 = 2)
    (h : s.get k = none) :
    replWrites s k (.reg alt oa) = [(k, .reg alt (union oa []))] := by
  have hd : 3 * (k / 3) + 2 = k := by omega
  cases alt <;>
  simp [replWrites, validate, replDelivery, route, replRoute, kindOf, skel, obsOfAns, seqAns, parseOk, contentFam,
    kindFam, isPaid, dcontentOf, derivedKey, rwKey, storeReg, regReplChecksKey, regVerifies, regAlt, opValid,
    h, hd, Out.trace, rej, inst, written, writesOf, map_id_ops, Function.comp_def]

theorem replWrites_reg_held (s : Store) (k : Nat) (alt : Bool) (oa ob : List Nat) (hk : k % 3 = 2)
    (h : s.get k = some (.reg alt ob)) :
    replWrites s k (.reg alt oa) =
      if oa.any (fun o => !ob.contains o) then [(k, .reg alt (union oa ob))] else [] := by
  have hd : 3 * (k / 3) + 2 = k := by omega
  cases alt <;>
  simp [replWrites, validate, replDelivery, route, replRoute, kindOf, skel, obsOfAns, seqAns, parseOk, contentFam,
    kindFam, isPaid, dcontentOf, derivedKey, rwKey, storeReg, regReplChecksKey, regVerifies, regAlt, opValid,
    h, hd, Out.trace, rej, inst, written, writesOf, map_id_ops, Function.comp_def, List.any_map] <;>
  split <;> simp_all [writesOf, inst, written, map_id_ops, Function.comp_def, rwKey, route, replRoute, derivedKey]

theorem replWrites_pad_held (s : Store) (k n m : Nat) (v : Bool) (hk : k % 3 = 1)
    (h : s.get k = some (.pad m v)) :
    replWrites s k (.pad n true) = if n ≤ m then [] else [(k, .pad n true)] := by
  have hd : 3 * (k / 3) + 1 = k := by omega
  simp [replWrites, validate, replDelivery, route, replRoute, kindOf, skel, obsOfAns, seqAns, parseOk, contentFam,
    kindFam, isPaid, dcontentOf, derivedKey, rwKey, storePad, padChecksKey, padChecksSignature, padRejectsEqualCounter,
    h, hd, Out.trace, rej, inst, written, writesOf] <;>
  split <;> simp_all [writesOf, inst, written, rwKey, route, replRoute, derivedKey]

end SafeNet.Replication
