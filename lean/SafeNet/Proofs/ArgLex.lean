import SafeNet.Proofs.ArgParse
/-! The argv level (C20): flattening an argument list to strings and clap's re-tokenisation of them.
`lex (argv items) = some items` under an explicit decidable side condition (`lexable`: the options are
declared with the value shape the tokeniser will give them back, and `ValuesLexSafe`). -/
namespace SafeNet.ArgTable

/-! ### Splitting -/

theorem splitOnChar_no (c : Char) (l : List Char) (h : c ∉ l) : splitOnChar c l = [l] := by
  induction l with
  | nil => rfl
  | cons x xs ih =>
    have hx : x ≠ c := fun e => h (by simp [e])
    have hxs : c ∉ xs := fun m => h (List.mem_cons_of_mem _ m)
    simp [splitOnChar, hx, ih hxs]

theorem splitOnChar_append_sep (c : Char) (a rest : List Char) (h : c ∉ a) :
    splitOnChar c (a ++ c :: rest) = a :: splitOnChar c rest := by
  induction a with
  | nil => simp [splitOnChar]
  | cons x xs ih =>
    have hx : x ≠ c := fun e => h (by simp [e])
    have hxs : c ∉ xs := fun m => h (List.mem_cons_of_mem _ m)
    simp [splitOnChar, hx, ih hxs]

theorem intercalate_cons_cons (c : Char) (x y : List Char) (r : List (List Char)) :
    [c].intercalate (x :: y :: r) = x ++ c :: [c].intercalate (y :: r) := by
  simp [List.intercalate, List.intersperse]

theorem splitOnChar_intercalate (c : Char) (ls : List (List Char)) (hne : ls ≠ [])
    (h : ∀ l ∈ ls, c ∉ l) : splitOnChar c ([c].intercalate ls) = ls := by
  induction ls with
  | nil => exact absurd rfl hne
  | cons x r ih =>
    cases r with
    | nil =>
      have : [c].intercalate [x] = x := by simp [List.intercalate, List.intersperse]
      rw [this, splitOnChar_no c x (h x (List.mem_cons_self ..))]
    | cons y r' =>
      rw [intercalate_cons_cons, splitOnChar_append_sep c x _ (h x (List.mem_cons_self ..))]
      rw [ih (by simp) (fun l hl => h l (List.mem_cons_of_mem _ hl))]

theorem splitFirst_no (c : Char) (l : List Char) (h : c ∉ l) : splitFirst c l = (l, none) := by
  induction l with
  | nil => rfl
  | cons x xs ih =>
    have hx : x ≠ c := fun e => h (by simp [e])
    have hxs : c ∉ xs := fun m => h (List.mem_cons_of_mem _ m)
    simp [splitFirst, hx, ih hxs]

theorem lexValue_one (d : Decl) (s : String) (hd : d.delimiter = false) : lexValue d s = .one s := by
  simp [lexValue, hd]

theorem lexValue_joined (d : Decl) (l : List String) (hd : d.delimiter = true) (hne : l ≠ [])
    (h : ∀ s ∈ l, ',' ∉ s.toList) : lexValue d (",".intercalate l) = .joined l := by
  have hsep : ",".toList = [','] := by decide
  have hsplit : splitOnChar ',' (",".intercalate l).toList = l.map String.toList := by
    rw [String.toList_intercalate, hsep]
    apply splitOnChar_intercalate
    · simpa using hne
    · intro cs hcs
      obtain ⟨s, hs, rfl⟩ := List.mem_map.mp hcs
      exact h s hs
  simp only [lexValue, hd, if_true, hsplit, List.map_map]
  congr 1
  have : (String.ofList ∘ String.toList) = id := by funext s; simp
  rw [this, List.map_id]

/-! ### One string -/

theorem classify_flag (n : String) (hne : n.toList ≠ []) : classify ('-' :: '-' :: n.toList) = .long n.toList := by
  simp [classify, hne]

theorem classify_word_of (s : String) (h : looksLikeOption s = false) : classify s.toList = .word := by
  unfold looksLikeOption at h
  cases hc : classify s.toList <;> simp [hc] at h ⊢

/-! ### The side condition on an argument list -/

/-- An option name that can be written as `--name`: non-empty, no `=`. -/
def flagNameOk (n : String) : Bool := !n.toList.isEmpty && !n.toList.contains '='

/-- The value shape the tokeniser gives back for this declaration. -/
def canonFits (d : Decl) : IVal → Bool
  | .none => d.arity == .flag
  | .one _ => d.arity != .flag && !d.delimiter
  | .joined _ => d.arity != .flag && d.delimiter

def itemLexOk (ds : List Decl) (it : Item) : Bool :=
  match it.flag with
  | none => false
  | some n =>
    match findLong ds n with
    | none => false
    | some d => flagNameOk n && canonFits d it.value && it.value.lexSafe

/-- `[options of ds]* [word [options of that subcommand]*]`, every option declared with the value shape
the tokeniser gives back and a lex-safe value; the word does not look like an option. -/
def lexable (subs : List (String × String × List Decl)) : List Decl → Bool → List Item → Bool
  | _, _, [] => true
  | ds, inSub, it :: rest =>
    match it.flag with
    | some _ => itemLexOk ds it && lexable subs ds inSub rest
    | none =>
      match it.value with
      | .one w => !inSub && !looksLikeOption w && lexable subs (subDecls subs w) true rest
      | _ => false

theorem argv_cons (it : Item) (rest : List Item) : argv (it :: rest) = it.words ++ argv rest := by
  simp [argv]

/-- **lex ∘ flatten = id** on lexable argument lists. -/
theorem lexGo_argv (subs : List (String × String × List Decl)) (items : List Item) :
    ∀ (ds : List Decl) (inSub : Bool), lexable subs ds inSub items = true →
      lexGo subs ds inSub none (argv items) = some items := by
  induction items with
  | nil => intro ds inSub _; rfl
  | cons it rest ih =>
    intro ds inSub h
    obtain ⟨fl, v⟩ := it
    cases fl with
    | none =>
      cases v with
      | none => simp [lexable] at h
      | joined l => simp [lexable] at h
      | one w =>
        simp only [lexable, Bool.and_eq_true, Bool.not_eq_true', Bool.not_eq_eq_eq_not, Bool.not_true] at h
        obtain ⟨⟨hin, hw⟩, hrest⟩ := h
        have hcl := classify_word_of w hw
        have hrec := ih _ _ hrest
        simp [argv_cons, Item.words, IVal.words, lexGo, hcl, hin, hrec]
    | some n =>
      simp only [lexable, Bool.and_eq_true] at h
      obtain ⟨hok, hrest⟩ := h
      have hrec := ih ds inSub hrest
      unfold itemLexOk at hok
      simp only at hok
      cases hf : findLong ds n with
      | none => simp [hf] at hok
      | some d =>
        simp only [hf, Bool.and_eq_true] at hok
        obtain ⟨⟨hname, hcanon⟩, hsafe⟩ := hok
        have hne : n.toList ≠ [] := by
          simp only [flagNameOk, Bool.and_eq_true, Bool.not_eq_true', List.isEmpty_eq_false_iff] at hname
          exact hname.1
        have heq : '=' ∉ n.toList := by
          simp only [flagNameOk, Bool.and_eq_true, Bool.not_eq_true'] at hname
          simpa using hname.2
        have hcl := classify_flag n hne
        have hsf := splitFirst_no '=' n.toList heq
        have hof : String.ofList n.toList = n := by simp
        cases v with
        | none =>
          have ha : (d.arity == Arity.flag) = true := by simpa [canonFits] using hcanon
          simp [argv_cons, Item.words, IVal.words, lexGo, hcl, hsf, hof, hf, ha, hrec]
        | one s =>
          simp only [canonFits, Bool.and_eq_true, Bool.not_eq_true', bne_iff_ne, ne_eq] at hcanon
          have ha : (d.arity == Arity.flag) = false := by simpa using hcanon.1
          have hs : looksLikeOption s = false := by simpa [IVal.lexSafe] using hsafe
          have hv := lexValue_one d s hcanon.2
          simp [argv_cons, Item.words, IVal.words, lexGo, hcl, hsf, hof, hf, ha, hs, hv, hrec]
        | joined l =>
          simp only [canonFits, Bool.and_eq_true, bne_iff_ne, ne_eq] at hcanon
          have ha : (d.arity == Arity.flag) = false := by simpa using hcanon.1
          simp only [IVal.lexSafe, Bool.and_eq_true, Bool.not_eq_true', List.isEmpty_eq_false_iff,
            List.all_eq_true] at hsafe
          obtain ⟨⟨hlne, hall⟩, hj⟩ := hsafe
          have hv := lexValue_joined d l hcanon.2 hlne (fun s hs => by simpa using hall s hs)
          simp [argv_cons, Item.words, IVal.words, lexGo, hcl, hsf, hof, hf, ha, hj, hv, hrec]

theorem lex_argv (top : List Decl) (subs : List (String × String × List Decl)) (items : List Item)
    (h : lexable subs top false items = true) : lex top subs (argv items) = some items :=
  lexGo_argv subs items top false h

theorem parseArgv_argv (top : List Decl) (subs : List (String × String × List Decl)) (items : List Item)
    (h : lexable subs top false items = true) : parseArgv top subs (argv items) = parse top subs items := by
  simp [parseArgv, lex_argv top subs items h]

/-! ### Argument lists produced by a table -/

theorem lexable_flags_append (subs : List (String × String × List Decl)) (ds : List Decl) (inSub : Bool)
    (pre rest : List Item) (hpre : ∀ it ∈ pre, itemLexOk ds it = true) :
    lexable subs ds inSub (pre ++ rest) = lexable subs ds inSub rest := by
  induction pre with
  | nil => rfl
  | cons it pre ih =>
    have hit := hpre it (List.mem_cons_self ..)
    have ih' := ih (fun x hx => hpre x (List.mem_cons_of_mem _ hx))
    cases hf : it.flag with
    | none => simp [itemLexOk, hf] at hit
    | some n => simp [lexable, hf, hit, ih']

theorem lexable_flags (subs : List (String × String × List Decl)) (ds : List Decl) (inSub : Bool)
    (items : List Item) (h : ∀ it ∈ items, itemLexOk ds it = true) : lexable subs ds inSub items = true := by
  have := lexable_flags_append subs ds inSub items [] h
  simpa [lexable] using this

/-- Syntactic check on a table entry: declared, the name can be written as `--name`, and the value shape
is the one the tokeniser gives back (flag / single value of an undelimited option / joined list of a
delimited one). -/
def entryLexDeclared (ds : List Decl) (e : Entry) : Bool :=
  match e.flag with
  | none => false
  | some n =>
    match findLong ds n with
    | none => false
    | some d =>
      flagNameOk n &&
      match e.value with
      | none => d.arity == .flag
      | some (_, .joinComma) => d.arity != .flag && d.delimiter
      | some (_, _) => d.arity != .flag && !d.delimiter

theorem itemLexOk_of_entry (disp : List (String × String)) (ds : List Decl) (σ : Valuation) (e : Entry) (it : Item)
    (hd : entryLexDeclared ds e = true) (hit : evalEntry disp σ e = some it) (hs : it.value.lexSafe = true) :
    itemLexOk ds it = true := by
  obtain ⟨g, fl, v⟩ := e
  unfold evalEntry at hit
  split at hit
  · injection hit with hit
    subst hit
    unfold entryLexDeclared at hd
    cases fl with
    | none => simp at hd
    | some n =>
      simp only at hd
      cases hf : findLong ds n with
      | none => simp [hf] at hd
      | some d =>
        simp only [hf, Bool.and_eq_true] at hd
        simp only [itemLexOk, hf, Bool.and_eq_true]
        refine ⟨⟨hd.1, ?_⟩, hs⟩
        cases v with
        | none => simpa [canonFits] using hd.2
        | some sr =>
          obtain ⟨s, r⟩ := sr
          cases r <;> simpa [canonFits, ival] using hd.2
  · simp at hit

theorem valuesLexSafe_append (A B : List Item) :
    ValuesLexSafe (A ++ B) = (ValuesLexSafe A && ValuesLexSafe B) := by
  simp [ValuesLexSafe, List.all_append]

theorem items_lexOk (disp : List (String × String)) (ds : List Decl) (σ : Valuation) (T : List Entry)
    (h : T.all (entryLexDeclared ds) = true) (hs : ValuesLexSafe (interp disp T σ) = true) :
    ∀ it ∈ interp disp T σ, itemLexOk ds it = true := by
  intro it hit
  have hsafe : it.value.lexSafe = true := List.all_eq_true.mp hs it hit
  simp only [interp, List.mem_filterMap] at hit
  obtain ⟨e, he, hev⟩ := hit
  exact itemLexOk_of_entry disp ds σ e it (List.all_eq_true.mp h e he) hev hsafe

/-- Shape theorem at the argv level: a table `pre ++ [subcommand word] ++ post` (as in
`accepted_of_shape`) whose entries pass `entryLexDeclared` and whose subcommand words do not look like
options emits, for every option record with lex-safe values, a lexable argument list. -/
theorem lexable_of_shape (disp : List (String × String)) (top : List Decl) (subs : List (String × String × List Decl))
    (T pre post : List Entry) (src : Src)
    (hT : T = pre ++ ⟨.always, none, some (src, .display)⟩ :: post)
    (hpre : pre.all (entryLexDeclared top) = true)
    (hpost : post.all (fun e => e.guard == .evmCustom src && entryLexDeclared (subDecls subs (lookupD disp "Custom")) e) = true)
    (hwords : disp.all (fun kv => !looksLikeOption kv.2) = true)
    (σ : Valuation) (v : String) (hv : evalSrc σ src = .evm v) (hmem : v ∈ disp.map (·.1))
    (hsafe : ValuesLexSafe (interp disp T σ) = true) :
    lexable subs top false (interp disp T σ) = true := by
  subst hT
  obtain ⟨w, hw, hm⟩ := lookupD_of_mem disp v hmem
  have hword : interp disp [⟨.always, none, some (src, .display)⟩] σ = [⟨none, .one w⟩] := by
    simp [interp, evalEntry, guardHolds, ival, hv, asWord, hw]
  have hitems : interp disp (pre ++ ⟨.always, none, some (src, .display)⟩ :: post) σ =
      interp disp pre σ ++ ⟨none, .one w⟩ :: interp disp post σ := by
    have : pre ++ ⟨.always, none, some (src, .display)⟩ :: post = pre ++ ([⟨.always, none, some (src, .display)⟩] ++ post) := rfl
    rw [this, interp_append, interp_append, hword]; rfl
  rw [hitems] at hsafe ⊢
  rw [valuesLexSafe_append] at hsafe
  simp only [Bool.and_eq_true] at hsafe
  obtain ⟨hsafePre, hsafeRest⟩ := hsafe
  have hsafePost : ValuesLexSafe (interp disp post σ) = true := by
    simp only [ValuesLexSafe, List.all_cons, Bool.and_eq_true] at hsafeRest
    exact hsafeRest.2
  rw [lexable_flags_append subs top false _ _ (items_lexOk disp top σ pre hpre hsafePre)]
  have hwok : looksLikeOption w = false := by
    have := List.all_eq_true.mp hwords (v, w) hm
    simpa using this
  simp only [lexable, hwok, Bool.not_false, Bool.true_and]
  by_cases hc : v = "Custom"
  · subst hc
    rw [← hw]
    apply lexable_flags
    apply items_lexOk _ _ _ _ _ hsafePost
    apply List.all_eq_true.mpr
    intro e he
    have := List.all_eq_true.mp hpost e he
    simp only [Bool.and_eq_true] at this
    exact this.2
  · have : interp disp post σ = [] := by
      apply interp_nil_of_guards_false
      intro e he
      have := List.all_eq_true.mp hpost e he
      simp only [Bool.and_eq_true, beq_iff_eq] at this
      rw [this.1]
      simp [guardHolds, hv, hc]
    rw [this]
    rfl

/-- `ValuesLexSafe` only depends on the multiset of items. -/
theorem valuesLexSafe_perm {A B : List Item} (h : A.Perm B) : ValuesLexSafe A = ValuesLexSafe B := by
  simp only [ValuesLexSafe]
  exact h.all_eq

end SafeNet.ArgTable
