import SafeNet.Model.ParsersExt
/-!
Helper lemmas for the C17 theorems about the routines of `SafeNet.Model.ParsersExt`.

`noContAfterAscii s` is the one consequence of UTF-8 well-formedness the `&str` slices of the models need:
a continuation byte never follows an ASCII byte (so the byte offset right after a matched ASCII text is a
character boundary).  Every valid UTF-8 string satisfies it.
-/
namespace SafeNet.Parsers
open SafeNet.Panic SafeNet.Gen.Parsers

/-- no continuation byte directly after an ASCII byte -/
def noContAfterAscii : Bytes → Bool
  | a :: b :: rest => !(decide (a < 128) && isCont b) && noContAfterAscii (b :: rest)
  | _ => true

theorem noCont_tail {a : Nat} {s : Bytes} (h : noContAfterAscii (a :: s) = true) : noContAfterAscii s = true := by
  cases s with
  | nil => rfl
  | cons b rest =>
    simp only [noContAfterAscii, Bool.and_eq_true] at h
    exact h.2

theorem noCont_drop : ∀ (n : Nat) (s : Bytes), noContAfterAscii s = true → noContAfterAscii (s.drop n) = true
  | 0, s, h => by simpa using h
  | _ + 1, [], _ => by simp [noContAfterAscii]
  | n + 1, _ :: rest, h => by
    simp only [List.drop_succ_cons]
    exact noCont_drop n rest (noCont_tail h)

theorem asciiLower_lt (b : Nat) : (asciiLower b < 128) ↔ (b < 128) := by
  unfold asciiLower
  split
  · rename_i h
    simp only [Bool.and_eq_true, decide_eq_true_eq] at h
    omega
  · exact Iff.rfl

theorem isCont_asciiLower (b : Nat) : isCont (asciiLower b) = isCont b := by
  unfold asciiLower
  split
  · rename_i h
    simp only [Bool.and_eq_true, decide_eq_true_eq] at h
    have h1 : ¬ (128 ≤ b + 32) := by omega
    have h2 : ¬ (128 ≤ b) := by omega
    simp [isCont, h1, h2]
  · rfl

theorem noCont_lower : ∀ s : Bytes, noContAfterAscii s = true → noContAfterAscii (s.map asciiLower) = true
  | [], _ => rfl
  | [_], _ => rfl
  | a :: b :: rest, h => by
    simp only [noContAfterAscii, Bool.and_eq_true, Bool.not_eq_true', Bool.and_eq_false_imp,
      decide_eq_true_eq] at h
    have ih := noCont_lower (b :: rest) h.2
    simp only [List.map_cons] at ih ⊢
    simp only [noContAfterAscii, Bool.and_eq_true, Bool.not_eq_true', Bool.and_eq_false_imp,
      decide_eq_true_eq]
    refine ⟨fun hl => ?_, ih⟩
    rw [isCont_asciiLower]
    exact h.1 ((asciiLower_lt a).mp hl)

theorem isPrefix_length : ∀ (p s : Bytes), isPrefix p s = true → p.length ≤ s.length
  | [], _, _ => by simp
  | _ :: _, [], h => by simp [isPrefix] at h
  | _ :: ps, _ :: cs, h => by
    simp only [isPrefix, Bool.and_eq_true] at h
    have := isPrefix_length ps cs h.2
    simp only [List.length_cons]; omega

theorem isBoundary_cons (a : Nat) (s : Bytes) (n : Nat) : isBoundary (a :: s) (n + 1) = isBoundary s n := by
  simp [isBoundary, List.getElem?_cons_succ]

/-- right after a matched non-empty ASCII prefix there is a character boundary -/
theorem boundary_after_ascii_prefix : ∀ (p s : Bytes), p ≠ [] → (∀ x ∈ p, x < 128) →
    isPrefix p s = true → noContAfterAscii s = true → isBoundary s p.length = true
  | [], _, h, _, _, _ => absurd rfl h
  | _ :: _, [], _, _, h, _ => by simp [isPrefix] at h
  | [a], c :: cs, _, ha, hp, hn => by
    simp only [isPrefix, Bool.and_eq_true, beq_iff_eq] at hp
    have hac : c < 128 := by rw [← hp.1]; exact ha a (by simp)
    cases cs with
    | nil => simp [isBoundary]
    | cons d ds =>
      simp only [noContAfterAscii, Bool.and_eq_true, Bool.not_eq_true', Bool.and_eq_false_imp,
        decide_eq_true_eq] at hn
      have := hn.1 hac
      simp [isBoundary, this]
  | a :: b :: ps, c :: cs, _, ha, hp, hn => by
    simp only [isPrefix, Bool.and_eq_true] at hp
    have ih := boundary_after_ascii_prefix (b :: ps) cs (by simp) (fun x hx => ha x (by simp [hx])) hp.2 (noCont_tail hn)
    simp only [List.length_cons] at ih ⊢
    rw [isBoundary_cons]
    exact ih

theorem strSliceFrom_ok_of_boundary (s : Bytes) (i : Nat) (hl : i ≤ s.length) (hb : isBoundary s i = true) :
    strSliceFrom s i = .ok (s.drop i) := by
  simp [strSliceFrom, hl, hb]

/-- `findByte` finds a position holding the byte -/
theorem findByte_spec : ∀ (c : Nat) (s : Bytes) (i : Nat), findByte c s = some i → i < s.length ∧ s[i]? = some c
  | _, [], _, h => by simp [findByte] at h
  | c, b :: rest, i, h => by
    simp only [findByte] at h
    split at h
    · rename_i hb
      cases h
      exact ⟨by simp, by simp [hb]⟩
    · cases hf : findByte c rest with
      | none => simp [hf] at h
      | some j =>
        simp only [hf, Option.map_some, Option.some.injEq] at h
        subst h
        have := findByte_spec c rest j hf
        exact ⟨by simp only [List.length_cons]; omega, by simp [this.2]⟩

/-- after an ASCII byte at position `i` there is a character boundary -/
theorem boundary_after_ascii_byte : ∀ (s : Bytes) (i c : Nat), s[i]? = some c → c < 128 →
    noContAfterAscii s = true → isBoundary s (i + 1) = true
  | [], _, _, h, _, _ => by simp at h
  | a :: rest, 0, c, h, hc, hn => by
    simp only [List.getElem?_cons_zero, Option.some.injEq] at h
    subst h
    cases rest with
    | nil => simp [isBoundary]
    | cons d ds =>
      simp only [noContAfterAscii, Bool.and_eq_true, Bool.not_eq_true', Bool.and_eq_false_imp,
        decide_eq_true_eq] at hn
      have := hn.1 hc
      simp [isBoundary, this]
  | a :: rest, i + 1, c, h, hc, hn => by
    simp only [List.getElem?_cons_succ] at h
    rw [isBoundary_cons]
    exact boundary_after_ascii_byte rest i c h hc (noCont_tail hn)

/-- `findSub` finds a position where the pattern starts -/
theorem findSub_spec : ∀ (pat s : Bytes) (i : Nat), pat ≠ [] → findSub pat s = some i →
    i < s.length ∧ isPrefix pat (s.drop i) = true
  | pat, [], i, hp, h => by
    simp only [findSub] at h
    split at h
    · rename_i he; simp at he; exact absurd he hp
    · cases h
  | pat, b :: rest, i, hp, h => by
    simp only [findSub] at h
    split at h
    · rename_i hpre
      cases h
      exact ⟨by simp, by simpa using hpre⟩
    · cases hf : findSub pat rest with
      | none => simp [hf] at h
      | some j =>
        simp only [hf, Option.map_some, Option.some.injEq] at h
        subst h
        have := findSub_spec pat rest j hp hf
        exact ⟨by simp only [List.length_cons]; omega, by simpa using this.2⟩

theorem splitN_two_length (c : Nat) (s : Bytes) : (splitN 2 c s).length = 1 ∨ (splitN 2 c s).length = 2 := by
  simp only [splitN]
  split
  · exact Or.inl rfl
  · exact Or.inr rfl

/-! ### contiguous pieces of a well-formed string are well-formed -/

theorem noCont_take : ∀ (n : Nat) (s : Bytes), noContAfterAscii s = true → noContAfterAscii (s.take n) = true
  | 0, _, _ => by simp [noContAfterAscii]
  | _ + 1, [], _ => by simp [noContAfterAscii]
  | _ + 1, [_], _ => by simp [noContAfterAscii]
  | 0 + 1, _ :: _ :: _, _ => by simp [noContAfterAscii]
  | k + 2, a :: b :: rest, hs => by
    have h2 := noCont_take (k + 1) (b :: rest) (noCont_tail hs)
    simp only [List.take_succ_cons] at h2 ⊢
    simp only [noContAfterAscii, Bool.and_eq_true] at hs ⊢
    exact ⟨hs.1, h2⟩

/-- `seq` is a contiguous piece of `s` -/
def Sub (seq s : Bytes) : Prop := ∃ pre post, s = pre ++ seq ++ post

theorem noCont_sub {seq s : Bytes} (h : Sub seq s) (hn : noContAfterAscii s = true) : noContAfterAscii seq = true := by
  obtain ⟨pre, post, rfl⟩ := h
  have h1 := noCont_drop pre.length _ hn
  have h2 := noCont_take seq.length _ h1
  simpa [List.append_assoc] using h2

theorem Sub.refl (s : Bytes) : Sub s s := ⟨[], [], by simp⟩

theorem Sub.trans {a b c : Bytes} (h1 : Sub a b) (h2 : Sub b c) : Sub a c := by
  obtain ⟨p1, q1, rfl⟩ := h1
  obtain ⟨p2, q2, rfl⟩ := h2
  exact ⟨p2 ++ p1, q1 ++ q2, by simp [List.append_assoc]⟩

theorem Sub.drop (n : Nat) (s : Bytes) : Sub (s.drop n) s := ⟨s.take n, [], by simp⟩
theorem Sub.take (n : Nat) (s : Bytes) : Sub (s.take n) s := ⟨[], s.drop n, by simp⟩
theorem Sub.append_left (pre s : Bytes) : Sub s (pre ++ s) := ⟨pre, [], by simp⟩

theorem stripPrefixByte_sub {c : Nat} {s r : Bytes} (h : stripPrefixByte c s = some r) : Sub r s := by
  cases s with
  | nil => simp [stripPrefixByte] at h
  | cons b rest =>
    simp only [stripPrefixByte] at h
    split at h
    · cases h; exact ⟨[b], [], by simp⟩
    · cases h

theorem stripSuffixByte_sub {c : Nat} {s r : Bytes} (h : stripSuffixByte c s = some r) : Sub r s := by
  unfold stripSuffixByte at h
  split at h
  · split at h
    · cases h
      rw [List.dropLast_eq_take]
      exact Sub.take _ _
    · cases h
  · cases h

theorem splitOnSubFuel_sub (pat : Bytes) : ∀ (fuel : Nat) (cur s : Bytes),
    ∀ seq ∈ splitOnSubFuel pat fuel cur s, Sub seq (cur.reverse ++ s)
  | 0, cur, s, seq, h => by
    simp only [splitOnSubFuel, List.mem_singleton] at h
    subst h; exact Sub.refl _
  | _ + 1, cur, [], seq, h => by
    simp only [splitOnSubFuel, List.mem_singleton] at h
    subst h; exact ⟨[], [], by simp⟩
  | fuel + 1, cur, c :: cs, seq, h => by
    simp only [splitOnSubFuel] at h
    split at h
    · rcases List.mem_cons.mp h with rfl | h'
      · exact ⟨[], c :: cs, by simp⟩
      · have := splitOnSubFuel_sub pat fuel [] ((c :: cs).drop pat.length) seq h'
        simp only [List.reverse_nil, List.nil_append] at this
        exact Sub.trans this (Sub.trans (Sub.drop _ _) (Sub.append_left _ _))
    · have := splitOnSubFuel_sub pat fuel (c :: cur) cs seq h
      simpa [List.append_assoc] using this

theorem splitOnSub_sub (pat s : Bytes) : ∀ seq ∈ splitOnSub pat s, Sub seq s := by
  intro seq h
  have := splitOnSubFuel_sub pat (s.length + 1) [] s seq h
  simpa using this

end SafeNet.Parsers
