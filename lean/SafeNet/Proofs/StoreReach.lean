import SafeNet.Proofs.StoreHistory
/-!
Facts about every reachable state that need no hypothesis on `dist`: record files have pairwise different
names (`DiskOK`), hence the restart theorems of C02 apply to the state after *any* history.
-/
namespace SafeNet.Store

/-- at most one file per key -/
def DiskOK (s : St) : Prop := (keys s.disk).Nodup

theorem putVerified_disk (cfg : Cfg) (dist : Nat → Nat) (s : St) (k v : Nat) (rt : RType) :
    (putVerified cfg dist s k v rt).1.disk = s.disk := by
  rcases putVerified_shape cfg dist s k v rt with ⟨_, hr⟩ | hr | hr | ⟨f, hr⟩ <;> rw [hr] <;> rfl

theorem foldl_removeKey_disk (dist : Nat → Nat) (ks : List Nat) (s : St) :
    (ks.foldl (removeKey dist) s).disk = s.disk := by
  induction ks generalizing s with
  | nil => rfl
  | cons k ks ih => rw [List.foldl_cons, ih]; rfl

theorem cleanup_disk (cfg : Cfg) (dist : Nat → Nat) (s : St) : (cleanup cfg dist s).disk = s.disk := by
  unfold cleanup
  split
  · rfl
  · split
    · rfl
    · exact foldl_removeKey_disk _ _ _

theorem DiskOK.step (cfg : Cfg) (dist : Nat → Nat) {s : St} (h : DiskOK s) (op : Op) :
    DiskOK (SafeNet.Store.step cfg dist s op).1 := by
  unfold DiskOK at *
  cases op with
  | put k v rt => simp only [SafeNet.Store.step]; rw [putVerified_disk]; exact h
  | remove k => exact h
  | run id =>
    simp only [SafeNet.Store.step, runTask]
    split
    · exact h
    · split
      · rename_i t _ _
        cases t with
        | write k v rt => exact nodup_keys_insert h
        | delete k => exact nodup_keys_erase h
        | flush n => exact h
      · exact h
  | deliver id =>
    simp only [SafeNet.Store.step, deliver]
    split
    · exact h
    · split
      · exact h
      · exact h
  | setRange r => exact h
  | cleanup => simp only [SafeNet.Store.step]; rw [cleanup_disk]; exact h
  | payment => exact h
  | crash torn =>
    simp only [SafeNet.Store.step]
    split
    · have hn := nodup_crashDisk h torn
      simp only [restart]
      have : (keys ((crashDisk s torn).filter (fun e => (scanEntry cfg e.1 e.2).isSome || !nameKept e.1))).Sublist
          (keys (crashDisk s torn)) := by
        simp only [keys]; exact (List.filter_sublist).map _
      exact this.nodup hn
    · exact h

theorem DiskOK.runFrom (cfg : Cfg) (dist : Nat → Nat) (ops : List Op) {s : St} (h : DiskOK s) :
    DiskOK (SafeNet.Store.runFrom cfg dist s ops) := by
  induction ops generalizing s with
  | nil => exact h
  | cons op ops ih => exact ih (h.step cfg dist op)

/-- after every history (crashes included, no assumption on `dist`) record files have pairwise different names -/
theorem DiskOK.run (cfg : Cfg) (dist : Nat → Nat) (ops : List Op) : DiskOK (SafeNet.Store.run cfg dist ops) :=
  DiskOK.runFrom cfg dist ops (by simp [DiskOK, init, restart, keys])

end SafeNet.Store
