import SafeNet.Model.ArgTable
/-! Generic lemmas about argument tables: substitution, permutation, declaredness of emitted items. -/
namespace SafeNet.ArgTable

theorem evalSrc_subst (σ : Valuation) (f : Path → Src) (s : Src) :
    evalSrc σ (s.subst f) = evalSrc (through f σ) s := by
  induction s with
  | var p => simp [Src.subst, evalSrc, through]
  | const t => simp [Src.subst, evalSrc]
  | fold g s ih => simp [Src.subst, evalSrc, ih]

/-! ### Case foldings compose -/

theorem Fold.app_app (f g : Fold) (c : ACh) : f.app (g.app c) = (f.join g).app c := by
  cases f <;> cases g <;> cases c <;> rfl

theorem Val.fold_fold (f g : Fold) (v : Val) : (v.fold g).fold f = v.fold (f.join g) := by
  cases v with
  | bool b => rfl
  | evm x => rfl
  | opt o =>
    cases o with
    | none => rfl
    | some a => simp [Val.fold, Function.comp_def, Fold.app_app]
  | list l => simp [Val.fold, Function.comp_def, Fold.app_app]

theorem evalSrc_norm (σ : Valuation) (s : Src) : evalSrc σ s.norm = evalSrc σ s := by
  induction s with
  | var p => rfl
  | const t => rfl
  | fold f s ih =>
    simp only [Src.norm]
    cases h : s.norm with
    | var p => simp [evalSrc, ← ih, h]
    | const t => simp only [evalSrc]; rw [← ih, h]; simp [evalSrc]
    | fold g t =>
      simp only [evalSrc]
      rw [← ih, h]
      simp only [evalSrc]
      rw [Val.fold_fold]

theorem guardHolds_norm (σ : Valuation) (g : Guard) : guardHolds σ g.norm = guardHolds σ g := by
  cases g <;> simp [Guard.norm, guardHolds, evalSrc_norm]

theorem evalEntry_norm (disp : List (String × String)) (σ : Valuation) (e : Entry) :
    evalEntry disp σ e.norm = evalEntry disp σ e := by
  obtain ⟨g, fl, v⟩ := e
  cases v with
  | none => simp [evalEntry, Entry.norm, guardHolds_norm]
  | some sr => obtain ⟨s, r⟩ := sr; simp [evalEntry, Entry.norm, guardHolds_norm, evalSrc_norm]

theorem interp_norm (disp : List (String × String)) (T : List Entry) (σ : Valuation) :
    interp disp (T.map Entry.norm) σ = interp disp T σ := by
  induction T with
  | nil => rfl
  | cons e T ih =>
    simp only [interp, List.map_cons, List.filterMap_cons] at ih ⊢
    rw [evalEntry_norm, ih]

theorem guardHolds_subst (σ : Valuation) (f : Path → Src) (g : Guard) :
    guardHolds σ (g.subst f) = guardHolds (through f σ) g := by
  cases g <;> simp [Guard.subst, guardHolds, evalSrc_subst]

theorem evalEntry_subst (disp : List (String × String)) (σ : Valuation) (f : Path → Src) (e : Entry) :
    evalEntry disp σ (e.subst f) = evalEntry disp (through f σ) e := by
  obtain ⟨g, fl, v⟩ := e
  cases v with
  | none => simp [evalEntry, Entry.subst, guardHolds_subst]
  | some sr => obtain ⟨s, r⟩ := sr; simp [evalEntry, Entry.subst, guardHolds_subst, evalSrc_subst]

theorem interp_subst (disp : List (String × String)) (T : List Entry) (σ : Valuation) (f : Path → Src) :
    interp disp (T.map (Entry.subst f)) σ = interp disp T (through f σ) := by
  induction T with
  | nil => rfl
  | cons e T ih =>
    simp only [interp, List.map_cons, List.filterMap_cons] at ih ⊢
    rw [evalEntry_subst, ih]

theorem interp_perm (disp : List (String × String)) {T₁ T₂ : List Entry} (σ : Valuation) (h : T₁.Perm T₂) :
    (interp disp T₁ σ).Perm (interp disp T₂ σ) := h.filterMap _

theorem interp_append (disp : List (String × String)) (A B : List Entry) (σ : Valuation) :
    interp disp (A ++ B) σ = interp disp A σ ++ interp disp B σ := by
  simp [interp, List.filterMap_append]

theorem lookup_map_snd {β γ : Type} (g : β → γ) (tbl : List (String × β)) (k : String) :
    (tbl.map fun kv => (kv.1, g kv.2)).lookup k = (tbl.lookup k).map g := by
  induction tbl with
  | nil => rfl
  | cons kv tbl ih =>
    obtain ⟨k', v⟩ := kv
    simp only [List.map_cons, List.lookup_cons]
    cases h : (k == k') <;> simp [ih]

/-! ### Declaredness -/

/-- The item is a declared long option of `ds` used with a fitting arity. -/
def ItemDeclared (ds : List Decl) (it : Item) : Prop :=
  ∃ n d, it.flag = some n ∧ findLong ds n = some d ∧ arityFits d it.value = true

/-- Syntactic check on a table entry: its flag is declared in `ds` with the arity its value shape needs. -/
def entryDeclared (ds : List Decl) (e : Entry) : Bool :=
  match e.flag with
  | none => false
  | some n =>
    match findLong ds n with
    | none => false
    | some d =>
      match e.value with
      | none => d.arity == .flag
      | some (_, .joinComma) => d.arity == .many && d.delimiter
      | some (_, _) => d.arity == .one || d.arity == .many

theorem item_declared_of_entry (disp : List (String × String)) (ds : List Decl) (σ : Valuation) (e : Entry) (it : Item)
    (hd : entryDeclared ds e = true) (hit : evalEntry disp σ e = some it) : ItemDeclared ds it := by
  obtain ⟨g, fl, v⟩ := e
  unfold evalEntry at hit
  split at hit
  · injection hit with hit
    subst hit
    unfold entryDeclared at hd
    cases fl with
    | none => simp at hd
    | some n =>
      simp only at hd
      cases hf : findLong ds n with
      | none => simp [hf] at hd
      | some d =>
        simp only [hf] at hd
        refine ⟨n, d, rfl, hf, ?_⟩
        cases v with
        | none => simpa [arityFits] using hd
        | some sr =>
          obtain ⟨s, r⟩ := sr
          cases r <;> simpa [arityFits, ival] using hd
  · simp at hit

theorem items_declared (disp : List (String × String)) (ds : List Decl) (σ : Valuation) (T : List Entry)
    (h : T.all (entryDeclared ds) = true) : ∀ it ∈ interp disp T σ, ItemDeclared ds it := by
  intro it hit
  simp only [interp, List.mem_filterMap] at hit
  obtain ⟨e, he, hev⟩ := hit
  exact item_declared_of_entry disp ds σ e it (List.all_eq_true.mp h e he) hev

theorem interp_nil_of_guards_false (disp : List (String × String)) (σ : Valuation) (T : List Entry)
    (h : ∀ e ∈ T, guardHolds σ e.guard = false) : interp disp T σ = [] := by
  induction T with
  | nil => rfl
  | cons e T ih =>
    have he := h e (List.mem_cons_self ..)
    have := ih (fun e' h' => h e' (List.mem_cons_of_mem _ h'))
    simp only [interp, List.filterMap_cons] at this ⊢
    simp [evalEntry, he, this]

/-- `[declared top-level options]* subcommand-word [options declared by that subcommand]*` -/
def Accepted (top : List Decl) (subs : List (String × String × List Decl)) (items : List Item) : Prop :=
  ∃ pre w post, items = pre ++ ⟨none, .one w⟩ :: post ∧ (∀ it ∈ pre, ItemDeclared top it) ∧
    (subs.find? (fun x => x.1 == w)).isSome = true ∧ ∀ it ∈ post, ItemDeclared (subDecls subs w) it

theorem lookupD_of_mem (tbl : List (String × String)) (v : String) (h : v ∈ tbl.map (·.1)) :
    ∃ w, lookupD tbl v = w ∧ (v, w) ∈ tbl := by
  induction tbl with
  | nil => simp at h
  | cons kv tbl ih =>
    obtain ⟨k, w⟩ := kv
    by_cases hk : v = k
    · subst hk
      exact ⟨w, by simp [lookupD, List.lookup_cons], List.mem_cons_self ..⟩
    · have h' : v ∈ tbl.map (·.1) := by
        simp only [List.map_cons, List.mem_cons] at h
        rcases h with h | h
        · exact absurd h hk
        · exact h
      obtain ⟨w', hw, hm⟩ := ih h'
      refine ⟨w', ?_, List.mem_cons_of_mem _ hm⟩
      have : (v == k) = false := by simpa using hk
      simpa [lookupD, List.lookup_cons, this] using hw

/-- Shape theorem: a table `pre ++ [subcommand word] ++ post` whose `pre` entries are declared at the
top level and whose `post` entries are guarded by "custom network" and declared by the subcommand
the custom network prints as, only ever emits accepted command lines. -/
theorem accepted_of_shape (disp : List (String × String)) (top : List Decl) (subs : List (String × String × List Decl))
    (T pre post : List Entry) (src : Src)
    (hT : T = pre ++ ⟨.always, none, some (src, .display)⟩ :: post)
    (hpre : pre.all (entryDeclared top) = true)
    (hpost : post.all (fun e => e.guard == .evmCustom src && entryDeclared (subDecls subs (lookupD disp "Custom")) e) = true)
    (hsubs : disp.all (fun kv => (subs.find? (fun x => x.1 == kv.2)).isSome) = true)
    (σ : Valuation) (v : String) (hv : evalSrc σ src = .evm v) (hmem : v ∈ disp.map (·.1)) :
    Accepted top subs (interp disp T σ) := by
  subst hT
  obtain ⟨w, hw, hm⟩ := lookupD_of_mem disp v hmem
  refine ⟨interp disp pre σ, w, interp disp post σ, ?_, items_declared disp top σ pre hpre, ?_, ?_⟩
  · rw [interp_append]
    congr 1
    simp only [interp, List.filterMap_cons]
    simp [evalEntry, guardHolds, ival, hv, asWord, hw]
  · exact List.all_eq_true.mp hsubs (v, w) hm
  · by_cases hc : v = "Custom"
    · subst hc
      rw [← hw]
      apply items_declared
      apply List.all_eq_true.mpr
      intro e he
      have := List.all_eq_true.mp hpost e he
      simp only [Bool.and_eq_true] at this
      exact this.2
    · have : interp disp post σ = [] := by
        apply interp_nil_of_guards_false
        intro e he
        have := List.all_eq_true.mp hpost e he
        simp only [Bool.and_eq_true, beq_iff_eq] at this
        rw [this.1]
        simp [guardHolds, hv, hc]
      rw [this]
      intro it hit
      simp at hit

end SafeNet.ArgTable
