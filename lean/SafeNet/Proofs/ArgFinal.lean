import SafeNet.Proofs.ArgParse
/-! clap's final checks (required / conflicts_with / required_if_eq) on the closed form `slotsAfter`,
and how `slotsAfter` depends on the table (rearrangement, case-folding normal form) and on the option
record (a record changed at one path). C20: `final_checks_*`, `upgrade_interpreted_as_install`. -/
namespace SafeNet.ArgTable

/-! ### `finalChecks` from pointwise facts about the slots -/

theorem finalChecks_ok (ds : List Decl) (s : Slots)
    (hreq : ∀ d ∈ ds, d.required = true → s d.id ≠ .absent)
    (hconf : ∀ d ∈ ds, ∀ c ∈ d.conflicts, s d.id = .absent ∨ s c = .absent)
    (hrif : ∀ d ∈ ds, ∀ p ∈ d.requiredIfEq, s p.1 ≠ .one p.2) :
    finalChecks ds s = .ok () := by
  have h1 : firstMissing ds s = none := by
    simp only [firstMissing, Option.map_eq_none_iff, List.find?_eq_none]
    intro d hd hc
    simp only [Bool.and_eq_true, beq_iff_eq] at hc
    exact hreq d hd hc.1 hc.2
  have h2 : firstConflict ds s = none := by
    simp only [firstConflict, List.findSome?_eq_none_iff]
    intro d hd
    by_cases ha : s d.id = .absent
    · simp [ha]
    · have : (s d.id == PVal.absent) = false := by simpa using ha
      simp only [this, Bool.false_eq_true, if_false, Option.map_eq_none_iff, List.find?_eq_none]
      intro c hc hne
      rcases hconf d hd c hc with h | h
      · exact ha h
      · simp [h] at hne
  have h3 : firstRequiredIf ds s = none := by
    simp only [firstRequiredIf, List.findSome?_eq_none_iff]
    intro d hd
    split
    · rfl
    · split
      · rename_i hany
        simp only [List.any_eq_true] at hany
        obtain ⟨p, hp, hpe⟩ := hany
        have := hrif d hd p hp
        simp only [beq_iff_eq] at hpe
        exact absurd hpe this
      · rfl
  simp [finalChecks, h1, h2, h3]

/-! ### `evalEntry` -/

theorem evalEntry_some (disp : List (String × String)) (σ : Valuation) (e : Entry) (it : Item)
    (h : evalEntry disp σ e = some it) :
    guardHolds σ e.guard = true ∧
      it = ⟨e.flag, match e.value with | none => .none | some (s, r) => ival disp (evalSrc σ s) r⟩ := by
  unfold evalEntry at h
  split at h
  · rename_i hg
    injection h with h
    exact ⟨hg, h.symm⟩
  · simp at h

theorem evalEntry_of_guard (disp : List (String × String)) (σ : Valuation) (e : Entry)
    (h : guardHolds σ e.guard = true) :
    evalEntry disp σ e = some ⟨e.flag, match e.value with | none => .none | some (s, r) => ival disp (evalSrc σ s) r⟩ := by
  obtain ⟨g, fl, v⟩ := e
  cases v with
  | none => simp_all [evalEntry]
  | some sr => obtain ⟨s, r⟩ := sr; simp_all [evalEntry]

theorem pvalOf_ne_absent (v : IVal) : pvalOf v ≠ .absent := by cases v <;> simp [pvalOf]

/-! ### What a slot of the closed form can hold -/

theorem slotsAfter_cons (disp : List (String × String)) (ds : List Decl) (σ : Valuation) (e : Entry) (T : List Entry) (s : Slots) :
    slotsAfter disp ds σ (e :: T) s =
      slotsAfter disp ds σ T
        (match evalEntry disp σ e, entryId ds e with
         | some it, some id => s.put id (pvalOf it.value)
         | _, _ => s) := by
  cases h1 : evalEntry disp σ e <;> cases h2 : entryId ds e <;> simp [slotsAfter, h1, h2]

/-- A slot that is set was set by an entry whose guard holds (or was set before). -/
theorem slotsAfter_present_inv (disp : List (String × String)) (ds : List Decl) (σ : Valuation) (id : String) :
    ∀ (T : List Entry) (s : Slots), slotsAfter disp ds σ T s id ≠ .absent →
      s id ≠ .absent ∨ ∃ e ∈ T, entryId ds e = some id ∧ guardHolds σ e.guard = true := by
  intro T
  induction T with
  | nil => intro s h; exact Or.inl h
  | cons e T ih =>
    intro s h
    rw [slotsAfter_cons] at h
    rcases ih _ h with h' | ⟨e', he', hid, hg⟩
    · cases hev : evalEntry disp σ e with
      | none => simp [hev] at h'; exact Or.inl h'
      | some it =>
        cases hid : entryId ds e with
        | none => simp [hev, hid] at h'; exact Or.inl h'
        | some id' =>
          simp only [hev, hid] at h'
          by_cases hx : id = id'
          · subst hx
            exact Or.inr ⟨e, List.mem_cons_self .., hid, (evalEntry_some disp σ e it hev).1⟩
          · simp [Slots.put, hx] at h'
            exact Or.inl h'
    · exact Or.inr ⟨e', List.mem_cons_of_mem _ he', hid, hg⟩

/-- An entry whose guard holds sets its slot (later entries can only overwrite it with another value). -/
theorem slotsAfter_present (disp : List (String × String)) (ds : List Decl) (σ : Valuation) (id : String) :
    ∀ (T : List Entry) (s : Slots),
      (s id ≠ .absent ∨ ∃ e ∈ T, entryId ds e = some id ∧ guardHolds σ e.guard = true) →
      slotsAfter disp ds σ T s id ≠ .absent := by
  intro T
  induction T with
  | nil =>
    intro s h
    rcases h with h | ⟨e, he, _⟩
    · exact h
    · simp at he
  | cons e T ih =>
    intro s h
    rw [slotsAfter_cons]
    apply ih
    rcases h with h | ⟨e', he', hid, hg⟩
    · left
      cases hev : evalEntry disp σ e with
      | none => simpa using h
      | some it =>
        cases hid : entryId ds e with
        | none => simpa using h
        | some id' =>
          simp only
          by_cases hx : id = id'
          · subst hx; simp [Slots.put, pvalOf_ne_absent]
          · simpa [Slots.put, hx] using h
    · rcases List.mem_cons.mp he' with rfl | hT
      · left
        simp [evalEntry_of_guard disp σ e' hg, hid, Slots.put, pvalOf_ne_absent]
      · exact Or.inr ⟨e', hT, hid, hg⟩

/-- A slot holding the single value `v` got it from an entry that prints `v`. -/
theorem slotsAfter_one_inv (disp : List (String × String)) (ds : List Decl) (σ : Valuation) (id v : String) :
    ∀ (T : List Entry) (s : Slots), slotsAfter disp ds σ T s id = .one v →
      s id = .one v ∨ ∃ e ∈ T, entryId ds e = some id ∧
        ∃ src r, e.value = some (src, r) ∧ asWord disp (evalSrc σ src) = v := by
  intro T
  induction T with
  | nil => intro s h; exact Or.inl h
  | cons e T ih =>
    intro s h
    rw [slotsAfter_cons] at h
    rcases ih _ h with h' | ⟨e', he', hid, hsrc⟩
    · cases hev : evalEntry disp σ e with
      | none => simp [hev] at h'; exact Or.inl h'
      | some it =>
        cases hid : entryId ds e with
        | none => simp [hev, hid] at h'; exact Or.inl h'
        | some id' =>
          simp only [hev, hid] at h'
          by_cases hx : id = id'
          · subst hx
            simp only [Slots.put, if_true] at h'
            have hit := (evalEntry_some disp σ e it hev).2
            refine Or.inr ⟨e, List.mem_cons_self .., hid, ?_⟩
            rw [hit] at h'
            cases hval : e.value with
            | none => simp [hval, pvalOf] at h'
            | some sr =>
              obtain ⟨src, r⟩ := sr
              refine ⟨src, r, rfl, ?_⟩
              simp only [hval] at h'
              cases r <;> simp [ival, pvalOf] at h' <;> exact h'
          · simp [Slots.put, hx] at h'
            exact Or.inl h'
    · exact Or.inr ⟨e', List.mem_cons_of_mem _ he', hid, hsrc⟩

/-! ### The closed form does not depend on the order of the table, nor on the normal form of case foldings -/

theorem entryId_norm (ds : List Decl) (e : Entry) : entryId ds e.norm = entryId ds e := rfl

theorem slotsAfter_norm (disp : List (String × String)) (ds : List Decl) (σ : Valuation) (T : List Entry) (s : Slots) :
    slotsAfter disp ds σ (T.map Entry.norm) s = slotsAfter disp ds σ T s := by
  induction T generalizing s with
  | nil => rfl
  | cons e T ih =>
    simp only [List.map_cons]
    rw [slotsAfter_cons, slotsAfter_cons, evalEntry_norm, entryId_norm, ih]

theorem put_comm (s : Slots) (a b : String) (x y : PVal) (h : a ≠ b) :
    (s.put a x).put b y = (s.put b y).put a x := by
  funext k
  simp only [Slots.put]
  by_cases h1 : k = a <;> by_cases h2 : k = b <;> simp_all

theorem nodup_ids_tail (ds : List Decl) (e : Entry) (T : List Entry)
    (h : ((e :: T).filterMap (entryId ds)).Nodup) : (T.filterMap (entryId ds)).Nodup := by
  cases hid : entryId ds e with
  | none => simpa [List.filterMap_cons, hid] using h
  | some id =>
    have : id ∉ T.filterMap (entryId ds) ∧ (T.filterMap (entryId ds)).Nodup := by
      simpa [List.filterMap_cons, hid] using h
    exact this.2

theorem nodup_ids_head (ds : List Decl) (e : Entry) (T : List Entry) (id : String)
    (h : ((e :: T).filterMap (entryId ds)).Nodup) (hid : entryId ds e = some id) :
    ∀ x ∈ T, entryId ds x ≠ some id := by
  intro x hx hxid
  have : id ∉ T.filterMap (entryId ds) ∧ (T.filterMap (entryId ds)).Nodup := by
    simpa [List.filterMap_cons, hid] using h
  exact this.1 (List.mem_filterMap.mpr ⟨x, hx, hxid⟩)

theorem slotsAfter_perm (disp : List (String × String)) (ds : List Decl) (σ : Valuation) {T₁ T₂ : List Entry}
    (h : T₁.Perm T₂) : ∀ (s : Slots), (T₁.filterMap (entryId ds)).Nodup →
      slotsAfter disp ds σ T₁ s = slotsAfter disp ds σ T₂ s := by
  induction h with
  | nil => intro s _; rfl
  | cons e _ ih =>
    intro s hnd
    rw [slotsAfter_cons, slotsAfter_cons]
    apply ih
    exact nodup_ids_tail ds e _ hnd
  | swap e₁ e₂ T =>
    intro s hnd
    rw [slotsAfter_cons, slotsAfter_cons, slotsAfter_cons, slotsAfter_cons]
    congr 1
    cases h1 : evalEntry disp σ e₁ <;> cases h2 : evalEntry disp σ e₂ <;>
      cases i1 : entryId ds e₁ <;> cases i2 : entryId ds e₂ <;> simp only []
    rename_i it1 it2 id1 id2
    have hne : id2 ≠ id1 := by
      intro heq
      subst heq
      simp [i1, i2] at hnd
    exact put_comm s id2 id1 _ _ hne
  | trans h₁ _ ih₁ ih₂ =>
    intro s hnd
    rw [ih₁ s hnd]
    exact ih₂ s ((h₁.filterMap _).nodup_iff.mp hnd)

/-! ### One slot of the closed form, when no two entries set the same argument -/

theorem slotsAfter_untouched (disp : List (String × String)) (ds : List Decl) (σ : Valuation) (id : String) :
    ∀ (T : List Entry) (s : Slots), (∀ e ∈ T, entryId ds e ≠ some id) → slotsAfter disp ds σ T s id = s id := by
  intro T
  induction T with
  | nil => intro s _; rfl
  | cons e T ih =>
    intro s h
    rw [slotsAfter_cons, ih _ (fun e' he' => h e' (List.mem_cons_of_mem _ he'))]
    have he := h e (List.mem_cons_self ..)
    cases hev : evalEntry disp σ e with
    | none => rfl
    | some it =>
      cases hid : entryId ds e with
      | none => rfl
      | some id' =>
        have : id ≠ id' := by intro heq; subst heq; exact he hid
        simp [Slots.put, this]

theorem slotsAfter_at (disp : List (String × String)) (ds : List Decl) (σ : Valuation) (id : String) (e : Entry) :
    ∀ (T : List Entry) (s : Slots), (T.filterMap (entryId ds)).Nodup → e ∈ T → entryId ds e = some id →
      slotsAfter disp ds σ T s id =
        match evalEntry disp σ e with
        | some it => pvalOf it.value
        | none => s id := by
  intro T
  induction T with
  | nil => intro s _ he; simp at he
  | cons e' T ih =>
    intro s hnd he hid
    rw [slotsAfter_cons]
    by_cases hee : e = e'
    · subst hee
      have hnot : ∀ x ∈ T, entryId ds x ≠ some id := nodup_ids_head ds e T id hnd hid
      rw [slotsAfter_untouched disp ds σ id T _ hnot]
      cases hev : evalEntry disp σ e with
      | none => rfl
      | some it => simp [hid, Slots.put]
    · have heT : e ∈ T := by
        rcases List.mem_cons.mp he with h | h
        · exact absurd h hee
        · exact h
      have hndT : (T.filterMap (entryId ds)).Nodup := nodup_ids_tail ds e' T hnd
      rw [ih _ hndT heT hid]
      cases hev : evalEntry disp σ e with
      | some it => rfl
      | none =>
        simp only
        cases hev' : evalEntry disp σ e' with
        | none => rfl
        | some it' =>
          cases hid' : entryId ds e' with
          | none => rfl
          | some id' =>
            have : id ≠ id' := by
              intro heq
              subst heq
              exact nodup_ids_head ds e' T id hnd hid' e heT hid
            simp [Slots.put, this]

/-! ### An option record changed at one path -/

/-- The source expression reads the path `P`. -/
def Src.reads (P : Path) : Src → Bool
  | .var p => p == P
  | .const _ => false
  | .fold _ s => s.reads P

def Entry.reads (P : Path) (e : Entry) : Bool :=
  (guardSrc e.guard).reads P || (match e.value with | some (s, _) => s.reads P | none => false)

theorem evalSrc_congr (σ σ' : Valuation) (P : Path) (h : ∀ p, p ≠ P → σ' p = σ p) (s : Src)
    (hs : s.reads P = false) : evalSrc σ' s = evalSrc σ s := by
  induction s with
  | var p =>
    have : p ≠ P := by simpa [Src.reads] using hs
    simp [evalSrc, h p this]
  | const t => simp [evalSrc]
  | fold f s ih => simp only [evalSrc]; rw [ih (by simpa [Src.reads] using hs)]

theorem guardHolds_congr (σ σ' : Valuation) (P : Path) (h : ∀ p, p ≠ P → σ' p = σ p) (g : Guard)
    (hg : (guardSrc g).reads P = false) : guardHolds σ' g = guardHolds σ g := by
  cases g with
  | always => rfl
  | isTrue s => simp only [guardHolds]; rw [evalSrc_congr σ σ' P h s hg]
  | isSome s => simp only [guardHolds]; rw [evalSrc_congr σ σ' P h s hg]
  | nonEmpty s => simp only [guardHolds]; rw [evalSrc_congr σ σ' P h s hg]
  | evmCustom s => simp only [guardHolds]; rw [evalSrc_congr σ σ' P h s hg]

theorem evalEntry_congr (disp : List (String × String)) (σ σ' : Valuation) (P : Path)
    (h : ∀ p, p ≠ P → σ' p = σ p) (e : Entry) (he : e.reads P = false) :
    evalEntry disp σ' e = evalEntry disp σ e := by
  obtain ⟨g, fl, v⟩ := e
  simp only [Entry.reads, Bool.or_eq_false_iff] at he
  have hg := guardHolds_congr σ σ' P h g he.1
  cases v with
  | none => simp [evalEntry, hg]
  | some sr =>
    obtain ⟨s, r⟩ := sr
    have hs := evalSrc_congr σ σ' P h s he.2
    simp [evalEntry, hg, hs]

/-- Changing the record at a path that only the entries of argument `id₀` read changes no other slot. -/
theorem slotsAfter_congr_off (disp : List (String × String)) (ds : List Decl) (σ σ' : Valuation) (P : Path)
    (h : ∀ p, p ≠ P → σ' p = σ p) (id₀ : String) :
    ∀ (T : List Entry) (s s' : Slots),
      (∀ e ∈ T, entryId ds e = some id₀ ∨ e.reads P = false) →
      (∀ id, id ≠ id₀ → s' id = s id) →
      ∀ id, id ≠ id₀ → slotsAfter disp ds σ' T s' id = slotsAfter disp ds σ T s id := by
  intro T
  induction T with
  | nil => intro s s' _ hs id hid; exact hs id hid
  | cons e T ih =>
    intro s s' hT hs id hid
    rw [slotsAfter_cons, slotsAfter_cons]
    apply ih _ _ (fun e' he' => hT e' (List.mem_cons_of_mem _ he')) _ id hid
    intro k hk
    rcases hT e (List.mem_cons_self ..) with he | he
    · -- the entry of `id₀`: whatever it does, it only touches `id₀`
      cases evalEntry disp σ' e <;> cases evalEntry disp σ e <;> simp [he, Slots.put, hk, hs k hk]
    · rw [evalEntry_congr disp σ σ' P h e he]
      cases evalEntry disp σ e with
      | none => exact hs k hk
      | some it =>
        cases entryId ds e with
        | none => exact hs k hk
        | some id' =>
          simp only [Slots.put]
          by_cases hx : k = id'
          · simp [hx]
          · simp [hx, hs k hk]

end SafeNet.ArgTable
