import SafeNet.Model.ClientRead
/-! Helper lemmas for C15: the split fold of the network layer and the latest-version selection of the vault read. -/
namespace SafeNet.Proofs.ClientRead
open SafeNet.Model.SelfEnc SafeNet.Model.ClientRead

variable {B DM : Type}

/-- Invariant of the `handle_split_record_error` loop after the records `done` have been processed. -/
structure Inv (st : Option Kind × Option Pad) (done : List (Rec B)) : Prop where
  noKind : st.1 = none → st.2 = none ∧ ∀ r ∈ done, headerOf r = none
  otherKind : ∀ k, st.1 = some k → k ≠ .scratchpad → st.2 = none
  best : st.1 = some .scratchpad → ∀ r ∈ done, headerOf r = some .scratchpad → ∀ q, padOf r = some q →
    q.valid = true → ∃ p, st.2 = some p ∧ q.ctr ≤ p.ctr
  fromDone : ∀ p, st.2 = some p → p.valid = true ∧ ∃ r ∈ done, padOf r = some p

theorem inv_init : Inv (B := B) (none, none) [] := by
  constructor <;> simp

theorem inv_step (st : Option Kind × Option Pad) (done : List (Rec B)) (r : Rec B) (h : Inv st done) :
    Inv (splitStep st r) (r :: done) := by
  obtain ⟨k0, b0⟩ := st
  obtain ⟨h1, h2, h3, h4⟩ := h
  simp only at h1 h2 h3 h4
  unfold splitStep
  cases hh : headerOf r with
  | none =>
    simp only
    constructor
    · intro hk; have := h1 hk; refine ⟨this.1, ?_⟩
      intro x hx; cases hx with
      | head => exact hh
      | tail _ hx => exact this.2 x hx
    · exact h2
    · intro hk x hx hxh q hq hv
      cases hx with
      | head => rw [hh] at hxh; cases hxh
      | tail _ hx => exact h3 hk x hx hxh q hq hv
    · intro p hp; obtain ⟨a, x, hx, hxp⟩ := h4 p hp; exact ⟨a, x, List.mem_cons_of_mem _ hx, hxp⟩
  | some k =>
    simp only
    cases k0 with
    | some k' =>
      -- the kind is already fixed
      simp only [Option.getD_some]
      by_cases hkk : k' = k
      · subst hkk
        simp only [ne_eq, not_true_eq_false, ↓reduceIte]
        cases k' with
        | chunk =>
          simp only
          have hb : b0 = none := h2 _ rfl (by decide)
          subst hb
          constructor <;> simp
        | other =>
          simp only
          have hb : b0 = none := h2 _ rfl (by decide)
          subst hb
          constructor <;> simp
        | scratchpad =>
          simp only
          have h3' := h3 rfl
          cases hp : padOf r with
          | none =>
            simp only
            constructor
            · simp
            · intro k hk hne; simp at hk; exact absurd hk.symm hne
            · intro _ x hx hxh q hq hv
              cases hx with
              | head => rw [hp] at hq; cases hq
              | tail _ hx => exact h3' x hx hxh q hq hv
            · intro p hp'; obtain ⟨a, x, hx, hxp⟩ := h4 p hp'; exact ⟨a, x, List.mem_cons_of_mem _ hx, hxp⟩
          | some p =>
            simp only
            by_cases hv : p.valid = true
            · simp only [hv, Bool.not_true, Bool.false_eq_true, ↓reduceIte]
              cases b0 with
              | none =>
                simp only
                constructor
                · simp
                · intro k hk hne; simp at hk; exact absurd hk.symm hne
                · intro _ x hx hxh q hq hvq
                  cases hx with
                  | head => rw [hp] at hq; cases hq; exact ⟨p, rfl, Nat.le_refl _⟩
                  | tail _ hx =>
                    obtain ⟨p', hp', _⟩ := h3' x hx hxh q hq hvq
                    cases hp'
                · intro p' hp'; simp at hp'; subst hp'
                  exact ⟨hv, r, List.mem_cons_self, hp⟩
              | some old =>
                simp only
                by_cases hc : old.ctr ≥ p.ctr
                · simp only [hc, ↓reduceIte]
                  constructor
                  · simp
                  · intro k hk hne; simp at hk; exact absurd hk.symm hne
                  · intro _ x hx hxh q hq hvq
                    cases hx with
                    | head => rw [hp] at hq; cases hq; exact ⟨old, rfl, hc⟩
                    | tail _ hx => exact h3' x hx hxh q hq hvq
                  · intro p' hp'; obtain ⟨a, x, hx, hxp⟩ := h4 p' hp'; exact ⟨a, x, List.mem_cons_of_mem _ hx, hxp⟩
                · simp only [hc, ↓reduceIte]
                  constructor
                  · simp
                  · intro k hk hne; simp at hk; exact absurd hk.symm hne
                  · intro _ x hx hxh q hq hvq
                    cases hx with
                    | head => rw [hp] at hq; cases hq; exact ⟨p, rfl, Nat.le_refl _⟩
                    | tail _ hx =>
                      obtain ⟨p', hp', hle⟩ := h3' x hx hxh q hq hvq
                      cases hp'
                      exact ⟨p, rfl, by omega⟩
                  · intro p' hp'; simp at hp'; subst hp'
                    exact ⟨hv, r, List.mem_cons_self, hp⟩
            · have hv' : p.valid = false := by cases h : p.valid <;> simp_all
              simp only [hv', Bool.not_false, ↓reduceIte]
              constructor
              · simp
              · intro k hk hne; simp at hk; exact absurd hk.symm hne
              · intro _ x hx hxh q hq hvq
                cases hx with
                | head => rw [hp] at hq; cases hq; rw [hv'] at hvq; cases hvq
                | tail _ hx => exact h3' x hx hxh q hq hvq
              · intro p' hp'; obtain ⟨a, x, hx, hxp⟩ := h4 p' hp'; exact ⟨a, x, List.mem_cons_of_mem _ hx, hxp⟩
      · -- a record of another kind than the dictated one is skipped
        simp only [ne_eq, hkk, not_false_eq_true, ↓reduceIte]
        constructor
        · simp
        · intro k'' hk hne; simp at hk; subst hk; exact h2 _ rfl hne
        · intro hk x hx hxh q hq hvq
          simp at hk; subst hk
          cases hx with
          | head => rw [hh] at hxh; cases hxh; exact absurd rfl hkk
          | tail _ hx => exact h3 rfl x hx hxh q hq hvq
        · intro p' hp'; obtain ⟨a, x, hx, hxp⟩ := h4 p' hp'; exact ⟨a, x, List.mem_cons_of_mem _ hx, hxp⟩
    | none =>
      -- this record dictates the kind
      have ⟨hb, hnone⟩ := h1 rfl
      subst hb
      simp only [Option.getD_none, ne_eq, not_true_eq_false, ↓reduceIte]
      cases k with
      | chunk => simp only; constructor <;> simp
      | other => simp only; constructor <;> simp
      | scratchpad =>
        simp only
        cases hp : padOf r with
        | none =>
          simp only
          constructor
          · simp
          · simp
          · intro _ x hx hxh q hq hv
            cases hx with
            | head => rw [hp] at hq; cases hq
            | tail _ hx => rw [hnone x hx] at hxh; cases hxh
          · simp
        | some p =>
          simp only
          by_cases hv : p.valid = true
          · simp only [hv, Bool.not_true, Bool.false_eq_true, ↓reduceIte]
            constructor
            · simp
            · intro k hk hne; simp at hk; exact absurd hk.symm hne
            · intro _ x hx hxh q hq hvq
              cases hx with
              | head => rw [hp] at hq; cases hq; exact ⟨p, rfl, Nat.le_refl _⟩
              | tail _ hx => rw [hnone x hx] at hxh; cases hxh
            · intro p' hp'; simp at hp'; subst hp'
              exact ⟨hv, r, List.mem_cons_self, hp⟩
          · have hv' : p.valid = false := by cases h : p.valid <;> simp_all
            simp only [hv', Bool.not_false, ↓reduceIte]
            constructor
            · simp
            · simp
            · intro _ x hx hxh q hq hvq
              cases hx with
              | head => rw [hp] at hq; cases hq; rw [hv'] at hvq; cases hvq
              | tail _ hx => rw [hnone x hx] at hxh; cases hxh
            · simp

theorem inv_fold (m : List (Rec B)) : ∀ (st : Option Kind × Option Pad) (done : List (Rec B)), Inv st done →
    ∃ done', Inv (m.foldl splitStep st) done' ∧ ∀ r, r ∈ done' ↔ (r ∈ m ∨ r ∈ done) := by
  induction m with
  | nil => intro st done h; exact ⟨done, h, by simp⟩
  | cons r rest ih =>
    intro st done h
    obtain ⟨done', hinv, hmem⟩ := ih (splitStep st r) (r :: done) (inv_step st done r h)
    refine ⟨done', hinv, ?_⟩
    intro x; rw [hmem x]; simp only [List.mem_cons]
    constructor
    · rintro (h | h | h)
      · exact .inl (.inr h)
      · exact .inl (.inl h)
      · exact .inr h
    · rintro ((h | h) | h)
      · exact .inr (.inl h)
      · exact .inl h
      · exact .inr (.inr h)

/-- What `handle_split_record_error` returns for scratchpads: a valid pad out of the map whose counter bounds that of
every valid pad that came under a `Scratchpad` header. -/
theorem handleSplit_spec (m : List (Rec B)) (r : Rec B) (h : handleSplit m = some r) :
    ∃ p, r = ⟨some .scratchpad, .pad p⟩ ∧ p.valid = true ∧ (∃ x ∈ m, padOf x = some p) ∧
      ∀ x ∈ m, headerOf x = some .scratchpad → ∀ q, padOf x = some q → q.valid = true → q.ctr ≤ p.ctr := by
  unfold handleSplit at h
  split at h
  · obtain ⟨done, hinv, hmem⟩ := inv_fold m (none, none) [] inv_init
    cases hres : (m.foldl splitStep (none, none)).2 with
    | none => rw [hres] at h; cases h
    | some p =>
      rw [hres] at h
      simp only [Option.some.injEq] at h
      refine ⟨p, h.symm, ?_⟩
      obtain ⟨hv, x, hx, hxp⟩ := hinv.fromDone p hres
      have hxm : x ∈ m := by have := (hmem x).1 hx; simpa using this
      refine ⟨hv, ⟨x, hxm, hxp⟩, ?_⟩
      intro y hy hyh q hq hvq
      -- the dictated kind must be Scratchpad, otherwise no pad would have been selected
      have hk : (m.foldl splitStep (none, none)).1 = some .scratchpad := by
        cases hk' : (m.foldl splitStep (none, none)).1 with
        | none => have := (hinv.noKind hk').1; rw [hres] at this; cases this
        | some k =>
          by_cases hks : k = .scratchpad
          · rw [hks]
          · have := hinv.otherKind k hk' hks; rw [hres] at this; cases this
      obtain ⟨p', hp', hle⟩ := hinv.best hk y ((hmem y).2 (.inl hy)) hyh q hq hvq
      rw [hres] at hp'; cases hp'; exact hle
  · cases h

theorem foldl_max_ge (pads : List Pad) : ∀ (init : Nat),
    init ≤ pads.foldl (fun m p => Nat.max m p.ctr) init ∧
    ∀ q ∈ pads, q.ctr ≤ pads.foldl (fun m p => Nat.max m p.ctr) init := by
  induction pads with
  | nil => intro init; simp
  | cons p rest ih =>
    intro init
    simp only [List.foldl_cons]
    have ⟨h1, h2⟩ := ih (Nat.max init p.ctr)
    refine ⟨Nat.le_trans (Nat.le_max_left init p.ctr) h1, ?_⟩
    intro q hq
    cases hq with
    | head => exact Nat.le_trans (Nat.le_max_right init p.ctr) h1
    | tail _ hq => exact h2 q hq

theorem maxCtr_ge (pads : List Pad) (q : Pad) (hq : q ∈ pads) : q.ctr ≤ maxCtr pads :=
  (foldl_max_ge pads 0).2 q hq

theorem foldl_max_attained (pads : List Pad) : ∀ (init : Nat),
    pads.foldl (fun m p => Nat.max m p.ctr) init = init ∨
    ∃ q ∈ pads, q.ctr = pads.foldl (fun m p => Nat.max m p.ctr) init := by
  induction pads with
  | nil => intro init; exact .inl rfl
  | cons p rest ih =>
    intro init
    simp only [List.foldl_cons]
    cases ih (Nat.max init p.ctr) with
    | inl h =>
      rw [h]
      cases Nat.le_total init p.ctr with
      | inl hle => exact .inr ⟨p, List.mem_cons_self, (Nat.max_eq_right hle).symm⟩
      | inr hle => exact .inl (Nat.max_eq_left hle)
    | inr h =>
      obtain ⟨q, hq, hqc⟩ := h
      exact .inr ⟨q, List.mem_cons_of_mem _ hq, hqc⟩

/-- a non-empty list has a pad of the highest counter -/
theorem maxCtr_attained (pads : List Pad) (p : Pad) (hp : p ∈ pads) : ∃ q ∈ pads, q.ctr = maxCtr pads := by
  cases foldl_max_attained pads 0 with
  | inr h => exact h
  | inl h =>
    refine ⟨p, hp, ?_⟩
    have := maxCtr_ge pads p hp
    unfold maxCtr at this ⊢
    omega

end SafeNet.Proofs.ClientRead
