import SafeNet.Model.ClientRead
/-! Helper lemmas for C15: the split fold of the network layer and the latest-version selection of the vault read. -/
namespace SafeNet.Proofs.ClientRead
open SafeNet.Model.SelfEnc SafeNet.Model.ClientRead

variable {B DM : Type}

/-- the address check of the split loop lets this pad through -/
def passes (chk : Bool) (padKey : Nat → Nat) (rkey : Nat) (p : Pad) : Bool := !chk || padKey p.owner == rkey

/-- a pad the split loop considers at all: validly signed and let through by the address check -/
def eligible (chk : Bool) (padKey : Nat → Nat) (rkey : Nat) (p : Pad) : Bool := p.valid && passes chk padKey rkey p

/-- the body of the `Scratchpad` arm as a function of eligibility -/
theorem splitStep_pad (chk : Bool) (padKey : Nat → Nat) (rkey : Nat) (st : Option Kind × Option Pad) (r : Rec B) (p : Pad)
    (hh : headerOf r = some .scratchpad) (hk : st.1.getD .scratchpad = .scratchpad) (hp : padOf r = some p) :
    splitStep chk padKey rkey st r =
      (some .scratchpad,
        if eligible chk padKey rkey p then
          match st.2 with
          | some old => if old.ctr ≥ p.ctr then st.2 else some p
          | none => some p
        else st.2) := by
  obtain ⟨k0, b0⟩ := st
  obtain ⟨o, c, v, ver, en, eo⟩ := p
  simp only at hk
  unfold splitStep
  simp only [hh, hk, ne_eq, not_true_eq_false, ↓reduceIte, hp, eligible, passes]
  by_cases hq : padKey o = rkey <;> cases chk <;> cases v <;> cases b0 <;> simp [hq] <;> split <;> simp

/-- Invariant of the `handle_split_record_error` loop after the records `done` have been processed. -/
structure Inv (chk : Bool) (padKey : Nat → Nat) (rkey : Nat) (st : Option Kind × Option Pad) (done : List (Rec B)) : Prop where
  noKind : st.1 = none → st.2 = none ∧ ∀ r ∈ done, headerOf r = none
  otherKind : ∀ k, st.1 = some k → k ≠ .scratchpad → st.2 = none
  best : st.1 = some .scratchpad → ∀ r ∈ done, headerOf r = some .scratchpad → ∀ q, padOf r = some q →
    eligible chk padKey rkey q = true → ∃ p, st.2 = some p ∧ q.ctr ≤ p.ctr
  fromDone : ∀ p, st.2 = some p → eligible chk padKey rkey p = true ∧ ∃ r ∈ done, headerOf r = some .scratchpad ∧ padOf r = some p
  /-- the first parsable header dictates the kind -/
  kindFrom : ∀ k, st.1 = some k → ∃ r ∈ done, headerOf r = some k

theorem inv_init (chk : Bool) (padKey : Nat → Nat) (rkey : Nat) : Inv (B := B) chk padKey rkey (none, none) [] := by
  constructor <;> simp

theorem inv_step (chk : Bool) (padKey : Nat → Nat) (rkey : Nat) (st : Option Kind × Option Pad) (done : List (Rec B))
    (r : Rec B) (h : Inv chk padKey rkey st done) : Inv chk padKey rkey (splitStep chk padKey rkey st r) (r :: done) := by
  obtain ⟨k0, b0⟩ := st
  obtain ⟨h1, h2, h3, h4, h5⟩ := h
  simp only at h1 h2 h3 h4 h5
  -- facts about `done` carry over to `r :: done`
  have lift4 : ∀ p, b0 = some p → eligible chk padKey rkey p = true ∧
      ∃ x ∈ r :: done, headerOf x = some .scratchpad ∧ padOf x = some p := by
    intro p hp; obtain ⟨a, x, hx, hxp⟩ := h4 p hp; exact ⟨a, x, List.mem_cons_of_mem _ hx, hxp⟩
  cases hh : headerOf r with
  | none =>
    have hs : splitStep chk padKey rkey (k0, b0) r = (k0, b0) := by unfold splitStep; simp only [hh]
    rw [hs]
    constructor
    · intro hk; have := h1 hk; refine ⟨this.1, ?_⟩
      intro x hx; cases hx with
      | head => exact hh
      | tail _ hx => exact this.2 x hx
    · exact h2
    · intro hk x hx hxh q hq hv
      cases hx with
      | head => rw [hh] at hxh; cases hxh
      | tail _ hx => exact h3 hk x hx hxh q hq hv
    · exact lift4
    · intro k hk; obtain ⟨x, hx, hxk⟩ := h5 k hk; exact ⟨x, List.mem_cons_of_mem _ hx, hxk⟩
  | some k =>
    -- the kind after this record
    by_cases hpad : k0.getD k = k ∧ k = .scratchpad ∧ ∃ p, padOf r = some p
    · obtain ⟨hkk, hks, p, hp⟩ := hpad
      subst hks
      rw [splitStep_pad chk padKey rkey (k0, b0) r p hh hkk hp]
      have hk0 : k0 = none ∨ k0 = some .scratchpad := by
        cases k0 with
        | none => exact .inl rfl
        | some k' => simp only [Option.getD_some] at hkk; exact .inr (by rw [hkk])
      -- every earlier record under a scratchpad header is bounded by the old best
      have hold : ∀ x ∈ done, headerOf x = some .scratchpad → ∀ q, padOf x = some q → eligible chk padKey rkey q = true →
          ∃ p', b0 = some p' ∧ q.ctr ≤ p'.ctr := by
        intro x hx hxh q hq hv
        cases hk0 with
        | inl hn => rw [(h1 hn).2 x hx] at hxh; cases hxh
        | inr hs => exact h3 hs x hx hxh q hq hv
      simp only
      constructor
      · simp
      · intro k hk hne; simp at hk; exact absurd hk.symm hne
      · intro _ x hx hxh q hq hv
        cases hx with
        | head =>
          rw [hp] at hq; cases hq
          simp only [hv, ↓reduceIte]
          cases b0 with
          | none => exact ⟨p, rfl, Nat.le_refl _⟩
          | some old =>
            simp only
            by_cases hc : old.ctr ≥ p.ctr
            · simp only [hc, ↓reduceIte]; exact ⟨old, rfl, hc⟩
            · simp only [hc, ↓reduceIte]; exact ⟨p, rfl, Nat.le_refl _⟩
        | tail _ hx =>
          obtain ⟨p', hp', hle⟩ := hold x hx hxh q hq hv
          subst hp'
          by_cases he : eligible chk padKey rkey p = true
          · simp only [he, ↓reduceIte]
            by_cases hc : p'.ctr ≥ p.ctr
            · simp only [hc, ↓reduceIte]; exact ⟨p', rfl, hle⟩
            · simp only [hc, ↓reduceIte]; exact ⟨p, rfl, by omega⟩
          · simp only [he, Bool.false_eq_true, ↓reduceIte]; exact ⟨p', rfl, hle⟩
      · intro p' hp'
        by_cases he : eligible chk padKey rkey p = true
        · simp only [he, ↓reduceIte] at hp'
          cases b0 with
          | none =>
            simp only [Option.some.injEq] at hp'; subst hp'
            exact ⟨he, r, List.mem_cons_self, hh, hp⟩
          | some old =>
            simp only at hp'
            by_cases hc : old.ctr ≥ p.ctr
            · simp only [hc, ↓reduceIte] at hp'; exact lift4 p' hp'
            · simp only [hc, ↓reduceIte, Option.some.injEq] at hp'; subst hp'
              exact ⟨he, r, List.mem_cons_self, hh, hp⟩
        · simp only [he, Bool.false_eq_true, ↓reduceIte] at hp'; exact lift4 p' hp'
      · intro k hk; simp at hk; subst hk; exact ⟨r, List.mem_cons_self, hh⟩
    · -- the record does not touch the best pad: only the kind may get fixed
      have hs : splitStep chk padKey rkey (k0, b0) r = (some (k0.getD k), b0) := by
        unfold splitStep
        simp only [hh]
        by_cases hkk : k0.getD k = k
        · simp only [hkk, ne_eq, not_true_eq_false, ↓reduceIte]
          cases k with
          | chunk => rfl
          | other => rfl
          | register => rfl
          | transaction => rfl
          | scratchpad =>
            simp only
            cases hp : padOf r with
            | none => rfl
            | some p => exact absurd ⟨hkk, rfl, p, hp⟩ hpad
        · simp only [ne_eq, hkk, not_false_eq_true, ↓reduceIte]
      rw [hs]
      constructor
      · simp
      · intro k' hk' hne
        simp only [Option.some.injEq] at hk'
        cases k0 with
        | none => exact (h1 rfl).1
        | some k'' => simp only [Option.getD_some] at hk'; subst hk'; exact h2 _ rfl hne
      · intro hk x hx hxh q hq hv
        simp only [Option.some.injEq] at hk
        cases hx with
        | head =>
          exfalso
          rw [hh] at hxh; cases hxh
          exact hpad ⟨hk, rfl, q, hq⟩
        | tail _ hx =>
          cases k0 with
          | none => rw [(h1 rfl).2 x hx] at hxh; cases hxh
          | some k'' => simp only [Option.getD_some] at hk; subst hk; exact h3 rfl x hx hxh q hq hv
      · exact lift4
      · intro k' hk'
        simp only [Option.some.injEq] at hk'
        cases k0 with
        | none => simp only [Option.getD_none] at hk'; subst hk'; exact ⟨r, List.mem_cons_self, hh⟩
        | some k'' =>
          simp only [Option.getD_some] at hk'; subst hk'
          obtain ⟨x, hx, hxk⟩ := h5 _ rfl; exact ⟨x, List.mem_cons_of_mem _ hx, hxk⟩

theorem inv_fold (chk : Bool) (padKey : Nat → Nat) (rkey : Nat) (m : List (Rec B)) :
    ∀ (st : Option Kind × Option Pad) (done : List (Rec B)), Inv chk padKey rkey st done →
    ∃ done', Inv chk padKey rkey (m.foldl (splitStep chk padKey rkey) st) done' ∧ ∀ r, r ∈ done' ↔ (r ∈ m ∨ r ∈ done) := by
  induction m with
  | nil => intro st done h; exact ⟨done, h, by simp⟩
  | cons r rest ih =>
    intro st done h
    obtain ⟨done', hinv, hmem⟩ := ih (splitStep chk padKey rkey st r) (r :: done) (inv_step chk padKey rkey st done r h)
    refine ⟨done', hinv, ?_⟩
    intro x; rw [hmem x]; simp only [List.mem_cons]
    constructor
    · rintro (h | h | h)
      · exact .inl (.inr h)
      · exact .inl (.inl h)
      · exact .inr h
    · rintro ((h | h) | h)
      · exact .inr (.inl h)
      · exact .inl h
      · exact .inr (.inr h)

/-- What the scratchpad part of `handle_split_record_error` returns: an eligible (validly signed, and — with the address
check — living at the requested key) pad that came under a `Scratchpad` header, whose counter bounds that of every
eligible pad that came under a `Scratchpad` header. -/
theorem handleSplitPads_spec (chk : Bool) (padKey : Nat → Nat) (rkey : Nat) (m : List (Rec B)) (r : Rec B)
    (h : handleSplitPads chk padKey rkey m = some r) :
    ∃ p, r = ⟨some .scratchpad, .pad p⟩ ∧ p.valid = true ∧ passes chk padKey rkey p = true ∧
      (∃ x ∈ m, headerOf x = some .scratchpad ∧ padOf x = some p) ∧
      ∀ x ∈ m, headerOf x = some .scratchpad → ∀ q, padOf x = some q → q.valid = true → passes chk padKey rkey q = true →
        q.ctr ≤ p.ctr := by
  unfold handleSplitPads at h
  obtain ⟨done, hinv, hmem⟩ := inv_fold chk padKey rkey m (none, none) [] (inv_init chk padKey rkey)
  cases hres : (m.foldl (splitStep chk padKey rkey) (none, none)).2 with
  | none => rw [hres] at h; cases h
  | some p =>
    rw [hres] at h
    simp only [Option.some.injEq] at h
    refine ⟨p, h.symm, ?_⟩
    obtain ⟨hv, x, hx, hxh, hxp⟩ := hinv.fromDone p hres
    simp only [eligible, Bool.and_eq_true] at hv
    have hxm : x ∈ m := by have := (hmem x).1 hx; simpa using this
    refine ⟨hv.1, hv.2, ⟨x, hxm, hxh, hxp⟩, ?_⟩
    intro y hy hyh q hq hvq hpq
    -- the dictated kind must be Scratchpad, otherwise no pad would have been selected
    have hk : (m.foldl (splitStep chk padKey rkey) (none, none)).1 = some .scratchpad := by
      cases hk' : (m.foldl (splitStep chk padKey rkey) (none, none)).1 with
      | none => have := (hinv.noKind hk').1; rw [hres] at this; cases this
      | some k =>
        by_cases hks : k = .scratchpad
        · rw [hks]
        · have := hinv.otherKind k hk' hks; rw [hres] at this; cases this
    obtain ⟨p', hp', hle⟩ := hinv.best hk y ((hmem y).2 (.inl hy)) hyh q hq (by simp [eligible, hvq, hpq])
    rw [hres] at hp'; cases hp'; exact hle

/-- a record `handle_split_record_error` makes up from transactions or registers: no scratchpad, no chunk -/
def WrongKindAnswer (r : Rec B) : Prop :=
  padOf r = none ∧ (∀ v, r.body ≠ .chunk v) ∧ (headerOf r = some .transaction ∨ headerOf r = some .register)

/-- What `handle_split_record_error` returns: the accumulated transactions (the first parsable header said `Transaction`
and more than one transaction was accumulated), a collected register (the first parsable header said `Register`; with
`regChk` it lives at the key being read) — or the pad of `handleSplitPads_spec`. -/
theorem handleSplit_spec (chk regChk : Bool) (padKey : Nat → Nat) (rkey : Nat) (m : List (Rec B)) (r : Rec B)
    (h : handleSplit chk regChk padKey rkey m = some r) :
    (WrongKindAnswer r ∧
      ((firstKind m = some .transaction ∧ (unionTxs m).length > 1) ∨
       (firstKind m = some .register ∧ ∃ x ∈ m, ∃ g, regOf x = some g ∧ (regChk = true → g.key = rkey)))) ∨
    ∃ p, r = ⟨some .scratchpad, .pad p⟩ ∧ p.valid = true ∧ passes chk padKey rkey p = true ∧
      (∃ x ∈ m, headerOf x = some .scratchpad ∧ padOf x = some p) ∧
      ∀ x ∈ m, headerOf x = some .scratchpad → ∀ q, padOf x = some q → q.valid = true → passes chk padKey rkey q = true →
        q.ctr ≤ p.ctr := by
  unfold handleSplit at h
  split at h
  · split at h
    · rename_i hk
      split at h
      · rename_i hlen
        simp only [Option.some.injEq] at h
        subst h
        exact Or.inl ⟨⟨rfl, (fun v hv => by cases hv), Or.inl rfl⟩, Or.inl ⟨hk, hlen⟩⟩
      · cases h
    · rename_i hk
      split at h
      · rename_i g rest hcol
        simp only [Option.some.injEq] at h
        subst h
        refine Or.inl ⟨⟨rfl, (fun v hv => by cases hv), Or.inr rfl⟩, Or.inr ⟨hk, ?_⟩⟩
        have hg : g ∈ collectedRegs regChk rkey m := by rw [hcol]; exact List.mem_cons_self
        unfold collectedRegs at hg
        rw [List.mem_filter, List.mem_filterMap] at hg
        obtain ⟨⟨x, hx, hxg⟩, hpass⟩ := hg
        refine ⟨x, (List.mem_filter.1 hx).1, g, hxg, ?_⟩
        intro hc
        subst hc
        have : g.key = rkey ∧ g.valid = true := by simpa using hpass
        exact this.1
      · cases h
    · exact .inr (handleSplitPads_spec chk padKey rkey m r h)
  · cases h

/-- when the first parsable header is neither `Transaction` nor `Register` the split handling is the scratchpad part -/
theorem handleSplit_eq_pads (chk regChk : Bool) (padKey : Nat → Nat) (rkey : Nat) (m : List (Rec B))
    (h1 : firstKind m ≠ some .transaction) (h2 : firstKind m ≠ some .register) :
    handleSplit chk regChk padKey rkey m = if m.length > 1 then handleSplitPads chk padKey rkey m else none := by
  unfold handleSplit
  split
  · split
    · rename_i hk; exact absurd hk h1
    · rename_i hk; exact absurd hk h2
    · rfl
  · rfl

theorem foldl_max_ge (pads : List Pad) : ∀ (init : Nat),
    init ≤ pads.foldl (fun m p => Nat.max m p.ctr) init ∧
    ∀ q ∈ pads, q.ctr ≤ pads.foldl (fun m p => Nat.max m p.ctr) init := by
  induction pads with
  | nil => intro init; simp
  | cons p rest ih =>
    intro init
    simp only [List.foldl_cons]
    have ⟨h1, h2⟩ := ih (Nat.max init p.ctr)
    refine ⟨Nat.le_trans (Nat.le_max_left init p.ctr) h1, ?_⟩
    intro q hq
    cases hq with
    | head => exact Nat.le_trans (Nat.le_max_right init p.ctr) h1
    | tail _ hq => exact h2 q hq

theorem maxCtr_ge (pads : List Pad) (q : Pad) (hq : q ∈ pads) : q.ctr ≤ maxCtr pads :=
  (foldl_max_ge pads 0).2 q hq

theorem foldl_max_attained (pads : List Pad) : ∀ (init : Nat),
    pads.foldl (fun m p => Nat.max m p.ctr) init = init ∨
    ∃ q ∈ pads, q.ctr = pads.foldl (fun m p => Nat.max m p.ctr) init := by
  induction pads with
  | nil => intro init; exact .inl rfl
  | cons p rest ih =>
    intro init
    simp only [List.foldl_cons]
    cases ih (Nat.max init p.ctr) with
    | inl h =>
      rw [h]
      cases Nat.le_total init p.ctr with
      | inl hle => exact .inr ⟨p, List.mem_cons_self, (Nat.max_eq_right hle).symm⟩
      | inr hle => exact .inl (Nat.max_eq_left hle)
    | inr h =>
      obtain ⟨q, hq, hqc⟩ := h
      exact .inr ⟨q, List.mem_cons_of_mem _ hq, hqc⟩

/-- a non-empty list has a pad of the highest counter -/
theorem maxCtr_attained (pads : List Pad) (p : Pad) (hp : p ∈ pads) : ∃ q ∈ pads, q.ctr = maxCtr pads := by
  cases foldl_max_attained pads 0 with
  | inr h => exact h
  | inl h =>
    refine ⟨p, hp, ?_⟩
    have := maxCtr_ge pads p hp
    unfold maxCtr at this ⊢
    omega

end SafeNet.Proofs.ClientRead
