import SafeNet.Proofs.ReplicationRounds
/-! Replication phases at one requester (C09): any number of advertisements — each with any number of new keys — and
the replies to the scheduled fetches, interleaved in any order. A reply that is stored (`PutLocalRecord` →
`notify_about_new_put` → `next_keys_to_fetch`) schedules the next closest queued keys: the fetcher works through an
advertisement of more than MAX_PARALLEL_FETCH keys batch by batch inside one exchange. The invariant `PInv` below is
preserved by every event; at the end of a phase (no reply outstanding, queue drained) the requester's version of every
key is the join of its own and every advertiser's version — the same as the serial composition of complete exchanges. -/

/-! ## the order of the version semilattice -/
namespace SafeNet.Replication.Abs

/-- `a ⊑ b`: every member of `a` is a member of `b`, and `b` is held if `a` is -/
def leV (a b : Ver) : Prop := (∀ m, memV m a → memV m b) ∧ (a.isSome = true → b.isSome = true)

theorem leV_refl (a : Ver) : leV a a := ⟨fun _ h => h, fun h => h⟩

theorem leV_trans {a b c : Ver} (h1 : leV a b) (h2 : leV b c) : leV a c :=
  ⟨fun m h => h2.1 m (h1.1 m h), fun h => h2.2 (h1.2 h)⟩

theorem leV_none (b : Ver) : leV none b := by
  constructor
  · intro m h
    obtain ⟨l, hl, _⟩ := h
    cases hl
  · intro h; cases h

theorem leV_join_left (s d : Ver) : leV s (join s d) :=
  ⟨fun m h => (memV_join m s d).2 (Or.inl h), fun h => by rw [isSome_join, h, Bool.true_or]⟩

theorem leV_join_right (s d : Ver) : leV d (join s d) :=
  ⟨fun m h => (memV_join m s d).2 (Or.inr h), fun h => by rw [isSome_join, h, Bool.or_true]⟩

theorem join_least {s d x : Ver} (h1 : leV s x) (h2 : leV d x) : leV (join s d) x := by
  constructor
  · intro m hm
    rcases (memV_join m s d).1 hm with h | h
    · exact h1.1 m h
    · exact h2.1 m h
  · intro h
    rw [isSome_join] at h
    rcases Bool.or_eq_true_iff.1 h with h | h
    · exact h1.2 h
    · exact h2.2 h

/-- canonical versions that bound each other are equal -/
theorem leV_antisymm {a b : Ver} (ha : CanonV a) (hb : CanonV b) (h1 : leV a b) (h2 : leV b a) : a = b := by
  cases a with
  | none =>
    cases b with
    | none => rfl
    | some y => have := h2.2 rfl; cases this
  | some x =>
    cases b with
    | none => have := h1.2 rfl; cases this
    | some y =>
      congr 1
      apply canon_ext (ha x rfl) (hb y rfl)
      intro m
      constructor
      · intro hm
        obtain ⟨l, hl, hml⟩ := h1.1 m ⟨x, rfl, hm⟩
        cases hl; exact hml
      · intro hm
        obtain ⟨l, hl, hml⟩ := h2.1 m ⟨y, rfl, hm⟩
        cases hl; exact hml

/-- what `dst` holds after absorbing the versions of `srcs` one after the other -/
def joinAll (v : Nat → Ver) (srcs : List Nat) (d : Ver) : Ver := srcs.foldl (fun acc s => join (v s) acc) d

theorem joinAll_cons (v : Nat → Ver) (s : Nat) (srcs : List Nat) (d : Ver) :
    joinAll v (s :: srcs) d = joinAll v srcs (join (v s) d) := rfl

theorem joinAll_ge (v : Nat → Ver) (srcs : List Nat) : ∀ d, leV d (joinAll v srcs d) := by
  induction srcs with
  | nil => intro d; exact leV_refl d
  | cons s rest ih => intro d; exact leV_trans (leV_join_right (v s) d) (ih _)

theorem joinAll_ge_src (v : Nat → Ver) (srcs : List Nat) : ∀ d, ∀ s ∈ srcs, leV (v s) (joinAll v srcs d) := by
  induction srcs with
  | nil => intro d s hs; cases hs
  | cons s0 rest ih =>
    intro d s hs
    rcases List.mem_cons.1 hs with h | h
    · subst h; exact leV_trans (leV_join_left (v s) d) (joinAll_ge v rest _)
    · exact ih _ s h

theorem joinAll_least (v : Nat → Ver) (srcs : List Nat) (x : Ver) : ∀ d, leV d x → (∀ s ∈ srcs, leV (v s) x) →
    leV (joinAll v srcs d) x := by
  induction srcs with
  | nil => intro d hd _; exact hd
  | cons s0 rest ih =>
    intro d hd hs
    exact ih _ (join_least (hs s0 (List.mem_cons_self ..)) hd) (fun s h => hs s (List.mem_cons_of_mem _ h))

theorem joinAll_canon (v : Nat → Ver) (srcs : List Nat) : ∀ d, CanonV d → CanonV (joinAll v srcs d) := by
  induction srcs with
  | nil => intro d hd; exact hd
  | cons s0 rest ih => intro d hd; exact ih _ (canon_join _ _ hd)

/-- absorbing `srcs` at `dst` is the serial schedule `s₁ → dst, s₂ → dst, …` (no source is `dst` itself) -/
theorem runX_joinAll (dst : Nat) (srcs : List Nat) : ∀ (v : Nat → Ver), (∀ s ∈ srcs, s ≠ dst) →
    runX v (srcs.map (fun s => (s, dst))) = fun i => if i = dst then joinAll v srcs (v dst) else v i := by
  induction srcs with
  | nil =>
    intro v _; funext i
    by_cases hi : i = dst
    · subst hi; simp [runX, joinAll]
    · simp [runX, hi]
  | cons s0 rest ih =>
    intro v hne
    have h0 : s0 ≠ dst := hne s0 (List.mem_cons_self ..)
    have hr : ∀ s ∈ rest, s ≠ dst := fun s h => hne s (List.mem_cons_of_mem _ h)
    simp only [List.map_cons, runX, List.foldl_cons]
    have := ih (xch v (s0, dst)) hr
    simp only [runX] at this
    rw [this]
    funext i
    by_cases hi : i = dst
    · simp only [hi, if_true, joinAll_cons]
      have e1 : xch v (s0, dst) dst = join (v s0) (v dst) := by simp [xch]
      rw [e1]
      -- the sources' versions are untouched by an exchange into `dst`
      have e2 : ∀ (l : List Nat) (d : Ver), (∀ s ∈ l, s ≠ dst) → joinAll (xch v (s0, dst)) l d = joinAll v l d := by
        intro l
        induction l with
        | nil => intro d _; rfl
        | cons a l ihl =>
          intro d hl
          have ha : a ≠ dst := hl a (List.mem_cons_self ..)
          rw [joinAll_cons, joinAll_cons, ihl _ (fun s h => hl s (List.mem_cons_of_mem _ h))]
          simp [xch, ha]
      rw [e2 rest _ hr]
    · simp [hi, xch]

end SafeNet.Replication.Abs

/-! ## what `add_keys` and `notify_about_new_put` do to the two queues, from any state -/
namespace SafeNet.Replication.Ph
open SafeNet.Fetcher SafeNet.Gen.Fetcher

variable (dist : Nat → Nat)

theorem failedOf_mem {s : State} {h : Nat} (hh : h ∈ failedOf s) :
    ∃ o ∈ s.ogf, o.deadline ≤ s.now ∧ o.holder = h := by
  simp only [failedOf, List.mem_map, List.mem_filter] at hh
  obtain ⟨o, ⟨ho, he⟩, rfl⟩ := hh
  exact ⟨o, ho, (expired_iff _ _).1 he, rfl⟩

/-- a holder reported by `add_keys` had a timed-out fetch registered before the call -/
theorem add_failed {s : State} {h : Nat} {inc loc : List (Nat × Nat)} {c : List Entry} {h' : Nat}
    (hh : h' ∈ (addKeys dist s h inc loc c).2.failed) : ∃ o ∈ s.ogf, o.deadline ≤ s.now ∧ o.holder = h' := by
  obtain ⟨X, ill, hx⟩ := addKeys_shape dist s h inc loc c
  rw [hx] at hh
  simp only [] at hh
  rw [(nextKeys_fields dist _ X).2.2.2] at hh
  obtain ⟨o, ho, hd, hho⟩ := failedOf_mem hh
  obtain ⟨_, _, hnow, hog⟩ := addCore_fields dist s h inc loc
  rw [hnow] at hd
  rw [hog] at ho
  rcases List.mem_append.1 ho with ho | ho
  · exact ⟨o, (List.mem_filter.1 ho).1, hd, hho⟩
  · obtain ⟨p, _, _, rfl, _⟩ := addCore_fast dist ho
    have := fetchTimeout_pos
    simp only [fastEntry] at hd
    omega

theorem put_failed {s : State} {k t : Nat} {c : List Entry} {h' : Nat}
    (hh : h' ∈ (newPut dist s k t c).2.failed) : ∃ o ∈ s.ogf, o.deadline ≤ s.now ∧ o.holder = h' := by
  unfold newPut at hh
  rw [(nextKeys_fields dist _ c).2.2.2] at hh
  obtain ⟨o, ho, hd, hho⟩ := failedOf_mem hh
  exact ⟨o, (List.mem_filter.1 ho).1, hd, hho⟩

theorem add_fields (s : State) (h : Nat) (inc loc : List (Nat × Nat)) (c : List Entry) :
    (addKeys dist s h inc loc c).1.now = s.now ∧ (addKeys dist s h inc loc c).1.farthest = s.farthest ∧
    (addKeys dist s h inc loc c).1.range = s.range := by
  obtain ⟨X, ill, hx⟩ := addKeys_shape dist s h inc loc c
  obtain ⟨a1, a2, a3, _⟩ := addCore_fields dist s h inc loc
  obtain ⟨b1, b2, b3, _⟩ := nextKeys_fields dist (addCore dist s h inc loc).1 X
  rw [hx]
  exact ⟨by rw [b3, a3], by rw [b2, a2], by rw [b1, a1]⟩

theorem put_fields (s : State) (k t : Nat) (c : List Entry) :
    (newPut dist s k t c).1.now = s.now ∧ (newPut dist s k t c).1.farthest = s.farthest ∧
    (newPut dist s k t c).1.range = s.range := by
  unfold newPut
  obtain ⟨b1, b2, b3, _⟩ := nextKeys_fields dist
    { s with tbf := s.tbf.filter (fun e => !sameKT k t e), ogf := s.ogf.filter (fun e => !(e.key == k)) } c
  exact ⟨b3, b2, b1⟩

/-- a queued entry after `add_keys` was queued before or is a new key of this advertisement -/
theorem add_tbf_origin {s : State} {h : Nat} {inc loc : List (Nat × Nat)} {c : List Entry} {x : Entry}
    (hx : x ∈ (addKeys dist s h inc loc c).1.tbf) :
    x ∈ s.tbf ∨ ∃ p ∈ inc.filter (admits dist s loc h), x = ⟨p.1, p.2, h, s.now + pendingTimeout⟩ := by
  obtain ⟨X, ill, hs⟩ := addKeys_shape dist s h inc loc c
  rw [hs] at hx
  have h1 := (pTbf_sub _).subset ((nextKeys_tbf_sub dist _ X).subset hx)
  rcases addCore_tbf_origin dist h1 with ⟨h2, _⟩ | ⟨_, p, hp, _, rfl⟩
  · exact Or.inl h2
  · exact Or.inr ⟨p, hp, rfl⟩

theorem put_tbf_origin {s : State} {k t : Nat} {c : List Entry} {x : Entry}
    (hx : x ∈ (newPut dist s k t c).1.tbf) : x ∈ s.tbf := by
  unfold newPut at hx
  have h1 := (pTbf_sub _).subset ((nextKeys_tbf_sub dist _ c).subset hx)
  exact (List.mem_filter.1 h1).1

/-- a pair returned by `add_keys` was queued before (same key, type, holder) or is a new key of this advertisement -/
theorem add_ret_origin {s : State} {h : Nat} {inc loc : List (Nat × Nat)} {c : List Entry} {e : Entry}
    (he : e ∈ (addKeys dist s h inc loc c).2.ret) :
    e.deadline = s.now + fetchTimeout ∧
    ((∃ x ∈ s.tbf, x.key = e.key ∧ x.ty = e.ty ∧ x.holder = e.holder) ∨
     (e.holder = h ∧ (e.key, e.ty) ∈ inc.filter (admits dist s loc h))) := by
  obtain ⟨X, ill, hs⟩ := addKeys_shape dist s h inc loc c
  rw [hs] at he
  obtain ⟨_, _, hnow, _⟩ := addCore_fields dist s h inc loc
  rcases List.mem_append.1 he with he | he
  · obtain ⟨p, hp, _, rfl, _⟩ := addCore_fast dist he
    refine ⟨rfl, Or.inr ⟨rfl, ?_⟩⟩
    show p ∈ newOf dist s loc h inc
    rw [hp]; exact List.mem_singleton.2 rfl
  · obtain ⟨⟨x, hx, hk, ht, hh⟩, hd, _⟩ := nextKeys_ret_origin dist he
    refine ⟨by rw [hd, hnow], ?_⟩
    rcases addCore_tbf_origin dist ((pTbf_sub _).subset hx) with ⟨h2, _⟩ | ⟨_, p, hp, _, rfl⟩
    · exact Or.inl ⟨x, h2, hk, ht, hh⟩
    · right
      simp only at hk ht hh
      refine ⟨hh.symm, ?_⟩
      rw [← hk, ← ht]; exact hp

theorem put_ret_origin {s : State} {k t : Nat} {c : List Entry} {e : Entry}
    (he : e ∈ (newPut dist s k t c).2.ret) :
    e.deadline = s.now + fetchTimeout ∧ ∃ x ∈ s.tbf, x.key = e.key ∧ x.ty = e.ty ∧ x.holder = e.holder := by
  unfold newPut at he
  obtain ⟨⟨x, hx, hk, ht, hh⟩, hd, _⟩ := nextKeys_ret_origin dist he
  exact ⟨hd, x, (List.mem_filter.1 ((pTbf_sub _).subset hx)).1, hk, ht, hh⟩

theorem early_failed {s : State} {k t : Nat} {c : List Entry} {h' : Nat}
    (hh : h' ∈ (earlyDone dist s k t c).2.failed) : ∃ o ∈ s.ogf, o.deadline ≤ s.now ∧ o.holder = h' := by
  unfold earlyDone at hh
  rw [(nextKeys_fields dist _ c).2.2.2] at hh
  obtain ⟨o, ho, hd, hho⟩ := failedOf_mem hh
  exact ⟨o, (List.mem_filter.1 ho).1, hd, hho⟩

theorem early_fields (s : State) (k t : Nat) (c : List Entry) :
    (earlyDone dist s k t c).1.now = s.now ∧ (earlyDone dist s k t c).1.farthest = s.farthest ∧
    (earlyDone dist s k t c).1.range = s.range := by
  unfold earlyDone
  obtain ⟨b1, b2, b3, _⟩ := nextKeys_fields dist
    { s with tbf := s.tbf.filter (fun e => !sameKT k t e), ogf := s.ogf.filter (fun e => !sameKT k t e) } c
  exact ⟨b3, b2, b1⟩

theorem early_tbf_origin {s : State} {k t : Nat} {c : List Entry} {x : Entry}
    (hx : x ∈ (earlyDone dist s k t c).1.tbf) : x ∈ s.tbf := by
  unfold earlyDone at hx
  have h1 := (pTbf_sub _).subset ((nextKeys_tbf_sub dist _ c).subset hx)
  exact (List.mem_filter.1 h1).1

theorem early_ret_origin {s : State} {k t : Nat} {c : List Entry} {e : Entry}
    (he : e ∈ (earlyDone dist s k t c).2.ret) :
    e.deadline = s.now + fetchTimeout ∧ ∃ x ∈ s.tbf, x.key = e.key ∧ x.ty = e.ty ∧ x.holder = e.holder := by
  unfold earlyDone at he
  obtain ⟨⟨x, hx, hk, ht, hh⟩, hd, _⟩ := nextKeys_ret_origin dist he
  exact ⟨hd, x, (List.mem_filter.1 ((pTbf_sub _).subset hx)).1, hk, ht, hh⟩

end SafeNet.Replication.Ph

/-! ## one requester, any interleaving of advertisements and replies -/
namespace SafeNet.Replication
open SafeNet.Validate SafeNet.Gen.Validate SafeNet.Gen.Replication
open SafeNet.Fetcher (Entry admits hasKT hasKTH)
open SafeNet.Gen.Fetcher (maxParallelFetch fetchTimeout pendingTimeout)
open Abs
set_option linter.unusedSimpArgs false

/-- the repaired fetch task: `store_replicated_in_record` returned Ok ⇒ `notify_fetch_completed` -/
theorem notifies : fetchTaskNotifiesCompletion = true := rfl

/-- `notify_about_new_put` of a stored reply -/
def rspPut (w : World) (i : Nat) (nd : NodeSt) (key : Nat) (c' : Content) (ch : List Entry) : Fetcher.State × Fetcher.Out :=
  Fetcher.newPut (w.kdist i) nd.fetcher key (tyOf c') (choicePut ch)

/-- `notify_fetch_early_completed` after it -/
def rspDone (w : World) (i : Nat) (nd : NodeSt) (key : Nat) (c c' : Content) (ch : List Entry) : Fetcher.State × Fetcher.Out :=
  Fetcher.earlyDone (w.kdist i) (rspPut w i nd key c' ch).1 key (tyOf c) (choiceDone ch)

/-- the outcomes of a fetched record arriving at the requester. (A) `store_replicated_in_record` returns an error and
writes nothing: the node is unchanged, no `next_keys_to_fetch` runs, the in-flight entry stays. (B) it returns Ok and
writes nothing (the copy changes nothing): the fetch task reports completion, `notify_fetch_early_completed(key, type of
the fetched bytes)`. (C) it returns Ok and writes under the fetched key: `PutLocalRecord` → `notify_about_new_put`, then
the completion notice. (D) it writes and returns an error: `notify_about_new_put` only. -/
theorem nodeRsp_cases (w : World) (i : Nat) (nd : NodeSt) (key : Nat) (c : Content) (ch : List Entry) :
    (replWrites nd.store key c = [] ∧ replOk nd.store key c = false ∧ (nodeRsp w i nd key c ch).1 = nd ∧
      (nodeRsp w i nd key c ch).2.1.ret = [] ∧ (nodeRsp w i nd key c ch).2.2 = []) ∨
    (replWrites nd.store key c = [] ∧ replOk nd.store key c = true ∧ (nodeRsp w i nd key c ch).2.2 = [] ∧
      (nodeRsp w i nd key c ch).1.store = nd.store ∧
      (nodeRsp w i nd key c ch).2.1 = (Fetcher.earlyDone (w.kdist i) nd.fetcher key (tyOf c) ch).2 ∧
      (nodeRsp w i nd key c ch).1.fetcher = (Fetcher.earlyDone (w.kdist i) nd.fetcher key (tyOf c) ch).1) ∨
    (∃ c' rest, replWrites nd.store key c = (key, c') :: rest ∧ replOk nd.store key c = true ∧
      (nodeRsp w i nd key c ch).2.2 = [(key, c')] ∧
      (nodeRsp w i nd key c ch).1.store = nd.store.put key c' ∧
      (nodeRsp w i nd key c ch).2.1.ret = (rspPut w i nd key c' ch).2.ret ++ (rspDone w i nd key c c' ch).2.ret ∧
      (nodeRsp w i nd key c ch).2.1.illegal = ((rspPut w i nd key c' ch).2.illegal || (rspDone w i nd key c c' ch).2.illegal) ∧
      (nodeRsp w i nd key c ch).1.fetcher.tbf = (rspDone w i nd key c c' ch).1.tbf ∧
      (nodeRsp w i nd key c ch).1.fetcher.ogf = (rspDone w i nd key c c' ch).1.ogf ∧
      (nodeRsp w i nd key c ch).1.fetcher.now = (rspDone w i nd key c c' ch).1.now ∧
      (nodeRsp w i nd key c ch).1.fetcher.farthest = (rspDone w i nd key c c' ch).1.farthest) ∨
    (∃ c' rest, replWrites nd.store key c = (key, c') :: rest ∧ replOk nd.store key c = false ∧
      (nodeRsp w i nd key c ch).2.2 = [(key, c')] ∧
      (nodeRsp w i nd key c ch).1.store = nd.store.put key c' ∧
      (nodeRsp w i nd key c ch).2.1 = (Fetcher.newPut (w.kdist i) nd.fetcher key (tyOf c') ch).2 ∧
      (nodeRsp w i nd key c ch).1.fetcher.tbf = (Fetcher.newPut (w.kdist i) nd.fetcher key (tyOf c') ch).1.tbf ∧
      (nodeRsp w i nd key c ch).1.fetcher.ogf = (Fetcher.newPut (w.kdist i) nd.fetcher key (tyOf c') ch).1.ogf ∧
      (nodeRsp w i nd key c ch).1.fetcher.now = (Fetcher.newPut (w.kdist i) nd.fetcher key (tyOf c') ch).1.now ∧
      (nodeRsp w i nd key c ch).1.fetcher.farthest = (Fetcher.newPut (w.kdist i) nd.fetcher key (tyOf c') ch).1.farthest) := by
  unfold nodeRsp nodeRspWith
  simp only [notifies, Bool.true_and]
  split
  · rename_i heq
    cases hok : replOk nd.store key c with
    | false => exact Or.inl ⟨heq, rfl, by simp, by simp, by simp⟩
    | true => exact Or.inr (Or.inl ⟨heq, rfl, by simp, by simp, by simp, by simp⟩)
  · rename_i k' c' rest heq
    have hk : k' = key := replWrites_key nd.store key c (k', c') (by rw [heq]; exact List.mem_cons_self ..)
    subst hk
    cases hok : replOk nd.store k' c with
    | true =>
      right; right; left
      refine ⟨c', rest, heq, rfl, by simp, by simp, by simp [rspPut, rspDone], by simp [rspPut, rspDone], ?_, ?_, ?_, ?_⟩ <;>
        (simp only [if_true, rspPut, rspDone]; cases nd.range <;> rfl)
    | false =>
      right; right; right
      refine ⟨c', rest, heq, rfl, by simp, ?_⟩
      simp only [putLocal, Bool.false_eq_true, if_false]
      cases hr : nd.range <;> simp

theorem heard_ne {w : World} {i h : Nat} (hh : heard w i h = true) : h ≠ i := by
  simp only [heard, replicateChecksCloseness, replicateRejectsSelf, Bool.not_true, Bool.false_or,
    Bool.and_eq_true, bne_iff_ne, ne_eq] at hh
  exact hh.2

/-- a store as a map: no key twice -/
def StoreWF (s : Store) : Prop := (s.map (·.1)).Nodup

theorem get_of_mem_wf {s : Store} (hwf : StoreWF s) {k : Nat} {c : Content} (h : (k, c) ∈ s) : s.get k = some c := by
  induction s with
  | nil => cases h
  | cons p rest ih =>
    obtain ⟨k', c'⟩ := p
    simp only [StoreWF, List.map_cons, List.nodup_cons] at hwf
    simp only [SafeNet.Validate.Store.get]
    rcases List.mem_cons.1 h with h | h
    · injection h with h1 h2; subst h1; subst h2; simp
    · have hne : k' ≠ k := by
        intro hk; subst hk
        exact hwf.1 (List.mem_map.2 ⟨(k', c), h, rfl⟩)
      simp only [hne, if_false]
      exact ih hwf.2 h

theorem put_keys (s : Store) (k : Nat) (c : Content) (x : Nat) :
    x ∈ (s.put k c).map (·.1) ↔ x = k ∨ x ∈ s.map (·.1) := by
  induction s with
  | nil => simp [SafeNet.Validate.Store.put]
  | cons p rest ih =>
    obtain ⟨k', c'⟩ := p
    simp only [SafeNet.Validate.Store.put]
    by_cases h : k' = k
    · subst h; simp
    · simp only [h, if_false, List.map_cons, List.mem_cons, ih]
      constructor
      · rintro (h1 | h1 | h1) <;> simp [h1]
      · rintro (h1 | h1 | h1) <;> simp [h1]

theorem put_wf {s : Store} (hwf : StoreWF s) (k : Nat) (c : Content) : StoreWF (s.put k c) := by
  induction s with
  | nil => simp [SafeNet.Validate.Store.put, StoreWF]
  | cons p rest ih =>
    obtain ⟨k', c'⟩ := p
    simp only [StoreWF, List.map_cons, List.nodup_cons] at hwf
    simp only [SafeNet.Validate.Store.put]
    by_cases h : k' = k
    · subst h; simpa [StoreWF] using hwf
    · simp only [h, if_false, StoreWF, List.map_cons, List.nodup_cons]
      refine ⟨?_, ih hwf.2⟩
      intro hm
      rcases (put_keys rest k c k').1 hm with h1 | h1
      · exact h h1
      · exact hwf.1 h1

/-- an advertised `(key, type)` of a well-formed store is what `get` returns -/
theorem indexOf_get {s : Store} (hwf : StoreWF s) {p : Nat × Nat} (h : p ∈ indexOf s) :
    ∃ c, s.get p.1 = some c ∧ tyOf c = p.2 := by
  obtain ⟨c, hm, ht⟩ := indexOf_sound s p h
  exact ⟨c, get_of_mem_wf hwf hm, ht.symm⟩

theorem nodeRsp_wf (w : World) (i : Nat) (nd : NodeSt) (key : Nat) (c : Content) (ch : List Entry)
    (h : StoreWF nd.store) : StoreWF (nodeRsp w i nd key c ch).1.store := by
  rw [nodeRsp_store]
  split
  · exact h
  · exact put_wf h _ _

theorem mem_eraseIdx_of_ne {α : Type} {l : List α} {i : Nat} {e o : α} (he : l[i]? = some e) (ho : o ∈ l)
    (hne : o ≠ e) : o ∈ l.eraseIdx i := by
  obtain ⟨n, hn, rfl⟩ := List.getElem_of_mem ho
  rw [List.mem_eraseIdx_iff_getElem]
  refine ⟨n, hn, ?_, rfl⟩
  intro hni
  subst hni
  rw [List.getElem?_eq_getElem hn] at he
  injection he with he
  exact hne he

/-- requester-side state of a phase: the node, the fetches whose reply is outstanding, and (ghost) the fetches whose
reply changed nothing — their in-flight entries stay registered until FETCH_TIMEOUT -/
structure Rq where
  nd : NodeSt
  pending : List Entry := []
  noop : List Entry := []

/-- what reaches the requester: a `Replicate` list from `src` (its whole index, with the choice witness of the returned
batch), or the reply to one of the outstanding fetches — *any* of them, picked by `j` — with the choice witness of the
batch `notify_about_new_put` returns -/
inductive Ev
  | adv (src : Nat) (c : List Entry)
  | rsp (j : Nat) (c : List Entry)

/-- `nodes` is the snapshot the holders serve from (only the requester changes during its phase); `nt`: the fetch task
reports completion (the generated flag `fetchTaskNotifiesCompletion`) -/
def evStepWith (nt : Bool) (w : World) (dst : Nat) (nodes : Nat → NodeSt) (st : Rq) : Ev → Rq
  | .adv src c =>
    let r := nodeRep w dst st.nd src (indexOf (nodes src).store) c
    { st with nd := r.1, pending := st.pending ++ r.2.ret }
  | .rsp j c =>
    match st.pending[j % st.pending.length]? with
    | none => st
    | some e =>
      match serve (nodes e.holder) e.key with
      | none => { st with pending := st.pending.eraseIdx (j % st.pending.length) }
      | some cont =>
        let r := nodeRspWith nt w dst st.nd e.key cont c
        { nd := r.1, pending := st.pending.eraseIdx (j % st.pending.length) ++ r.2.1.ret,
          noop := if r.2.2.isEmpty then e :: st.noop else st.noop }

def evStep (w : World) (dst : Nat) (nodes : Nat → NodeSt) (st : Rq) (ev : Ev) : Rq :=
  evStepWith fetchTaskNotifiesCompletion w dst nodes st ev

def runEvsWith (nt : Bool) (w : World) (dst : Nat) (nodes : Nat → NodeSt) (st : Rq) (evs : List Ev) : Rq :=
  evs.foldl (evStepWith nt w dst nodes) st

def runEvs (w : World) (dst : Nat) (nodes : Nat → NodeSt) (st : Rq) (evs : List Ev) : Rq :=
  evs.foldl (evStep w dst nodes) st

/-- per-event FairRound hypotheses, checked at the state the event meets: an advertisement comes from a heard peer, no
timed-out fetch from that peer / of one of its new versions is still registered, its new keys are within the range, the
choice witness is legal; a reply's choice witness is legal. No bound on the number of keys, no condition on what else is
in flight. -/
def EvOk (w : World) (dst : Nat) (nodes : Nat → NodeSt) (st : Rq) : Ev → Prop
  | .adv src c =>
    heard w dst src = true ∧
    (∀ o ∈ st.nd.fetcher.ogf, o.deadline ≤ st.nd.fetcher.now → o.holder ≠ src) ∧
    (∀ p ∈ (indexOf (nodes src).store).filter (admits (w.kdist dst) st.nd.fetcher (indexOf st.nd.store) src),
      ∀ o ∈ st.nd.fetcher.ogf, o.deadline ≤ st.nd.fetcher.now → ¬(o.key = p.1 ∧ o.ty = p.2)) ∧
    (∀ r, st.nd.fetcher.range = some r →
      ∀ p ∈ (indexOf (nodes src).store).filter (admits (w.kdist dst) st.nd.fetcher (indexOf st.nd.store) src),
        w.kdist dst p.1 ≤ r) ∧
    (nodeRep w dst st.nd src (indexOf (nodes src).store) c).2.illegal = false
  | .rsp j c =>
    ∀ e cont, st.pending[j % st.pending.length]? = some e → serve (nodes e.holder) e.key = some cont →
      (nodeRsp w dst st.nd e.key cont c).2.1.illegal = false

def PhaseOk (w : World) (dst : Nat) (nodes : Nat → NodeSt) : Rq → List Ev → Prop
  | _, [] => True
  | st, ev :: evs => EvOk w dst nodes st ev ∧ PhaseOk w dst nodes (evStep w dst nodes st ev) evs

/-- the sources that advertise in a phase, in order -/
def advSrcs : List Ev → List Nat
  | [] => []
  | .adv s _ :: evs => s :: advSrcs evs
  | .rsp .. :: evs => advSrcs evs

/-- the holder of a queued / outstanding fetch really holds that key with that record type -/
def HolderHas (nodes : Nat → NodeSt) (x : Entry) : Prop :=
  ∃ c, (nodes x.holder).store.get x.key = some c ∧ tyOf c = x.ty

theorem holderHas_congr {nodes : Nat → NodeSt} {x e : Entry} (hk : x.key = e.key) (ht : x.ty = e.ty)
    (hh : x.holder = e.holder) (h : HolderHas nodes x) : HolderHas nodes e := by
  unfold HolderHas at h ⊢
  rw [← hk, ← ht, ← hh]; exact h

/-- **fetcher-side invariant of a phase** (key-independent), over the fetcher `f`, the outstanding fetches `pending` and
the fetches whose reply changed nothing `noop`. `now0` is the requester's clock (no time passes during the phase), `advs`
the sources that have advertised so far. -/
structure FInv (nodes : Nat → NodeSt) (now0 : Nat) (advs : List Nat) (f : Fetcher.State) (pending noop : List Entry) :
    Prop where
  far : f.farthest = none
  now : f.now = now0
  tbfOk : ∀ x ∈ f.tbf, now0 < x.deadline ∧ x.holder ∈ advs ∧ HolderHas nodes x
  pendOk : ∀ e ∈ pending, e.holder ∈ advs ∧ HolderHas nodes e
  /-- an in-flight entry is a leftover of an earlier phase (timed out), or its reply is outstanding, or its reply
  changed nothing -/
  ogfOk : ∀ o ∈ f.ogf, o.deadline ≤ now0 ∨ o ∈ pending ∨ o ∈ noop
  ogfDl : ∀ o ∈ f.ogf, o.deadline ≤ now0 + fetchTimeout
  /-- C08 `closest_first`: a queued entry whose version is not in flight waits only because the limit is reached -/
  closest : ∀ x ∈ f.tbf, hasKT f.ogf x.key x.ty = true ∨ maxParallelFetch ≤ f.ogf.length
  running : (∀ o ∈ f.ogf, now0 < o.deadline) ∨ (f.tbf = [] ∧ pending = [] ∧ noop = [] ∧ advs = [])

theorem fInv_init (nodes : Nat → NodeSt) (f : Fetcher.State) (hq : StaleQuiet f) : FInv nodes f.now [] f [] [] := by
  obtain ⟨ht, hf, hexp⟩ := hq
  refine ⟨hf, rfl, ?_, ?_, ?_, ?_, ?_, Or.inr ⟨ht, rfl, rfl, rfl⟩⟩
  · intro x hx; rw [ht] at hx; cases hx
  · intro e he; cases he
  · intro o ho; exact Or.inl (hexp o ho)
  · intro o ho; have := hexp o ho; omega
  · intro x hx; rw [ht] at hx; cases hx

theorem fInv_congr {nodes : Nat → NodeSt} {now0 : Nat} {advs : List Nat} {f f' : Fetcher.State}
    {pending noop : List Entry} (h : FInv nodes now0 advs f pending noop) (h1 : f'.tbf = f.tbf) (h2 : f'.ogf = f.ogf)
    (h3 : f'.now = f.now) (h4 : f'.farthest = f.farthest) : FInv nodes now0 advs f' pending noop := by
  obtain ⟨a, b, c, d, e, g, i, j⟩ := h
  exact ⟨by rw [h4]; exact a, by rw [h3]; exact b, by rw [h1]; exact c, d, by rw [h2]; exact e, by rw [h2]; exact g,
    by rw [h1, h2]; exact i, by rw [h1, h2]; exact j⟩

open SafeNet.Fetcher (addKeys newPut) in
/-- an advertisement from `src` (legal choice witness) preserves the invariant -/
theorem fInv_add (dist : Nat → Nat) {nodes : Nat → NodeSt} {now0 : Nat} {advs : List Nat} {f : Fetcher.State}
    {pending noop : List Entry} (src : Nat) (L loc : List (Nat × Nat)) (c : List Entry)
    (hL : ∀ p ∈ L, ∃ ct, (nodes src).store.get p.1 = some ct ∧ tyOf ct = p.2)
    (hleg : (addKeys dist f src L loc c).2.illegal = false)
    (h : FInv nodes now0 advs f pending noop) :
    FInv nodes now0 (src :: advs) (addKeys dist f src L loc c).1 (pending ++ (addKeys dist f src L loc c).2.ret) noop := by
  obtain ⟨a1, a2, _⟩ := Ph.add_fields dist f src L loc c
  have hexact := SafeNet.Props.C08.inflight_exact dist f (.add src L loc c)
  simp only [Fetcher.step] at hexact
  have hnew : ∀ e : Entry, e.holder = src → (e.key, e.ty) ∈ L.filter (admits dist f loc src) → HolderHas nodes e := by
    intro e hh hp
    obtain ⟨ct, h1, h2⟩ := hL _ (List.mem_filter.1 hp).1
    exact ⟨ct, by rw [hh]; exact h1, h2⟩
  refine ⟨by rw [a2]; exact h.far, by rw [a1]; exact h.now, ?_, ?_, ?_, ?_, ?_, ?_⟩
  · intro x hx
    rcases Ph.add_tbf_origin dist hx with h1 | ⟨p, hp, rfl⟩
    · obtain ⟨b1, b2, b3⟩ := h.tbfOk x h1
      exact ⟨b1, List.mem_cons_of_mem _ b2, b3⟩
    · refine ⟨?_, List.mem_cons_self .., hnew _ rfl hp⟩
      have : 0 < pendingTimeout := by decide
      have := h.now
      simp only; omega
  · intro e he
    rcases List.mem_append.1 he with he | he
    · obtain ⟨b1, b2⟩ := h.pendOk e he
      exact ⟨List.mem_cons_of_mem _ b1, b2⟩
    · rcases (Ph.add_ret_origin dist he).2 with ⟨x, hx, hk, ht, hh⟩ | ⟨hh, hp⟩
      · obtain ⟨_, b2, b3⟩ := h.tbfOk x hx
        exact ⟨by rw [← hh]; exact List.mem_cons_of_mem _ b2, holderHas_congr hk ht hh b3⟩
      · exact ⟨by rw [hh]; exact List.mem_cons_self .., hnew e hh hp⟩
  · intro o ho
    rw [hexact] at ho
    rcases List.mem_append.1 ho with ho | ho
    · obtain ⟨ho1, ho2⟩ := List.mem_filter.1 ho
      simp only [SafeNet.Props.C08.stays, Bool.and_eq_true, decide_eq_true_eq] at ho2
      rcases h.ogfOk o ho1 with b | b | b
      · have := h.now; omega
      · exact Or.inr (Or.inl (List.mem_append_left _ b))
      · exact Or.inr (Or.inr b)
    · exact Or.inr (Or.inl (List.mem_append_right _ ho))
  · intro o ho
    rw [hexact] at ho
    rcases List.mem_append.1 ho with ho | ho
    · exact h.ogfDl o (List.mem_filter.1 ho).1
    · have := (Ph.add_ret_origin dist ho).1
      have := h.now
      omega
  · intro x hx
    have := Fetcher.step_closest dist (op := .add src L loc c) (s := f) rfl hleg x hx
    cases hk : hasKT (addKeys dist f src L loc c).1.ogf x.key x.ty with
    | true => exact Or.inl rfl
    | false => exact Or.inr (this hk)
  · left
    intro o ho
    have := SafeNet.Props.C08.inflight_leaves_timeout dist f (.add src L loc c) trivial o ho
    have := h.now
    omega

open SafeNet.Fetcher (addKeys newPut) in
/-- a stored reply for key `k` (the fetch `e = pending[i]`, `notify_about_new_put(k, t)`, legal choice witness)
preserves the invariant -/
theorem fInv_put (dist : Nat → Nat) {nodes : Nat → NodeSt} {now0 : Nat} {advs : List Nat} {f : Fetcher.State}
    {pending noop : List Entry} (i : Nat) (e : Entry) (t : Nat) (c : List Entry)
    (hget : pending[i]? = some e)
    (hleg : (newPut dist f e.key t c).2.illegal = false)
    (h : FInv nodes now0 advs f pending noop) :
    FInv nodes now0 advs (newPut dist f e.key t c).1 (pending.eraseIdx i ++ (newPut dist f e.key t c).2.ret) noop := by
  obtain ⟨a1, a2, _⟩ := Ph.put_fields dist f e.key t c
  have hexact := SafeNet.Props.C08.inflight_exact dist f (.put e.key t c)
  simp only [Fetcher.step] at hexact
  refine ⟨by rw [a2]; exact h.far, by rw [a1]; exact h.now, ?_, ?_, ?_, ?_, ?_, ?_⟩
  · intro x hx
    exact h.tbfOk x (Ph.put_tbf_origin dist hx)
  · intro x hx
    rcases List.mem_append.1 hx with hx | hx
    · exact h.pendOk x (List.mem_of_mem_eraseIdx hx)
    · obtain ⟨y, hy, hk, ht, hh⟩ := (Ph.put_ret_origin dist hx).2
      obtain ⟨_, b2, b3⟩ := h.tbfOk y hy
      exact ⟨by rw [← hh]; exact b2, holderHas_congr hk ht hh b3⟩
  · intro o ho
    rw [hexact] at ho
    rcases List.mem_append.1 ho with ho | ho
    · obtain ⟨ho1, ho2⟩ := List.mem_filter.1 ho
      simp only [SafeNet.Props.C08.stays, Bool.and_eq_true, decide_eq_true_eq, Bool.not_eq_true',
        beq_eq_false_iff_ne, ne_eq] at ho2
      rcases h.ogfOk o ho1 with b | b | b
      · have := h.now; omega
      · refine Or.inr (Or.inl (List.mem_append_left _ (mem_eraseIdx_of_ne hget b ?_)))
        intro hoe; rw [hoe] at ho2; exact ho2.2 rfl
      · exact Or.inr (Or.inr b)
    · exact Or.inr (Or.inl (List.mem_append_right _ ho))
  · intro o ho
    rw [hexact] at ho
    rcases List.mem_append.1 ho with ho | ho
    · exact h.ogfDl o (List.mem_filter.1 ho).1
    · have := (Ph.put_ret_origin dist ho).1
      have := h.now
      omega
  · intro x hx
    have := Fetcher.step_closest dist (op := .put e.key t c) (s := f) rfl hleg x hx
    cases hk : hasKT (newPut dist f e.key t c).1.ogf x.key x.ty with
    | true => exact Or.inl rfl
    | false => exact Or.inr (this hk)
  · left
    intro o ho
    have := SafeNet.Props.C08.inflight_leaves_timeout dist f (.put e.key t c) trivial o ho
    have := h.now
    omega

/-- a reply that changes nothing: the fetcher is not notified, the in-flight entry stays -/
theorem fInv_noop {nodes : Nat → NodeSt} {now0 : Nat} {advs : List Nat} {f : Fetcher.State}
    {pending noop : List Entry} (i : Nat) (e : Entry) (hget : pending[i]? = some e)
    (h : FInv nodes now0 advs f pending noop) : FInv nodes now0 advs f (pending.eraseIdx i) (e :: noop) := by
  have hmem : e ∈ pending := List.mem_of_getElem? hget
  refine ⟨h.far, h.now, h.tbfOk, fun x hx => h.pendOk x (List.mem_of_mem_eraseIdx hx), ?_, h.ogfDl, h.closest, ?_⟩
  · intro o ho
    rcases h.ogfOk o ho with b | b | b
    · exact Or.inl b
    · by_cases hoe : o = e
      · exact Or.inr (Or.inr (by rw [hoe]; exact List.mem_cons_self ..))
      · exact Or.inr (Or.inl (mem_eraseIdx_of_ne hget b hoe))
    · exact Or.inr (Or.inr (List.mem_cons_of_mem _ b))
  · rcases h.running with b | ⟨_, b, _⟩
    · exact Or.inl b
    · rw [b] at hmem; cases hmem

open SafeNet.Fetcher (earlyDone) in
/-- a completion notice (`notify_fetch_early_completed(k, t)`, legal choice witness) preserves the invariant -/
theorem fInv_early (dist : Nat → Nat) {nodes : Nat → NodeSt} {now0 : Nat} {advs : List Nat} {f : Fetcher.State}
    {pending noop : List Entry} (k t : Nat) (c : List Entry)
    (hleg : (earlyDone dist f k t c).2.illegal = false)
    (h : FInv nodes now0 advs f pending noop) :
    FInv nodes now0 advs (earlyDone dist f k t c).1 (pending ++ (earlyDone dist f k t c).2.ret) noop := by
  obtain ⟨a1, a2, _⟩ := Ph.early_fields dist f k t c
  have hexact := SafeNet.Props.C08.inflight_exact dist f (.early k t c)
  simp only [Fetcher.step] at hexact
  refine ⟨by rw [a2]; exact h.far, by rw [a1]; exact h.now, ?_, ?_, ?_, ?_, ?_, ?_⟩
  · intro x hx
    exact h.tbfOk x (Ph.early_tbf_origin dist hx)
  · intro x hx
    rcases List.mem_append.1 hx with hx | hx
    · exact h.pendOk x hx
    · obtain ⟨y, hy, hk, ht, hh⟩ := (Ph.early_ret_origin dist hx).2
      obtain ⟨_, b2, b3⟩ := h.tbfOk y hy
      exact ⟨by rw [← hh]; exact b2, holderHas_congr hk ht hh b3⟩
  · intro o ho
    rw [hexact] at ho
    rcases List.mem_append.1 ho with ho | ho
    · obtain ⟨ho1, ho2⟩ := List.mem_filter.1 ho
      simp only [SafeNet.Props.C08.stays, Bool.and_eq_true, decide_eq_true_eq] at ho2
      rcases h.ogfOk o ho1 with b | b | b
      · have := h.now; omega
      · exact Or.inr (Or.inl (List.mem_append_left _ b))
      · exact Or.inr (Or.inr b)
    · exact Or.inr (Or.inl (List.mem_append_right _ ho))
  · intro o ho
    rw [hexact] at ho
    rcases List.mem_append.1 ho with ho | ho
    · exact h.ogfDl o (List.mem_filter.1 ho).1
    · have := (Ph.early_ret_origin dist ho).1
      have := h.now
      omega
  · intro x hx
    have := Fetcher.step_closest dist (op := .early k t c) (s := f) rfl hleg x hx
    cases hk : hasKT (earlyDone dist f k t c).1.ogf x.key x.ty with
    | true => exact Or.inl rfl
    | false => exact Or.inr (this hk)
  · left
    intro o ho
    have := SafeNet.Props.C08.inflight_leaves_timeout dist f (.early k t c) trivial o ho
    have := h.now
    omega

/-! ### the data side: one key, its versions as elements of the semilattice -/

/-- what the per-key argument needs to know about a kind of record (transaction set, register with a given base,
chunk): `OkV` describes the values the key may hold, `ver` their version -/
structure KeyLaw (k : Nat) (ver : Option Content → Ver) (OkV : Option Content → Prop) : Prop where
  vnone : ver none = none
  canon : ∀ v, OkV v → CanonV (ver v)
  /-- the record type determines the version (ideal content hash) -/
  same : ∀ c c', OkV (some c) → OkV (some c') → tyOf c = tyOf c' → ver (some c) = ver (some c')
  /-- a fetched copy arriving at the requester — whatever the fetcher's state — leaves the join -/
  rsp : ∀ (w : World) (i : Nat) (nd : NodeSt) (c : Content) (ch : List Entry), OkV (nd.store.get k) → OkV (some c) →
      OkV ((nodeRsp w i nd k c ch).1.store.get k) ∧
      ver ((nodeRsp w i nd k c ch).1.store.get k) = join (ver (some c)) (ver (nd.store.get k))

/-- every version with record type `t` is already contained in what the requester holds -/
def AbsT (ver : Option Content → Ver) (OkV : Option Content → Prop) (cur : Option Content) (t : Nat) : Prop :=
  ∀ c, OkV (some c) → tyOf c = t → leV (ver (some c)) (ver cur)

/-- the version with record type `t` of key `k` is absorbed, or a fetch of it is outstanding, or it is queued -/
def CovT (k : Nat) (ver : Option Content → Ver) (OkV : Option Content → Prop) (cur : Option Content)
    (f : Fetcher.State) (pending : List Entry) (t : Nat) : Prop :=
  AbsT ver OkV cur t ∨ (∃ e ∈ pending, e.key = k ∧ e.ty = t) ∨ (∃ x ∈ f.tbf, x.key = k ∧ x.ty = t)

/-- **data-side invariant of a phase** for key `k`: `cur` is what the requester holds under `k`, `init` its version at
the start of the phase -/
structure DInv (nodes : Nat → NodeSt) (k : Nat) (ver : Option Content → Ver) (OkV : Option Content → Prop) (init : Ver)
    (advs : List Nat) (cur : Option Content) (f : Fetcher.State) (pending noop : List Entry) : Prop where
  ok : OkV cur
  mono : leV init (ver cur)
  /-- nothing is invented: the version is below every bound of the initial version and the advertisers' versions -/
  upper : ∀ x, leV init x → (∀ s ∈ advs, leV (ver ((nodes s).store.get k)) x) → leV (ver cur) x
  noopAbs : ∀ o ∈ noop, o.key = k → AbsT ver OkV cur o.ty
  /-- the version of every source that has advertised is absorbed, being fetched, or queued -/
  cov : ∀ s ∈ advs, ∀ c, (nodes s).store.get k = some c → CovT k ver OkV cur f pending (tyOf c)

theorem absT_mono {ver : Option Content → Ver} {OkV : Option Content → Prop} {cur cur' : Option Content} {t : Nat}
    (hm : leV (ver cur) (ver cur')) (h : AbsT ver OkV cur t) : AbsT ver OkV cur' t :=
  fun c hc ht => leV_trans (h c hc ht) hm

/-- the requester holds a value of record type `t` -/
theorem absT_of_held {k : Nat} {ver : Option Content → Ver} {OkV : Option Content → Prop} (law : KeyLaw k ver OkV)
    {c' : Content} (hok : OkV (some c')) : AbsT ver OkV (some c') (tyOf c') := by
  intro c hc ht
  rw [law.same c c' hc hok ht]
  exact leV_refl _

/-- a copy of record type `t` has been joined into what the requester holds -/
theorem absT_of_joined {k : Nat} {ver : Option Content → Ver} {OkV : Option Content → Prop} (law : KeyLaw k ver OkV)
    {cont : Content} {cur : Option Content} (hok : OkV (some cont)) (hle : leV (ver (some cont)) (ver cur)) :
    AbsT ver OkV cur (tyOf cont) := by
  intro c hc ht
  rw [law.same c cont hc hok ht]
  exact hle

theorem initial_dInv (nodes : Nat → NodeSt) (k : Nat) (ver : Option Content → Ver) (OkV : Option Content → Prop)
    (cur : Option Content) (f : Fetcher.State) (hok : OkV cur) : DInv nodes k ver OkV (ver cur) [] cur f [] [] := by
  refine ⟨hok, leV_refl _, fun x h _ => h, ?_, ?_⟩
  · intro o ho; cases ho
  · intro s hs; cases hs

open SafeNet.Fetcher (addKeys newPut) in
/-- an advertisement keeps a covered version covered -/
theorem cov_add_keep (dist : Nat → Nat) {nodes : Nat → NodeSt} {k : Nat} {ver : Option Content → Ver}
    {OkV : Option Content → Prop} (law : KeyLaw k ver OkV) {now0 : Nat} {advs : List Nat} {cur : Option Content}
    {f : Fetcher.State} {pending noop : List Entry} (src : Nat) (L loc : List (Nat × Nat)) (c : List Entry)
    (hloc : loc.lookup k = cur.map tyOf) (hok : OkV cur)
    (hleg : (addKeys dist f src L loc c).2.illegal = false)
    (hf : FInv nodes now0 advs f pending noop) (t : Nat) (h : CovT k ver OkV cur f pending t) :
    CovT k ver OkV cur (addKeys dist f src L loc c).1 (pending ++ (addKeys dist f src L loc c).2.ret) t := by
  rcases h with h | ⟨e, he, hk, ht⟩ | ⟨x, hx, hk, ht⟩
  · exact Or.inl h
  · exact Or.inr (Or.inl ⟨e, List.mem_append_left _ he, hk, ht⟩)
  · by_cases hheld : loc.lookup k = some t
    · left
      rw [hloc] at hheld
      cases hcur : cur with
      | none => rw [hcur] at hheld; cases hheld
      | some c' =>
        rw [hcur] at hheld hok
        simp only [Option.map_some, Option.some.injEq] at hheld
        rw [← hheld]
        exact absT_of_held law hok
    · obtain ⟨b1, b2, _⟩ := hf.tbfOk x hx
      have hq : hasKTH f.tbf k t x.holder = true := (Fetcher.hasKTH_true_iff _ _ _ _).2 ⟨x, hx, hk, ht, rfl⟩
      have hkeeps : Fetcher.Keeps dist k t x.holder f (.add src L loc c) := by
        refine ⟨hleg, ?_, hheld, ?_⟩
        · intro hfail
          obtain ⟨o, ho, hd, _⟩ := Ph.add_failed dist hfail
          rcases hf.running with r | ⟨r, _⟩
          · have := r o ho; have := hf.now; omega
          · rw [r] at hx; cases hx
        · intro y hy _ _ _
          have := (hf.tbfOk y hy).1
          have := hf.now
          omega
      rcases Fetcher.keeps_step dist hq hkeeps with h1 | h1
      · obtain ⟨y, hy, hyk, hyt, _⟩ := (Fetcher.hasKTH_true_iff _ _ _ _).1 h1
        exact Or.inr (Or.inr ⟨y, hy, hyk, hyt⟩)
      · obtain ⟨y, hy, hyk, hyt⟩ := (Fetcher.hasKT_true_iff _ _ _).1 h1
        exact Or.inr (Or.inl ⟨y, List.mem_append_right _ hy, hyk, hyt⟩)

open SafeNet.Fetcher (addKeys newPut) in
/-- an advertisement from `src` preserves the data invariant and covers `src`'s version -/
theorem dInv_add (dist : Nat → Nat) {nodes : Nat → NodeSt} {k : Nat} {ver : Option Content → Ver}
    {OkV : Option Content → Prop} (law : KeyLaw k ver OkV) {now0 : Nat} {advs : List Nat} {cur : Option Content}
    {init : Ver} {f : Fetcher.State} {pending noop : List Entry} (src : Nat) (store : Store) (loc : List (Nat × Nat))
    (c : List Entry)
    (hsrc : (nodes src).store = store)
    (hloc : loc.lookup k = cur.map tyOf)
    (hleg : (addKeys dist f src (indexOf store) loc c).2.illegal = false)
    (hstaleFrom : ∀ o ∈ f.ogf, o.deadline ≤ f.now → o.holder ≠ src)
    (hstaleVer : ∀ p ∈ (indexOf store).filter (admits dist f loc src), ∀ o ∈ f.ogf, o.deadline ≤ f.now →
      ¬(o.key = p.1 ∧ o.ty = p.2))
    (hrange : ∀ r, f.range = some r → ∀ p ∈ (indexOf store).filter (admits dist f loc src), dist p.1 ≤ r)
    (hf : FInv nodes now0 advs f pending noop) (hd : DInv nodes k ver OkV init advs cur f pending noop) :
    DInv nodes k ver OkV init (src :: advs) cur (addKeys dist f src (indexOf store) loc c).1
      (pending ++ (addKeys dist f src (indexOf store) loc c).2.ret) noop := by
  refine ⟨hd.ok, hd.mono, fun x h1 h2 => hd.upper x h1 (fun s hs => h2 s (List.mem_cons_of_mem _ hs)), hd.noopAbs, ?_⟩
  intro s hs ct hct
  have keep := cov_add_keep dist law src (indexOf store) loc c hloc hd.ok hleg hf (tyOf ct)
  rcases List.mem_cons.1 hs with rfl | hs
  · -- the advertiser's own version
    rw [hsrc] at hct
    have hin : (k, tyOf ct) ∈ indexOf store := indexOf_complete store k ct hct
    by_cases hheld : loc.lookup k = some (tyOf ct)
    · left
      rw [hloc] at hheld
      cases hcur : cur with
      | none => rw [hcur] at hheld; cases hheld
      | some c' =>
        have hok := hd.ok
        rw [hcur] at hheld hok
        simp only [Option.map_some, Option.some.injEq] at hheld
        rw [← hheld]
        exact absT_of_held law hok
    · cases hq : hasKTH f.tbf k (tyOf ct) s with
      | true =>
        obtain ⟨x, hx, hxk, hxt, _⟩ := (Fetcher.hasKTH_true_iff _ _ _ _).1 hq
        exact keep (Or.inr (Or.inr ⟨x, hx, hxk, hxt⟩))
      | false =>
        have hfar : ∀ fd, f.farthest = some fd → dist k ≤ fd := by
          intro fd hfd; rw [hf.far] at hfd; cases hfd
        have hadm : (k, tyOf ct) ∈ (indexOf store).filter (admits dist f loc s) :=
          List.mem_filter.2 ⟨hin, SafeNet.Props.C08.admits_of dist hheld hq hfar⟩
        cases hfly : hasKT f.ogf k (tyOf ct) with
        | true =>
          obtain ⟨o, ho, hok, hot⟩ := (Fetcher.hasKT_true_iff _ _ _).1 hfly
          rcases hf.ogfOk o ho with b | b | b
          · exact absurd ⟨hok, hot⟩ (hstaleVer _ hadm o ho (by rw [hf.now]; exact b))
          · exact keep (Or.inr (Or.inl ⟨o, b, hok, hot⟩))
          · have := hd.noopAbs o b hok
            rw [hot] at this
            exact Or.inl this
        | false =>
          have hkeeps : Fetcher.Keeps dist k (tyOf ct) s f (.add s (indexOf store) loc c) := by
            refine ⟨hleg, ?_, hheld, ?_⟩
            · intro hfail
              obtain ⟨o, ho, hdl, hh⟩ := Ph.add_failed dist hfail
              exact hstaleFrom o ho hdl hh
            · intro y hy _ _ _
              have := (hf.tbfOk y hy).1
              have := hf.now
              omega
          rcases SafeNet.Props.C08.advert_step dist hin hkeeps hfar (fun r hr => hrange r hr _ hadm) hfly with h1 | h1
          · obtain ⟨y, hy, hyk, hyt, _⟩ := (Fetcher.hasKTH_true_iff _ _ _ _).1 h1
            exact Or.inr (Or.inr ⟨y, hy, hyk, hyt⟩)
          · obtain ⟨y, hy, hyk, hyt⟩ := (Fetcher.hasKT_true_iff _ _ _).1 h1
            exact Or.inr (Or.inl ⟨y, List.mem_append_right _ hy, hyk, hyt⟩)
  · exact keep (hd.cov s hs ct hct)

open SafeNet.Fetcher (addKeys newPut) in
/-- a stored reply preserves the data invariant. `e = pending[i]` is the fetch answered with `cont` (the holder's copy),
`c'` is what was written under `e.key`, `cur'` what the requester holds under `k` afterwards. -/
theorem dInv_put (dist : Nat → Nat) {nodes : Nat → NodeSt} {k : Nat} {ver : Option Content → Ver}
    {OkV : Option Content → Prop} (law : KeyLaw k ver OkV) {now0 : Nat} {advs : List Nat} {cur cur' : Option Content}
    {init : Ver} {f : Fetcher.State} {pending noop : List Entry} (i : Nat) (e : Entry) (cont c' : Content) (ch : List Entry)
    (hget : pending[i]? = some e)
    (hcont : (nodes e.holder).store.get e.key = some cont) (hty : tyOf cont = e.ty)
    (hokc : e.key = k → OkV (some cont))
    (hleg : (newPut dist f e.key (tyOf c') ch).2.illegal = false)
    (hok' : OkV cur')
    (hsame : e.key ≠ k → cur' = cur)
    (hjoin : e.key = k → cur' = some c' ∧ ver cur' = join (ver (some cont)) (ver cur))
    (hf : FInv nodes now0 advs f pending noop) (hd : DInv nodes k ver OkV init advs cur f pending noop) :
    DInv nodes k ver OkV init advs cur' (newPut dist f e.key (tyOf c') ch).1
      (pending.eraseIdx i ++ (newPut dist f e.key (tyOf c') ch).2.ret) noop := by
  have hmem : e ∈ pending := List.mem_of_getElem? hget
  have hmono : leV (ver cur) (ver cur') := by
    by_cases hk : e.key = k
    · rw [(hjoin hk).2]; exact leV_join_right _ _
    · rw [hsame hk]; exact leV_refl _
  refine ⟨hok', leV_trans hd.mono hmono, ?_, fun o ho hk => absT_mono hmono (hd.noopAbs o ho hk), ?_⟩
  · intro x h1 h2
    by_cases hk : e.key = k
    · rw [(hjoin hk).2]
      refine join_least ?_ (hd.upper x h1 h2)
      have := h2 e.holder (hf.pendOk e hmem).1
      rw [← hk, hcont] at this
      exact this
    · rw [hsame hk]; exact hd.upper x h1 h2
  · intro s hs ct hct
    rcases hd.cov s hs ct hct with h | ⟨e', he', hk, ht⟩ | ⟨x, hx, hk, ht⟩
    · exact Or.inl (absT_mono hmono h)
    · by_cases hee : e' = e
      · subst hee
        left
        have hj := (hjoin hk).2
        have : AbsT ver OkV cur' (tyOf cont) :=
          absT_of_joined law (hokc hk) (by rw [hj]; exact leV_join_left _ _)
        rw [hty, ht] at this
        exact this
      · exact Or.inr (Or.inl ⟨e', List.mem_append_left _ (mem_eraseIdx_of_ne hget he' hee), hk, ht⟩)
    · by_cases hput : k = e.key ∧ tyOf ct = tyOf c'
      · left
        have hj := (hjoin hput.1.symm).1
        rw [hj] at hok' ⊢
        rw [hput.2]
        exact absT_of_held law hok'
      · have hq : hasKTH f.tbf k (tyOf ct) x.holder = true :=
          (Fetcher.hasKTH_true_iff _ _ _ _).2 ⟨x, hx, hk, ht, rfl⟩
        have hkeeps : Fetcher.Keeps dist k (tyOf ct) x.holder f (.put e.key (tyOf c') ch) := by
          refine ⟨hleg, ?_, hput⟩
          intro hfail
          obtain ⟨o, ho, hdl, _⟩ := Ph.put_failed dist hfail
          rcases hf.running with r | ⟨_, r, _⟩
          · have := r o ho; have := hf.now; omega
          · rw [r] at hmem; cases hmem
        rcases Fetcher.keeps_step dist hq hkeeps with h1 | h1
        · obtain ⟨y, hy, hyk, hyt, _⟩ := (Fetcher.hasKTH_true_iff _ _ _ _).1 h1
          exact Or.inr (Or.inr ⟨y, hy, hyk, hyt⟩)
        · obtain ⟨y, hy, hyk, hyt⟩ := (Fetcher.hasKT_true_iff _ _ _).1 h1
          exact Or.inr (Or.inl ⟨y, List.mem_append_right _ hy, hyk, hyt⟩)

/-- a reply that changes nothing preserves the data invariant: its version was already contained -/
theorem dInv_noop {nodes : Nat → NodeSt} {k : Nat} {ver : Option Content → Ver}
    {OkV : Option Content → Prop} (law : KeyLaw k ver OkV) {advs : List Nat} {cur : Option Content}
    {init : Ver} {f : Fetcher.State} {pending noop : List Entry} (i : Nat) (e : Entry) (cont : Content)
    (hget : pending[i]? = some e) (hty : tyOf cont = e.ty)
    (hokc : e.key = k → OkV (some cont))
    (habs : e.key = k → leV (ver (some cont)) (ver cur))
    (hd : DInv nodes k ver OkV init advs cur f pending noop) :
    DInv nodes k ver OkV init advs cur f (pending.eraseIdx i) (e :: noop) := by
  have hthis : e.key = k → AbsT ver OkV cur e.ty := by
    intro hk
    have := absT_of_joined law (hokc hk) (habs hk)
    rw [hty] at this
    exact this
  refine ⟨hd.ok, hd.mono, hd.upper, ?_, ?_⟩
  · intro o ho hk
    rcases List.mem_cons.1 ho with rfl | ho
    · exact hthis hk
    · exact hd.noopAbs o ho hk
  · intro s hs ct hct
    rcases hd.cov s hs ct hct with h | ⟨e', he', hk, ht⟩ | h
    · exact Or.inl h
    · by_cases hee : e' = e
      · subst hee
        left
        rw [← ht]; exact hthis hk
      · exact Or.inr (Or.inl ⟨e', mem_eraseIdx_of_ne hget he' hee, hk, ht⟩)
    · exact Or.inr (Or.inr h)

open SafeNet.Fetcher (earlyDone) in
/-- a completion notice for `(k0, t0)` preserves the data invariant when the version `t0` of `k0` is contained in what
the requester holds -/
theorem dInv_early (dist : Nat → Nat) {nodes : Nat → NodeSt} {k : Nat} {ver : Option Content → Ver}
    {OkV : Option Content → Prop} {now0 : Nat} {advs : List Nat} {cur : Option Content}
    {init : Ver} {f : Fetcher.State} {pending noop : List Entry} (k0 t0 : Nat) (ch : List Entry)
    (hleg : (earlyDone dist f k0 t0 ch).2.illegal = false)
    (habs : k0 = k → AbsT ver OkV cur t0)
    (hf : FInv nodes now0 advs f pending noop) (hd : DInv nodes k ver OkV init advs cur f pending noop) :
    DInv nodes k ver OkV init advs cur (earlyDone dist f k0 t0 ch).1
      (pending ++ (earlyDone dist f k0 t0 ch).2.ret) noop := by
  refine ⟨hd.ok, hd.mono, hd.upper, hd.noopAbs, ?_⟩
  intro s hs ct hct
  rcases hd.cov s hs ct hct with h | ⟨e', he', hk, ht⟩ | ⟨x, hx, hk, ht⟩
  · exact Or.inl h
  · exact Or.inr (Or.inl ⟨e', List.mem_append_left _ he', hk, ht⟩)
  · by_cases hput : k = k0 ∧ tyOf ct = t0
    · left
      rw [hput.2]
      exact habs hput.1.symm
    · have hq : hasKTH f.tbf k (tyOf ct) x.holder = true :=
        (Fetcher.hasKTH_true_iff _ _ _ _).2 ⟨x, hx, hk, ht, rfl⟩
      have hkeeps : Fetcher.Keeps dist k (tyOf ct) x.holder f (.early k0 t0 ch) := by
        refine ⟨hleg, ?_, hput⟩
        intro hfail
        obtain ⟨o, ho, hdl, _⟩ := Ph.early_failed dist hfail
        rcases hf.running with r | ⟨r, _⟩
        · have := r o ho; have := hf.now; omega
        · rw [r] at hx; cases hx
      rcases Fetcher.keeps_step dist hq hkeeps with h1 | h1
      · obtain ⟨y, hy, hyk, hyt, _⟩ := (Fetcher.hasKTH_true_iff _ _ _ _).1 h1
        exact Or.inr (Or.inr ⟨y, hy, hyk, hyt⟩)
      · obtain ⟨y, hy, hyk, hyt⟩ := (Fetcher.hasKT_true_iff _ _ _).1 h1
        exact Or.inr (Or.inl ⟨y, List.mem_append_right _ hy, hyk, hyt⟩)

theorem dInv_congr {nodes : Nat → NodeSt} {k : Nat} {ver : Option Content → Ver} {OkV : Option Content → Prop}
    {init : Ver} {advs : List Nat} {cur : Option Content} {f f' : Fetcher.State} {pending noop : List Entry}
    (h : DInv nodes k ver OkV init advs cur f pending noop) (h1 : f'.tbf = f.tbf) :
    DInv nodes k ver OkV init advs cur f' pending noop := by
  refine ⟨h.ok, h.mono, h.upper, h.noopAbs, ?_⟩
  intro s hs ct hct
  have := h.cov s hs ct hct
  unfold CovT at this ⊢
  rw [h1]; exact this

/-! ### the invariant along a phase -/

/-- the phase invariant: fetcher side and data side (key `k`) together -/
def PInv (nodes : Nat → NodeSt) (k : Nat) (ver : Option Content → Ver) (OkV : Option Content → Prop) (init : Ver)
    (now0 : Nat) (advs : List Nat) (st : Rq) : Prop :=
  FInv nodes now0 advs st.nd.fetcher st.pending st.noop ∧
  DInv nodes k ver OkV init advs (st.nd.store.get k) st.nd.fetcher st.pending st.noop

/-- the advertisers after an event (most recent first) -/
def advsAfter (advs : List Nat) : Ev → List Nat
  | .adv s _ => s :: advs
  | .rsp .. => advs

theorem evStep_adv_eq (w : World) (dst : Nat) (nodes : Nat → NodeSt) (st : Rq) (src : Nat) (c : List Entry)
    (hh : heard w dst src = true) :
    (evStep w dst nodes st (.adv src c)).nd.fetcher =
      (Fetcher.addKeys (w.kdist dst) st.nd.fetcher src (indexOf (nodes src).store) (indexOf st.nd.store) c).1 ∧
    (evStep w dst nodes st (.adv src c)).nd.store = st.nd.store ∧
    (evStep w dst nodes st (.adv src c)).pending = st.pending ++
      (Fetcher.addKeys (w.kdist dst) st.nd.fetcher src (indexOf (nodes src).store) (indexOf st.nd.store) c).2.ret ∧
    (evStep w dst nodes st (.adv src c)).noop = st.noop := by
  simp only [evStep, evStepWith, evStepWith]
  rw [nodeRep_eq w dst st.nd src _ c hh]
  simp

theorem evStep_rsp_eq (w : World) (dst : Nat) (nodes : Nat → NodeSt) (st : Rq) (j : Nat) (c : List Entry) (e : Entry)
    (cont : Content) (hget : st.pending[j % st.pending.length]? = some e)
    (hs : serve (nodes e.holder) e.key = some cont) :
    evStep w dst nodes st (.rsp j c) =
      { nd := (nodeRsp w dst st.nd e.key cont c).1,
        pending := st.pending.eraseIdx (j % st.pending.length) ++ (nodeRsp w dst st.nd e.key cont c).2.1.ret,
        noop := if (nodeRsp w dst st.nd e.key cont c).2.2.isEmpty then e :: st.noop else st.noop } := by
  simp only [evStep, evStepWith, hget, hs]
  rfl

/-- **Every event preserves the phase invariant.** -/
theorem pInv_step (w : World) (dst : Nat) (nodes : Nat → NodeSt) (k : Nat) (ver : Option Content → Ver)
    (OkV : Option Content → Prop) (law : KeyLaw k ver OkV) (init : Ver) (now0 : Nat)
    (hwf : ∀ i, StoreWF (nodes i).store) (hokn : ∀ i, OkV ((nodes i).store.get k))
    (advs : List Nat) (st : Rq) (ev : Ev) (hi : PInv nodes k ver OkV init now0 advs st)
    (hok : EvOk w dst nodes st ev) :
    PInv nodes k ver OkV init now0 (advsAfter advs ev) (evStep w dst nodes st ev) := by
  obtain ⟨hf, hd⟩ := hi
  cases ev with
  | adv src c =>
    obtain ⟨hheard, hsf, hsv, hrg, hleg⟩ := hok
    obtain ⟨e1, e2, e3, e4⟩ := evStep_adv_eq w dst nodes st src c hheard
    rw [nodeRep_eq w dst st.nd src _ c hheard] at hleg
    simp only at hleg
    unfold PInv
    rw [e1, e2, e3, e4]
    refine ⟨?_, ?_⟩
    · exact fInv_add (w.kdist dst) src _ _ c (fun p hp => indexOf_get (hwf src) hp) hleg hf
    · exact dInv_add (w.kdist dst) law src (nodes src).store _ c rfl (indexOf_lookup _ _) hleg hsf hsv hrg hf hd
  | rsp j c =>
    cases hget : st.pending[j % st.pending.length]? with
    | none =>
      have : evStep w dst nodes st (.rsp j c) = st := by simp only [evStep, evStepWith, hget]
      rw [this]; exact ⟨hf, hd⟩
    | some e =>
      have hmem : e ∈ st.pending := List.mem_of_getElem? hget
      obtain ⟨_, cont, hcont, hty⟩ := hf.pendOk e hmem
      have hs : serve (nodes e.holder) e.key = some cont := hcont
      have hleg := hok e cont hget hs
      rw [evStep_rsp_eq w dst nodes st j c e cont hget hs]
      have hokc : e.key = k → OkV (some cont) := by
        intro hk; have := hokn e.holder; rw [← hk, hcont] at this; exact this
      have habsJ : e.key = k → leV (ver (some cont)) (ver ((nodeRsp w dst st.nd e.key cont c).1.store.get k)) := by
        intro hk
        have := (law.rsp w dst st.nd cont c hd.ok (hokc hk)).2
        rw [← hk] at this ⊢
        rw [this]
        exact leV_join_left _ _
      rcases nodeRsp_cases w dst st.nd e.key cont c with ⟨_, _, h1, h2, h3⟩ | ⟨_, _, h3, h1, h2, h4⟩ |
        ⟨c', rest, _, _, h0, h1, h2, hill, h3, h4, h5, h6⟩ | ⟨c', rest, _, _, h0, h1, h2, h3, h4, h5, h6⟩
      · -- an error, nothing written: the fetcher is not told
        unfold PInv
        have habs := habsJ
        simp only [h1] at habs
        simp only [h1, h2, h3, List.append_nil, List.isEmpty_nil, if_true]
        exact ⟨fInv_noop _ e hget hf, dInv_noop law _ e cont hget hty hokc habs hd⟩
      · -- Ok, nothing written: the completion notice
        unfold PInv
        have habs := habsJ
        rw [h1] at habs
        rw [h2] at hleg
        simp only [h1, h2, h3, h4, List.isEmpty_nil, if_true]
        have hf1 := fInv_noop _ e hget hf
        have hd1 := dInv_noop law _ e cont hget hty hokc habs hd
        exact ⟨fInv_early (w.kdist dst) e.key (tyOf cont) c hleg hf1,
          dInv_early (w.kdist dst) e.key (tyOf cont) c hleg (fun hk => absT_of_joined law (hokc hk) (habs hk)) hf1 hd1⟩
      · -- Ok and written under `e.key`: `notify_about_new_put`, then the completion notice
        rw [hill] at hleg
        simp only [Bool.or_eq_false_iff] at hleg
        obtain ⟨hleg1, hleg2⟩ := hleg
        unfold PInv
        simp only [h0, h1, h2, List.isEmpty_cons, Bool.false_eq_true, if_false, ← List.append_assoc]
        have hf1 := fInv_put (w.kdist dst) _ e (tyOf c') (choicePut c) hget hleg1 hf
        have hcur' : OkV ((st.nd.store.put e.key c').get k) := by
          by_cases hk : e.key = k
          · have := (law.rsp w dst st.nd cont c hd.ok (hokc hk)).1
            rw [← hk, h1] at this
            rw [← hk]; exact this
          · rw [get_put_other _ _ _ _ (fun h => hk h.symm)]; exact hd.ok
        have hjoin : e.key = k → (st.nd.store.put e.key c').get k = some c' ∧
            ver ((st.nd.store.put e.key c').get k) = join (ver (some cont)) (ver (st.nd.store.get k)) := by
          intro hk
          refine ⟨by rw [← hk]; exact get_put_same _ _ _, ?_⟩
          have := (law.rsp w dst st.nd cont c hd.ok (hokc hk)).2
          rw [← hk, h1] at this
          rw [← hk]; exact this
        have hd1 := dInv_put (w.kdist dst) law _ e cont c' (choicePut c) hget hcont hty hokc hleg1 hcur'
          (fun hk => get_put_other _ _ _ _ (fun h => hk h.symm)) hjoin hf hd
        have hf2 := fInv_early (w.kdist dst) e.key (tyOf cont) (choiceDone c) hleg2 hf1
        have hd2 := dInv_early (w.kdist dst) e.key (tyOf cont) (choiceDone c) hleg2
          (fun hk => absT_of_joined law (hokc hk) (by rw [(hjoin hk).2]; exact leV_join_left _ _)) hf1 hd1
        exact ⟨fInv_congr hf2 h3 h4 h5 h6, dInv_congr hd2 h3⟩
      · -- an error although something was written under `e.key`; the fetcher is notified of the put only
        rw [h2] at hleg
        unfold PInv
        simp only [h0, h1, h2, List.isEmpty_cons, Bool.false_eq_true, if_false]
        refine ⟨fInv_congr (fInv_put (w.kdist dst) _ e (tyOf c') c hget hleg hf) h3 h4 h5 h6, ?_⟩
        refine dInv_congr (dInv_put (w.kdist dst) law _ e cont c' c hget hcont hty hokc hleg ?_ ?_ ?_ hf hd) h3
        · by_cases hk : e.key = k
          · have := (law.rsp w dst st.nd cont c hd.ok (hokc hk)).1
            rw [← hk, h1] at this
            rw [← hk]; exact this
          · rw [get_put_other _ _ _ _ (fun h => hk h.symm)]; exact hd.ok
        · intro hk
          exact get_put_other _ _ _ _ (fun h => hk h.symm)
        · intro hk
          refine ⟨by rw [← hk]; exact get_put_same _ _ _, ?_⟩
          have := (law.rsp w dst st.nd cont c hd.ok (hokc hk)).2
          rw [← hk, h1] at this
          rw [← hk]; exact this

theorem pInv_run (w : World) (dst : Nat) (nodes : Nat → NodeSt) (k : Nat) (ver : Option Content → Ver)
    (OkV : Option Content → Prop) (law : KeyLaw k ver OkV) (init : Ver) (now0 : Nat)
    (hwf : ∀ i, StoreWF (nodes i).store) (hokn : ∀ i, OkV ((nodes i).store.get k)) :
    ∀ (evs : List Ev) (advs : List Nat) (st : Rq), PInv nodes k ver OkV init now0 advs st →
      PhaseOk w dst nodes st evs →
      PInv nodes k ver OkV init now0 ((advSrcs evs).reverse ++ advs) (runEvs w dst nodes st evs) := by
  intro evs
  induction evs with
  | nil => intro advs st hi _; exact hi
  | cons ev rest ih =>
    intro advs st hi hok
    have h1 := pInv_step w dst nodes k ver OkV law init now0 hwf hokn advs st ev hi hok.1
    have h2 := ih _ _ h1 hok.2
    have hadv : (advSrcs (ev :: rest)).reverse ++ advs = (advSrcs rest).reverse ++ advsAfter advs ev := by
      cases ev <;> simp [advSrcs, advsAfter]
    rw [hadv]
    exact h2

/-! ### the end of a phase -/

/-- **Every advertiser's version has been absorbed** once no reply is outstanding and the queue is drained — or, with
entries still queued, fewer than MAX_PARALLEL_FETCH fetches are left in flight (a queued entry then waits only behind an
in-flight fetch of the same version whose copy changed nothing). -/
theorem phase_absorbed {nodes : Nat → NodeSt} {k : Nat} {ver : Option Content → Ver} {OkV : Option Content → Prop}
    (law : KeyLaw k ver OkV) {init : Ver} {now0 : Nat} {advs : List Nat} {st : Rq}
    (hokn : ∀ i, OkV ((nodes i).store.get k)) (hi : PInv nodes k ver OkV init now0 advs st)
    (hp : st.pending = [])
    (hdr : st.nd.fetcher.tbf = [] ∨ st.nd.fetcher.ogf.length < maxParallelFetch) :
    ∀ s ∈ advs, leV (ver ((nodes s).store.get k)) (ver (st.nd.store.get k)) := by
  obtain ⟨hf, hd⟩ := hi
  intro s hs
  cases hc : (nodes s).store.get k with
  | none => rw [law.vnone]; exact leV_none _
  | some c =>
    have hokc : OkV (some c) := by have := hokn s; rw [hc] at this; exact this
    rcases hd.cov s hs c hc with h | ⟨e, he, _⟩ | ⟨x, hx, hxk, hxt⟩
    · exact h c hokc rfl
    · rw [hp] at he; cases he
    · rcases hdr with h0 | h0
      · rw [h0] at hx; cases hx
      · rcases hf.closest x hx with h1 | h1
        · obtain ⟨o, ho, hok, hot⟩ := (Fetcher.hasKT_true_iff _ _ _).1 h1
          rcases hf.ogfOk o ho with b | b | b
          · rcases hf.running with r | ⟨r, _⟩
            · have := r o ho; omega
            · rw [r] at hx; cases hx
          · rw [hp] at b; cases b
          · have := hd.noopAbs o b (by rw [hok, hxk])
            rw [hot, hxt] at this
            exact this c hokc rfl
        · omega

/-- **A phase is the join.** From a quiet fetcher, after any interleaving of advertisements (any number of keys each)
and replies (any order) that meets the per-event hypotheses and ends with no reply outstanding and the queue drained,
the requester's version of key `k` is the join of its own version and the versions of all advertisers — exactly what
the serial composition of complete exchanges `s₁ → dst, s₂ → dst, …` gives. -/
theorem phase_join (w : World) (dst : Nat) (nodes : Nat → NodeSt) (k : Nat) (ver : Option Content → Ver)
    (OkV : Option Content → Prop) (law : KeyLaw k ver OkV)
    (hwf : ∀ i, StoreWF (nodes i).store) (hokn : ∀ i, OkV ((nodes i).store.get k))
    (hq : StaleQuiet (nodes dst).fetcher) (evs : List Ev)
    (hok : PhaseOk w dst nodes ⟨nodes dst, [], []⟩ evs)
    (hp : (runEvs w dst nodes ⟨nodes dst, [], []⟩ evs).pending = [])
    (hdr : (runEvs w dst nodes ⟨nodes dst, [], []⟩ evs).nd.fetcher.tbf = [] ∨
      (runEvs w dst nodes ⟨nodes dst, [], []⟩ evs).nd.fetcher.ogf.length < maxParallelFetch) :
    ver ((runEvs w dst nodes ⟨nodes dst, [], []⟩ evs).nd.store.get k) =
      joinAll (fun s => ver ((nodes s).store.get k)) (advSrcs evs) (ver ((nodes dst).store.get k)) ∧
    OkV ((runEvs w dst nodes ⟨nodes dst, [], []⟩ evs).nd.store.get k) := by
  have h0 : PInv nodes k ver OkV (ver ((nodes dst).store.get k)) (nodes dst).fetcher.now [] ⟨nodes dst, [], []⟩ :=
    ⟨fInv_init nodes _ hq, initial_dInv nodes k ver OkV _ _ (hokn dst)⟩
  have h1 := pInv_run w dst nodes k ver OkV law _ _ hwf hokn evs [] _ h0 hok
  rw [List.append_nil] at h1
  have habs := phase_absorbed law hokn h1 hp hdr
  obtain ⟨_, hd⟩ := h1
  refine ⟨?_, hd.ok⟩
  apply leV_antisymm (law.canon _ hd.ok) (joinAll_canon _ _ _ (law.canon _ (hokn dst)))
  · apply hd.upper
    · exact joinAll_ge _ _ _
    · intro s hs
      exact joinAll_ge_src (fun s => ver ((nodes s).store.get k)) _ _ s (List.mem_reverse.1 hs)
  · apply joinAll_least
    · exact hd.mono
    · intro s hs
      exact habs s (List.mem_reverse.2 hs)

/-- the fetcher-side invariant alone (no key involved) along a phase -/
theorem fInv_run (w : World) (dst : Nat) (nodes : Nat → NodeSt) (now0 : Nat) (hwf : ∀ i, StoreWF (nodes i).store) :
    ∀ (evs : List Ev) (advs : List Nat) (st : Rq), FInv nodes now0 advs st.nd.fetcher st.pending st.noop →
      PhaseOk w dst nodes st evs →
      ∃ advs', FInv nodes now0 advs' (runEvs w dst nodes st evs).nd.fetcher (runEvs w dst nodes st evs).pending
        (runEvs w dst nodes st evs).noop := by
  intro evs
  induction evs with
  | nil => intro advs st hi _; exact ⟨advs, hi⟩
  | cons ev rest ih =>
    intro advs st hf hok
    refine ih (advsAfter advs ev) _ ?_ hok.2
    have hok1 := hok.1
    cases ev with
    | adv src c =>
      obtain ⟨hheard, _, _, _, hleg⟩ := hok1
      obtain ⟨e1, e2, e3, e4⟩ := evStep_adv_eq w dst nodes st src c hheard
      rw [nodeRep_eq w dst st.nd src _ c hheard] at hleg
      simp only at hleg
      rw [e1, e3, e4]
      exact fInv_add (w.kdist dst) src _ _ c (fun p hp => indexOf_get (hwf src) hp) hleg hf
    | rsp j c =>
      cases hget : st.pending[j % st.pending.length]? with
      | none =>
        have : evStep w dst nodes st (.rsp j c) = st := by simp only [evStep, evStepWith, hget]
        rw [this]; exact hf
      | some e =>
        have hmem : e ∈ st.pending := List.mem_of_getElem? hget
        obtain ⟨_, cont, hcont, hty⟩ := hf.pendOk e hmem
        have hs : serve (nodes e.holder) e.key = some cont := hcont
        have hleg := hok1 e cont hget hs
        rw [evStep_rsp_eq w dst nodes st j c e cont hget hs]
        rcases nodeRsp_cases w dst st.nd e.key cont c with ⟨_, _, h1, h2, h3⟩ | ⟨_, _, h3, h1, h2, h4⟩ |
          ⟨c', rest, _, _, h0, h1, h2, hill, h3, h4, h5, h6⟩ | ⟨c', rest, _, _, h0, h1, h2, h3, h4, h5, h6⟩
        · simp only [h1, h2, h3, List.append_nil, List.isEmpty_nil, if_true]
          exact fInv_noop _ e hget hf
        · rw [h2] at hleg
          simp only [h2, h3, h4, List.isEmpty_nil, if_true]
          exact fInv_early (w.kdist dst) e.key (tyOf cont) c hleg (fInv_noop _ e hget hf)
        · rw [hill] at hleg
          simp only [Bool.or_eq_false_iff] at hleg
          simp only [h0, h2, List.isEmpty_cons, Bool.false_eq_true, if_false, ← List.append_assoc]
          exact fInv_congr (fInv_early (w.kdist dst) e.key (tyOf cont) (choiceDone c) hleg.2
            (fInv_put (w.kdist dst) _ e (tyOf c') (choicePut c) hget hleg.1 hf)) h3 h4 h5 h6
        · rw [h2] at hleg
          simp only [h0, h2, List.isEmpty_cons, Bool.false_eq_true, if_false]
          exact fInv_congr (fInv_put (w.kdist dst) _ e (tyOf c') c hget hleg hf) h3 h4 h5 h6

/-- **The quiet fetcher is re-established after a phase**: queue drained, and at least FETCH_TIMEOUT later every fetch
still registered (those whose copy changed nothing) has timed out. -/
theorem phase_then_tick_staleQuiet (w : World) (dst : Nat) (nodes : Nat → NodeSt) (hwf : ∀ i, StoreWF (nodes i).store)
    (hq : StaleQuiet (nodes dst).fetcher) (evs : List Ev) (d : Nat)
    (hok : PhaseOk w dst nodes ⟨nodes dst, [], []⟩ evs)
    (hdr : (runEvs w dst nodes ⟨nodes dst, [], []⟩ evs).nd.fetcher.tbf = []) (hd : fetchTimeout ≤ d) :
    StaleQuiet (tickNode (runEvs w dst nodes ⟨nodes dst, [], []⟩ evs).nd d).fetcher := by
  obtain ⟨advs', hf⟩ := fInv_run w dst nodes _ hwf evs [] ⟨nodes dst, [], []⟩ (fInv_init nodes _ hq) hok
  refine ⟨hdr, hf.far, ?_⟩
  intro e he
  have h1 := hf.ogfDl e he
  have h2 := hf.now
  show e.deadline ≤ (runEvs w dst nodes ⟨nodes dst, [], []⟩ evs).nd.fetcher.now + d
  omega

theorem runEvs_wf (w : World) (dst : Nat) (nodes : Nat → NodeSt) : ∀ (evs : List Ev) (st : Rq),
    StoreWF st.nd.store → StoreWF (runEvs w dst nodes st evs).nd.store := by
  intro evs
  induction evs with
  | nil => intro st h; exact h
  | cons ev rest ih =>
    intro st h
    apply ih
    cases ev with
    | adv src c =>
      simp only [evStep, evStepWith, evStepWith]
      rw [nodeRep_store']; exact h
    | rsp j c =>
      simp only [evStep, evStepWith, evStepWith]
      split
      · exact h
      · split
        · exact h
        · exact nodeRsp_wf _ _ _ _ _ _ h

/-- every advertiser of a valid phase is heard by the requester -/
theorem phaseOk_heard (w : World) (dst : Nat) (nodes : Nat → NodeSt) : ∀ (evs : List Ev) (st : Rq),
    PhaseOk w dst nodes st evs → ∀ s ∈ advSrcs evs, heard w dst s = true := by
  intro evs
  induction evs with
  | nil => intro st _ s hs; cases hs
  | cons ev rest ih =>
    intro st hok s hs
    cases ev with
    | adv src c =>
      rcases List.mem_cons.1 hs with rfl | hs
      · exact hok.1.1
      · exact ih _ hok.2 s hs
    | rsp j c => exact ih _ hok.2 s hs

/-! ### the three kinds of keys -/

/-- nothing, or a canonical non-empty transaction set (`TxKey k nd` is `OkTx (nd.store.get k)`) -/
def OkTx (v : Option Content) : Prop := v = none ∨ ∃ l, v = some (.txs l) ∧ Canon l ∧ l ≠ []
/-- nothing, or a canonical version of the register with base `alt` -/
def OkReg (alt : Bool) (v : Option Content) : Prop := v = none ∨ ∃ l, v = some (.reg alt l) ∧ Canon l
/-- nothing, or the chunk -/
def OkChunk (v : Option Content) : Prop := v = none ∨ v = some .chunk

theorem union_ne_nil' {a b : List Nat} (h : a ≠ []) : union a b ≠ [] := by
  intro h0
  cases a with
  | nil => exact h rfl
  | cons x xs =>
    have : x ∈ union (x :: xs) b := (mem_union' _ _ _).2 (Or.inl (List.mem_cons_self ..))
    rw [h0] at this; cases this

theorem lawTx (k : Nat) (hk : k % 3 = 1) : KeyLaw k verTx OkTx where
  vnone := rfl
  canon := by
    intro v hv l hl
    rcases hv with rfl | ⟨l', rfl, hc, _⟩
    · cases hl
    · simp only [verTx, Option.some.injEq] at hl; rw [← hl]; exact hc
  same := by
    intro c c' hc hc' ht
    rcases tyOf_inj ht with h | ⟨n, v, n', v', rfl, rfl⟩
    · rw [h]
    · rcases hc with h | ⟨l, h, _⟩ <;> cases h
  rsp := by
    intro w i nd c ch hd hc
    rcases hc with h | ⟨a, h, hca, hane⟩
    · cases h
    · injection h with h; subst h
      have hb : ∃ b, (nd.store.get k = some (.txs b) ∨ (nd.store.get k = none ∧ b = [])) ∧
          verTx (nd.store.get k) = (if nd.store.get k = none then none else some b) := by
        rcases hd with hd | ⟨b, hd, _, _⟩
        · exact ⟨[], Or.inr ⟨hd, rfl⟩, by simp [hd, verTx]⟩
        · exact ⟨b, Or.inl hd, by simp [hd, verTx]⟩
      obtain ⟨b, hb, hvb⟩ := hb
      have hget : (nodeRsp w i nd k (.txs a) ch).1.store.get k = some (.txs (union a b)) := by
        rw [nodeRsp_store, replWrites_txs nd.store k a hk hane b hb]
        exact get_put_same _ _ _
      refine ⟨Or.inr ⟨_, hget, canon_union _ _, union_ne_nil' hane⟩, ?_⟩
      rw [hget, hvb]
      by_cases hn : nd.store.get k = none
      · rcases hb with hb | ⟨_, rfl⟩
        · rw [hn] at hb; cases hb
        · simp [hn, verTx, join]
      · simp [hn, verTx, join]

theorem lawReg (alt : Bool) (k : Nat) (hk : k % 3 = 2) : KeyLaw k (verReg alt) (OkReg alt) where
  vnone := rfl
  canon := by
    intro v hv l hl
    rcases hv with rfl | ⟨l', rfl, hc⟩
    · cases hl
    · simp only [verReg, if_true, Option.some.injEq] at hl; rw [← hl]; exact hc
  same := by
    intro c c' hc hc' ht
    rcases tyOf_inj ht with h | ⟨n, v, n', v', rfl, rfl⟩
    · rw [h]
    · rcases hc with h | ⟨l, h, _⟩ <;> cases h
  rsp := by
    intro w i nd c ch hd hc
    rcases hc with h | ⟨a, h, hca⟩
    · cases h
    · injection h with h; subst h
      rcases hd with hd | ⟨b, hd, hcb⟩
      · have hget : (nodeRsp w i nd k (.reg alt a) ch).1.store.get k = some (.reg alt (union a [])) := by
          rw [nodeRsp_store, replWrites_reg_absent nd.store k alt a hk hd]
          exact get_put_same _ _ _
        refine ⟨Or.inr ⟨_, hget, canon_union _ _⟩, ?_⟩
        rw [hget, hd]
        simp [verReg, join]
      · have hget : (nodeRsp w i nd k (.reg alt a) ch).1.store.get k = some (.reg alt (union a b)) := by
          rw [nodeRsp_store, replWrites_reg_held nd.store k alt a b hk hd]
          by_cases hany : (a.any fun o => !b.contains o) = true
          · simp only [hany, if_true]
            exact get_put_same _ _ _
          · have hsub : ∀ x ∈ a, x ∈ b := by
              intro x hx
              simp only [List.any_eq_true, Bool.not_eq_true', not_exists, not_and] at hany
              simpa using hany x hx
            simp only [hany, if_false, Bool.false_eq_true]
            rw [hd, union_of_subset hcb hsub]
        refine ⟨Or.inr ⟨_, hget, canon_union _ _⟩, ?_⟩
        rw [hget, hd]
        simp [verReg, join]

theorem lawChunk (k : Nat) (hk : k % 3 = 0) : KeyLaw k verChunk OkChunk where
  vnone := rfl
  canon := by
    intro v hv l hl
    rcases hv with rfl | rfl
    · cases hl
    · simp only [verChunk, Option.some.injEq] at hl; rw [← hl]; trivial
  same := by
    intro c c' hc hc' _
    rcases hc with h | h
    · cases h
    · rcases hc' with h' | h'
      · cases h'
      · injection h with h; injection h' with h'; rw [h, h']
  rsp := by
    intro w i nd c ch hd hc
    rcases hc with h | h
    · cases h
    · injection h with h; subst h
      rcases hd with hd | hd
      · have hget : (nodeRsp w i nd k .chunk ch).1.store.get k = some .chunk := by
          rw [nodeRsp_store, replWrites_chunk_absent nd.store k hk hd]
          exact get_put_same _ _ _
        refine ⟨Or.inr hget, ?_⟩
        rw [hget, hd]; rfl
      · have hget : (nodeRsp w i nd k .chunk ch).1.store.get k = some .chunk := by
          rw [nodeRsp_store, replWrites_chunk_held nd.store k _ hk hd]
          exact hd
        refine ⟨Or.inr hget, ?_⟩
        rw [hget, hd]; rfl

/-! ### schedules of phases over `n` nodes -/

/-- one phase: the requester, what reaches it (in the order it is processed), and the time that passes at the
requester afterwards -/
structure Phase where
  dst : Nat
  evs : List Ev
  tick : Nat

def runPhase (w : World) (nodes : Nat → NodeSt) (ph : Phase) : Rq :=
  runEvs w ph.dst nodes ⟨nodes ph.dst, [], []⟩ ph.evs

def stepP (w : World) (nodes : Nat → NodeSt) (ph : Phase) : Nat → NodeSt :=
  fun i => if i = ph.dst then tickNode (runPhase w nodes ph).nd ph.tick else nodes i

def runPs (w : World) (nodes : Nat → NodeSt) (phs : List Phase) : Nat → NodeSt := phs.foldl (stepP w) nodes

/-- the exchanges a list of phases amounts to: `src → dst` for every advertisement, in order -/
def pairsOf (phs : List Phase) : List (Nat × Nat) := phs.flatMap (fun ph => (advSrcs ph.evs).map (fun s => (s, ph.dst)))

/-- **FairRound hypotheses for phases**, checked at the state each phase meets: every event is `EvOk` (heard advertiser,
legal choice witnesses, keys in range, no timed-out fetch from the advertiser / of an advertised version registered),
the phase lasts until no reply is outstanding and the queue is drained, and at least FETCH_TIMEOUT then passes at the
requester. No bound on the number of keys of an advertisement, any number of advertisements in flight together, replies
in any order. -/
def ValidP (w : World) : (Nat → NodeSt) → List Phase → Prop
  | _, [] => True
  | nodes, ph :: rest =>
    PhaseOk w ph.dst nodes ⟨nodes ph.dst, [], []⟩ ph.evs ∧
    (runPhase w nodes ph).pending = [] ∧ (runPhase w nodes ph).nd.fetcher.tbf = [] ∧
    fetchTimeout ≤ ph.tick ∧ ValidP w (stepP w nodes ph) rest

theorem runX_append (v : Nat → Ver) (a b : List (Nat × Nat)) : runX v (a ++ b) = runX (runX v a) b := by
  simp [runX, List.foldl_append]

/-- generic refinement: a valid schedule of phases acts on the versions of key `k` as the serial abstract schedule
of its exchanges -/
theorem runPs_refines (w : World) (k : Nat) (ver : Option Content → Ver) (OkV : Option Content → Prop)
    (law : KeyLaw k ver OkV) :
    ∀ (phs : List Phase) (nodes : Nat → NodeSt), (∀ i, StaleQuiet (nodes i).fetcher) → (∀ i, StoreWF (nodes i).store) →
      (∀ i, OkV ((nodes i).store.get k)) → ValidP w nodes phs →
      (∀ i, ver ((runPs w nodes phs i).store.get k) = runX (fun j => ver ((nodes j).store.get k)) (pairsOf phs) i) ∧
      (∀ i, OkV ((runPs w nodes phs i).store.get k)) ∧ (∀ i, StaleQuiet (runPs w nodes phs i).fetcher) ∧
      (∀ i, StoreWF (runPs w nodes phs i).store) := by
  intro phs
  induction phs with
  | nil => intro nodes hq hwf hk _; exact ⟨fun _ => rfl, hk, hq, hwf⟩
  | cons ph rest ih =>
    intro nodes hq hwf hk hv
    obtain ⟨hok, hp, hdr, htick, hrest⟩ := hv
    obtain ⟨hj, hko⟩ := phase_join w ph.dst nodes k ver OkV law hwf hk (hq ph.dst) ph.evs hok hp (Or.inl hdr)
    have hq' : ∀ i, StaleQuiet (stepP w nodes ph i).fetcher := by
      intro i
      unfold stepP
      split
      · exact phase_then_tick_staleQuiet w ph.dst nodes hwf (hq ph.dst) ph.evs ph.tick hok hdr htick
      · exact hq i
    have hwf' : ∀ i, StoreWF (stepP w nodes ph i).store := by
      intro i
      unfold stepP
      split
      · exact runEvs_wf w ph.dst nodes ph.evs _ (hwf ph.dst)
      · exact hwf i
    have hk' : ∀ i, OkV ((stepP w nodes ph i).store.get k) := by
      intro i
      unfold stepP
      split
      · exact hko
      · exact hk i
    obtain ⟨r1, r2, r3, r4⟩ := ih (stepP w nodes ph) hq' hwf' hk' hrest
    refine ⟨?_, r2, r3, r4⟩
    intro i
    have := r1 i
    simp only [runPs, List.foldl_cons] at this ⊢
    rw [this]
    have hne : ∀ s ∈ advSrcs ph.evs, s ≠ ph.dst := fun s hs => heard_ne (phaseOk_heard w ph.dst nodes ph.evs _ hok s hs)
    have hfun : (fun j => ver ((stepP w nodes ph j).store.get k)) =
        runX (fun j => ver ((nodes j).store.get k)) ((advSrcs ph.evs).map (fun s => (s, ph.dst))) := by
      rw [runX_joinAll ph.dst (advSrcs ph.evs) _ hne]
      funext j
      unfold stepP
      split
      · exact hj
      · rfl
    rw [hfun]
    simp only [pairsOf, List.flatMap_cons]
    rw [runX_append]

end SafeNet.Replication

/-! ## one advertisement with any number of keys: how many replies it takes, and that the queue drains -/
namespace SafeNet.Replication.Ph
open SafeNet.Fetcher SafeNet.Gen.Fetcher

variable (dist : Nat → Nat)

theorem filter_partition {α : Type} (l : List α) (p : α → Bool) :
    (l.filter p).length + (l.filter (fun x => !p x)).length = l.length := by
  induction l with
  | nil => rfl
  | cons a t ih => by_cases h : p a <;> simp [h] <;> omega

/-- `next_keys_to_fetch` moves entries from the queue to the returned batch: it never creates any -/
theorem nextKeys_measure (s : State) (c : List Entry) :
    (nextKeys dist s c).1.tbf.length + (nextKeys dist s c).2.ret.length ≤ s.tbf.length := by
  have hp := (pTbf_sub s).length_le
  rcases nextKeys_cases dist s c with ⟨_, h⟩ | ⟨_, _, h⟩ | ⟨_, hl, h⟩
  · rw [h]; simpa using hp
  · rw [h]; simpa using hp
  · rw [h]
    obtain ⟨_, hin, _, hnd, _, _⟩ := legal_spec dist hl
    show ((pTbf s).filter (fun e => !hasKTH c e.key e.ty e.holder)).length + (sched s c).length ≤ s.tbf.length
    have h1 : (c.map kth).Nodup := by
      have h2 : (c.map kth).map (fun p => (p.1, p.2.1)) = c.map kt := by
        simp [List.map_map, Function.comp_def, kth, kt]
      rw [← h2] at hnd
      exact List.Pairwise.of_map (fun p : Nat × Nat × Nat => (p.1, p.2.1)) (fun a b hne hab => hne (by rw [hab])) hnd
    have h2 : c.map kth ⊆ ((pTbf s).filter (fun e => hasKTH c e.key e.ty e.holder)).map kth := by
      intro a ha
      obtain ⟨y, hy, rfl⟩ := List.mem_map.1 ha
      obtain ⟨z, hz, hzk, hzt, hzh⟩ := (hasKTH_true_iff _ _ _ _).1 (hin y hy)
      refine List.mem_map.2 ⟨z, List.mem_filter.2 ⟨hz, ?_⟩, by simp [kth, hzk, hzt, hzh]⟩
      exact (hasKTH_true_iff _ _ _ _).2 ⟨y, hy, hzk.symm, hzt.symm, hzh.symm⟩
    have h3 := h1.length_le_of_subset h2
    simp only [List.length_map] at h3
    have h4 := filter_partition (pTbf s) (fun e => hasKTH c e.key e.ty e.holder)
    have h5 : (sched s c).length = c.length := by simp [sched]
    omega

theorem early_measure (s : State) (k t : Nat) (c : List Entry) :
    (earlyDone dist s k t c).1.tbf.length + (earlyDone dist s k t c).2.ret.length ≤ s.tbf.length := by
  unfold earlyDone
  have h1 := nextKeys_measure dist
    { s with tbf := s.tbf.filter (fun e => !sameKT k t e), ogf := s.ogf.filter (fun e => !sameKT k t e) } c
  have h2 : (s.tbf.filter (fun e => !sameKT k t e)).length ≤ s.tbf.length := List.filter_sublist.length_le
  simp only at h1
  omega

theorem put_measure (s : State) (k t : Nat) (c : List Entry) :
    (newPut dist s k t c).1.tbf.length + (newPut dist s k t c).2.ret.length ≤ s.tbf.length := by
  unfold newPut
  have h1 := nextKeys_measure dist
    { s with tbf := s.tbf.filter (fun e => !sameKT k t e), ogf := s.ogf.filter (fun e => !(e.key == k)) } c
  have h2 : (s.tbf.filter (fun e => !sameKT k t e)).length ≤ s.tbf.length := List.filter_sublist.length_le
  simp only at h1
  omega

/-- an advertisement adds at most its new keys to queue and batch together -/
theorem add_measure (s : State) (h : Nat) (inc loc : List (Nat × Nat)) (c : List Entry) :
    (addKeys dist s h inc loc c).1.tbf.length + (addKeys dist s h inc loc c).2.ret.length ≤
      s.tbf.length + (inc.filter (admits dist s loc h)).length := by
  obtain ⟨X, ill, hx⟩ := addKeys_shape dist s h inc loc c
  rw [hx]
  have h1 := nextKeys_measure dist (addCore dist s h inc loc).1 X
  have h2 : (tbf2 s loc).length ≤ s.tbf.length :=
    (List.filter_sublist.trans List.filter_sublist).length_le
  simp only [List.length_append]
  rcases addCore_cases dist s h inc loc with ⟨p, hp, _, hc⟩ | ⟨p, hp, _, hc⟩ | ⟨_, hc⟩
  · rw [hc] at h1 ⊢
    have : (inc.filter (admits dist s loc h)).length = 1 := by
      rw [show inc.filter (admits dist s loc h) = [p] from hp]; rfl
    simp only [List.length_nil] at h1 ⊢
    omega
  · rw [hc] at h1 ⊢
    have : (inc.filter (admits dist s loc h)).length = 1 := by
      rw [show inc.filter (admits dist s loc h) = [p] from hp]; rfl
    simp only [List.length_cons, List.length_nil] at h1 ⊢
    omega
  · rw [hc] at h1 ⊢
    have h3 := SafeNet.Replication.insertPending_length_le s.now h (new3 dist s (newOf dist s loc h inc)) (tbf2 s loc)
    have h4 : (new3 dist s (newOf dist s loc h inc)).length ≤ (newOf dist s loc h inc).length := by
      unfold new3
      split
      · exact List.filter_sublist.length_le
      · exact Nat.le_refl _
    have h5 : (newOf dist s loc h inc).length = (inc.filter (admits dist s loc h)).length := rfl
    simp only [List.length_nil] at h1 ⊢
    omega

/-- with every queued entry from one holder, nothing that stays queued is in the returned batch -/
theorem nextKeys_disj (s : State) (c : List Entry) (h : Nat) (hh : ∀ y ∈ s.tbf, y.holder = h) :
    ∀ x ∈ (nextKeys dist s c).1.tbf, hasKT (nextKeys dist s c).2.ret x.key x.ty = false := by
  intro x hx
  rcases nextKeys_cases dist s c with ⟨_, e⟩ | ⟨_, _, e⟩ | ⟨_, hl, e⟩
  · rw [e]; rfl
  · rw [e]; rfl
  · rw [e] at hx ⊢
    obtain ⟨hx1, hx2⟩ := List.mem_filter.1 hx
    show hasKT (sched s c) x.key x.ty = false
    rw [hasKT_sched]
    cases hc : hasKT c x.key x.ty with
    | false => rfl
    | true =>
      exfalso
      obtain ⟨y, hy, hyk, hyt⟩ := (hasKT_true_iff _ _ _).1 hc
      obtain ⟨_, hin, _⟩ := legal_spec dist hl
      obtain ⟨z, hz, _, _, hzh⟩ := (hasKTH_true_iff _ _ _ _).1 (hin y hy)
      have hyh : y.holder = h := by rw [← hzh]; exact hh z ((pTbf_sub s).subset hz)
      have hxh : x.holder = h := hh x ((pTbf_sub s).subset hx1)
      have : hasKTH c x.key x.ty x.holder = true :=
        (hasKTH_true_iff _ _ _ _).2 ⟨y, hy, hyk, hyt, by rw [hyh, hxh]⟩
      simp [this] at hx2

end SafeNet.Replication.Ph

namespace SafeNet.Replication
open SafeNet.Validate SafeNet.Gen.Validate SafeNet.Gen.Replication
open SafeNet.Fetcher (Entry admits hasKT hasKTH)
open SafeNet.Gen.Fetcher (maxParallelFetch fetchTimeout pendingTimeout)
open Abs
set_option linter.unusedSimpArgs false

/-- outstanding replies plus queued entries -/
def Rq.mu (st : Rq) : Nat := st.pending.length + st.nd.fetcher.tbf.length

def Ev.isRsp : Ev → Bool
  | .rsp .. => true
  | .adv .. => false

theorem evStep_rsp_idle (w : World) (dst : Nat) (nodes : Nat → NodeSt) (st : Rq) (j : Nat) (c : List Entry)
    (h : st.pending = []) : evStep w dst nodes st (.rsp j c) = st := by
  simp [evStep, evStepWith, h]

/-- **Every reply strictly decreases the measure** (outstanding + queued), whatever its content and choice witness:
processing a reply removes it, and whatever `notify_about_new_put` schedules comes out of the queue. -/
theorem evStep_rsp_measure (w : World) (dst : Nat) (nodes : Nat → NodeSt) (st : Rq) (j : Nat) (c : List Entry)
    (h : st.pending ≠ []) : (evStep w dst nodes st (.rsp j c)).mu + 1 ≤ st.mu := by
  have hpos : 0 < st.pending.length := List.length_pos_iff.2 h
  have hlt : j % st.pending.length < st.pending.length := Nat.mod_lt _ hpos
  have hget : st.pending[j % st.pending.length]? = some (st.pending[j % st.pending.length]) :=
    List.getElem?_eq_getElem hlt
  have hlen : (st.pending.eraseIdx (j % st.pending.length)).length + 1 = st.pending.length := by
    rw [List.length_eraseIdx]; simp only [hlt, if_true]; omega
  cases hs : serve (nodes (st.pending[j % st.pending.length]).holder) (st.pending[j % st.pending.length]).key with
  | none =>
    simp only [evStep, evStepWith, hget, hs, Rq.mu]
    omega
  | some cont =>
    rw [evStep_rsp_eq w dst nodes st j c _ cont hget hs]
    rcases nodeRsp_cases w dst st.nd (st.pending[j % st.pending.length]).key cont c with
      ⟨_, _, h1, h2, _⟩ | ⟨_, _, _, _, h2, h4⟩ | ⟨c', rest, _, _, _, _, h2, _, h3, _⟩ | ⟨c', rest, _, _, _, _, h2, h3, _⟩
    · simp only [Rq.mu, h1, h2, List.append_nil]
      omega
    · have := Ph.early_measure (w.kdist dst) st.nd.fetcher (st.pending[j % st.pending.length]).key (tyOf cont) c
      simp only [Rq.mu, h2, h4, List.length_append]
      omega
    · have m1 := Ph.put_measure (w.kdist dst) st.nd.fetcher (st.pending[j % st.pending.length]).key (tyOf c') (choicePut c)
      have m2 := Ph.early_measure (w.kdist dst) (rspPut w dst st.nd (st.pending[j % st.pending.length]).key c' c).1
        (st.pending[j % st.pending.length]).key (tyOf cont) (choiceDone c)
      simp only [Rq.mu, h2, h3, List.length_append]
      simp only [rspDone, rspPut] at m2 ⊢
      omega
    · have := Ph.put_measure (w.kdist dst) st.nd.fetcher (st.pending[j % st.pending.length]).key (tyOf c') c
      simp only [Rq.mu, h2, h3, List.length_append]
      omega

/-- **Bound on the number of replies.** After at least `outstanding + queued` reply deliveries — in any order, with any
contents — no reply is outstanding. -/
theorem replies_bound (w : World) (dst : Nat) (nodes : Nat → NodeSt) : ∀ (rsps : List Ev) (st : Rq),
    (∀ ev ∈ rsps, ev.isRsp = true) → st.mu ≤ rsps.length → (runEvs w dst nodes st rsps).pending = [] := by
  intro rsps
  induction rsps with
  | nil =>
    intro st _ hm
    simp only [Rq.mu, List.length_nil, Nat.le_zero_eq, Nat.add_eq_zero_iff, List.length_eq_zero_iff] at hm
    exact hm.1
  | cons ev rest ih =>
    intro st hr hm
    have hrest : ∀ ev ∈ rest, ev.isRsp = true := fun e he => hr e (List.mem_cons_of_mem _ he)
    cases ev with
    | adv s c => have := hr _ (List.mem_cons_self ..); cases this
    | rsp j c =>
      show (runEvs w dst nodes (evStep w dst nodes st (.rsp j c)) rest).pending = []
      by_cases hp : st.pending = []
      · -- nothing outstanding: further reply events are idle
        rw [evStep_rsp_idle w dst nodes st j c hp]
        have : ∀ (l : List Ev) (s : Rq), (∀ ev ∈ l, ev.isRsp = true) → s.pending = [] → runEvs w dst nodes s l = s := by
          intro l
          induction l with
          | nil => intro s _ _; rfl
          | cons e l ihl =>
            intro s hl hs
            cases e with
            | adv s' c' => have := hl _ (List.mem_cons_self ..); cases this
            | rsp j' c' =>
              show runEvs w dst nodes (evStep w dst nodes s (.rsp j' c')) l = s
              rw [evStep_rsp_idle w dst nodes s j' c' hs]
              exact ihl s (fun e he => hl e (List.mem_cons_of_mem _ he)) hs
        rw [this rest st hrest hp]; exact hp
      · have := evStep_rsp_measure w dst nodes st j c hp
        apply ih _ hrest
        simp only [List.length_cons] at hm
        omega

/-- the single-advertiser invariant: every queued entry is from `src`, and no queued version is in flight -/
def SInv (src : Nat) (f : Fetcher.State) : Prop :=
  (∀ x ∈ f.tbf, x.holder = src) ∧ (∀ x ∈ f.tbf, hasKT f.ogf x.key x.ty = false)

open SafeNet.Fetcher in
theorem sInv_add (dist : Nat → Nat) (f : Fetcher.State) (src : Nat) (L loc : List (Nat × Nat)) (c : List Entry)
    (hq : StaleQuiet f) : SInv src (addKeys dist f src L loc c).1 := by
  obtain ⟨ht, _, hexp⟩ := hq
  have hhold : ∀ x ∈ (addKeys dist f src L loc c).1.tbf, x.holder = src := by
    intro x hx
    rcases Ph.add_tbf_origin dist hx with h1 | ⟨p, _, rfl⟩
    · rw [ht] at h1; cases h1
    · rfl
  refine ⟨hhold, ?_⟩
  obtain ⟨X, ill, hx⟩ := addKeys_shape dist f src L loc c
  rw [hx]
  simp only
  intro x hxm
  rw [nextKeys_ogf_eq, hasKT_append]
  have hcoreh : ∀ y ∈ (addCore dist f src L loc).1.tbf, y.holder = src := by
    intro y hy
    rcases addCore_tbf_origin dist hy with ⟨h1, _⟩ | ⟨_, p, _, _, rfl⟩
    · rw [ht] at h1; cases h1
    · rfl
  rw [Ph.nextKeys_disj dist _ X src hcoreh x hxm, Bool.or_false]
  rcases addCore_cases dist f src L loc with ⟨p, _, _, hc⟩ | ⟨p, _, _, hc⟩ | ⟨_, hc⟩
  · -- single new key: nothing is queued
    exfalso
    have := (pTbf_sub _).subset ((nextKeys_tbf_sub dist _ X).subset hxm)
    rw [hc] at this
    simp [tbf2, tbf1, ht] at this
  · exfalso
    have := (pTbf_sub _).subset ((nextKeys_tbf_sub dist _ X).subset hxm)
    rw [hc] at this
    simp [tbf2, tbf1, ht] at this
  · have : pOgf (addCore dist f src L loc).1 = [] := by
      apply pOgf_nil_of_expired
      intro e he
      rw [hc] at he ⊢
      exact hexp e (List.mem_filter.1 he).1
    rw [this]; rfl

open SafeNet.Fetcher in
theorem sInv_put (dist : Nat → Nat) (f : Fetcher.State) (src : Nat) (k t : Nat) (c : List Entry)
    (h : SInv src f) : SInv src (newPut dist f k t c).1 := by
  obtain ⟨h1, h2⟩ := h
  refine ⟨fun x hx => h1 x (Ph.put_tbf_origin dist hx), ?_⟩
  intro x hx
  have hx0 := Ph.put_tbf_origin dist hx
  unfold newPut at hx ⊢
  rw [nextKeys_ogf_eq, hasKT_append]
  rw [Ph.nextKeys_disj dist _ c src (fun y hy => h1 y (List.mem_filter.1 hy).1) x hx, Bool.or_false]
  rw [hasKT_false_iff]
  intro o ho
  have ho' : o ∈ f.ogf := (List.mem_filter.1 ((pOgf_sub _).subset ho)).1
  exact (hasKT_false_iff _ _ _).1 (h2 x hx0) o ho'

open SafeNet.Fetcher in
theorem sInv_early (dist : Nat → Nat) (f : Fetcher.State) (src : Nat) (k t : Nat) (c : List Entry)
    (h : SInv src f) : SInv src (earlyDone dist f k t c).1 := by
  obtain ⟨h1, h2⟩ := h
  refine ⟨fun x hx => h1 x (Ph.early_tbf_origin dist hx), ?_⟩
  intro x hx
  have hx0 := Ph.early_tbf_origin dist hx
  unfold earlyDone at hx ⊢
  rw [nextKeys_ogf_eq, hasKT_append]
  rw [Ph.nextKeys_disj dist _ c src (fun y hy => h1 y (List.mem_filter.1 hy).1) x hx, Bool.or_false]
  rw [hasKT_false_iff]
  intro o ho
  have ho' : o ∈ f.ogf := (List.mem_filter.1 ((pOgf_sub _).subset ho)).1
  exact (hasKT_false_iff _ _ _).1 (h2 x hx0) o ho'

theorem sInv_congr {src : Nat} {f f' : Fetcher.State} (h : SInv src f) (h1 : f'.tbf = f.tbf) (h2 : f'.ogf = f.ogf) :
    SInv src f' := by
  unfold SInv; rw [h1, h2]; exact h

theorem sInv_rsp (w : World) (dst : Nat) (nodes : Nat → NodeSt) (src : Nat) (st : Rq) (j : Nat) (c : List Entry)
    (h : SInv src st.nd.fetcher) : SInv src (evStep w dst nodes st (.rsp j c)).nd.fetcher := by
  simp only [evStep, evStepWith, evStepWith]
  split
  · exact h
  · rename_i e _
    split
    · exact h
    · rename_i cont _
      show SInv src (nodeRsp w dst st.nd e.key cont c).1.fetcher
      rcases nodeRsp_cases w dst st.nd e.key cont c with ⟨_, _, h1, _⟩ | ⟨_, _, _, _, _, h4⟩ |
        ⟨c', rest, _, _, _, _, _, _, h3, h4, _⟩ | ⟨c', rest, _, _, _, _, _, h3, h4, _⟩
      · simp only [h1]; exact h
      · simp only [h4]; exact sInv_early (w.kdist dst) _ src e.key (tyOf cont) c h
      · exact sInv_congr (sInv_early (w.kdist dst) _ src e.key (tyOf cont) (choiceDone c)
          (sInv_put (w.kdist dst) _ src e.key (tyOf c') (choicePut c) h)) h3 h4
      · exact sInv_congr (sInv_put (w.kdist dst) _ src e.key (tyOf c') c h) h3 h4

theorem sInv_rsps (w : World) (dst : Nat) (nodes : Nat → NodeSt) (src : Nat) : ∀ (rsps : List Ev) (st : Rq),
    (∀ ev ∈ rsps, ev.isRsp = true) → SInv src st.nd.fetcher → SInv src (runEvs w dst nodes st rsps).nd.fetcher := by
  intro rsps
  induction rsps with
  | nil => intro st _ h; exact h
  | cons ev rest ih =>
    intro st hr h
    cases ev with
    | adv s c => have := hr _ (List.mem_cons_self ..); cases this
    | rsp j c =>
      exact ih _ (fun e he => hr e (List.mem_cons_of_mem _ he)) (sInv_rsp w dst nodes src st j c h)

/-- **One advertisement with any number of new keys is worked off inside one exchange.** From a quiet fetcher: the
advertisement of `src` (`n` new keys, no bound on `n`), followed by at least `n` reply deliveries — in any order — under
the per-event hypotheses. Then no reply is outstanding; and if fewer than MAX_PARALLEL_FETCH fetches are left in flight
(the ones whose copy changed nothing keep their slot until FETCH_TIMEOUT), the queue is drained. -/
theorem cascade_drains (w : World) (dst : Nat) (nodes : Nat → NodeSt) (hwf : ∀ i, StoreWF (nodes i).store)
    (hq : StaleQuiet (nodes dst).fetcher) (src : Nat) (c : List Entry) (rsps : List Ev)
    (hr : ∀ ev ∈ rsps, ev.isRsp = true)
    (hlen : ((indexOf (nodes src).store).filter
      (admits (w.kdist dst) (nodes dst).fetcher (indexOf (nodes dst).store) src)).length ≤ rsps.length)
    (hok : PhaseOk w dst nodes ⟨nodes dst, [], []⟩ (.adv src c :: rsps)) :
    (runEvs w dst nodes ⟨nodes dst, [], []⟩ (.adv src c :: rsps)).pending = [] ∧
    ((runEvs w dst nodes ⟨nodes dst, [], []⟩ (.adv src c :: rsps)).nd.fetcher.ogf.length < maxParallelFetch →
      (runEvs w dst nodes ⟨nodes dst, [], []⟩ (.adv src c :: rsps)).nd.fetcher.tbf = []) := by
  have hheard := hok.1.1
  obtain ⟨e1, _, e3, _⟩ := evStep_adv_eq w dst nodes ⟨nodes dst, [], []⟩ src c hheard
  have hmu : (evStep w dst nodes ⟨nodes dst, [], []⟩ (.adv src c)).mu ≤ rsps.length := by
    have := Ph.add_measure (w.kdist dst) (nodes dst).fetcher src (indexOf (nodes src).store)
      (indexOf (nodes dst).store) c
    simp only [Rq.mu, e1, e3, List.nil_append]
    rw [hq.1] at this
    simp only [List.length_nil, Nat.zero_add] at this
    omega
  have hpend := replies_bound w dst nodes rsps _ hr hmu
  refine ⟨hpend, ?_⟩
  intro hroom
  have hs : SInv src (evStep w dst nodes ⟨nodes dst, [], []⟩ (.adv src c)).nd.fetcher := by
    rw [e1]; exact sInv_add (w.kdist dst) _ src _ _ c hq
  have hs' := sInv_rsps w dst nodes src rsps _ hr hs
  obtain ⟨advs', hf⟩ := fInv_run w dst nodes _ hwf (.adv src c :: rsps) [] ⟨nodes dst, [], []⟩ (fInv_init nodes _ hq) hok
  apply List.eq_nil_iff_forall_not_mem.2
  intro x hx
  rcases hf.closest x hx with h1 | h1
  · have := hs'.2 x hx
    have h1' : hasKT (runEvs w dst nodes (evStep w dst nodes ⟨nodes dst, [], []⟩ (.adv src c)) rsps).nd.fetcher.ogf
        x.key x.ty = true := h1
    rw [this] at h1'; cases h1'
  · have hroom' : (runEvs w dst nodes ⟨nodes dst, [], []⟩ (.adv src c :: rsps)).nd.fetcher.ogf.length <
        maxParallelFetch := hroom
    omega

/-! ### every reply accepted: nothing stays in flight -/

/-- every reply of the phase is accepted by the requester (`store_replicated_in_record` returns Ok), checked at the state
each reply meets -/
def Accepted (w : World) (dst : Nat) (nodes : Nat → NodeSt) : Rq → List Ev → Prop
  | _, [] => True
  | st, ev :: evs =>
    (match ev with
     | .adv .. => True
     | .rsp j _ => ∀ e cont, st.pending[j % st.pending.length]? = some e → serve (nodes e.holder) e.key = some cont →
        replOk st.nd.store e.key cont = true) ∧
    Accepted w dst nodes (evStep w dst nodes st ev) evs

/-- every in-flight entry is a timed-out leftover of an earlier phase or awaits its reply -/
def OgfPending (now0 : Nat) (f : Fetcher.State) (pending : List Entry) : Prop :=
  ∀ o ∈ f.ogf, o.deadline ≤ now0 ∨ o ∈ pending

theorem ogfPending_sub {now0 : Nat} {f f' : Fetcher.State} {pending pending' : List Entry}
    (h : OgfPending now0 f pending) (hs : ∀ o ∈ f'.ogf, o ∈ f.ogf ∧ (o ∈ pending → o ∈ pending') ∨ o ∈ pending') :
    OgfPending now0 f' pending' := by
  intro o ho
  rcases hs o ho with ⟨h1, h2⟩ | h1
  · rcases h o h1 with b | b
    · exact Or.inl b
    · exact Or.inr (h2 b)
  · exact Or.inr h1

/-- one event preserves the fetcher invariant (`fInv_run`, one step) -/
theorem fInv_step (w : World) (dst : Nat) (nodes : Nat → NodeSt) (now0 : Nat) (hwf : ∀ i, StoreWF (nodes i).store)
    (advs : List Nat) (st : Rq) (ev : Ev) (hf : FInv nodes now0 advs st.nd.fetcher st.pending st.noop)
    (hok : EvOk w dst nodes st ev) :
    FInv nodes now0 (advsAfter advs ev) (evStep w dst nodes st ev).nd.fetcher (evStep w dst nodes st ev).pending
      (evStep w dst nodes st ev).noop := by
  cases ev with
  | adv src c =>
    obtain ⟨hheard, _, _, _, hleg⟩ := hok
    obtain ⟨e1, e2, e3, e4⟩ := evStep_adv_eq w dst nodes st src c hheard
    rw [nodeRep_eq w dst st.nd src _ c hheard] at hleg
    simp only at hleg
    rw [e1, e3, e4]
    exact fInv_add (w.kdist dst) src _ _ c (fun p hp => indexOf_get (hwf src) hp) hleg hf
  | rsp j c =>
    cases hget : st.pending[j % st.pending.length]? with
    | none =>
      have : evStep w dst nodes st (.rsp j c) = st := by simp only [evStep, evStepWith, hget]
      rw [this]; exact hf
    | some e =>
      have hmem : e ∈ st.pending := List.mem_of_getElem? hget
      obtain ⟨_, cont, hcont, hty⟩ := hf.pendOk e hmem
      have hs : serve (nodes e.holder) e.key = some cont := hcont
      have hleg := hok e cont hget hs
      rw [evStep_rsp_eq w dst nodes st j c e cont hget hs]
      rcases nodeRsp_cases w dst st.nd e.key cont c with ⟨_, _, h1, h2, h3⟩ | ⟨_, _, h3, h1, h2, h4⟩ |
        ⟨c', rest, _, _, h0, h1, h2, hill, h3, h4, h5, h6⟩ | ⟨c', rest, _, _, h0, h1, h2, h3, h4, h5, h6⟩
      · simp only [h1, h2, h3, List.append_nil, List.isEmpty_nil, if_true]
        exact fInv_noop _ e hget hf
      · rw [h2] at hleg
        simp only [h2, h3, h4, List.isEmpty_nil, if_true]
        exact fInv_early (w.kdist dst) e.key (tyOf cont) c hleg (fInv_noop _ e hget hf)
      · rw [hill] at hleg
        simp only [Bool.or_eq_false_iff] at hleg
        simp only [h0, h2, List.isEmpty_cons, Bool.false_eq_true, if_false, ← List.append_assoc]
        exact fInv_congr (fInv_early (w.kdist dst) e.key (tyOf cont) (choiceDone c) hleg.2
          (fInv_put (w.kdist dst) _ e (tyOf c') (choicePut c) hget hleg.1 hf)) h3 h4 h5 h6
      · rw [h2] at hleg
        simp only [h0, h2, List.isEmpty_cons, Bool.false_eq_true, if_false]
        exact fInv_congr (fInv_put (w.kdist dst) _ e (tyOf c') c hget hleg hf) h3 h4 h5 h6

open SafeNet.Fetcher (addKeys newPut earlyDone) in
/-- an accepted reply, or an advertisement, keeps every in-flight entry awaiting its reply -/
theorem ogfPending_step (w : World) (dst : Nat) (nodes : Nat → NodeSt) (now0 : Nat) (advs : List Nat) (st : Rq) (ev : Ev)
    (hf : FInv nodes now0 advs st.nd.fetcher st.pending st.noop)
    (hp : OgfPending now0 st.nd.fetcher st.pending)
    (hheard : ∀ src c, ev = .adv src c → heard w dst src = true)
    (hacc : ∀ j c, ev = .rsp j c → ∀ e cont, st.pending[j % st.pending.length]? = some e →
      serve (nodes e.holder) e.key = some cont → replOk st.nd.store e.key cont = true) :
    OgfPending now0 (evStep w dst nodes st ev).nd.fetcher (evStep w dst nodes st ev).pending := by
  cases ev with
  | adv src c =>
    obtain ⟨e1, _, e3, _⟩ := evStep_adv_eq w dst nodes st src c (hheard src c rfl)
    rw [e1, e3]
    have hexact := SafeNet.Props.C08.inflight_exact (w.kdist dst) st.nd.fetcher
      (.add src (indexOf (nodes src).store) (indexOf st.nd.store) c)
    simp only [Fetcher.step] at hexact
    apply ogfPending_sub hp
    intro o ho
    rw [hexact] at ho
    rcases List.mem_append.1 ho with ho | ho
    · exact Or.inl ⟨(List.mem_filter.1 ho).1, fun b => List.mem_append_left _ b⟩
    · exact Or.inr (List.mem_append_right _ ho)
  | rsp j c =>
    cases hget : st.pending[j % st.pending.length]? with
    | none =>
      have : evStep w dst nodes st (.rsp j c) = st := by simp only [evStep, evStepWith, hget]
      rw [this]; exact hp
    | some e =>
      have hmem : e ∈ st.pending := List.mem_of_getElem? hget
      obtain ⟨_, cont, hcont, hty⟩ := hf.pendOk e hmem
      have hs : serve (nodes e.holder) e.key = some cont := hcont
      have hok := hacc j c rfl e cont hget hs
      rw [evStep_rsp_eq w dst nodes st j c e cont hget hs]
      rcases nodeRsp_cases w dst st.nd e.key cont c with ⟨_, hno, _⟩ | ⟨_, _, _, _, h2, h4⟩ |
        ⟨c', rest, _, _, _, _, h2, _, _, h4, _⟩ | ⟨c', rest, _, hno, _⟩
      · rw [hok] at hno; cases hno
      · simp only [h2, h4]
        have hexact := SafeNet.Props.C08.inflight_exact (w.kdist dst) st.nd.fetcher (.early e.key (tyOf cont) c)
        simp only [Fetcher.step] at hexact
        apply ogfPending_sub hp
        intro o ho
        rw [hexact] at ho
        rcases List.mem_append.1 ho with ho | ho
        · obtain ⟨ho1, ho2⟩ := List.mem_filter.1 ho
          simp only [SafeNet.Props.C08.stays, Bool.and_eq_true, decide_eq_true_eq, Bool.not_eq_true',
            Bool.and_eq_false_imp, beq_iff_eq, beq_eq_false_iff_ne, ne_eq] at ho2
          refine Or.inl ⟨ho1, fun b => List.mem_append_left _ (mem_eraseIdx_of_ne hget b ?_)⟩
          intro hoe
          rw [hoe] at ho2
          exact ho2.2 rfl hty.symm
        · exact Or.inr (List.mem_append_right _ ho)
      · simp only [h2, ← List.append_assoc]
        intro o ho
        rw [h4] at ho
        have hexact2 := SafeNet.Props.C08.inflight_exact (w.kdist dst) (rspPut w dst st.nd e.key c' c).1
          (.early e.key (tyOf cont) (choiceDone c))
        simp only [Fetcher.step] at hexact2
        have ho' : o ∈ (earlyDone (w.kdist dst) (rspPut w dst st.nd e.key c' c).1 e.key (tyOf cont) (choiceDone c)).1.ogf := ho
        rw [hexact2] at ho'
        rcases List.mem_append.1 ho' with ho' | ho'
        · have ho1 := (List.mem_filter.1 ho').1
          have hexact1 := SafeNet.Props.C08.inflight_exact (w.kdist dst) st.nd.fetcher (.put e.key (tyOf c') (choicePut c))
          simp only [Fetcher.step] at hexact1
          have ho1' : o ∈ (newPut (w.kdist dst) st.nd.fetcher e.key (tyOf c') (choicePut c)).1.ogf := ho1
          rw [hexact1] at ho1'
          rcases List.mem_append.1 ho1' with ho1' | ho1'
          · obtain ⟨hoa, hob⟩ := List.mem_filter.1 ho1'
            simp only [SafeNet.Props.C08.stays, Bool.and_eq_true, decide_eq_true_eq, Bool.not_eq_true',
              beq_eq_false_iff_ne, ne_eq] at hob
            rcases hp o hoa with b | b
            · exact Or.inl b
            · refine Or.inr (List.mem_append_left _ (List.mem_append_left _ (mem_eraseIdx_of_ne hget b ?_)))
              intro hoe
              rw [hoe] at hob
              exact hob.2 rfl
          · exact Or.inr (List.mem_append_left _ (List.mem_append_right _ ho1'))
        · exact Or.inr (List.mem_append_right _ ho')
      · rw [hok] at hno; cases hno

/-- **With every reply accepted, a phase that has received all its replies leaves nothing in flight** (apart from
timed-out leftovers of earlier phases when nothing was advertised at all), hence — `closest_first` — nothing queued:
no fetch slot stays blocked by a copy that changed nothing. -/
theorem accepted_phase_drains (w : World) (dst : Nat) (nodes : Nat → NodeSt) (hwf : ∀ i, StoreWF (nodes i).store)
    (hq : StaleQuiet (nodes dst).fetcher) : ∀ (evs : List Ev) (advs : List Nat) (st : Rq),
    FInv nodes (nodes dst).fetcher.now advs st.nd.fetcher st.pending st.noop →
    OgfPending (nodes dst).fetcher.now st.nd.fetcher st.pending →
    PhaseOk w dst nodes st evs → Accepted w dst nodes st evs →
    ∃ advs', FInv nodes (nodes dst).fetcher.now advs' (runEvs w dst nodes st evs).nd.fetcher
        (runEvs w dst nodes st evs).pending (runEvs w dst nodes st evs).noop ∧
      OgfPending (nodes dst).fetcher.now (runEvs w dst nodes st evs).nd.fetcher (runEvs w dst nodes st evs).pending := by
  intro evs
  induction evs with
  | nil => intro advs st hf hp _ _; exact ⟨advs, hf, hp⟩
  | cons ev rest ih =>
    intro advs st hf hp hok hacc
    have hf' := fInv_step w dst nodes _ hwf advs st ev hf hok.1
    have hp' := ogfPending_step w dst nodes _ advs st ev hf hp
      (by intro src c he; subst he; exact hok.1.1)
      (by intro j c he; subst he; exact hacc.1)
    exact ih _ _ hf' hp' hok.2 hacc.2

theorem accepted_phase_room (w : World) (dst : Nat) (nodes : Nat → NodeSt) (hwf : ∀ i, StoreWF (nodes i).store)
    (hq : StaleQuiet (nodes dst).fetcher) (evs : List Ev)
    (hok : PhaseOk w dst nodes ⟨nodes dst, [], []⟩ evs) (hacc : Accepted w dst nodes ⟨nodes dst, [], []⟩ evs)
    (hpend : (runEvs w dst nodes ⟨nodes dst, [], []⟩ evs).pending = []) :
    (∀ o ∈ (runEvs w dst nodes ⟨nodes dst, [], []⟩ evs).nd.fetcher.ogf, o.deadline ≤ (nodes dst).fetcher.now) ∧
    ((runEvs w dst nodes ⟨nodes dst, [], []⟩ evs).nd.fetcher.tbf = [] ∨
      (runEvs w dst nodes ⟨nodes dst, [], []⟩ evs).nd.fetcher.ogf = []) := by
  have hp0 : OgfPending (nodes dst).fetcher.now (nodes dst).fetcher [] := fun o ho => Or.inl (hq.2.2 o ho)
  obtain ⟨advs', hf, hp⟩ := accepted_phase_drains w dst nodes hwf hq evs [] ⟨nodes dst, [], []⟩
    (fInv_init nodes _ hq) hp0 hok hacc
  have hall : ∀ o ∈ (runEvs w dst nodes ⟨nodes dst, [], []⟩ evs).nd.fetcher.ogf, o.deadline ≤ (nodes dst).fetcher.now := by
    intro o ho
    rcases hp o ho with b | b
    · exact b
    · rw [hpend] at b; cases b
  refine ⟨hall, ?_⟩
  rcases hf.running with r | ⟨r, _⟩
  · right
    apply List.eq_nil_iff_forall_not_mem.2
    intro o ho
    have := r o ho
    have := hall o ho
    omega
  · exact Or.inl r

/-! ### executable checks of the hypotheses (for concrete non-vacuity examples) -/

def evOkBWith (nt : Bool) (w : World) (dst : Nat) (nodes : Nat → NodeSt) (st : Rq) : Ev → Bool
  | .adv src c =>
    let new := (indexOf (nodes src).store).filter (admits (w.kdist dst) st.nd.fetcher (indexOf st.nd.store) src)
    heard w dst src &&
    st.nd.fetcher.ogf.all (fun o => !decide (o.deadline ≤ st.nd.fetcher.now) ||
      (o.holder != src && new.all (fun p => !(o.key == p.1 && o.ty == p.2)))) &&
    (match st.nd.fetcher.range with
     | none => true
     | some r => new.all (fun p => decide (w.kdist dst p.1 ≤ r))) &&
    !(nodeRep w dst st.nd src (indexOf (nodes src).store) c).2.illegal
  | .rsp j c =>
    match st.pending[j % st.pending.length]? with
    | none => true
    | some e =>
      match serve (nodes e.holder) e.key with
      | none => true
      | some cont => !(nodeRspWith nt w dst st.nd e.key cont c).2.1.illegal

def evOkB (w : World) (dst : Nat) (nodes : Nat → NodeSt) (st : Rq) (ev : Ev) : Bool :=
  evOkBWith fetchTaskNotifiesCompletion w dst nodes st ev

/-- the per-event checks along a run of the machine with the completion notice switched on / off -/
def phaseOkBWith (nt : Bool) (w : World) (dst : Nat) (nodes : Nat → NodeSt) : Rq → List Ev → Bool
  | _, [] => true
  | st, ev :: evs => evOkBWith nt w dst nodes st ev && phaseOkBWith nt w dst nodes (evStepWith nt w dst nodes st ev) evs

theorem evOkB_sound {w : World} {dst : Nat} {nodes : Nat → NodeSt} {st : Rq} {ev : Ev}
    (h : evOkB w dst nodes st ev = true) : EvOk w dst nodes st ev := by
  cases ev with
  | adv src c =>
    simp only [evOkB, evOkBWith, Bool.and_eq_true, List.all_eq_true, Bool.or_eq_true, Bool.not_eq_true', decide_eq_false_iff_not,
      bne_iff_ne, ne_eq, Bool.and_eq_false_imp, beq_iff_eq, beq_eq_false_iff_ne] at h
    obtain ⟨⟨⟨h1, h2⟩, h3⟩, h4⟩ := h
    refine ⟨h1, ?_, ?_, ?_, h4⟩
    · intro o ho hd
      rcases h2 o ho with h5 | h5
      · exact absurd hd h5
      · exact h5.1
    · intro p hp o ho hd hh
      rcases h2 o ho with h5 | h5
      · exact absurd hd h5
      · exact h5.2 p hp hh.1 hh.2
    · intro r hr p hp
      rw [hr] at h3
      simp only [List.all_eq_true, decide_eq_true_eq] at h3
      exact h3 p hp
  | rsp j c =>
    intro e cont hget hs
    simp only [evOkB, evOkBWith, hget, hs, Bool.not_eq_true'] at h
    exact h

def phaseOkB (w : World) (dst : Nat) (nodes : Nat → NodeSt) : Rq → List Ev → Bool
  | _, [] => true
  | st, ev :: evs => evOkB w dst nodes st ev && phaseOkB w dst nodes (evStep w dst nodes st ev) evs

theorem phaseOkB_sound {w : World} {dst : Nat} {nodes : Nat → NodeSt} : ∀ {evs : List Ev} {st : Rq},
    phaseOkB w dst nodes st evs = true → PhaseOk w dst nodes st evs := by
  intro evs
  induction evs with
  | nil => intro st _; trivial
  | cons ev rest ih =>
    intro st h
    simp only [phaseOkB, Bool.and_eq_true] at h
    exact ⟨evOkB_sound h.1, ih h.2⟩

def validPB (w : World) : (Nat → NodeSt) → List Phase → Bool
  | _, [] => true
  | nodes, ph :: rest =>
    phaseOkB w ph.dst nodes ⟨nodes ph.dst, [], []⟩ ph.evs &&
    (runPhase w nodes ph).pending.isEmpty && (runPhase w nodes ph).nd.fetcher.tbf.isEmpty &&
    decide (fetchTimeout ≤ ph.tick) && validPB w (stepP w nodes ph) rest

theorem validPB_sound {w : World} : ∀ {phs : List Phase} {nodes : Nat → NodeSt},
    validPB w nodes phs = true → ValidP w nodes phs := by
  intro phs
  induction phs with
  | nil => intro nodes _; trivial
  | cons ph rest ih =>
    intro nodes h
    simp only [validPB, Bool.and_eq_true, List.isEmpty_iff, decide_eq_true_eq] at h
    obtain ⟨⟨⟨⟨h1, h2⟩, h3⟩, h4⟩, h5⟩ := h
    exact ⟨phaseOkB_sound h1, h2, h3, h4, ih h5⟩

/-! ### the two single-requester statements, for any kind of key -/

theorem advSrcs_rsps : ∀ (rsps : List Ev), (∀ ev ∈ rsps, ev.isRsp = true) → advSrcs rsps = [] := by
  intro rsps
  induction rsps with
  | nil => intro _; rfl
  | cons ev rest ih =>
    intro h
    cases ev with
    | adv s c => have := h _ (List.mem_cons_self ..); cases this
    | rsp j c => exact ih (fun e he => h e (List.mem_cons_of_mem _ he))

/-- **(a) one advertisement of any size is a complete exchange.** `n` new keys (no bound), at least `n` reply
deliveries in any order, per-event hypotheses, fewer than MAX_PARALLEL_FETCH fetches left in flight at the end: nothing is
outstanding, the queue is drained, and the requester's version of key `k` is the join of the two versions. -/
theorem cascade_join (w : World) (dst : Nat) (nodes : Nat → NodeSt) (k : Nat) (ver : Option Content → Ver)
    (OkV : Option Content → Prop) (law : KeyLaw k ver OkV)
    (hwf : ∀ i, StoreWF (nodes i).store) (hokn : ∀ i, OkV ((nodes i).store.get k))
    (hq : StaleQuiet (nodes dst).fetcher) (src : Nat) (c : List Entry) (rsps : List Ev)
    (hr : ∀ ev ∈ rsps, ev.isRsp = true)
    (hlen : ((indexOf (nodes src).store).filter
      (admits (w.kdist dst) (nodes dst).fetcher (indexOf (nodes dst).store) src)).length ≤ rsps.length)
    (hok : PhaseOk w dst nodes ⟨nodes dst, [], []⟩ (.adv src c :: rsps))
    (hroom : (runEvs w dst nodes ⟨nodes dst, [], []⟩ (.adv src c :: rsps)).nd.fetcher.ogf.length < maxParallelFetch) :
    (runEvs w dst nodes ⟨nodes dst, [], []⟩ (.adv src c :: rsps)).pending = [] ∧
    (runEvs w dst nodes ⟨nodes dst, [], []⟩ (.adv src c :: rsps)).nd.fetcher.tbf = [] ∧
    ver ((runEvs w dst nodes ⟨nodes dst, [], []⟩ (.adv src c :: rsps)).nd.store.get k) =
      join (ver ((nodes src).store.get k)) (ver ((nodes dst).store.get k)) ∧
    OkV ((runEvs w dst nodes ⟨nodes dst, [], []⟩ (.adv src c :: rsps)).nd.store.get k) := by
  obtain ⟨hp, hdr⟩ := cascade_drains w dst nodes hwf hq src c rsps hr hlen hok
  obtain ⟨hj, hko⟩ := phase_join w dst nodes k ver OkV law hwf hokn hq _ hok hp (Or.inl (hdr hroom))
  refine ⟨hp, hdr hroom, ?_, hko⟩
  rw [hj]
  show joinAll _ (src :: advSrcs rsps) _ = _
  rw [advSrcs_rsps rsps hr]
  rfl

/-- **(a′) one advertisement of any size is a complete exchange — no bound on the copies that change nothing.** As
`cascade_join`, with the hypothesis "fewer than MAX_PARALLEL_FETCH fetches left in flight" replaced by "every fetched copy
is accepted" (`store_replicated_in_record` returns Ok): an accepted copy leaves the in-flight set whether or not it was
stored, so the queue drains and, when the last reply has been processed, nothing at all is in flight. -/
theorem cascade_join_accepted (w : World) (dst : Nat) (nodes : Nat → NodeSt) (k : Nat) (ver : Option Content → Ver)
    (OkV : Option Content → Prop) (law : KeyLaw k ver OkV)
    (hwf : ∀ i, StoreWF (nodes i).store) (hokn : ∀ i, OkV ((nodes i).store.get k))
    (hq : StaleQuiet (nodes dst).fetcher) (src : Nat) (c : List Entry) (rsps : List Ev)
    (hr : ∀ ev ∈ rsps, ev.isRsp = true)
    (hlen : ((indexOf (nodes src).store).filter
      (admits (w.kdist dst) (nodes dst).fetcher (indexOf (nodes dst).store) src)).length ≤ rsps.length)
    (hok : PhaseOk w dst nodes ⟨nodes dst, [], []⟩ (.adv src c :: rsps))
    (hacc : Accepted w dst nodes ⟨nodes dst, [], []⟩ (.adv src c :: rsps)) :
    (runEvs w dst nodes ⟨nodes dst, [], []⟩ (.adv src c :: rsps)).pending = [] ∧
    (runEvs w dst nodes ⟨nodes dst, [], []⟩ (.adv src c :: rsps)).nd.fetcher.tbf = [] ∧
    (∀ o ∈ (runEvs w dst nodes ⟨nodes dst, [], []⟩ (.adv src c :: rsps)).nd.fetcher.ogf,
      o.deadline ≤ (nodes dst).fetcher.now) ∧
    ver ((runEvs w dst nodes ⟨nodes dst, [], []⟩ (.adv src c :: rsps)).nd.store.get k) =
      join (ver ((nodes src).store.get k)) (ver ((nodes dst).store.get k)) ∧
    OkV ((runEvs w dst nodes ⟨nodes dst, [], []⟩ (.adv src c :: rsps)).nd.store.get k) := by
  obtain ⟨hp, hdr⟩ := cascade_drains w dst nodes hwf hq src c rsps hr hlen hok
  obtain ⟨hall, hquiet⟩ := accepted_phase_room w dst nodes hwf hq _ hok hacc hp
  have htbf : (runEvs w dst nodes ⟨nodes dst, [], []⟩ (.adv src c :: rsps)).nd.fetcher.tbf = [] := by
    rcases hquiet with h | h
    · exact h
    · apply hdr
      rw [h]
      exact Fetcher.maxParallelFetch_pos
  obtain ⟨hj, hko⟩ := phase_join w dst nodes k ver OkV law hwf hokn hq _ hok hp (Or.inl htbf)
  refine ⟨hp, htbf, hall, ?_, hko⟩
  rw [hj]
  show joinAll _ (src :: advSrcs rsps) _ = _
  rw [advSrcs_rsps rsps hr]
  rfl

def acceptedB (w : World) (dst : Nat) (nodes : Nat → NodeSt) : Rq → List Ev → Bool
  | _, [] => true
  | st, ev :: evs =>
    (match ev with
     | .adv .. => true
     | .rsp j _ =>
       match st.pending[j % st.pending.length]? with
       | none => true
       | some e =>
         match serve (nodes e.holder) e.key with
         | none => true
         | some cont => replOk st.nd.store e.key cont) &&
    acceptedB w dst nodes (evStep w dst nodes st ev) evs

theorem acceptedB_sound {w : World} {dst : Nat} {nodes : Nat → NodeSt} : ∀ {evs : List Ev} {st : Rq},
    acceptedB w dst nodes st evs = true → Accepted w dst nodes st evs := by
  intro evs
  induction evs with
  | nil => intro st _; trivial
  | cons ev rest ih =>
    intro st h
    simp only [acceptedB, Bool.and_eq_true] at h
    refine ⟨?_, ih h.2⟩
    cases ev with
    | adv s c => trivial
    | rsp j c =>
      intro e cont hget hs
      have := h.1
      simp only [hget, hs] at this
      exact this

/-- **(b) interleaving does not matter.** Whatever the order in which several advertisements and the replies to their
fetches reach one requester, the phase leaves the version the *serialised* schedule of complete exchanges
`s₁ → dst, s₂ → dst, …` leaves. -/
theorem phase_is_serial (w : World) (dst : Nat) (nodes : Nat → NodeSt) (k : Nat) (ver : Option Content → Ver)
    (OkV : Option Content → Prop) (law : KeyLaw k ver OkV)
    (hwf : ∀ i, StoreWF (nodes i).store) (hokn : ∀ i, OkV ((nodes i).store.get k))
    (hq : StaleQuiet (nodes dst).fetcher) (evs : List Ev)
    (hok : PhaseOk w dst nodes ⟨nodes dst, [], []⟩ evs)
    (hp : (runEvs w dst nodes ⟨nodes dst, [], []⟩ evs).pending = [])
    (hdr : (runEvs w dst nodes ⟨nodes dst, [], []⟩ evs).nd.fetcher.tbf = [] ∨
      (runEvs w dst nodes ⟨nodes dst, [], []⟩ evs).nd.fetcher.ogf.length < maxParallelFetch) :
    ver ((runEvs w dst nodes ⟨nodes dst, [], []⟩ evs).nd.store.get k) =
      runX (fun j => ver ((nodes j).store.get k)) ((advSrcs evs).map (fun s => (s, dst))) dst := by
  have hne : ∀ s ∈ advSrcs evs, s ≠ dst := fun s hs => heard_ne (phaseOk_heard w dst nodes evs _ hok s hs)
  rw [runX_joinAll dst (advSrcs evs) _ hne]
  simp only [if_true]
  exact (phase_join w dst nodes k ver OkV law hwf hokn hq evs hok hp hdr).1

/-! ### schedules of big exchanges: `Valid` without the bound on the number of keys -/

/-- a complete exchange `src → dst` of any size: the advertisement, the replies (each delivery processes *some*
outstanding reply, picked by its index), and the time that passes at `dst` afterwards -/
structure BigXch where
  src : Nat
  dst : Nat
  c : List Entry
  rsps : List Ev
  tick : Nat

def BigXch.phase (x : BigXch) : Phase := ⟨x.dst, .adv x.src x.c :: x.rsps, x.tick⟩

/-- **FairRound hypotheses without a bound on the number of keys**, checked at the state each exchange meets: the
per-event hypotheses (`PhaseOk`: advertiser heard, legal choice witnesses, keys within the range, no timed-out fetch from
the advertiser / of an advertised version still registered), at least as many reply deliveries as the advertisement has
new keys, fewer than MAX_PARALLEL_FETCH fetches left in flight when the last reply has been processed (those are the
fetches whose copy changed nothing at the requester), and at least FETCH_TIMEOUT passes afterwards. -/
def ValidBig (w : World) : (Nat → NodeSt) → List BigXch → Prop
  | _, [] => True
  | nodes, x :: xs =>
    (∀ ev ∈ x.rsps, ev.isRsp = true) ∧
    ((indexOf (nodes x.src).store).filter
      (admits (w.kdist x.dst) (nodes x.dst).fetcher (indexOf (nodes x.dst).store) x.src)).length ≤ x.rsps.length ∧
    PhaseOk w x.dst nodes ⟨nodes x.dst, [], []⟩ (.adv x.src x.c :: x.rsps) ∧
    (runPhase w nodes x.phase).nd.fetcher.ogf.length < maxParallelFetch ∧
    fetchTimeout ≤ x.tick ∧ ValidBig w (stepP w nodes x.phase) xs

/-- a valid schedule of big exchanges is a valid schedule of phases: outstanding replies and queue drain by themselves -/
theorem validP_of_big (w : World) : ∀ (xs : List BigXch) (nodes : Nat → NodeSt), (∀ i, StaleQuiet (nodes i).fetcher) →
    (∀ i, StoreWF (nodes i).store) → ValidBig w nodes xs → ValidP w nodes (xs.map BigXch.phase) := by
  intro xs
  induction xs with
  | nil => intro nodes _ _ _; trivial
  | cons x rest ih =>
    intro nodes hq hwf hv
    obtain ⟨hr, hlen, hok, hroom, htick, hrest⟩ := hv
    obtain ⟨hp, hdr⟩ := cascade_drains w x.dst nodes hwf (hq x.dst) x.src x.c x.rsps hr hlen hok
    have hdr' := hdr hroom
    refine ⟨hok, hp, hdr', htick, ?_⟩
    apply ih _ _ _ hrest
    · intro i
      unfold stepP
      split
      · exact phase_then_tick_staleQuiet w x.dst nodes hwf (hq x.dst) _ x.tick hok hdr' htick
      · exact hq i
    · intro i
      unfold stepP
      split
      · exact runEvs_wf w x.dst nodes _ _ (hwf x.dst)
      · exact hwf i

theorem pairsOf_big (xs : List BigXch) (h : ∀ x ∈ xs, ∀ ev ∈ x.rsps, ev.isRsp = true) :
    pairsOf (xs.map BigXch.phase) = xs.map (fun x => (x.src, x.dst)) := by
  induction xs with
  | nil => rfl
  | cons x rest ih =>
    have h1 : advSrcs x.rsps = [] := advSrcs_rsps _ (h x (List.mem_cons_self ..))
    have h2 := ih (fun y hy => h y (List.mem_cons_of_mem _ hy))
    simp only [pairsOf, List.map_cons, List.flatMap_cons] at h2 ⊢
    rw [h2]
    simp [BigXch.phase, advSrcs, h1]

theorem validBig_rsps (w : World) : ∀ (xs : List BigXch) (nodes : Nat → NodeSt), ValidBig w nodes xs →
    ∀ x ∈ xs, ∀ ev ∈ x.rsps, ev.isRsp = true := by
  intro xs
  induction xs with
  | nil => intro _ _ x hx; cases hx
  | cons x0 rest ih =>
    intro nodes hv x hx
    rcases List.mem_cons.1 hx with rfl | hx
    · exact hv.1
    · exact ih _ hv.2.2.2.2.2 x hx

end SafeNet.Replication
