import SafeNet.Model.Lifecycle
/-! Helper lemmas for C19 (service lifecycle): OS primitives, one-service transitions, invariants. -/
namespace SafeNet.Lifecycle

/-! ## OS primitives -/

theorem isInstalled_iff (os : OS) (n : Nat) : os.isInstalled n = true ↔ ∃ e ∈ os.installed, e.1 = n := by
  simp [OS.isInstalled]

theorem isInstalled_false_iff (os : OS) (n : Nat) : os.isInstalled n = false ↔ ∀ e ∈ os.installed, e.1 ≠ n := by
  simp [OS.isInstalled]

theorem lookup_some {os : OS} {n : Nat} {p : Proc} (h : os.lookup n = some p) : p ∈ os.procs ∧ p.svc = n := by
  unfold OS.lookup at h
  have h1 := List.mem_of_find?_eq_some h
  have h2 := List.find?_some h
  simp at h2
  exact ⟨h1, h2⟩

theorem lookup_none {os : OS} {n : Nat} (h : os.lookup n = none) : ∀ p ∈ os.procs, p.svc ≠ n := by
  unfold OS.lookup at h
  intro p hp
  have := List.find?_eq_none.mp h p hp
  simpa using this

theorem lookup_isSome_of_mem {os : OS} {n : Nat} {p : Proc} (hp : p ∈ os.procs) (hn : p.svc = n) :
    (os.lookup n).isSome = true := by
  cases h : os.lookup n with
  | some q => rfl
  | none => exact absurd hn (lookup_none h p hp)

/-- No live process belongs to service `n`. -/
def NoProc (os : OS) (n : Nat) : Prop := ∀ p ∈ os.procs, p.svc ≠ n

theorem noProc_iff_lookup (os : OS) (n : Nat) : NoProc os n ↔ os.lookup n = none := by
  constructor
  · intro h
    cases hl : os.lookup n with
    | none => rfl
    | some p => exact absurd (lookup_some hl).2 (h p (lookup_some hl).1)
  · exact lookup_none

/-- What an OS-level action on service `n` may change: nothing that concerns another service. -/
structure Frame (n : Nat) (os os' : OS) : Prop where
  procs : ∀ p, p.svc ≠ n → (p ∈ os'.procs ↔ p ∈ os.procs)
  inst : ∀ m, m ≠ n → os'.isInstalled m = os.isInstalled m

theorem Frame.refl (n : Nat) (os : OS) : Frame n os os := ⟨fun _ _ => Iff.rfl, fun _ _ => rfl⟩

theorem Frame.trans {n : Nat} {a b c : OS} (h1 : Frame n a b) (h2 : Frame n b c) : Frame n a c :=
  ⟨fun p hp => (h2.procs p hp).trans (h1.procs p hp), fun m hm => (h2.inst m hm).trans (h1.inst m hm)⟩

theorem osStart_spec {os os' : OS} {n : Nat} (h : osStart os n = some os') :
    Frame n os os' ∧ os'.installed = os.installed ∧ os'.dirs = os.dirs ∧ os'.flaky = os.flaky ∧
    os.isInstalled n = true ∧ (∀ p ∈ os.procs, p ∈ os'.procs) ∧
    (∀ p ∈ os'.procs, p ∈ os.procs ∨ p.svc = n) := by
  unfold osStart at h
  split at h
  · cases h
  · rename_i hi
    simp at hi
    split at h
    · cases h
      exact ⟨Frame.refl _ _, rfl, rfl, rfl, hi, fun _ hp => hp, fun _ hp => Or.inl hp⟩
    · cases h
      refine ⟨⟨?_, ?_⟩, rfl, rfl, rfl, hi, ?_, ?_⟩
      · intro p hp
        simp only [List.mem_append, List.mem_singleton]
        constructor
        · rintro (h | h)
          · exact h
          · subst h; simp at hp
        · exact Or.inl
      · intro m _; rfl
      · intro p hp; simp [hp]
      · intro p hp
        simp only [List.mem_append, List.mem_singleton] at hp
        rcases hp with h | h
        · exact Or.inl h
        · subst h; exact Or.inr rfl

theorem osStop_spec {os os' : OS} {n : Nat} (h : osStop os n = some os') :
    Frame n os os' ∧ os'.installed = os.installed ∧ os'.dirs = os.dirs ∧ NoProc os' n ∧
    (∀ p ∈ os'.procs, p ∈ os.procs) := by
  unfold osStop at h
  split at h
  · cases h
  · cases h
    refine ⟨⟨?_, fun _ _ => rfl⟩, rfl, rfl, ?_, ?_⟩
    · intro p hp; simp [List.mem_filter, hp]
    · intro p hp; simp [List.mem_filter] at hp; exact hp.2
    · intro p hp; simp [List.mem_filter] at hp; exact hp.1

theorem isInstalled_filter_ne (l : List (Nat × Option Nat × Nat)) (n m : Nat) (h : m ≠ n) :
    (l.filter (fun e => e.1 ≠ n)).any (fun e => e.1 = m) = l.any (fun e => e.1 = m) := by
  rw [Bool.eq_iff_iff]
  simp only [List.any_eq_true, List.mem_filter, decide_eq_true_eq]
  constructor
  · rintro ⟨e, ⟨he, _⟩, hm⟩; exact ⟨e, he, hm⟩
  · rintro ⟨e, he, hm⟩; exact ⟨e, ⟨he, fun hn => h (hm ▸ hn)⟩, hm⟩

theorem isInstalled_filter_self (l : List (Nat × Option Nat × Nat)) (n : Nat) :
    (l.filter (fun e => e.1 ≠ n)).any (fun e => e.1 = n) = false := by
  rw [Bool.eq_false_iff]
  simp only [ne_eq, List.any_eq_true, List.mem_filter, decide_eq_true_eq, not_exists, not_and]
  rintro e ⟨_, hne⟩ he
  exact hne he

theorem osUninstall_spec {os os' : OS} {n : Nat} (h : osUninstall os n = some os') :
    Frame n os os' ∧ os'.procs = os.procs ∧ os'.dirs = os.dirs ∧ os'.isInstalled n = false := by
  unfold osUninstall at h
  split at h
  · cases h
  · cases h
    refine ⟨⟨fun _ _ => Iff.rfl, ?_⟩, rfl, rfl, ?_⟩
    · intro m hm; exact isInstalled_filter_ne _ _ _ hm
    · exact isInstalled_filter_self _ _

theorem osUninstall_none {os : OS} {n : Nat} (h : osUninstall os n = none) : os.isInstalled n = false := by
  unfold osUninstall at h
  split at h
  · rename_i hi; simpa using hi
  · cases h

theorem osInstall_spec (os : OS) (n : Nat) (port : Option Nat) (rpc : Nat) :
    Frame n os (osInstall os n port rpc) ∧ (osInstall os n port rpc).procs = os.procs ∧
    (osInstall os n port rpc).dirs = os.dirs ∧ (osInstall os n port rpc).isInstalled n = true := by
  refine ⟨⟨fun _ _ => Iff.rfl, ?_⟩, rfl, rfl, ?_⟩
  · intro m hm
    have hm' : n ≠ m := fun h => hm h.symm
    simp only [osInstall, OS.isInstalled, List.any_append, isInstalled_filter_ne _ _ _ hm]
    simp [hm']
  · simp [osInstall, OS.isInstalled]

/-! ## State predicates -/

/-- A service recorded Running has a live process with the recorded pid. -/
def Good (os : OS) (s : Svc) : Prop :=
  s.status = .running → ∃ p ∈ os.procs, p.svc = s.number ∧ s.pid = some p.pid
/-- A pid is recorded only together with Running. -/
def PidOk (s : Svc) : Prop := s.status ≠ .running → s.pid = none
/-- A removed service has no service definition left. -/
def RemOk (os : OS) (s : Svc) : Prop := s.status = .removed → os.isInstalled s.number = false

/-! ## Case descriptions of the one-service operations -/

theorem pop_calls (fx : Fx) : (fx.pop).2.calls = fx.calls + 1 := by
  unfold Fx.pop; split <;> rfl

/-- Translator tie: `on_start` writes pid/status only after its RPC calls (regenerated from node.rs). -/
theorem rpcErrSvc_eq (s : Svc) (pid : Nat) : rpcErrSvc s pid = s := by
  simp [rpcErrSvc, Gen.Lifecycle.onStartWritesAfterRpc]

/-- Translator tie: `on_stop` clears the pid (regenerated from node.rs). -/
theorem onStop_pid (s : Svc) : (onStop s).pid = none := by
  simp [onStop, Gen.Lifecycle.onStopClearsPid]

theorem onStartFull_cases (s : Svc) (os : OS) (fx : Fx) (pid : Nat) (ct : Bool) :
    (∃ e, (onStartFull s os fx pid ct).2.2 = some e ∧ (onStartFull s os fx pid ct).1 = s) ∨
    ((onStartFull s os fx pid ct).2.2 = none ∧ (onStartFull s os fx pid ct).1.number = s.number ∧
      (onStartFull s os fx pid ct).1.status = .running ∧ (onStartFull s os fx pid ct).1.pid = some pid) := by
  unfold onStartFull
  split
  split
  · left; exact ⟨_, rfl, rpcErrSvc_eq s pid⟩
  · split
    split
    · left; exact ⟨_, rfl, rpcErrSvc_eq s pid⟩
    · split
      split
      · left; exact ⟨_, rfl, rpcErrSvc_eq s pid⟩
      · split
        · right; exact ⟨rfl, rfl, rfl, rfl⟩
        · right; exact ⟨rfl, rfl, rfl, rfl⟩

theorem rpcCall_ok {os : OS} {rpc : Nat} {fx : Fx} {t : String} (h : (rpcCall os rpc fx t).2 = none) :
    ∃ o, os.rpcOwner rpc = some o := by
  unfold rpcCall at h
  split at h
  split at h
  · cases h
  · split at h
    · cases h
    · rename_i o ho; exact ⟨o, ho⟩

/-- What `on_start(pid, full_refresh = true)` records when all its RPC calls were answered: besides Running and the pid,
the peer id of the service whose process answers on the recorded RPC port, the number of peers that process reports
and (if it reports a listener) its port. -/
theorem onStartFull_ok_fields (s : Svc) (os : OS) (fx : Fx) (pid : Nat) (ct : Bool)
    (hok : (onStartFull s os fx pid ct).2.2 = none) :
    ∃ o, os.rpcOwner s.rpcPort = some o ∧ (onStartFull s os fx pid ct).1.peer = some o.svc ∧
      (onStartFull s os fx pid ct).1.peers = some (peersOf o.pid) ∧
      (onStartFull s os fx pid ct).1.lport = (if listenersEmpty o.pid then none else some o.port) := by
  unfold onStartFull at hok ⊢
  split at hok
  rename_i fx0 e0 heq0
  split at hok
  · cases hok
  · split at hok
    rename_i fx1 e1 heq1
    simp only [heq1]
    split at hok
    · cases hok
    · split at hok
      rename_i fx2 e2 heq2
      simp only [heq2]
      split at hok
      · cases hok
      · have h2 : (rpcCall os s.rpcPort fx1 "svc:RpcNodeInfoError").2 = none := by rw [heq2]
        obtain ⟨o, ho⟩ := rpcCall_ok h2
        refine ⟨o, ho, ?_⟩
        simp [ho]

/-- `start`: (A) already running, nothing happens; (B) failure, registry entry untouched, a process may have been
launched; (C) success, the entry records Running with the pid of the service's live process. -/
theorem svcStart_cases (s : Svc) (os : OS) (fx : Fx) (ct : Bool) :
    let out := svcStart s os fx ct
    (out.1 = s ∧ out.2.1 = os ∧ out.2.2.2.failed = false ∧ s.status = .running ∧ (os.lookup s.number).isSome) ∨
    (out.1 = s ∧ out.2.2.2.failed = true ∧ (out.2.1 = os ∨ osStart os s.number = some out.2.1)) ∨
    (out.2.2.2.failed = false ∧ osStart os s.number = some out.2.1 ∧ out.1.number = s.number ∧
      out.1.status = .running ∧ ∃ p, out.2.1.lookup s.number = some p ∧ out.1.pid = some p.pid) := by
  intro out
  show _ ∨ _ ∨ _
  unfold out svcStart
  split
  · rename_i h; left; exact ⟨rfl, rfl, rfl, h.1, h.2⟩
  · split
    split
    · right; left; exact ⟨rfl, rfl, Or.inl rfl⟩
    · split
      · right; left; exact ⟨rfl, rfl, Or.inl rfl⟩
      · rename_i os' hs
        split
        · right; left; exact ⟨rfl, rfl, Or.inr hs⟩
        · split
          · right; left; exact ⟨rfl, rfl, Or.inr hs⟩
          · rename_i p hp
            rcases onStartFull_cases s os' ‹Fx› p.pid ct with ⟨e, he, hs'⟩ | ⟨he, h1, h2, h3⟩
            · split
              rename_i s' fx' e' heq
              rw [heq] at he hs'
              simp only at he hs'
              subst he
              right; left
              exact ⟨hs', rfl, Or.inr hs⟩
            · split
              rename_i s' fx' e' heq
              rw [heq] at he h1 h2 h3
              simp only at he h1 h2 h3
              subst he
              right; right
              exact ⟨rfl, hs, h1, h2, p, hp, h3⟩

/-- Translator tie: after a failed `service_control.stop` the process is looked up again and a service whose process
has gone is recorded as stopped (regenerated from lib.rs). -/
theorem stopFailed_eq (s : Svc) (os : OS) :
    stopFailed s os = if (os.lookup s.number).isSome then s else onStop s := by
  simp [stopFailed, Gen.Lifecycle.stopFailChecksProcess]

/-- `stop`: (A) registry entry untouched, OS untouched (and then success means the service was not recorded Running);
(B) the entry was Running and is now Stopped without pid, and its process is gone (the operation may still have
reported a failure: `service_control.stop` killed the process and then returned an error). -/
theorem svcStop_cases (s : Svc) (os : OS) (fx : Fx) :
    let out := svcStop s os fx
    (out.1 = s ∧ out.2.1 = os ∧ (out.2.2.2.failed = false → s.status ≠ .running)) ∨
    (s.status = .running ∧ out.1 = onStop s ∧
      ((out.2.1 = os ∧ NoProc os s.number) ∨ osStop os s.number = some out.2.1)) := by
  intro out
  unfold out svcStop
  split
  · rename_i h; left; exact ⟨rfl, rfl, fun _ => by simp [h]⟩
  · rename_i h; left; exact ⟨rfl, rfl, fun _ => by simp [h]⟩
  · rename_i h; left; exact ⟨rfl, rfl, fun _ => by simp [h]⟩
  · rename_i h
    split
    · left; exact ⟨rfl, rfl, fun hf => by simp [Res.err] at hf⟩
    · split
      · rename_i hl
        right; exact ⟨h, rfl, Or.inl ⟨rfl, lookup_none hl⟩⟩
      · rename_i p hl
        have hkeep : stopFailed s os = s := by rw [stopFailed_eq]; simp [hl]
        split
        split
        · left; exact ⟨hkeep, rfl, fun hf => by simp [Res.err] at hf⟩
        · split
          · left; exact ⟨hkeep, rfl, fun hf => by simp [Res.err] at hf⟩
          · rename_i os' hs
            have hgone : stopFailed s os' = onStop s := by
              rw [stopFailed_eq]
              have := (noProc_iff_lookup _ _).mp (osStop_spec hs).2.2.2.1
              simp [this]
            split
            · right; exact ⟨h, hgone, Or.inr hs⟩
            · right; exact ⟨h, rfl, Or.inr hs⟩

/-- `remove`: (A) failure, registry entry unchanged, the OS unchanged or (the `uninstall` call removed the definition
and then reported failure) without the definition; (B) failure, the entry was Running without a process and is now
Stopped; (C) success: the entry was not Running, is now Removed, the definition is gone, processes untouched. -/
theorem svcRemove_cases (s : Svc) (os : OS) (fx : Fx) (keep : Bool) :
    let out := svcRemove s os fx keep
    (out.2.2.2.failed = true ∧ out.1 = s ∧ (out.2.1 = os ∨ osUninstall os s.number = some out.2.1)) ∨
    (out.2.2.2.failed = true ∧ s.status = .running ∧ NoProc os s.number ∧ out.1 = onStop s ∧ out.2.1 = os) ∨
    (out.2.2.2.failed = false ∧ s.status ≠ .running ∧ out.1 = { s with status := .removed } ∧
      out.2.1.procs = os.procs ∧ Frame s.number os out.2.1 ∧ out.2.1.isInstalled s.number = false) := by
  intro out
  show _ ∨ _ ∨ _
  unfold out svcRemove
  split
  · rename_i h
    split
    · left; exact ⟨rfl, rfl, Or.inl rfl⟩
    · rename_i hl
      right; left
      refine ⟨rfl, h, ?_, rfl, rfl⟩
      cases hl' : os.lookup s.number with
      | none => exact lookup_none hl'
      | some p => simp [hl'] at hl
  · rename_i h
    split
    split
    · left; exact ⟨rfl, rfl, Or.inl rfl⟩
    · split
      · rename_i hfa
        left
        refine ⟨rfl, rfl, Or.inr ?_⟩
        cases hu : osUninstall os s.number with
        | none => have := osUninstall_none hu; rw [hfa.2] at this; cases this
        | some os' => rfl
      · right; right
        refine ⟨rfl, h, rfl, ?_⟩
        cases hu : osUninstall os s.number with
        | none =>
          have hi := osUninstall_none hu
          cases keep
          · exact ⟨rfl, ⟨fun _ _ => Iff.rfl, fun _ _ => rfl⟩, hi⟩
          · exact ⟨rfl, Frame.refl _ _, hi⟩
        | some os' =>
          obtain ⟨hf, hp, _, hi⟩ := osUninstall_spec hu
          cases keep
          · exact ⟨hp, ⟨hf.procs, hf.inst⟩, hi⟩
          · exact ⟨hp, hf, hi⟩

/-! ## One-service transitions -/

/-- What an operation on registry entry `s` (result `s'`) and the OS guarantees. -/
structure Trans (s : Svc) (os : OS) (s' : Svc) (os' : OS) : Prop where
  num : s'.number = s.number
  frame : Frame s.number os os'
  pidOk : PidOk s → PidOk s'
  good : Good os s → Good os' s'
  remOk : RemOk os s → RemOk os' s'
  stay : s.status = .removed → RemOk os s → s'.status = .removed
  noProc : s.status = .removed → RemOk os s → NoProc os s.number → NoProc os' s.number

theorem Trans.refl (s : Svc) (os : OS) : Trans s os s os :=
  ⟨rfl, Frame.refl _ _, id, id, id, fun h _ => h, fun _ _ h => h⟩

theorem Trans.trans {a b c : Svc} {x y z : OS} (h1 : Trans a x b y) (h2 : Trans b y c z) : Trans a x c z where
  num := h2.num.trans h1.num
  frame := h1.frame.trans (h1.num ▸ h2.frame)
  pidOk := fun h => h2.pidOk (h1.pidOk h)
  good := fun h => h2.good (h1.good h)
  remOk := fun h => h2.remOk (h1.remOk h)
  stay := fun hs hr => h2.stay (h1.stay hs hr) (h1.remOk hr)
  noProc := fun hs hr hn => h1.num ▸ h2.noProc (h1.stay hs hr) (h1.remOk hr) (h1.num ▸ h1.noProc hs hr hn)

/-- Changing only the version field. -/
theorem Trans.setVersion {s s' : Svc} {os os' : OS} (h : Trans s os s' os') (v : Nat) :
    Trans s os { s' with version := v } os' :=
  ⟨h.num, h.frame, h.pidOk, h.good, h.remOk, h.stay, h.noProc⟩

theorem good_mono {os os' : OS} {s : Svc} (hm : ∀ p ∈ os.procs, p ∈ os'.procs) (h : Good os s) : Good os' s := by
  intro hr
  obtain ⟨p, hp, h1, h2⟩ := h hr
  exact ⟨p, hm p hp, h1, h2⟩

theorem good_frame {n : Nat} {os os' : OS} {s : Svc} (hf : Frame n os os') (hn : s.number ≠ n) (h : Good os s) :
    Good os' s := by
  intro hr
  obtain ⟨p, hp, h1, h2⟩ := h hr
  exact ⟨p, (hf.procs p (h1 ▸ hn)).mpr hp, h1, h2⟩

theorem remOk_frame {n : Nat} {os os' : OS} {s : Svc} (hf : Frame n os os') (hn : s.number ≠ n) (h : RemOk os s) :
    RemOk os' s := fun hr => (hf.inst _ hn).trans (h hr)

theorem noProc_frame {n m : Nat} {os os' : OS} (hf : Frame n os os') (hn : m ≠ n) (h : NoProc os m) :
    NoProc os' m := fun p hp hm => h p ((hf.procs p (hm ▸ hn)).mp hp) hm

theorem onStop_pidOk (s : Svc) : PidOk (onStop s) := fun _ => onStop_pid s
theorem onStop_good (os : OS) (s : Svc) : Good os (onStop s) := fun h => by simp [onStop] at h

theorem svcStart_trans (s : Svc) (os : OS) (fx : Fx) (ct : Bool) :
    Trans s os (svcStart s os fx ct).1 (svcStart s os fx ct).2.1 := by
  rcases svcStart_cases s os fx ct with ⟨h1, h2, _⟩ | ⟨h1, _, h3⟩ | ⟨_, hs, hn, hr, p, hp, hpid⟩
  · rw [h1, h2]; exact Trans.refl _ _
  · rw [h1]
    rcases h3 with h3 | h3
    · rw [h3]; exact Trans.refl _ _
    · obtain ⟨hf, _, _, _, hi, hmono, _⟩ := osStart_spec h3
      refine ⟨rfl, hf, id, good_mono hmono, ?_, fun h _ => h, ?_⟩
      · intro hro hrem; rw [hro hrem] at hi; cases hi
      · intro hrem hro _; rw [hro hrem] at hi; cases hi
  · obtain ⟨hf, _, _, _, hi, _, _⟩ := osStart_spec hs
    refine ⟨hn, hf, ?_, ?_, ?_, ?_, ?_⟩
    · intro _ hne; exact absurd hr hne
    · intro _ _
      obtain ⟨hpm, hps⟩ := lookup_some hp
      exact ⟨p, hpm, hps.trans hn.symm, hpid⟩
    · intro _ hrem; rw [hr] at hrem; cases hrem
    · intro hrem hro; rw [hro hrem] at hi; cases hi
    · intro hrem hro _; rw [hro hrem] at hi; cases hi

theorem svcStop_trans (s : Svc) (os : OS) (fx : Fx) :
    Trans s os (svcStop s os fx).1 (svcStop s os fx).2.1 := by
  rcases svcStop_cases s os fx with ⟨h1, h2, _⟩ | ⟨hr, h1, h3⟩
  · rw [h1, h2]; exact Trans.refl _ _
  · rw [h1]
    have hrem : s.status ≠ .removed := by rw [hr]; simp
    rcases h3 with ⟨h3, _⟩ | h3
    · rw [h3]
      exact ⟨rfl, Frame.refl _ _, fun _ => onStop_pidOk s, fun _ => onStop_good _ s,
        fun _ h => by simp [onStop] at h, fun h => absurd h hrem, fun h => absurd h hrem⟩
    · obtain ⟨hf, _, _, _, _⟩ := osStop_spec h3
      exact ⟨rfl, hf, fun _ => onStop_pidOk s, fun _ => onStop_good _ s,
        fun _ h => by simp [onStop] at h, fun h => absurd h hrem, fun h => absurd h hrem⟩

theorem osUninstall_some_installed {os os' : OS} {n : Nat} (h : osUninstall os n = some os') :
    os.isInstalled n = true := by
  unfold osUninstall at h
  split at h
  · cases h
  · rename_i hi; simpa using hi

/-- A step that leaves the registry entry and the process table alone. -/
theorem trans_osOnly {s : Svc} {os os' : OS} (hf : Frame s.number os os') (hp : os'.procs = os.procs)
    (hr : os'.isInstalled s.number = false ∨ os.isInstalled s.number = true) : Trans s os s os' := by
  refine ⟨rfl, hf, id, ?_, ?_, fun h _ => h, ?_⟩
  · intro hg hrun
    obtain ⟨p, hpm, h1, h2⟩ := hg hrun
    exact ⟨p, hp ▸ hpm, h1, h2⟩
  · intro hro hrem
    rcases hr with hr | hr
    · exact hr
    · rw [hro hrem] at hr; cases hr
  · intro _ _ hn p hpm; rw [hp] at hpm; exact hn p hpm

theorem svcRemove_trans (s : Svc) (os : OS) (fx : Fx) (keep : Bool) :
    Trans s os (svcRemove s os fx keep).1 (svcRemove s os fx keep).2.1 := by
  rcases svcRemove_cases s os fx keep with ⟨_, h1, h2⟩ | ⟨_, hr, _, h1, h2⟩ | ⟨_, hnr, h1, hp, hf, hi⟩
  · rw [h1]
    rcases h2 with h2 | h2
    · rw [h2]; exact Trans.refl _ _
    · obtain ⟨hf2, hp2, _, hi2⟩ := osUninstall_spec h2
      exact trans_osOnly hf2 hp2 (Or.inl hi2)
  · rw [h1, h2]
    have hrem : s.status ≠ .removed := by rw [hr]; simp
    exact ⟨rfl, Frame.refl _ _, fun _ => onStop_pidOk s, fun _ => onStop_good _ s,
      fun _ h => by simp [onStop] at h, fun h => absurd h hrem, fun h => absurd h hrem⟩
  · rw [h1]
    refine ⟨rfl, hf, ?_, ?_, fun _ _ => hi, fun _ _ => rfl, ?_⟩
    · intro hpo _; exact hpo hnr
    · intro _ h; simp at h
    · intro _ _ hn p hpm; rw [hp] at hpm; exact hn p hpm

theorem svcUpgrade_trans (s : Svc) (os : OS) (fx : Fx) (force start : Bool) (ver : Nat) (ct : Bool) :
    Trans s os (svcUpgrade s os fx force start ver ct).1 (svcUpgrade s os fx force start ver ct).2.1 := by
  unfold svcUpgrade
  split
  · exact Trans.refl _ _
  · have T1 := svcStop_trans s os fx
    split
    rename_i s1 os1 fx1 r1 heq
    rw [heq] at T1
    simp only at T1
    split
    · exact T1
    · split
      · exact T1
      · split
        split
        · exact T1
        · split
          · exact T1
          · rename_i os2 hu
            obtain ⟨hf2, hp2, _, hi2⟩ := osUninstall_spec hu
            have hinst := osUninstall_some_installed hu
            have T2 : Trans s1 os1 s1 os2 := trans_osOnly hf2 hp2 (Or.inl hi2)
            split
            · exact T1.trans T2
            · split
              split
              · exact T1.trans T2
              · obtain ⟨hf3, hp3, _, _⟩ := osInstall_spec os2 s1.number s1.nodePort s1.rpcPort
                have T3 : Trans s1 os1 s1 (osInstall os2 s1.number s1.nodePort s1.rpcPort) :=
                  trans_osOnly (hf2.trans hf3) (hp3.trans hp2) (Or.inr hinst)
                split
                · exact T1.trans T3
                · split
                  · have T4 := svcStart_trans s1 (osInstall os2 s1.number s1.nodePort s1.rpcPort) ‹Fx› ct
                    dsimp only
                    split
                    · exact ((T1.trans T3).trans T4).setVersion ver
                    · exact ((T1.trans T3).trans T4).setVersion ver
                  · exact (T1.trans T3).setVersion ver

/-! ## A failed operation never newly records Running -/

theorem svcStart_noNewRun (s : Svc) (os : OS) (fx : Fx) (ct : Bool)
    (hf : (svcStart s os fx ct).2.2.2.failed = true) (hr : (svcStart s os fx ct).1.status = .running) :
    s.status = .running := by
  rcases svcStart_cases s os fx ct with ⟨_, _, h, _⟩ | ⟨h1, _, _⟩ | ⟨h, _⟩
  · rw [hf] at h; cases h
  · rw [h1] at hr; exact hr
  · rw [hf] at h; cases h

theorem svcStop_noNewRun (s : Svc) (os : OS) (fx : Fx) (hr : (svcStop s os fx).1.status = .running) :
    s.status = .running := by
  rcases svcStop_cases s os fx with ⟨h1, _, _⟩ | ⟨h, _, _⟩
  · rw [h1] at hr; exact hr
  · exact h

theorem svcRemove_noNewRun (s : Svc) (os : OS) (fx : Fx) (keep : Bool)
    (hr : (svcRemove s os fx keep).1.status = .running) : s.status = .running := by
  rcases svcRemove_cases s os fx keep with ⟨_, h1, _⟩ | ⟨_, h, _⟩ | ⟨_, _, h1, _⟩
  · rw [h1] at hr; exact hr
  · exact h
  · rw [h1] at hr; simp at hr

def NoNewRunOut (s : Svc) (out : Svc × OS × Fx × Res) : Prop :=
  out.2.2.2.failed = true → out.1.status = .running → s.status = .running

theorem svcUpgrade_noNewRun' (s : Svc) (os : OS) (fx : Fx) (force start : Bool) (ver : Nat) (ct : Bool) :
    NoNewRunOut s (svcUpgrade s os fx force start ver ct) := by
  unfold svcUpgrade
  split
  · intro _ hr; exact hr
  · have N1 := svcStop_noNewRun s os fx
    split
    rename_i s1 os1 fx1 r1 heq
    rw [heq] at N1
    simp only at N1
    split
    · intro _ hr; exact N1 hr
    · split
      · intro _ hr; exact N1 hr
      · split
        split
        · intro _ hr; exact N1 hr
        · split
          · intro _ hr; exact N1 hr
          · split
            · intro _ hr; exact N1 hr
            · split
              split
              · intro _ hr; exact N1 hr
              · split
                · intro _ hr; exact N1 hr
                · split
                  · have N4 := svcStart_noNewRun s1 (osInstall ‹OS› s1.number s1.nodePort s1.rpcPort) ‹Fx› ct
                    dsimp only
                    split
                    · rename_i hfail
                      intro _ hr; exact N1 (N4 hfail hr)
                    · intro hf; simp [Res.ok] at hf
                  · intro hf; simp [Res.ok] at hf

theorem svcUpgrade_noNewRun (s : Svc) (os : OS) (fx : Fx) (force start : Bool) (ver : Nat) (ct : Bool)
    (hf : (svcUpgrade s os fx force start ver ct).2.2.2.failed = true)
    (hr : (svcUpgrade s os fx force start ver ct).1.status = .running) : s.status = .running :=
  svcUpgrade_noNewRun' s os fx force start ver ct hf hr

/-! ## Registry-level invariants -/

structure Inv (w : World) : Prop where
  nodup : (w.reg.map (·.number)).Nodup
  pid : ∀ s ∈ w.reg, PidOk s
  rem : ∀ s ∈ w.reg, RemOk w.os s

def AllGood (w : World) : Prop := ∀ s ∈ w.reg, Good w.os s

theorem map_number_set (reg : List Svc) (i : Nat) (s s' : Svc) (h : reg[i]? = some s) (hn : s'.number = s.number) :
    (reg.set i s').map (·.number) = reg.map (·.number) := by
  induction reg generalizing i with
  | nil => rfl
  | cons a r ih =>
    cases i with
    | zero => simp at h; subst h; simp [hn]
    | succ i => simp at h; simp [ih i h]

theorem nodup_index {reg : List Svc} (hn : (reg.map (·.number)).Nodup) {i j : Nat} {s t : Svc}
    (hi : reg[i]? = some s) (hj : reg[j]? = some t) (he : s.number = t.number) : i = j := by
  induction reg generalizing i j with
  | nil => simp at hi
  | cons a r ih =>
    simp only [List.map_cons, List.nodup_cons, List.mem_map, not_exists, not_and] at hn
    cases i with
    | zero =>
      cases j with
      | zero => rfl
      | succ j =>
        simp at hi hj; subst hi
        exact absurd he.symm (hn.1 t (List.mem_of_getElem? hj))
    | succ i =>
      cases j with
      | zero =>
        simp at hi hj; subst hj
        exact absurd he (hn.1 s (List.mem_of_getElem? hi))
      | succ j =>
        simp at hi hj
        rw [ih hn.2 hi hj]

theorem mem_set_cases {reg : List Svc} {i : Nat} {s' t : Svc} (h : t ∈ reg.set i s') :
    t = s' ∨ ∃ j, j ≠ i ∧ reg[j]? = some t := by
  obtain ⟨j, hj⟩ := List.mem_iff_getElem?.mp h
  rw [List.getElem?_set] at hj
  split at hj
  · split at hj
    · left; cases hj; rfl
    · cases hj
  · rename_i hne
    right; exact ⟨j, fun h => hne h.symm, hj⟩

/-- Lifting a one-service transition to the registry. -/
theorem set_inv {w : World} {i : Nat} {s s' : Svc} {os' : OS} (hget : w.reg[i]? = some s)
    (T : Trans s w.os s' os') (h : Inv w) : Inv ⟨w.reg.set i s', os'⟩ := by
  have hs : s ∈ w.reg := List.mem_of_getElem? hget
  refine ⟨?_, ?_, ?_⟩
  · show ((w.reg.set i s').map (·.number)).Nodup
    rw [map_number_set _ _ _ _ hget T.num]; exact h.nodup
  · intro t ht
    rcases mem_set_cases ht with rfl | ⟨j, _, hj⟩
    · exact T.pidOk (h.pid s hs)
    · exact h.pid t (List.mem_of_getElem? hj)
  · intro t ht
    rcases mem_set_cases ht with rfl | ⟨j, hji, hj⟩
    · exact T.remOk (h.rem s hs)
    · have hne : t.number ≠ s.number := fun he => hji (nodup_index h.nodup hj hget he)
      exact remOk_frame T.frame hne (h.rem t (List.mem_of_getElem? hj))

theorem set_good {w : World} {i : Nat} {s s' : Svc} {os' : OS} (hget : w.reg[i]? = some s)
    (T : Trans s w.os s' os') (h : Inv w) (hg : AllGood w) : AllGood ⟨w.reg.set i s', os'⟩ := by
  intro t ht
  rcases mem_set_cases ht with rfl | ⟨j, hji, hj⟩
  · exact T.good (hg s (List.mem_of_getElem? hget))
  · have hne : t.number ≠ s.number := fun he => hji (nodup_index h.nodup hj hget he)
    exact good_frame T.frame hne (hg t (List.mem_of_getElem? hj))

/-- Entry `i` is a removed service (number `n`) without a live process. -/
def RemovedAt (w : World) (i n : Nat) : Prop :=
  ∃ s, w.reg[i]? = some s ∧ s.number = n ∧ s.status = .removed ∧ NoProc w.os n

theorem set_removedAt {w : World} {i k n : Nat} {s s' : Svc} {os' : OS} (hget : w.reg[k]? = some s)
    (T : Trans s w.os s' os') (h : Inv w) (hr : RemovedAt w i n) : RemovedAt ⟨w.reg.set k s', os'⟩ i n := by
  obtain ⟨t, ht, htn, hts, hnp⟩ := hr
  have hklt : k < w.reg.length := by
    rcases Nat.lt_or_ge k w.reg.length with hlt | hge
    · exact hlt
    · rw [List.getElem?_eq_none hge] at hget; cases hget
  by_cases hik : k = i
  · subst hik
    rw [hget] at ht; cases ht
    refine ⟨s', ?_, T.num.trans htn, T.stay hts (h.rem s (List.mem_of_getElem? hget)), ?_⟩
    · simp [hklt]
    · exact htn ▸ T.noProc hts (h.rem s (List.mem_of_getElem? hget)) (htn ▸ hnp)
  · refine ⟨t, ?_, htn, hts, ?_⟩
    · show (w.reg.set k s')[i]? = some t
      rw [List.getElem?_set]; simp [hik, ht]
    · have hne : n ≠ s.number := fun he => hik (nodup_index h.nodup hget ht (he ▸ htn.symm ▸ rfl))
      exact noProc_frame T.frame hne hnp

/-! ## `add_node` -/

/-- Only the port counter / directory list changed. -/
def OsMinor (os os' : OS) : Prop := os'.procs = os.procs ∧ os'.installed = os.installed

theorem OsMinor.refl (os : OS) : OsMinor os os := ⟨rfl, rfl⟩
theorem OsMinor.trans {a b c : OS} (h1 : OsMinor a b) (h2 : OsMinor b c) : OsMinor a c :=
  ⟨h2.1.trans h1.1, h2.2.trans h1.2⟩

/-- Every recorded number is below `num`. -/
def Fresh (reg : List Svc) (num : Nat) : Prop := ∀ s ∈ reg, s.number < num

theorem allocPort_minor (w : World) (fx : Fx) :
    (allocPort w fx).2.1.reg = w.reg ∧ OsMinor w.os (allocPort w fx).2.1.os := by
  unfold allocPort
  split
  split
  · exact ⟨rfl, OsMinor.refl _⟩
  · split
    · exact ⟨rfl, rfl, rfl⟩
    · exact ⟨rfl, rfl, rfl⟩

theorem addPorts_minor (mp rp : Option Nat) (metrics : Bool) (w : World) (fx : Fx) :
    (addPorts mp rp metrics w fx).2.1.reg = w.reg ∧ OsMinor w.os (addPorts mp rp metrics w fx).2.1.os := by
  unfold addPorts
  split
  · rename_i w1 fx1 heq
    have hw1 : w1.reg = w.reg ∧ OsMinor w.os w1.os := by
      split at heq
      · cases heq <;> exact ⟨rfl, OsMinor.refl _⟩
      · have := allocPort_minor w fx
        rw [heq] at this; exact this
    exact hw1
  · rename_i rpcP w1 fx1 heq
    have hw1 : w1.reg = w.reg ∧ OsMinor w.os w1.os := by
      split at heq
      · cases heq <;> exact ⟨rfl, OsMinor.refl _⟩
      · have := allocPort_minor w fx
        rw [heq] at this; exact this
    split
    · exact hw1
    · split
      · have := allocPort_minor w1 fx1
        split
        · rename_i h3; rw [h3] at this
          exact ⟨this.1.trans hw1.1, hw1.2.trans this.2⟩
        · rename_i h3; rw [h3] at this
          exact ⟨this.1.trans hw1.1, hw1.2.trans this.2⟩
      · exact hw1

/-- One loop iteration either leaves the registry alone or appends one fresh `Added` entry numbered `num`. -/
theorem addOne_cases (num : Nat) (np mp rp : Option Nat) (metrics : Bool) (ver : Nat) (a : AddAcc) :
    let a' := addOne num np mp rp metrics ver a
    (a'.w.reg = a.w.reg ∧ OsMinor a.w.os a'.w.os) ∨
    (a'.w.reg = a.w.reg ∧ ∃ os1 rpc, OsMinor a.w.os os1 ∧ a'.w.os = osInstall os1 num np rpc) ∨
    (∃ new os1, new.number = num ∧ new.status = .added ∧ new.pid = none ∧ a'.w.reg = a.w.reg ++ [new] ∧
      OsMinor a.w.os os1 ∧ a'.w.os = osInstall os1 num np new.rpcPort) := by
  intro a'
  show _ ∨ _ ∨ _
  unfold a' addOne
  have hp := addPorts_minor mp rp metrics a.w a.fx
  split
  · rename_i w1 fx1 heq
    rw [heq] at hp
    left; exact hp
  · rename_i rpcP metP w1 fx1 heq
    rw [heq] at hp
    split
    · left; exact ⟨hp.1, hp.2.1, hp.2.2⟩
    · right; left
      exact ⟨hp.1, mkDir w1.os num, rpcP, ⟨hp.2.1, hp.2.2⟩, rfl⟩
    · right; right
      refine ⟨⟨num, .added, none, np, metP, rpcP, ver, none, none, none⟩, mkDir w1.os num, rfl, rfl, rfl, ?_, ⟨hp.2.1, hp.2.2⟩, rfl⟩
      have h1 : w1.reg = a.w.reg := hp.1
      simp [h1]

theorem inv_minor {reg : List Svc} {os os' : OS} (hm : OsMinor os os') (h : Inv ⟨reg, os⟩) : Inv ⟨reg, os'⟩ :=
  ⟨h.nodup, h.pid, fun s hs hr => by
    have := h.rem s hs hr
    simp only [OS.isInstalled, hm.2] at this ⊢
    exact this⟩

theorem good_minor {reg : List Svc} {os os' : OS} (hm : OsMinor os os') (h : AllGood ⟨reg, os⟩) : AllGood ⟨reg, os'⟩ :=
  fun s hs hr => by
    obtain ⟨p, hp, h1, h2⟩ := h s hs hr
    exact ⟨p, by show p ∈ os'.procs; rw [hm.1]; exact hp, h1, h2⟩

theorem removedAt_minor {reg : List Svc} {os os' : OS} {i n : Nat} (hm : OsMinor os os')
    (h : RemovedAt ⟨reg, os⟩ i n) : RemovedAt ⟨reg, os'⟩ i n := by
  obtain ⟨s, h1, h2, h3, h4⟩ := h
  exact ⟨s, h1, h2, h3, fun p hp => h4 p (by show p ∈ os.procs; rw [← hm.1]; exact hp)⟩

theorem frame_of_minor {os os' : OS} (n : Nat) (h : OsMinor os os') : Frame n os os' :=
  ⟨fun p _ => by rw [h.1], fun m _ => by simp [OS.isInstalled, h.2]⟩

/-- An OS change that concerns only a number above every recorded one leaves the invariants alone. -/
theorem inv_frame_fresh {reg : List Svc} {os os' : OS} {num : Nat} (hf : Fresh reg num) (hfr : Frame num os os')
    (hi : Inv ⟨reg, os⟩) :
    Inv ⟨reg, os'⟩ ∧ (AllGood ⟨reg, os⟩ → AllGood ⟨reg, os'⟩) ∧
    (∀ i n, RemovedAt ⟨reg, os⟩ i n → RemovedAt ⟨reg, os'⟩ i n) := by
  have hne : ∀ s ∈ reg, s.number ≠ num := fun s hs => Nat.ne_of_lt (hf s hs)
  refine ⟨⟨hi.nodup, hi.pid, fun s hs => remOk_frame hfr (hne s hs) (hi.rem s hs)⟩,
    fun hg s hs => good_frame hfr (hne s hs) (hg s hs), ?_⟩
  intro i n ⟨s, h1, h2, h3, h4⟩
  exact ⟨s, h1, h2, h3, noProc_frame hfr (h2 ▸ hne s (List.mem_of_getElem? h1)) h4⟩

/-- What `add_node` preserves, for one iteration. -/
theorem addOne_spec (num : Nat) (np mp rp : Option Nat) (metrics : Bool) (ver : Nat) (a : AddAcc)
    (hf : Fresh a.w.reg num) (hi : Inv a.w) :
    let a' := addOne num np mp rp metrics ver a
    Fresh a'.w.reg (num + 1) ∧ Inv a'.w ∧ (AllGood a.w → AllGood a'.w) ∧
    (∀ i n, RemovedAt a.w i n → RemovedAt a'.w i n) := by
  intro a'
  rcases addOne_cases num np mp rp metrics ver a with ⟨hr, hm⟩ | ⟨hr, os1, rpc, hm, hos⟩ |
    ⟨new, os1, hn, hst, hpid, hr, hm, hos⟩
  · have hw : a'.w = ⟨a.w.reg, a'.w.os⟩ := by
      show a'.w = ⟨a.w.reg, a'.w.os⟩
      rw [← hr]
    refine ⟨?_, ?_, ?_, ?_⟩
    · intro s hs; rw [show a'.w.reg = a.w.reg from hr] at hs; exact Nat.lt_succ_of_lt (hf s hs)
    · rw [hw]; exact inv_minor hm hi
    · intro hg; rw [hw]; exact good_minor hm hg
    · intro i n h; rw [hw]; exact removedAt_minor hm h
  · have hw : a'.w = ⟨a.w.reg, osInstall os1 num np rpc⟩ := by
      show a'.w = ⟨a.w.reg, osInstall os1 num np rpc⟩
      rw [← hr, ← hos]
    have hfr : Frame num a.w.os (osInstall os1 num np rpc) :=
      (frame_of_minor num hm).trans (osInstall_spec os1 num np rpc).1
    have := inv_frame_fresh hf hfr hi
    refine ⟨?_, ?_, ?_, ?_⟩
    · intro s hs; rw [show a'.w.reg = a.w.reg from hr] at hs; exact Nat.lt_succ_of_lt (hf s hs)
    · rw [hw]; exact this.1
    · rw [hw]; exact this.2.1
    · rw [hw]; exact this.2.2
  · have hw : a'.w = ⟨a.w.reg ++ [new], osInstall os1 num np new.rpcPort⟩ := by
      show a'.w = ⟨a.w.reg ++ [new], osInstall os1 num np new.rpcPort⟩
      rw [← hr, ← hos]
    obtain ⟨hfr, hpr, _, hinst⟩ := osInstall_spec os1 num np new.rpcPort
    have hi1 : Inv ⟨a.w.reg, os1⟩ := inv_minor hm hi
    refine ⟨?_, ?_, ?_, ?_⟩
    · intro s hs
      rw [hw] at hs
      simp only [List.mem_append, List.mem_singleton] at hs
      rcases hs with hs | rfl
      · exact Nat.lt_succ_of_lt (hf s hs)
      · rw [hn]; exact Nat.lt_succ_self _
    · rw [hw]
      refine ⟨?_, ?_, ?_⟩
      · show ((a.w.reg ++ [new]).map (·.number)).Nodup
        rw [List.map_append, List.nodup_append]
        refine ⟨hi.nodup, by simp, ?_⟩
        intro x hx y hy
        simp only [List.map_cons, List.map_nil, List.mem_singleton] at hy
        obtain ⟨s, hs, rfl⟩ := List.mem_map.mp hx
        rw [hy, hn]
        exact Nat.ne_of_lt (hf s hs)
      · intro s hs
        simp only [List.mem_append, List.mem_singleton] at hs
        rcases hs with hs | rfl
        · exact hi.pid s hs
        · intro _; exact hpid
      · intro s hs
        simp only [List.mem_append, List.mem_singleton] at hs
        rcases hs with hs | rfl
        · exact remOk_frame hfr (Nat.ne_of_lt (hf s hs)) (hi1.rem s hs)
        · intro h; rw [hst] at h; cases h
    · intro hg
      rw [hw]
      have hg1 : AllGood ⟨a.w.reg, os1⟩ := good_minor hm hg
      intro s hs
      simp only [List.mem_append, List.mem_singleton] at hs
      rcases hs with hs | rfl
      · intro hrun
        obtain ⟨p, hp, h1, h2⟩ := hg1 s hs hrun
        exact ⟨p, by show p ∈ (osInstall os1 num np new.rpcPort).procs; rw [hpr]; exact hp, h1, h2⟩
      · intro h; rw [hst] at h; cases h
    · intro i n h
      rw [hw]
      obtain ⟨s, h1, h2, h3, h4⟩ := removedAt_minor hm h
      refine ⟨s, ?_, h2, h3, ?_⟩
      · show (a.w.reg ++ [new])[i]? = some s
        have hlt : i < a.w.reg.length := by
          rcases Nat.lt_or_ge i a.w.reg.length with hlt | hge
          · exact hlt
          · rw [List.getElem?_eq_none hge] at h1; cases h1
        rw [List.getElem?_append_left hlt]; exact h1
      · intro p hp; exact h4 p (by rw [hpr] at hp; exact hp)

theorem addLoop_spec (k num : Nat) (np mp rp : Option Nat) (metrics : Bool) (ver : Nat) (a : AddAcc)
    (hf : Fresh a.w.reg num) (hi : Inv a.w) :
    let r := addLoop k num np mp rp metrics ver a
    Inv r.w ∧ (AllGood a.w → AllGood r.w) ∧ (∀ i n, RemovedAt a.w i n → RemovedAt r.w i n) := by
  induction k generalizing num np mp rp a with
  | zero => exact ⟨hi, id, fun _ _ h => h⟩
  | succ k ih =>
    obtain ⟨h1, h2, h3, h4⟩ := addOne_spec num np mp rp metrics ver a hf hi
    unfold addLoop
    dsimp only
    split
    · exact ⟨h2, h3, h4⟩
    · obtain ⟨g1, g2, g3⟩ := ih (num + 1) (np.map (· + 1)) (mp.map (· + 1)) (rp.map (· + 1)) _ h1 h2
      exact ⟨g1, fun h => g2 (h3 h), fun i n h => g3 i n (h4 i n h)⟩

theorem foldl_max_le (reg : List Svc) (m : Nat) :
    m ≤ reg.foldl (fun m s => max m s.number) m ∧ ∀ s ∈ reg, s.number ≤ reg.foldl (fun m s => max m s.number) m := by
  induction reg generalizing m with
  | nil => exact ⟨Nat.le_refl _, fun _ h => by cases h⟩
  | cons a r ih =>
    obtain ⟨h1, h2⟩ := ih (max m a.number)
    refine ⟨Nat.le_trans (Nat.le_max_left _ _) h1, ?_⟩
    intro s hs
    simp only [List.mem_cons] at hs
    rcases hs with rfl | hs
    · exact Nat.le_trans (Nat.le_max_right _ _) h1
    · exact h2 s hs

/-- Translator tie: new services are numbered from the highest recorded number (regenerated from add_node). -/
theorem startNumber_eq (reg : List Svc) : startNumber reg = maxNumber reg + 1 := by
  simp [startNumber, Gen.Lifecycle.numberFromMax]

theorem fresh_maxNumber (reg : List Svc) : Fresh reg (startNumber reg) := by
  rw [startNumber_eq]
  exact fun s hs => Nat.lt_succ_of_le ((foldl_max_le reg 0).2 s hs)

theorem addNode_spec (w : World) (fx : Fx) (file : List Svc) (count : Nat) (np mp rp : Option (Nat × Nat))
    (metrics : Bool) (ver : Nat) (hi : Inv w) :
    let r := addNode w fx file count np mp rp metrics ver
    Inv r.1 ∧ (AllGood w → AllGood r.1) ∧ (∀ i n, RemovedAt w i n → RemovedAt r.1 i n) := by
  intro r
  unfold r addNode
  dsimp only
  split
  · exact ⟨hi, id, fun _ _ h => h⟩
  · split
    · exact ⟨hi, id, fun _ _ h => h⟩
    · split
      · exact ⟨hi, id, fun _ _ h => h⟩
      · have := addLoop_spec count (startNumber w.reg) (np.map (·.1)) (mp.map (·.1)) (rp.map (·.1)) metrics ver
          ⟨w, fx, [], [], false, file⟩ (fresh_maxNumber w.reg) hi
        split
        · exact this
        · split
          · exact this
          · exact this

/-! ## Every operation preserves the invariants -/

theorem onSvc_spec (w : World) (i : Nat) (faults : List Fault) (f : Svc → OS → Fx → Svc × OS × Fx × Res)
    (hT : ∀ s os fx, Trans s os (f s os fx).1 (f s os fx).2.1) (hi : Inv w) :
    Inv (onSvc w i faults f).1 ∧ (AllGood w → AllGood (onSvc w i faults f).1) ∧
    (∀ k n, RemovedAt w k n → RemovedAt (onSvc w i faults f).1 k n) := by
  unfold onSvc
  split
  · exact ⟨hi, id, fun _ _ h => h⟩
  · rename_i s hget
    have T := hT s w.os ⟨faults, 0⟩
    split
    rename_i s' os' fx' r heq
    rw [heq] at T
    exact ⟨set_inv hget T hi, set_good hget T hi, fun k n h => set_removedAt hget T hi h⟩

theorem svcRefresh_number (os : OS) (s : Svc) : (svcRefresh os s).number = s.number := by
  unfold svcRefresh; split
  · rfl
  · split <;> rfl

theorem refresh_spec (w : World) (hi : Inv w) :
    Inv ⟨w.reg.map (svcRefresh w.os), w.os⟩ ∧ AllGood ⟨w.reg.map (svcRefresh w.os), w.os⟩ ∧
    (∀ k n, RemovedAt w k n → RemovedAt ⟨w.reg.map (svcRefresh w.os), w.os⟩ k n) := by
  refine ⟨⟨?_, ?_, ?_⟩, ?_, ?_⟩
  · show ((w.reg.map (svcRefresh w.os)).map (·.number)).Nodup
    rw [List.map_map]
    have : ((fun s : Svc => s.number) ∘ svcRefresh w.os) = (fun s => s.number) := by
      funext s; exact svcRefresh_number _ _
    rw [this]; exact hi.nodup
  · intro t ht
    obtain ⟨s, hs, rfl⟩ := List.mem_map.mp ht
    unfold svcRefresh
    split
    · intro h; simp at h
    · split
      · exact hi.pid s hs
      · exact hi.pid s hs
      · exact onStop_pidOk s
  · intro t ht
    obtain ⟨s, hs, rfl⟩ := List.mem_map.mp ht
    have := hi.rem s hs
    unfold svcRefresh
    split
    · intro h; simp at h
    · split
      · exact this
      · exact this
      · intro h; simp [onStop] at h
  · intro t ht
    obtain ⟨s, hs, rfl⟩ := List.mem_map.mp ht
    unfold svcRefresh
    split
    · rename_i p hp
      intro _
      exact ⟨p, (lookup_some hp).1, (lookup_some hp).2, rfl⟩
    · split
      · rename_i h; intro hr; rw [h] at hr; cases hr
      · rename_i h; intro hr; rw [h] at hr; cases hr
      · exact onStop_good _ s
  · intro k n ⟨s, h1, h2, h3, h4⟩
    refine ⟨s, ?_, h2, h3, h4⟩
    show (w.reg.map (svcRefresh w.os))[k]? = some s
    rw [List.getElem?_map, h1]
    have hl : w.os.lookup s.number = none := (noProc_iff_lookup _ _).mp (h2 ▸ h4)
    simp [svcRefresh, hl, h3]

/-! ### Full refresh and outside restarts -/

theorem isInstalled_congr' {os os' : OS} (h : os'.installed = os.installed) (n : Nat) :
    os'.isInstalled n = os.isInstalled n := by
  simp [OS.isInstalled, h]

theorem svcRefresh_pidOk (os : OS) (s : Svc) (h : PidOk s) : PidOk (svcRefresh os s) := by
  unfold svcRefresh
  split
  · intro h; simp at h
  · split
    · exact h
    · exact h
    · exact onStop_pidOk s

theorem svcRefresh_remOk (os : OS) (s : Svc) (h : RemOk os s) : RemOk os (svcRefresh os s) := by
  unfold svcRefresh
  split
  · intro h; simp at h
  · split
    · exact h
    · exact h
    · intro h; simp [onStop] at h

theorem svcRefresh_good (os : OS) (s : Svc) : Good os (svcRefresh os s) := by
  unfold svcRefresh
  split
  · rename_i p hp
    intro _
    exact ⟨p, (lookup_some hp).1, (lookup_some hp).2, rfl⟩
  · split
    · rename_i h; intro hr; rw [h] at hr; cases hr
    · rename_i h; intro hr; rw [h] at hr; cases hr
    · exact onStop_good _ s

/-- Without a process, a refreshed entry is never Running. -/
theorem svcRefresh_dead_not_running (os : OS) (s : Svc) (hl : os.lookup s.number = none)
    (hr : (svcRefresh os s).status = .running) : s.status = .running := by
  unfold svcRefresh at hr
  rw [hl] at hr
  dsimp only at hr
  split at hr
  · exact hr
  · exact hr
  · simp [onStop] at hr

/-- What a refresh (partial or full) makes of an entry it visits: without a process as in the partial refresh, with a
live process `Running` with the pid the OS reports. -/
def Refreshed (os : OS) (s s' : Svc) : Prop :=
  (os.lookup s.number = none ∧ s' = svcRefresh os s) ∨
  (∃ p, os.lookup s.number = some p ∧ s'.number = s.number ∧ s'.status = .running ∧ s'.pid = some p.pid)

/-- How the full refresh treats an entry: untouched (the failing one and those after it), or refreshed. -/
def RefRel (os : OS) (s s' : Svc) : Prop := s' = s ∨ Refreshed os s s'

/-- Entry by entry: related by `RefRel`; if the full refresh went through, every entry was refreshed. -/
theorem refreshFull_get (os : OS) (reg : List Svc) (fx : Fx) (k : Nat) :
    ((refreshFull os reg fx).1[k]? = none ∧ reg[k]? = none) ∨
    ∃ s s', reg[k]? = some s ∧ (refreshFull os reg fx).1[k]? = some s' ∧ RefRel os s s' ∧
      ((refreshFull os reg fx).2.2 = none → Refreshed os s s') := by
  induction reg generalizing k fx with
  | nil => left; simp [refreshFull]
  | cons s r ih =>
    unfold refreshFull
    split
    · rename_i p hp
      have hc := onStartFull_cases s os fx p.pid false
      split
      · rename_i s' fx' e heq
        rw [heq] at hc
        simp only at hc
        have hs' : s' = s := by
          rcases hc with ⟨_, _, h⟩ | ⟨h, _⟩
          · exact h
          · cases h
        cases k with
        | zero => right; exact ⟨s, s', rfl, rfl, Or.inl hs', fun h => by cases h⟩
        | succ k =>
          cases h : r[k]? with
          | none => left; simp [h]
          | some t => right; exact ⟨t, t, by simp [h], by simp [h], Or.inl rfl, fun h => by cases h⟩
      · rename_i s' fx' heq
        rw [heq] at hc
        simp only at hc
        have hs' : Refreshed os s s' := by
          rcases hc with ⟨e, h, _⟩ | ⟨_, h1, h2, h3⟩
          · cases h
          · exact Or.inr ⟨p, hp, h1, h2, h3⟩
        split
        rename_i r' fx'' e heq2
        have ih' := fun k => ih (k := k) (fx := fx')
        rw [heq2] at ih'
        cases k with
        | zero => right; exact ⟨s, s', rfl, rfl, Or.inr hs', fun _ => hs'⟩
        | succ k => simpa using ih' k
    · rename_i hl
      split
      rename_i r' fx' e heq
      have ih' := fun k => ih (k := k) (fx := fx)
      rw [heq] at ih'
      cases k with
      | zero => right; exact ⟨s, svcRefresh os s, rfl, rfl, Or.inr (Or.inl ⟨hl, rfl⟩), fun _ => Or.inl ⟨hl, rfl⟩⟩
      | succ k => simpa using ih' k

theorem refreshed_number {os : OS} {s s' : Svc} (h : Refreshed os s s') : s'.number = s.number := by
  rcases h with ⟨_, rfl⟩ | ⟨_, _, h, _⟩
  · exact svcRefresh_number _ _
  · exact h

theorem refRel_number {os : OS} {s s' : Svc} (h : RefRel os s s') : s'.number = s.number := by
  rcases h with rfl | h
  · rfl
  · exact refreshed_number h

theorem refreshFull_numbers (os : OS) (reg : List Svc) (fx : Fx) :
    (refreshFull os reg fx).1.map (·.number) = reg.map (·.number) := by
  apply List.ext_getElem?
  intro k
  simp only [List.getElem?_map]
  rcases refreshFull_get os reg fx k with ⟨h1, h2⟩ | ⟨s, s', h1, h2, h3, _⟩
  · rw [h1, h2]
  · rw [h1, h2]; simp [refRel_number h3]

theorem refreshFull_mem {os : OS} {reg : List Svc} {fx : Fx} {s' : Svc} (h : s' ∈ (refreshFull os reg fx).1) :
    ∃ s ∈ reg, RefRel os s s' ∧ ((refreshFull os reg fx).2.2 = none → Refreshed os s s') := by
  obtain ⟨k, hk⟩ := List.mem_iff_getElem?.mp h
  rcases refreshFull_get os reg fx k with ⟨h1, _⟩ | ⟨s, t, h1, h2, h3, h4⟩
  · rw [h1] at hk; cases hk
  · rw [h2] at hk; cases hk
    exact ⟨s, List.mem_of_getElem? h1, h3, h4⟩

theorem refreshed_pidOk {os : OS} {s s' : Svc} (h : Refreshed os s s') (hp : PidOk s) : PidOk s' := by
  rcases h with ⟨_, rfl⟩ | ⟨_, _, _, h, _⟩
  · exact svcRefresh_pidOk _ _ hp
  · exact fun hne => absurd h hne

theorem refreshed_remOk {os : OS} {s s' : Svc} (h : Refreshed os s s') (hp : RemOk os s) : RemOk os s' := by
  rcases h with ⟨_, rfl⟩ | ⟨_, _, _, h, _⟩
  · exact svcRefresh_remOk _ _ hp
  · intro hrem; rw [h] at hrem; cases hrem

/-- A refreshed entry recorded Running has a live process with the recorded pid — whatever it recorded before. -/
theorem refreshed_good {os : OS} {s s' : Svc} (h : Refreshed os s s') : Good os s' := by
  rcases h with ⟨_, rfl⟩ | ⟨p, hp, h1, _, h3⟩
  · exact svcRefresh_good _ _
  · intro _
    exact ⟨p, (lookup_some hp).1, (lookup_some hp).2.trans h1.symm, h3⟩

/-- A refreshed entry recorded Running carries exactly the pid the OS reports for its binary. -/
theorem refreshed_os_pid {os : OS} {s s' : Svc} (h : Refreshed os s s') (hr : s'.status = .running) :
    ∃ p, os.lookup s'.number = some p ∧ s'.pid = some p.pid := by
  rcases h with ⟨hl, rfl⟩ | ⟨p, hp, h1, _, h3⟩
  · rw [svcRefresh_number]
    unfold svcRefresh at hr ⊢
    rw [hl] at hr ⊢
    dsimp only at hr ⊢
    split at hr
    · rename_i h; rw [h] at hr; cases hr
    · rename_i h; rw [h] at hr; cases hr
    · simp [onStop] at hr
  · exact ⟨p, h1 ▸ hp, h3⟩

/-- A refreshed entry that is not recorded Running has no live process (no orphan). -/
theorem refreshed_noOrphan {os : OS} {s s' : Svc} (h : Refreshed os s s') (hnr : s'.status ≠ .running) :
    NoProc os s'.number := by
  rcases h with ⟨hl, rfl⟩ | ⟨_, _, _, h2, _⟩
  · rw [svcRefresh_number]; exact lookup_none hl
  · exact absurd h2 hnr

theorem refreshFull_spec (w : World) (fx : Fx) (hi : Inv w) :
    Inv ⟨(refreshFull w.os w.reg fx).1, w.os⟩ ∧ (AllGood w → AllGood ⟨(refreshFull w.os w.reg fx).1, w.os⟩) ∧
    (∀ k n, RemovedAt w k n → RemovedAt ⟨(refreshFull w.os w.reg fx).1, w.os⟩ k n) := by
  refine ⟨⟨?_, ?_, ?_⟩, ?_, ?_⟩
  · show ((refreshFull w.os w.reg fx).1.map (·.number)).Nodup
    rw [refreshFull_numbers]; exact hi.nodup
  · intro t ht
    obtain ⟨s, hs, h, _⟩ := refreshFull_mem ht
    rcases h with rfl | h
    · exact hi.pid _ hs
    · exact refreshed_pidOk h (hi.pid s hs)
  · intro t ht
    obtain ⟨s, hs, h, _⟩ := refreshFull_mem ht
    rcases h with rfl | h
    · exact hi.rem _ hs
    · exact refreshed_remOk h (hi.rem s hs)
  · intro hg t ht
    obtain ⟨s, hs, h, _⟩ := refreshFull_mem ht
    rcases h with rfl | h
    · exact hg _ hs
    · exact refreshed_good h
  · intro k n ⟨s, h1, h2, h3, h4⟩
    rcases refreshFull_get w.os w.reg fx k with ⟨_, h6⟩ | ⟨s0, s', g1, g2, g3, _⟩
    · rw [h6] at h1; cases h1
    · rw [h1] at g1; cases g1
      refine ⟨s', g2, (refRel_number g3).trans h2, ?_, h4⟩
      have hl : w.os.lookup s.number = none := (noProc_iff_lookup _ _).mp (h2 ▸ h4)
      rcases g3 with rfl | ⟨_, rfl⟩ | ⟨p, hp, _⟩
      · exact h3
      · simp [svcRefresh, hl, h3]
      · rw [hl] at hp; cases hp

/-- A full refresh that went through re-establishes the clause for every entry, from any state. -/
theorem refreshFull_ok_good (os : OS) (reg : List Svc) (fx : Fx) (hok : (refreshFull os reg fx).2.2 = none) :
    AllGood ⟨(refreshFull os reg fx).1, os⟩ := by
  intro t ht
  obtain ⟨s, _, _, h⟩ := refreshFull_mem ht
  exact refreshed_good (h hok)

theorem osRestart_installed (os : OS) (n : Nat) : (osRestart os n).installed = os.installed := by
  unfold osRestart; split <;> rfl

theorem osRestart_noProc {os : OS} {n m : Nat} (h : NoProc os n) : NoProc (osRestart os m) n := by
  unfold osRestart
  split
  · exact h
  · rename_i p hp
    intro q hq
    simp only [List.mem_append, List.mem_filter, List.mem_singleton] at hq
    rcases hq with ⟨hq, _⟩ | rfl
    · exact h q hq
    · intro hmn
      simp only at hmn
      subst hmn
      exact h p (lookup_some hp).1 (lookup_some hp).2

/-! ## Only `add_node` creates service definitions for new numbers -/

/-- Every service definition present afterwards was present before. -/
def InstSub (os os' : OS) : Prop := ∀ m, os'.isInstalled m = true → os.isInstalled m = true

theorem InstSub.refl (os : OS) : InstSub os os := fun _ h => h
theorem InstSub.trans {a b c : OS} (h1 : InstSub a b) (h2 : InstSub b c) : InstSub a c := fun m h => h1 m (h2 m h)
theorem InstSub.of_eq {os os' : OS} (h : os'.installed = os.installed) : InstSub os os' :=
  fun m hm => by rw [isInstalled_congr' h m] at hm; exact hm

theorem svcStart_instSub (s : Svc) (os : OS) (fx : Fx) (ct : Bool) : InstSub os (svcStart s os fx ct).2.1 := by
  rcases svcStart_cases s os fx ct with ⟨_, h2, _⟩ | ⟨_, _, h3⟩ | ⟨_, hs, _⟩
  · rw [h2]; exact InstSub.refl _
  · rcases h3 with h3 | h3
    · rw [h3]; exact InstSub.refl _
    · exact InstSub.of_eq (osStart_spec h3).2.1
  · exact InstSub.of_eq (osStart_spec hs).2.1

theorem svcStop_instSub (s : Svc) (os : OS) (fx : Fx) : InstSub os (svcStop s os fx).2.1 := by
  rcases svcStop_cases s os fx with ⟨_, h2, _⟩ | ⟨_, _, h3⟩
  · rw [h2]; exact InstSub.refl _
  · rcases h3 with ⟨h3, _⟩ | h3
    · rw [h3]; exact InstSub.refl _
    · exact InstSub.of_eq (osStop_spec h3).2.1

theorem instSub_of_frame_false {n : Nat} {os os' : OS} (hf : Frame n os os') (hi : os'.isInstalled n = false) :
    InstSub os os' := by
  intro m hm
  by_cases hmn : m = n
  · subst hmn; rw [hi] at hm; cases hm
  · rw [hf.inst m hmn] at hm; exact hm

theorem svcRemove_instSub (s : Svc) (os : OS) (fx : Fx) (keep : Bool) : InstSub os (svcRemove s os fx keep).2.1 := by
  rcases svcRemove_cases s os fx keep with ⟨_, _, h2⟩ | ⟨_, _, _, _, h2⟩ | ⟨_, _, _, _, hf, hi⟩
  · rcases h2 with h2 | h2
    · rw [h2]; exact InstSub.refl _
    · obtain ⟨hf2, _, _, hi2⟩ := osUninstall_spec h2
      exact instSub_of_frame_false hf2 hi2
  · rw [h2]; exact InstSub.refl _
  · exact instSub_of_frame_false hf hi

theorem svcStop_number (s : Svc) (os : OS) (fx : Fx) : (svcStop s os fx).1.number = s.number :=
  (svcStop_trans s os fx).num

theorem svcUpgrade_instSub (s : Svc) (os : OS) (fx : Fx) (force start : Bool) (ver : Nat) (ct : Bool) :
    InstSub os (svcUpgrade s os fx force start ver ct).2.1 := by
  unfold svcUpgrade
  split
  · exact InstSub.refl _
  · have T1 := svcStop_instSub s os fx
    split
    rename_i s1 os1 fx1 r1 heq
    rw [heq] at T1
    simp only at T1
    split
    · exact T1
    · split
      · exact T1
      · split
        split
        · exact T1
        · split
          · exact T1
          · rename_i os2 hu
            obtain ⟨hf2, _, _, hi2⟩ := osUninstall_spec hu
            have hinst := osUninstall_some_installed hu
            have T2 : InstSub os1 os2 := instSub_of_frame_false hf2 hi2
            split
            · exact T1.trans T2
            · split
              split
              · exact T1.trans T2
              · obtain ⟨hf3, _, _, _⟩ := osInstall_spec os2 s1.number s1.nodePort s1.rpcPort
                have T3 : InstSub os1 (osInstall os2 s1.number s1.nodePort s1.rpcPort) := by
                  intro m hm
                  by_cases hmn : m = s1.number
                  · subst hmn; exact hinst
                  · rw [hf3.inst m hmn, hf2.inst m hmn] at hm; exact hm
                split
                · exact T1.trans T3
                · split
                  · have T4 := svcStart_instSub s1 (osInstall os2 s1.number s1.nodePort s1.rpcPort) ‹Fx› ct
                    dsimp only
                    split
                    · exact (T1.trans T3).trans T4
                    · exact (T1.trans T3).trans T4
                  · exact T1.trans T3

/-! ### The daemon's restart (`restart_node_service`) -/

/-- `retain_peer_id = true`: stop, uninstall, reinstall, start — the same shape as `upgrade`. -/
theorem svcRestartRetain_trans (s : Svc) (os : OS) (fx : Fx) :
    Trans s os (svcRestartRetain s os fx).1 (svcRestartRetain s os fx).2.1 := by
  unfold svcRestartRetain
  have T1 := svcStop_trans s os fx
  split
  rename_i s1 os1 fx1 r1 heq
  rw [heq] at T1
  simp only at T1
  split
  · exact T1
  · split
    split
    · exact T1
    · split
      · exact T1
      · rename_i os2 hu
        obtain ⟨hf2, hp2, _, hi2⟩ := osUninstall_spec hu
        have hinst := osUninstall_some_installed hu
        have T2 : Trans s1 os1 s1 os2 := trans_osOnly hf2 hp2 (Or.inl hi2)
        split
        · exact T1.trans T2
        · split
          split
          · exact T1.trans T2
          · obtain ⟨hf3, hp3, _, _⟩ := osInstall_spec os2 s1.number s.lport s1.rpcPort
            have T3 : Trans s1 os1 s1 (osInstall os2 s1.number s.lport s1.rpcPort) :=
              trans_osOnly (hf2.trans hf3) (hp3.trans hp2) (Or.inr hinst)
            split
            · exact T1.trans T3
            · exact (T1.trans T3).trans (svcStart_trans s1 _ _ false)

theorem svcRestartRetain_noNewRun (s : Svc) (os : OS) (fx : Fx) :
    NoNewRunOut s (svcRestartRetain s os fx) := by
  unfold svcRestartRetain
  have N1 := svcStop_noNewRun s os fx
  split
  rename_i s1 os1 fx1 r1 heq
  rw [heq] at N1
  simp only at N1
  split
  · intro _ hr; exact N1 hr
  · split
    split
    · intro _ hr; exact N1 hr
    · split
      · intro _ hr; exact N1 hr
      · split
        · intro _ hr; exact N1 hr
        · split
          split
          · intro _ hr; exact N1 hr
          · split
            · intro _ hr; exact N1 hr
            · intro hf hr; exact N1 (svcStart_noNewRun s1 _ _ false hf hr)

theorem svcRestartRetain_instSub (s : Svc) (os : OS) (fx : Fx) : InstSub os (svcRestartRetain s os fx).2.1 := by
  unfold svcRestartRetain
  have T1 := svcStop_instSub s os fx
  split
  rename_i s1 os1 fx1 r1 heq
  rw [heq] at T1
  simp only at T1
  split
  · exact T1
  · split
    split
    · exact T1
    · split
      · exact T1
      · rename_i os2 hu
        obtain ⟨hf2, _, _, hi2⟩ := osUninstall_spec hu
        have hinst := osUninstall_some_installed hu
        have T2 : InstSub os1 os2 := instSub_of_frame_false hf2 hi2
        split
        · exact T1.trans T2
        · split
          split
          · exact T1.trans T2
          · obtain ⟨hf3, _, _, _⟩ := osInstall_spec os2 s1.number s.lport s1.rpcPort
            have T3 : InstSub os1 (osInstall os2 s1.number s.lport s1.rpcPort) := by
              intro m hm
              by_cases hmn : m = s1.number
              · subst hmn; exact hinst
              · rw [hf3.inst m hmn, hf2.inst m hmn] at hm; exact hm
            split
            · exact T1.trans T3
            · exact (T1.trans T3).trans (svcStart_instSub s1 _ _ false)

theorem mkDir_minor (os : OS) (num : Nat) : OsMinor os (mkDir os num) := ⟨rfl, rfl⟩

/-- Translator tie: the replacement service is numbered from the highest recorded number (regenerated from rpc.rs). -/
theorem restartNumber_eq (reg : List Svc) : restartNumber reg = maxNumber reg + 1 := by
  simp [restartNumber, maxNumber, Gen.Lifecycle.restartNumberFromMax]

theorem fresh_restartNumber (reg : List Svc) : Fresh reg (restartNumber reg) := by
  rw [restartNumber_eq]
  exact fun s hs => Nat.lt_succ_of_le ((foldl_max_le reg 0).2 s hs)

/-- The new-service branch: (A) the install failed: nothing recorded; a directory was created and — if the `install`
call wrote the definition before reporting failure — an unrecorded definition numbered `num` exists; (B) an entry
numbered `num` is recorded: the outcome of `start` on a fresh `Added` entry over the OS with the new definition.
Translator tie: a replacement whose first start failed is recorded too (regenerated from rpc.rs). -/
theorem restartFresh_cases (num : Nat) (s1 : Svc) (os : OS) (fx : Fx) :
    let out := restartFresh num s1 os fx
    (out.1 = none ∧ out.2.2.2.failed = true ∧
      (OsMinor os out.2.1 ∨ (fx.pop.1 = .failAfter ∧ out.2.1 = osInstall (mkDir os num) num none s1.rpcPort))) ∨
    (∃ node0 node, node0.number = num ∧ node0.status = .added ∧ node0.pid = none ∧ out.1 = some node ∧
      Trans node0 (osInstall (mkDir os num) num none s1.rpcPort) node out.2.1 ∧
      InstSub (osInstall (mkDir os num) num none s1.rpcPort) out.2.1 ∧
      (out.2.2.2.failed = true → node.status = .running → False)) := by
  intro out
  unfold out restartFresh
  dsimp only
  split
  · left; exact ⟨rfl, rfl, Or.inl (mkDir_minor os num)⟩
  · split
    · rename_i hfa
      left; exact ⟨rfl, rfl, Or.inr ⟨hfa, rfl⟩⟩
    · right
      have T := svcStart_trans ⟨num, .added, none, none, none, s1.rpcPort, s1.version, none, none, none⟩
        (osInstall (mkDir os num) num none s1.rpcPort) fx.pop.2 false
      have I := svcStart_instSub ⟨num, .added, none, none, none, s1.rpcPort, s1.version, none, none, none⟩
        (osInstall (mkDir os num) num none s1.rpcPort) fx.pop.2 false
      have N := svcStart_noNewRun ⟨num, .added, none, none, none, s1.rpcPort, s1.version, none, none, none⟩
        (osInstall (mkDir os num) num none s1.rpcPort) fx.pop.2 false
      split
      · rename_i hfail
        refine ⟨_, _, rfl, rfl, rfl, by simp [Gen.Lifecycle.restartRecordsFailedStart], T, I, ?_⟩
        intro _ hr
        have := N hfail hr
        cases this
      · rename_i hok
        refine ⟨_, _, rfl, rfl, rfl, rfl, T, I, ?_⟩
        intro hf; exact absurd hf hok

/-- Appending the outcome of an operation on a fresh `Added` entry (number `num`, above every recorded number) whose
definition was just installed. -/
theorem append_spec {reg : List Svc} {os os1 os' : OS} {num : Nat} {node0 node : Svc} {port : Option Nat} {rpc : Nat}
    (hf : Fresh reg num) (hi : Inv ⟨reg, os⟩) (hm : OsMinor os os1)
    (hn0 : node0.number = num) (hst : node0.status = .added) (hpid : node0.pid = none)
    (T : Trans node0 (osInstall os1 num port rpc) node os') :
    Inv ⟨reg ++ [node], os'⟩ ∧ (AllGood ⟨reg, os⟩ → AllGood ⟨reg ++ [node], os'⟩) ∧
    (∀ i n, RemovedAt ⟨reg, os⟩ i n → RemovedAt ⟨reg ++ [node], os'⟩ i n) := by
  have hnum : node.number = num := T.num.trans hn0
  have hfr : Frame num os os' :=
    ((frame_of_minor num hm).trans (osInstall_spec os1 num port rpc).1).trans (hn0 ▸ T.frame)
  have hne : ∀ s ∈ reg, s.number ≠ num := fun s hs => Nat.ne_of_lt (hf s hs)
  refine ⟨⟨?_, ?_, ?_⟩, ?_, ?_⟩
  · show ((reg ++ [node]).map (·.number)).Nodup
    rw [List.map_append, List.nodup_append]
    refine ⟨hi.nodup, by simp, ?_⟩
    intro x hx y hy
    simp only [List.map_cons, List.map_nil, List.mem_singleton] at hy
    obtain ⟨s, hs, rfl⟩ := List.mem_map.mp hx
    rw [hy, hnum]
    exact hne s hs
  · intro s hs
    simp only [List.mem_append, List.mem_singleton] at hs
    rcases hs with hs | rfl
    · exact hi.pid s hs
    · exact T.pidOk (fun _ => hpid)
  · intro s hs
    simp only [List.mem_append, List.mem_singleton] at hs
    rcases hs with hs | rfl
    · exact remOk_frame hfr (hne s hs) (hi.rem s hs)
    · exact T.remOk (fun h => by rw [hst] at h; cases h)
  · intro hg s hs
    simp only [List.mem_append, List.mem_singleton] at hs
    rcases hs with hs | rfl
    · exact good_frame hfr (hne s hs) (hg s hs)
    · exact T.good (fun h => by rw [hst] at h; cases h)
  · intro i n ⟨s, h1, h2, h3, h4⟩
    have hs : s ∈ reg := List.mem_of_getElem? h1
    refine ⟨s, ?_, h2, h3, noProc_frame hfr (h2 ▸ hne s hs) h4⟩
    show (reg ++ [node])[i]? = some s
    have hlt : i < reg.length := by
      rcases Nat.lt_or_ge i reg.length with hlt | hge
      · exact hlt
      · rw [List.getElem?_eq_none hge] at h1; cases h1
    rw [List.getElem?_append_left hlt]; exact h1

theorem fresh_set {reg : List Svc} {j num : Nat} {s s' : Svc} (hget : reg[j]? = some s) (hn : s'.number = s.number)
    (hf : Fresh reg num) : Fresh (reg.set j s') num := by
  intro t ht
  rcases mem_set_cases ht with rfl | ⟨k, _, hk⟩
  · rw [hn]; exact hf s (List.mem_of_getElem? hget)
  · exact hf t (List.mem_of_getElem? hk)

theorem restartAt_spec (w : World) (j : Nat) (retain : Bool) (faults : List Fault) (hi : Inv w) :
    Inv (restartAt w j retain faults).1 ∧ (AllGood w → AllGood (restartAt w j retain faults).1) ∧
    (∀ k n, RemovedAt w k n → RemovedAt (restartAt w j retain faults).1 k n) := by
  unfold restartAt
  split
  · exact ⟨hi, id, fun _ _ h => h⟩
  · rename_i s hget
    split
    · exact onSvc_spec w j faults svcRestartRetain svcRestartRetain_trans hi
    · have T1 := svcStop_trans s w.os ⟨faults, 0⟩
      split
      rename_i s1 os1 fx1 r1 heq
      rw [heq] at T1
      simp only at T1
      have I1 : Inv ⟨w.reg.set j s1, os1⟩ := set_inv hget T1 hi
      have G1 : AllGood w → AllGood ⟨w.reg.set j s1, os1⟩ := set_good hget T1 hi
      have R1 : ∀ k n, RemovedAt w k n → RemovedAt ⟨w.reg.set j s1, os1⟩ k n :=
        fun k n h => set_removedAt hget T1 hi h
      split
      · exact ⟨I1, G1, R1⟩
      · have hc := restartFresh_cases (restartNumber w.reg) s1 os1 fx1
        split
        rename_i new os2 fx2 r2 heq2
        rw [heq2] at hc
        simp only at hc
        rcases hc with ⟨hnone, _, hm⟩ | ⟨node0, node, hn0, hst, hpid, hsome, T, _, _⟩
        · subst hnone
          simp only [Option.toList_none, List.append_nil]
          rcases hm with hm | ⟨_, hm⟩
          · exact ⟨inv_minor hm I1, fun h => good_minor hm (G1 h), fun k n h => removedAt_minor hm (R1 k n h)⟩
          · rw [hm]
            have hf : Fresh (w.reg.set j s1) (restartNumber w.reg) :=
              fresh_set hget T1.num (fresh_restartNumber w.reg)
            have hfr : Frame (restartNumber w.reg) os1
                (osInstall (mkDir os1 (restartNumber w.reg)) (restartNumber w.reg) none s1.rpcPort) :=
              (frame_of_minor _ (mkDir_minor os1 _)).trans (osInstall_spec _ _ _ _).1
            have := inv_frame_fresh hf hfr I1
            exact ⟨this.1, fun h => this.2.1 (G1 h), fun k n h => this.2.2 k n (R1 k n h)⟩
        · subst hsome
          simp only [Option.toList_some]
          have hf : Fresh (w.reg.set j s1) (restartNumber w.reg) :=
            fresh_set hget T1.num (fresh_restartNumber w.reg)
          have := append_spec hf I1 (mkDir_minor os1 (restartNumber w.reg)) hn0 hst hpid T
          exact ⟨this.1, fun h => this.2.1 (G1 h), fun k n h => this.2.2 k n (R1 k n h)⟩

/-- The two refreshes: the partial one every `antctl` command runs first, and the full one of `antctl status`. -/
def Op.isRefresh : Op → Bool
  | .refresh => true
  | .refreshFull _ _ => true
  | _ => false

/-- The full refresh (`antctl status`). -/
def Op.isFullRefresh : Op → Bool
  | .refreshFull _ _ => true
  | _ => false

/-- Events behind the manager's back (a process dies, or is restarted under a new pid). -/
def Op.isKill : Op → Bool
  | .kill _ => true
  | .restartOutside _ => true
  | _ => false

theorem exec_spec (w : World) (op : Op) (hi : Inv w) :
    Inv (exec w op).1 ∧ (op.isKill = false → AllGood w → AllGood (exec w op).1) ∧
    (∀ k n, RemovedAt w k n → RemovedAt (exec w op).1 k n) := by
  cases op with
  | add count np mp rp metrics ver faults =>
    have := addNode_spec w ⟨faults, 0⟩ [] count np mp rp metrics ver hi
    simp only [exec]
    exact ⟨this.1, fun _ => this.2.1, this.2.2⟩
  | start i ct faults =>
    have := onSvc_spec w i faults (fun s os fx => svcStart s os fx ct) (fun s os fx => svcStart_trans s os fx ct) hi
    exact ⟨this.1, fun _ => this.2.1, this.2.2⟩
  | stop i faults =>
    have := onSvc_spec w i faults svcStop svcStop_trans hi
    exact ⟨this.1, fun _ => this.2.1, this.2.2⟩
  | remove i keep faults =>
    have := onSvc_spec w i faults (fun s os fx => svcRemove s os fx keep) (fun s os fx => svcRemove_trans s os fx keep) hi
    exact ⟨this.1, fun _ => this.2.1, this.2.2⟩
  | upgrade i force start ver ct faults =>
    have := onSvc_spec w i faults (fun s os fx => svcUpgrade s os fx force start ver ct)
      (fun s os fx => svcUpgrade_trans s os fx force start ver ct) hi
    exact ⟨this.1, fun _ => this.2.1, this.2.2⟩
  | refresh =>
    have := refresh_spec w hi
    exact ⟨this.1, fun _ _ => this.2.1, this.2.2⟩
  | refreshFull fail faults =>
    have := refreshFull_spec w ⟨faults, 0⟩ hi
    simp only [exec]
    split
    · rename_i reg fx e heq
      rw [heq] at this
      exact ⟨this.1, fun _ => this.2.1, this.2.2⟩
    · rename_i reg fx heq
      rw [heq] at this
      exact ⟨this.1, fun _ => this.2.1, this.2.2⟩
  | drestart i retain faults =>
    simp only [exec]
    split
    · exact ⟨hi, fun _ h => h, fun _ _ h => h⟩
    · split
      · exact ⟨hi, fun _ h => h, fun _ _ h => h⟩
      · split
        · exact ⟨hi, fun _ h => h, fun _ _ h => h⟩
        · rename_i j _
          have := restartAt_spec w j retain faults hi
          exact ⟨this.1, fun _ => this.2.1, this.2.2⟩
  | restartOutside i =>
    simp only [exec]
    split
    · exact ⟨hi, fun h => by simp [Op.isKill] at h, fun _ _ h => h⟩
    · refine ⟨⟨hi.nodup, hi.pid, ?_⟩, fun h => by simp [Op.isKill] at h, ?_⟩
      · intro s hs hr
        have := hi.rem s hs hr
        rw [isInstalled_congr' (osRestart_installed _ _)]; exact this
      · intro k n ⟨s, h1, h2, h3, h4⟩
        exact ⟨s, h1, h2, h3, osRestart_noProc h4⟩
  | kill i =>
    simp only [exec]
    split
    · exact ⟨hi, fun h => by simp [Op.isKill] at h, fun _ _ h => h⟩
    · refine ⟨⟨hi.nodup, hi.pid, hi.rem⟩, fun h => by simp [Op.isKill] at h, ?_⟩
      intro k n ⟨s, h1, h2, h3, h4⟩
      refine ⟨s, h1, h2, h3, ?_⟩
      intro p hp
      simp only [osKill, List.mem_filter] at hp
      exact h4 p hp.1
  | flaky i on =>
    simp only [exec]
    split
    · exact ⟨hi, fun _ h => h, fun _ _ h => h⟩
    · exact ⟨⟨hi.nodup, hi.pid, hi.rem⟩, fun _ h => h, fun _ _ h => h⟩
  | saveload =>
    simp only [exec]
    exact ⟨hi, fun _ h => h, fun _ _ h => h⟩

theorem inv_init : Inv World.init :=
  ⟨List.nodup_nil, fun s h => by simp [World.init] at h, fun s h => by simp [World.init] at h⟩
theorem good_init : AllGood World.init := fun s h => by simp [World.init] at h

theorem run_inv (w : World) (ops : List Op) (hi : Inv w) : Inv (run w ops) := by
  induction ops generalizing w with
  | nil => exact hi
  | cons op r ih => exact ih _ (exec_spec w op hi).1

theorem run_good (w : World) (ops : List Op) (hk : ∀ op ∈ ops, op.isKill = false) (hi : Inv w) (hg : AllGood w) :
    AllGood (run w ops) := by
  induction ops generalizing w with
  | nil => exact hg
  | cons op r ih =>
    have h := exec_spec w op hi
    exact ih _ (fun o ho => hk o (List.mem_cons_of_mem _ ho)) h.1 (h.2.1 (hk op (List.mem_cons_self ..)) hg)

theorem run_removedAt (w : World) (ops : List Op) (i n : Nat) (hi : Inv w) (hr : RemovedAt w i n) :
    RemovedAt (run w ops) i n := by
  induction ops generalizing w with
  | nil => exact hr
  | cons op r ih =>
    have h := exec_spec w op hi
    exact ih _ h.1 (h.2.2 i n hr)

/-! ## The registry file: where `add_node` saves, and service numbers across `reload` -/

/-- No call of the fault list has its effect and then reports failure. -/
def Fx.Clean (fx : Fx) : Prop := ∀ b ∈ fx.faults, b ≠ Fault.failAfter

theorem pop_clean {fx : Fx} (h : fx.Clean) : fx.pop.1 ≠ .failAfter ∧ fx.pop.2.Clean := by
  unfold Fx.pop
  cases hf : fx.faults with
  | nil => exact ⟨by simp, fun b hb => by cases hb⟩
  | cons b r =>
    refine ⟨h b (by rw [hf]; exact List.mem_cons_self ..), ?_⟩
    intro c hc
    exact h c (by rw [hf]; exact List.mem_cons_of_mem _ hc)

theorem allocPort_clean (w : World) (fx : Fx) (h : fx.Clean) : (allocPort w fx).2.2.Clean := by
  unfold allocPort
  have := (pop_clean h).2
  split
  rename_i b fx' heq
  rw [heq] at this
  split
  · exact this
  · split <;> exact this

theorem addPorts_clean (mp rp : Option Nat) (metrics : Bool) (w : World) (fx : Fx) (h : fx.Clean) :
    (addPorts mp rp metrics w fx).2.2.Clean := by
  unfold addPorts
  split
  · rename_i w1 fx1 heq
    split at heq
    · cases heq
    · have := allocPort_clean w fx h
      rw [heq] at this; exact this
  · rename_i rpcP w1 fx1 heq
    have h1 : fx1.Clean := by
      split at heq
      · cases heq; exact h
      · have := allocPort_clean w fx h
        rw [heq] at this; exact this
    split
    · exact h1
    · split
      · have := allocPort_clean w1 fx1 h1
        split
        · rename_i h3; rw [h3] at this; exact this
        · rename_i h3; rw [h3] at this; exact this
      · exact h1

/-- One loop iteration, registry and file only (any faults): either nothing is recorded and the file is untouched, or
one entry numbered `num` is recorded and the file is the whole in-memory registry (saved right after the install). -/
theorem addOne_file0 (num : Nat) (np mp rp : Option Nat) (metrics : Bool) (ver : Nat) (a : AddAcc) :
    let a' := addOne num np mp rp metrics ver a
    (a'.w.reg = a.w.reg ∧ a'.file = a.file) ∨ (a'.file = a'.w.reg) := by
  intro a'
  unfold a' addOne
  have hp := addPorts_minor mp rp metrics a.w a.fx
  split
  · rename_i w1 fx1 heq
    rw [heq] at hp
    left; exact ⟨hp.1, rfl⟩
  · rename_i rpcP metP w1 fx1 heq
    rw [heq] at hp
    split
    · left; exact ⟨hp.1, rfl⟩
    · left; exact ⟨hp.1, rfl⟩
    · right; rfl

theorem addLoop_file0 (k num : Nat) (np mp rp : Option Nat) (metrics : Bool) (ver : Nat) (a0 a : AddAcc)
    (h : (a.w.reg = a0.w.reg ∧ a.file = a0.file) ∨ a.file = a.w.reg) :
    ((addLoop k num np mp rp metrics ver a).w.reg = a0.w.reg ∧ (addLoop k num np mp rp metrics ver a).file = a0.file) ∨
    (addLoop k num np mp rp metrics ver a).file = (addLoop k num np mp rp metrics ver a).w.reg := by
  induction k generalizing num np mp rp a with
  | zero => exact h
  | succ k ih =>
    have h1 : ((addOne num np mp rp metrics ver a).w.reg = a0.w.reg ∧ (addOne num np mp rp metrics ver a).file = a0.file) ∨
        (addOne num np mp rp metrics ver a).file = (addOne num np mp rp metrics ver a).w.reg := by
      rcases addOne_file0 num np mp rp metrics ver a with ⟨g1, g2⟩ | g
      · rcases h with ⟨h1, h2⟩ | h
        · left; exact ⟨g1.trans h1, g2.trans h2⟩
        · right; rw [g2, g1]; exact h
      · right; exact g
    unfold addLoop
    dsimp only
    split
    · exact h1
    · exact ih _ _ _ _ _ h1

/-- `add_node`, registry and file (any faults): either it recorded nothing and left the file alone, or the file it
leaves is exactly the in-memory registry. -/
theorem addNode_file0 (w : World) (fx : Fx) (file : List Svc) (count : Nat) (np mp rp : Option (Nat × Nat))
    (metrics : Bool) (ver : Nat) :
    let r := addNode w fx file count np mp rp metrics ver
    (r.1.reg = w.reg ∧ r.2.2.2 = file) ∨ r.2.2.2 = r.1.reg := by
  intro r
  unfold r addNode
  dsimp only
  split
  · left; exact ⟨rfl, rfl⟩
  · split
    · left; exact ⟨rfl, rfl⟩
    · split
      · left; exact ⟨rfl, rfl⟩
      · have h := addLoop_file0 count (startNumber w.reg) (np.map (·.1)) (mp.map (·.1)) (rp.map (·.1)) metrics ver
          ⟨w, fx, [], [], false, file⟩ ⟨w, fx, [], [], false, file⟩ (Or.inl ⟨rfl, rfl⟩)
        split
        · exact h
        · split <;> exact h

/-- One loop iteration under a clean fault list: either nothing is recorded or installed and the file is untouched, or
one entry numbered `num` is recorded, its service is installed, and the file is the whole in-memory registry (saved
right after the install). -/
theorem addOne_file (num : Nat) (np mp rp : Option Nat) (metrics : Bool) (ver : Nat) (a : AddAcc) (hc : a.fx.Clean) :
    let a' := addOne num np mp rp metrics ver a
    a'.fx.Clean ∧
    ((a'.w.reg = a.w.reg ∧ a'.w.os.installed = a.w.os.installed ∧ a'.file = a.file) ∨
    (∃ new os1, new.number = num ∧ a'.w.reg = a.w.reg ++ [new] ∧ os1.installed = a.w.os.installed ∧
      a'.w.os = osInstall os1 num np new.rpcPort ∧ a'.file = a'.w.reg)) := by
  intro a'
  unfold a' addOne
  have hp := addPorts_minor mp rp metrics a.w a.fx
  have hcl := addPorts_clean mp rp metrics a.w a.fx hc
  split
  · rename_i w1 fx1 heq
    rw [heq] at hp hcl
    exact ⟨hcl, Or.inl ⟨hp.1, hp.2.2, rfl⟩⟩
  · rename_i rpcP metP w1 fx1 heq
    rw [heq] at hp hcl
    have hpop := pop_clean hcl
    split
    · rename_i fx2 heq2
      rw [heq2] at hpop
      exact ⟨hpop.2, Or.inl ⟨hp.1, hp.2.2, rfl⟩⟩
    · rename_i fx2 heq2
      rw [heq2] at hpop
      exact absurd rfl hpop.1
    · rename_i fx2 heq2
      rw [heq2] at hpop
      refine ⟨hpop.2, Or.inr ?_⟩
      exact ⟨⟨num, .added, none, np, metP, rpcP, ver, none, none, none⟩, mkDir w1.os num, rfl, by
        have h1 : w1.reg = a.w.reg := hp.1
        simp [h1], hp.2.2, rfl, rfl⟩

theorem isInstalled_congr {os os' : OS} (h : os'.installed = os.installed) (n : Nat) :
    os'.isInstalled n = os.isInstalled n := by
  simp [OS.isInstalled, h]

/-- Relation between the accumulator at loop entry (`a0`) and later (`a`): either nothing was recorded or installed
and the file is as before, or the file is exactly the in-memory registry and every newly installed service is
recorded in it. -/
def FileRel (a0 a : AddAcc) : Prop :=
  (a.w.reg = a0.w.reg ∧ a.file = a0.file ∧ ∀ n, a.w.os.isInstalled n = a0.w.os.isInstalled n) ∨
  (a.file = a.w.reg ∧ ∀ n, a.w.os.isInstalled n = true → a0.w.os.isInstalled n = true ∨ ∃ s ∈ a.w.reg, s.number = n)

theorem addOne_fileRel (num : Nat) (np mp rp : Option Nat) (metrics : Bool) (ver : Nat) (a0 a : AddAcc)
    (hc : a.fx.Clean) (h : FileRel a0 a) :
    (addOne num np mp rp metrics ver a).fx.Clean ∧ FileRel a0 (addOne num np mp rp metrics ver a) := by
  obtain ⟨hcl, hcases⟩ := addOne_file num np mp rp metrics ver a hc
  refine ⟨hcl, ?_⟩
  rcases hcases with ⟨hr, hi, hf⟩ | ⟨new, os1, hn, hr, hi1, hos, hf⟩
  · have hinst := isInstalled_congr hi
    rcases h with ⟨h1, h2, h3⟩ | ⟨h1, h2⟩
    · left; exact ⟨hr.trans h1, hf.trans h2, fun n => (hinst n).trans (h3 n)⟩
    · right
      refine ⟨by rw [hf, hr]; exact h1, ?_⟩
      intro n hn'
      rw [hinst n] at hn'
      rcases h2 n hn' with h | ⟨s, hs, hsn⟩
      · exact Or.inl h
      · exact Or.inr ⟨s, by rw [hr]; exact hs, hsn⟩
  · right
    refine ⟨hf, ?_⟩
    intro n hn'
    rw [hos] at hn'
    by_cases hnn : n = num
    · exact Or.inr ⟨new, by rw [hr]; simp, hn.trans hnn.symm⟩
    · have := (osInstall_spec os1 num np new.rpcPort).1.inst n hnn
      rw [this, isInstalled_congr hi1 n] at hn'
      rcases h with ⟨h1, _, h3⟩ | ⟨_, h2⟩
      · rw [h3 n] at hn'; exact Or.inl hn'
      · rcases h2 n hn' with h | ⟨s, hs, hsn⟩
        · exact Or.inl h
        · exact Or.inr ⟨s, by rw [hr]; exact List.mem_append_left _ hs, hsn⟩

theorem addLoop_fileRel (k num : Nat) (np mp rp : Option Nat) (metrics : Bool) (ver : Nat) (a0 a : AddAcc)
    (hc : a.fx.Clean) (h : FileRel a0 a) : FileRel a0 (addLoop k num np mp rp metrics ver a) := by
  induction k generalizing num np mp rp a with
  | zero => exact h
  | succ k ih =>
    have h1 := addOne_fileRel num np mp rp metrics ver a0 a hc h
    unfold addLoop
    dsimp only
    split
    · exact h1.2
    · exact ih _ _ _ _ _ h1.1 h1.2

/-- Numbers only (no assumption on the rest of the state): the loop appends fresh, pairwise distinct numbers. -/
theorem addLoop_numbers (k num : Nat) (np mp rp : Option Nat) (metrics : Bool) (ver : Nat) (a : AddAcc)
    (hf : Fresh a.w.reg num) (hn : (a.w.reg.map (·.number)).Nodup) :
    ((addLoop k num np mp rp metrics ver a).w.reg.map (·.number)).Nodup ∧
    (a.w.reg.map (·.number)) <+: ((addLoop k num np mp rp metrics ver a).w.reg.map (·.number)) := by
  induction k generalizing num np mp rp a with
  | zero => exact ⟨hn, List.prefix_refl _⟩
  | succ k ih =>
    have h1 : Fresh (addOne num np mp rp metrics ver a).w.reg (num + 1) ∧
        ((addOne num np mp rp metrics ver a).w.reg.map (·.number)).Nodup ∧
        (a.w.reg.map (·.number)) <+: ((addOne num np mp rp metrics ver a).w.reg.map (·.number)) := by
      rcases addOne_cases num np mp rp metrics ver a with ⟨hr, _⟩ | ⟨hr, _⟩ | ⟨new, _, hnum, _, _, hr, _, _⟩
      · have hr' : (addOne num np mp rp metrics ver a).w.reg = a.w.reg := hr
        rw [hr']
        exact ⟨fun s hs => Nat.lt_succ_of_lt (hf s hs), hn, List.prefix_refl _⟩
      · have hr' : (addOne num np mp rp metrics ver a).w.reg = a.w.reg := hr
        rw [hr']
        exact ⟨fun s hs => Nat.lt_succ_of_lt (hf s hs), hn, List.prefix_refl _⟩
      · have hr' : (addOne num np mp rp metrics ver a).w.reg = a.w.reg ++ [new] := hr
        rw [hr']
        refine ⟨?_, ?_, ?_⟩
        · intro s hs
          simp only [List.mem_append, List.mem_singleton] at hs
          rcases hs with hs | rfl
          · exact Nat.lt_succ_of_lt (hf s hs)
          · rw [hnum]; exact Nat.lt_succ_self _
        · rw [List.map_append, List.nodup_append]
          refine ⟨hn, by simp, ?_⟩
          intro x hx y hy
          simp only [List.map_cons, List.map_nil, List.mem_singleton] at hy
          obtain ⟨s, hs, rfl⟩ := List.mem_map.mp hx
          rw [hy, hnum]
          exact Nat.ne_of_lt (hf s hs)
        · rw [List.map_append]; exact List.prefix_append _ _
    unfold addLoop
    dsimp only
    split
    · exact ⟨h1.2.1, h1.2.2⟩
    · obtain ⟨g1, g2⟩ := ih (num + 1) (np.map (· + 1)) (mp.map (· + 1)) (rp.map (· + 1)) _ h1.1 h1.2.1
      exact ⟨g1, h1.2.2.trans g2⟩

theorem onSvc_instSub (w : World) (i : Nat) (faults : List Fault) (f : Svc → OS → Fx → Svc × OS × Fx × Res)
    (hT : ∀ s os fx, InstSub os (f s os fx).2.1) : InstSub w.os (onSvc w i faults f).1.os := by
  unfold onSvc
  split
  · exact InstSub.refl _
  · exact hT _ _ _

theorem svcStop_clean (s : Svc) (os : OS) (fx : Fx) (h : fx.Clean) : (svcStop s os fx).2.2.1.Clean := by
  unfold svcStop
  have hp := (pop_clean h).2
  split
  · exact h
  · exact h
  · exact h
  · split
    · exact h
    · split
      · exact h
      · split
        rename_i b fx' heq
        rw [heq] at hp
        split
        · exact hp
        · split
          · exact hp
          · split <;> exact hp

/-- The daemon's restart under a clean fault list: every service definition present afterwards was present before or
belongs to a recorded entry (the replacement service of `retain_peer_id = false` is recorded even when its first
start fails). -/
theorem restartAt_inst (w : World) (j : Nat) (retain : Bool) (faults : List Fault) (hc : Fx.Clean ⟨faults, 0⟩) (m : Nat)
    (hm : (restartAt w j retain faults).1.os.isInstalled m = true) :
    w.os.isInstalled m = true ∨ m ∈ (restartAt w j retain faults).1.reg.map (·.number) := by
  unfold restartAt at hm ⊢
  cases hget : w.reg[j]? with
  | none => simp only [hget] at hm ⊢; exact Or.inl hm
  | some s =>
    simp only [hget] at hm ⊢
    cases retain with
    | true =>
      simp only [↓reduceIte] at hm ⊢
      exact Or.inl (onSvc_instSub w j faults svcRestartRetain svcRestartRetain_instSub m hm)
    | false =>
      simp only [Bool.false_eq_true, ↓reduceIte] at hm ⊢
      have I1 := svcStop_instSub s w.os ⟨faults, 0⟩
      have C1 := svcStop_clean s w.os ⟨faults, 0⟩ hc
      rcases hstop : svcStop s w.os ⟨faults, 0⟩ with ⟨s1, os1, fx1, r1⟩
      rw [hstop] at I1 hm C1
      simp only at I1 hm C1 ⊢
      cases hf : r1.failed with
      | true => simp only [hf, ↓reduceIte] at hm ⊢; exact Or.inl (I1 m hm)
      | false =>
        simp only [hf, Bool.false_eq_true, ↓reduceIte] at hm ⊢
        have hc := restartFresh_cases (restartNumber w.reg) s1 os1 fx1
        rcases hfresh : restartFresh (restartNumber w.reg) s1 os1 fx1 with ⟨new, os2, fx2, r2⟩
        rw [hfresh] at hc hm
        simp only at hc hm ⊢
        rcases hc with ⟨_, _, hmin⟩ | ⟨node0, node, hn0, _, _, hsome, T, I2, _⟩
        · rcases hmin with hmin | ⟨hfa, _⟩
          · left
            apply I1 m
            have : os2.isInstalled m = os1.isInstalled m := by simp [OS.isInstalled, hmin.2]
            rw [← this]; exact hm
          · exact absurd hfa (pop_clean C1).1
        · have h2 := I2 m hm
          by_cases hmn : m = restartNumber w.reg
          · right
            subst hsome
            simp only [Option.toList_some, List.map_append, List.map_cons, List.map_nil, List.mem_append,
              List.mem_singleton]
            right
            rw [T.num, hn0]; exact hmn
          · left
            apply I1 m
            rw [(osInstall_spec (mkDir os1 (restartNumber w.reg)) (restartNumber w.reg) none s1.rpcPort).1.inst m hmn] at h2
            exact h2

/-- No operation other than `add` and the daemon's restart creates a service definition that was not there before. -/
theorem exec_instSub (w : World) (op : Op) (hna : ∀ c np mp rp m v f, op ≠ .add c np mp rp m v f)
    (hnr : ∀ i r f, op ≠ .drestart i r f) :
    InstSub w.os (exec w op).1.os := by
  cases op with
  | add c np mp rp m v f => exact absurd rfl (hna c np mp rp m v f)
  | drestart i r f => exact absurd rfl (hnr i r f)
  | start i ct faults => exact onSvc_instSub w i faults _ (fun s os fx => svcStart_instSub s os fx ct)
  | stop i faults => exact onSvc_instSub w i faults _ svcStop_instSub
  | remove i keep faults => exact onSvc_instSub w i faults _ (fun s os fx => svcRemove_instSub s os fx keep)
  | upgrade i force start ver ct faults =>
    exact onSvc_instSub w i faults _ (fun s os fx => svcUpgrade_instSub s os fx force start ver ct)
  | refresh => exact InstSub.refl _
  | refreshFull fail faults => simp only [exec]; split <;> exact InstSub.refl _
  | restartOutside i =>
    simp only [exec]; split
    · exact InstSub.refl _
    · exact InstSub.of_eq (osRestart_installed _ _)
  | kill i => simp only [exec]; split <;> exact InstSub.refl _
  | flaky i on => simp only [exec]; split <;> exact InstSub.refl _
  | saveload => simp only [exec]; exact InstSub.refl _

/-- The daemon's restart as an operation: either nothing happened (no such entry / no peer id recorded), or it is
`restart_node_service` on the entry `j` found by the peer id. -/
theorem exec_drestart_cases (w : World) (i : Nat) (retain : Bool) (faults : List Fault) :
    ((exec w (.drestart i retain faults)).1 = w ∧ (exec w (.drestart i retain faults)).2.1.failed = true) ∨
    (∃ j, (w.reg[i]?).isSome = true ∧ exec w (.drestart i retain faults) = restartAt w j retain faults) := by
  simp only [exec]
  split
  · left; exact ⟨rfl, rfl⟩
  · rename_i s0 h0
    split
    · left; exact ⟨rfl, rfl⟩
    · split
      · left; exact ⟨rfl, rfl⟩
      · rename_i j _
        right; exact ⟨j, by simp [h0], rfl⟩

theorem set_noNewRun {reg : List Svc} {j k : Nat} {s s1 s' : Svc} (hget : reg[j]? = some s)
    (hN : s1.status = .running → s.status = .running) (hk : (reg.set j s1)[k]? = some s') (hr : s'.status = .running) :
    ∃ t, reg[k]? = some t ∧ t.status = .running := by
  rw [List.getElem?_set] at hk
  split at hk
  · rename_i hjk
    subst hjk
    split at hk
    · cases hk; exact ⟨s, hget, hN hr⟩
    · cases hk
  · exact ⟨s', hk, hr⟩

/-- A failed daemon restart never newly records Running. -/
theorem restartAt_noNewRun (w : World) (j : Nat) (retain : Bool) (faults : List Fault)
    (hf : (restartAt w j retain faults).2.1.failed = true) (k : Nat) (s' : Svc)
    (hk : (restartAt w j retain faults).1.reg[k]? = some s') (hr : s'.status = .running) :
    ∃ t, w.reg[k]? = some t ∧ t.status = .running := by
  unfold restartAt at hf hk
  cases hget : w.reg[j]? with
  | none => simp only [hget] at hk; exact ⟨s', hk, hr⟩
  | some s =>
    simp only [hget] at hf hk
    cases retain with
    | true =>
      simp only [↓reduceIte] at hf hk
      unfold onSvc at hf hk
      simp only [hget] at hf hk
      have N := svcRestartRetain_noNewRun s w.os ⟨faults, 0⟩
      rcases hrr : svcRestartRetain s w.os ⟨faults, 0⟩ with ⟨s1, os1, fx1, r1⟩
      rw [hrr] at hf hk N
      simp only at hf hk
      exact set_noNewRun hget (N hf) hk hr
    | false =>
      simp only [Bool.false_eq_true, ↓reduceIte] at hf hk
      have N1 := svcStop_noNewRun s w.os ⟨faults, 0⟩
      rcases hstop : svcStop s w.os ⟨faults, 0⟩ with ⟨s1, os1, fx1, r1⟩
      rw [hstop] at hf hk N1
      simp only at hf hk N1
      cases hfail : r1.failed with
      | true =>
        simp only [hfail, ↓reduceIte] at hf hk
        exact set_noNewRun hget N1 hk hr
      | false =>
        simp only [hfail, Bool.false_eq_true, ↓reduceIte] at hf hk
        have hc := restartFresh_cases (restartNumber w.reg) s1 os1 fx1
        rcases hfresh : restartFresh (restartNumber w.reg) s1 os1 fx1 with ⟨new, os2, fx2, r2⟩
        rw [hfresh] at hc hf hk
        simp only at hc hf hk
        rcases Nat.lt_or_ge k (w.reg.set j s1).length with hlt | hge
        · rw [List.getElem?_append_left hlt] at hk
          exact set_noNewRun hget N1 hk hr
        · rw [List.getElem?_append_right hge] at hk
          rcases hc with ⟨hnone, _, _⟩ | ⟨node0, node, _, _, _, hsome, _, _, hnr⟩
          · subst hnone; simp at hk
          · subst hsome
            have hmem : s' ∈ [node] := List.mem_of_getElem? (by simpa using hk)
            simp only [List.mem_singleton] at hmem
            subst hmem
            exact (hnr hf hr).elim

/-- The fault list of an `add` / a daemon restart contains no call that has its effect and then reports failure
(such an `install` leaves a service definition the code cannot know about). -/
def Op.CleanInstall : Op → Prop
  | .add _ _ _ _ _ _ f => Fx.Clean ⟨f, 0⟩
  | .drestart _ _ f => Fx.Clean ⟨f, 0⟩
  | _ => True

def SOp.CleanInstall : SOp → Prop
  | .op o => o.CleanInstall
  | .reload => True
  | .cmd o => o.CleanInstall

/-- An outside event (a process dying / changing pid behind the manager's back) — never inside a command. -/
def SOp.isKill : SOp → Bool
  | .op o => o.isKill
  | .reload => false
  | .cmd o => o.isKill

end SafeNet.Lifecycle
