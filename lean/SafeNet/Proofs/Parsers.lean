import SafeNet.Model.Parsers
/-! Helper lemmas for C17: a static check of guard/slice programs that implies "no slice panics",
and evaluation lemmas for the slices of the routines. -/
namespace SafeNet.Parsers
open SafeNet.Panic SafeNet.Gen.Parsers

/-- What a failed guard tells about the length: a new lower bound. -/
def guardLower (c : Cmp) (n m : Nat) : Nat :=
  match c with
  | .lt => max m n
  | .le => max m (n + 1)
  | .ne => max m n
  | _ => m

/-- Static check: with `m ≤ len` known, every slice of the program is in range. -/
def stepsSafe : Nat → List Step → Bool
  | _, [] => true
  | m, .guard c n :: rest => stepsSafe (guardLower c n m) rest
  | m, .slice lo hi _ :: rest =>
    (match hi with
      | some h => decide (lo.getD 0 ≤ h ∧ h ≤ m)
      | none => decide (lo.getD 0 ≤ m)) && stepsSafe m rest

theorem guardLower_le {c : Cmp} {n m len : Nat} (hm : m ≤ len) (h : c.holds len n = false) :
    guardLower c n m ≤ len := by
  cases c <;> simp [Cmp.holds, guardLower] at h ⊢ <;> omega

theorem stepsSafe_sound (bytes : List Nat) :
    ∀ (steps : List Step) (m : Nat), m ≤ bytes.length → stepsSafe m steps = true →
      (runSteps bytes steps).isPanic = false := by
  intro steps
  induction steps with
  | nil => intro m _ _; rfl
  | cons st rest ih =>
    intro m hm hs
    cases st with
    | guard c n =>
      simp only [runSteps]
      by_cases hc : c.holds bytes.length n = true
      · simp [hc, Res.isPanic]
      · have hc' : c.holds bytes.length n = false := by simpa using hc
        simp only [hc', Bool.false_eq_true, ↓reduceIte]
        exact ih (guardLower c n m) (guardLower_le hm hc') (by simpa [stepsSafe] using hs)
    | slice lo hi arr =>
      simp only [stepsSafe, Bool.and_eq_true] at hs
      obtain ⟨hb, hrest⟩ := hs
      have hok : ∃ field, sliceOpt? bytes lo hi = .ok field := by
        unfold sliceOpt? slice?
        cases hi with
        | some h =>
          simp only [decide_eq_true_eq] at hb
          simp only [Option.getD_some]
          have : lo.getD 0 ≤ h ∧ h ≤ bytes.length := ⟨hb.1, by omega⟩
          simp [this]
        | none =>
          simp only [decide_eq_true_eq] at hb
          simp only [Option.getD_none]
          have : lo.getD 0 ≤ bytes.length ∧ bytes.length ≤ bytes.length := ⟨by omega, Nat.le_refl _⟩
          simp [this]
      obtain ⟨field, hf⟩ := hok
      simp only [runSteps, hf]
      split
      · rfl
      · have := ih m hm hrest
        split <;> simp_all [Res.isPanic]

/-- A guard/slice program that passes the static check never panics, on any input. -/
theorem steps_no_panic (steps : List Step) (h : stepsSafe 0 steps = true) (bytes : List Nat) :
    (runSteps bytes steps).isPanic = false :=
  stepsSafe_sound bytes steps 0 (Nat.zero_le _) h

/-! ### `firstMinIdx` -/

theorem firstMinIdx_lt : ∀ (ks : List Nat) (i : Nat), firstMinIdx ks = some i → i < ks.length
  | [], i, h => by simp [firstMinIdx] at h
  | k :: ks, i, h => by
    simp only [firstMinIdx] at h
    split at h
    · cases h; simp
    · rename_i j hj
      have := firstMinIdx_lt ks j hj
      split at h <;> cases h <;> simp <;> omega

/-! ### `splitOn` -/

theorem splitOn_ne_nil (c : Nat) : ∀ s : List Nat, splitOn c s ≠ []
  | [] => by simp [splitOn]
  | x :: xs => by
    simp only [splitOn]
    split
    · simp
    · split <;> simp

end SafeNet.Parsers
