import SafeNet.Proofs.Amount
import SafeNet.Model.Distance
namespace SafeNet.Distance
open SafeNet.Gen.Distance SafeNet.Dec SafeNet.Amount

theorem xor_eq_zero_iff (x y : Nat) : x ^^^ y = 0 ↔ x = y := by
  constructor
  · intro h
    have h1 : x ^^^ (x ^^^ y) = y := by rw [← Nat.xor_assoc, Nat.xor_self, Nat.zero_xor]
    rw [h, Nat.xor_zero] at h1
    exact h1
  · rintro rfl; exact Nat.xor_self x

theorem strip_stop (pat : List Nat) (fuel : Nat) (s : List Nat) (h : pat.isPrefixOf s = false) :
    stripPrefixAll pat fuel s = s := by
  cases fuel with
  | zero => rfl
  | succ f => simp [stripPrefixAll, h]

theorem strip_step (pat : List Nat) (fuel : Nat) (rest : List Nat) (hne : pat ≠ []) :
    stripPrefixAll pat (fuel + 1) (pat ++ rest) = stripPrefixAll pat fuel rest := by
  have h1 : pat.isEmpty = false := by cases pat <;> simp_all
  have h2 : pat.isPrefixOf (pat ++ rest) = true := by
    rw [List.isPrefixOf_iff_prefix]; exact List.prefix_append _ _
  simp [stripPrefixAll, h1, h2]

theorem isPrefixOf_cons_ne {p c : Nat} {ps cs : List Nat} (h : p ≠ c) :
    (p :: ps).isPrefixOf (c :: cs) = false := by
  simp [List.isPrefixOf, h]

end SafeNet.Distance
