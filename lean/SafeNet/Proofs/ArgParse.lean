import SafeNet.Proofs.ArgTable
/-! The clap-subset parser run on the output of an argument table (C20, `parse_build_is_intended`). -/
namespace SafeNet.ArgTable

/-- The declared argument (clap id) an entry sets. -/
def entryId (ds : List Decl) (e : Entry) : Option String :=
  match e.flag with
  | none => none
  | some n => (findLong ds n).map (·.id)

/-- Closed form: every entry whose guard holds sets its declared argument to the entry's value. -/
def slotsAfter (disp : List (String × String)) (ds : List Decl) (σ : Valuation) : List Entry → Slots → Slots
  | [], s => s
  | e :: T, s =>
    match evalEntry disp σ e, entryId ds e with
    | some it, some id => slotsAfter disp ds σ T (s.put id (pvalOf it.value))
    | _, _ => slotsAfter disp ds σ T s

theorem entryId_of_declared (ds : List Decl) (e : Entry) (h : entryDeclared ds e = true) :
    ∃ n d, e.flag = some n ∧ findLong ds n = some d ∧ entryId ds e = some d.id := by
  unfold entryDeclared at h
  cases hf : e.flag with
  | none => simp [hf] at h
  | some n =>
    simp only [hf] at h
    cases hl : findLong ds n with
    | none => simp [hl] at h
    | some d => exact ⟨n, d, rfl, hl, by simp [entryId, hf, hl]⟩

/-- The parser accepts what a table emits — when the table's options are declared with fitting arity and
no two entries set the same argument — and the result is the closed form. -/
theorem parseOpts_interp (disp : List (String × String)) (ds : List Decl) (σ : Valuation) :
    ∀ (T : List Entry) (s₀ : Slots),
      T.all (entryDeclared ds) = true →
      (T.filterMap (entryId ds)).Nodup →
      (∀ e ∈ T, ∀ id, entryId ds e = some id → s₀ id = .absent) →
      parseOpts ds (interp disp T σ) s₀ = .ok (slotsAfter disp ds σ T s₀) := by
  intro T
  induction T with
  | nil => intro s₀ _ _ _; rfl
  | cons e T ih =>
    intro s₀ hdecl hnodup habs
    have hde : entryDeclared ds e = true := by
      have := List.all_eq_true.mp hdecl e (List.mem_cons_self ..); exact this
    have hdT : T.all (entryDeclared ds) = true := by
      apply List.all_eq_true.mpr; intro x hx
      exact List.all_eq_true.mp hdecl x (List.mem_cons_of_mem _ hx)
    obtain ⟨n, d, hflag, hfind, hid⟩ := entryId_of_declared ds e hde
    have hnd : d.id ∉ T.filterMap (entryId ds) ∧ (T.filterMap (entryId ds)).Nodup := by
      simpa [List.filterMap_cons, hid] using hnodup
    cases hev : evalEntry disp σ e with
    | none =>
      have hi : interp disp (e :: T) σ = interp disp T σ := by
        simp [interp, List.filterMap_cons, hev]
      rw [hi]
      have hs : slotsAfter disp ds σ (e :: T) s₀ = slotsAfter disp ds σ T s₀ := by
        simp [slotsAfter, hev]
      rw [hs]
      exact ih s₀ hdT hnd.2 (fun e' he' id hid' => habs e' (List.mem_cons_of_mem _ he') id hid')
    | some it =>
      have hi : interp disp (e :: T) σ = it :: interp disp T σ := by
        simp [interp, List.filterMap_cons, hev]
      obtain ⟨n', d', hf', hl', hfit⟩ := item_declared_of_entry disp ds σ e it hde hev
      have hitflag : it.flag = e.flag := by
        unfold evalEntry at hev
        split at hev
        · injection hev with hev; rw [← hev]
        · simp at hev
      have hn : n' = n := by rw [hitflag, hflag] at hf'; injection hf' with h; exact h.symm
      subst hn
      have hd : d' = d := by rw [hfind] at hl'; injection hl' with h; exact h.symm
      subst hd
      have habs0 : s₀ d'.id = .absent := habs e (List.mem_cons_self ..) d'.id hid
      have hs : slotsAfter disp ds σ (e :: T) s₀ = slotsAfter disp ds σ T (s₀.put d'.id (pvalOf it.value)) := by
        simp [slotsAfter, hev, hid]
      rw [hi, hs]
      have step : parseOpts ds (it :: interp disp T σ) s₀ =
          parseOpts ds (interp disp T σ) (s₀.put d'.id (pvalOf it.value)) := by
        simp [parseOpts, hf', hfind, hfit, habs0]
      rw [step]
      apply ih _ hdT hnd.2
      intro e' he' id hid'
      have hne : id ≠ d'.id := by
        intro h; subst h
        exact hnd.1 (List.mem_filterMap.mpr ⟨e', he', hid'⟩)
      have := habs e' (List.mem_cons_of_mem _ he') id hid'
      simp [Slots.put, hne, this]

theorem splitAtPositional_append (pre : List Item) (w : String) (post : List Item)
    (h : ∀ it ∈ pre, it.flag.isSome = true) :
    splitAtPositional (pre ++ ⟨none, .one w⟩ :: post) = (pre, some (w, post)) := by
  induction pre with
  | nil => simp [splitAtPositional]
  | cons it pre ih =>
    have hit := h it (List.mem_cons_self ..)
    have ih' := ih (fun x hx => h x (List.mem_cons_of_mem _ hx))
    cases hf : it.flag with
    | none => simp [hf] at hit
    | some n => simp [splitAtPositional, hf, ih']

theorem flags_some_of_declared (disp : List (String × String)) (ds : List Decl) (σ : Valuation) (T : List Entry)
    (h : T.all (entryDeclared ds) = true) : ∀ it ∈ interp disp T σ, it.flag.isSome = true := by
  intro it hit
  obtain ⟨n, _, hf, _, _⟩ := items_declared disp ds σ T h it hit
  simp [hf]

theorem slotsAfter_of_guards_false (disp : List (String × String)) (ds : List Decl) (σ : Valuation) (T : List Entry) (s : Slots)
    (h : ∀ e ∈ T, guardHolds σ e.guard = false) : slotsAfter disp ds σ T s = s := by
  induction T generalizing s with
  | nil => rfl
  | cons e T ih =>
    have he := h e (List.mem_cons_self ..)
    have hev : evalEntry disp σ e = none := by simp [evalEntry, he]
    simp only [slotsAfter, hev]
    exact ih s (fun e' h' => h e' (List.mem_cons_of_mem _ h'))

/-- The full parser on a table of the shape `pre ++ [subcommand word] ++ post`. -/
theorem parse_of_shape (disp : List (String × String)) (top : List Decl) (subs : List (String × String × List Decl))
    (T pre post : List Entry) (src : Src)
    (hT : T = pre ++ ⟨.always, none, some (src, .display)⟩ :: post)
    (hpre : pre.all (entryDeclared top) = true)
    (hpost : post.all (fun e => e.guard == .evmCustom src && entryDeclared (subDecls subs (lookupD disp "Custom")) e) = true)
    (hsubs : disp.all (fun kv => (subs.find? (fun x => x.1 == kv.2)).isSome) = true)
    (hndpre : (pre.filterMap (entryId top)).Nodup)
    (hndpost : (post.filterMap (entryId (subDecls subs (lookupD disp "Custom")))).Nodup)
    (σ : Valuation) (v : String) (hv : evalSrc σ src = .evm v) (hmem : v ∈ disp.map (·.1))
    (htop : finalChecks top (slotsAfter disp top σ pre Slots.empty) = .ok ())
    (hsub : finalChecks (subDecls subs (lookupD disp v))
              (slotsAfter disp (subDecls subs (lookupD disp "Custom")) σ post Slots.empty) = .ok ()) :
    ∃ x, subs.find? (fun x => x.1 == lookupD disp v) = some x ∧
      parse top subs (interp disp T σ) =
        .ok ⟨slotsAfter disp top σ pre Slots.empty,
             some (x.2.1, slotsAfter disp (subDecls subs (lookupD disp "Custom")) σ post Slots.empty)⟩ := by
  subst hT
  obtain ⟨w, hw, hm⟩ := lookupD_of_mem disp v hmem
  have hsome := List.all_eq_true.mp hsubs (v, w) hm
  simp only at hsome
  rw [hw] at hsub ⊢
  cases hx : subs.find? (fun x => x.1 == w) with
  | none => simp [hx] at hsome
  | some x =>
    refine ⟨x, rfl, ?_⟩
    have hword : interp disp [⟨.always, none, some (src, .display)⟩] σ = [⟨none, .one w⟩] := by
      simp [interp, evalEntry, guardHolds, ival, hv, asWord, hw]
    have hitems : interp disp (pre ++ ⟨.always, none, some (src, .display)⟩ :: post) σ =
        interp disp pre σ ++ ⟨none, .one w⟩ :: interp disp post σ := by
      have : pre ++ ⟨.always, none, some (src, .display)⟩ :: post = pre ++ ([⟨.always, none, some (src, .display)⟩] ++ post) := rfl
      rw [this, interp_append, interp_append, hword]; rfl
    have hsplit := splitAtPositional_append (interp disp pre σ) w (interp disp post σ)
      (flags_some_of_declared disp top σ pre hpre)
    have hpreparse := parseOpts_interp disp top σ pre Slots.empty hpre hndpre (fun _ _ _ _ => rfl)
    have hds : subDecls subs w = x.2.2 := by simp [subDecls, hx]
    have hpostparse : parseOpts x.2.2 (interp disp post σ) Slots.empty =
        .ok (slotsAfter disp (subDecls subs (lookupD disp "Custom")) σ post Slots.empty) := by
      by_cases hc : v = "Custom"
      · subst hc
        rw [← hds, ← hw]
        apply parseOpts_interp _ _ _ _ _ _ hndpost (fun _ _ _ _ => rfl)
        apply List.all_eq_true.mpr
        intro e he
        have := List.all_eq_true.mp hpost e he
        simp only [Bool.and_eq_true] at this
        exact this.2
      · have hg : ∀ e ∈ post, guardHolds σ e.guard = false := by
          intro e he
          have := List.all_eq_true.mp hpost e he
          simp only [Bool.and_eq_true, beq_iff_eq] at this
          rw [this.1]
          simp [guardHolds, hv, hc]
        rw [interp_nil_of_guards_false disp σ post hg, slotsAfter_of_guards_false disp _ σ post _ hg]
        rfl
    rw [hds] at hsub
    simp only [parse, hitems, hsplit, hpreparse, htop, hx, hpostparse, hsub]

end SafeNet.ArgTable
