import SafeNet.Model.SelfEnc
/-! Helper lemmas for C14: completion orders are permutations, an honest store answers with the stored chunk,
one fetch round inverts one self-encryption, and the pack loop maintains "the fetch loop gets back to the data". -/
namespace SafeNet.Proofs.SelfEnc
open SafeNet.Model.SelfEnc

variable {B DM : Type}

/-- What is assumed of the third-party crate, of sha3 and of the rmp codec (the `SE` parameter). -/
structure Laws (S : SE B DM) : Prop where
  /-- the produced chunks, put in index order (`ord`), are what the data map lists by content hash, and
  `decrypt_full_set` on that full set inverts `encrypt` -/
  enc_sound : ∀ b dm cs, S.enc b = some (dm, cs) → ∃ ord : List B, ord.Perm cs ∧ S.infos dm = ord.map S.hash ∧
    S.dec dm (ord.zipIdx.map fun ci => (ci.2, ci.1)) = some b
  /-- `decrypt_full_set` sorts the chunks by index first, so their order is irrelevant -/
  dec_perm : ∀ dm l l', l.Perm l' → S.dec dm l = S.dec dm l'
  /-- `encrypt` fails exactly below `MIN_ENCRYPTABLE_BYTES = 3` -/
  enc_none_iff_small : ∀ b, S.enc b = none ↔ S.len b < 3
  /-- rmp round trip of `DataMapLevel` -/
  unwrap_wrap : ∀ a dm, S.unwrap (S.wrap a dm) = some (a, dm)
  /-- rmp round trip of `Chunk` -/
  unbin_bin : ∀ b, S.unbin (S.bin b) = some b

/-- No two of these byte strings collide under `XorName::from_content`. This is a hypothesis about the byte strings at
hand (the chunks one encryption produced, the contents a set of holders offers), not a law: no hash function into a
bounded range is injective on all byte strings, and none of the theorems asks for that. -/
def NoCollision (S : SE B DM) (l : List B) : Prop := ∀ a ∈ l, ∀ b ∈ l, S.hash a = S.hash b → a = b

/-- What is assumed of the third-party crate about sizes, for the pack loop to come to an end: a serialised data-map
level longer than `floor` bytes is handed to `self_encryption::encrypt` as at least 3 bytes, and the serialised
`Additional` level of its data map is shorter than it. (Real crate: an input of `L` bytes gives `max 3 ⌈L / MAX⌉`
chunks and a level of roughly 110 bytes per chunk, so `floor` is the size of a three-chunk level — measured by the
harness; the shipped `MAX_CHUNK_SIZE` is 1 MiB.) -/
structure Shrinks (S : SE B DM) (floor : Nat) : Prop where
  two_le : 2 ≤ floor
  packed_large : ∀ b, floor < S.len b → 3 ≤ S.len (packedBytes S b)
  shrink : ∀ b dm cs, floor < S.len b → S.enc (packedBytes S b) = some (dm, cs) → S.len (S.wrap true dm) < S.len b

/-! ## Completion orders -/

theorem insertAt_perm {α : Type} (x : α) : ∀ (l : List α) (p : Nat), (insertAt p x l).Perm (x :: l)
  | [], _ => by simp [insertAt]
  | y :: ys, 0 => by simp [insertAt]
  | y :: ys, p + 1 => by
    simp only [insertAt]
    exact ((insertAt_perm x ys p).cons y).trans (List.Perm.swap x y ys)

theorem permute_perm {α : Type} : ∀ (code : List Nat) (l : List α), (permute code l).Perm l
  | _, [] => by simp [permute]
  | [], x :: xs => by simp [permute]
  | p :: ps, x :: xs => by
    simp only [permute]
    exact (insertAt_perm x _ p).trans ((permute_perm ps xs).cons x)

theorem insertAt_length_append {α : Type} (x : α) : ∀ (a b : List α), insertAt a.length x (a ++ b) = a ++ x :: b
  | [], [] => rfl
  | [], _ :: _ => rfl
  | y :: ys, b => by simp [insertAt, insertAt_length_append x ys b]

/-- every permutation has a code: `permute` reaches every arrangement of the tasks -/
theorem permute_surj {α : Type} : ∀ (l l' : List α), l'.Perm l → ∃ code, permute code l = l'
  | [], l', h => ⟨[], by rw [List.Perm.eq_nil h]; rfl⟩
  | x :: xs, l', h => by
    have hx : x ∈ l' := h.mem_iff.2 List.mem_cons_self
    obtain ⟨a, b, rfl⟩ := List.append_of_mem hx
    have hab : (a ++ b).Perm xs := (List.perm_middle.symm.trans h).cons_inv
    obtain ⟨ps, hps⟩ := permute_surj xs (a ++ b) hab
    exact ⟨a.length :: ps, by simp only [permute, hps, insertAt_length_append]⟩

theorem insertAt_map {α β : Type} (f : α → β) (x : α) : ∀ (l : List α) (p : Nat),
    (insertAt p x l).map f = insertAt p (f x) (l.map f)
  | [], _ => by simp [insertAt]
  | y :: ys, 0 => by simp [insertAt]
  | y :: ys, p + 1 => by simp [insertAt, insertAt_map f x ys p]

theorem permute_map {α β : Type} (f : α → β) : ∀ (code : List Nat) (l : List α),
    (permute code l).map f = permute code (l.map f)
  | _, [] => by simp [permute]
  | [], x :: xs => by simp [permute]
  | p :: ps, x :: xs => by simp [permute, insertAt_map, permute_map f ps xs]

theorem collect_ok {ε α : Type} : ∀ (l : List α), collect (l.map (Except.ok (ε := ε))) = .ok l
  | [] => rfl
  | a :: as => by simp [collect, collect_ok as]

/-! ## The honest store -/

/-- every chunk carries the hash of its value as address (true of everything `Chunk::new` makes) -/
def WF (S : SE B DM) (store : List (Chunk B)) : Prop := ∀ c ∈ store, c.address = S.hash c.value

theorem storeGet_hit (S : SE B DM) (store : List (Chunk B)) (hwf : WF S store)
    (hcf : NoCollision S (store.map (·.value))) (v : B)
    (hin : Chunk.new S v ∈ store) : ∃ c, storeGet store (S.hash v) = .ok c ∧ c.value = v := by
  unfold storeGet
  cases hf : store.find? (fun c => c.address == S.hash v) with
  | none =>
    have := List.find?_eq_none.1 hf _ hin
    simp [Chunk.new] at this
  | some c =>
    refine ⟨c, rfl, ?_⟩
    have hp := List.find?_some hf
    have hm := List.mem_of_find?_eq_some hf
    simp only [beq_iff_eq] at hp
    exact hcf _ (List.mem_map_of_mem hm) _ (List.mem_map_of_mem (f := (·.value)) hin) ((hwf c hm).symm.trans hp)

/-! ## One fetch round inverts one self-encryption -/

theorem fetch_round (S : SE B DM) (L : Laws S) (store : List (Chunk B)) (hwf : WF S store)
    (hcf : NoCollision S (store.map (·.value))) (b : B) (dm : DM) (cs : List B) (henc : S.enc b = some (dm, cs))
    (hin : ∀ c ∈ cs, Chunk.new S c ∈ store) (code : List Nat) :
    fetchFromDataMap S (storeGet store) code dm = .ok b := by
  obtain ⟨ord, hperm, hinfos, hdec⟩ := L.enc_sound b dm cs henc
  unfold fetchFromDataMap
  simp only [downloadTasks, Gen.SelfEnc.fetchRequestsEveryInfo, ↓reduceIte]
  rw [hinfos, List.zipIdx_map, permute_map]
  -- every task yields its own chunk
  have hmap : ((ord.zipIdx).map (Prod.map S.hash id)).map (taskResult (storeGet store))
      = ((ord.zipIdx).map fun ci => (ci.2, ci.1)).map Except.ok := by
    rw [List.map_map, List.map_map]
    apply List.map_congr_left
    intro ci hci
    obtain ⟨c, i⟩ := ci
    have hc : c ∈ cs := by
      have := List.mem_zipIdx hci
      rw [this.2.2]; exact hperm.mem_iff.1 (List.getElem_mem _)
    obtain ⟨c', hget, hval⟩ := storeGet_hit S store hwf hcf c (hin c hc)
    simp [Function.comp, Prod.map, taskResult, hget, hval]
  rw [hmap, ← permute_map, collect_ok]
  simp only
  rw [L.dec_perm dm _ _ (permute_perm code _), hdec]

/-! ## The pack loop -/

theorem pack_sub (S : SE B DM) (max : Nat) : ∀ (fuel : Nat) (content : B) (acc : List (Chunk B)) dmc out,
    packLoop S max fuel content acc = .ok (dmc, out) → ∀ c ∈ acc, c ∈ out := by
  intro fuel
  induction fuel with
  | zero => intro content acc dmc out h; simp [packLoop] at h
  | succ fuel ih =>
    intro content acc dmc out h c hc
    simp only [packLoop] at h
    split at h
    · simp only [Except.ok.injEq, Prod.mk.injEq] at h
      rw [← h.2]
      split <;> simp [hc]
    · split at h
      · cases h
      · rename_i dm next henc
        apply ih _ _ _ _ h
        split <;> simp [hc]

theorem pack_wf (S : SE B DM) (max : Nat) : ∀ (fuel : Nat) (content : B) (acc : List (Chunk B)) dmc out,
    packLoop S max fuel content acc = .ok (dmc, out) → WF S acc → WF S out ∧ dmc = Chunk.new S dmc.value := by
  intro fuel
  induction fuel with
  | zero => intro content acc dmc out h; simp [packLoop] at h
  | succ fuel ih =>
    intro content acc dmc out h hwf
    simp only [packLoop] at h
    split at h
    · simp only [Except.ok.injEq, Prod.mk.injEq] at h
      rw [← h.2, ← h.1]
      refine ⟨?_, rfl⟩
      intro c hc
      apply hwf c
      split at hc
      · exact List.mem_reverse.1 hc
      · exact hc
    · split at h
      · cases h
      · rename_i dm next henc
        apply ih _ _ _ _ h
        intro c hc
        have : c ∈ next.map (Chunk.new S) ∨ c ∈ acc := by
          split at hc
          · exact List.mem_append.1 hc
          · exact (List.mem_append.1 hc).symm
        cases this with
        | inl h1 =>
          obtain ⟨v, _, hv⟩ := List.mem_map.1 h1
          rw [← hv]; rfl
        | inr h2 => exact hwf c h2

/-- the chunks of the level that is packed in this iteration end up in the returned list -/
theorem pack_next_sub (S : SE B DM) (max fuel : Nat) (dm : DM) (next : List B) (acc : List (Chunk B)) dmc out
    (h : packLoop S max fuel (S.wrap true dm)
      (if Gen.SelfEnc.nextChunksPrepended then next.map (Chunk.new S) ++ acc else acc ++ next.map (Chunk.new S)) = .ok (dmc, out)) :
    ∀ c ∈ next, Chunk.new S c ∈ out := by
  intro c hc
  apply pack_sub S max fuel _ _ _ _ h
  split <;> simp [List.mem_map_of_mem hc]

/-- From level `lvl` the fetch loop (over this store, any completion orders, enough fuel) gets back to `data`. -/
def Good (S : SE B DM) (store : List (Chunk B)) (data : B) (lvl : Bool × DM) (depth : Nat) : Prop :=
  ∀ f, depth ≤ f → ∀ codes, fetchLoop S (storeGet store) f codes lvl = .ok data

/-- what the fetch loop unpacks is what the packer packed — needs the two generated flags to agree -/
theorem unpacked_packed (S : SE B DM) (L : Laws S) (content : B) :
    unpackedLevel S (packedBytes S content) = S.unwrap content := by
  simp [unpackedLevel, packedBytes, Gen.SelfEnc.packSerialisesChunk, Gen.SelfEnc.fetchUnwrapsChunk, L.unbin_bin]

theorem pack_good (S : SE B DM) (L : Laws S) (max : Nat) (store : List (Chunk B)) (hwf : WF S store)
    (hcf : NoCollision S (store.map (·.value))) (data : B) :
    ∀ (fuel : Nat) (content : B) (acc : List (Chunk B)) dmc out,
    packLoop S max fuel content acc = .ok (dmc, out) → (∀ c ∈ out, c ∈ store) →
    ∀ lvl depth, S.unwrap content = some lvl → Good S store data lvl depth →
    ∃ lvl' depth', S.unwrap dmc.value = some lvl' ∧ Good S store data lvl' depth' ∧ depth' ≤ depth + fuel := by
  intro fuel
  induction fuel with
  | zero => intro content acc dmc out h; simp [packLoop] at h
  | succ fuel ih =>
    intro content acc dmc out h hsub lvl depth hlvl hgood
    simp only [packLoop] at h
    split at h
    · simp only [Except.ok.injEq, Prod.mk.injEq] at h
      refine ⟨lvl, depth, ?_, hgood, by omega⟩
      rw [← h.1]; exact hlvl
    · split at h
      · cases h
      · rename_i dm next henc
        have hnext := pack_next_sub S max fuel dm next acc dmc out h
        obtain ⟨lvl', depth', h1, h2, h3⟩ := ih _ _ _ _ h hsub (true, dm) (depth + 1) (L.unwrap_wrap true dm) (by
          intro f hf codes
          obtain ⟨f', rfl⟩ : ∃ f', f = f' + 1 := ⟨f - 1, by omega⟩
          simp only [fetchLoop]
          rw [fetch_round S L store hwf hcf _ dm next henc (fun c hc => hsub _ (hnext c hc))]
          simp only [↓reduceIte]
          have : (Chunk.new S content).value = content := rfl
          rw [this, unpacked_packed S L content, hlvl]
          exact hgood f' (by omega) codes.tail)
        exact ⟨lvl', depth', h1, h2, by omega⟩

theorem pack_bounded (S : SE B DM) (max : Nat) : ∀ (fuel : Nat) (content : B) (acc : List (Chunk B)) dmc out,
    packLoop S max fuel content acc = .ok (dmc, out) → Gen.SelfEnc.packFits max (S.len dmc.value) = true := by
  intro fuel
  induction fuel with
  | zero => intro content acc dmc out h; simp [packLoop] at h
  | succ fuel ih =>
    intro content acc dmc out h
    simp only [packLoop] at h
    split at h
    · rename_i hfit
      simp only [Except.ok.injEq, Prod.mk.injEq] at h
      rw [← h.1]; exact hfit
    · split at h
      · cases h
      · exact ih _ _ _ _ h

/-- more fuel never changes a successful result -/
theorem pack_fuel_mono (S : SE B DM) (max : Nat) : ∀ (fuel : Nat) (content : B) (acc : List (Chunk B)) r,
    packLoop S max fuel content acc = .ok r → ∀ fuel', fuel ≤ fuel' → packLoop S max fuel' content acc = .ok r := by
  intro fuel
  induction fuel with
  | zero => intro content acc r h; simp [packLoop] at h
  | succ fuel ih =>
    intro content acc r h fuel' hle
    obtain ⟨f', rfl⟩ : ∃ f', fuel' = f' + 1 := ⟨fuel' - 1, by omega⟩
    simp only [packLoop] at h ⊢
    by_cases hfit : Gen.SelfEnc.packFits max (S.len (Chunk.new S content).value) = true
    · simp only [hfit, ↓reduceIte] at h ⊢; exact h
    · simp only [hfit, Bool.false_eq_true, ↓reduceIte] at h ⊢
      cases henc : S.enc (packedBytes S (Chunk.new S content).value) with
      | none => simp only [henc] at h; cases h
      | some p =>
        obtain ⟨dm, next⟩ := p
        simp only [henc] at h ⊢
        exact ih _ _ _ h f' (by omega)

/-- the pack loop comes to an end: with `len content + 1` iterations it returns -/
theorem pack_terminates (S : SE B DM) (L : Laws S) (max floor : Nat) (H : Shrinks S floor) (hfl : floor ≤ max) :
    ∀ (n : Nat) (content : B) (acc : List (Chunk B)), S.len content ≤ n →
      ∃ r, packLoop S max (n + 1) content acc = .ok r := by
  intro n
  induction n with
  | zero =>
    intro content acc hn
    simp only [packLoop]
    have hfit : Gen.SelfEnc.packFits max (S.len (Chunk.new S content).value) = true := by
      have : (Chunk.new S content).value = content := rfl
      simp [Gen.SelfEnc.packFits, this]; omega
    simp only [hfit, ↓reduceIte]
    exact ⟨_, rfl⟩
  | succ n ih =>
    intro content acc hn
    simp only [packLoop]
    have hval : (Chunk.new S content).value = content := rfl
    by_cases hfit : Gen.SelfEnc.packFits max (S.len (Chunk.new S content).value) = true
    · simp only [hfit, ↓reduceIte]; exact ⟨_, rfl⟩
    · simp only [hfit, Bool.false_eq_true, ↓reduceIte]
      have hbig : floor < S.len content := by
        rw [hval] at hfit
        simp [Gen.SelfEnc.packFits] at hfit; omega
      rw [hval]
      cases henc : S.enc (packedBytes S content) with
      | none =>
        have := (L.enc_none_iff_small _).1 henc
        have := H.packed_large content hbig
        omega
      | some p =>
        obtain ⟨dm, next⟩ := p
        simp only
        have hlt := H.shrink content dm next hbig henc
        exact ih (S.wrap true dm) _ (by omega)

/-! ## Two record sources that agree wherever both answer give the same data -/

theorem collect_eq_ok {ε α : Type} : ∀ (xs : List (Except ε α)) (l : List α), collect xs = .ok l → xs = l.map Except.ok
  | [], l, h => by simp [collect] at h; subst h; rfl
  | .error e :: _, l, h => by simp [collect] at h
  | .ok a :: rest, l, h => by
    simp only [collect] at h
    cases hr : collect rest with
    | error e => simp [hr] at h
    | ok as =>
      simp only [hr, Except.ok.injEq] at h
      subst h
      simp [collect_eq_ok rest as hr]

theorem filterMap_toOption_ok {ε α : Type} (l : List α) :
    (l.map (Except.ok (ε := ε))).filterMap Except.toOption = l := by
  induction l with
  | nil => rfl
  | cons a as ih => simp [Except.toOption, ih]

theorem filterMap_congr' {α β : Type} (f g : α → Option β) : ∀ (l : List α), (∀ x ∈ l, f x = g x) →
    l.filterMap f = l.filterMap g
  | [], _ => rfl
  | x :: xs, h => by
    simp only [List.filterMap_cons, h x List.mem_cons_self]
    rw [filterMap_congr' f g xs (fun y hy => h y (List.mem_cons_of_mem _ hy))]

/-- `get` and `get'` never answer the same address with different content -/
def Agree (get get' : Nat → Except GetErr (Chunk B)) : Prop :=
  ∀ a c c', get a = .ok c → get' a = .ok c' → c.value = c'.value

theorem fetch_round_agree (S : SE B DM) (L : Laws S) (get get' : Nat → Except GetErr (Chunk B)) (hag : Agree get get')
    (code code' : List Nat) (dm : DM) (d d' : B)
    (h : fetchFromDataMap S get code dm = .ok d) (h' : fetchFromDataMap S get' code' dm = .ok d') : d = d' := by
  unfold fetchFromDataMap at h h'
  simp only [downloadTasks, Gen.SelfEnc.fetchRequestsEveryInfo, ↓reduceIte] at h h'
  cases hc : collect ((permute code (S.infos dm).zipIdx).map (taskResult get)) with
  | error e => simp [hc] at h
  | ok l =>
    cases hc' : collect ((permute code' (S.infos dm).zipIdx).map (taskResult get')) with
    | error e => simp [hc'] at h'
    | ok l' =>
      simp only [hc] at h
      simp only [hc'] at h'
      have e1 := collect_eq_ok _ _ hc
      have e2 := collect_eq_ok _ _ hc'
      -- the chunk lists as filterMaps over the tasks
      have hl : l = (permute code (S.infos dm).zipIdx).filterMap (Except.toOption ∘ taskResult get) := by
        rw [← List.filterMap_map, e1, filterMap_toOption_ok]
      have hl' : l' = (permute code' (S.infos dm).zipIdx).filterMap (Except.toOption ∘ taskResult get') := by
        rw [← List.filterMap_map, e2, filterMap_toOption_ok]
      -- every task succeeded under both sources
      have hall : ∀ t ∈ (S.infos dm).zipIdx, ∃ y, taskResult get t = .ok y := by
        intro t ht
        have : taskResult get t ∈ (permute code (S.infos dm).zipIdx).map (taskResult get) :=
          List.mem_map_of_mem ((permute_perm code _).mem_iff.2 ht)
        rw [e1] at this
        obtain ⟨y, _, hy⟩ := List.mem_map.1 this
        exact ⟨y, hy.symm⟩
      have hall' : ∀ t ∈ (S.infos dm).zipIdx, ∃ y, taskResult get' t = .ok y := by
        intro t ht
        have : taskResult get' t ∈ (permute code' (S.infos dm).zipIdx).map (taskResult get') :=
          List.mem_map_of_mem ((permute_perm code' _).mem_iff.2 ht)
        rw [e2] at this
        obtain ⟨y, _, hy⟩ := List.mem_map.1 this
        exact ⟨y, hy.symm⟩
      have hsame : (S.infos dm).zipIdx.filterMap (Except.toOption ∘ taskResult get)
          = (S.infos dm).zipIdx.filterMap (Except.toOption ∘ taskResult get') := by
        apply filterMap_congr'
        intro t ht
        obtain ⟨y, hy⟩ := hall t ht
        obtain ⟨y', hy'⟩ := hall' t ht
        simp only [Function.comp, hy, hy']
        unfold taskResult at hy hy'
        cases hg : get t.1 with
        | error e => simp [hg] at hy
        | ok c =>
          cases hg' : get' t.1 with
          | error e => simp [hg'] at hy'
          | ok c' =>
            simp only [hg, Except.ok.injEq] at hy
            simp only [hg', Except.ok.injEq] at hy'
            rw [← hy, ← hy', hag t.1 c c' hg hg']
      have hperm : l.Perm l' := by
        rw [hl, hl']
        exact ((permute_perm code _).filterMap _).trans (hsame ▸ ((permute_perm code' _).filterMap _).symm)
      rw [L.dec_perm dm l l' hperm] at h
      cases hd : S.dec dm l' with
      | none => simp [hd] at h
      | some x =>
        simp only [hd, Except.ok.injEq] at h h'
        rw [← h, ← h']

theorem fetch_loop_agree (S : SE B DM) (L : Laws S) (get get' : Nat → Except GetErr (Chunk B)) (hag : Agree get get') :
    ∀ (f f' : Nat) (codes codes' : List (List Nat)) (lvl : Bool × DM) (d d' : B),
    fetchLoop S get f codes lvl = .ok d → fetchLoop S get' f' codes' lvl = .ok d' → d = d' := by
  intro f
  induction f with
  | zero => intro f' codes codes' lvl d d' h; simp [fetchLoop] at h
  | succ f ih =>
    intro f' codes codes' lvl d d' h h'
    cases f' with
    | zero => simp [fetchLoop] at h'
    | succ f' =>
      obtain ⟨additional, dm⟩ := lvl
      simp only [fetchLoop] at h h'
      cases hr : fetchFromDataMap S get (codes.headD []) dm with
      | error e => rw [hr] at h; cases h
      | ok x =>
        cases hr' : fetchFromDataMap S get' (codes'.headD []) dm with
        | error e => rw [hr'] at h'; cases h'
        | ok x' =>
          have hx := fetch_round_agree S L get get' hag _ _ dm x x' hr hr'
          subst hx
          simp only [hr] at h
          simp only [hr'] at h'
          cases additional with
          | false =>
            simp only [Bool.false_eq_true, ↓reduceIte, Except.ok.injEq] at h h'
            rw [← h, ← h']
          | true =>
            simp only [↓reduceIte] at h h'
            cases hu : unpackedLevel S x with
            | none => rw [hu] at h; cases h
            | some lvl' =>
              simp only [hu] at h h'
              exact ih f' _ _ lvl' d d' h h'

theorem fetch_chunk_agree (S : SE B DM) (L : Laws S) (get get' : Nat → Except GetErr (Chunk B)) (hag : Agree get get')
    (f f' : Nat) (codes codes' : List (List Nat)) (bytes : B) (d d' : B)
    (h : fetchFromDataMapChunk S get f codes bytes = .ok d) (h' : fetchFromDataMapChunk S get' f' codes' bytes = .ok d') :
    d = d' := by
  unfold fetchFromDataMapChunk at h h'
  cases hu : S.unwrap bytes with
  | none => simp [hu] at h
  | some lvl =>
    simp only [hu] at h h'
    exact fetch_loop_agree S L get get' hag f f' codes codes' lvl d d' h h'

end SafeNet.Proofs.SelfEnc
