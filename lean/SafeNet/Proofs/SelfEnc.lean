import SafeNet.Model.SelfEnc
/-! Helper lemmas for C14: completion orders are permutations, an honest store answers with the stored chunk,
one fetch round inverts one self-encryption, and the pack loop maintains "the fetch loop gets back to the data". -/
namespace SafeNet.Proofs.SelfEnc
open SafeNet.Model.SelfEnc

variable {B DM : Type}

/-- What is assumed of the third-party crate, of sha3 and of the rmp codec (the `SE` parameter). -/
structure Laws (S : SE B DM) : Prop where
  /-- the produced chunks, put in index order (`ord`), are what the data map lists by content hash, and
  `decrypt_full_set` on that full set inverts `encrypt` -/
  enc_sound : ∀ b dm cs, S.enc b = some (dm, cs) → ∃ ord : List B, ord.Perm cs ∧ S.infos dm = ord.map S.hash ∧
    S.dec dm (ord.zipIdx.map fun ci => (ci.2, ci.1)) = some b
  /-- `decrypt_full_set` sorts the chunks by index first, so their order is irrelevant -/
  dec_perm : ∀ dm l l', l.Perm l' → S.dec dm l = S.dec dm l'
  /-- `encrypt` fails exactly below `MIN_ENCRYPTABLE_BYTES = 3` -/
  enc_none_iff_small : ∀ b, S.enc b = none ↔ S.len b < 3
  /-- rmp round trip of `DataMapLevel` -/
  unwrap_wrap : ∀ a dm, S.unwrap (S.wrap a dm) = some (a, dm)
  /-- rmp round trip of `Chunk` -/
  unbin_bin : ∀ b, S.unbin (S.bin b) = some b
  /-- sha3-256 is collision-free -/
  hash_inj : ∀ a b, S.hash a = S.hash b → a = b

/-! ## Completion orders -/

theorem insertAt_perm {α : Type} (x : α) : ∀ (l : List α) (p : Nat), (insertAt p x l).Perm (x :: l)
  | [], _ => by simp [insertAt]
  | y :: ys, 0 => by simp [insertAt]
  | y :: ys, p + 1 => by
    simp only [insertAt]
    exact ((insertAt_perm x ys p).cons y).trans (List.Perm.swap x y ys)

theorem permute_perm {α : Type} : ∀ (code : List Nat) (l : List α), (permute code l).Perm l
  | _, [] => by simp [permute]
  | [], x :: xs => by simp [permute]
  | p :: ps, x :: xs => by
    simp only [permute]
    exact (insertAt_perm x _ p).trans ((permute_perm ps xs).cons x)

theorem insertAt_map {α β : Type} (f : α → β) (x : α) : ∀ (l : List α) (p : Nat),
    (insertAt p x l).map f = insertAt p (f x) (l.map f)
  | [], _ => by simp [insertAt]
  | y :: ys, 0 => by simp [insertAt]
  | y :: ys, p + 1 => by simp [insertAt, insertAt_map f x ys p]

theorem permute_map {α β : Type} (f : α → β) : ∀ (code : List Nat) (l : List α),
    (permute code l).map f = permute code (l.map f)
  | _, [] => by simp [permute]
  | [], x :: xs => by simp [permute]
  | p :: ps, x :: xs => by simp [permute, insertAt_map, permute_map f ps xs]

theorem collect_ok {ε α : Type} : ∀ (l : List α), collect (l.map (Except.ok (ε := ε))) = .ok l
  | [] => rfl
  | a :: as => by simp [collect, collect_ok as]

/-! ## The honest store -/

/-- every chunk carries the hash of its value as address (true of everything `Chunk::new` makes) -/
def WF (S : SE B DM) (store : List (Chunk B)) : Prop := ∀ c ∈ store, c.address = S.hash c.value

theorem storeGet_hit (S : SE B DM) (L : Laws S) (store : List (Chunk B)) (hwf : WF S store) (v : B)
    (hin : Chunk.new S v ∈ store) : ∃ c, storeGet store (S.hash v) = .ok c ∧ c.value = v := by
  unfold storeGet
  cases hf : store.find? (fun c => c.address == S.hash v) with
  | none =>
    have := List.find?_eq_none.1 hf _ hin
    simp [Chunk.new] at this
  | some c =>
    refine ⟨c, rfl, ?_⟩
    have hp := List.find?_some hf
    have hm := List.mem_of_find?_eq_some hf
    simp only [beq_iff_eq] at hp
    exact L.hash_inj _ _ ((hwf c hm).symm.trans hp)

/-! ## One fetch round inverts one self-encryption -/

theorem fetch_round (S : SE B DM) (L : Laws S) (store : List (Chunk B)) (hwf : WF S store)
    (b : B) (dm : DM) (cs : List B) (henc : S.enc b = some (dm, cs))
    (hin : ∀ c ∈ cs, Chunk.new S c ∈ store) (code : List Nat) :
    fetchFromDataMap S (storeGet store) code dm = .ok b := by
  obtain ⟨ord, hperm, hinfos, hdec⟩ := L.enc_sound b dm cs henc
  unfold fetchFromDataMap
  simp only
  rw [hinfos, List.zipIdx_map, permute_map]
  -- every task yields its own chunk
  have hmap : ((ord.zipIdx).map (Prod.map S.hash id)).map (taskResult (storeGet store))
      = ((ord.zipIdx).map fun ci => (ci.2, ci.1)).map Except.ok := by
    rw [List.map_map, List.map_map]
    apply List.map_congr_left
    intro ci hci
    obtain ⟨c, i⟩ := ci
    have hc : c ∈ cs := by
      have := List.mem_zipIdx hci
      rw [this.2.2]; exact hperm.mem_iff.1 (List.getElem_mem _)
    obtain ⟨c', hget, hval⟩ := storeGet_hit S L store hwf c (hin c hc)
    simp [Function.comp, Prod.map, taskResult, hget, hval]
  rw [hmap, ← permute_map, collect_ok]
  simp only
  rw [L.dec_perm dm _ _ (permute_perm code _), hdec]

/-! ## The pack loop -/

theorem pack_sub (S : SE B DM) (max : Nat) : ∀ (fuel : Nat) (content : B) (acc : List (Chunk B)) dmc out,
    packLoop S max fuel content acc = .ok (dmc, out) → ∀ c ∈ acc, c ∈ out := by
  intro fuel
  induction fuel with
  | zero => intro content acc dmc out h; simp [packLoop] at h
  | succ fuel ih =>
    intro content acc dmc out h c hc
    simp only [packLoop] at h
    split at h
    · simp only [Except.ok.injEq, Prod.mk.injEq] at h
      rw [← h.2]
      split <;> simp [hc]
    · split at h
      · cases h
      · rename_i dm next henc
        apply ih _ _ _ _ h
        split <;> simp [hc]

theorem pack_wf (S : SE B DM) (max : Nat) : ∀ (fuel : Nat) (content : B) (acc : List (Chunk B)) dmc out,
    packLoop S max fuel content acc = .ok (dmc, out) → WF S acc → WF S out ∧ dmc = Chunk.new S dmc.value := by
  intro fuel
  induction fuel with
  | zero => intro content acc dmc out h; simp [packLoop] at h
  | succ fuel ih =>
    intro content acc dmc out h hwf
    simp only [packLoop] at h
    split at h
    · simp only [Except.ok.injEq, Prod.mk.injEq] at h
      rw [← h.2, ← h.1]
      refine ⟨?_, rfl⟩
      intro c hc
      apply hwf c
      split at hc
      · exact List.mem_reverse.1 hc
      · exact hc
    · split at h
      · cases h
      · rename_i dm next henc
        apply ih _ _ _ _ h
        intro c hc
        have : c ∈ next.map (Chunk.new S) ∨ c ∈ acc := by
          split at hc
          · exact List.mem_append.1 hc
          · exact (List.mem_append.1 hc).symm
        cases this with
        | inl h1 =>
          obtain ⟨v, _, hv⟩ := List.mem_map.1 h1
          rw [← hv]; rfl
        | inr h2 => exact hwf c h2

/-- the chunks of the level that is packed in this iteration end up in the returned list -/
theorem pack_next_sub (S : SE B DM) (max fuel : Nat) (dm : DM) (next : List B) (acc : List (Chunk B)) dmc out
    (h : packLoop S max fuel (S.wrap true dm)
      (if Gen.SelfEnc.nextChunksPrepended then next.map (Chunk.new S) ++ acc else acc ++ next.map (Chunk.new S)) = .ok (dmc, out)) :
    ∀ c ∈ next, Chunk.new S c ∈ out := by
  intro c hc
  apply pack_sub S max fuel _ _ _ _ h
  split <;> simp [List.mem_map_of_mem hc]

/-- From level `lvl` the fetch loop (over this store, any completion orders, enough fuel) gets back to `data`. -/
def Good (S : SE B DM) (store : List (Chunk B)) (data : B) (lvl : Bool × DM) (depth : Nat) : Prop :=
  ∀ f, depth ≤ f → ∀ codes, fetchLoop S (storeGet store) f codes lvl = .ok data

/-- what the fetch loop unpacks is what the packer packed — needs the two generated flags to agree -/
theorem unpacked_packed (S : SE B DM) (L : Laws S) (content : B) :
    unpackedLevel S (packedBytes S content) = S.unwrap content := by
  simp [unpackedLevel, packedBytes, Gen.SelfEnc.packSerialisesChunk, Gen.SelfEnc.fetchUnwrapsChunk, L.unbin_bin]

theorem pack_good (S : SE B DM) (L : Laws S) (max : Nat) (store : List (Chunk B)) (hwf : WF S store) (data : B) :
    ∀ (fuel : Nat) (content : B) (acc : List (Chunk B)) dmc out,
    packLoop S max fuel content acc = .ok (dmc, out) → (∀ c ∈ out, c ∈ store) →
    ∀ lvl depth, S.unwrap content = some lvl → Good S store data lvl depth →
    ∃ lvl' depth', S.unwrap dmc.value = some lvl' ∧ Good S store data lvl' depth' ∧ depth' ≤ depth + fuel := by
  intro fuel
  induction fuel with
  | zero => intro content acc dmc out h; simp [packLoop] at h
  | succ fuel ih =>
    intro content acc dmc out h hsub lvl depth hlvl hgood
    simp only [packLoop] at h
    split at h
    · simp only [Except.ok.injEq, Prod.mk.injEq] at h
      refine ⟨lvl, depth, ?_, hgood, by omega⟩
      rw [← h.1]; exact hlvl
    · split at h
      · cases h
      · rename_i dm next henc
        have hnext := pack_next_sub S max fuel dm next acc dmc out h
        obtain ⟨lvl', depth', h1, h2, h3⟩ := ih _ _ _ _ h hsub (true, dm) (depth + 1) (L.unwrap_wrap true dm) (by
          intro f hf codes
          obtain ⟨f', rfl⟩ : ∃ f', f = f' + 1 := ⟨f - 1, by omega⟩
          simp only [fetchLoop]
          rw [fetch_round S L store hwf _ dm next henc (fun c hc => hsub _ (hnext c hc))]
          simp only [↓reduceIte]
          have : (Chunk.new S content).value = content := rfl
          rw [this, unpacked_packed S L content, hlvl]
          exact hgood f' (by omega) codes.tail)
        exact ⟨lvl', depth', h1, h2, by omega⟩

theorem pack_bounded (S : SE B DM) (max : Nat) : ∀ (fuel : Nat) (content : B) (acc : List (Chunk B)) dmc out,
    packLoop S max fuel content acc = .ok (dmc, out) → Gen.SelfEnc.packFits max (S.len dmc.value) = true := by
  intro fuel
  induction fuel with
  | zero => intro content acc dmc out h; simp [packLoop] at h
  | succ fuel ih =>
    intro content acc dmc out h
    simp only [packLoop] at h
    split at h
    · rename_i hfit
      simp only [Except.ok.injEq, Prod.mk.injEq] at h
      rw [← h.1]; exact hfit
    · split at h
      · cases h
      · exact ih _ _ _ _ h

/-- more fuel never changes a successful result -/
theorem pack_fuel_mono (S : SE B DM) (max : Nat) : ∀ (fuel : Nat) (content : B) (acc : List (Chunk B)) r,
    packLoop S max fuel content acc = .ok r → ∀ fuel', fuel ≤ fuel' → packLoop S max fuel' content acc = .ok r := by
  intro fuel
  induction fuel with
  | zero => intro content acc r h; simp [packLoop] at h
  | succ fuel ih =>
    intro content acc r h fuel' hle
    obtain ⟨f', rfl⟩ : ∃ f', fuel' = f' + 1 := ⟨fuel' - 1, by omega⟩
    simp only [packLoop] at h ⊢
    by_cases hfit : Gen.SelfEnc.packFits max (S.len (Chunk.new S content).value) = true
    · simp only [hfit, ↓reduceIte] at h ⊢; exact h
    · simp only [hfit, Bool.false_eq_true, ↓reduceIte] at h ⊢
      cases henc : S.enc (packedBytes S (Chunk.new S content).value) with
      | none => simp only [henc] at h; cases h
      | some p =>
        obtain ⟨dm, next⟩ := p
        simp only [henc] at h ⊢
        exact ih _ _ _ h f' (by omega)

end SafeNet.Proofs.SelfEnc
