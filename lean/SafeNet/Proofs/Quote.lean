import SafeNet.Proofs.MsgPack
import SafeNet.Model.Quote
/-! Helper lemmas for C13: the metrics encoding is well-formed and injective; shape of the signing bytes. -/
namespace SafeNet.Quote
open SafeNet.MsgPack SafeNet.Gen.Quote

theorem wfList_map_uint (d : List Nat) (h : ∀ b ∈ d, b < 256) : wfList (d.map Val.uint) = true := by
  induction d with
  | nil => rfl
  | cons b bs ih =>
    have hb := h b (by simp)
    simp only [List.map_cons, wfList, wf, Bool.and_eq_true, decide_eq_true_eq]
    exact ⟨by omega, ih (fun x hx => h x (by simp [hx]))⟩

theorem map_uint_inj (a b : List Nat) (h : a.map Val.uint = b.map Val.uint) : a = b := by
  induction a generalizing b with
  | nil => cases b <;> simp_all
  | cons x xs ih =>
    cases b with
    | nil => simp at h
    | cons y ys =>
      simp only [List.map_cons, List.cons.injEq, Val.uint.injEq] at h
      rw [h.1, ih ys h.2]

theorem Metrics.toVal_wf (m : Metrics) (h : m.ok) : WellFormed m.toVal := by
  obtain ⟨h1, h2, h3, h4, h5, h6⟩ := h
  have e64 : (2 : Nat) ^ 64 = 18446744073709551616 := by decide
  rw [e64] at h1 h2 h3 h4 h6
  unfold WellFormed Metrics.toVal
  cases hd : m.networkDensity with
  | none =>
    cases hs : m.networkSize with
    | none => simp [wf, wfList, h1, h2, h3, h4]
    | some n => have := h6 n hs; simp [wf, wfList, h1, h2, h3, h4, this]
  | some d =>
    obtain ⟨hl, hb⟩ := h5 d hd
    have hw := wfList_map_uint d hb
    cases hs : m.networkSize with
    | none => simp [wf, wfList, h1, h2, h3, h4, hw, hl]
    | some n => have := h6 n hs; simp [wf, wfList, h1, h2, h3, h4, this, hw, hl]

theorem Metrics.toVal_inj (a b : Metrics) (h : a.toVal = b.toVal) : a = b := by
  obtain ⟨a1, a2, a3, a4, a5, a6⟩ := a
  obtain ⟨b1, b2, b3, b4, b5, b6⟩ := b
  simp only [Metrics.toVal, Val.arr.injEq, List.cons.injEq, Val.uint.injEq, and_true] at h
  obtain ⟨rfl, rfl, rfl, rfl, h5, h6⟩ := h
  have e5 : a5 = b5 := by
    cases a5 <;> cases b5 <;> simp_all
    exact map_uint_inj _ _ h5
  have e6 : a6 = b6 := by
    cases a6 <;> cases b6 <;> simp_all
  rw [e5, e6]

/-- the signing bytes, spelled out (this is where the generated part order is consumed) -/
theorem sigBytes_eq (q : Quote) :
    q.sigBytes = q.content ++ (toLE 8 q.secs ++ (encode q.metrics.toVal ++ q.rewards)) := by
  simp [Quote.sigBytes, bytesForSigning, signingParts, partBytes]

theorem hashInput_eq (q : Quote) : q.hashInput = q.sigBytes ++ (q.pubKey ++ q.signature) := by
  simp [Quote.hashInput, hashParts]

end SafeNet.Quote
