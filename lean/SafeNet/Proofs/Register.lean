import SafeNet.Model.Register
namespace SafeNet.Register
open SafeNet.Gen.Register

/-- Two op lists denote the same `BTreeSet`. -/
def SetEq (a b : List Op) : Prop := ∀ x, x ∈ a ↔ x ∈ b

theorem SetEq.refl (a : List Op) : SetEq a a := fun _ => Iff.rfl
theorem SetEq.symm {a b : List Op} (h : SetEq a b) : SetEq b a := fun x => (h x).symm
theorem SetEq.trans {a b c : List Op} (h₁ : SetEq a b) (h₂ : SetEq b c) : SetEq a c :=
  fun x => (h₁ x).trans (h₂ x)

theorem mem_insertOp {s : List Op} {x y : Op} : x ∈ insertOp s y ↔ x ∈ s ∨ x = y := by
  unfold insertOp
  split
  · constructor
    · intro h; exact Or.inl h
    · rintro (h | rfl) <;> assumption
  · simp

theorem mem_unionOps {s t : List Op} {x : Op} : x ∈ unionOps s t ↔ x ∈ s ∨ x ∈ t := by
  unfold unionOps
  induction t generalizing s with
  | nil => simp
  | cons y t ih =>
    simp only [List.foldl_cons, List.mem_cons]
    rw [ih, mem_insertOp]
    constructor
    · rintro ((h | h) | h)
      · exact Or.inl h
      · exact Or.inr (Or.inl h)
      · exact Or.inr (Or.inr h)
    · rintro (h | h | h)
      · exact Or.inl (Or.inl h)
      · exact Or.inl (Or.inr h)
      · exact Or.inr h

theorem insertOp_of_mem {s : List Op} {x : Op} (h : x ∈ s) : insertOp s x = s := by
  simp [insertOp, h]

theorem unionOps_of_subset {s t : List Op} (h : ∀ x ∈ t, x ∈ s) : unionOps s t = s := by
  unfold unionOps
  induction t generalizing s with
  | nil => rfl
  | cons y t ih =>
    simp only [List.foldl_cons]
    rw [insertOp_of_mem (h y (List.mem_cons_self ..))]
    exact ih (fun x hx => h x (List.mem_cons_of_mem _ hx))

theorem nodup_insertOp {s : List Op} {x : Op} (h : s.Nodup) : (insertOp s x).Nodup := by
  unfold insertOp
  split
  · exact h
  · rename_i hx
    rw [List.nodup_append]
    refine ⟨h, by simp, ?_⟩
    intro a ha b hb
    simp at hb
    subst hb
    intro e; subst e; exact hx ha

theorem nodup_unionOps {s t : List Op} (h : s.Nodup) : (unionOps s t).Nodup := by
  unfold unionOps
  induction t generalizing s with
  | nil => exact h
  | cons y t ih => exact ih (nodup_insertOp h)

theorem length_insertOp_le (s : List Op) (x : Op) : (insertOp s x).length ≤ s.length + 1 := by
  unfold insertOp; split <;> simp

/-! ### mergeability -/

theorem mergeable_symm (a b : Base) : mergeable a b = mergeable b a := by
  unfold mergeable
  simp only [mergeableComparesAddr, mergeableComparesPerms, Bool.true_and]
  have h1 : (a.addr ≠ b.addr) = (b.addr ≠ a.addr) := by simp [eq_comm]
  have h2 : (a.owner ≠ b.owner) = (b.owner ≠ a.owner) := by simp [eq_comm]
  have h3 : (a.perms ≠ b.perms) = (b.perms ≠ a.perms) := by simp [eq_comm]
  simp only [ne_eq] at *
  simp [eq_comm]

theorem mergeable_iff (a b : Base) :
    mergeable a b = true ↔ a.addr = b.addr ∧ a.owner = b.owner ∧ a.perms = b.perms := by
  unfold mergeable
  simp [mergeableComparesAddr, mergeableComparesPerms]
  constructor
  · rintro ⟨⟨h1, h2⟩, h3⟩; exact ⟨h1, h2, h3⟩
  · rintro ⟨h1, h2, h3⟩; exact ⟨⟨h1, h2⟩, h3⟩

theorem mergeable_refl (a : Base) : mergeable a a = true := by
  rw [mergeable_iff]; exact ⟨rfl, rfl, rfl⟩

/-! ### validity of an op against a base register -/

/-- What the property demands of every op in a replica. -/
def Valid (b : Base) (op : Op) : Prop :=
  op.addr = b.addr ∧
  (b.perms = .anyone ∨ (b.perms.canWrite op.source = true ∧ op.sigOk = true)) ∧
  op.size ≤ maxEntrySize

theorem checkOp_ok_iff (b : Base) (op : Op) :
    checkOp b op = .ok () ↔
      op.addr = b.addr ∧ (b.perms = .anyone ∨ (b.perms.canWrite op.source = true ∧ op.sigOk = true)) := by
  unfold checkOp
  simp only [checkOpChecksAddr, checkOpAnyoneShortCircuit, checkOpChecksPerm, checkOpChecksSig, Bool.true_and]
  by_cases ha : op.addr = b.addr
  · by_cases hp : b.perms = .anyone
    · simp [ha, hp]
    · by_cases hw : b.perms.canWrite op.source = true
      · by_cases hs : op.sigOk = true
        · simp [ha, hp, hw, hs]
        · simp [ha, hp, hw, hs]
      · simp [ha, hp, hw]
  · simp [ha]

theorem verifyOp_ok_iff (b : Base) (op : Op) : verifyOp b op = .ok () ↔ Valid b op := by
  unfold verifyOp Valid
  simp only [verifyChecksOps, ↓reduceIte]
  cases h : checkOp b op with
  | error e =>
    have : ¬ (checkOp b op = .ok ()) := by rw [h]; simp
    rw [checkOp_ok_iff] at this
    constructor
    · intro h'; cases h'
    · intro ⟨h1, h2, _⟩
      exact absurd ⟨h1, h2⟩ this
  | ok u =>
    cases u
    have hc := (checkOp_ok_iff b op).mp h
    simp only [verifySizeCmp, Cmp.rejects]
    by_cases hs : op.size > maxEntrySize
    · simp [hs]
    · simp [hs]; exact ⟨hc.1, hc.2, by omega⟩

theorem firstErr_ok_iff (b : Base) (ops : List Op) : firstErr b ops = .ok () ↔ ∀ op ∈ ops, Valid b op := by
  induction ops with
  | nil => simp [firstErr]
  | cons op rest ih =>
    unfold firstErr
    cases h : verifyOp b op with
    | error e =>
      have : ¬ Valid b op := by rw [← verifyOp_ok_iff, h]; simp
      simp only [List.mem_cons, forall_eq_or_imp]
      constructor
      · intro h'; cases h'
      · intro ⟨hv, _⟩; exact absurd hv this
    | ok u =>
      cases u
      have hv : Valid b op := (verifyOp_ok_iff b op).mp h
      simp only [ih, List.mem_cons, forall_eq_or_imp, hv, true_and]

end SafeNet.Register
