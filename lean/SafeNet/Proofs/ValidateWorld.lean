import SafeNet.Proofs.ValidateData
/-!
# Every schedule of concurrent validations: who may put what

The small-step semantics `World` lets any number of validations run interleaved, each store read an explicit
step that may be served at any later time, and lets the store **drop any key at any point** (`Act.remove`:
capacity eviction, range clean-up, removal of a failed write).  The key set is therefore not monotone, and a
validation can be told "held" by `RecordStoreHasKey` and find nothing when it reads the record.

This file proves, over **all** action lists (`World.run`), by induction over the list:
* `put_justified` — about the validation that writes: every put an action emits is under the key its delivery
  reads and writes, that key passed the key check, and the delivery is a replication delivery, or paid in
  full, or the put is an *update*: the validation's own `GetLocalRecord` was served a record of the delivered
  kind from the store as it was at some earlier point of the schedule;
* `any_schedule_held_is_justified` — every key the store holds was held initially or is the put key of a
  started, key-checked validation that was a replication delivery or paid in full (an update never creates a
  key: what it updates was held, hence accounted for, earlier).
The per-step facts are the table-level lemmas of `Proofs/Validate.lean` (which hold for *every* observation
vector, hence whatever the interleaving made the validation observe).
-/
namespace SafeNet.Validate
open SafeNet.Gen.Validate

/-! ## Store facts -/

theorem Store.get_put_same' (s : Store) (k : Nat) (c : Content) : (s.put k c).get k = some c := by
  induction s with
  | nil => simp [Store.put, Store.get]
  | cons e rest ih =>
    obtain ⟨k', c'⟩ := e
    unfold Store.put
    split
    · simp [Store.get]
    · rename_i h; simp [Store.get, h, ih]

theorem Store.get_put_ne' (s : Store) (k k' : Nat) (c : Content) (h : k' ≠ k) :
    (s.put k' c).get k = s.get k := by
  induction s with
  | nil => simp [Store.put, Store.get, h]
  | cons e rest ih =>
    obtain ⟨k2, c2⟩ := e
    unfold Store.put
    split
    · rename_i h2; subst h2; simp [Store.get, h]
    · simp [Store.get, ih]

theorem Store.get_remove (s : Store) (k k' : Nat) :
    (s.remove k').get k = if k = k' then none else s.get k := by
  induction s with
  | nil => simp [Store.remove, Store.get]
  | cons e rest ih =>
    obtain ⟨k2, c2⟩ := e
    unfold Store.remove at ih ⊢
    rw [List.filter_cons]
    by_cases h2 : k2 = k'
    · subst h2
      simp only [bne_self_eq_false, Bool.false_eq_true, if_false, ih]
      by_cases hk : k = k2
      · simp [hk]
      · have : ¬ k2 = k := fun h => hk h.symm
        simp [hk, Store.get, this]
    · have hb : (k2 != k') = true := by simp [h2]
      simp only [hb, if_true]
      unfold Store.get
      by_cases hk2 : k2 = k
      · subst hk2; simp [h2]
      · simp only [hk2, if_false]; exact ih

/-- dropping a key never makes another key held -/
theorem Store.remove_sub (s : Store) (k k' : Nat) (h : (s.remove k').get k ≠ none) : s.get k ≠ none := by
  rw [Store.get_remove] at h
  by_cases hk : k = k'
  · simp [hk] at h
  · simpa [hk] using h

/-- a put never removes a key -/
theorem Store.put_keeps (s : Store) (k k' : Nat) (c : Content) (h : s.get k ≠ none) :
    (s.put k' c).get k ≠ none := by
  by_cases hk : k' = k
  · subst hk; rw [Store.get_put_same']; simp
  · rw [Store.get_put_ne' _ _ _ _ hk]; exact h

theorem applyToks_keeps (toks : List Tok) (s : Store) (k : Nat) (h : s.get k ≠ none) :
    (applyToks s toks).get k ≠ none := by
  induction toks generalizing s with
  | nil => exact h
  | cons t rest ih =>
    cases t with
    | W k' c' => exact ih _ (Store.put_keeps s k k' c' h)
    | H _ | G _ | K | V | P _ | F _ _ | R _ _ => exact ih s h

/-- a key held after applying a trace was held before or some put of the trace is for it -/
theorem applyToks_new (toks : List Tok) (s : Store) (k : Nat)
    (h : (applyToks s toks).get k ≠ none) : s.get k ≠ none ∨ ∃ c, Tok.W k c ∈ toks := by
  induction toks generalizing s with
  | nil => exact Or.inl h
  | cons t rest ih =>
    cases t with
    | W k' c' =>
      rcases ih (s.put k' c') h with h1 | ⟨c, hc⟩
      · by_cases hk : k' = k
        · subst hk; exact Or.inr ⟨c', by simp⟩
        · rw [Store.get_put_ne' _ _ _ _ hk] at h1; exact Or.inl h1
      · exact Or.inr ⟨c, by simp [hc]⟩
    | H _ | G _ | K | V | P _ | F _ _ | R _ _ =>
      rcases ih s h with h1 | ⟨c, hc⟩
      · exact Or.inl h1
      · exact Or.inr ⟨c, by simp [hc]⟩

/-! ## What one validation may put, whatever it observed -/

/-- all six payment conditions hold (Boolean form of `Props.C03.PaidInFull`) -/
def paidB (d : Delivery) : Bool :=
  isPaid d.kind && (match d.pay with | some p => (vecOf p).all | none => false)

/-- replication delivery, or client upload paid in full -/
def Legit (d : Delivery) : Prop := d.client = false ∨ paidB d = true

/-- the record key passed the key check: it is the key read and written and, unless the delivery is a
replicated transaction vector, the key the content determines -/
def KeyOk (d : Delivery) : Prop :=
  rwKey d = d.rk ∧ (¬ (d.client = false ∧ d.kind = .tx) → derivedKey d.content = some d.rk)

theorem paidB_of_obs {d : Delivery} {a : Ans}
    (h : ((obsOfAns d a).pay == .ok && isPaid d.kind) = true) : paidB d = true := by
  simp only [Bool.and_eq_true, beq_iff_eq] at h
  obtain ⟨hp, hk⟩ := h
  rw [obs_pay] at hp
  unfold paidB
  rw [hk]
  cases hd : d.pay with
  | none => rw [hd] at hp; simp at hp
  | some p =>
    rw [hd] at hp
    have := payCheck_ok_iff_all (vecOf p)
    simp only [hp, beq_self_eq_true] at this
    simp [← this]

/-- `GetLocalRecord` answered with a record exactly when the observation says so -/
theorem lSome_read {d : Delivery} {a : Ans} (h : (obsOfAns d a).lSome = true) : ∃ c0, a.g = some (some c0) := by
  rw [obs_lSome] at h
  cases hg : a.g with
  | none => rw [hg] at h; simp at h
  | some x =>
    cases x with
    | none => rw [hg] at h; simp at h
    | some c0 => exact ⟨c0, rfl⟩

/-- the local copy decodes as the delivered kind only if it is of that kind -/
theorem lOk_fam {d : Delivery} {a : Ans} {c0 : Content} (hg : a.g = some (some c0))
    (h : (obsOfAns d a).lOk = true) : contentFam d.content = some c0.fam := by
  obtain ⟨client, kind, rk, content, pay⟩ := d
  cases content <;> cases c0 <;> simp_all [obsOfAns, contentFam, Content.fam]

theorem parse_fam {d : Delivery} {a : Ans} (h : (obsOfAns d a).parse = true) :
    contentFam d.content = some (kindFam d.kind) := by
  rw [obs_parse] at h
  unfold parseOk at h
  simp only [Bool.and_eq_true, beq_iff_eq] at h
  exact h.1.1

/-- the content a put carries is of the delivered kind -/
theorem written_fam (d : Delivery) (a : Ans) (m : Bool) (n : Nat) (h : contentFam d.content = some n) :
    (written d a m).fam = n := by
  obtain ⟨client, kind, rk, content, pay⟩ := d
  cases content with
  | bad => simp [contentFam] at h
  | chunk id => simp [contentFam] at h; simp [written, Content.fam, h]
  | chunkPre pre => simp [contentFam] at h; simp [written, Content.fam, h]
  | pad o c v => simp [contentFam] at h; simp [written, Content.fam, h]
  | txs l =>
    simp [contentFam] at h
    simp only [written]
    split <;> simp [Content.fam, h]
  | reg id b ops =>
    simp [contentFam] at h
    simp only [written]
    split
    · split <;> simp [Content.fam, h]
    · simp [Content.fam, h]

/-- the put is an **update**: the validation's own `GetLocalRecord` was served a record `c0` of the delivered
(mutable) kind -/
def ReadLocal (d : Delivery) (a : Ans) : Prop :=
  kindFam d.kind ≠ 0 ∧ ∃ c0, a.g = some (some c0) ∧ c0.fam = kindFam d.kind

/-- **Per-validation put lemma.**  Whatever answers `a` a validation of `d` has received, every put in its
trace is under `rwKey d`, carries content of the delivered kind, the key check passed, and the delivery is
legitimate or the put is an update of a record of that kind the validation itself read from the store. -/
theorem W_of_any_obs {d : Delivery} {a : Ans} {k : Nat} {c : Content}
    (h : Tok.W k c ∈ (tr d.client d.kind (obsOfAns d a)).map (inst d a)) :
    k = rwKey d ∧ c.fam = kindFam d.kind ∧ KeyOk d ∧ (Legit d ∨ ReadLocal d a) := by
  obtain ⟨hk, hw, hc⟩ := W_mem_inv h
  have hm := imp_of_bool (tbl_put_needs_key_match d.client d.kind (obsOfAns d a)) hw
  simp only [Bool.and_eq_true, Bool.or_eq_true, Bool.not_eq_eq_eq_not, Bool.not_true, beq_iff_eq] at hm
  have hfam := parse_fam hm.2
  refine ⟨hk, ?_, ?_, ?_⟩
  · rcases hc with ⟨_, rfl⟩ | ⟨_, rfl⟩ <;> exact written_fam d a _ _ hfam
  · by_cases hv : d.client = false ∧ d.kind = .tx
    · obtain ⟨hc, hkd⟩ := hv
      refine ⟨by simp [rwKey, hc, hkd, route_repl_tx], fun hn => absurd ⟨hc, hkd⟩ hn⟩
    · have hkm : (obsOfAns d a).km = true := by
        rcases hm.1 with h1 | h1
        · exact h1
        · exact absurd h1 hv
      obtain ⟨hd, hr⟩ := km_true_key hkm hv
      exact ⟨hr, fun _ => hd⟩
  · cases hcl : d.client with
    | false => exact Or.inl (Or.inl hcl)
    | true =>
      by_cases hp : ((obsOfAns d a).pay == .ok && isPaid d.kind) = true
      · exact Or.inl (Or.inr (paidB_of_obs hp))
      · right
        have hcond : ((obsOfAns d a).pay != .ok || !isPaid d.kind) = true := by
          cases h1 : isPaid d.kind
          · simp
          · cases h2 : (obsOfAns d a).pay <;> simp_all
        have := imp_of_bool (tbl_unpaid_put_reads_local d.client d.kind (obsOfAns d a))
          (and3 hcl hw hcond)
        simp only [Bool.and_eq_true, bne_iff_ne, ne_eq] at this
        obtain ⟨⟨hs, hok⟩, hf⟩ := this
        obtain ⟨c0, hg⟩ := lSome_read hs
        refine ⟨hf, c0, hg, ?_⟩
        have := lOk_fam hg hok
        rw [hfam] at this
        exact (Option.some.inj this).symm

/-- every token `advance` emits is an instantiated token of the validation's trace at its current answers -/
theorem advance_toks_sub (f : Flight) (s : Store) (t : Tok) (h : t ∈ (advance f s).toks) :
    t ∈ (tr f.d.client f.d.kind (obsOfAns f.d f.a)).map (inst f.d f.a) := by
  unfold advance at h
  simp only at h
  unfold tr Out.trace
  split at h
  · simp only at h
    rw [List.mem_map] at h ⊢
    obtain ⟨tk, htk, he⟩ := h
    refine ⟨tk, ?_, he⟩
    have h1 := List.mem_of_mem_drop htk
    have h2 := List.mem_of_mem_take h1
    exact List.mem_append_left _ h2
  · simp only at h
    rw [List.mem_map] at h ⊢
    obtain ⟨tk, htk, he⟩ := h
    refine ⟨tk, ?_, he⟩
    rcases List.mem_append.mp htk with h1 | h1
    · exact List.mem_append_left _ (List.mem_of_mem_drop h1)
    · exact List.mem_append_right _ h1

theorem advance_store (f : Flight) (s : Store) : (advance f s).store = applyToks s (advance f s).toks := by
  unfold advance
  simp only
  split <;> rfl

theorem advance_flight_d (f : Flight) (s : Store) : (advance f s).flight.d = f.d := by
  unfold advance
  simp only
  split <;> rfl

theorem advance_flight_a (f : Flight) (s : Store) : (advance f s).flight.a = f.a := by
  unfold advance
  simp only
  split <;> rfl

/-! ## The history invariant -/

/-- deliveries of the `begin` actions that were legal (the id was free), in order -/
def startedBy (w : World) : List Act → List Delivery
  | [] => []
  | a :: rest =>
    (match a with
      | .begin id d => if (w.flight id).isNone then [d] else []
      | _ => []) ++ startedBy (w.act a).1 rest

/-- the local stores a schedule passes through: before its first action and after every action -/
def storesAlong (w : World) : List Act → List Store
  | [] => [w.store]
  | a :: rest => w.store :: storesAlong (w.act a).1 rest

/-- the delivery whose validation an action runs -/
def World.actor (w : World) : Act → Option Delivery
  | .begin id d => if (w.flight id).isNone then some d else none
  | .run id => (w.flight id).map (·.d)
  | _ => none

def putOf (d : Delivery) : Tok → Option (Delivery × Nat × Content)
  | .W k c => some (d, k, c)
  | _ => none

/-- the puts (`PutLocalRecord`) one action emits, each with the delivery whose validation emitted it -/
def World.putsOf (w : World) (a : Act) : List (Delivery × Nat × Content) :=
  match (w.act a).2, w.actor a with
  | some (_, toks), some d => toks.filterMap (putOf d)
  | _, _ => []

/-- key `k` is accounted for: held initially, or put target of a started, key-checked, legitimate validation -/
def Just (s0 : Store) (D : List Delivery) (k : Nat) : Prop :=
  s0.get k ≠ none ∨ ∃ d ∈ D, rwKey d = k ∧ KeyOk d ∧ Legit d

theorem Just.mono {s0 : Store} {D D' : List Delivery} {k : Nat} (h : Just s0 D k)
    (hsub : ∀ d ∈ D, d ∈ D') : Just s0 D' k := by
  rcases h with h | ⟨d, hd, h⟩
  · exact Or.inl h
  · exact Or.inr ⟨d, hsub d hd, h⟩

/-- `H`: the stores passed through so far (the current one among them); `D`: the deliveries started so far -/
structure Inv (s0 : Store) (H : List Store) (D : List Delivery) (w : World) : Prop where
  cur : w.store ∈ H
  past : ∀ s ∈ H, ∀ k, s.get k ≠ none → Just s0 D k
  flights : ∀ p ∈ w.flights, p.2.d ∈ D ∧
    ∀ c0, p.2.a.g = some (some c0) → ∃ s ∈ H, s.get (rwKey p.2.d) = some c0

theorem Inv.mono {s0 : Store} {H H' : List Store} {D D' : List Delivery} {w : World} (h : Inv s0 H D w)
    (hH : ∀ s ∈ H, s ∈ H') (hD : ∀ d ∈ D, d ∈ D') (hpast : ∀ s ∈ H', s ∈ H) : Inv s0 H' D' w :=
  ⟨hH _ h.cur, fun s hs k hk => (h.past s (hpast s hs) k hk).mono hD,
   fun p hp => ⟨hD _ (h.flights p hp).1, fun c0 hc => by
     obtain ⟨s, hs, hg⟩ := (h.flights p hp).2 c0 hc
     exact ⟨s, hH s hs, hg⟩⟩⟩

theorem flight_mem {w : World} {id : Nat} {f : Flight} (h : w.flight id = some f) :
    ∃ p ∈ w.flights, p.2 = f := by
  unfold World.flight at h
  cases hf : w.flights.find? (·.1 == id) with
  | none => rw [hf] at h; simp at h
  | some p =>
    rw [hf] at h
    simp only [Option.map_some, Option.some.injEq] at h
    exact ⟨p, List.mem_of_find?_eq_some hf, h⟩

theorem mem_setFlight {w : World} {id : Nat} {fo : Option Flight} {p : Nat × Flight}
    (h : p ∈ (w.setFlight id fo).flights) : p ∈ w.flights ∨ fo = some p.2 := by
  unfold World.setFlight at h
  simp only at h
  cases fo with
  | none =>
    simp only at h
    exact Or.inl (List.mem_filter.mp h).1
  | some f =>
    simp only at h
    rcases List.mem_append.mp h with h1 | h1
    · exact Or.inl (List.mem_filter.mp h1).1
    · simp only [List.mem_singleton] at h1
      right; rw [h1]

theorem setFlight_store (w : World) (id : Nat) (fo : Option Flight) : (w.setFlight id fo).store = w.store := rfl

/-- what one `advance` of a flight may put (the flight's local read, if any, came from a store of `H`) -/
theorem advance_put {H : List Store} (f : Flight) (s : Store)
    (hfg : ∀ c0, f.a.g = some (some c0) → ∃ s' ∈ H, s'.get (rwKey f.d) = some c0)
    {k : Nat} {c : Content} (hW : Tok.W k c ∈ (advance f s).toks) :
    k = rwKey f.d ∧ c.fam = kindFam f.d.kind ∧ KeyOk f.d ∧
      (Legit f.d ∨ (kindFam f.d.kind ≠ 0 ∧ ∃ c0, c0.fam = kindFam f.d.kind ∧ ∃ s' ∈ H, s'.get k = some c0)) := by
  obtain ⟨hk, hc, hko, hl⟩ := W_of_any_obs (advance_toks_sub f s _ hW)
  refine ⟨hk, hc, hko, ?_⟩
  rcases hl with hl | ⟨hf, c0, hg, hfam⟩
  · exact Or.inl hl
  · obtain ⟨s', hs', hget⟩ := hfg c0 hg
    exact Or.inr ⟨hf, c0, hfam, s', hs', by rw [hk]; exact hget⟩

/-- one `advance` of a flight that satisfies the flight clause keeps the invariant (the new store joins the history) -/
theorem inv_advance {s0 : Store} {H : List Store} {D : List Delivery} {w : World} (hinv : Inv s0 H D w)
    (f : Flight) (hfD : f.d ∈ D)
    (hfg : ∀ c0, f.a.g = some (some c0) → ∃ s ∈ H, s.get (rwKey f.d) = some c0) (id : Nat) :
    Inv s0 (H ++ [(advance f w.store).store]) D (({ w with store := (advance f w.store).store }).setFlight id
      (if (advance f w.store).done.isSome then none else some (advance f w.store).flight)) := by
  have hnew : ∀ k, (advance f w.store).store.get k ≠ none → Just s0 D k := by
    intro k hk
    rw [advance_store] at hk
    rcases applyToks_new _ _ _ hk with h1 | ⟨c, hc⟩
    · exact hinv.past _ hinv.cur k h1
    · obtain ⟨hkk, _, hko, hl⟩ := advance_put f w.store hfg hc
      rcases hl with hl | ⟨_, c0, _, s', hs', hget⟩
      · exact Or.inr ⟨f.d, hfD, hkk.symm, hko, hl⟩
      · exact hinv.past s' hs' k (by rw [hget]; simp)
  constructor
  · rw [setFlight_store]; simp
  · intro s hs k hk
    rcases List.mem_append.mp hs with h1 | h1
    · exact hinv.past s h1 k hk
    · simp only [List.mem_singleton] at h1
      rw [h1] at hk; exact hnew k hk
  · intro p hp
    rcases mem_setFlight hp with h1 | h1
    · obtain ⟨hd, hh⟩ := hinv.flights p h1
      refine ⟨hd, fun c0 hc => ?_⟩
      obtain ⟨s, hs, hg⟩ := hh c0 hc
      exact ⟨s, List.mem_append_left _ hs, hg⟩
    · split at h1
      · simp at h1
      · simp only [Option.some.injEq] at h1
        rw [← h1, advance_flight_d, advance_flight_a]
        refine ⟨hfD, fun c0 hc => ?_⟩
        obtain ⟨s, hs, hg⟩ := hfg c0 hc
        exact ⟨s, List.mem_append_left _ hs, hg⟩

theorem serve_d (f : Flight) (s : Store) : (serve f s).d = f.d := by
  unfold serve
  split <;> rfl

/-- serving a read keeps the flight clause: a record is handed out only if the store holds it at that moment -/
theorem serve_g {H : List Store} (f : Flight) (s : Store) (hs : s ∈ H)
    (hfg : ∀ c0, f.a.g = some (some c0) → ∃ s' ∈ H, s'.get (rwKey f.d) = some c0) :
    ∀ c0, (serve f s).a.g = some (some c0) → ∃ s' ∈ H, s'.get (rwKey (serve f s).d) = some c0 := by
  rw [serve_d]
  unfold serve
  split
  · exact hfg
  · intro c0 hc
    simp only [Option.some.injEq] at hc
    exact ⟨s, hs, hc⟩
  · exact hfg

/-- **One scheduler action keeps the invariant** (started list extended by a legal `begin`, history by the new store). -/
theorem inv_act {s0 : Store} {H : List Store} {D : List Delivery} {w : World} (hinv : Inv s0 H D w) (a : Act) :
    Inv s0 (H ++ [(w.act a).1.store]) (D ++ startedBy w [a]) (w.act a).1 := by
  have hmonoD : ∀ {w' : World} {H' : List Store} {E : List Delivery}, Inv s0 H' D w' → Inv s0 H' (D ++ E) w' := by
    intro w' H' E h
    exact h.mono (fun _ hs => hs) (fun d hd => List.mem_append_left _ hd) (fun _ hs => hs)
  have hsame : ∀ {D' : List Delivery}, Inv s0 H D' w → Inv s0 (H ++ [w.store]) D' w := by
    intro D' h
    refine h.mono (fun s hs => List.mem_append_left _ hs) (fun _ hd => hd) (fun s hs => ?_)
    rcases List.mem_append.mp hs with h1 | h1
    · exact h1
    · simp only [List.mem_singleton] at h1; rw [h1]; exact h.cur
  cases a with
  | «begin» id d =>
    simp only [World.act, startedBy]
    cases hf : w.flight id with
    | some f0 => simpa using hsame hinv
    | none =>
      simp only [Option.isNone_none, if_true, List.append_nil]
      have hinv' : Inv s0 H (D ++ [d]) w := hmonoD hinv
      have := inv_advance hinv' (Flight.start d) (by simp [Flight.start])
        (by simp [Flight.start]) id
      simpa [setFlight_store] using this
  | ans id =>
    simp only [World.act, startedBy, List.append_nil]
    cases hf : w.flight id with
    | none => exact hsame hinv
    | some f =>
      simp only
      split
      · obtain ⟨p, hp, hpf⟩ := flight_mem hf
        obtain ⟨hd, hh⟩ := hinv.flights p hp
        rw [hpf] at hd hh
        rw [setFlight_store]
        have hb := hsame hinv
        refine ⟨hb.cur, hb.past, ?_⟩
        intro q hq
        rcases mem_setFlight hq with h1 | h1
        · exact hb.flights q h1
        · simp only [Option.some.injEq] at h1
          rw [← h1]
          refine ⟨by rw [serve_d]; exact hd, ?_⟩
          exact serve_g f w.store hb.cur (fun c0 hc => by
            obtain ⟨s, hs, hg⟩ := hh c0 hc
            exact ⟨s, List.mem_append_left _ hs, hg⟩)
      · exact hsame hinv
  | run id =>
    simp only [World.act, startedBy, List.append_nil]
    cases hf : w.flight id with
    | none => exact hsame hinv
    | some f =>
      simp only
      split
      · obtain ⟨p, hp, hpf⟩ := flight_mem hf
        obtain ⟨hd, hh⟩ := hinv.flights p hp
        rw [hpf] at hd hh
        have := inv_advance hinv f hd hh id
        simpa [setFlight_store] using this
      · exact hsame hinv
  | remove k =>
    simp only [World.act, startedBy, List.append_nil]
    refine ⟨by simp, ?_, ?_⟩
    · intro s hs k' hk'
      rcases List.mem_append.mp hs with h1 | h1
      · exact hinv.past s h1 k' hk'
      · simp only [List.mem_singleton] at h1
        rw [h1] at hk'
        exact hinv.past _ hinv.cur k' (Store.remove_sub _ _ _ hk')
    · intro p hp
      obtain ⟨hd, hh⟩ := hinv.flights p hp
      refine ⟨hd, fun c0 hc => ?_⟩
      obtain ⟨s, hs, hg⟩ := hh c0 hc
      exact ⟨s, List.mem_append_left _ hs, hg⟩

theorem startedBy_cons (w : World) (a : Act) (rest : List Act) :
    startedBy w (a :: rest) = startedBy w [a] ++ startedBy (w.act a).1 rest := by
  simp [startedBy]

theorem storesAlong_head (w : World) (acts : List Act) : w.store ∈ storesAlong w acts := by
  cases acts <;> simp [storesAlong]

/-- **Every schedule keeps the invariant.** -/
theorem inv_run {s0 : Store} {H : List Store} {D : List Delivery} {w : World} (hinv : Inv s0 H D w) (acts : List Act) :
    Inv s0 (H ++ storesAlong w acts) (D ++ startedBy w acts) (w.run acts) := by
  induction acts generalizing H D w with
  | nil =>
    simp only [World.run, startedBy, storesAlong, List.append_nil, List.foldl_nil]
    refine hinv.mono (fun s hs => List.mem_append_left _ hs) (fun _ hd => hd) (fun s hs => ?_)
    rcases List.mem_append.mp hs with h1 | h1
    · exact h1
    · simp only [List.mem_singleton] at h1; rw [h1]; exact hinv.cur
  | cons a rest ih =>
    have h1 := inv_act hinv a
    have h2 := ih h1
    rw [startedBy_cons, ← List.append_assoc]
    have hrun : w.run (a :: rest) = (w.act a).1.run rest := by simp [World.run]
    rw [hrun]
    refine h2.mono (fun s hs => ?_) (fun _ hd => hd) (fun s hs => ?_)
    · rcases List.mem_append.mp hs with h3 | h3
      · rcases List.mem_append.mp h3 with h4 | h4
        · exact List.mem_append_left _ h4
        · simp only [List.mem_singleton] at h4
          rw [h4]
          exact List.mem_append_right _ (by simp [storesAlong, storesAlong_head])
      · exact List.mem_append_right _ (by simp [storesAlong, h3])
    · rcases List.mem_append.mp hs with h3 | h3
      · exact List.mem_append_left _ (List.mem_append_left _ h3)
      · simp only [storesAlong, List.mem_cons] at h3
        rcases h3 with h4 | h4
        · rw [h4]; exact List.mem_append_left _ (List.mem_append_left _ hinv.cur)
        · exact List.mem_append_right _ h4

theorem inv_init (s0 : Store) : Inv s0 [s0] [] ⟨s0, []⟩ :=
  ⟨by simp, fun s hs k hk => by simp only [List.mem_singleton] at hs; rw [hs] at hk; exact Or.inl hk,
   fun p hp => by simp at hp⟩

/-- the invariant after any schedule from an initial store, with the history that schedule passed through -/
theorem inv_after (s0 : Store) (acts : List Act) :
    Inv s0 (storesAlong ⟨s0, []⟩ acts) (startedBy ⟨s0, []⟩ acts) (World.run ⟨s0, []⟩ acts) := by
  have h := inv_run (inv_init s0) acts
  simp only [List.nil_append] at h
  refine h.mono (fun s hs => ?_) (fun _ hd => hd) (fun s hs => List.mem_append_right _ hs)
  rcases List.mem_append.mp hs with h1 | h1
  · simp only [List.mem_singleton] at h1
    rw [h1]; exact storesAlong_head ⟨s0, []⟩ acts
  · exact h1

/-- every store of the history is the store after a prefix of the schedule -/
theorem storesAlong_prefix (w : World) (acts : List Act) (s : Store) (h : s ∈ storesAlong w acts) :
    ∃ pre, pre <+: acts ∧ (w.run pre).store = s := by
  induction acts generalizing w with
  | nil =>
    simp only [storesAlong, List.mem_singleton] at h
    exact ⟨[], List.prefix_refl _, by simp [World.run, h]⟩
  | cons a rest ih =>
    simp only [storesAlong, List.mem_cons] at h
    rcases h with h | h
    · exact ⟨[], List.nil_prefix, by simp [World.run, h]⟩
    · obtain ⟨pre, hp, hs⟩ := ih (w.act a).1 h
      exact ⟨a :: pre, by simpa using hp, by simpa [World.run] using hs⟩

/-- **Main theorem of this file (keys).**  From any initial store, after any list of scheduler actions (any number
of validations, reads served at any time, keys dropped at any time, any interleaving), every key the store holds was
held initially or is the put key of a validation that was started, whose record key passed the key check and which
was a replication delivery or paid in full. -/
theorem any_schedule_held_is_justified (s0 : Store) (acts : List Act) (k : Nat)
    (h : (World.run ⟨s0, []⟩ acts).store.get k ≠ none) :
    Just s0 (startedBy ⟨s0, []⟩ acts) k :=
  (inv_after s0 acts).past _ (inv_after s0 acts).cur k h

theorem mem_startedBy_append (w : World) (pre : List Act) (a : Act) (d : Delivery)
    (h : d ∈ startedBy w pre ∨ d ∈ startedBy (w.run pre) [a]) : d ∈ startedBy w (pre ++ [a]) := by
  induction pre generalizing w with
  | nil => simpa [World.run, startedBy] using h
  | cons b rest ih =>
    rw [List.cons_append, startedBy_cons]
    rcases h with h | h
    · rw [startedBy_cons] at h
      rcases List.mem_append.mp h with h1 | h1
      · exact List.mem_append_left _ h1
      · exact List.mem_append_right _ (ih _ (Or.inl h1))
    · have : w.run (b :: rest) = (w.act b).1.run rest := by simp [World.run]
      rw [this] at h
      exact List.mem_append_right _ (ih _ (Or.inr h))

theorem putsOf_ans (w : World) (id : Nat) : w.putsOf (.ans id) = [] := by
  unfold World.putsOf World.actor
  cases (w.act (Act.ans id)).2 with
  | none => rfl
  | some x => rfl

theorem putsOf_remove (w : World) (k : Nat) : w.putsOf (.remove k) = [] := by
  unfold World.putsOf World.actor
  cases (w.act (Act.remove k)).2 with
  | none => rfl
  | some x => rfl

theorem putsOf_begin {w : World} {id : Nat} (d : Delivery) (hf : w.flight id = none) :
    w.putsOf (.begin id d) = (advance (Flight.start d) w.store).toks.filterMap (putOf d) := by
  simp [World.putsOf, World.act, World.actor, hf]

theorem putsOf_begin_busy {w : World} {id : Nat} {d : Delivery} {f : Flight} (hf : w.flight id = some f) :
    w.putsOf (.begin id d) = [] := by
  simp [World.putsOf, World.act, World.actor, hf]

theorem putsOf_run_none {w : World} {id : Nat} (hf : w.flight id = none) : w.putsOf (.run id) = [] := by
  simp [World.putsOf, World.act, World.actor, hf]

theorem putsOf_run {w : World} {id : Nat} {f : Flight} (hf : w.flight id = some f) :
    w.putsOf (.run id) = if f.answered then (advance f w.store).toks.filterMap (putOf f.d) else [] := by
  by_cases h : f.answered = true <;> simp [World.putsOf, World.act, World.actor, hf, h]

/-- **Main theorem of this file (writers).**  After any schedule `pre`, whichever action `a` comes next: every put
it emits, for the delivery `d` whose validation emits it, is under `rwKey d`, carries content of the delivered kind,
`d` was started and passed the key check, and `d` is a replication delivery, or paid in full, or the put is an
**update**: the store held a record `c0` of the delivered (mutable) kind under that key after some prefix of `pre`
(namely when this validation's `GetLocalRecord` was served). -/
theorem put_justified (s0 : Store) (pre : List Act) (a : Act) (d : Delivery) (k : Nat) (c : Content)
    (hput : (d, k, c) ∈ (World.run ⟨s0, []⟩ pre).putsOf a) :
    k = rwKey d ∧ c.fam = kindFam d.kind ∧ KeyOk d ∧ d ∈ startedBy ⟨s0, []⟩ (pre ++ [a]) ∧
      (Legit d ∨ (kindFam d.kind ≠ 0 ∧ ∃ c0, c0.fam = kindFam d.kind ∧
        ∃ pre', pre' <+: pre ∧ (World.run ⟨s0, []⟩ pre').store.get k = some c0)) := by
  have hinv := inv_after s0 pre
  generalize hw : World.run ⟨s0, []⟩ pre = w at hput hinv
  have hfin : ∀ (f : Flight), (∀ c0, f.a.g = some (some c0) → ∃ s' ∈ storesAlong ⟨s0, []⟩ pre, s'.get (rwKey f.d) = some c0) →
      f.d = d → f.d ∈ startedBy ⟨s0, []⟩ (pre ++ [a]) → Tok.W k c ∈ (advance f w.store).toks →
      k = rwKey d ∧ c.fam = kindFam d.kind ∧ KeyOk d ∧ d ∈ startedBy ⟨s0, []⟩ (pre ++ [a]) ∧
      (Legit d ∨ (kindFam d.kind ≠ 0 ∧ ∃ c0, c0.fam = kindFam d.kind ∧
        ∃ pre', pre' <+: pre ∧ (World.run ⟨s0, []⟩ pre').store.get k = some c0)) := by
    intro f hfg hfd hst hW
    obtain ⟨hk, hc, hko, hl⟩ := advance_put f w.store hfg hW
    rw [hfd] at hk hc hko hl hst
    refine ⟨hk, hc, hko, hst, ?_⟩
    rcases hl with hl | ⟨hf, c0, hfam, s', hs', hget⟩
    · exact Or.inl hl
    · obtain ⟨pre', hp, hs⟩ := storesAlong_prefix _ _ _ hs'
      exact Or.inr ⟨hf, c0, hfam, pre', hp, by rw [hs]; exact hget⟩
  have hmemW : ∀ {toks : List Tok}, (d, k, c) ∈ toks.filterMap (putOf d) → Tok.W k c ∈ toks := by
    intro toks h
    rw [List.mem_filterMap] at h
    obtain ⟨t, ht, he⟩ := h
    cases t <;> simp [putOf] at he
    obtain ⟨rfl, rfl⟩ := he
    exact ht
  cases a with
  | «begin» id d' =>
    cases hf : w.flight id with
    | some f0 => rw [putsOf_begin_busy hf] at hput; simp at hput
    | none =>
      rw [putsOf_begin _ hf] at hput
      have hd : d' = d := by
        rw [List.mem_filterMap] at hput
        obtain ⟨t, _, he⟩ := hput
        cases t <;> simp [putOf] at he
        exact he.1
      subst hd
      refine hfin (Flight.start d') (by simp [Flight.start]) rfl ?_ (hmemW hput)
      apply mem_startedBy_append
      right
      rw [hw]
      simp [startedBy, Flight.start, hf]
  | ans id => rw [putsOf_ans] at hput; simp at hput
  | run id =>
    cases hf : w.flight id with
    | none => rw [putsOf_run_none hf] at hput; simp at hput
    | some f =>
      rw [putsOf_run hf] at hput
      obtain ⟨p, hp, hpf⟩ := flight_mem hf
      obtain ⟨hdD, hh⟩ := hinv.flights p hp
      rw [hpf] at hdD hh
      split at hput
      · have hd : f.d = d := by
          rw [List.mem_filterMap] at hput
          obtain ⟨t, _, he⟩ := hput
          cases t <;> simp [putOf] at he
          exact he.1
        refine hfin f hh hd ?_ ?_
        · exact mem_startedBy_append _ _ _ _ (Or.inl hdD)
        · rw [hd] at hput; exact hmemW hput
      · simp at hput
  | remove k' => rw [putsOf_remove] at hput; simp at hput

/-- `putsOf` misses nothing: a key an action makes held is the key of one of the puts it emits -/
theorem new_key_is_put (w : World) (a : Act) (k : Nat) (hnew : w.store.get k = none)
    (hheld : (w.act a).1.store.get k ≠ none) : ∃ d c, (d, k, c) ∈ w.putsOf a := by
  have hW : ∀ (d : Delivery) (toks : List Tok), (applyToks w.store toks).get k ≠ none →
      ∃ c, (d, k, c) ∈ toks.filterMap (putOf d) := by
    intro d toks h
    rcases applyToks_new _ _ _ h with h1 | ⟨c, hc⟩
    · exact absurd hnew h1
    · exact ⟨c, List.mem_filterMap.mpr ⟨_, hc, rfl⟩⟩
  cases a with
  | «begin» id d =>
    cases hf : w.flight id with
    | some f0 => simp only [World.act, hf] at hheld; exact absurd hnew hheld
    | none =>
      simp only [World.act, hf, setFlight_store, advance_store] at hheld
      rw [putsOf_begin d hf]
      obtain ⟨c, hc⟩ := hW d _ hheld
      exact ⟨d, c, hc⟩
  | ans id =>
    cases hf : w.flight id with
    | none => simp only [World.act, hf] at hheld; exact absurd hnew hheld
    | some f =>
      simp only [World.act, hf] at hheld
      split at hheld
      · rw [setFlight_store] at hheld; exact absurd hnew hheld
      · exact absurd hnew hheld
  | run id =>
    cases hf : w.flight id with
    | none => simp only [World.act, hf] at hheld; exact absurd hnew hheld
    | some f =>
      simp only [World.act, hf] at hheld
      rw [putsOf_run hf]
      split at hheld
      · rename_i hans
        simp only [setFlight_store, advance_store] at hheld
        simp only [hans, if_true]
        obtain ⟨c, hc⟩ := hW f.d _ hheld
        exact ⟨f.d, c, hc⟩
      · exact absurd hnew hheld
  | remove k' =>
    simp only [World.act] at hheld
    exact absurd hnew (Store.remove_sub _ _ _ hheld)

end SafeNet.Validate
